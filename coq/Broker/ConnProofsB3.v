(* ConnProofsB3.v — invariants of the broker-connection model used by the C07
   exactly-once proofs: the closure table has unique keys, a goroutine is inside at
   most one closure, the incoming store has unique keys; exact case analysis of a
   closure step; frames of the other coroutines on closure table and incoming store. *)
From Coq Require Import List NArith Bool Lia.
From GM Require Import Base.Lts Codec.Packet Session.Ids Session.Store Session.StoreProofs
  Broker.Conn Broker.ConnSpec Broker.ConnBase Broker.ConnProofsB1 Broker.ConnProofsB2.
Import ListNotations.
Open Scope N_scope.

(* ------------------------------------------------------------ closure lists *)

Definition ckeys (l : list closure) : list N := map c_k l.

Lemma clo_find_in l k c : clo_find l k = Some c -> In c l /\ c_k c = k.
Proof.
  induction l as [|x l IH]; cbn [clo_find]; [discriminate|].
  destruct (c_k x =? k) eqn:E.
  - intros H. injection H as <-. apply N.eqb_eq in E. split; [left; reflexivity|exact E].
  - intros H. destruct (IH H) as [H1 H2]. split; [right; exact H1|exact H2].
Qed.

Lemma clo_find_none l k : clo_find l k = None -> forall c, In c l -> c_k c <> k.
Proof.
  induction l as [|x l IH]; cbn [clo_find In]; [tauto|].
  destruct (c_k x =? k) eqn:E; [discriminate|]. apply N.eqb_neq in E.
  intros H c [<-|Hc]; [exact E|apply IH; assumption].
Qed.

Lemma clo_find_nodup l c : NoDup (ckeys l) -> In c l -> clo_find l (c_k c) = Some c.
Proof.
  induction l as [|x l IH]; cbn [ckeys map clo_find In]; [tauto|].
  intros Hnd [->|Hc].
  - rewrite N.eqb_refl. reflexivity.
  - inversion Hnd as [|? ? Hx Hnd']; subst.
    destruct (c_k x =? c_k c) eqn:E.
    + apply N.eqb_eq in E. exfalso. apply Hx. rewrite E. apply in_map. exact Hc.
    + apply IH; assumption.
Qed.

Lemma clo_set_keys l k st : ckeys (clo_set l k st) = ckeys l.
Proof.
  induction l as [|x l IH]; cbn [clo_set ckeys map]; [reflexivity|].
  destruct (c_k x =? k); cbn [map c_k]; [reflexivity|]. f_equal. exact IH.
Qed.

(* the entries of an updated table *)
Lemma in_clo_set l k st c' : NoDup (ckeys l) -> In c' (clo_set l k st) ->
  (In c' l /\ c_k c' <> k) \/ (exists c, In c l /\ c_k c = k /\ c' = Clo k (c_conn c) (c_kind c) st).
Proof.
  induction l as [|x l IH]; cbn [clo_set In ckeys map]; [tauto|].
  intros Hnd. inversion Hnd as [|? ? Hx Hnd']; subst.
  destruct (c_k x =? k) eqn:E.
  - apply N.eqb_eq in E. cbn [In]. intros [<-|H].
    + right. exists x. rewrite E. repeat split; auto.
    + left. split; [right; exact H|]. intros Ek. apply Hx. rewrite E, <- Ek. apply in_map. exact H.
  - apply N.eqb_neq in E. cbn [In]. intros [<-|H].
    + left. split; [left; reflexivity|exact E].
    + destruct (IH Hnd' H) as [[H1 H2]|(c & H1 & H2 & H3)].
      * left. split; [right; exact H1|exact H2].
      * right. exists c. repeat split; auto.
Qed.

Lemma clo_set_in_other l k st c : In c l -> c_k c <> k -> In c (clo_set l k st).
Proof.
  induction l as [|x l IH]; cbn [clo_set In]; [tauto|].
  intros [->|H] Hne.
  - destruct (c_k c =? k) eqn:E; [apply N.eqb_eq in E; contradiction|left; reflexivity].
  - destruct (c_k x =? k); [right; exact H|right; apply IH; assumption].
Qed.

Lemma clo_set_in_same l k st c : NoDup (ckeys l) -> In c l -> c_k c = k ->
  In (Clo k (c_conn c) (c_kind c) st) (clo_set l k st).
Proof.
  induction l as [|x l IH]; cbn [clo_set In ckeys map]; [tauto|].
  intros Hnd [->|H] Ek; inversion Hnd as [|? ? Hx Hnd']; subst.
  - rewrite N.eqb_refl. left. reflexivity.
  - destruct (c_k x =? c_k c) eqn:E.
    + apply N.eqb_eq in E. exfalso. apply Hx. rewrite E. apply in_map. exact H.
    + right. apply IH; auto.
Qed.

Lemma clo_del_find_in l g id c : clo_del_find l g id = Some c ->
  In c l /\ c_stat c = CDel g /\ c_kind c = KPubcomp id.
Proof.
  induction l as [|x l IH]; cbn [clo_del_find]; [discriminate|].
  destruct (c_stat x) eqn:Es; try (intros H; destruct (IH H) as (H1 & H2 & H3); repeat split; auto; right; exact H1).
  destruct (c_kind x) eqn:Ek; try (intros H; destruct (IH H) as (H1 & H2 & H3); repeat split; auto; right; exact H1).
  destruct ((g =? g0) && (id =? id0)) eqn:E.
  - intros H. injection H as <-. apply andb_true_iff in E as [E1 E2].
    apply N.eqb_eq in E1, E2. subst. repeat split; auto. left; reflexivity.
  - intros H; destruct (IH H) as (H1 & H2 & H3); repeat split; auto; right; exact H1.
Qed.

Lemma clo_stat_find_in l f c : clo_stat_find l f = Some c -> In c l /\ f (c_stat c) = true.
Proof.
  induction l as [|x l IH]; cbn [clo_stat_find]; [discriminate|].
  destruct (f (c_stat x)) eqn:E.
  - intros H. injection H as <-. split; [left; reflexivity|exact E].
  - intros H. destruct (IH H) as [H1 H2]. split; [right; exact H1|exact H2].
Qed.

Lemma in_closure_false s g : in_closure s g = false -> forall c, In c (clos s) -> clo_on g c = false.
Proof.
  unfold in_closure. intros H c Hc. destruct (clo_on g c) eqn:E; [|reflexivity].
  assert (existsb (clo_on g) (clos s) = true) by (apply existsb_exists; eauto). congruence.
Qed.

(* ------------------------------------------- exact case analysis of step_clo *)

Inductive clo_case (s : bc) (e : event) (s' : bc) : Prop :=
| CC_call_pc k g c id : e = EAckCall k g -> clo_find (clos s) k = Some c -> c_stat c = CReg ->
    in_closure s g = false -> c_kind c = KPubcomp id ->
    s' = set_clos s (clo_set (clos s) k (CDel g)) -> clo_case s e s'
| CC_call_other k g c : e = EAckCall k g -> clo_find (clos s) k = Some c -> c_stat c = CReg ->
    in_closure s g = false -> (forall id, c_kind c <> KPubcomp id) ->
    s' = set_clos (clo_enqueue s c) (clo_set (clos s) k (CRun g)) -> clo_case s e s'
| CC_call_done k g c : e = EAckCall k g -> clo_find (clos s) k = Some c -> c_stat c = CDone ->
    in_closure s g = false -> s' = s -> clo_case s e s'
| CC_del_ok g id c : e = EDelete g Incoming id true -> clo_del_find (clos s) g id = Some c ->
    s' = set_clos (clo_enqueue (sess_delete s Incoming id) c) (clo_set (clos s) (c_k c) (CRun g)) -> clo_case s e s'
| CC_del_fail g id c : e = EDelete g Incoming id false -> clo_del_find (clos s) g id = Some c ->
    s' = set_clos s (clo_set (clos s) (c_k c) (CDieLog g)) -> clo_case s e s'
| CC_die g c : e = EDie g KSession -> In c (clos s) -> c_stat c = CDieLog g ->
    s' = set_clos s (clo_set (clos s) (c_k c) (CDieClose g)) -> clo_case s e s'
| CC_close g c : e = EConnClose g -> In c (clos s) -> c_stat c = CDieClose g ->
    s' = (if c_conn c =? conn_no s then set_dying (set_clos s (clo_set (clos s) (c_k c) (CRun g)))
          else set_clos s (clo_set (clos s) (c_k c) (CRun g))) -> clo_case s e s'
| CC_ret k g c : e = EAckRet k g -> clo_find (clos s) k = Some c -> c_stat c = CRun g ->
    s' = set_clos s (clo_set (clos s) k CDone) -> clo_case s e s'
| CC_ret_done k g c : e = EAckRet k g -> clo_find (clos s) k = Some c -> c_stat c = CDone ->
    in_closure s g = false -> s' = s -> clo_case s e s'.

Lemma step_clo_cases s e s' : step_clo s e = Some s' -> clo_case s e s'.
Proof.
  intros H. unfold step_clo, guard in H. destruct e; try discriminate H.
  - (* EConnClose *)
    match type of H with match ?x with _ => _ end = _ => destruct x as [c|] eqn:Ef; [|discriminate H] end.
    apply clo_stat_find_in in Ef. destruct Ef as [Hin Hf].
    destruct (c_stat c) eqn:Es; try discriminate Hf. apply N.eqb_eq in Hf. subst g0.
    injection H as <-. eapply CC_close; eauto; destruct (c_conn c =? conn_no s); reflexivity.
  - (* EAckCall *)
    destruct (clo_find (clos s) k) as [c|] eqn:Ef; [|discriminate H].
    destruct (c_stat c) eqn:Es; try discriminate H.
    + destruct (in_closure s g) eqn:Ei; [discriminate H|].
      destruct (c_kind c) eqn:Ek; injection H as <-.
      * eapply CC_call_other; eauto. intros id' E'; rewrite Ek in E'; discriminate E'.
      * eapply CC_call_other; eauto. intros id' E'; rewrite Ek in E'; discriminate E'.
      * eapply CC_call_other; eauto. intros id' E'; rewrite Ek in E'; discriminate E'.
      * eapply CC_call_pc; eauto.
    + destruct (in_closure s g) eqn:Ei; [discriminate H|]. injection H as <-. eapply CC_call_done; eauto.
  - (* EAckRet *)
    destruct (clo_find (clos s) k) as [c|] eqn:Ef; [|discriminate H].
    destruct (c_stat c) eqn:Es; try discriminate H.
    + destruct (g =? g0) eqn:Eg; [|discriminate H]. apply N.eqb_eq in Eg. subst g0. injection H as <-.
      eapply CC_ret; eauto.
    + destruct (in_closure s g) eqn:Ei; [discriminate H|]. injection H as <-. eapply CC_ret_done; eauto.
  - (* EDelete *)
    destruct d; [|discriminate H].
    destruct (clo_del_find (clos s) g id) as [c|] eqn:Ef; [|discriminate H].
    destruct ok; injection H as <-; [eapply CC_del_ok|eapply CC_del_fail]; eauto.
  - (* EDie *)
    destruct k; try discriminate H.
    match type of H with match ?x with _ => _ end = _ => destruct x as [c|] eqn:Ef; [|discriminate H] end.
    apply clo_stat_find_in in Ef. destruct Ef as [Hin Hf].
    destruct (c_stat c) eqn:Es; try discriminate Hf. apply N.eqb_eq in Hf. subst g0.
    injection H as <-. eapply CC_die; eauto.
Qed.

(* --------------------------------------------------- frames: clos and s_in *)

Lemma step_deq_frame s e s' : step_deq s e = Some s' ->
  s_in (sess s') = s_in (sess s) /\ clos s' = clos s /\ pp s' = pp s /\ gproc s' = gproc s /\
  conn_no s' = conn_no s /\ lp s' = lp s /\ ackq s' = ackq s /\ ap s' = ap s /\ (dying s = true -> dying s' = true).
Proof.
  intros H. unfold step_deq, take_deq, guard in H.
  destruct (dp s) eqn:Edp; destruct e; try discriminate H; bm H; inv_some H; sf;
    repeat split; try reflexivity; try (intros; assumption).
Qed.

Lemma step_ack_frame s e s' : step_ack s e = Some s' ->
  sess s' = sess s /\ clos s' = clos s /\ pp s' = pp s /\ gproc s' = gproc s /\
  conn_no s' = conn_no s /\ lp s' = lp s /\ (dying s = true -> dying s' = true).
Proof.
  intros H. unfold step_ack in H.
  destruct (ap s) eqn:Eap; destruct e; try discriminate H; bm H; inv_some H; unfold ack_token_back;
    try match goal with |- context [match ?p with Connect _ => _ | _ => _ end] => destruct p end; sf;
    repeat split; try reflexivity; try (intros; assumption).
Qed.

Inductive proc_clos (s s' : bc) : Prop :=
| PC_same : clos s' = clos s -> proc_clos s s'
| PC_reg k a : clo_find (clos s) k = None -> clos s' = clos s ++ [Clo k (conn_no s) a CReg] -> proc_clos s s'.

Inductive proc_sin (s s' : bc) : Prop :=
| PS_same : s_in (sess s') = s_in (sess s) -> proc_sin s s'
| PS_save p : s_in (sess s') = store_save (s_in (sess s)) p -> proc_sin s s'
| PS_new : s_in (sess s') = [] -> proc_sin s s'.

Lemma step_proc_clos s e s' : step_proc s e = Some s' -> proc_clos s s' /\ proc_sin s s' /\
  gproc s' = gproc s /\ conn_no s' = conn_no s /\ lp s' = lp s.
Proof.
  intros H.
  unfold step_proc, proc_dispatch, die_p, guard, take_pub, take_sub, clo_reg, take_deq_if_any, take_deq in H.
  destruct (pp s) eqn:Epp; destruct e; try discriminate H; bm H; inv_some H; sf;
    (split; [first [apply PC_same; reflexivity | eapply PC_reg; [eassumption|reflexivity]]|]);
    (split; [first [apply PS_same; reflexivity | eapply PS_save; reflexivity | apply PS_new; reflexivity]|]);
    repeat split; reflexivity.
Qed.

(* ----------------------------------------------------------- the invariant *)

Lemma clos_enq s c l : clos (set_clos (clo_enqueue s c) l) = l.
Proof. unfold clo_enqueue. destruct (clo_live s c); reflexivity. Qed.

Lemma sess_enq s c l : sess (set_clos (clo_enqueue s c) l) = sess s.
Proof. unfold clo_enqueue. destruct (clo_live s c); reflexivity. Qed.

Definition st_on (g : N) (st : cstat) : bool :=
  match st with CDel g' | CDieLog g' | CDieClose g' | CRun g' => g =? g' | _ => false end.
Lemma clo_on_st g c : clo_on g c = st_on g (c_stat c).
Proof. reflexivity. Qed.

Lemma clo_case_tab s e s' : clo_case s e s' ->
  clos s' = clos s \/
  exists c st, In c (clos s) /\ clos s' = clo_set (clos s) (c_k c) st /\
               (forall g, st_on g st = true -> clo_on g c = true \/ in_closure s g = false).
Proof.
  intros [k g c id -> Hf Hs Hi Hk -> | k g c -> Hf Hs Hi Hk -> | k g c -> Hf Hs Hi' -> | g id c -> Hf ->
         | g id c -> Hf -> | g c -> Hin Hs -> | g c -> Hin Hs -> | k g c -> Hf Hs -> | k g c -> Hf Hs Hi' ->];
    try (left; reflexivity); right.
  - apply clo_find_in in Hf. destruct Hf as [Hin <-]. exists c, (CDel g).
    split; [exact Hin|split; [reflexivity|]]. cbn [st_on]. intros g0 E. apply N.eqb_eq in E. subst g0. right; exact Hi.
  - apply clo_find_in in Hf. destruct Hf as [Hin <-]. exists c, (CRun g). rewrite clos_enq.
    split; [exact Hin|split; [reflexivity|]]. cbn [st_on]. intros g0 E. apply N.eqb_eq in E. subst g0. right; exact Hi.
  - apply clo_del_find_in in Hf. destruct Hf as (Hin & Hs & _). exists c, (CRun g). rewrite clos_enq.
    split; [exact Hin|split; [reflexivity|]]. cbn [st_on]. intros g0 E. left. unfold clo_on. rewrite Hs. exact E.
  - apply clo_del_find_in in Hf. destruct Hf as (Hin & Hs & _). exists c, (CDieLog g).
    split; [exact Hin|split; [reflexivity|]]. cbn [st_on]. intros g0 E. left. unfold clo_on. rewrite Hs. exact E.
  - exists c, (CDieClose g).
    split; [exact Hin|split; [reflexivity|]]. cbn [st_on]. intros g0 E. left. unfold clo_on. rewrite Hs. exact E.
  - exists c, (CRun g).
    split; [exact Hin|split; [destruct (c_conn c =? conn_no s); reflexivity|]].
    cbn [st_on]. intros g0 E. left. unfold clo_on. rewrite Hs. exact E.
  - apply clo_find_in in Hf. destruct Hf as [Hin <-]. exists c, CDone.
    split; [exact Hin|split; [reflexivity|]]. cbn [st_on]. intros g0 E. discriminate E.
Qed.

Lemma clo_case_sin s e s' : clo_case s e s' ->
  s_in (sess s') = s_in (sess s) \/ exists id, s_in (sess s') = store_delete (s_in (sess s)) id.
Proof.
  intros [k g c id -> Hf Hs Hi Hk -> | k g c -> Hf Hs Hi Hk -> | k g c -> Hf Hs Hi' -> | g id c -> Hf ->
         | g id c -> Hf -> | g c -> Hin Hs -> | g c -> Hin Hs -> | k g c -> Hf Hs -> | k g c -> Hf Hs Hi' ->];
    try (left; reflexivity).
  - left. rewrite sess_enq. reflexivity.
  - right. exists id. rewrite sess_enq. reflexivity.
  - left. destruct (c_conn c =? conn_no s); reflexivity.
Qed.

Definition one_on (l : list closure) : Prop :=
  forall c1 c2 g, In c1 l -> In c2 l -> clo_on g c1 = true -> clo_on g c2 = true -> c_k c1 = c_k c2.

Definition inv_c07 (s : bc) : Prop :=
  NoDup (ckeys (clos s)) /\ one_on (clos s) /\ NoDup (keys (s_in (sess s))).

Lemma inv_c07_init : inv_c07 bc_init.
Proof. repeat split; cbn; try constructor. intros c1 c2 g []. Qed.

Lemma clo_on_del c g : c_stat c = CDel g -> clo_on g c = true.
Proof. unfold clo_on. intros ->. apply N.eqb_refl. Qed.

Lemma one_on_del l c1 c2 g : one_on l -> In c1 l -> In c2 l -> c_stat c1 = CDel g -> c_stat c2 = CDel g -> c_k c1 = c_k c2.
Proof. intros H H1 H2 E1 E2. eapply H; eauto using clo_on_del. Qed.

Lemma inv_c07_clo s e s' : inv_c07 s -> step_clo s e = Some s' -> inv_c07 s'.
Proof.
  intros (I1 & I2 & I3) H. apply step_clo_cases in H.
  pose proof (clo_case_tab _ _ _ H) as Ht. pose proof (clo_case_sin _ _ _ H) as Hs.
  assert (I3' : NoDup (keys (s_in (sess s')))).
  { destruct Hs as [->|(id & ->)]; [exact I3|apply nodup_delete, I3]. }
  unfold inv_c07.
  destruct Ht as [->|(c & st & Hin & -> & Hst)]; [repeat split; assumption|].
  split; [rewrite clo_set_keys; exact I1|split; [|exact I3']].
  intros c1 c2 g H1 H2 E1 E2.
  apply (in_clo_set _ _ _ _ I1) in H1. apply (in_clo_set _ _ _ _ I1) in H2.
  destruct H1 as [[H1 N1]|(x1 & X1 & K1 & ->)]; destruct H2 as [[H2 N2]|(x2 & X2 & K2 & ->)]; cbn [c_k] in *.
  - eapply I2; eassumption.
  - exfalso. rewrite clo_on_st in E2. cbn [c_stat] in E2. destruct (Hst g E2) as [Ho|Hi].
    + apply N1. eapply I2; eassumption.
    + rewrite (in_closure_false _ _ Hi _ H1) in E1. discriminate E1.
  - exfalso. rewrite clo_on_st in E1. cbn [c_stat] in E1. destruct (Hst g E1) as [Ho|Hi].
    + apply N2. eapply I2; eassumption.
    + rewrite (in_closure_false _ _ Hi _ H2) in E2. discriminate E2.
  - reflexivity.
Qed.

Lemma inv_c07_proc s e s' : inv_c07 s -> step_proc s e = Some s' -> inv_c07 s'.
Proof.
  intros (I1 & I2 & I3) H. apply step_proc_clos in H. destruct H as (Hc & Hs & _).
  assert (I3' : NoDup (keys (s_in (sess s')))).
  { destruct Hs as [->|p ->| ->]; [exact I3| |constructor].
    unfold store_save. destruct (get_id p); [apply nodup_put, I3|exact I3]. }
  unfold inv_c07.
  destruct Hc as [->|k a Hf ->]; [repeat split; assumption|].
  repeat split; [| |exact I3'].
  - unfold ckeys. rewrite map_app. cbn [map c_k]. apply NoDup_app_intro_single; [exact I1|].
    intros Hin. apply in_map_iff in Hin. destruct Hin as (c & Ek & Hin). eapply clo_find_none; eassumption.
  - intros c1 c2 g H1 H2 E1 E2. apply in_app_iff in H1, H2. cbn [In] in H1, H2.
    destruct H1 as [H1|[<-|[]]]; [|discriminate E1]. destruct H2 as [H2|[<-|[]]]; [|discriminate E2].
    eapply I2; eassumption.
Qed.

Lemma inv_c07_roles s p d a c : inv_c07 (set_roles s p d a c) <-> inv_c07 s.
Proof. unfold inv_c07; sf; tauto. Qed.

Lemma inv_c07_step s e s' : inv_c07 s -> step s e = Some s' -> inv_c07 s'.
Proof.
  intros Hi H. apply step_cases in H.
  destruct H as [-> _ -> | -> _ -> | -> _ -> | H | -> H
                | g s1 _ _ _ _ Hv H | g s1 _ _ _ _ _ Hv H | g s1 _ _ _ _ _ _ Hv H | g s1 _ _ _ _ _ _ _ Hv H
                | g -> _ _ _ _ ->].
  - exact Hi.
  - exact Hi.
  - exact Hi.
  - eapply inv_c07_clo; eassumption.
  - apply step_cleanup_frame in H. destruct H as (_ & Hs & Hc & _). unfold inv_c07. rewrite Hs, Hc. exact Hi.
  - eapply inv_c07_proc; [|exact H]. destruct Hv as [[-> _]|(_ & _ & -> & _)]; [exact Hi|apply inv_c07_roles, Hi].
  - apply step_deq_frame in H. destruct H as (Hs & Hc & _). unfold inv_c07. rewrite Hs, Hc.
    destruct Hv as [[-> _]|(_ & _ & ->)]; exact Hi.
  - apply step_ack_frame in H. destruct H as (Hs & Hc & _). unfold inv_c07. rewrite Hs, Hc.
    destruct Hv as [[-> _]|(_ & _ & ->)]; exact Hi.
  - apply step_cleanup_frame in H. destruct H as (_ & Hs & Hc & _). unfold inv_c07. rewrite Hs, Hc.
    destruct Hv as [[-> _]|(_ & _ & ->)]; exact Hi.
  - exact Hi.
Qed.

Lemma ckeys_inj l x c : NoDup (ckeys l) -> In x l -> In c l -> c_k x = c_k c -> x = c.
Proof.
  intros Hnd Hx Hc E. pose proof (clo_find_nodup _ _ Hnd Hx) as F1. pose proof (clo_find_nodup _ _ Hnd Hc) as F2.
  rewrite E in F1. rewrite F2 in F1. congruence.
Qed.
