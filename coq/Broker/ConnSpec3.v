(* ConnSpec3.v — clauses added after the first round of seeded changes showed
   property violations that only broke the tie (no clause judged them). *)
From Coq Require Import List NArith Bool.
From GM Require Import Codec.Packet Session.Store Broker.Conn Broker.ConnSpec.
Import ListNotations.
Open Scope N_scope.

(* C08_popped_is_saved: a QoS>0 message taken from the backend queue is handed to the
   session (SavePacket attempted) before the connection can end: it is never held by
   the dequeuer across a failure point *)
Definition ps_step (s : list (N * message)) (e : event) : option (list (N * message)) :=
  match e with
  | ENewConn => Some []
  | EDeqRet g (QMsg m _) => if m_qos m =? 0 then Some s else Some (aput s g m)
  | ESave g Outgoing (Publish false m _) _ =>
      match aget s g with
      | Some m' => if message_eqb m m' then Some (adel s g) else None
      | None => Some s
      end
  | EClosed => match s with [] => Some s | _ => None end
  | _ => Some s
  end.
Definition c08_popped_is_saved (es : list event) : bool := scan ps_step [] es.

(* C08_pubrel_after_store: PUBREL id is sent (by the goroutine that received PUBREC id)
   only after the stored PUBLISH was replaced by the PUBREL in the session — so a
   connection lost while writing it is resumed with PUBREL, not with PUBLISH again *)
Definition pl_step (s : list (N * (N * bool))) (e : event) : option (list (N * (N * bool))) :=
  match e with
  | ENewConn => Some []
  | ERx g (Pubrec id) => Some (aput s g (id, false))
  | ERx g _ => Some (adel s g)
  | ESave g Outgoing (Pubrel id) true =>
      match aget s g with
      | Some (id', _) => if id =? id' then Some (aput s g (id, true)) else Some s
      | None => Some s
      end
  | ETx g (Pubrel id) _ _ =>
      match aget s g with
      | Some (id', stored) => if id =? id' then (if stored then Some s else None) else Some s
      | None => Some s                                   (* the resend phase of a new connection *)
      end
  | _ => Some s
  end.
Definition c08_pubrel_after_store (es : list event) : bool := scan pl_step [] es.

(* C20_sub_tokens / C07_pub_tokens: a request is not given up for lack of a token
   while tokens are free: a token-wait timeout (client error while the processor has a
   SUBSCRIBE/UNSUBSCRIBE resp. QoS>0 PUBLISH in hand that it has not yet passed on)
   happens only when as many earlier requests are still unanswered as there are tokens.
   Tokens come back when the acknowledgement packet has been sent. *)
Record tk_st := TkSt {
  tk_ps : N; tk_pp : N;
  tk_sub_used : N; tk_pub_used : N;
  tk_wait : list (N * N);         (* processor goroutine -> 1: waits for a subscribe token, 2: for a publish token *)
  tk_procs : list N }.            (* goroutines that have received something: processors *)
Definition tk_step (s : tk_st) (e : event) : option tk_st :=
  match e with
  | ENewConn => Some (TkSt 0 0 0 0 [] [])
  | ESetup _ (SOk _ _ _ p b) => Some (TkSt b p 0 0 [] (tk_procs s))
  | ERx g (Subscribe _ _) | ERx g (Unsubscribe _ _) =>
      Some (TkSt (tk_ps s) (tk_pp s) (tk_sub_used s) (tk_pub_used s) (aput (tk_wait s) g 1) (g :: tk_procs s))
  | ERx g (Publish _ m _) =>
      Some (TkSt (tk_ps s) (tk_pp s) (tk_sub_used s) (tk_pub_used s)
                 (if m_qos m =? 0 then adel (tk_wait s) g else aput (tk_wait s) g 2) (g :: tk_procs s))
  | ERx g _ => Some (TkSt (tk_ps s) (tk_pp s) (tk_sub_used s) (tk_pub_used s) (adel (tk_wait s) g) (g :: tk_procs s))
  | ESub g _ _ | EUnsub g _ _ =>
      Some (TkSt (tk_ps s) (tk_pp s) (tk_sub_used s + 1) (tk_pub_used s) (adel (tk_wait s) g) (tk_procs s))
  | EPub g _ (Some _) =>
      match aget (tk_wait s) g with
      | Some 2 => Some (TkSt (tk_ps s) (tk_pp s) (tk_sub_used s) (tk_pub_used s + 1) (adel (tk_wait s) g) (tk_procs s))
      | _ => Some s                                      (* the publish triggered by PUBREL takes no token *)
      end
  | ESave g Incoming _ _ =>
      match aget (tk_wait s) g with
      | Some 2 => Some (TkSt (tk_ps s) (tk_pp s) (tk_sub_used s) (tk_pub_used s + 1) (adel (tk_wait s) g) (tk_procs s))
      | _ => Some s
      end
  | ETx g p _ true =>
      if existsb (N.eqb g) (tk_procs s) then Some s        (* the processor's own sends return no token *)
      else
        match p with
        | Suback _ _ | Unsuback _ => Some (TkSt (tk_ps s) (tk_pp s) (tk_sub_used s - 1) (tk_pub_used s) (tk_wait s) (tk_procs s))
        | Puback _ | Pubcomp _ => Some (TkSt (tk_ps s) (tk_pp s) (tk_sub_used s) (tk_pub_used s - 1) (tk_wait s) (tk_procs s))
        | _ => Some s
        end
  | EDie g KClient =>
      match aget (tk_wait s) g with
      | Some 1 => if tk_sub_used s <? tk_ps s then None else Some s
      | Some 2 => if tk_pub_used s <? tk_pp s then None else Some s
      | _ => Some s
      end
  | _ => Some s
  end.
Definition c20_tokens (es : list event) : bool := scan tk_step (TkSt 0 0 0 0 [] []) es.
