(* BackendProofsSteps.v — well-formedness is preserved by every step; the clauses
   qos_ok, resub_ok, unsub_ok, retained_ok, live_copy_ok hold for every step. *)
From Coq Require Import List NArith Bool Lia.
From Coq.Strings Require Import Byte.
From GM Require Import Codec.Packet Topic.MatchSpec Broker.Backend Broker.BackendSpec
  Broker.BackendProofs Broker.BackendProofsPublish.
Import ListNotations.
Open Scope N_scope.

(* ------------------------------------------------------------------ put_session *)
Lemma get_put st k s2 k' :
  get_session (put_session st k s2) k' = if skey_eqb k' k then Some s2 else get_session st k'.
Proof.
  destruct k as [c|i], k' as [c'|i']; cbn [put_session get_session skey_eqb st_temps st_stored]; try reflexivity.
  - apply (alookup_aset N.eqb N.eqb_eq).
  - apply (alookup_aset bytes_eqb bytes_eqb_eq).
Qed.

Lemma wf_put st k s2 : wf st -> wf (put_session st k s2).
Proof.
  intros (Wt & Ws & Wr). destruct k as [c|i]; unfold wf; cbn [put_session st_temps st_stored st_retained];
    repeat split; auto.
  - apply (nodup_aset N.eqb N.eqb_eq); exact Wt.
  - apply (nodup_aset bytes_eqb bytes_eqb_eq); exact Ws.
Qed.

Lemma retained_put st k s2 : st_retained (put_session st k s2) = st_retained st.
Proof. destruct k; reflexivity. Qed.
Lemma cap_put st k s2 : st_cap (put_session st k s2) = st_cap st.
Proof. destruct k; reflexivity. Qed.

Lemma skey_eqb_sym a b : skey_eqb a b = skey_eqb b a.
Proof.
  destruct (skey_eqb a b) eqn:E.
  - apply skey_eqb_eq in E; subst. symmetry; apply skey_eqb_eq; reflexivity.
  - destruct (skey_eqb b a) eqn:E2; [|reflexivity]. apply skey_eqb_eq in E2; subst.
    assert (X : skey_eqb a a = true) by (apply skey_eqb_eq; reflexivity). congruence.
Qed.

Lemma others_unchanged_put st k s s2 :
  wf st -> get_session st k = Some s -> others_unchanged st (put_session st k s2) (Some k) = true.
Proof.
  intros W G. unfold others_unchanged. apply andb_true_iff; split; apply forallb_forall; intros [k' x] Hin; cbn [fst snd].
  - rewrite get_put, (skey_eqb_sym k' k). destruct (skey_eqb k k'); [reflexivity|].
    rewrite (sessions_get st k' x W Hin). cbn [orb]. apply session_eqb_refl.
  - pose proof (sessions_get _ k' x (wf_put st k s2 W) Hin) as G'. rewrite get_put in G'.
    destruct (skey_eqb k' k) eqn:E.
    + apply skey_eqb_eq in E; subst k'. rewrite G; reflexivity.
    + rewrite G'; reflexivity.
Qed.

Lemma others_unchanged_refl st : wf st -> others_unchanged st st None = true.
Proof.
  intros W. unfold others_unchanged. apply andb_true_iff; split; apply forallb_forall; intros [k' x] Hin; cbn [fst snd].
  - rewrite (sessions_get st k' x W Hin). apply session_eqb_refl.
  - rewrite (sessions_get st k' x W Hin); reflexivity.
Qed.

Lemma session_of_get st c k s : session_of st c = Some (k, s) -> get_session st k = Some s.
Proof.
  unfold session_of. destruct (alookup N.eqb c (st_sess st)) as [k0|]; [|discriminate].
  destruct (get_session st k0) as [s0|] eqn:G; [|discriminate]. intros H; injection H as <- <-. exact G.
Qed.

Lemma skey_eqb_refl k : skey_eqb k k = true.
Proof. apply skey_eqb_eq; reflexivity. Qed.

(* ------------------------------------------------------------------ well-formedness along steps *)
Lemma wf_init cap : wf (init cap).
Proof. unfold wf, init; cbn; repeat split; constructor. Qed.

Lemma wf_setup_finish st c id clean : wf st -> wf (snd (setup_finish st c id clean)).
Proof.
  intros (Wt & Ws & Wr). unfold setup_finish. destruct clean; [|destruct (alookup bytes_eqb id (st_stored st))];
    cbn [snd]; unfold wf; cbn [st_temps st_stored st_retained]; repeat split; auto.
  - apply (nodup_aset N.eqb N.eqb_eq); exact Wt.
  - apply (nodup_aremove bytes_eqb bytes_eqb_eq); exact Ws.
  - apply (nodup_aset bytes_eqb bytes_eqb_eq); exact Ws.
  - apply (nodup_aset bytes_eqb bytes_eqb_eq); exact Ws.
Qed.

Lemma wf_same_maps st st' :
  st_temps st' = st_temps st -> st_stored st' = st_stored st -> st_retained st' = st_retained st -> wf st -> wf st'.
Proof. unfold wf. intros -> -> ->. auto. Qed.

Lemma wf_retain_update m ret : NoDup (map fst ret) -> NoDup (map fst (retain_update m ret)).
Proof.
  intros W. unfold retain_update. destruct (m_retain m); [|exact W].
  destruct (is_nil (m_payload m)); [apply (nodup_aremove bytes_eqb bytes_eqb_eq)|apply (nodup_aset bytes_eqb bytes_eqb_eq)]; exact W.
Qed.

Lemma wf_step st o : wf st -> wf (snd (step st o)).
Proof.
  intros W. destruct o as [c id clean|t|c|c subs b|c fs|c m got|c t|c|]; cbn [step].
  - (* setup *)
    unfold setup. destruct (st_pending st); [exact W|].
    destruct (alookup N.eqb c (st_cid st)); [exact W|].
    cbn [st_closing]. destruct (st_closing st); [cbn [snd]; revert W; apply wf_same_maps; reflexivity|].
    destruct (is_nil id).
    + cbn [snd]. destruct W as (Wt & Ws & Wr). unfold wf; cbn [st_temps st_stored st_retained]; repeat split; auto.
      apply (nodup_aset N.eqb N.eqb_eq); exact Wt.
    + match goal with |- context [existing_session ?s id] => set (st1 := s) end.
      assert (W1 : wf st1) by (revert W; apply wf_same_maps; reflexivity).
      destruct (existing_session st1 id) as [[a b0 c0 [c1|]]|].
      * cbn [snd]. revert W1; apply wf_same_maps; reflexivity.
      * apply wf_setup_finish; exact W1.
      * apply wf_setup_finish; exact W1.
  - unfold setup_end. destruct (st_pending st) as [p|]; [|exact W].
    destruct t; [cbn [snd]; revert W; apply wf_same_maps; reflexivity|].
    destruct (mem_n (p_old p) (st_closed st)); [apply wf_setup_finish; exact W|exact W].
  - unfold mark_closed. destruct (mem_n c (st_term st)); [cbn [snd]; revert W; apply wf_same_maps; reflexivity|exact W].
  - unfold subscribe. destruct (session_of st c) as [[k s]|]; [|exact W].
    destruct (negb _); [exact W|]. cbn [snd]. apply wf_put; exact W.
  - unfold unsubscribe. destruct (session_of st c) as [[k s]|]; [|exact W]. cbn [snd]. apply wf_put; exact W.
  - rewrite publish_unfold. destruct (pub_stuck _ _ _); [exact W|]. cbn [snd].
    destruct W as (Wt & Ws & Wr). unfold wf; cbn [st_temps st_stored st_retained]; repeat split.
    + rewrite map_map; cbn [fst]. exact Wt.
    + rewrite map_map; cbn [fst]. exact Ws.
    + apply wf_retain_update; exact Wr.
  - unfold dequeue. destruct (session_of st c) as [[k s]|]; [|exact W].
    destruct t; [destruct (s_tq s)|destruct (s_sq s)]; try exact W; cbn [snd]; apply wf_put; exact W.
  - unfold terminate. destruct (alookup N.eqb c (st_cid st)) as [id|]; [|exact W].
    destruct (mem_n c (st_term st) || _); [exact W|].
    cbn [snd]. destruct W as (Wt & Ws & Wr). unfold wf; cbn [st_temps st_stored st_retained]; repeat split; auto.
    + apply (nodup_aremove N.eqb N.eqb_eq); exact Wt.
    + destruct (alookup N.eqb c (st_sess st)) as [[x|i]|]; try exact Ws.
      destruct (alookup bytes_eqb i (st_stored st)) as [s0|]; [|exact Ws].
      destruct (option_eqb N.eqb (s_act s0) (Some c)); [apply (nodup_aset bytes_eqb bytes_eqb_eq)|]; exact Ws.
  - unfold close_backend. cbn [snd]. revert W; apply wf_same_maps; reflexivity.
Qed.

Lemma wf_run ops : forall st, wf st -> wf (run_state st ops).
Proof.
  unfold run_state. induction ops as [|o ops IH]; intros st W; cbn [run snd]; [exact W|].
  pose proof (wf_step st o W) as W1. destruct (step st o) as [r st1]; cbn [snd] in W1.
  specialize (IH st1 W1). destruct (run st1 ops) as [rs st2]; cbn [snd] in *. exact IH.
Qed.

(* ------------------------------------------------------------------ Dequeue: C06 qos / C11 cap *)
Lemma apply_qos_capped subs m : qos_capped subs m (apply_qos subs m) = true.
Proof.
  unfold qos_capped, apply_qos.
  destruct (pick_sub subs (m_topic m)) as [[f q]|] eqn:P.
  - assert (HM := pick_sub_some_has_match _ _ _ P). apply pick_sub_sound in P as [Hin Hm]. cbn [fst] in Hm.
    assert (Frame : forall m', m_topic m' = m_topic m -> m_payload m' = m_payload m -> m_retain m' = m_retain m ->
              m_qos m' = N.min (m_qos m) q ->
              bytes_eqb (m_topic m') (m_topic m) && bytes_eqb (m_payload m') (m_payload m) &&
              Bool.eqb (m_retain m') (m_retain m) &&
              (if name_ok (m_topic m) then
                 if has_match subs (m_topic m)
                 then existsb (fun x => topic_matches (fst x) (m_topic m) && (m_qos m' =? N.min (m_qos m) (snd x))) subs
                 else m_qos m' =? m_qos m else true) = true).
    { intros m' -> -> -> Eq. rewrite !bytes_eqb_refl, Bool.eqb_reflx. cbn [andb].
      destruct (name_ok (m_topic m)); [|reflexivity]. rewrite HM.
      apply existsb_exists. exists (f, q); split; [exact Hin|]. cbn [fst snd]. rewrite Hm. apply N.eqb_eq. exact Eq. }
    destruct (q <? m_qos m) eqn:Lt.
    + apply Frame; cbn; try reflexivity. apply N.ltb_lt in Lt. lia.
    + apply Frame; try reflexivity. apply N.ltb_ge in Lt. lia.
  - rewrite !bytes_eqb_refl, Bool.eqb_reflx. cbn [andb].
    destruct (name_ok (m_topic m)) eqn:Hn; [|reflexivity].
    rewrite <- (pick_sub_has_match subs _ Hn), P. cbn [is_some]. apply N.eqb_refl.
Qed.

Theorem dequeue_qos_ok st c temp :
  wf st ->
  let (r, st') := dequeue st c temp in qos_ok st (ODequeue c temp) r st' = true.
Proof.
  intros W. unfold dequeue, qos_ok.
  destruct (session_of st c) as [[k s]|] eqn:S; [|apply others_unchanged_refl; exact W].
  pose proof (session_of_get _ _ _ _ S) as G.
  destruct temp.
  - destruct (s_tq s) as [|m q]; [apply others_unchanged_refl; exact W|].
    rewrite apply_qos_capped, get_put, skey_eqb_refl, session_eqb_refl. cbn [andb].
    apply (others_unchanged_put st k s _ W G).
  - destruct (s_sq s) as [|m q]; [apply others_unchanged_refl; exact W|].
    rewrite apply_qos_capped, get_put, skey_eqb_refl, session_eqb_refl. cbn [andb].
    apply (others_unchanged_put st k s _ W G).
Qed.

(* ------------------------------------------------------------------ Subscribe / Unsubscribe: the subscription map *)
Lemma alookup_set_subs subs : forall old f,
  alookup bytes_eqb f (set_subs subs old) = sub_spec old subs f.
Proof.
  unfold set_subs, sub_spec. induction subs as [|[f' q] subs IH]; intros old f; cbn [fold_left last_q fst snd]; [reflexivity|].
  rewrite IH. destruct (last_q f subs); [reflexivity|].
  rewrite (alookup_aset bytes_eqb bytes_eqb_eq). destruct (bytes_eqb f f'); reflexivity.
Qed.

Lemma nodup_set_subs subs : forall old, NoDup (map fst old) -> NoDup (map fst (set_subs subs old)).
Proof.
  unfold set_subs. induction subs as [|[f' q] subs IH]; intros old W; cbn [fold_left]; [exact W|].
  apply IH. apply (nodup_aset bytes_eqb bytes_eqb_eq); exact W.
Qed.

Lemma alookup_unset_subs fs : forall old f,
  alookup bytes_eqb f (unset_subs fs old) = if existsb (bytes_eqb f) fs then None else alookup bytes_eqb f old.
Proof.
  unfold unset_subs. induction fs as [|f' fs IH]; intros old f; cbn [fold_left existsb]; [reflexivity|].
  rewrite IH, (alookup_aremove bytes_eqb bytes_eqb_eq).
  destruct (existsb (bytes_eqb f) fs); [rewrite orb_true_r; reflexivity|].
  rewrite orb_false_r. destruct (bytes_eqb f f'); reflexivity.
Qed.

Lemma nodup_unset_subs fs : forall old : list sub, NoDup (map fst old) -> NoDup (map fst (unset_subs fs old)).
Proof.
  unfold unset_subs. induction fs as [|f' fs IH]; intros old W; cbn [fold_left]; [exact W|].
  apply IH. apply (nodup_aremove bytes_eqb bytes_eqb_eq); exact W.
Qed.

Lemma nodup_imp {V} (a b : list (bytes * V)) :
  (NoDup (map fst a) -> NoDup (map fst b)) -> negb (nodup_keys a) || nodup_keys b = true.
Proof.
  intros H. destruct (nodup_keys a) eqn:E; [|reflexivity]. cbn [negb orb].
  apply nodup_keys_iff, H, nodup_keys_iff, E.
Qed.

Lemma n_opt_eqb_refl (a : option N) : option_eqb N.eqb a a = true.
Proof. apply (option_eqb_eq N.eqb N.eqb_eq); reflexivity. Qed.

Theorem subscribe_resub_ok st c subs b :
  let (r, st') := subscribe st c subs b in
  r <> RBadOracle -> resub_ok st (OSubscribe c subs b) r st' = true.
Proof.
  unfold subscribe, resub_ok. destruct (session_of st c) as [[k s]|] eqn:S; [|reflexivity].
  destruct (negb (batches_ok _ b)); [intros H; exfalso; apply H; reflexivity|]. intros _.
  rewrite get_put, skey_eqb_refl. cbn [s_subs].
  assert (X : (negb (nodup_keys (s_subs s)) || nodup_keys (set_subs subs (s_subs s))) &&
              forallb (fun f => option_eqb N.eqb (alookup bytes_eqb f (set_subs subs (s_subs s))) (sub_spec (s_subs s) subs f))
                (map fst (s_subs s) ++ map fst subs ++ map fst (set_subs subs (s_subs s))) = true).
  { apply andb_true_iff; split; [apply nodup_imp, nodup_set_subs|].
    apply forallb_forall. intros f _. rewrite alookup_set_subs. apply n_opt_eqb_refl. }
  destruct (Nat.leb _ _); exact X.
Qed.

Theorem unsubscribe_unsub_ok st c fs :
  wf st ->
  let (r, st') := unsubscribe st c fs in unsub_ok st (OUnsubscribe c fs) r st' = true.
Proof.
  intros W. unfold unsubscribe, unsub_ok. destruct (session_of st c) as [[k s]|] eqn:S; [|apply others_unchanged_refl; exact W].
  pose proof (session_of_get _ _ _ _ S) as G.
  rewrite get_put, skey_eqb_refl. cbn [s_subs s_tq s_sq s_act].
  rewrite !msgs_eqb_refl, act_eqb_refl, (others_unchanged_put st k s _ W G). rewrite !andb_true_r.
  apply andb_true_iff; split; [apply nodup_imp, nodup_unset_subs|].
  apply forallb_forall. intros f _. rewrite alookup_unset_subs. apply n_opt_eqb_refl.
Qed.

(* ------------------------------------------------------------------ retained set *)
Lemma alookup_retain_update m ret t :
  alookup bytes_eqb t (retain_update m ret) = ret_spec m ret t.
Proof.
  unfold retain_update, ret_spec. destruct (m_retain m); cbn [andb]; [|reflexivity].
  destruct (is_nil (m_payload m)).
  - rewrite (alookup_aremove bytes_eqb bytes_eqb_eq). reflexivity.
  - rewrite (alookup_aset bytes_eqb bytes_eqb_eq). reflexivity.
Qed.

Lemma msg_opt_eqb_refl (a : option message) : option_eqb message_eqb a a = true.
Proof. apply (option_eqb_eq message_eqb message_eqb_eq); reflexivity. Qed.

Lemma retained_unchanged_ok (ret : list (bytes * message)) l :
  forallb (fun t => option_eqb message_eqb (alookup bytes_eqb t ret) (alookup bytes_eqb t ret)) l = true.
Proof. apply forallb_forall; intros t _; apply msg_opt_eqb_refl. Qed.

Lemma retained_setup_finish st c id clean : st_retained (snd (setup_finish st c id clean)) = st_retained st.
Proof. unfold setup_finish. destruct clean; [|destruct (alookup bytes_eqb id (st_stored st))]; reflexivity. Qed.

(* only a Publish that returns touches the retained map *)
Lemma retained_step_other st o :
  (match o with OPublish _ _ _ => False | _ => True end) -> st_retained (snd (step st o)) = st_retained st.
Proof.
  destruct o as [c id clean|t|c|c subs b|c fs|c m got|c t|c|]; cbn [step]; intros H; try destruct H.
  - unfold setup. destruct (st_pending st); [reflexivity|]. destruct (alookup N.eqb c (st_cid st)); [reflexivity|].
    cbn [st_closing]. destruct (st_closing st); [reflexivity|]. destruct (is_nil id); [reflexivity|].
    match goal with |- context [existing_session ?s id] => set (st1 := s) end.
    destruct (existing_session st1 id) as [[a b0 c0 [c1|]]|]; [reflexivity| |]; rewrite retained_setup_finish; reflexivity.
  - unfold setup_end. destruct (st_pending st) as [p|]; [|reflexivity]. destruct t; [reflexivity|].
    destruct (mem_n (p_old p) (st_closed st)); [apply retained_setup_finish|reflexivity].
  - unfold mark_closed. destruct (mem_n c (st_term st)); reflexivity.
  - unfold subscribe. destruct (session_of st c) as [[k s]|]; [|reflexivity]. destruct (negb _); [reflexivity|]. apply retained_put.
  - unfold unsubscribe. destruct (session_of st c) as [[k s]|]; [|reflexivity]. apply retained_put.
  - unfold dequeue. destruct (session_of st c) as [[k s]|]; [|reflexivity].
    destruct t; [destruct (s_tq s)|destruct (s_sq s)]; try reflexivity; apply retained_put.
  - unfold terminate. destruct (alookup N.eqb c (st_cid st)) as [id|]; [|reflexivity].
    destruct (mem_n c (st_term st) || _); reflexivity.
  - reflexivity.
Qed.

Theorem step_retained_ok st o :
  wf st -> OwnOk st ->
  let (r, st') := step st o in retained_ok st o r st' = true.
Proof.
  intros W O. destruct (step st o) as [r st'] eqn:E. unfold retained_ok.
  assert (Est : st' = snd (step st o)) by (rewrite E; reflexivity).
  destruct o as [c id clean|t|c|c subs b|c fs|c m got|c t|c|];
    try (rewrite Est, retained_step_other by exact I;
         apply andb_true_iff; split; [apply nodup_imp; auto|]; destruct r; apply retained_unchanged_ok).
  cbn [step] in E. rewrite publish_unfold in E.
  destruct (pub_stuck st c m) eqn:Hnb.
  - injection E as <- <-. apply andb_true_iff; split; [apply nodup_imp; auto|].
    destruct (own_refused st c m); apply retained_unchanged_ok.
  - unfold pub_stuck in Hnb. apply orb_false_iff in Hnb as [R _].
    rewrite (no_midway st c m W O R) in E.
    injection E as <- <-. cbn [st_retained]. apply andb_true_iff; split; [apply nodup_imp, wf_retain_update|].
    apply forallb_forall. intros t _. rewrite alookup_retain_update. apply msg_opt_eqb_refl.
Qed.

(* every stored retained message keeps its topic, the flag and a payload *)
Lemma retained_wf_update m ret :
  forallb (fun e => bytes_eqb (fst e) (m_topic (snd e)) && m_retain (snd e) && negb (is_nil (m_payload (snd e)))) ret = true ->
  forallb (fun e => bytes_eqb (fst e) (m_topic (snd e)) && m_retain (snd e) && negb (is_nil (m_payload (snd e))))
          (retain_update m ret) = true.
Proof.
  intros H. unfold retain_update. destruct (m_retain m) eqn:R; [|exact H].
  destruct (is_nil (m_payload m)) eqn:P.
  - induction ret as [|[k v] ret IH]; cbn [aremove]; [reflexivity|].
    cbn [forallb fst snd] in H. apply andb_true_iff in H as [H1 H2].
    destruct (bytes_eqb (m_topic m) k); [apply IH; exact H2|]. cbn [forallb fst snd]. rewrite H1, (IH H2). reflexivity.
  - induction ret as [|[k v] ret IH]; cbn [aset forallb fst snd].
    + rewrite bytes_eqb_refl, R, P. reflexivity.
    + cbn [forallb fst snd] in H. apply andb_true_iff in H as [H1 H2].
      destruct (bytes_eqb (m_topic m) k); cbn [forallb fst snd].
      * rewrite bytes_eqb_refl, R, P, H2. reflexivity.
      * rewrite H1, (IH H2). reflexivity.
Qed.

Theorem step_retained_wf st o : retained_wf st = true -> retained_wf (snd (step st o)) = true.
Proof.
  unfold retained_wf. intros H.
  destruct o as [c id clean|t|c|c subs b|c fs|c m got|c t|c|]; try (rewrite retained_step_other by exact I; exact H).
  cbn [step]. rewrite publish_unfold. destruct (pub_stuck _ _ _); [exact H|]. cbn [snd st_retained].
  apply retained_wf_update; exact H.
Qed.

(* ------------------------------------------------------------------ C11 live copy *)
Lemma nat_ltb_irrefl n : Nat.ltb n n = false.
Proof. apply PeanoNat.Nat.ltb_ge. apply le_n. Qed.

Theorem publish_live_copy_ok st c m got :
  wf st ->
  let (r, st') := publish st c m got in live_copy_ok st (OPublish c m got) r st' = true.
Proof.
  intros W. destruct (publish st c m got) as [r st'] eqn:E. unfold live_copy_ok.
  assert (Est : st' = snd (publish st c m got)) by (rewrite E; reflexivity).
  apply forallb_forall. intros [k s] Hin. cbn [fst snd].
  destruct (pub_stuck st c m) eqn:Hnb.
  - rewrite publish_unfold, Hnb in E. injection E as _ <-. rewrite (sessions_get st k s W Hin).
    rewrite nat_ltb_irrefl. reflexivity.
  - rewrite Est, (get_session_published st c m got k Hnb), (sessions_get st k s W Hin). cbn [option_map].
    assert (Hd : deliver (pub_err st c m) got k (classify st c m s) m s = s \/
                 deliver (pub_err st c m) got k (classify st c m s) m s = enqueue m s).
    { unfold deliver. destruct (classify st c m s); auto; destruct (pub_err st c m); auto; destruct (mem_key k got); auto. }
    destruct Hd as [-> | ->]; [rewrite nat_ltb_irrefl; reflexivity|].
    assert (Q : queue_of m (enqueue m s) = queue_of m s ++ [live_copy m]).
    { unfold enqueue, queue_of. destruct (use_temp m) eqn:U; cbn [s_tq s_sq]; rewrite ?U; reflexivity. }
    rewrite Q, app_length, rev_app_distr. cbn [length rev app live_copy m_retain m_topic m_payload].
    rewrite !bytes_eqb_refl. destruct (Nat.ltb _ _); reflexivity.
Qed.

(* ------------------------------------------------------------------ a refused Publish changes nothing *)
Theorem publish_refused_ok st c m got :
  wf st -> OwnOk st ->
  let (r, st') := publish st c m got in refused_ok st (OPublish c m got) r st' = true.
Proof.
  intros W O. destruct (publish st c m got) as [r st'] eqn:E. unfold refused_ok.
  destruct r; try reflexivity.
  destruct (publish_refused st c m got W O) as [_ H]; [rewrite E; reflexivity|].
  rewrite E in H. cbn [snd] in H. subst st'. apply others_unchanged_refl; exact W.
Qed.
