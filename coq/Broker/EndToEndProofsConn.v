(* EndToEndProofsConn.v — the connection stages of the end-to-end composition.

   Part 1 (model BC): every trace accepted by the broker-connection model satisfies the two
   per-connection clauses of Broker/EndToEnd.v,
       forward_link_holds, arrival_link_holds,
   by the induction of ConnBase.v, with the case analysis, frame lemmas and invariants of
   ConnProofsD0.v / ConnProofsD1.v (C15 proofs) and the model invariant INV of ConnProofsC1.v.
   The existing C15/C06 clauses (c15_dequeue_order, c06_forward_intact, c15_in_order) keep their
   books per goroutine and let a goroutine without an entry do anything, so the order of the
   connection as a whole does not follow from them alone; what is needed in addition is that a
   connection has ONE dequeuer and ONE processor, which is a fact of the model.

   Part 2 (lists): what the two clauses mean for the sequences of Broker/EndToEnd.v:
       forwarded es  embeds in order into  dequeued es            (subscriber's connection)
       published es  embeds in order into  arrived es             (publisher's connection; flow without the will) *)
From Coq Require Import List NArith Bool Lia.
From Coq.Strings Require Import Byte.
From GM Require Import Base.Lts Codec.Packet Session.Ids Session.Store Session.StoreProofs
  Broker.Conn Broker.ConnSpec Broker.ConnSpec2 Broker.ConnBase Broker.ConnProofsD0 Broker.ConnProofsD1
  Broker.EndToEnd Broker.EndToEndProofsLists.
From GM Require Broker.ConnProofsC1.
Import ListNotations.
Open Scope N_scope.

(* ================================================================ forward_link == *)

Definition fw_R (s : bc) (u : option message) : Prop :=
  (dq_early (pp s) = true -> dp s = DOff) /\
  match dp s with
  | DOff | DToken | DWait => u = None
  | DNextId m _ => u = Some m
  | DSave p _ | DBackAck p | DSend p => exists m id, p = Publish false m id /\ u = Some m
  | _ => True
  end.

Lemma fl_neutral_step u e : dq_neutral e = true -> fl_step u e = Some u.
Proof.
  intros Hn. destruct e; cbn [dq_neutral] in Hn; try discriminate Hn; cbn [fl_step]; try reflexivity.
  - destruct p; try reflexivity. destruct dup; [reflexivity|discriminate Hn].
  - destruct r; try reflexivity. discriminate Hn.
Qed.

Lemma ack_packet_neutral g p a ok : is_ack_packet p = true -> dq_neutral (ETx g p a ok) = true.
Proof. destruct p; cbn [is_ack_packet dq_neutral]; intros H; try discriminate H; reflexivity. Qed.

Lemma fw_step_ok s u e s' :
  ConnProofsC1.INV s -> fw_R s u -> step s e = Some s' -> exists u', fl_step u e = Some u' /\ fw_R s' u'.
Proof.
  intros HI HR H. destruct (step_cases _ _ _ H) as
    [He Hlp Hs|He Ho Hs|He Hq Hs|Hc|He Hc|g s1 Ho Hg Hc Hi Hv Hp|g s1 Ho Hg Hc Hi Hr1 Hv Hp
    |g s1 Ho Hg Hc Hi Hr1 Hr2 Hv Hp|g s1 Ho Hg Hc Hi Hr1 Hr2 Hr3 Hv Hp|g He Ho Hc Hi Hf Hs].
  - subst e s'. exists None. split; [reflexivity|]. unfold fw_R, new_conn; sf. split; reflexivity.
  - subst e s'. exists u. split; [reflexivity|exact HR].
  - subst e s'. exists u. split; [reflexivity|exact HR].
  - exists u. split; [apply fl_neutral_step, clo_event_dq; eapply step_clo_event; exact Hc|].
    destruct (step_clo_shape _ _ _ Hc) as (si & cl & dy & q & ->).
    unfold fw_R in *; sf; exact HR.
  - subst e. exists u. split; [reflexivity|].
    destruct (step_cleanup_shape _ _ _ Hc) as (p & d & a & l & -> & _ & Hx). destruct HR as (R2 & R3).
    unfold fw_R in *; sf.
    destruct Hx as [(-> & -> & _)|(_ & _ & -> & -> & _)]; [split; assumption|].
    split; [discriminate|]. destruct (dp s); auto.
  - (* processor *)
    assert (HR1 : fw_R s1 u).
    { destruct Hv as [[-> _]|(_ & _ & -> & _)]; [exact HR|]. unfold fw_R in *; sf; exact HR. }
    destruct (step_proc_dq _ _ _ Hp) as (Hn & Hgd & Hd).
    exists u. split; [apply fl_neutral_step, Hn|]. destruct HR1 as (R2 & R3).
    unfold fw_R in *. destruct Hd as [(Hd & He)|(Hpr & Hd & He)].
    + rewrite Hd. split; [|exact R3]. intros Hx. apply R2, He, Hx.
    + rewrite Hd, He. rewrite Hpr in R2. rewrite (R2 eq_refl) in R3. split; [discriminate|exact R3].
  - (* dequeuer *)
    assert (HR1 : fw_R s1 u).
    { destruct Hv as [[-> _]|(_ & _ & ->)]; [exact HR|]. unfold fw_R in *; sf; exact HR. }
    clear HR H Hv Hc Hi. destruct HR1 as (R2 & R3).
    unfold step_deq, take_deq, guard in Hp.
    destruct (dp s1) eqn:Edp; destruct e; try discriminate Hp; bm Hp; inv_some Hp; cbn [ev_g] in Hg; injection Hg as ->.
    all: try (exists u; split; [reflexivity|]; unfold fw_R; sf;
              split; [intros Hx; specialize (R2 Hx); discriminate R2|]; eauto; fail).
    (* a message is dequeued *)
    all: try (exists (Some m); split; [cbn [fl_step]; rewrite R3; reflexivity|]; unfold fw_R; sf;
              split; [intros Hx; specialize (R2 Hx); discriminate R2|]; eauto; fail).
    (* the PUBLISH is sent *)
    all: destruct R3 as (xm & xid & Ep & R3);
         match goal with Hq : packet_eqb _ _ = true |- _ => apply packet_eqb_eq in Hq; rewrite <- Hq end;
         rewrite Ep in *; try discriminate;
         (exists None; split; [cbn [fl_step]; rewrite R3, message_eqb_refl; reflexivity|]);
         unfold fw_R; sf; (split; [intros Hx; specialize (R2 Hx); discriminate R2|]); auto.
  - (* acker: it sends acknowledgements only *)
    assert (HR1 : fw_R s1 u).
    { destruct Hv as [[-> _]|(_ & _ & ->)]; [exact HR|]. unfold fw_R in *; sf; exact HR. }
    assert (Hq : Forall (fun p => is_ack_packet p = true) (ackq s1)).
    { destruct Hv as [[-> _]|(_ & _ & ->)]; sf; apply (ConnProofsC1.I_ackq _ HI). }
    exists u. split.
    + apply fl_neutral_step. unfold step_ack in Hp. destruct (ap s1); destruct e; try discriminate Hp; try reflexivity.
      destruct async; [|discriminate Hp]. destruct (ackq_take (ackq s1) p) as [q'|] eqn:Et; [|discriminate Hp].
      apply ack_packet_neutral. eapply ConnProofsC1.ackq_take_is_ack; [exact Et|exact Hq].
    + destruct (step_ack_shape _ _ _ Hp) as (a & dy & t1 & t2 & t3 & q & ->).
      unfold fw_R in *; sf; exact HR1.
  - (* cleanup *)
    assert (HR1 : fw_R s1 u).
    { destruct Hv as [[-> _]|(_ & _ & ->)]; [exact HR|]. unfold fw_R in *; sf; exact HR. }
    exists u. split; [apply fl_neutral_step, cleanup_event_dq; eapply step_cleanup_event; exact Hp|].
    destruct (step_cleanup_shape _ _ _ Hp) as (p & d & a & l & -> & _ & Hx). destruct HR1 as (R2 & R3).
    unfold fw_R in *; sf.
    destruct Hx as [(-> & -> & _)|(_ & _ & -> & -> & _)]; [split; assumption|].
    split; [discriminate|]. destruct (dp s1); auto.
  - subst e s'. exists u. split; [reflexivity|]. unfold fw_R in *; sf; exact HR.
Qed.

(* every accepted trace: one message in flight per connection, forwarded before the next is taken *)
Theorem forward_link_holds : forall es s, bc_run es = Some s -> forward_link es = true.
Proof.
  apply (scan_sound_inv fl_step ConnProofsC1.INV fw_R ConnProofsC1.INV_init ConnProofsC1.INV_step fw_step_ok).
  unfold fw_R, bc_init. sf. split; [intros _; reflexivity|reflexivity].
Qed.

(* ================================================================ arrival_link == *)

Definition ar_fresh (x : ppc) : bool :=
  match x with PFirst | PDieLog _ | PDieClose | PDone => true | _ => false end.

Definition ar_ok (x : ppc) (t : ar_st) : Prop :=
  match x with
  | PFirst => ar_last t = None
  | PAuth c | PSetup c => ar_will t = c_will c
  | PPub0 m => exists d id, ar_last t = Some (Publish d m id, false) /\ m_qos m = 0
  | PPub1W _ m => exists d id, ar_last t = Some (Publish d m id, false) /\ m_qos m = 1
  | PPub2W p => exists d m id, p = Publish d m id /\ In (id, m) (ar_seen t)
  | PRelLookup id => ar_last t = Some (Pubrel id, false)
  | PRelPub id m => ar_last t = Some (Pubrel id, false) /\ In (id, m) (ar_seen t)
  | _ => True
  end.

(* every packet in the incoming store is a PUBLISH that was received, under its own id *)
Definition in_store_ok (st : store) (seen : list (N * message)) : Prop :=
  forall id p, In (id, p) st -> exists d m, p = Publish d m id /\ In (id, m) seen.

Definition ar_R (s : bc) (t : ar_st) : Prop :=
  ar_ok (pp s) t /\
  (ar_last t = None -> ar_fresh (pp s) = true) /\
  (forall w, will s = Some w -> ar_will t = Some w) /\
  in_store_ok (s_in (sess s)) (ar_seen t) /\
  (pp s = PFirst -> will s = None).

Lemma ar_neutral_step t e : io_neutral e = true -> ar_step t e = Some t.
Proof. intros Hn. destruct e; cbn [io_neutral] in Hn; try discriminate Hn; reflexivity. Qed.

Lemma in_store_put st i p j q : In (j, q) (store_put st i p) -> (j, q) = (i, p) \/ In (j, q) st.
Proof.
  induction st as [|[k r] st IH]; cbn [store_put]; intros H.
  - destruct H as [H|[]]; left; symmetry; exact H.
  - destruct (N.eqb_spec i k) as [->|Hik].
    + destruct H as [H|H]; [left; symmetry; exact H|right; right; exact H].
    + destruct H as [H|H]; [right; left; exact H|]. destruct (IH H) as [E|E]; [left; exact E|right; right; exact E].
Qed.

Lemma lookup_in st i p : store_lookup st i = Some p -> In (i, p) st.
Proof.
  induction st as [|[k r] st IH]; cbn [store_lookup]; intros H; [discriminate H|].
  destruct (N.eqb_spec i k) as [->|Hik]; [injection H as ->; left; reflexivity|right; apply IH, H].
Qed.

Lemma in_store_ok_delete st seen i : in_store_ok st seen -> in_store_ok (store_delete st i) seen.
Proof. intros H id p Hin. apply H. eapply in_store_delete; exact Hin. Qed.

Lemma in_store_ok_mono st seen seen' : (forall x, In x seen -> In x seen') -> in_store_ok st seen -> in_store_ok st seen'.
Proof. intros Hm H id p Hin. destruct (H id p Hin) as (d & m & E & Hs). exists d, m. split; [exact E|apply Hm, Hs]. Qed.

Lemma seen_step_mono seen p x : In x seen -> In x (seen_step seen p).
Proof. intros H. destruct p; cbn [seen_step]; try exact H. destruct (m_qos m =? 2); [right|]; exact H. Qed.

(* closures: the processor's control state and the will stay, the incoming store only shrinks *)
Lemma step_clo_in s e s' : step_clo s e = Some s' ->
  pp s' = pp s /\ will s' = will s /\
  (s_in (sess s') = s_in (sess s) \/ exists id, s_in (sess s') = store_delete (s_in (sess s)) id).
Proof.
  intros H. unfold step_clo, guard in H. destruct e; try discriminate H; bm H; inv_some H;
    unfold clo_enqueue; repeat match goal with |- context [if ?b then _ else _] => destruct b end;
    sf; cbn [sess_with sess_store s_in]; repeat split; eauto.
Qed.

(* the dequeuer never touches the incoming store *)
Lemma step_deq_in s e s' : step_deq s e = Some s' -> s_in (sess s') = s_in (sess s).
Proof.
  intros H. unfold step_deq, take_deq, guard in H. destruct (dp s) eqn:Edp; destruct e; try discriminate H; bm H; inv_some H;
    sf; cbn [sess_with sess_store s_in]; try reflexivity;
    repeat match goal with |- context [if ?b then _ else _] => destruct b end; sf; reflexivity.
Qed.

Lemma ar_R_frame s s' t :
  pp s' = pp s -> will s' = will s -> s_in (sess s') = s_in (sess s) -> ar_R s t -> ar_R s' t.
Proof. intros E1 E2 E3 H. unfold ar_R in *. rewrite E1, E2, E3. exact H. Qed.

(* a will publish passes the scanner whatever was received last *)
Lemma ar_step_will t g m :
  ar_will t = Some m ->
  exists t', ar_step t (EPub g m None) = Some t' /\ ar_will t' = ar_will t /\ ar_seen t' = ar_seen t.
Proof.
  intros Hw. assert (Hi : ar_is_will t m = Some t).
  { unfold ar_is_will. rewrite Hw. cbn [option_eqb]. rewrite message_eqb_refl. reflexivity. }
  cbn [ar_step]. destruct (ar_last t) as [[p b]|]; [|exists t; auto].
  destruct p; try (exists t; auto; fail). destruct b; [exists t; auto|].
  destruct ((m_qos m0 =? 0) && message_eqb m m0); [|exists t; auto].
  unfold ar_use. eexists; split; [reflexivity|split; reflexivity].
Qed.

Lemma seen_existsb seen id m : In (id, m) seen -> existsb (fun x => (fst x =? id) && message_eqb (snd x) m) seen = true.
Proof. intros H. apply existsb_exists. exists (id, m). split; [exact H|]. cbn [fst snd]. rewrite N.eqb_refl, message_eqb_refl. reflexivity. Qed.

Ltac rx_loop R2 R3 R4 :=
  match goal with |- context [ar_step ?t _] =>
    destruct (ar_last t) as [lst|] eqn:El; [|specialize (R2 eq_refl); discriminate R2];
    eexists; split; [cbn [ar_step]; rewrite El; reflexivity|];
    unfold ar_R; sf; cbn [ar_ok ar_fresh ar_last ar_will ar_seen];
    split; [|split; [discriminate|split; [exact R3|split;
      [eapply in_store_ok_mono; [intros x Hx; apply seen_step_mono, Hx|exact R4]|discriminate]]]]
  end.

Lemma ar_step_ok s t e s' : ar_R s t -> step s e = Some s' -> exists t', ar_step t e = Some t' /\ ar_R s' t'.
Proof.
  intros HR H. destruct (step_cases _ _ _ H) as
    [He Hlp Hs|He Ho Hs|He Hq Hs|Hc|He Hc|g s1 Ho Hg Hc Hi Hv Hp|g s1 Ho Hg Hc Hi Hr1 Hv Hp
    |g s1 Ho Hg Hc Hi Hr1 Hr2 Hv Hp|g s1 Ho Hg Hc Hi Hr1 Hr2 Hr3 Hv Hp|g He Ho Hc Hi Hf Hs].
  - (* ENewConn *)
    subst e s'. eexists. split; [reflexivity|]. destruct HR as (R1 & R2 & R3 & R4 & R5).
    unfold ar_R, new_conn; sf. cbn [ar_ok ar_last ar_will ar_seen ar_fresh].
    repeat split; auto; try (intros w Hw; discriminate Hw).
  - subst e s'. exists t. split; [reflexivity|exact HR].
  - subst e s'. exists t. split; [reflexivity|exact HR].
  - (* closure *)
    exists t. split; [apply ar_neutral_step, clo_event_io; eapply step_clo_event; exact Hc|].
    destruct (step_clo_in _ _ _ Hc) as (E1 & E2 & E3). destruct HR as (R1 & R2 & R3 & R4 & R5).
    unfold ar_R. rewrite E1, E2. repeat split; try assumption.
    destruct E3 as [->|(id & ->)]; [exact R4|apply in_store_ok_delete, R4].
  - (* EClosed *)
    subst e. exists t. split; [reflexivity|].
    destruct (step_cleanup_shape _ _ _ Hc) as (p & d & a & l & -> & _ & Hx). destruct HR as (R1 & R2 & R3 & R4 & R5).
    unfold ar_R in *; sf.
    destruct Hx as [(-> & _)|(_ & _ & -> & _)]; repeat split; auto; try discriminate.
  - (* processor *)
    assert (HR1 : ar_R s1 t).
    { destruct Hv as [[-> _]|(_ & _ & -> & _)]; [exact HR|]. unfold ar_R in *; sf; exact HR. }
    clear HR H Hv Hc Hi. destruct HR1 as (R1 & R2 & R3 & R4 & R5).
    unfold step_proc, proc_dispatch, die_p, guard in Hp.
    destruct (pp s1) eqn:Epp; destruct e; try discriminate Hp; bm Hp; inv_some Hp; inv_helpers; inv_tdia;
      cbn [ar_ok] in R1.
    (* events the scanner lets pass, control states without obligation *)
    all: try (exists t; split; [reflexivity|]; unfold ar_R; sf; cbn [ar_ok ar_fresh sess_with sess_store s_in];
              repeat split; auto; try discriminate; fail).
    (* a packet is received: as the first one of the connection ... *)
    all: try (match goal with |- exists t', ar_step _ (ERx _ _) = _ /\ _ => idtac end;
              match type of R1 with ar_last _ = None => idtac end;
              eexists; split; [reflexivity|]; rewrite R1; specialize (R5 eq_refl);
              unfold ar_R; sf; cbn [ar_ok ar_fresh ar_last ar_will ar_seen];
              repeat split; auto; try discriminate;
              try (intros w Hw; rewrite R5 in Hw; discriminate Hw);
              try (eapply in_store_ok_mono; [intros x Hx; apply seen_step_mono, Hx|exact R4]); fail).
    (* ... or in the main loop *)
    all: try (match goal with |- exists t', ar_step _ (ERx _ _) = _ /\ _ => idtac end;
              destruct (ar_last t) as [lst|] eqn:El; [|specialize (R2 eq_refl); discriminate R2];
              eexists; split; [cbn [ar_step]; rewrite El; reflexivity|];
              unfold ar_R; sf; cbn [ar_ok ar_fresh ar_last ar_will ar_seen seen_step];
              repeat match goal with Hx : (_ =? _) = true |- _ => rewrite Hx; apply N.eqb_eq in Hx end;
              repeat split; eauto; try discriminate; try (left; reflexivity);
              try (intros w Hw; discriminate Hw);
              try (eapply in_store_ok_mono; [|exact R4]; intros x Hx; try right; exact Hx); fail).
    + (* Setup hands out a fresh session *)
      exists t; split; [reflexivity|]; unfold ar_R; sf; cbn [ar_ok ar_fresh session_new s_in].
      repeat split; auto; try discriminate; try (intros w0 Hw; rewrite R1; exact Hw); try (intros j q []).
    + (* Setup resumes the session *)
      exists t; split; [reflexivity|]; unfold ar_R; sf; cbn [ar_ok ar_fresh].
      repeat split; auto; try discriminate; try (intros w0 Hw; rewrite R1; exact Hw).
    + (* a QoS 0 PUBLISH arrives *)
      rx_loop R2 R3 R4. exists dup, id. split; [reflexivity|apply N.eqb_eq; assumption].
    + (* a QoS 1 PUBLISH arrives *)
      rx_loop R2 R3 R4. exists dup, id. split; [reflexivity|apply N.eqb_eq; assumption].
    + (* a QoS 2 PUBLISH arrives: it is seen *)
      rx_loop R2 R3 R4. exists dup, m, id. split; [reflexivity|]. cbn [seen_step].
      match goal with Hx : (m_qos _ =? 2) = true |- _ => rewrite Hx end. left; reflexivity.
    + (* the backend Publish for the QoS 0 PUBLISH received last *)
      destruct R1 as (d & id & El & Hq).
      match goal with Hx : message_eqb ?a ?b = true |- _ => apply message_eqb_eq in Hx; subst b end.
      eexists; split; [cbn [ar_step]; rewrite El, Hq; cbn [N.eqb andb]; rewrite message_eqb_refl; reflexivity|].
      unfold ar_R, ar_use; sf; cbn [ar_ok ar_fresh ar_last ar_will ar_seen]. repeat split; auto; discriminate.
    + (* ... for the QoS 1 PUBLISH received last *)
      destruct R1 as (d & id' & El & Hq).
      match goal with Hx : message_eqb ?a ?b = true |- _ => apply message_eqb_eq in Hx; subst b end.
      eexists; split; [cbn [ar_step]; rewrite El, Hq; cbn [N.eqb Pos.eqb andb]; rewrite message_eqb_refl; reflexivity|].
      unfold ar_R, ar_use; sf; cbn [ar_ok ar_fresh ar_last ar_will ar_seen]. repeat split; auto; discriminate.
    + (* the QoS 2 PUBLISH is stored: it was seen *)
      destruct R1 as (d0 & m & id & Ep & Hin).
      match goal with Hx : packet_eqb _ _ = true |- _ => apply packet_eqb_eq in Hx end. subst.
      exists t; split; [reflexivity|]. unfold ar_R; sf; cbn [ar_ok ar_fresh sess_with sess_store s_in store_save get_id].
      repeat split; auto; try discriminate.
      intros j q Hj. destruct (in_store_put _ _ _ _ _ Hj) as [E|Hold]; [|exact (R4 j q Hold)].
      injection E as -> ->. exists d0, m. split; [reflexivity|exact Hin].
    + (* PUBREL id: what the store returns was seen under id *)
      match goal with Hx : _ && _ = true |- _ => apply andb_true_iff in Hx as [Hid Hl] end.
      unfold opt_packet_eqb in Hl. apply (option_eqb_eq _ packet_eqb_eq) in Hl. symmetry in Hl. apply lookup_in in Hl.
      destruct (R4 _ _ Hl) as (d' & m' & E & Hin). injection E as _ <- _.
      exists t; split; [reflexivity|]. unfold ar_R; sf; cbn [ar_ok ar_fresh]. repeat split; auto; discriminate.
    + (* the backend Publish for the PUBREL received last *)
      destruct R1 as (El & Hin).
      match goal with Hx : message_eqb ?a ?b = true |- _ => apply message_eqb_eq in Hx; subst b end.
      eexists; split; [cbn [ar_step]; rewrite El, (seen_existsb _ _ _ Hin); reflexivity|].
      unfold ar_R, ar_use; sf; cbn [ar_ok ar_fresh ar_last ar_will ar_seen]. repeat split; auto; discriminate.
  - (* dequeuer *)
    assert (HR1 : ar_R s1 t).
    { destruct Hv as [[-> _]|(_ & _ & ->)]; [exact HR|]. unfold ar_R in *; sf; exact HR. }
    exists t. split; [apply ar_neutral_step, deq_event_io; eapply step_deq_event; exact Hp|].
    pose proof (step_deq_in _ _ _ Hp) as Ein.
    destruct (step_deq_shape _ _ _ Hp) as (se & d & dy & t1 & t2 & t3 & E). rewrite E in *. clear E.
    sf. unfold ar_R in *; sf. rewrite Ein. exact HR1.
  - (* acker *)
    assert (HR1 : ar_R s1 t).
    { destruct Hv as [[-> _]|(_ & _ & ->)]; [exact HR|]. unfold ar_R in *; sf; exact HR. }
    exists t. split; [apply ar_neutral_step, ack_event_io; eapply step_ack_event; exact Hp|].
    destruct (step_ack_shape _ _ _ Hp) as (a & dy & t1 & t2 & t3 & q & ->).
    unfold ar_R in *; sf; exact HR1.
  - (* cleanup: it publishes the will *)
    assert (HR1 : ar_R s1 t).
    { destruct Hv as [[-> _]|(_ & _ & ->)]; [exact HR|]. unfold ar_R in *; sf; exact HR. }
    destruct HR1 as (R1 & R2 & R3 & R4 & R5).
    assert (Hgoal : exists t', ar_step t e = Some t' /\ ar_will t' = ar_will t /\ ar_seen t' = ar_seen t /\
                               (lp s1 <> LNone -> t' = t)).
    { pose proof (step_cleanup_event _ _ _ Hp) as He. destruct e; cbn [cleanup_event] in He; try discriminate He;
        try (exists t; repeat split; auto; fail).
      destruct k; [discriminate He|].
      unfold step_cleanup, guard in Hp. destruct (lp s1) eqn:Elp; try discriminate Hp.
      destruct (all_stopped s1 && phase_connected (ph s1)); [|discriminate Hp].
      destruct (will s1) as [w|] eqn:Ew; [|discriminate Hp].
      destruct (message_eqb w m) eqn:Em; [|discriminate Hp]. apply message_eqb_eq in Em. subst w.
      destruct (ar_step_will t g0 m (R3 m eq_refl)) as (t' & A & B & C).
      exists t'. repeat split; auto. intros Hl. exfalso. apply Hl. reflexivity. }
    destruct Hgoal as (t' & Et & Ew & Es & Hsame). exists t'. split; [exact Et|].
    destruct (step_cleanup_shape _ _ _ Hp) as (p & d & a & l & -> & _ & Hx).
    destruct Hx as [(-> & _ & _ & Hl)|(_ & _ & -> & _)].
    + rewrite (Hsame Hl). unfold ar_R in *; sf. repeat split; assumption.
    + unfold ar_R in *; sf. rewrite Ew, Es. repeat split; auto; discriminate.
  - subst e s'. exists t. split; [reflexivity|]. unfold ar_R in *; sf; exact HR.
Qed.

(* every accepted trace: each backend Publish is for the packet received last, or the will *)
Theorem arrival_link_holds : forall es s, bc_run es = Some s -> arrival_link es = true.
Proof.
  apply (scan_sound ar_step ar_R ar_step_ok).
  unfold ar_R, bc_init. sf. cbn [ar_ok ar_fresh ar_last ar_will ar_seen session_new s_in].
  repeat split; auto; try discriminate. intros j q [].
Qed.

(* ================================================================ what the clauses mean == *)

(* subscriber's connection: the fresh PUBLISHes it sends are, in order and message for message,
   messages it dequeued — none twice, none invented, none swapped *)
Lemma forward_link_emb : forall es u,
  scan fl_step u es = true ->
  Emb eq (forwarded es) ((match u with Some m => [m] | None => [] end) ++ dequeued es).
Proof.
  induction es as [|e es IH]; intros u H; [apply Emb_nil|].
  cbn [scan] in H. destruct (fl_step u e) as [u'|] eqn:Ef; [|discriminate H]. specialize (IH u' H).
  assert (Hneutral : fl_step u e = Some u ->
            forwarded (e :: es) = forwarded es -> dequeued (e :: es) = dequeued es ->
            Emb eq (forwarded (e :: es)) ((match u with Some m => [m] | None => [] end) ++ dequeued (e :: es))).
  { intros E1 E2 E3. rewrite E1 in Ef. injection Ef as <-. rewrite E2, E3. exact IH. }
  destruct e; try (apply Hneutral; reflexivity).
  - (* ENewConn: a message in flight is dropped *)
    cbn [fl_step] in Ef. injection Ef as <-. apply Emb_app_l. exact IH.
  - (* ETx *)
    destruct p; try (apply Hneutral; reflexivity). destruct dup; [apply Hneutral; reflexivity|].
    cbn [fl_step] in Ef. destruct u as [m'|]; [|discriminate Ef].
    destruct (message_eqb m m') eqn:Em; [|discriminate Ef]. injection Ef as <-. apply message_eqb_eq in Em. subst m'.
    change (forwarded (ETx g (Publish false m id) async ok :: es)) with (m :: forwarded es).
    change (dequeued (ETx g (Publish false m id) async ok :: es)) with (dequeued es).
    cbn [app]. apply Emb_take; [reflexivity|exact IH].
  - (* EDeqRet *)
    destruct r; try (apply Hneutral; reflexivity).
    cbn [fl_step] in Ef. destruct u as [m'|]; [discriminate Ef|]. injection Ef as <-.
    change (forwarded (EDeqRet g (QMsg m backack) :: es)) with (forwarded es).
    change (dequeued (EDeqRet g (QMsg m backack) :: es)) with (m :: dequeued es).
    exact IH.
Qed.

Theorem forwarded_embeds_dequeued es : forward_link es = true -> Emb eq (forwarded es) (dequeued es).
Proof. intros H. exact (forward_link_emb es None H). Qed.

(* publisher's connection: the messages of a flow (without the will) that it hands to the backend are,
   in order, carried by arrivals of its wire: each by an arrival of its own, the QoS 0/1 PUBLISH with
   exactly that message or the PUBREL whose packet id a QoS 2 PUBLISH with that message had *)
Definition ar_avail (t : ar_st) : list (list message) :=
  match ar_last t with Some (p, false) => arrival (ar_seen t) p | _ => [] end.
Definition will_ok (fl : flow) (t : ar_st) : Prop :=
  match ar_will t with Some w => in_flow fl w = false | None => True end.

Lemma arrival_seen_step seen p : arrival (seen_step seen p) p = arrival seen p.
Proof. destruct p; try reflexivity. Qed.

Lemma ar_is_will_inv t m t' : ar_is_will t m = Some t' -> t' = t /\ ar_will t = Some m.
Proof.
  unfold ar_is_will. destruct (ar_will t) as [w|]; cbn [option_eqb]; [|discriminate].
  destruct (message_eqb w m) eqn:E; [|discriminate]. intros H. injection H as <-. apply message_eqb_eq in E. subst w. auto.
Qed.

Lemma candidates_in seen id m :
  existsb (fun x => (fst x =? id) && message_eqb (snd x) m) seen = true -> In m (candidates seen id).
Proof.
  intros H. apply existsb_exists in H as ([j x] & Hin & Hx). cbn [fst snd] in Hx.
  apply andb_true_iff in Hx as [Hj Hm]. apply message_eqb_eq in Hm. subst x.
  unfold candidates. apply in_map_iff. exists (j, m). split; [reflexivity|]. apply filter_In. split; [exact Hin|exact Hj].
Qed.

Lemma arrival_link_emb fl : forall es t,
  scan ar_step t es = true -> will_ok fl t -> no_will_in_flow fl es = true ->
  Emb carries (filter (in_flow fl) (published es)) (ar_avail t ++ arrived_from (ar_seen t) es).
Proof.
  induction es as [|e es IH]; intros t H Hw Hn; [apply Emb_nil|].
  cbn [scan] in H. destruct (ar_step t e) as [t'|] eqn:Ef; [|discriminate H].
  cbn [no_will_in_flow forallb] in Hn. apply andb_true_iff in Hn as [Hn1 Hn2]. fold (no_will_in_flow fl es) in Hn2.
  specialize (IH t' H).
  assert (Hneutral : ar_step t e = Some t -> published (e :: es) = published es ->
            arrived_from (ar_seen t) (e :: es) = arrived_from (ar_seen t) es ->
            Emb carries (filter (in_flow fl) (published (e :: es))) (ar_avail t ++ arrived_from (ar_seen t) (e :: es))).
  { intros E1 E2 E3. rewrite E1 in Ef. injection Ef as <-. rewrite E2, E3. apply IH; assumption. }
  (* a backend Publish that uses up the arrival received last *)
  assert (Huse : forall p m, ar_last t = Some (p, false) -> ar_use t p = Some t' -> carries m (hd [] (arrival (ar_seen t) p)) ->
            arrival (ar_seen t) p <> [] ->
            Emb carries (filter (in_flow fl) (m :: published es)) (ar_avail t ++ arrived_from (ar_seen t) es)).
  { intros p m El Eu Hc Hne. unfold ar_use in Eu. injection Eu as <-.
    assert (IH' : Emb carries (filter (in_flow fl) (published es)) (arrived_from (ar_seen t) es)) by (apply IH; [exact Hw|exact Hn2]).
    unfold ar_avail. rewrite El.
    assert (Har : exists c, arrival (ar_seen t) p = [c]).
    { destruct p; cbn [arrival] in *; try (exfalso; apply Hne; reflexivity); eauto.
      destruct (m_qos m0 =? 2); [exfalso; apply Hne; reflexivity|eauto]. }
    destruct Har as (c & Ec). rewrite Ec in *. cbn [hd app] in *. cbn [filter].
    destruct (in_flow fl m); [apply Emb_take; [exact Hc|exact IH']|apply Emb_skip, IH']. }
  destruct e; try (apply Hneutral; reflexivity).
  - (* ENewConn *)
    cbn [ar_step] in Ef. injection Ef as <-. apply Emb_app_l.
    change (published (ENewConn :: es)) with (published es). change (arrived_from (ar_seen t) (ENewConn :: es)) with (arrived_from (ar_seen t) es).
    apply (IH I Hn2).
  - (* ERx *)
    cbn [ar_step] in Ef. injection Ef as <-.
    change (published (ERx g p :: es)) with (published es).
    change (arrived_from (ar_seen t) (ERx g p :: es)) with (arrival (ar_seen t) p ++ arrived_from (seen_step (ar_seen t) p) es).
    apply Emb_app_l. rewrite <- (arrival_seen_step (ar_seen t) p).
    apply IH; [|exact Hn2]. unfold will_ok. cbn [ar_will].
    destruct (ar_last t); [exact Hw|]. destruct p; try exact I.
    destruct (c_will c) as [w|]; [|exact I]. apply negb_true_iff. exact Hn1.
  - (* EPub *)
    change (published (EPub g m k :: es)) with (m :: published es).
    change (arrived_from (ar_seen t) (EPub g m k :: es)) with (arrived_from (ar_seen t) es).
    assert (Hwill : ar_is_will t m = Some t' ->
              Emb carries (filter (in_flow fl) (m :: published es)) (ar_avail t ++ arrived_from (ar_seen t) es)).
    { intros Ew. apply ar_is_will_inv in Ew as [-> Ew]. unfold will_ok in Hw. rewrite Ew in Hw.
      cbn [filter]. rewrite Hw. apply IH; [unfold will_ok; rewrite Ew; exact Hw|exact Hn2]. }
    cbn [ar_step] in Ef. destruct k as [n|].
    + destruct (ar_last t) as [[p b]|] eqn:El; [|discriminate Ef].
      destruct p; try discriminate Ef; destruct b; try discriminate Ef.
      * destruct ((m_qos m0 =? 1) && message_eqb m m0) eqn:C; [|discriminate Ef].
        apply andb_true_iff in C as [Cq Cm]. apply message_eqb_eq in Cm. subst m0. apply N.eqb_eq in Cq.
        apply (Huse _ m eq_refl Ef); cbn [arrival]; rewrite Cq; cbn [N.eqb Pos.eqb hd]; [|discriminate].
        exists m. split; [left; reflexivity|apply capped_refl].
      * destruct (existsb _ (ar_seen t)) eqn:C; [|discriminate Ef].
        apply (Huse _ m eq_refl Ef); cbn [arrival hd]; [|discriminate].
        exists m. split; [apply candidates_in, C|apply capped_refl].
    + destruct (ar_last t) as [[p b]|] eqn:El; [|apply Hwill, Ef].
      destruct p; try (apply Hwill, Ef); destruct b; try (apply Hwill, Ef).
      destruct ((m_qos m0 =? 0) && message_eqb m m0) eqn:C; [|apply Hwill, Ef].
      apply andb_true_iff in C as [Cq Cm]. apply message_eqb_eq in Cm. subst m0. apply N.eqb_eq in Cq.
      apply (Huse _ m eq_refl Ef); cbn [arrival]; rewrite Cq; cbn [N.eqb hd]; [|discriminate].
      exists m. split; [left; reflexivity|apply capped_refl].
Qed.

Theorem published_embeds_arrived fl es :
  arrival_link es = true -> no_will_in_flow fl es = true ->
  Emb carries (filter (in_flow fl) (published es)) (arrived es).
Proof. intros H Hn. exact (arrival_link_emb fl es (ArSt None None []) H I Hn). Qed.
