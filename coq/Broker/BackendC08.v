(* BackendC08.v — the backend side of C08 (no accepted QoS>=1 message is lost for a
   persistent subscriber) on the MemoryBackend model:
   * offline_queue_ok: the stored queue of every stored session changes only by
     - a Publish appending one copy (QoS >= 1 and a matching filter; for an OFFLINE session:
       appended iff there is room),
     - a Dequeue from that queue by the connection holding the session (head removed),
     - a clean Setup of its client id (session deleted);
     every other step leaves it as it is — a queued message stays until dequeued;
   * session_present_ok: Setup reports "resumed" exactly when clean = false and a stored
     session for the id existed; a clean Setup deletes the stored session and hands out a
     fresh empty temporary one.
   (The packet stores live in the session.MemorySession object embedded in the Go session;
    deleting the memorySession drops them with it.  They are not part of this model.) *)
From Coq Require Import List NArith Bool Lia.
From Coq.Strings Require Import Byte.
From GM Require Import Codec.Packet Topic.MatchSpec Broker.Backend Broker.BackendSpec
  Broker.BackendProofs Broker.BackendProofsPublish Broker.BackendProofsSteps Broker.BackendOwn Broker.BackendProofsHist
  Broker.BackendLog.
Import ListNotations.
Open Scope N_scope.

Definition copy_of (m : message) : message := Msg (m_topic m) (m_payload m) (m_qos m) false.

Definition holds_stored (st : state) (c : conn) (id : bytes) : bool :=
  option_eqb skey_eqb (alookup N.eqb c (st_sess st)) (Some (KStored id)).

Definition clean_setup_of (st : state) (o : op) (r : result) (id : bytes) : bool :=
  match r with
  | RSetup false =>
      match o with
      | OSetup _ id' true => bytes_eqb id id'
      | OSetupEnd false => match st_pending st with Some p => p_clean p && bytes_eqb id (p_id p) | None => false end
      | _ => false
      end
  | _ => false
  end.

Definition offline_queue_ok (st : state) (o : op) (r : result) (st' : state) : bool :=
  forallb (fun e =>
    let id := fst e in let s := snd e in
    match alookup bytes_eqb id (st_stored st') with
    | None => clean_setup_of st o r id
    | Some s' =>
        match o with
        | OPublish c m _ =>
            if negb (use_temp m) && has_match (s_subs s) (m_topic m) && name_ok (m_topic m) then
              match s_act s, r with
              | None, ROk => msgs_eqb (s_sq s') (if is_full (st_cap st) (s_sq s) then s_sq s else s_sq s ++ [copy_of m])
              | _, ROk => msgs_eqb (s_sq s') (s_sq s) || msgs_eqb (s_sq s') (s_sq s ++ [copy_of m])
              | _, _ => msgs_eqb (s_sq s') (s_sq s)
              end
            else if name_ok (m_topic m) then msgs_eqb (s_sq s') (s_sq s)
            else msgs_eqb (s_sq s') (s_sq s) || msgs_eqb (s_sq s') (s_sq s ++ [copy_of m])
        | ODequeue c false =>
            if holds_stored st c id then msgs_eqb (s_sq s') (tl (s_sq s)) else msgs_eqb (s_sq s') (s_sq s)
        | _ => msgs_eqb (s_sq s') (s_sq s)
        end
    end) (st_stored st).

Definition fresh_temp (st' : state) (c : conn) : bool :=
  match alookup N.eqb c (st_temps st') with
  | Some s => session_eqb s (Sess [] [] [] (Some c))
  | None => false
  end.

(* Setup(c, id, clean) with a client id returned (session, resumed) *)
Definition present_check (st st' : state) (c : conn) (id : bytes) (clean resumed : bool) : bool :=
  Bool.eqb resumed (negb clean && is_some (alookup bytes_eqb id (st_stored st))) &&
  (if clean then negb (is_some (alookup bytes_eqb id (st_stored st'))) && fresh_temp st' c else true).

Definition session_present_ok (st : state) (o : op) (r : result) (st' : state) : bool :=
  match o, r with
  | OSetup c id clean, RSetup resumed =>
      if is_nil id then negb resumed && fresh_temp st' c       (* no client id: always a fresh temporary session *)
      else present_check st st' c id clean resumed
  | OSetupEnd false, RSetup resumed =>
      match st_pending st with
      | Some p => present_check st st' (p_conn p) (p_id p) (p_clean p) resumed
      | None => false end
  | _, _ => true
  end.

(* ------------------------------------------------------------------ proofs *)
Lemma bytes_eqb_sym' a b : bytes_eqb a b = bytes_eqb b a.
Proof.
  destruct (bytes_eqb a b) eqn:E.
  - apply bytes_eqb_eq in E; subst. symmetry; apply bytes_eqb_refl.
  - destruct (bytes_eqb b a) eqn:E2; [|reflexivity]. apply bytes_eqb_eq in E2; subst. rewrite bytes_eqb_refl in E; discriminate.
Qed.

Lemma or_refl_l a b : msgs_eqb a a || b = true.
Proof. rewrite msgs_eqb_refl; reflexivity. Qed.

(* a step that only rewrites the session of connection c to one with the same stored queue *)
Lemma stored_sq_put st c k s0 s2 id s :
  session_of st c = Some (k, s0) -> s_sq s2 = s_sq s0 ->
  alookup bytes_eqb id (st_stored st) = Some s ->
  exists s', alookup bytes_eqb id (st_stored (put_session st k s2)) = Some s' /\ s_sq s' = s_sq s.
Proof.
  intros S Q L. pose proof (session_of_get _ _ _ _ S) as G.
  destruct k as [x|i]; cbn [put_session st_stored]; [exists s; auto|].
  rewrite (alookup_aset bytes_eqb bytes_eqb_eq). destruct (bytes_eqb id i) eqn:E; [|exists s; auto].
  apply bytes_eqb_eq in E; subst i. cbn [get_session] in G. rewrite L in G. injection G as <-.
  exists s2; auto.
Qed.

Lemma setup_finish_stored st c id clean i s :
  alookup bytes_eqb i (st_stored st) = Some s ->
  match alookup bytes_eqb i (st_stored (snd (setup_finish st c id clean))) with
  | Some s' => s_sq s' = s_sq s
  | None => clean = true /\ i = id /\ fst (setup_finish st c id clean) = RSetup false
  end.
Proof.
  intros L. unfold setup_finish. destruct clean.
  - cbn [snd fst st_stored]. rewrite (alookup_aremove bytes_eqb bytes_eqb_eq).
    destruct (bytes_eqb i id) eqn:E; [apply bytes_eqb_eq in E; auto|rewrite L; reflexivity].
  - destruct (alookup bytes_eqb id (st_stored st)) as [s0|] eqn:L0; cbn [snd st_stored];
      rewrite (alookup_aset bytes_eqb bytes_eqb_eq); destruct (bytes_eqb i id) eqn:E; rewrite ?L; try reflexivity.
    + apply bytes_eqb_eq in E; subst i. rewrite L in L0; injection L0 as <-. reflexivity.
    + apply bytes_eqb_eq in E; subst i. rewrite L in L0; discriminate.
Qed.

Theorem step_offline_queue_ok st o :
  wf st -> OwnOk st -> let (r, st') := step st o in offline_queue_ok st o r st' = true.
Proof.
  intros W O. destruct (step st o) as [r st'] eqn:E. unfold offline_queue_ok.
  apply forallb_forall. intros [id s] Hin. cbn [fst snd].
  assert (L : alookup bytes_eqb id (st_stored st) = Some s)
    by (apply (In_alookup bytes_eqb bytes_eqb_eq); [exact (proj1 (proj2 W))|exact Hin]).
  assert (Same : forall s', alookup bytes_eqb id (st_stored st') = Some s' -> s_sq s' = s_sq s ->
                 match alookup bytes_eqb id (st_stored st') with
                 | Some s'0 => msgs_eqb (s_sq s'0) (s_sq s) = true | None => False end).
  { intros s' -> ->. apply msgs_eqb_refl. }
  destruct o as [c i clean|t|c|c subs b|c fs|c m got|c t|c|]; cbn [step] in E.
  - (* setup *)
    unfold setup in E. destruct (st_pending st); [injection E as <- <-; rewrite L; apply msgs_eqb_refl|].
    destruct (alookup N.eqb c (st_cid st)); [injection E as <- <-; rewrite L; apply msgs_eqb_refl|].
    cbn [st_closing] in E. destruct (st_closing st); [injection E as <- <-; cbn [st_stored]; rewrite L; apply msgs_eqb_refl|].
    destruct (is_nil i); [injection E as <- <-; cbn [st_stored]; rewrite L; apply msgs_eqb_refl|].
    match type of E with context [existing_session ?s0 i] => set (st1 := s0) in * end.
    assert (L1 : alookup bytes_eqb id (st_stored st1) = Some s) by exact L.
    destruct (existing_session st1 i) as [[a b0 c0 [c1|]]|];
      [injection E as <- <-; unfold set_pending; cbn [st_stored]; rewrite L1; apply msgs_eqb_refl| |];
      pose proof (setup_finish_stored st1 c i clean id s L1) as X; rewrite E in X; cbn [fst snd] in X;
      (destruct (alookup bytes_eqb id (st_stored st')) as [s'|]; [rewrite X; apply msgs_eqb_refl|]);
      destruct X as (-> & -> & ->); cbn [clean_setup_of]; apply bytes_eqb_refl.
  - unfold setup_end in E. destruct (st_pending st) as [p|] eqn:P; [|injection E as <- <-; rewrite L; apply msgs_eqb_refl].
    destruct t; [injection E as <- <-; unfold set_pending; cbn [st_stored]; rewrite L; apply msgs_eqb_refl|].
    destruct (mem_n (p_old p) (st_closed st)); [|injection E as <- <-; rewrite L; apply msgs_eqb_refl].
    pose proof (setup_finish_stored st (p_conn p) (p_id p) (p_clean p) id s L) as X; rewrite E in X; cbn [fst snd] in X.
    destruct (alookup bytes_eqb id (st_stored st')) as [s'|]; [rewrite X; apply msgs_eqb_refl|].
    destruct X as (Hc & -> & ->). cbn [clean_setup_of]. rewrite P, Hc, bytes_eqb_refl. reflexivity.
  - unfold mark_closed in E. destruct (mem_n c (st_term st)); injection E as <- <-; cbn [st_stored]; rewrite L; apply msgs_eqb_refl.
  - unfold subscribe in E. destruct (session_of st c) as [[k s0]|] eqn:S; [|injection E as <- <-; rewrite L; apply msgs_eqb_refl].
    destruct (negb _); [injection E as <- <-; rewrite L; apply msgs_eqb_refl|]. injection E as <- <-.
    match goal with |- context [put_session st k ?s2] => destruct (stored_sq_put st c k s0 s2 id s S eq_refl L) as [s' [-> Q]] end.
    rewrite Q; apply msgs_eqb_refl.
  - unfold unsubscribe in E. destruct (session_of st c) as [[k s0]|] eqn:S; [|injection E as <- <-; rewrite L; apply msgs_eqb_refl].
    injection E as <- <-.
    match goal with |- context [put_session st k ?s2] => destruct (stored_sq_put st c k s0 s2 id s S eq_refl L) as [s' [-> Q]] end.
    rewrite Q; apply msgs_eqb_refl.
  - (* publish *)
    assert (Est : st' = snd (publish st c m got)) by (rewrite E; reflexivity).
    destruct (name_ok (m_topic m)) eqn:Hn.
    + pose proof (publish_queue st c m got false (KStored id) s W O Hn L) as X. cbn [step] in E. rewrite E in X.
      destruct X as [s' [G Q]]. cbn [get_session] in G. rewrite G. cbn [queue] in Q. rewrite Q.
      unfold enq_event. cbn [get_session]. rewrite L. cbn [queue]. rewrite andb_true_r. fold (copy_of m).
      destruct (use_temp m); cbn [Bool.eqb negb andb]; [rewrite app_nil_r; apply msgs_eqb_refl|].
      destruct (has_match (s_subs s) (m_topic m)); cbn [andb]; [|rewrite app_nil_r; apply msgs_eqb_refl].
      destruct (is_full (st_cap st) (s_sq s)); cbn [negb andb];
        destruct (s_act s); destruct r; rewrite ?app_nil_r, ?msgs_eqb_refl, ?orb_true_r; reflexivity.
    + rewrite andb_false_r.
      destruct (pub_stuck st c m) eqn:Hnb.
      * cbn [step] in E. rewrite publish_unfold, Hnb in E. injection E as <- <-. rewrite L. apply or_refl_l.
      * pose proof (get_session_published st c m got (KStored id) Hnb) as G. cbv zeta in G.
        cbn [get_session] in G. rewrite <- Est, L in G. cbn [option_map] in G. rewrite G.
        match goal with |- context [deliver ?e got ?k ?a m s] =>
          assert (Hd : deliver e got k a m s = s \/ deliver e got k a m s = enqueue m s)
            by (unfold deliver; destruct a; auto; destruct e; auto; destruct (mem_key k got); auto);
          destruct Hd as [-> | ->] end; [apply or_refl_l|].
        unfold enqueue. destruct (use_temp m); cbn [s_sq]; [apply or_refl_l|].
        fold (copy_of m). unfold live_copy. fold (copy_of m). rewrite msgs_eqb_refl, orb_true_r. reflexivity.
  - (* dequeue *)
    unfold dequeue in E. destruct (session_of st c) as [[k s0]|] eqn:S.
    2:{ injection E as <- <-. rewrite L. unfold holds_stored, session_of in *.
        destruct t; [apply msgs_eqb_refl|].
        destruct (alookup N.eqb c (st_sess st)) as [k0|] eqn:A; [|cbn; apply msgs_eqb_refl].
        destruct (get_session st k0) eqn:G; [discriminate|].
        cbn [option_eqb]. destruct (skey_eqb k0 (KStored id)) eqn:K; [|apply msgs_eqb_refl].
        apply skey_eqb_eq in K; subst k0. cbn [get_session] in G. congruence. }
    pose proof (session_of_get _ _ _ _ S) as G.
    assert (HS : holds_stored st c id = skey_eqb k (KStored id)).
    { unfold holds_stored. unfold session_of in S. destruct (alookup N.eqb c (st_sess st)) as [k0|]; [|discriminate].
      destruct (get_session st k0); [|discriminate]. injection S as -> _. reflexivity. }
    destruct t.
    + destruct (s_tq s0) as [|m q]; injection E as <- <-; [rewrite L; apply msgs_eqb_refl|].
      match goal with |- context [put_session st k ?s2] => destruct (stored_sq_put st c k s0 s2 id s S eq_refl L) as [s' [-> Q]] end.
      rewrite Q; apply msgs_eqb_refl.
    + rewrite HS. destruct (s_sq s0) as [|m q] eqn:SQ; injection E as <- <-.
      * rewrite L. destruct (skey_eqb k (KStored id)) eqn:K; [|apply msgs_eqb_refl].
        apply skey_eqb_eq in K; subst k. cbn [get_session] in G. rewrite L in G; injection G as <-. rewrite SQ. reflexivity.
      * destruct k as [x|i]; cbn [put_session st_stored skey_eqb]; [rewrite L; apply msgs_eqb_refl|].
        rewrite (alookup_aset bytes_eqb bytes_eqb_eq). rewrite (bytes_eqb_sym' i id).
        destruct (bytes_eqb id i) eqn:K; [|rewrite L; apply msgs_eqb_refl].
        apply bytes_eqb_eq in K; subst i. cbn [get_session] in G. rewrite L in G; injection G as <-.
        cbn [s_sq]. rewrite SQ. cbn [tl]. apply msgs_eqb_refl.
  - (* terminate *)
    unfold terminate in E. destruct (alookup N.eqb c (st_cid st)) as [cid|]; [|injection E as <- <-; rewrite L; apply msgs_eqb_refl].
    destruct (mem_n c (st_term st) || _); injection E as <- <-; [rewrite L; apply msgs_eqb_refl|]. cbn [st_stored].
    destruct (alookup N.eqb c (st_sess st)) as [[x|i]|]; try (rewrite L; apply msgs_eqb_refl).
    destruct (alookup bytes_eqb i (st_stored st)) as [s0|] eqn:L0; [|rewrite L; apply msgs_eqb_refl].
    destruct (option_eqb N.eqb (s_act s0) (Some c)); [|rewrite L; apply msgs_eqb_refl].
    rewrite (alookup_aset bytes_eqb bytes_eqb_eq). destruct (bytes_eqb id i) eqn:K; [|rewrite L; apply msgs_eqb_refl].
    apply bytes_eqb_eq in K; subst i. rewrite L in L0; injection L0 as <-. apply msgs_eqb_refl.
  - injection E as <- <-. cbn [st_stored]. rewrite L; apply msgs_eqb_refl.
Qed.

Lemma setup_finish_present st c id clean :
  let (r, st') := setup_finish st c id clean in
  exists resumed, r = RSetup resumed /\ present_check st st' c id clean resumed = true.
Proof.
  unfold setup_finish, present_check, fresh_temp. destruct clean.
  - exists false. split; [reflexivity|]. cbn [st_stored st_temps negb andb Bool.eqb].
    rewrite (alookup_aremove bytes_eqb bytes_eqb_eq), bytes_eqb_refl.
    rewrite (alookup_aset N.eqb N.eqb_eq), N.eqb_refl. apply session_eqb_refl.
  - destruct (alookup bytes_eqb id (st_stored st)) as [s|].
    + exists true. split; reflexivity.
    + exists false. split; reflexivity.
Qed.

Theorem step_session_present_ok st o : let (r, st') := step st o in session_present_ok st o r st' = true.
Proof.
  destruct (step st o) as [r st'] eqn:E. unfold session_present_ok.
  destruct o as [c id clean|t|c|c subs b|c fs|c m got|c t|c|]; try reflexivity; cbn [step] in E.
  - unfold setup in E. destruct (st_pending st); [injection E as <- <-; reflexivity|].
    destruct (alookup N.eqb c (st_cid st)); [injection E as <- <-; reflexivity|].
    cbn [st_closing] in E. destruct (st_closing st); [injection E as <- <-; reflexivity|].
    destruct (is_nil id) eqn:Hid.
    + injection E as <- <-. unfold fresh_temp. cbn [st_temps negb andb].
      rewrite (alookup_aset N.eqb N.eqb_eq), N.eqb_refl. apply session_eqb_refl.
    + match type of E with context [existing_session ?s0 id] => set (st1 := s0) in * end.
      destruct (existing_session st1 id) as [[a b0 c0 [c1|]]|]; [injection E as <- <-; reflexivity| |];
        pose proof (setup_finish_present st1 c id clean) as X; rewrite E in X;
        destruct X as [resumed [-> H1]]; exact H1.
  - destruct t; [destruct r; reflexivity|].
    unfold setup_end in E. destruct (st_pending st) as [p|] eqn:P; [|injection E as <- <-; reflexivity].
    destruct (mem_n (p_old p) (st_closed st)); [|injection E as <- <-; reflexivity].
    pose proof (setup_finish_present st (p_conn p) (p_id p) (p_clean p)) as X; rewrite E in X.
    destruct X as [resumed [-> H1]]; exact H1.
Qed.

(* ------------------------------------------------------------------ along every history *)
Theorem offline_queue_along cap ops : holds_along offline_queue_ok cap ops.
Proof.
  apply holds_along_intro. intros st o W O. pose proof (step_offline_queue_ok st o W (own_ownok st O)) as X.
  destruct (step st o). intros _; exact X.
Qed.

Theorem session_present_along cap ops : holds_along session_present_ok cap ops.
Proof.
  apply holds_along_intro. intros st o _ _. pose proof (step_session_present_ok st o) as X.
  destruct (step st o). intros _; exact X.
Qed.

(* the names asked for by the C08 builder *)
Definition C08_offline_queue := offline_queue_along.
Definition C08_session_present := session_present_along.
