(* ConnSpec7.v — C08 as ONE end-to-end conservation clause ("nothing is lost").

   The C08 clauses of ConnSpec.v / ConnSpec3.v / ConnSpec6.v are local (store before send,
   kept until acked, popped is saved, store replica ...).  [c08_ledger] is the bookkeeping
   an auditor would do over the whole session lifetime: a LEDGER with one entry for every
   QoS 1/2 message the dequeuer obtained from the backend queue (EDeqRet g (QMsg m _)), which
   follows the message through

       in hand of g            dequeued by goroutine g, nothing recorded yet
       Stored id               ESave g Outgoing (Publish false m id) true, id from g's ENextId
       Released id             ESave _ Outgoing (Pubrel id) true by the goroutine that received PUBREC id
       Done id                 EDelete _ Outgoing id true by the goroutine that received PUBACK/PUBCOMP id
       Failed                  ESave g Outgoing (Publish false m id) false: SavePacket failed — the
                               ONLY way a dequeued message may end unrecorded; that goroutine then
                               reports a session error (EDie g KSession) before the connection ends
       Overwritten id          (see below) a later message was stored under the same id while this
                               one was still recorded

   and answers [false] at the first event at which conservation is broken:
     * EClosed / EQuiescent / ENewConn while some message is still in a goroutine's hand, or
       EClosed / EQuiescent while a goroutine whose save failed has not reported the session error;
     * a goroutine obtains a second message while the first is still in its hand;
     * a PUBLISH is saved that is not exactly the message in the saving goroutine's hand, with
       dup = false and the id of that goroutine's preceding ENextId; anything but PUBLISH / PUBREL
       is saved in the outgoing store;
     * a PUBREL is saved by a goroutine whose last received packet is not PUBREC of that id;
     * Delete Outgoing id by a goroutine whose last received packet is not PUBACK / PUBCOMP id;
     * a resume listing (EAll g Outgoing (Some ps)) is not EXACTLY — up to the dup flag of the
       PUBLISHes, which the broker sets on the stored object when it re-sends it — the packets
       of the recorded entries (Stored: Publish _ m id, Released: Pubrel id) in the order in which
       they were first stored.
   The ledger is emptied by a fresh session (ESetup _ (SOk _ true _ _ _)).

   Two things the scanner has to know to be exact about the listing, both faithful to
   client.go + session.MemorySession:
     - a PUBREC for an id that no recorded entry holds still makes the broker store PUBREL id
       (processPubrec does not look the id up): the ledger keeps such a record as [LPhantom];
       it is listed and re-sent like any other, deleted by PUBCOMP id; no message is involved;
     - NextID does not skip ids that are still recorded, and SavePacket replaces the packet
       stored under an id (keeping its place in the order).  After 65535 further allocations
       the id of a still unacknowledged message is handed out again and its record is
       OVERWRITTEN: that message is lost (DESIGN.md, observation on C08).  The monitor accepts
       such traces, so the plain clause [c08_ledger] marks the victim [LOverwritten] and goes
       on; [c08_ledger_strict] answers [false] there, and [c08_no_id_clash] is the trace
       hypothesis under which the two coincide.

   The scanner keeps the RECORDED entries (Stored / Released / phantom) in [lg_log], in the order
   of their first save — that list IS what a resume must list — and moves every entry that is
   closed (Done / Failed / Overwritten) to the archive [lg_arch], so that one event costs time
   proportional to the number of messages in flight, not to the length of the trace.

   (The model has no failing NextID: ENextId carries no result flag, session.NextID cannot fail.)

   Definitions only (extractable); the proofs are in ConnProofsF1.v / ConnProofsF2.v, the
   counter-example to the strict clause in ConnProofsF3.v. *)
From Coq Require Import List NArith Bool.
From GM Require Import Codec.Packet Session.Store Broker.Conn Broker.ConnSpec Broker.ConnSpec6
  Broker.ConnProofsCDefs.
Import ListNotations.
Open Scope N_scope.

(* ----------------------------------------------------------------- ledger *)

Inductive lstatus :=
| LStored (id : N) | LReleased (id : N) | LDone (id : N) | LFailed | LOverwritten (id : N).

Inductive litem :=
| LMsg (at_ : nat) (m : message) (st : lstatus)   (* the message dequeued by the at_-th event of the trace *)
| LPhantom (id : N) (live : bool).                (* PUBREL recorded for an id no entry held *)

(* a message in a goroutine's hand: position of its EDeqRet, the message, the id allocated since *)
Record lhand := LH { lh_at : nat; lh_msg : message; lh_id : option N }.

Record lg_st := LG {
  lg_n    : nat;                    (* events read so far *)
  lg_open : bool;                   (* a connection is open (ENewConn seen, EClosed not yet) *)
  lg_hand : list (N * lhand);       (* goroutine -> message in its hand *)
  lg_log  : list litem;             (* the RECORDED entries (Stored / Released / live phantom), in the order
                                       of their first save *)
  lg_arch : list litem;             (* the closed entries (Done / Failed / Overwritten), latest first *)
  lg_last : list (N * packet);      (* goroutine -> last packet received on this connection *)
  lg_die  : list N }.               (* goroutines whose save failed: they owe EDie g KSession *)

Definition lg_init : lg_st := LG 0 false [] [] [] [] [].

(* the packet the session holds for an entry *)
Definition item_rec (x : litem) : option (N * packet) :=
  match x with
  | LMsg _ m (LStored id) => Some (id, Publish false m id)
  | LMsg _ _ (LReleased id) => Some (id, Pubrel id)
  | LPhantom id true => Some (id, Pubrel id)
  | _ => None
  end.
Definition opt_list {A} (o : option A) : list A := match o with Some x => [x] | None => [] end.
(* what the ledger says the outgoing store holds (ids and packets, dup = false) *)
Definition lg_live (l : list litem) : store := flat_map (fun x => opt_list (item_rec x)) l.
Definition lg_listing (l : list litem) : list packet := store_all (lg_live l).

Definition holds (x : litem) (id : N) : bool :=
  match item_rec x with Some (j, _) => id =? j | None => false end.

(* replace the first entry that holds [id] by [f] of it; [dflt] if there is none *)
Fixpoint lg_upd (f : litem -> list litem) (dflt : list litem) (id : N) (l : list litem) : list litem :=
  match l with
  | [] => dflt
  | x :: r => if holds x id then f x ++ r else x :: lg_upd f dflt id r
  end.

Definition it_over (x : litem) : litem :=
  match x with
  | LMsg a m (LStored id) | LMsg a m (LReleased id) => LMsg a m (LOverwritten id)
  | LPhantom id _ => LPhantom id false
  | _ => x
  end.
Definition it_release (x : litem) : litem :=
  match x with LMsg a m (LStored id) => LMsg a m (LReleased id) | _ => x end.
Definition it_done (x : litem) : litem :=
  match x with
  | LMsg a m (LStored id) | LMsg a m (LReleased id) => LMsg a m (LDone id)
  | LPhantom id _ => LPhantom id false
  | _ => x
  end.

(* SavePacket(PUBLISH): a new entry; under an id still held, in the place of the holder *)
Definition lg_put (l : list litem) (id : N) (new : litem) : list litem :=
  lg_upd (fun x => [it_over x; new]) [new] id l.
(* SavePacket(PUBREL id) *)
Definition lg_rel (l : list litem) (id : N) : list litem :=
  lg_upd (fun x => [it_release x]) [LPhantom id true] id l.
(* DeletePacket(id) *)
Definition lg_del (l : list litem) (id : N) : list litem :=
  lg_upd (fun x => [it_done x]) [] id l.

(* is [id] held by the record of a MESSAGE (a save under it overwrites that message)? *)
Definition is_msg (x : litem) : bool := match x with LMsg _ _ _ => true | _ => false end.
Definition lg_clash (l : list litem) (id : N) : bool := existsb (fun x => is_msg x && holds x id) l.

Definition undup (p : packet) : packet :=
  match p with Publish _ m id => Publish false m id | _ => p end.

Definition lg_with_hand (t : lg_st) (h : list (N * lhand)) : lg_st :=
  LG (lg_n t) (lg_open t) h (lg_log t) (lg_arch t) (lg_last t) (lg_die t).
Definition is_live (x : litem) : bool := match item_rec x with Some _ => true | None => false end.
(* the updated list of records [l]: what is no longer recorded goes to the archive *)
Definition lg_commit (t : lg_st) (l : list litem) : lg_st :=
  LG (lg_n t) (lg_open t) (lg_hand t) (filter is_live l)
     (filter (fun x => negb (is_live x)) l ++ lg_arch t) (lg_last t) (lg_die t).
(* a clean session *)
Definition lg_reset (t : lg_st) : lg_st :=
  LG (lg_n t) (lg_open t) (lg_hand t) [] [] (lg_last t) (lg_die t).

Definition lg_idle (t : lg_st) : bool :=
  match lg_hand t, lg_die t with [], [] => true | _, _ => false end.

(* one event, the event counter aside; [strict]: an id clash is a violation *)
Definition lg_act (strict : bool) (t : lg_st) (e : event) : option lg_st :=
  match e with
  | ENewConn => match lg_hand t with [] => Some (LG (lg_n t) true [] (lg_log t) (lg_arch t) [] []) | _ => None end
  | EClosed => if lg_idle t then Some (LG (lg_n t) false [] (lg_log t) (lg_arch t) (lg_last t) []) else None
  | EQuiescent => if lg_idle t then Some t else None
  | ERx g p => Some (LG (lg_n t) (lg_open t) (lg_hand t) (lg_log t) (lg_arch t) (aput (lg_last t) g p) (lg_die t))
  | ESetup _ (SOk _ fresh _ _ _) => Some (if fresh then lg_reset t else t)
  | EDeqRet g (QMsg m _) =>
      if m_qos m =? 0 then Some t
      else match aget (lg_hand t) g with
           | Some _ => None                                  (* the message in hand is dropped *)
           | None => Some (lg_with_hand t ((g, LH (lg_n t) m None) :: lg_hand t))
           end
  | ENextId g id =>
      match aget (lg_hand t) g with
      | Some h => Some (lg_with_hand t (aput (lg_hand t) g (LH (lh_at h) (lh_msg h) (Some id))))
      | None => Some t
      end
  | ESave g Outgoing (Publish dup m id) ok =>
      match aget (lg_hand t) g with
      | Some h =>
          if negb dup && message_eqb m (lh_msg h) && option_eqb N.eqb (lh_id h) (Some id) then
            if ok then
              if strict && lg_clash (lg_log t) id then None
              else Some (lg_commit (lg_with_hand t (adel (lg_hand t) g))
                                   (lg_put (lg_log t) id (LMsg (lh_at h) (lh_msg h) (LStored id))))
            else Some (LG (lg_n t) (lg_open t) (adel (lg_hand t) g) (lg_log t)
                          (LMsg (lh_at h) (lh_msg h) LFailed :: lg_arch t) (lg_last t) (g :: lg_die t))
          else None
      | None => None                                          (* a record without a dequeued message *)
      end
  | ESave g Outgoing (Pubrel id) ok =>
      match aget (lg_last t) g with
      | Some (Pubrec id') =>
          if id =? id' then Some (if ok then lg_commit t (lg_rel (lg_log t) id) else t) else None
      | _ => None
      end
  | ESave _ Outgoing _ _ => None
  | EDelete g Outgoing id ok =>
      match aget (lg_last t) g with
      | Some (Puback id') | Some (Pubcomp id') =>
          if id =? id' then Some (if ok then lg_commit t (lg_del (lg_log t) id) else t) else None
      | _ => None
      end
  | EAll _ Outgoing (Some ps) =>
      if list_eqb packet_eqb (map undup ps) (lg_listing (lg_log t)) then Some t else None
  | EDie g KSession =>
      Some (LG (lg_n t) (lg_open t) (lg_hand t) (lg_log t) (lg_arch t) (lg_last t)
               (filter (fun x => negb (x =? g)) (lg_die t)))
  | _ => Some t
  end.

Definition lg_tick (t : lg_st) : lg_st :=
  LG (S (lg_n t)) (lg_open t) (lg_hand t) (lg_log t) (lg_arch t) (lg_last t) (lg_die t).

Definition lg_step (strict : bool) (t : lg_st) (e : event) : option lg_st :=
  match lg_act strict t e with Some t' => Some (lg_tick t') | None => None end.

(* THE CLAUSE *)
Definition c08_ledger (es : list event) : bool := scan (lg_step false) lg_init es.
Definition c08_ledger_strict (es : list event) : bool := scan (lg_step true) lg_init es.

(* the ledger at the end of a trace *)
Definition ledger_of (es : list event) : option lg_st := srun (lg_step false) lg_init es.

(* no PUBLISH is saved under an id that the record of an earlier message still holds
   (the ledger is run alongside; once it has answered [false] nothing more is asked) *)
Definition nc_step (t : lg_st) (e : event) : option lg_st :=
  match lg_step true t e with
  | Some t' => Some t'
  | None => match lg_step false t e with Some _ => None | None => Some t end
  end.
Definition c08_no_id_clash (es : list event) : bool := scan nc_step lg_init es.

(* -------------------------------------------------- the readable corollary *)

(* the i-th event of the trace hands the QoS 1/2 message m to the dequeuer *)
Definition dequeued_q12 (es : list event) (i : nat) (m : message) : Prop :=
  exists g ba, nth_error es i = Some (EDeqRet g (QMsg m ba)) /\ 0 < m_qos m.

(* a clean session was started later *)
Definition fresh_after (es : list event) (i : nat) : Prop :=
  exists j g r w p b, (i < j)%nat /\ nth_error es j = Some (ESetup g (SOk r true w p b)).

(* the outgoing store as c08_store_replica (ConnSpec6.v) reads it off the trace: what the next
   resume lists *)
Definition replica (es : list event) : store :=
  match srun sr_step (SrSt [] None) es with Some t => sr_store t | None => [] end.

(* the current connection has not ended *)
Definition conn_live (es : list event) : bool :=
  fold_left (fun b e => match e with ENewConn => true | EClosed => false | _ => b end) es false.

Inductive fate :=
| FInHand (g : N)            (* in the hand of goroutine g of a connection that has not ended *)
| FRecorded (id : N)         (* its PUBLISH (Stored) or its PUBREL (Released) is in the session *)
| FAcked (id : N)            (* PUBACK / PUBCOMP arrived and the record was deleted *)
| FSaveFailed                (* SavePacket failed *)
| FOverwritten (id : N)      (* lost: a later message was stored under the same id *)
| FCleanSession.             (* a clean session was started afterwards *)

(* what the ledger at the end of [es] says about the message dequeued at position i *)
Definition fate_is (es : list event) (i : nat) (m : message) (f : fate) : Prop :=
  match f with
  | FCleanSession => fresh_after es i
  | FInHand g => conn_live es = true /\
      exists t oid, ledger_of es = Some t /\ In (g, LH i m oid) (lg_hand t)
  | FRecorded id =>
      exists t, ledger_of es = Some t /\
        ((In (LMsg i m (LStored id)) (lg_log t) /\ exists d, In (id, Publish d m id) (replica es)) \/
         (In (LMsg i m (LReleased id)) (lg_log t) /\ In (id, Pubrel id) (replica es)))
  | FAcked id => exists t, ledger_of es = Some t /\ In (LMsg i m (LDone id)) (lg_arch t)
  | FSaveFailed => exists t, ledger_of es = Some t /\ In (LMsg i m LFailed) (lg_arch t)
  | FOverwritten id => exists t, ledger_of es = Some t /\ In (LMsg i m (LOverwritten id)) (lg_arch t)
  end.

Definition accounted (es : list event) (i : nat) (m : message) : Prop := exists f, fate_is es i m f.

Definition not_overwritten (f : fate) : Prop := match f with FOverwritten _ => False | _ => True end.
Definition accounted_strict (es : list event) (i : nat) (m : message) : Prop :=
  exists f, fate_is es i m f /\ not_overwritten f.

(* NOTHING IS LOST: every QoS 1/2 message that was dequeued is, at the end of the trace,
   acknowledged, or recorded in the session (and listed by the next resume), or its save failed,
   or it is still in the hand of a goroutine of a live connection, or a clean session was
   started afterwards — or its record was overwritten after the packet ids wrapped around *)
Definition nothing_lost (es : list event) : Prop :=
  forall i m, dequeued_q12 es i m -> accounted es i m.
Definition nothing_lost_strict (es : list event) : Prop :=
  forall i m, dequeued_q12 es i m -> accounted_strict es i m.
