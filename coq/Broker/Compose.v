(* Compose.v — statements that need two components at once.

   forward_encodable: every application message the decoder admits (a PUBLISH, or the
   will of a CONNECT) can be encoded again as the PUBLISH a broker forwards to a
   subscriber — at any QoS not above the original, with any packet id valid for that
   QoS and either retain flag — so forwarding it can never fail a subscriber's send for
   content reasons (C02 + C01; used by C14). *)
From Coq Require Import List NArith Bool.
From Coq.Strings Require Import Byte.
From GM Require Import Codec.Packet Codec.WF Codec.Enc Codec.Dec
  Codec.EncProofsTop Codec.DecProofsFwd.
Import ListNotations.
Open Scope N_scope.

Definition forwarded (m : message) (q : N) (retain : bool) (id : N) : packet :=
  Publish false (Msg (m_topic m) (m_payload m) q retain) id.

Lemma forwardable_encodable m :
  forwardable m ->
  forall q id retain, q <= m_qos m -> (if q =? 0 then id = 0 else id_ok id = true) ->
  exists bs, encode_go (len_go (forwarded m q retain id)) (forwarded m q retain id)
             = EOk (len_go (forwarded m q retain id)) bs.
Proof.
  intros Hf q id retain Hq Hid. apply encode_total. apply Hf; assumption.
Qed.

Theorem decoded_publish_forwardable bs d m id n :
  decode_go TPublish bs = DOk (Publish d m id) n ->
  forall q id' retain, q <= m_qos m -> (if q =? 0 then id' = 0 else id_ok id' = true) ->
  exists out, encode_go (len_go (forwarded m q retain id')) (forwarded m q retain id')
              = EOk (len_go (forwarded m q retain id')) out.
Proof.
  intros Hd. apply forwardable_encodable. eapply publish_forwardable_thm; exact Hd.
Qed.

Theorem decoded_will_forwardable bs c m n :
  decode_go TConnect bs = DOk (Connect c) n -> c_will c = Some m ->
  forall q id' retain, q <= m_qos m -> (if q =? 0 then id' = 0 else id_ok id' = true) ->
  exists out, encode_go (len_go (forwarded m q retain id')) (forwarded m q retain id')
              = EOk (len_go (forwarded m q retain id')) out.
Proof.
  intros Hd Hw. apply forwardable_encodable. eapply will_forwardable_thm; eassumption.
Qed.
