(* Backend.v — MB: broker.MemoryBackend (/repo/broker/backend.go) as a sequential
   state machine.  Definitions only (extractable); no proofs here.

   Go                                        model
   *Client                                   conn = N (the harness numbers its bare clients)
   client.ID() / client.Session()            st_cid / st_sess (conn -> session key)
   *memorySession                            session, reached through its key:
                                               KTemp c   = temporarySessions[c]
                                               KStored i = storedSessions[i]
   memorySession.subscriptions (topic.Tree)  association list filter -> granted QoS
                                               (Set replaces, Empty removes)
   storedQueue / temporaryQueue (chan, cap)  lists, capacity st_cap = SessionQueueSize
   retainedMessages (topic.Tree)             association list topic -> message
   tomb.Dying() / Client.Closed()            st_dying / st_closed
   Go map iteration, select with several     explicit oracle arguments of the operation
   ready cases                                 (validated by the model, arbitrary in the theorems)
   (Publish towards a closing connection: enqueued while there is room, dropped when full —
    /repo commit 5be9d50; before that the select dropped with probability 1/2)

   Every mutex-protected method is one atomic step with an explicit result.
   What is NOT a single step in the code and how it is modelled:
   * Setup with a live connection on the session (takeover): OSetup returns
     RSetupWait old (old is killed, the setup mutex stays held = st_pending),
     OSetupEnd finishes it once old is Closed (OMarkClosed) or with a kill timeout.
   * Publish that has to wait for room in another online session's queue:
     result RBlocked, state unchanged (the step is not enabled).
   * Dequeue on two empty queues blocks: result REmpty, state unchanged.  When both
     queues are non-empty the Go select picks either: explicit argument.
   * Unsubscribe takes no mutex in the code; it is modelled as atomic.
   A connection is set up at most once and not used after Terminate (what
   broker/client.go does); other uses yield RMisuse / RNoSession. *)
From Coq Require Import List NArith Bool.
From Coq.Strings Require Import Byte.
From GM Require Import Codec.Packet Topic.MatchSpec.
Import ListNotations.
Open Scope N_scope.

(* ------------------------------------------------------------------ maps *)
Section Assoc.
  Context {K V : Type}.
  Variable eqb : K -> K -> bool.

  Fixpoint alookup (k : K) (l : list (K * V)) : option V :=
    match l with
    | [] => None
    | (k', v) :: t => if eqb k k' then Some v else alookup k t
    end.

  (* replace in place, append when new *)
  Fixpoint aset (k : K) (v : V) (l : list (K * V)) : list (K * V) :=
    match l with
    | [] => [(k, v)]
    | (k', v') :: t => if eqb k k' then (k, v) :: t else (k', v') :: aset k v t
    end.

  Fixpoint aremove (k : K) (l : list (K * V)) : list (K * V) :=
    match l with
    | [] => []
    | (k', v') :: t => if eqb k k' then aremove k t else (k', v') :: aremove k t
    end.
End Assoc.

Definition mem_n (x : N) (l : list N) : bool := existsb (N.eqb x) l.
Definition add_n (x : N) (l : list N) : list N := if mem_n x l then l else x :: l.

(* ------------------------------------------------------------------ subscriptions and MatchFirst *)
Definition sub := (bytes * N)%type.          (* filter, granted QoS *)

Definition only_hash (f : list level) : bool :=
  match f with [l] => is_hash l | _ => false end.
Definition is_nil {A} (l : list A) : bool := match l with [] => true | _ => false end.

(* subscriptions whose next filter level is '+' / equals l, advanced by one level *)
Definition step_plus {A} (subs : list (list level * A)) : list (list level * A) :=
  flat_map (fun e => match fst e with
                     | h :: t => if is_plus h then [(t, snd e)] else []
                     | [] => [] end) subs.
Definition step_lit {A} (l : level) (subs : list (list level * A)) : list (list level * A) :=
  flat_map (fun e => match fst e with
                     | h :: t => if level_eqb h l then [(t, snd e)] else []
                     | [] => [] end) subs.

(* Tree.MatchFirst: the callback overwrites its result on every call and returns
   false, which ends the walk of the current node only.  At a node:
   a '#' child with a value is reported and the node is left; otherwise, at the
   end of the name the node's own value is reported; otherwise the '+' subtree is
   walked, then the literal subtree (unless the name level is itself '+' or '#'),
   and the report made last wins. *)
Fixpoint pick {A} (name : list level) (subs : list (list level * A)) : option A :=
  match find (fun e => only_hash (fst e)) subs with
  | Some e => Some (snd e)
  | None =>
      match name with
      | [] => option_map snd (find (fun e => is_nil (fst e)) subs)
      | l :: name' =>
          match (if is_plus l || is_hash l then None else pick name' (step_lit l subs)) with
          | Some r => Some r
          | None => pick name' (step_plus subs)
          end
      end
  end.

Definition pick_sub (subs : list sub) (name : bytes) : option sub :=
  pick (split_levels name) (map (fun s => (split_levels (fst s), s)) subs).

(* ------------------------------------------------------------------ state *)
Definition conn := N.

Inductive skey := KTemp (c : conn) | KStored (id : bytes).
Definition skey_eqb (a b : skey) : bool :=
  match a, b with
  | KTemp x, KTemp y => N.eqb x y
  | KStored x, KStored y => bytes_eqb x y
  | _, _ => false
  end.
Definition mem_key (k : skey) (l : list skey) : bool := existsb (skey_eqb k) l.

Record session := Sess {
  s_subs : list sub;
  s_tq   : list message;        (* temporaryQueue *)
  s_sq   : list message;        (* storedQueue *)
  s_act  : option conn }.       (* activeClient *)

Record pending := Pend { p_conn : conn; p_id : bytes; p_clean : bool; p_old : conn }.

Record state := St {
  st_cap      : N;                          (* SessionQueueSize *)
  st_stored   : list (bytes * session);     (* storedSessions *)
  st_temps    : list (conn * session);      (* temporarySessions *)
  st_active   : list (bytes * conn);        (* activeClients *)
  st_retained : list (bytes * message);     (* retainedMessages *)
  st_closing  : bool;
  st_sess     : list (conn * skey);         (* client.Session() of the connections set up and not terminated *)
  st_cid      : list (conn * bytes);        (* client.ID() of every connection that called Setup *)
  st_dying    : list conn;                  (* Close() was called on it: Closing() fires *)
  st_closed   : list conn;                  (* Closed() fires *)
  st_term     : list conn;                  (* Terminate was called *)
  st_pending  : option pending }.           (* a Setup waiting for the old connection (setup mutex held) *)

Definition init (cap : N) : state :=
  St cap [] [] [] [] false [] [] [] [] [] None.

Definition new_session (c : conn) : session := Sess [] [] [] (Some c).

Definition get_session (st : state) (k : skey) : option session :=
  match k with
  | KTemp c => alookup N.eqb c (st_temps st)
  | KStored id => alookup bytes_eqb id (st_stored st)
  end.

Definition session_of (st : state) (c : conn) : option (skey * session) :=
  match alookup N.eqb c (st_sess st) with
  | Some k => match get_session st k with Some s => Some (k, s) | None => None end
  | None => None
  end.

Definition put_session (st : state) (k : skey) (s : session) : state :=
  match k with
  | KTemp c =>
      St (st_cap st) (st_stored st) (aset N.eqb c s (st_temps st)) (st_active st) (st_retained st)
         (st_closing st) (st_sess st) (st_cid st) (st_dying st) (st_closed st) (st_term st) (st_pending st)
  | KStored id =>
      St (st_cap st) (aset bytes_eqb id s (st_stored st)) (st_temps st) (st_active st) (st_retained st)
         (st_closing st) (st_sess st) (st_cid st) (st_dying st) (st_closed st) (st_term st) (st_pending st)
  end.

Inductive result :=
| RSetup (resumed : bool)       (* session, resumed, nil *)
| RSetupWait (old : conn)       (* old connection closed, waiting for Closed() / KillTimeout *)
| RErrClosing
| RErrKillTimeout
| ROk
| RQueueFull                    (* ErrQueueFull *)
| RBlocked                      (* the call does not return in this state *)
| RMsg (m : message)            (* Dequeue *)
| REmpty                        (* Dequeue would block *)
| RNoSession                    (* client.Session() is nil: the Go code would panic (Terminate: tolerated) *)
| RMisuse                       (* outside the protocol of broker/client.go *)
| RBadOracle                    (* the oracle argument is not a possible outcome *)
| RNotEnabled.

(* ------------------------------------------------------------------ Setup *)
Definition set_pending (st : state) (p : option pending) (dy : list conn) : state :=
  St (st_cap st) (st_stored st) (st_temps st) (st_active st) (st_retained st)
     (st_closing st) (st_sess st) (st_cid st) dy (st_closed st) (st_term st) p.

(* the part of Setup after the wait (lines 214-262) *)
Definition setup_finish (st : state) (c : conn) (id : bytes) (clean : bool) : result * state :=
  if clean then
    (RSetup false,
     St (st_cap st) (aremove bytes_eqb id (st_stored st)) (aset N.eqb c (new_session c) (st_temps st))
        (aset bytes_eqb id c (st_active st)) (st_retained st) (st_closing st)
        (aset N.eqb c (KTemp c) (st_sess st)) (st_cid st) (st_dying st) (st_closed st) (st_term st) None)
  else
    match alookup bytes_eqb id (st_stored st) with
    | Some s =>
        (RSetup true,
         St (st_cap st) (aset bytes_eqb id (Sess (s_subs s) [] (s_sq s) (Some c)) (st_stored st)) (st_temps st)
            (aset bytes_eqb id c (st_active st)) (st_retained st) (st_closing st)
            (aset N.eqb c (KStored id) (st_sess st)) (st_cid st) (st_dying st) (st_closed st) (st_term st) None)
    | None =>
        (RSetup false,
         St (st_cap st) (aset bytes_eqb id (new_session c) (st_stored st)) (st_temps st)
            (aset bytes_eqb id c (st_active st)) (st_retained st) (st_closing st)
            (aset N.eqb c (KStored id) (st_sess st)) (st_cid st) (st_dying st) (st_closed st) (st_term st) None)
    end.

Definition existing_session (st : state) (id : bytes) : option session :=
  match alookup bytes_eqb id (st_stored st) with
  | Some s => Some s
  | None => match alookup bytes_eqb id (st_active st) with
            | Some c1 => alookup N.eqb c1 (st_temps st)
            | None => None
            end
  end.

Definition setup (st : state) (c : conn) (id : bytes) (clean : bool) : result * state :=
  match st_pending st with
  | Some _ => (RNotEnabled, st)                       (* setup mutex is held *)
  | None =>
      match alookup N.eqb c (st_cid st) with
      | Some _ => (RMisuse, st)                       (* a *Client calls Setup once *)
      | None =>
          (* processConnect stores the id in the client before calling Setup *)
          let st := St (st_cap st) (st_stored st) (st_temps st) (st_active st) (st_retained st) (st_closing st)
                       (st_sess st) (aset N.eqb c id (st_cid st)) (st_dying st) (st_closed st) (st_term st) None in
          if st_closing st then (RErrClosing, st)
          else if is_nil id then
            (RSetup false,
             St (st_cap st) (st_stored st) (aset N.eqb c (new_session c) (st_temps st)) (st_active st)
                (st_retained st) (st_closing st) (aset N.eqb c (KTemp c) (st_sess st)) (st_cid st)
                (st_dying st) (st_closed st) (st_term st) None)
          else
            match existing_session st id with
            | Some (Sess _ _ _ (Some c1)) =>
                (RSetupWait c1, set_pending st (Some (Pend c id clean c1)) (add_n c1 (st_dying st)))
            | _ => setup_finish st c id clean
            end
      end
  end.

Definition setup_end (st : state) (timeout : bool) : result * state :=
  match st_pending st with
  | None => (RMisuse, st)
  | Some p =>
      if timeout then (RErrKillTimeout, set_pending st None (st_dying st))
      else if mem_n (p_old p) (st_closed st) then setup_finish st (p_conn p) (p_id p) (p_clean p)
      else (RNotEnabled, st)
  end.

(* close(c.closed) happens after cleanup, i.e. after Terminate *)
Definition mark_closed (st : state) (c : conn) : result * state :=
  if mem_n c (st_term st) then
    (ROk, St (st_cap st) (st_stored st) (st_temps st) (st_active st) (st_retained st) (st_closing st)
             (st_sess st) (st_cid st) (st_dying st) (add_n c (st_closed st)) (st_term st) (st_pending st))
  else (RMisuse, st).

(* ------------------------------------------------------------------ Subscribe / Unsubscribe *)
Definition search_retained (st : state) (f : bytes) : list message :=
  filter (fun m => topic_matches f (m_topic m)) (map snd (st_retained st)).

Fixpoint remove_first (m : message) (l : list message) : option (list message) :=
  match l with
  | [] => None
  | x :: t => if message_eqb m x then Some t
              else match remove_first m t with Some t' => Some (x :: t') | None => None end
  end.

(* a is a permutation of b *)
Fixpoint perm_b (a b : list message) : bool :=
  match a with
  | [] => is_nil b
  | x :: a' => match remove_first x b with Some b' => perm_b a' b' | None => false end
  end.

Fixpoint batches_ok (expected given : list (list message)) : bool :=
  match expected, given with
  | [], [] => true
  | e :: es, g :: gs => perm_b g e && batches_ok es gs
  | _, _ => false
  end.

Definition set_subs (subs : list sub) (old : list sub) : list sub :=
  fold_left (fun acc s => aset bytes_eqb (fst s) (snd s) acc) subs old.

(* Subscribe: Set every subscription, then enqueue per filter, in the order of the
   SUBSCRIBE, what Search(filter) finds in the retained tree; the first message that
   does not fit ends the call with ErrQueueFull (everything before stays).
   batches = the order in which Search listed the matches of each filter (Go map order). *)
Definition subscribe (st : state) (c : conn) (subs : list sub) (batches : list (list message)) : result * state :=
  match session_of st c with
  | None => (RNoSession, st)
  | Some (k, s) =>
      if negb (batches_ok (map (fun x => search_retained st (fst x)) subs) batches) then (RBadOracle, st)
      else
        let all := concat batches in
        let room := N.to_nat (st_cap st - N.of_nat (length (s_tq s))) in
        let s' := Sess (set_subs subs (s_subs s)) (s_tq s ++ firstn room all) (s_sq s) (s_act s) in
        ((if Nat.leb (length all) room then ROk else RQueueFull), put_session st k s')
  end.

Definition unset_subs (fs : list bytes) (old : list sub) : list sub :=
  fold_left (fun acc f => aremove bytes_eqb f acc) fs old.

Definition unsubscribe (st : state) (c : conn) (fs : list bytes) : result * state :=
  match session_of st c with
  | None => (RNoSession, st)
  | Some (k, s) => (ROk, put_session st k (Sess (unset_subs fs (s_subs s)) (s_tq s) (s_sq s) (s_act s)))
  end.

(* ------------------------------------------------------------------ Publish *)
Definition retain_update (m : message) (ret : list (bytes * message)) : list (bytes * message) :=
  if m_retain m then
    if is_nil (m_payload m) then aremove bytes_eqb (m_topic m) ret
    else aset bytes_eqb (m_topic m) m ret
  else ret.

Definition live_copy (m : message) : message := Msg (m_topic m) (m_payload m) (m_qos m) false.

Definition use_temp (m : message) : bool := m_qos m =? 0.
Definition queue_of (m : message) (s : session) : list message := if use_temp m then s_tq s else s_sq s.
Definition enqueue (m : message) (s : session) : session :=
  if use_temp m then Sess (s_subs s) (s_tq s ++ [live_copy m]) (s_sq s) (s_act s)
  else Sess (s_subs s) (s_tq s) (s_sq s ++ [live_copy m]) (s_act s).

Inductive action := ANone | ADrop | ASkip | AEnq | AErr | ABlock.

Definition is_full (cap : N) (q : list message) : bool := cap <=? N.of_nat (length q).

(* what Publish(c, m) does with one session *)
Definition classify (st : state) (c : conn) (m : message) (s : session) : action :=
  match pick_sub (s_subs s) (m_topic m) with
  | None => ANone
  | Some _ =>
      let full := is_full (st_cap st) (queue_of m s) in
      match s_act s with
      | None => if full then ADrop else AEnq                       (* offline: ignore the message if the queue is full *)
      | Some c' =>
          if c' =? c then                                           (* own queue: never wait *)
            (if full then (if mem_n c (st_dying st) then ASkip else AErr) else AEnq)   (* a closing publisher (will) is skipped *)
          else if full then (if mem_n c' (st_dying st) then ASkip else ABlock)   (* wait for room or for Closing() *)
          else AEnq                                                 (* room: enqueued, closing or not *)
      end
  end.

Definition is_err (a : action) : bool := match a with AErr => true | _ => false end.
Definition is_block (a : action) : bool := match a with ABlock => true | _ => false end.

Definition deliver (err : bool) (got : list skey) (k : skey) (a : action) (m : message) (s : session) : session :=
  match a with
  | AEnq => if err then (if mem_key k got then enqueue m s else s) else enqueue m s
  | _ => s
  end.

(* got: the sessions that received the message, consulted only where the Go code is
   not deterministic: the sessions visited before a full queue of a session that names the
   (live) publisher as active ended the call with ErrQueueFull midway (map order).  After
   the pre-check this does not happen in any reachable state (BackendOwn.v: that session is
   the publisher's own one, which the pre-check has examined). *)
(* the pre-check of Publish, made before anything is changed: the message would have to go to the full queue of the
   publishing client's own session (client.Session()); a closing client (its will) is not refused *)
Definition own_refused (st : state) (c : conn) (m : message) : bool :=
  negb (mem_n c (st_dying st)) &&
  match session_of st c with
  | Some (_, s) =>
      match pick_sub (s_subs s) (m_topic m) with
      | Some _ => is_full (st_cap st) (queue_of m s)
      | None => false
      end
  | None => false
  end.

Definition publish (st : state) (c : conn) (m : message) (got : list skey) : result * state :=
  if own_refused st c m then (RQueueFull, st) else
  let acts_t := map (fun e => classify st c m (snd e)) (st_temps st) in
  let acts_s := map (fun e => classify st c m (snd e)) (st_stored st) in
  let err := existsb is_err acts_t || existsb is_err acts_s in
  let blk := existsb is_block acts_t || existsb is_block acts_s in
  if negb err && blk then (RBlocked, st)
  else
    ((if err then RQueueFull else ROk),
     St (st_cap st)
        (map (fun e => (fst e, deliver err got (KStored (fst e)) (classify st c m (snd e)) m (snd e))) (st_stored st))
        (map (fun e => (fst e, deliver err got (KTemp (fst e)) (classify st c m (snd e)) m (snd e))) (st_temps st))
        (st_active st) (retain_update m (st_retained st)) (st_closing st) (st_sess st) (st_cid st)
        (st_dying st) (st_closed st) (st_term st) (st_pending st)).

(* ------------------------------------------------------------------ Dequeue *)
Definition apply_qos (subs : list sub) (m : message) : message :=
  match pick_sub subs (m_topic m) with
  | Some (_, q) => if q <? m_qos m then Msg (m_topic m) (m_payload m) q (m_retain m) else m
  | None => m
  end.

Definition dequeue (st : state) (c : conn) (temp : bool) : result * state :=
  match session_of st c with
  | None => (RNoSession, st)
  | Some (k, s) =>
      if temp then
        match s_tq s with
        | [] => (REmpty, st)
        | m :: q => (RMsg (apply_qos (s_subs s) m), put_session st k (Sess (s_subs s) q (s_sq s) (s_act s)))
        end
      else
        match s_sq s with
        | [] => (REmpty, st)
        | m :: q => (RMsg (apply_qos (s_subs s) m), put_session st k (Sess (s_subs s) (s_tq s) q (s_act s)))
        end
  end.

(* ------------------------------------------------------------------ Terminate / Close *)
Definition cid_of (st : state) (c : conn) : bytes :=
  match alookup N.eqb c (st_cid st) with Some id => id | None => [] end.

(* broker/client.go calls Terminate once per connection, from its cleanup, after the Setup
   call has returned (whatever it returned) *)
Definition terminate (st : state) (c : conn) : result * state :=
  match alookup N.eqb c (st_cid st) with
  | None => (RMisuse, st)
  | Some id =>
      if mem_n c (st_term st) || match st_pending st with Some p => p_conn p =? c | None => false end
      then (RMisuse, st)
      else
        let stored :=
          match alookup N.eqb c (st_sess st) with
          | Some (KStored i) =>
              match alookup bytes_eqb i (st_stored st) with
              | Some s =>
                  (* release the session only if it is still held by this client *)
                  if option_eqb N.eqb (s_act s) (Some c)
                  then aset bytes_eqb i (Sess (s_subs s) (s_tq s) (s_sq s) None) (st_stored st)
                  else st_stored st
              | None => st_stored st
              end
          | _ => st_stored st
          end in
        (* remove the saved client, but never the entry of another client with the same id *)
        let active :=
          if option_eqb N.eqb (alookup bytes_eqb id (st_active st)) (Some c)
          then aremove bytes_eqb id (st_active st) else st_active st in
        (ROk, St (st_cap st) stored (aremove N.eqb c (st_temps st)) active
                 (st_retained st) (st_closing st) (aremove N.eqb c (st_sess st)) (st_cid st) (st_dying st)
                 (st_closed st) (add_n c (st_term st)) (st_pending st))
  end.

Definition active_conns (st : state) : list conn :=
  flat_map (fun e => match s_act (snd e) with Some c => [c] | None => [] end) (st_temps st) ++
  flat_map (fun e => match s_act (snd e) with Some c => [c] | None => [] end) (st_stored st).

Definition close_backend (st : state) : result * state :=
  (ROk, St (st_cap st) (st_stored st) (st_temps st) (st_active st) (st_retained st) true (st_sess st) (st_cid st)
           (fold_left (fun acc c => add_n c acc) (active_conns st) (st_dying st))
           (st_closed st) (st_term st) (st_pending st)).

(* ------------------------------------------------------------------ histories *)
Inductive op :=
| OSetup (c : conn) (id : bytes) (clean : bool)
| OSetupEnd (timeout : bool)
| OMarkClosed (c : conn)
| OSubscribe (c : conn) (subs : list sub) (batches : list (list message))
| OUnsubscribe (c : conn) (fs : list bytes)
| OPublish (c : conn) (m : message) (got : list skey)
| ODequeue (c : conn) (temp : bool)
| OTerminate (c : conn)
| OClose.

Definition step (st : state) (o : op) : result * state :=
  match o with
  | OSetup c id clean => setup st c id clean
  | OSetupEnd t => setup_end st t
  | OMarkClosed c => mark_closed st c
  | OSubscribe c subs b => subscribe st c subs b
  | OUnsubscribe c fs => unsubscribe st c fs
  | OPublish c m got => publish st c m got
  | ODequeue c t => dequeue st c t
  | OTerminate c => terminate st c
  | OClose => close_backend st
  end.

(* state and results (in order) after a history *)
Fixpoint run (st : state) (ops : list op) : list result * state :=
  match ops with
  | [] => ([], st)
  | o :: ops' => let (r, st') := step st o in
                 let (rs, st'') := run st' ops' in (r :: rs, st'')
  end.

Definition run_state (st : state) (ops : list op) : state := snd (run st ops).
