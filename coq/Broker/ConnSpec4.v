(* ConnSpec4.v — C16, "window slots are returned by every completed handshake and are
   not lost over time or across reconnects": the dequeuer gives up waiting for a window
   slot (token-wait timeout: a client error reported by a goroutine that has delivered
   before and is not inside Dequeue) only when the window is really full, i.e. as many
   QoS>0 messages are sent and unacknowledged on this connection as the window allows —
   for a peer that acknowledges only what is in flight. *)
From Coq Require Import List NArith Bool.
From GM Require Import Codec.Packet Session.Store Broker.Conn Broker.ConnSpec.
Import ListNotations.
Open Scope N_scope.

Record sl_st := SlSt {
  sl_w : N; sl_fl : list N; sl_spur : bool;
  sl_idle : list N }.            (* dequeuer goroutines between two Dequeue calls (waiting for a slot) *)
Definition sl_step (s : sl_st) (e : event) : option sl_st :=
  match e with
  | ENewConn => Some (SlSt 0 [] (sl_spur s) [])
  | ESetup _ (SOk _ fresh w _ _) => Some (SlSt w (sl_fl s) (if fresh then false else sl_spur s) (sl_idle s))
  | EDeqCall g => Some (SlSt (sl_w s) (sl_fl s) (sl_spur s) (filter (fun x => negb (x =? g)) (sl_idle s)))
  | ETx g (Publish false m id) _ true =>                 (* a delivery by the dequeuer: it goes back to wait for a slot *)
      Some (SlSt (sl_w s) (if (m_qos m =? 0) || nmem id (sl_fl s) then sl_fl s else id :: sl_fl s) (sl_spur s)
                 (if nmem g (sl_idle s) then sl_idle s else g :: sl_idle s))
  | ETx _ (Publish true _ id) _ true | ETx _ (Pubrel id) _ true =>   (* retransmissions occupy slots too *)
      Some (SlSt (sl_w s) (if nmem id (sl_fl s) then sl_fl s else id :: sl_fl s) (sl_spur s) (sl_idle s))
  | ERx _ (Puback id) | ERx _ (Pubcomp id) =>
      if nmem id (sl_fl s) then Some (SlSt (sl_w s) (nremove1 id (sl_fl s)) (sl_spur s) (sl_idle s))
      else Some (SlSt (sl_w s) (sl_fl s) true (sl_idle s))
  | ERx _ (Pubrec id) => if nmem id (sl_fl s) then Some s else Some (SlSt (sl_w s) (sl_fl s) true (sl_idle s))
  | EDie g KClient =>
      if nmem g (sl_idle s) && negb (sl_spur s) && (N.of_nat (length (sl_fl s)) <? sl_w s) then None else Some s
  | _ => Some s
  end.
Definition c16_slots_not_lost (es : list event) : bool := scan sl_step (SlSt 0 [] false []) es.
