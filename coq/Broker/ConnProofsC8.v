(* ConnProofsC8.v — C16, "window slots are not lost": under c16_window_const the dequeuer's
   token-wait timeout happens only when the window is full (c16_slots_not_lost2, the clause of
   ConnSpec4.v with the slot of a received acknowledgement freed at its successful Delete).
   Lower bound, while the peer has not acknowledged an id not in flight and the dequeuer is
   alive:   W <= in flight + acknowledgements in hand + free slots + slot held by the dequeuer. *)
From Coq Require Import List NArith Bool Lia ZArith ZifyN ZifyNat ZifyBool.
From GM Require Import Base.Lts Codec.Packet Session.Ids Session.Store Session.StoreProofs
  Broker.Conn Broker.ConnSpec Broker.ConnBase Broker.ConnProofsCDefs Broker.ConnProofsC0 Broker.ConnProofsC1
  Broker.ConnProofsC4 Broker.ConnProofsC7.
Import ListNotations.
Open Scope N_scope.

(* ------------------------------- stored packets are QoS>0 PUBLISH or PUBREL *)

Definition cokb (p : packet) : bool :=
  match p with Publish _ m _ => negb (m_qos m =? 0) | Pubrel _ => true | _ => false end.

Lemma cokb_counted p : cokb p = true -> counted_id p = get_id p.
Proof. destruct p; cbn [cokb counted_id get_id]; try discriminate; [|reflexivity]. destruct (m_qos m =? 0); [discriminate|reflexivity]. Qed.

Lemma packet_eqb_cokb x y : packet_eqb x y = true -> cokb y = true -> cokb x = true.
Proof.
  destruct x, y; cbn [packet_eqb cokb]; intros H1 H2; try discriminate H1; try discriminate H2; try reflexivity.
  apply andb_prop in H1 as [H1 _]. apply andb_prop in H1 as [_ H1]. apply message_eqb_eq in H1. subst. exact H2.
Qed.

Lemma cokb_set_dup p : cokb (set_dup p) = cokb p.
Proof. destruct p; reflexivity. Qed.

Record INVC (s : bc) : Prop := MkINVC {
  C_store : Forall (fun p => cokb p = true) (store_all (s_out (sess s)));
  C_resend : match pp s with PResend ps => Forall (fun p => cokb p = true) ps | _ => True end }.

Lemma INVC_init : INVC bc_init.
Proof. constructor; cbn; [constructor|exact I]. Qed.

Lemma INVC_frame s s' : s_out (sess s') = s_out (sess s) -> pp s' = pp s -> INVC s -> INVC s'.
Proof. intros Eo Ep [H1 H2]. constructor; rewrite ?Eo, ?Ep; assumption. Qed.

Lemma INVC_pp s s' : s_out (sess s') = s_out (sess s) ->
  match pp s' with PResend _ => False | _ => True end -> INVC s -> INVC s'.
Proof. intros Eo Ep [H1 H2]. constructor; rewrite ?Eo; try assumption. destruct (pp s'); try exact I; contradiction. Qed.

Lemma INVC_proc s e s' : INVC s -> step_proc s e = Some s' -> INVC s'.
Proof.
  intros HC H. pose proof HC as [C1 C2]. unfold step_proc, proc_dispatch, die_p, guard in H.
  inv_step H; inv_helpers; injection H as <-; subst.
  all: try ((eapply INVC_pp; [| |exact HC]); bcsimpl; cbn [sess_with s_out]; [reflexivity|exact I]).
  - (* Setup *) destruct fresh; constructor; bcsimpl; cbn [session_new s_out store_all map]; try assumption; try exact I; constructor.
  - (* All *)
    match goal with Hl : list_eqb packet_eqb _ _ = true |- _ =>
      pose proof (list_eqb_forall cokb _ _ packet_eqb_cokb Hl C1) as HF end.
    destruct l; constructor; bcsimpl; try assumption; exact I.
  - (* Resend ok *)
    inversion C2 as [|? ? Hp Hl]; subst.
    assert (Es : Forall (fun q => cokb q = true) (store_all (s_out (sess (sess_save (take_deq_if_any s) Outgoing (set_dup p)))))).
    { unfold take_deq_if_any, take_deq. destruct (0 <? tdeq s); bcsimpl; cbn [sess_with s_out sess_store];
        (apply store_save_forall; [exact C1|rewrite cokb_set_dup; exact Hp]). }
    constructor; bcsimpl; [exact Es|destruct l; [exact I|exact Hl]].
  - inversion C2 as [|? ? Hp Hl]; subst.
    assert (Es : Forall (fun q => cokb q = true) (store_all (s_out (sess (sess_save (take_deq_if_any s) Outgoing (set_dup p)))))).
    { unfold take_deq_if_any, take_deq. destruct (0 <? tdeq s); bcsimpl; cbn [sess_with s_out sess_store];
        (apply store_save_forall; [exact C1|rewrite cokb_set_dup; exact Hp]). }
    constructor; bcsimpl; [exact Es|exact I].
  - (* AckDel *) constructor; bcsimpl; cbn [sess_with s_out sess_store]; [apply store_delete_forall; exact C1|exact I].
  - (* RecSave *) constructor; bcsimpl; cbn [sess_with s_out sess_store]; [apply store_save_forall; [exact C1|reflexivity]|exact I].
Qed.

Lemma INVC_deq s e s' : INV s -> INVC s -> step_deq s e = Some s' -> INVC s'.
Proof.
  intros HI HC H. pose proof (I_shape _ HI) as Hsh. pose proof HC as [C1 C2]. unfold step_deq, guard in H.
  inv_step H; inv_helpers; injection H as <-; subst; cbn [dp_shape] in Hsh.
  all: try ((eapply INVC_frame; [| |exact HC]); bcsimpl; cbn [sess_with s_out]; reflexivity).
  - destruct Hsh as (m & id & -> & Hq).
    constructor; [|destruct ba; bcsimpl; exact C2].
    assert (E : forall x, s_out (sess (set_dp (sess_save s Outgoing (Publish false m id)) x)) =
                          store_save (s_out (sess s)) (Publish false m id)) by (intros x; reflexivity).
    rewrite E. apply store_save_forall; [exact C1|]. cbn [cokb]. rewrite Hq. reflexivity.
  - destruct Hsh as (m & id & ->). destruct (m_qos m =? 0); (eapply INVC_frame; [| |exact HC]); reflexivity.
Qed.

Lemma INVC_step s e s' : INV s -> INVC s -> step s e = Some s' -> INVC s'.
Proof.
  intros HI HC H. apply step_inv in H.
  destruct H as [He Ho ->|He Ho ->|He Hq ->|Hc|g s1 Hg Hl Hr Ho Hp|g s1 Hg Hl Hr Ho Hnp Hd
                |g s1 Hg Hl Hr Ho Hnp Hnd Ha|g s1 Hg Hl Hr Ho Hc|He Hc|g He Ho ->].
  - (eapply INVC_pp; [| |exact HC]); [reflexivity|exact I].
  - exact HC.
  - exact HC.
  - apply step_clo_sum in Hc as (_ & Hs & _). eapply INVC_frame; [apply (sp_out _ _ Hs)|apply (sp_pp _ _ Hs)|exact HC].
  - assert (HC1 : INVC s1) by (destruct Hl as [->|(g0 & _ & [[_ ->]|[[_ ->]|[[_ ->]|[_ ->]]]])]; try exact HC; (eapply INVC_frame; [| |exact HC]); reflexivity).
    eapply INVC_proc; eassumption.
  - assert (HC1 : INVC s1) by (destruct Hl as [->|(g0 & _ & [[_ ->]|[[_ ->]|[[_ ->]|[_ ->]]]])]; try exact HC; (eapply INVC_frame; [| |exact HC]); reflexivity).
    eapply INVC_deq; [eapply INV_learned; eassumption|exact HC1|exact Hd].
  - assert (HC1 : INVC s1) by (destruct Hl as [->|(g0 & _ & [[_ ->]|[[_ ->]|[[_ ->]|[_ ->]]]])]; try exact HC; (eapply INVC_frame; [| |exact HC]); reflexivity).
    pose proof (step_ack_sum _ _ _ Ha) as (Hs & _). eapply INVC_frame; [apply (sp_out _ _ Hs)|apply (sp_pp _ _ Hs)|exact HC1].
  - assert (HC1 : INVC s1) by (destruct Hl as [->|(g0 & _ & [[_ ->]|[[_ ->]|[[_ ->]|[_ ->]]]])]; try exact HC; (eapply INVC_frame; [| |exact HC]); reflexivity).
    apply step_cleanup_sum in Hc as (_ & [(Hs & _)|Hf]).
    + eapply INVC_frame; [apply (sp_out _ _ Hs)|apply (sp_pp _ _ Hs)|exact HC1].
    + eapply INVC_pp; [rewrite (fz_sess _ _ Hf); reflexivity|rewrite (fz_pp _ _ Hf); exact I|exact HC1].
  - apply step_cleanup_sum in Hc as (_ & [(Hs & _)|Hf]).
    + eapply INVC_frame; [apply (sp_out _ _ Hs)|apply (sp_pp _ _ Hs)|exact HC].
    + eapply INVC_pp; [rewrite (fz_sess _ _ Hf); reflexivity|rewrite (fz_pp _ _ Hf); exact I|exact HC].
  - (eapply INVC_frame; [| |exact HC]); reflexivity.
Qed.

Definition INV4 (s : bc) : Prop := INV3 s /\ INVC s.
Lemma INV4_init : INV4 bc_init.
Proof. split; [exact INV3_init|exact INVC_init]. Qed.
Lemma INV4_step s e s' : INV4 s -> step s e = Some s' -> INV4 s'.
Proof. intros [H1 H2] H. split; [eapply INV3_step; eassumption|eapply INVC_step; [apply H1|exact H2|exact H]]. Qed.
