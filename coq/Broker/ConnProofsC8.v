(* ConnProofsC8.v — C16, "window slots are not lost": under c16_window_const the dequeuer's
   token-wait timeout happens only when the window is full (c16_slots_not_lost2 of
   ConnProofsCDefs.v: the slot of a received acknowledgement is freed at its successful Delete).
   Lower bound, while the peer has not acknowledged an id not in flight and the dequeuer is
   alive:   W <= in flight + acknowledgements in hand + free slots + slot held by the dequeuer. *)
From Coq Require Import List NArith Bool Lia ZArith ZifyN ZifyNat ZifyBool.
From GM Require Import Base.Lts Codec.Packet Session.Ids Session.Store Session.StoreProofs
  Broker.Conn Broker.ConnSpec Broker.ConnBase Broker.ConnProofsCDefs Broker.ConnProofsC0 Broker.ConnProofsC1
  Broker.ConnProofsC2 Broker.ConnProofsC4 Broker.ConnProofsC7.
Import ListNotations.
Open Scope N_scope.

(* ------------------------------- stored packets are QoS>0 PUBLISH or PUBREL *)

Definition cokb (p : packet) : bool :=
  match p with Publish _ m _ => negb (m_qos m =? 0) | Pubrel _ => true | _ => false end.

Lemma cokb_counted p : cokb p = true -> counted_id p = get_id p.
Proof. destruct p; cbn [cokb counted_id get_id]; try discriminate; [|reflexivity]. destruct (m_qos m =? 0); [discriminate|reflexivity]. Qed.

Lemma packet_eqb_cokb x y : packet_eqb x y = true -> cokb y = true -> cokb x = true.
Proof.
  destruct x, y; cbn [packet_eqb cokb]; intros H1 H2; try discriminate H1; try discriminate H2; try reflexivity.
  apply andb_prop in H1 as [H1 _]. apply andb_prop in H1 as [_ H1]. apply message_eqb_eq in H1. subst. exact H2.
Qed.

Lemma cokb_set_dup p : cokb (set_dup p) = cokb p.
Proof. destruct p; reflexivity. Qed.

Record INVC (s : bc) : Prop := MkINVC {
  C_store : Forall (fun p => cokb p = true) (store_all (s_out (sess s)));
  C_resend : match pp s with PResend ps => Forall (fun p => cokb p = true) ps | _ => True end }.

Lemma INVC_init : INVC bc_init.
Proof. constructor; cbn; [constructor|exact I]. Qed.

Lemma INVC_frame s s' : s_out (sess s') = s_out (sess s) -> pp s' = pp s -> INVC s -> INVC s'.
Proof. intros Eo Ep [H1 H2]. constructor; rewrite ?Eo, ?Ep; assumption. Qed.

Lemma INVC_pp s s' : s_out (sess s') = s_out (sess s) ->
  match pp s' with PResend _ => False | _ => True end -> INVC s -> INVC s'.
Proof. intros Eo Ep [H1 H2]. constructor; rewrite ?Eo; try assumption. destruct (pp s'); try exact I; contradiction. Qed.

Lemma INVC_proc s e s' : INVC s -> step_proc s e = Some s' -> INVC s'.
Proof.
  intros HC H. pose proof HC as [C1 C2]. unfold step_proc, proc_dispatch, die_p, guard in H.
  inv_step H; inv_helpers; injection H as <-; subst.
  all: try ((eapply INVC_pp; [| |exact HC]); bcsimpl; cbn [sess_with s_out]; [reflexivity|exact I]).
  - (* Setup *) destruct fresh; constructor; bcsimpl; cbn [session_new s_out store_all map]; try assumption; try exact I; constructor.
  - (* All *)
    match goal with Hl : list_eqb packet_eqb _ _ = true |- _ =>
      pose proof (list_eqb_forall cokb _ _ packet_eqb_cokb Hl C1) as HF end.
    destruct l; constructor; bcsimpl; try assumption; exact I.
  - (* Resend ok *)
    inversion C2 as [|? ? Hp Hl]; subst.
    assert (Es : Forall (fun q => cokb q = true) (store_all (s_out (sess (sess_save (take_deq_if_any s) Outgoing (set_dup p)))))).
    { unfold take_deq_if_any, take_deq. destruct (0 <? tdeq s); bcsimpl; cbn [sess_with s_out sess_store];
        (apply store_save_forall; [exact C1|rewrite cokb_set_dup; exact Hp]). }
    constructor; bcsimpl; [exact Es|destruct l; [exact I|exact Hl]].
  - inversion C2 as [|? ? Hp Hl]; subst.
    assert (Es : Forall (fun q => cokb q = true) (store_all (s_out (sess (sess_save (take_deq_if_any s) Outgoing (set_dup p)))))).
    { unfold take_deq_if_any, take_deq. destruct (0 <? tdeq s); bcsimpl; cbn [sess_with s_out sess_store];
        (apply store_save_forall; [exact C1|rewrite cokb_set_dup; exact Hp]). }
    constructor; bcsimpl; [exact Es|exact I].
  - (* AckDel *) constructor; bcsimpl; cbn [sess_with s_out sess_store]; [apply store_delete_forall; exact C1|exact I].
  - (* RecSave *) constructor; bcsimpl; cbn [sess_with s_out sess_store]; [apply store_save_forall; [exact C1|reflexivity]|exact I].
Qed.

Lemma INVC_deq s e s' : INV s -> INVC s -> step_deq s e = Some s' -> INVC s'.
Proof.
  intros HI HC H. pose proof (I_shape _ HI) as Hsh. pose proof HC as [C1 C2]. unfold step_deq, guard in H.
  inv_step H; inv_helpers; injection H as <-; subst; cbn [dp_shape] in Hsh.
  all: try ((eapply INVC_frame; [| |exact HC]); bcsimpl; cbn [sess_with s_out]; reflexivity).
  - destruct Hsh as (m & id & -> & Hq).
    constructor; [|destruct ba; bcsimpl; exact C2].
    assert (E : forall x, s_out (sess (set_dp (sess_save s Outgoing (Publish false m id)) x)) =
                          store_save (s_out (sess s)) (Publish false m id)) by (intros x; reflexivity).
    rewrite E. apply store_save_forall; [exact C1|]. cbn [cokb]. rewrite Hq. reflexivity.
  - destruct Hsh as (m & id & ->). destruct (m_qos m =? 0); (eapply INVC_frame; [| |exact HC]); reflexivity.
Qed.

Lemma INVC_step s e s' : INV s -> INVC s -> step s e = Some s' -> INVC s'.
Proof.
  intros HI HC H. apply step_inv in H.
  destruct H as [He Ho ->|He Ho ->|He Hq ->|Hc|g s1 Hg Hl Hr Ho Hp|g s1 Hg Hl Hr Ho Hnp Hd
                |g s1 Hg Hl Hr Ho Hnp Hnd Ha|g s1 Hg Hl Hr Ho Hc|He Hc|g He Ho ->].
  - (eapply INVC_pp; [| |exact HC]); [reflexivity|exact I].
  - exact HC.
  - exact HC.
  - apply step_clo_sum in Hc as (_ & Hs & _). eapply INVC_frame; [apply (sp_out _ _ Hs)|apply (sp_pp _ _ Hs)|exact HC].
  - assert (HC1 : INVC s1) by (destruct Hl as [->|(g0 & _ & [[_ ->]|[[_ ->]|[[_ ->]|[_ ->]]]])]; try exact HC; (eapply INVC_frame; [| |exact HC]); reflexivity).
    eapply INVC_proc; eassumption.
  - assert (HC1 : INVC s1) by (destruct Hl as [->|(g0 & _ & [[_ ->]|[[_ ->]|[[_ ->]|[_ ->]]]])]; try exact HC; (eapply INVC_frame; [| |exact HC]); reflexivity).
    eapply INVC_deq; [eapply INV_learned; eassumption|exact HC1|exact Hd].
  - assert (HC1 : INVC s1) by (destruct Hl as [->|(g0 & _ & [[_ ->]|[[_ ->]|[[_ ->]|[_ ->]]]])]; try exact HC; (eapply INVC_frame; [| |exact HC]); reflexivity).
    pose proof (step_ack_sum _ _ _ Ha) as (Hs & _). eapply INVC_frame; [apply (sp_out _ _ Hs)|apply (sp_pp _ _ Hs)|exact HC1].
  - assert (HC1 : INVC s1) by (destruct Hl as [->|(g0 & _ & [[_ ->]|[[_ ->]|[[_ ->]|[_ ->]]]])]; try exact HC; (eapply INVC_frame; [| |exact HC]); reflexivity).
    apply step_cleanup_sum in Hc as (_ & [(Hs & _)|Hf]).
    + eapply INVC_frame; [apply (sp_out _ _ Hs)|apply (sp_pp _ _ Hs)|exact HC1].
    + eapply INVC_pp; [rewrite (fz_sess _ _ Hf); reflexivity|rewrite (fz_pp _ _ Hf); exact I|exact HC1].
  - apply step_cleanup_sum in Hc as (_ & [(Hs & _)|Hf]).
    + eapply INVC_frame; [apply (sp_out _ _ Hs)|apply (sp_pp _ _ Hs)|exact HC].
    + eapply INVC_pp; [rewrite (fz_sess _ _ Hf); reflexivity|rewrite (fz_pp _ _ Hf); exact I|exact HC].
  - (eapply INVC_frame; [| |exact HC]); reflexivity.
Qed.

Definition INV4 (s : bc) : Prop := INV3 s /\ INVC s.
Lemma INV4_init : INV4 bc_init.
Proof. split; [exact INV3_init|exact INVC_init]. Qed.
Lemma INV4_step s e s' : INV4 s -> step s e = Some s' -> INV4 s'.
Proof. intros [H1 H2] H. split; [eapply INV3_step; eassumption|eapply INVC_step; [apply H1|exact H2|exact H]]. Qed.

(* ---------------------------- the scanner agrees with the c16_bound scanner *)

(* a retransmitted PUBLISH carries a QoS>0 message *)
Definition dup_ok (e : event) : Prop :=
  match e with ETx _ (Publish true m _) _ true => (m_qos m =? 0) = false | _ => True end.

Lemma sl2_sync u t e t' u' :
  s2_fl u = wb_fl t -> s2_spur u = wb_spur t -> s2_w u = wb_w t ->
  wb_step t e = Some t' -> sl2_step u e = Some u' -> dup_ok e ->
  s2_fl u' = wb_fl t' /\ s2_spur u' = wb_spur t' /\ s2_w u' = wb_w t'.
Proof.
  intros Ef Es Ew Hw Hu Hd.
  destruct e; cbn [wb_step sl2_step] in Hw, Hu; try (injection Hw as <-; injection Hu as <-; repeat split; assumption).
  - (* ERx *)
    destruct p; try (injection Hw as <-; injection Hu as <-; repeat split; assumption);
      rewrite Ef in Hu; destruct (nmem id (wb_fl t)); injection Hw as <-; injection Hu as <-; cbn;
      repeat split; try assumption; rewrite ?Ef; reflexivity.
  - (* ETx *)
    destruct p; try (injection Hw as <-; injection Hu as <-; repeat split; assumption).
    + destruct ok; [|destruct dup; injection Hw as <-; injection Hu as <-; repeat split; assumption].
      destruct dup.
      * cbn [dup_ok] in Hd. rewrite Hd in Hw. rewrite Ef in Hu.
        match type of Hw with (if ?b then _ else _) = _ => destruct b end; [|discriminate Hw].
        injection Hw as <-; injection Hu as <-; cbn. repeat split; assumption.
      * rewrite Ef in Hu. destruct (m_qos m =? 0); cbn [orb] in Hu.
        -- injection Hw as <-; injection Hu as <-; cbn. repeat split; assumption.
        -- match type of Hw with (if ?b then _ else _) = _ => destruct b end; [|discriminate Hw].
           injection Hw as <-; injection Hu as <-; cbn. repeat split; assumption.
    + destruct ok; [|injection Hw as <-; injection Hu as <-; repeat split; assumption].
      rewrite Ef in Hu. match type of Hw with (if ?b then _ else _) = _ => destruct b end; [|discriminate Hw].
      injection Hw as <-; injection Hu as <-; cbn. repeat split; assumption.
  - (* ESetup *) destruct r; injection Hw as <-; injection Hu as <-; cbn; repeat split; try assumption. rewrite Es. reflexivity.
  - (* EDelete *) destruct d; [injection Hw as <-; injection Hu as <-; repeat split; assumption|].
    destruct ok; injection Hw as <-; injection Hu as <-; cbn; repeat split; assumption.
  - (* EDie *) destruct k; try (injection Hw as <-; injection Hu as <-; repeat split; assumption).
    match type of Hu with (if ?b then _ else _) = _ => destruct b end; [discriminate Hu|].
    injection Hw as <-; injection Hu as <-; repeat split; assumption.
Qed.

Lemma cokb_dup_qos q p : packet_eqb q (set_dup p) = true -> cokb p = true ->
  match q with Publish _ m _ => (m_qos m =? 0) = false | _ => True end.
Proof.
  intros H Hc. pose proof (packet_eqb_cokb _ _ H) as Hq. rewrite cokb_set_dup in Hq. specialize (Hq Hc).
  destruct q; try exact I. cbn [cokb] in Hq. destruct (m_qos m =? 0); [discriminate Hq|reflexivity].
Qed.

Lemma step_dup_ok s e s' : INV s -> INVC s -> step s e = Some s' -> dup_ok e.
Proof.
  intros HI HC H. destruct e; try exact I. destruct p; try exact I. destruct dup; [|exact I]. destruct ok; [|exact I].
  cbn [dup_ok]. apply step_inv in H.
  destruct H as [He Ho ->|He Ho ->|He Hq ->|Hc|g' s1 Hg Hl Hr Ho Hp|g' s1 Hg Hl Hr Ho Hnp Hd
                |g' s1 Hg Hl Hr Ho Hnp Hnd Ha|g' s1 Hg Hl Hr Ho Hc|He Hc|g' He Ho ->]; try discriminate.
  - assert (HC1 : INVC s1) by (destruct Hl as [->|(g0 & _ & [[_ ->]|[[_ ->]|[[_ ->]|[_ ->]]]])]; try exact HC; (eapply INVC_frame; [| |exact HC]); reflexivity).
    destruct HC1 as [_ C2]. unfold step_proc, proc_dispatch, die_p, guard in Hp. inv_step Hp; try discriminate.
    all: inversion C2 as [|? ? Hpk Hl0]; subst;
      match goal with Hx : packet_eqb _ (set_dup _) = true |- _ => exact (cokb_dup_qos _ _ Hx Hpk) end.
  - exfalso. pose proof (I_shape _ (INV_learned _ _ Hl HI)) as Hsh.
    unfold step_deq, guard in Hd. inv_step Hd; cbn [dp_shape] in Hsh; destruct Hsh as (m0 & id0 & ->);
      match goal with Hx : packet_eqb _ _ = true |- _ => apply packet_eqb_publish_l in Hx; discriminate Hx end.
  - exfalso. pose proof (INV_learned _ _ Hl HI) as HI1. pose proof (step_ack_sum _ _ _ Ha) as (_ & _ & He).
    cbn beta iota in He. destruct async; [|contradiction]. destruct He as (q' & Ht & _).
    pose proof (ackq_take_is_ack _ _ _ Ht (I_ackq _ HI1)) as Hk. discriminate Hk.
  - apply step_cleanup_sum in Hc as (He & _). contradiction.
Qed.

(* ------------------------------------ the waiting dequeuer; acks in hand *)

Definition next_idle (u : sl2_st) (e : event) : list N :=
  match e with
  | ENewConn => []
  | EDeqCall g => filter (fun x => negb (x =? g)) (s2_idle u)
  | ETx g (Publish false _ _) _ true => if nmem g (s2_idle u) then s2_idle u else g :: s2_idle u
  | _ => s2_idle u
  end.
Definition next_ack (u : sl2_st) (e : event) : list N :=
  match e with
  | ENewConn => []
  | ERx _ (Puback id) | ERx _ (Pubcomp id) => if nmem id (s2_fl u) then id :: s2_ack u else s2_ack u
  | EDelete _ Outgoing id true => nremove1 id (s2_ack u)
  | _ => s2_ack u
  end.

Lemma sl2_next u e u' : sl2_step u e = Some u' -> s2_idle u' = next_idle u e /\ s2_ack u' = next_ack u e.
Proof.
  intros H. destruct e; cbn [sl2_step next_idle next_ack] in *; try (injection H as <-; split; reflexivity).
  - destruct p; try (injection H as <-; split; reflexivity); destruct (nmem id (s2_fl u)); injection H as <-; split; reflexivity.
  - destruct p; try (injection H as <-; split; reflexivity); destruct ok; try (injection H as <-; split; reflexivity);
      destruct dup; injection H as <-; split; reflexivity.
  - destruct r; injection H as <-; split; reflexivity.
  - destruct d; [injection H as <-; split; reflexivity|]. destruct ok; injection H as <-; split; reflexivity.
  - destruct k; try (injection H as <-; split; reflexivity).
    match type of H with (if ?b then _ else _) = _ => destruct b end; [discriminate H|injection H as <-; split; reflexivity].
Qed.

Definition waiting (d : dpc) : Prop := d = DToken \/ d = DDieClose \/ d = DDone.

Record RUI (s : bc) (u : sl2_st) : Prop := MkRUI {
  U_idle : forall g, In g (s2_idle u) -> gdeq s = Some g /\ waiting (dp s);
  U_ack : pre_loop (pp s) = true -> s2_ack u = [] }.

Lemma next_idle_notfresh u g p a ok : not_fresh p -> next_idle u (ETx g p a ok) = s2_idle u.
Proof. destruct p; try reflexivity. destruct dup; [reflexivity|contradiction]. Qed.

Lemma RUI_proc s t u e s' u' : INV s -> RW s t -> s2_fl u = wb_fl t -> RUI s u ->
  step_proc s e = Some s' -> sl2_step u e = Some u' -> RUI s' u'.
Proof.
  intros HI [_ Hfl] Ef [U1 U2] H Hu. apply sl2_next in Hu as [Ei Ea].
  pose proof (I_pre _ HI) as Hpre.
  unfold step_proc, proc_dispatch, die_p, guard in H.
  inv_step H; inv_helpers; injection H as <-; subst; cbn [pre_loop early] in *.
  all: try (cbn [next_idle next_ack] in Ei, Ea; constructor; rewrite ?Ei, ?Ea; bcsimpl; cbn [pre_loop]; first [exact U1|exact U2|discriminate]).
  - cbn [next_idle next_ack] in Ei, Ea. destruct fresh; constructor; rewrite ?Ei, ?Ea; bcsimpl; first [exact U1|exact U2].
  - cbn [next_idle next_ack] in Ei, Ea. destruct l; constructor; rewrite ?Ei, ?Ea; bcsimpl; first [exact U1|intros _; apply U2; reflexivity].
  - rewrite next_idle_notfresh in Ei by (eapply resend_not_fresh; eassumption).
    unfold take_deq_if_any, take_deq. destruct (0 <? tdeq s); destruct l; constructor; rewrite ?Ei, ?Ea; bcsimpl;
      first [exact U1|intros _; apply U2; reflexivity].
  - rewrite next_idle_notfresh in Ei by (eapply resend_not_fresh; eassumption).
    unfold take_deq_if_any, take_deq. destruct (0 <? tdeq s); constructor; rewrite ?Ei, ?Ea; bcsimpl; cbn [pre_loop];
      first [exact U1|discriminate].
  - (* Restore: nobody was waiting *)
    destruct (Hpre eq_refl) as [Hd _]. cbn [next_idle next_ack] in Ei, Ea.
    constructor; rewrite ?Ei, ?Ea; bcsimpl; cbn [pre_loop]; [|discriminate].
    intros g' Hg'. destruct (U1 g' Hg') as [_ [C|[C|C]]]; congruence.
Qed.

Lemma RUI_deq s u e s' u' g : INV s -> RUI s u -> ev_g e = Some g -> gdeq s = Some g ->
  step_deq s e = Some s' -> sl2_step u e = Some u' -> RUI s' u'.
Proof.
  intros HI [U1 U2] Hg Hr H Hu. apply sl2_next in Hu as [Ei Ea].
  pose proof (I_shape _ HI) as Hsh.
  assert (Hnp : pre_loop (pp s) = false).
  { destruct (pre_loop (pp s)) eqn:Ep; [|reflexivity]. destruct (I_pre _ HI Ep) as [Hd _].
    unfold step_deq in H. rewrite Hd in H. discriminate H. }
  unfold step_deq, guard in H.
  inv_step H; inv_helpers; injection H as <-; subst; cbn [dp_shape] in Hsh; cbn [ev_g] in Hg;
    try injection Hg as ->.
  all: try (cbn [next_idle next_ack] in Ei, Ea; constructor; rewrite ?Ei, ?Ea; bcsimpl; [|rewrite Hnp; discriminate];
            intros g' Hg'; destruct (U1 g' Hg') as [G [C|[C|C]]]; congruence).
  - (* DeqCall *) cbn [next_idle next_ack] in Ei, Ea. constructor; rewrite ?Ei, ?Ea; bcsimpl; [|rewrite Hnp; discriminate].
    intros g' Hg'. apply filter_In in Hg' as [Hin Hne]. destruct (U1 g' Hin) as [G _].
    rewrite Hr in G. injection G as <-. rewrite N.eqb_refl in Hne. discriminate Hne.
  - (* token timeout *) cbn [next_idle next_ack] in Ei, Ea. constructor; rewrite ?Ei, ?Ea; bcsimpl; [|rewrite Hnp; discriminate].
    intros g' Hg'. destruct (U1 g' Hg') as [G _]. split; [exact G|right; left; reflexivity].
  - (* Send ok *) destruct Hsh as (m & id & ->).
    match goal with Hx : packet_eqb _ _ = true |- _ => apply packet_eqb_publish_l in Hx; subst end.
    cbn [next_idle next_ack] in Ei, Ea.
    assert (Hd : forall X, dp (set_dp X DToken) = DToken) by reflexivity.
    constructor; rewrite ?Ei, ?Ea.
    + intros g' Hg'. split; [|left; reflexivity].
      assert (G : gdeq s = Some g').
      { destruct (nmem g (s2_idle u)); [apply (U1 g' Hg')|]. destruct Hg' as [<-|Hg']; [exact Hr|apply (U1 g' Hg')]. }
      destruct (m_qos m =? 0); exact G.
    + assert (Ep : pp (set_dp (if m_qos m =? 0 then put_deq s else s) DToken) = pp s) by (destruct (m_qos m =? 0); reflexivity).
      rewrite Ep, Hnp. discriminate.
  - (* Send fail *) destruct Hsh as (m & id & ->).
    match goal with Hx : packet_eqb _ _ = true |- _ => apply packet_eqb_publish_l in Hx; subst end.
    cbn [next_idle next_ack] in Ei, Ea. constructor; rewrite ?Ei, ?Ea; bcsimpl; [|rewrite Hnp; discriminate].
    intros g' Hg'. destruct (U1 g' Hg') as [G [C|[C|C]]]; congruence.
  - (* ConnClose *) cbn [next_idle next_ack] in Ei, Ea. constructor; rewrite ?Ei, ?Ea; bcsimpl; [|rewrite Hnp; discriminate].
    intros g' Hg'. destruct (U1 g' Hg') as [G _]. split; [exact G|right; right; reflexivity].
Qed.

Lemma RUI_frame s s' u u' :
  s2_idle u' = s2_idle u -> s2_ack u' = s2_ack u -> gdeq s' = gdeq s ->
  (waiting (dp s) -> waiting (dp s')) -> (pre_loop (pp s') = true -> pre_loop (pp s) = true) ->
  RUI s u -> RUI s' u'.
Proof.
  intros Ei Ea Eg Ed Ep [U1 U2]. constructor; rewrite ?Ei, ?Ea, ?Eg.
  - intros g Hg. destruct (U1 g Hg) as [G W]. split; [exact G|apply Ed; exact W].
  - intros Hp. apply U2, Ep, Hp.
Qed.

Lemma next_same u e :
  match e with ENewConn | EDeqCall _ | ETx _ _ _ _ | ERx _ _ | EDelete _ Outgoing _ true => False | _ => True end ->
  next_idle u e = s2_idle u /\ next_ack u e = s2_ack u.
Proof. destruct e; try contradiction; try (split; reflexivity). destruct d; [split; reflexivity|]. destruct ok; [contradiction|split; reflexivity]. Qed.

Lemma RUI_step s t u e s' u' : INV s -> RW s t -> s2_fl u = wb_fl t -> RUI s u ->
  step s e = Some s' -> sl2_step u e = Some u' -> RUI s' u'.
Proof.
  intros HI HW Ef HU H Hu. apply step_inv in H.
  destruct H as [He Ho ->|He Ho ->|He Hq ->|Hc|g s1 Hg Hl Hr Ho Hp|g s1 Hg Hl Hr Ho Hnp Hd
                |g s1 Hg Hl Hr Ho Hnp Hnd Ha|g s1 Hg Hl Hr Ho Hc|He Hc|g He Ho ->].
  - subst e. apply sl2_next in Hu as [Ei Ea]. constructor; rewrite ?Ei, ?Ea; cbn [next_idle next_ack]; [intros ? []|reflexivity].
  - subst e. apply sl2_next in Hu as [Ei Ea]. (apply (RUI_frame s _ u u'); [exact Ei|exact Ea| | | |exact HU]); auto.
  - subst e. apply sl2_next in Hu as [Ei Ea]. (apply (RUI_frame s _ u u'); [exact Ei|exact Ea| | | |exact HU]); auto.
  - apply step_clo_sum in Hc as (He & Hs & _). apply sl2_next in Hu as [Ei Ea].
    destruct (next_same u e) as [N1 N2]; [destruct e; try contradiction; try exact I; destruct d; [exact I|contradiction]|].
    apply (RUI_frame s s' u u'); [rewrite Ei; exact N1|rewrite Ea; exact N2|apply (sp_gdeq _ _ Hs)|rewrite (sp_dp _ _ Hs); auto|rewrite (sp_pp _ _ Hs); auto|exact HU].
  - assert (HU1 : RUI s1 u).
    { destruct (learned_role_kept _ _ Hl) as [_ Kd].
      assert (E : pp s1 = pp s /\ dp s1 = dp s) by (destruct Hl as [->|(g0 & _ & [[_ ->]|[[_ ->]|[[_ ->]|[_ ->]]]])]; split; reflexivity).
      destruct E as [Ep Ed]. destruct HU as [U1 U2]. constructor; rewrite ?Ep, ?Ed; [|exact U2].
      intros g' Hg'. destruct (U1 g' Hg') as [G W]. split; [apply Kd; exact G|exact W]. }
    eapply RUI_proc; [eapply INV_learned; eassumption|eapply RW_learned; eassumption|exact Ef|exact HU1|exact Hp|exact Hu].
  - assert (HU1 : RUI s1 u).
    { destruct (learned_role_kept _ _ Hl) as [_ Kd].
      assert (E : pp s1 = pp s /\ dp s1 = dp s) by (destruct Hl as [->|(g0 & _ & [[_ ->]|[[_ ->]|[[_ ->]|[_ ->]]]])]; split; reflexivity).
      destruct E as [Ep Ed]. destruct HU as [U1 U2]. constructor; rewrite ?Ep, ?Ed; [|exact U2].
      intros g' Hg'. destruct (U1 g' Hg') as [G W]. split; [apply Kd; exact G|exact W]. }
    eapply RUI_deq; [eapply INV_learned; eassumption|exact HU1|exact Hg|exact Hr|exact Hd|exact Hu].
  - pose proof (INV_learned _ _ Hl HI) as HI1. pose proof (step_ack_sum _ _ _ Ha) as (Hs & _ & He).
    destruct (learned_role_kept _ _ Hl) as [_ Kd].
    assert (E : pp s1 = pp s /\ dp s1 = dp s) by (destruct Hl as [->|(g0 & _ & [[_ ->]|[[_ ->]|[[_ ->]|[_ ->]]]])]; split; reflexivity).
    destruct E as [Ep Ed]. apply sl2_next in Hu as [Ei Ea].
    assert (N : next_idle u e = s2_idle u /\ next_ack u e = s2_ack u).
    { destruct e; try contradiction; try (split; reflexivity).
      destruct async; [|contradiction]. destruct He as (q' & Ht & _). split; [|reflexivity].
      apply next_idle_notfresh, ack_not_fresh. eapply ackq_take_is_ack; [exact Ht|apply (I_ackq _ HI1)]. }
    destruct N as [N1 N2]. destruct HU as [U1 U2].
    constructor; rewrite ?Ei, ?Ea, ?N1, ?N2, ?(sp_gdeq _ _ Hs), ?(sp_dp _ _ Hs), ?(sp_pp _ _ Hs), ?Ep, ?Ed; [|exact U2].
    intros g' Hg'. destruct (U1 g' Hg') as [G W]. split; [apply Kd; exact G|exact W].
  - destruct (learned_role_kept _ _ Hl) as [_ Kd].
    assert (E : pp s1 = pp s /\ dp s1 = dp s) by (destruct Hl as [->|(g0 & _ & [[_ ->]|[[_ ->]|[[_ ->]|[_ ->]]]])]; split; reflexivity).
    destruct E as [Ep Ed]. apply sl2_next in Hu as [Ei Ea].
    apply step_cleanup_sum in Hc as (He & Hc).
    destruct (next_same u e) as [N1 N2]; [destruct e; try contradiction; exact I|].
    destruct HU as [U1 U2]. destruct Hc as [(Hs & _)|Hf].
    + constructor; rewrite ?Ei, ?Ea, ?N1, ?N2, ?(sp_gdeq _ _ Hs), ?(sp_dp _ _ Hs), ?(sp_pp _ _ Hs), ?Ep, ?Ed; [|exact U2].
      intros g' Hg'. destruct (U1 g' Hg') as [G W]. split; [apply Kd; exact G|exact W].
    + constructor; rewrite ?Ei, ?Ea, ?N1, ?N2, ?(fz_gdeq _ _ Hf), ?(fz_dp _ _ Hf), ?(fz_pp _ _ Hf), ?Ed; [|discriminate].
      intros g' Hg'. destruct (U1 g' Hg') as [G W]. split; [apply Kd; exact G|].
      destruct W as [W|[W|W]]; rewrite W; right; right; reflexivity.
  - subst e. apply sl2_next in Hu as [Ei Ea]. cbn [next_idle next_ack] in Ei, Ea.
    apply step_cleanup_sum in Hc as (_ & Hc). destruct HU as [U1 U2]. destruct Hc as [(Hs & _)|Hf].
    + constructor; rewrite ?Ei, ?Ea, ?(sp_gdeq _ _ Hs), ?(sp_dp _ _ Hs), ?(sp_pp _ _ Hs); assumption.
    + constructor; rewrite ?Ei, ?Ea, ?(fz_gdeq _ _ Hf), ?(fz_dp _ _ Hf), ?(fz_pp _ _ Hf); [|discriminate].
      intros g' Hg'. destruct (U1 g' Hg') as [G W]. split; [exact G|].
      destruct W as [W|[W|W]]; rewrite W; right; right; reflexivity.
  - subst e. apply sl2_next in Hu as [Ei Ea]. (apply (RUI_frame s _ u u'); [exact Ei|exact Ea| | | |exact HU]); auto.
Qed.

(* ------------------------------------------------------- the lower bound *)

Definition alive (d : dpc) : bool :=
  match d with DToken | DWait | DNextId _ _ | DSave _ _ | DBackAck _ | DSend _ => true | _ => false end.

Record RLr (s : bc) (t : wb_st) (u : sl2_st) : Prop := MkRLr {
  L_alive : alive (dp s) = true ->
            cw s <= N.of_nat (length (wb_fl t) + length (s2_ack u)) + tdeq s + held (dp s);
  L_phase : match pp s with
            | PResend rest =>
                cw s <= N.of_nat (length (wb_fl t)) + tdeq s /\ NoDup (map get_id rest) /\
                (forall p i, In p rest -> get_id p = Some i -> ~ In i (wb_fl t))
            | PRestore => cw s <= N.of_nat (length (wb_fl t)) + tdeq s
            | PAckDel id => In id (s2_ack u)
            | _ => True
            end }.

Definition plain_l (p : ppc) : Prop := match p with PResend _ | PRestore | PAckDel _ => False | _ => True end.

Lemma RLr_frame s s' t u u' :
  s2_ack u' = s2_ack u -> cw s' = cw s -> tdeq s' = tdeq s ->
  (alive (dp s') = true -> alive (dp s) = true /\ held (dp s') = held (dp s)) ->
  (pp s' = pp s \/ plain_l (pp s')) -> RLr s t u -> RLr s' t u'.
Proof.
  intros Ea Ec Et Ed Ep [L1 L2]. constructor; rewrite ?Ea, ?Ec, ?Et.
  - intros Ha. destruct (Ed Ha) as [Ha0 Eh]. rewrite Eh. apply L1. exact Ha0.
  - destruct Ep as [Ep|Ep]; [rewrite Ep; exact L2|destruct (pp s'); try exact I; contradiction].
Qed.

(* the ids listed at a resume are distinct *)
Lemma map_get_id_eqb ps qs : list_eqb packet_eqb ps qs = true -> map get_id ps = map get_id qs.
Proof.
  revert qs. induction ps as [|x ps IH]; intros [|y qs] H; cbn [list_eqb] in H; try discriminate H; [reflexivity|].
  apply andb_prop in H as [H1 H2]. cbn [map]. rewrite (packet_eqb_get_id _ _ H1), (IH _ H2). reflexivity.
Qed.

Lemma map_get_id_store st : ids_ok st -> map get_id (store_all st) = map Some (keys st).
Proof.
  induction st as [|[k q] st IH]; intros Hok; [reflexivity|]. cbn [store_all keys map fst snd].
  rewrite (Hok k q (or_introl eq_refl)). f_equal. apply IH. intros ? ? ?. apply Hok. right. assumption.
Qed.

Lemma NoDup_map_Some (l : list N) : NoDup l -> NoDup (map Some l).
Proof.
  induction l as [|x l IH]; intros H; cbn [map]; [constructor|]. inversion H as [|? ? Hn Hl]; subst.
  constructor; [|apply IH; exact Hl]. intros C. apply in_map_iff in C as (y & E & Hy). injection E as ->. contradiction.
Qed.

Lemma resume_ids_nodup st ps : NoDup (keys st) -> ids_ok st -> list_eqb packet_eqb ps (store_all st) = true ->
  NoDup (map get_id ps).
Proof. intros Hn Hok H. rewrite (map_get_id_eqb _ _ H), (map_get_id_store _ Hok). apply NoDup_map_Some. exact Hn. Qed.

Lemma nremove1_length' k l : In k l -> S (length (nremove1 k l)) = length l.
Proof. intros H. apply nremove1_length. apply nmem_true_iff. exact H. Qed.

Lemma RL_ack s t u g p id t' u' X :
  RLr s t u -> s2_fl u = wb_fl t -> p = Puback id \/ p = Pubcomp id ->
  wb_step t (ERx g p) = Some t' -> s2_ack u' = next_ack u (ERx g p) ->
  X = PAckDel id \/ plain_l X ->
  wb_spur t' = true \/ RLr (set_pp s X) t' u'.
Proof.
  intros [L1 L2] Ef Hp Hw Ea HX.
  destruct (wb_rx_ack t g p id Hp) as [(En & E & Hlen)|E]; rewrite E in Hw; injection Hw as <-; [right|left; reflexivity].
  assert (Ea' : s2_ack u' = id :: s2_ack u).
  { rewrite Ea. destruct Hp as [->| ->]; cbn [next_ack]; rewrite Ef, En; reflexivity. }
  constructor; bcsimpl; cbn [wb_fl]; rewrite Ea'.
  - intros Ha. specialize (L1 Ha). cbn [length]. lia.
  - destruct HX as [->|HX]; [left; reflexivity|destruct X; try exact I; contradiction].
Qed.

Lemma RL_rec s t u g id t' u' X :
  RLr s t u -> wb_step t (ERx g (Pubrec id)) = Some t' -> s2_ack u' = s2_ack u -> plain_l X ->
  wb_spur t' = true \/ RLr (set_pp s X) t' u'.
Proof.
  intros [L1 L2] Hw Ea HX. cbn [wb_step] in Hw.
  destruct (nmem id (wb_fl t)); injection Hw as <-; [right|left; reflexivity].
  constructor; bcsimpl; rewrite Ea; [exact L1|destruct X; try exact I; contradiction].
Qed.

Lemma RL_proc s t v u e s' t' u' :
  INV s -> INVS s -> INVC s -> RW s t -> RFr s t -> RTr s v -> RUI s u -> s2_fl u = wb_fl t -> RLr s t u ->
  step_proc s e = Some s' -> wb_step t e = Some t' -> sl2_step u e = Some u' -> is_setup_ok e = false ->
  wb_spur t' = true \/ RLr s' t' u'.
Proof.
  intros HI HS HC [_ Hfl] HF HT [_ U2] Ef HL H Hw Hu Ese. apply sl2_next in Hu as [_ Ea].
  pose proof (I_pre _ HI) as Hpre. pose proof (I_store _ HI) as Hst. pose proof (I_resend _ HI) as Hrs.
  pose proof HS as [S1 S2 S3]. pose proof HC as [_ C2].
  pose proof HF as [F1 F2 F3 F4]. pose proof HT as [_ T2 _]. pose proof HL as [L1 L2].
  unfold step_proc, proc_dispatch, die_p, guard in H.
  inv_step H; inv_helpers; injection H as <-; subst; cbn [pre_loop early] in *; try discriminate Ese.
  all: try (cbn [wb_step] in Hw; injection Hw as <-; cbn [next_ack] in Ea; right;
            (eapply RLr_frame; [exact Ea| | | | |exact HL]); bcsimpl;
            [reflexivity|reflexivity|intros Ha; split; [exact Ha|reflexivity]|first [left; reflexivity|right; exact I]]).
  - eapply RL_ack; [exact HL|exact Ef|left; reflexivity|exact Hw|exact Ea|right; exact I].
  - eapply RL_rec; [exact HL|exact Hw|exact Ea|exact I].
  - eapply RL_ack; [exact HL|exact Ef|right; reflexivity|exact Hw|exact Ea|right; exact I].
  - (* All *)
    cbn [wb_step] in Hw; injection Hw as <-; cbn [next_ack] in Ea; right.
    destruct T2 as [Ht _]. pose proof (Hfl eq_refl) as Hn. destruct (Hpre eq_refl) as [Hd _].
    match goal with Hl : list_eqb packet_eqb _ _ = true |- _ => pose proof (resume_ids_nodup _ _ S1 S2 Hl) as Hnd end.
    destruct l; constructor; bcsimpl; rewrite ?Hd, ?Hn; cbn [alive length]; try discriminate; try lia.
    repeat split; [lia|exact Hnd|intros ? ? _ _ []].
  - (* Resend ok *)
    destruct (Hpre eq_refl) as [Hd _]. destruct L2 as (La & Lb & Lc).
    inversion C2 as [|? ? Hck Hcl]; subst. destruct Hrs as [Hrs _]. inversion Hrs as [|? ? Hsp Hsl]; subst.
    match goal with Hq : packet_eqb _ _ = true |- _ => pose proof (counted_set_dup _ _ Hq) as Hip end.
    rewrite (cokb_counted _ Hck) in Hip.
    destruct (get_id p) as [i|] eqn:Gi; [|unfold storable in Hsp; rewrite Gi in Hsp; discriminate Hsp].
    assert (Hni : ~ In i (wb_fl t)) by (apply (Lc p i (or_introl eq_refl) Gi)).
    assert (Et : t' = WbSt (wb_w t) (i :: wb_fl t) (wb_spur t)).
    { rewrite (wb_tx_counted _ _ _ _ _ _ Hip Hw). unfold fl_add.
      destruct (nmem i (wb_fl t)) eqn:En; [apply nmem_true_iff in En; contradiction|reflexivity]. }
    subst t'. cbn [next_ack] in Ea. right.
    assert (Htd : tdeq s <= tdeq (take_deq_if_any s) + 1).
    { unfold take_deq_if_any, take_deq. destruct (N.ltb_spec 0 (tdeq s)); bcsimpl; lia. }
    cbn [map] in Lb. inversion Lb as [|? ? Lb1 Lb2]; subst.
    assert (Hd' : forall X, dp (set_pp (sess_save (take_deq_if_any s) Outgoing (set_dup p)) X) = DOff).
    { intros X. unfold take_deq_if_any, take_deq. destruct (0 <? tdeq s); bcsimpl; exact Hd. }
    assert (Hc' : forall X, cw (set_pp (sess_save (take_deq_if_any s) Outgoing (set_dup p)) X) = cw s).
    { intros X. unfold take_deq_if_any, take_deq. destruct (0 <? tdeq s); reflexivity. }
    assert (Ht' : forall X, tdeq (set_pp (sess_save (take_deq_if_any s) Outgoing (set_dup p)) X) = tdeq (take_deq_if_any s)).
    { intros X. reflexivity. }
    constructor; rewrite ?Hd', ?Hc', ?Ht'; cbn [alive wb_fl length]; [discriminate|].
    destruct l; bcsimpl; cbn [wb_fl length]; [lia|].
    repeat split; [lia|exact Lb2|].
    intros q j Hq Gj [E|C]; [|exact (Lc q j (or_intror Hq) Gj C)].
    apply Lb1. replace (get_id p) with (get_id q) by congruence. apply in_map. exact Hq.
  - (* Resend fail *)
    destruct (Hpre eq_refl) as [Hd _]. rewrite wb_tx_fail in Hw. injection Hw as <-. right.
    constructor.
    + unfold take_deq_if_any, take_deq. destruct (0 <? tdeq s); bcsimpl; rewrite Hd; discriminate.
    + exact I.
  - (* Restore ok *)
    cbn [wb_step] in Hw; injection Hw as <-; cbn [next_ack] in Ea; right.
    constructor; bcsimpl; cbn [alive held deq_busy]; [intros _; lia|exact I].
  - eapply RL_ack; [exact HL|exact Ef|left; reflexivity|exact Hw|exact Ea|left; reflexivity].
  - eapply RL_rec; [exact HL|exact Hw|exact Ea|exact I].
  - eapply RL_ack; [exact HL|exact Ef|right; reflexivity|exact Hw|exact Ea|left; reflexivity].
  - (* AckDel ok *)
    match goal with Hq : (_ =? _) = true |- _ => apply N.eqb_eq in Hq; subst end.
    cbn [wb_step] in Hw; injection Hw as <-; cbn [next_ack] in Ea; right.
    pose proof (nremove1_length' _ _ L2) as Hlen.
    constructor; bcsimpl; rewrite ?Ea; [|exact I].
    intros Ha. specialize (L1 Ha). lia.
  - (* RelTx ok *)
    match goal with Hq : (_ =? _) = true |- _ => apply N.eqb_eq in Hq; subst end.
    destruct F4 as (_ & B).
    rewrite (wb_tx_counted t g (Pubrel id0) true id0 t' eq_refl Hw), (fl_add_in _ _ B). cbn [next_ack] in Ea. right.
    constructor; bcsimpl; cbn [wb_fl]; rewrite ?Ea; [exact L1|exact I].
Qed.

Lemma RL_deq s t u e s' t' u' :
  INV s -> RFr s t -> RLr s t u ->
  step_deq s e = Some s' -> wb_step t e = Some t' -> sl2_step u e = Some u' ->
  wb_spur t' = true \/ RLr s' t' u'.
Proof.
  intros HI HF HL H Hw Hu. apply sl2_next in Hu as [_ Ea]. right.
  pose proof (I_shape _ HI) as Hsh. pose proof HF as [F1 F2 F3 F4]. pose proof HL as [L1 L2].
  assert (Hnp : pre_loop (pp s) = false).
  { destruct (pre_loop (pp s)) eqn:Ep; [|reflexivity]. destruct (I_pre _ HI Ep) as [Hd _].
    unfold step_deq in H. rewrite Hd in H. discriminate H. }
  unfold step_deq, guard in H.
  inv_step H; inv_helpers; injection H as <-; subst; cbn [dp_shape] in Hsh; cbn [alive held deq_busy] in L1; cbn [pend saved] in F3.
  all: try (cbn [wb_step] in Hw; injection Hw as <-; cbn [next_ack] in Ea;
            constructor; bcsimpl; cbn [alive held deq_busy]; rewrite ?Ea;
            first [discriminate|intros _; specialize (L1 eq_refl); lia
                  |destruct (pp s); first [discriminate Hnp|exact I|exact L2]]).
  - (* DeqRet qos 0 *)
    cbn [wb_step] in Hw; injection Hw as <-; cbn [next_ack] in Ea.
    destruct backack; constructor; bcsimpl; cbn [alive held deq_busy]; rewrite ?Ea;
      first [intros _; specialize (L1 eq_refl); lia|destruct (pp s); first [discriminate Hnp|exact I|exact L2]].
  - (* Save ok *)
    destruct Hsh as (m & id & -> & Hq).
    match goal with Hx : packet_eqb _ _ = true |- _ => apply packet_eqb_publish_l in Hx; subst end.
    cbn [wb_step] in Hw; injection Hw as <-; cbn [next_ack] in Ea.
    destruct ba; constructor; bcsimpl; cbn [alive held deq_busy]; rewrite ?Ea;
      first [intros _; specialize (L1 eq_refl); lia|destruct (pp s); first [discriminate Hnp|exact I|exact L2]].
  - (* Send ok *)
    destruct Hsh as (m & id & ->).
    match goal with Hx : packet_eqb _ _ = true |- _ => apply packet_eqb_publish_l in Hx; subst end.
    cbn [next_ack] in Ea. cbn [counted_id] in F3. destruct (m_qos m =? 0) eqn:Eq.
    + assert (Et : t' = t) by (eapply wb_tx_uncounted; [|exact Hw]; cbn [counted_id]; rewrite Eq; reflexivity).
      subst t'. constructor; bcsimpl; cbn [alive held deq_busy]; rewrite ?Ea;
        first [intros _; specialize (L1 eq_refl); lia|destruct (pp s); first [discriminate Hnp|exact I|exact L2]].
    + assert (Et : t' = WbSt (wb_w t) (fl_add id (wb_fl t)) (wb_spur t))
        by (eapply wb_tx_counted; [|exact Hw]; cbn [counted_id]; rewrite Eq; reflexivity).
      subst t'. destruct (F3 id eq_refl) as [Hnf _].
      assert (Efl : fl_add id (wb_fl t) = id :: wb_fl t).
      { unfold fl_add. destruct (nmem id (wb_fl t)) eqn:En; [apply nmem_true_iff in En; contradiction|reflexivity]. }
      rewrite Efl. constructor; bcsimpl; cbn [alive held deq_busy wb_fl length]; rewrite ?Ea;
        first [intros _; specialize (L1 eq_refl); lia|destruct (pp s); first [discriminate Hnp|exact I|exact L2]].
  - (* Send fail *)
    rewrite wb_tx_fail in Hw. injection Hw as <-. cbn [next_ack] in Ea.
    constructor; bcsimpl; cbn [alive]; rewrite ?Ea; first [discriminate|destruct (pp s); first [discriminate Hnp|exact I|exact L2]].
Qed.

Lemma RLr_same s s' t u : same_pd s s' -> RLr s t u -> RLr s' t u.
Proof.
  intros Hs. apply RLr_frame; try reflexivity.
  - apply (sp_cw _ _ Hs).
  - apply (sp_tdeq _ _ Hs).
  - rewrite (sp_dp _ _ Hs). intros Ha. split; [exact Ha|reflexivity].
  - left. apply (sp_pp _ _ Hs).
Qed.

Lemma RLr_frozen s s' t u : frozen s s' -> RLr s t u -> RLr s' t u.
Proof.
  intros Hf. apply RLr_frame; try reflexivity.
  - apply (fz_cw _ _ Hf).
  - apply (fz_tdeq _ _ Hf).
  - rewrite (fz_dp _ _ Hf). destruct (dp s); intros Ha; discriminate Ha.
  - right. rewrite (fz_pp _ _ Hf). exact I.
Qed.

Lemma RLr_learned s s1 t u : learned s s1 -> RLr s t u -> RLr s1 t u.
Proof.
  intros Hl. apply RLr_frame; try reflexivity;
    destruct Hl as [->|(g0 & _ & [[_ ->]|[[_ ->]|[[_ ->]|[_ ->]]]])]; bcsimpl;
    first [reflexivity|left; reflexivity|intros Ha; split; [exact Ha|reflexivity]].
Qed.

(* Setup starts afresh *)
Lemma RL_setup s t c resumed fresh w p b u' :
  INV s -> pp s = PSetup c -> RLr (setup_state s c resumed fresh w p b) t u'.
Proof.
  intros HI Hp. assert (Hd : dp s = DOff) by (apply (I_pre _ HI); rewrite Hp; reflexivity).
  unfold setup_state. destruct fresh; constructor; bcsimpl; rewrite ?Hd; cbn [alive]; first [discriminate|exact I].
Qed.

Lemma RL_step s t v u e s' t' u' :
  INV4 s -> RW s t -> RFr s t -> RTr s v -> RUI s u -> s2_fl u = wb_fl t -> RLr s t u ->
  step s e = Some s' -> wb_step t e = Some t' -> sl2_step u e = Some u' -> is_setup_ok e = false ->
  wb_spur t' = true \/ RLr s' t' u'.
Proof.
  intros [[HI HS] HC] HW HF HT HU Ef HL H Hw Hu Ese. apply step_inv in H.
  destruct H as [He Ho ->|He Ho ->|He Hq ->|Hc|g s1 Hg Hl Hr Ho Hp|g s1 Hg Hl Hr Ho Hnp Hd
                |g s1 Hg Hl Hr Ho Hnp Hnd Ha|g s1 Hg Hl Hr Ho Hc|He Hc|g He Ho ->].
  - subst e. right. constructor; bcsimpl; cbn [alive]; [discriminate|exact I].
  - subst e. cbn [wb_step] in Hw. injection Hw as <-. apply sl2_next in Hu as [_ Ea]. right.
    (eapply RLr_frame; [exact Ea| | | | |exact HL]); first [reflexivity|left; reflexivity|intros Ha; split; [exact Ha|reflexivity]].
  - subst e. cbn [wb_step] in Hw. injection Hw as <-. apply sl2_next in Hu as [_ Ea]. right.
    (eapply RLr_frame; [exact Ea| | | | |exact HL]); first [reflexivity|left; reflexivity|intros Ha; split; [exact Ha|reflexivity]].
  - apply step_clo_sum in Hc as (He & Hs & _).
    rewrite (wb_step_same _ _ _ Hw) by (destruct e; try contradiction; exact I).
    apply sl2_next in Hu as [_ Ea].
    destruct (next_same u e) as [_ N2]; [destruct e; try contradiction; try exact I; destruct d; [exact I|contradiction]|].
    right. eapply RLr_same; [exact Hs|]. (eapply RLr_frame; [rewrite Ea; exact N2| | | | |exact HL]);
      first [reflexivity|left; reflexivity|intros Ha; split; [exact Ha|reflexivity]].
  - assert (HU1 : RUI s1 u).
    { destruct (learned_role_kept _ _ Hl) as [_ Kd].
      assert (E : pp s1 = pp s /\ dp s1 = dp s) by (destruct Hl as [->|(g0 & _ & [[_ ->]|[[_ ->]|[[_ ->]|[_ ->]]]])]; split; reflexivity).
      destruct E as [Ep Ed]. destruct HU as [U1 U2]. constructor; rewrite ?Ep, ?Ed; [|exact U2].
      intros g' Hg'. destruct (U1 g' Hg') as [G W]. split; [apply Kd; exact G|exact W]. }
    assert (HC1 : INVC s1) by (destruct Hl as [->|(g0 & _ & [[_ ->]|[[_ ->]|[[_ ->]|[_ ->]]]])]; try exact HC; (eapply INVC_frame; [| |exact HC]); reflexivity).
    assert (HF1 : RFr s1 t) by (destruct (RF_learned _ _ _ Hl (or_intror HF)) as [C|X]; [|exact X];
      (eapply RFr_frame; [| | |exact HF]); destruct Hl as [->|(g0 & _ & [[_ ->]|[[_ ->]|[[_ ->]|[_ ->]]]])];
      first [reflexivity|left; split; reflexivity|left; reflexivity]).
    assert (HT1 : RTr s1 v) by ((eapply RTr_frame; [| | | | | |exact HT]);
      destruct Hl as [->|(g0 & _ & [[_ ->]|[[_ ->]|[[_ ->]|[_ ->]]]])]; bcsimpl;
      first [reflexivity|left; reflexivity|intros Hd0; split; [exact Hd0|lia]]).
    eapply RL_proc; [eapply INV_learned; eassumption|eapply INVS_learned; eassumption|exact HC1|eapply RW_learned; eassumption
                    |exact HF1|exact HT1|exact HU1|exact Ef|eapply RLr_learned; eassumption|exact Hp|exact Hw|exact Hu|exact Ese].
  - assert (HF1 : RFr s1 t) by ((eapply RFr_frame; [| | |exact HF]); destruct Hl as [->|(g0 & _ & [[_ ->]|[[_ ->]|[[_ ->]|[_ ->]]]])];
      first [reflexivity|left; split; reflexivity|left; reflexivity]).
    eapply RL_deq; [eapply INV_learned; eassumption|exact HF1|eapply RLr_learned; eassumption|exact Hd|exact Hw|exact Hu].
  - pose proof (INV_learned _ _ Hl HI) as HI1. pose proof (step_ack_sum _ _ _ Ha) as (Hs & _ & He).
    assert (Et : t' = t).
    { destruct e; try contradiction; try (cbn [wb_step] in Hw; injection Hw as <-; reflexivity).
      destruct async; [|contradiction]. destruct He as (q' & Ht & _).
      destruct ok; [|rewrite wb_tx_fail in Hw; injection Hw as <-; reflexivity].
      eapply wb_tx_uncounted; [|exact Hw]. apply ack_not_counted. eapply ackq_take_is_ack; [exact Ht|apply (I_ackq _ HI1)]. }
    subst t'. apply sl2_next in Hu as [_ Ea].
    assert (N2 : next_ack u e = s2_ack u) by (destruct e; try contradiction; reflexivity).
    right. eapply RLr_same; [exact Hs|]. eapply RLr_learned; [exact Hl|].
    (eapply RLr_frame; [rewrite Ea; exact N2| | | | |exact HL]);
      first [reflexivity|left; reflexivity|intros Ha0; split; [exact Ha0|reflexivity]].
  - apply step_cleanup_sum in Hc as (He & Hc).
    rewrite (wb_step_same _ _ _ Hw) by (destruct e; try contradiction; exact I).
    apply sl2_next in Hu as [_ Ea].
    destruct (next_same u e) as [_ N2]; [destruct e; try contradiction; exact I|].
    assert (HL1 : RLr s1 t u') by (eapply RLr_learned; [exact Hl|];
      (eapply RLr_frame; [rewrite Ea; exact N2| | | | |exact HL]);
      first [reflexivity|left; reflexivity|intros Ha0; split; [exact Ha0|reflexivity]]).
    right. destruct Hc as [(Hs & _)|Hf]; [eapply RLr_same|eapply RLr_frozen]; eassumption.
  - subst e. cbn [wb_step] in Hw. injection Hw as <-. apply sl2_next in Hu as [_ Ea]. cbn [next_ack] in Ea.
    assert (HL1 : RLr s t u') by ((eapply RLr_frame; [exact Ea| | | | |exact HL]);
      first [reflexivity|left; reflexivity|intros Ha0; split; [exact Ha0|reflexivity]]).
    apply step_cleanup_sum in Hc as (_ & Hc).
    right. destruct Hc as [(Hs & _)|Hf]; [eapply RLr_same|eapply RLr_frozen]; eassumption.
  - subst e. cbn [wb_step] in Hw. injection Hw as <-. apply sl2_next in Hu as [_ Ea]. right.
    (eapply RLr_frame; [exact Ea| | | | |exact HL]); bcsimpl; first [reflexivity|left; reflexivity|intros Ha; split; [exact Ha|reflexivity]].
Qed.

(* ---------------------------------------------------------------- assembly *)

Lemma step_setup_inv s g r f w p b s' : step s (ESetup g (SOk r f w p b)) = Some s' ->
  exists s1 c, learned s s1 /\ pp s1 = PSetup c /\ s' = setup_state s1 c r f w p b.
Proof.
  intros H. apply step_inv in H.
  destruct H as [He Ho ->|He Ho ->|He Hq ->|Hc|g' s1 Hg Hl Hr Ho Hp|g' s1 Hg Hl Hr Ho Hnp Hd
                |g' s1 Hg Hl Hr Ho Hnp Hnd Ha|g' s1 Hg Hl Hr Ho Hc|He Hc|g' He Ho ->]; try discriminate.
  - unfold step_proc in Hp. destruct (pp s1) as [| | | | | |ps| | | | | | | | | | | | | | | | | | | | | |] eqn:Ep;
      try discriminate Hp; [|destruct ps; discriminate Hp]. cbv beta iota zeta in Hp. unfold guard in Hp.
    destruct ((0 <? w) && (0 <? p) && (0 <? b)); [|discriminate Hp]. injection Hp as <-.
    exists s1, c. repeat split; assumption.
  - exfalso. unfold step_deq in Hd. destruct (dp s1); discriminate Hd.
  - pose proof (step_ack_sum _ _ _ Ha) as (_ & _ & He). contradiction.
  - apply step_cleanup_sum in Hc as (He & _). contradiction.
Qed.

(* the scanner's only demand: a token timeout of the waiting dequeuer needs a full window *)
Lemma sl2_enabled s t u e s' :
  INV s -> s2_fl u = wb_fl t -> s2_spur u = wb_spur t -> s2_w u = cw s -> RUI s u ->
  (wb_spur t = true \/ RLr s t u) -> step s e = Some s' -> exists u', sl2_step u e = Some u'.
Proof.
  intros HI Ef Es Ew [U1 _] HL H.
  destruct (sl2_step u e) as [u'|] eqn:E; [exists u'; reflexivity|exfalso].
  destruct e; cbn [sl2_step] in E; try discriminate E.
  - destruct p; try discriminate E; destruct (nmem id (s2_fl u)); discriminate E.
  - destruct p; try discriminate E; destruct ok; try discriminate E; destruct dup; discriminate E.
  - destruct r; discriminate E.
  - destruct d; [discriminate E|]. destruct ok; discriminate E.
  - destruct k; try discriminate E.
    destruct (nmem g (s2_idle u)) eqn:Ei; [|discriminate E].
    destruct (s2_spur u) eqn:Esp; [discriminate E|]. cbn [andb negb] in E.
    destruct (N.ltb_spec (N.of_nat (length (s2_fl u) + length (s2_ack u))) (s2_w u)) as [Hlt|]; [|discriminate E].
    apply nmem_true_iff in Ei. destruct (U1 g Ei) as [Gd W].
    destruct HL as [C|[L1 _]]; [congruence|].
    apply step_inv in H.
    destruct H as [He Ho ->|He Ho ->|He Hq ->|Hc|g' s1 Hg Hl Hr Ho Hp|g' s1 Hg Hl Hr Ho Hnp Hd
                  |g' s1 Hg Hl Hr Ho Hnp Hnd Ha|g' s1 Hg Hl Hr Ho Hc|He Hc|g' He Ho ->]; try discriminate.
    + cbn [ev_g] in Hg. injection Hg as <-. destruct (learned_role_kept _ _ Hl) as [_ Kd].
      exact (I_roles _ (INV_learned _ _ Hl HI) _ Hr (Kd _ Gd)).
    + assert (E1 : dp s1 = dp s /\ tdeq s1 = tdeq s) by (destruct Hl as [->|(g0 & _ & [[_ ->]|[[_ ->]|[[_ ->]|[_ ->]]]])]; split; reflexivity).
      destruct E1 as [Ed Et]. unfold step_deq, guard in Hd. rewrite Ed in Hd.
      destruct W as [W|[W|W]]; rewrite W in Hd; try discriminate Hd.
      rewrite Et in Hd. destruct (N.eqb_spec (tdeq s) 0) as [Hz|]; [|discriminate Hd].
      rewrite W in L1. cbn [alive held deq_busy] in L1. specialize (L1 eq_refl). rewrite Ef in Hlt. lia.
    + pose proof (step_ack_sum _ _ _ Ha) as (_ & _ & He). contradiction.
    + apply step_cleanup_sum in Hc as (He & _). contradiction.
Qed.

Definition R_sl (s : bc) (u : sl2_st) (x : wb_st * pk_st) : Prop :=
  R_cw s (fst x) x /\
  (s2_fl u = wb_fl (fst x) /\ s2_spur u = wb_spur (fst x) /\ s2_w u = wb_w (fst x)) /\
  RUI s u /\ (wb_spur (fst x) = true \/ RLr s (fst x) u).

Lemma sl_step_ok s u x e s' x' : INV4 s -> R_sl s u x -> step s e = Some s' -> pkw_step x e = Some x' ->
  exists u', sl2_step u e = Some u' /\ R_sl s' u' x'.
Proof.
  intros HI4 (HCW & (Ef & Es & Ew) & HU & HL) H Hh. pose proof HI4 as [[HI HS] HC].
  destruct (cw_step_ok s (fst x) x e s' x' (proj1 HI4) HCW H Hh) as (t' & Hw & HCW').
  pose proof HCW as (_ & HW & _ & HRC). pose proof HCW' as (Ex' & HW' & _ & _).
  assert (Ecw : s2_w u = cw s) by (rewrite Ew; apply HW).
  destruct (sl2_enabled s (fst x) u e s' HI Ef Es Ecw HU HL H) as (u' & Hu).
  exists u'. split; [exact Hu|]. unfold R_sl. rewrite Ex'.
  destruct (sl2_sync u (fst x) e t' u' Ef Es Ew Hw Hu (step_dup_ok _ _ _ HI HC H)) as (Ef' & Es' & Ew').
  split; [exact HCW'|]. split; [repeat split; assumption|].
  split; [eapply RUI_step; eassumption|].
  destruct (is_setup_ok e) eqn:Ese.
  - destruct e; try discriminate Ese. destruct r as [|r f w p b]; [discriminate Ese|].
    destruct (step_setup_inv _ _ _ _ _ _ _ _ H) as (s1 & c & Hl & Hp & ->).
    right. apply RL_setup; [eapply INV_learned; eassumption|exact Hp].
  - destruct (wb_spur (fst x)) eqn:Esp; [left; eapply wb_spur_mono; eassumption|].
    destruct HL as [C|HL]; [discriminate C|]. destruct HRC as [C|(HK & HF & HT)]; [discriminate C|].
    eapply RL_step; eassumption.
Qed.

Lemma R_sl_init : R_sl bc_init (Sl2St 0 [] [] false []) (WbSt 0 [] false, PkSt 0 []).
Proof.
  split; [exact R_cw_init|]. split; [repeat split|]. split; [constructor; cbn; [intros ? []|reflexivity]|].
  right. constructor; cbn; [discriminate|exact I].
Qed.

(* window slots are not lost: under c16_window_const the waiting dequeuer gives up only when
   the window is full *)
Theorem c16_slots_not_lost_holds :
  forall es s, bc_run es = Some s -> c16_window_const es = true -> c16_slots_not_lost2 es = true.
Proof. exact (scan2_sound sl2_step pkw_step INV4 R_sl INV4_init INV4_step sl_step_ok _ _ R_sl_init). Qed.
