(* ConnProofsDTraces.v — concrete accepted traces of the broker-connection model BC
   used as non-vacuity witnesses for the C14 / C15 clauses of ConnSpec2.v.  They are
   shaped after traces recorded on the implementation (go/cmd/brokerconn, families
   c07 and c08).  Definitions and vm_compute checks only. *)
From Coq Require Import List NArith Bool.
From Coq.Strings Require Import Byte.
From GM Require Import Base.Lts Codec.Packet Session.Ids Session.Store
  Broker.Conn Broker.ConnSpec Broker.ConnSpec2 Broker.ConnSpec5.
Import ListNotations.
Open Scope N_scope.

Definition td_conn : connect := Conn [x63] 0 [] [] false None 4.
Definition td_will : message := Msg [x77] [x2a] 0 false.
Definition td_connw : connect := Conn [x63] 0 [] [] false (Some td_will) 4.
Definition td_q0 : message := Msg [x74] [x00] 0 false.
Definition td_q1 : message := Msg [x74] [x01] 1 false.
Definition td_q1b : message := Msg [x74] [x03] 1 true.
Definition td_q2 : message := Msg [x74] [x02] 2 false.

(* connection prologue: processor g, window w, resumed r, stored packets ps (re-sent) *)
Definition td_open (c : connect) (g w : N) (r : bool) (ps : list packet) : list event :=
  [ENewConn; ERx g (Connect c); EAuth g AOk; ESetup g (SOk r false w 10 10);
   ETx g (Connack r 0) false true; EAll g Outgoing (Some ps)]
  ++ map (fun p => ETx g (set_dup p) true true) ps ++ [ERestore g true].

(* the peer goes away while the dequeuer (gd) waits inside Dequeue; cleanup goroutine gc *)
Definition td_lost (g gd gc : N) : list event :=
  [ERxErr g; EDie g KTransport; EConnClose g; EDeqRet gd QNone; ETerm gc true; EClosed].

(* inbound QoS 0, then QoS 1 (twice, different messages): each ends in a backend Publish
   issued by the processor for the packet it received last; the PUBACKs leave via the acker *)
Definition td_in_q1 : list event :=
  td_open td_conn 2 10 false [] ++
  [EDeqCall 3;
   ERx 2 (Publish false td_q0 0); EPub 2 td_q0 None; EPubRet 2 true;
   ERx 2 (Publish false td_q1 7); EPub 2 td_q1 (Some 1); EAckCall 1 2; EAckRet 1 2; EPubRet 2 true;
   ETx 4 (Puback 7) true true;
   ERx 2 (Publish true td_q1b 8); EPub 2 td_q1b (Some 2); EPubRet 2 true; EAckCall 2 9; EAckRet 2 9;
   ETx 4 (Puback 8) true true;
   EQuiescent] ++ td_lost 2 3 5.

(* inbound QoS 2 (recorded: c07/P1.P1.R1): PUBLISH stored, PUBREC, duplicate PUBLISH stored
   again, PUBREC, PUBREL looked up, the stored message handed to the backend, released by
   the closure, PUBCOMP; a second PUBREL for the now unknown id is answered directly *)
Definition td_in_q2 : list event :=
  td_open td_conn 2 10 false [] ++
  [EDeqCall 3;
   ERx 2 (Publish false td_q2 1); ESave 2 Incoming (Publish false td_q2 1) true; ETx 2 (Pubrec 1) true true;
   ERx 2 (Publish true td_q2 1); ESave 2 Incoming (Publish true td_q2 1) true; ETx 2 (Pubrec 1) true true;
   ERx 2 (Pubrel 1); ELookup 2 Incoming 1 (LRes (Some (Publish true td_q2 1)));
   EPub 2 td_q2 (Some 1); EAckCall 1 2; EDelete 2 Incoming 1 true; EAckRet 1 2; EPubRet 2 true;
   ETx 4 (Pubcomp 1) true true;
   ERx 2 (Pubrel 1); ELookup 2 Incoming 1 (LRes None); ETx 2 (Pubcomp 1) true true;
   EQuiescent] ++ td_lost 2 3 5.

(* three deliveries in dequeue order: QoS 1 (backend acknowledged before the send),
   QoS 0, QoS 2; each dequeued message is sent exactly once before the next dequeue *)
Definition td_deq : list event :=
  td_open td_conn 2 3 false [] ++
  [EDeqCall 3; EDeqRet 3 (QMsg td_q1 true); ENextId 3 1; ESave 3 Outgoing (Publish false td_q1 1) true;
   EDeqAck 3; ETx 3 (Publish false td_q1 1) true true;
   EDeqCall 3; EDeqRet 3 (QMsg td_q0 false); ETx 3 (Publish false td_q0 0) true true;
   EDeqCall 3; EDeqRet 3 (QMsg td_q2 false); ENextId 3 2; ESave 3 Outgoing (Publish false td_q2 2) true;
   ETx 3 (Publish false td_q2 2) true true;
   EDeqCall 3; EQuiescent] ++ td_lost 2 3 4.

(* resume: a QoS 2 message (id 1) and a QoS 1 message (id 2) are sent; PUBREC 1 replaces
   the stored PUBLISH 1 by PUBREL 1, which keeps the first place; the connection is lost;
   the resumed connection lists [PUBREL 1; PUBLISH 2] and re-sends them in that order;
   then PUBCOMP 1 and PUBACK 2 empty the store; a third connection lists nothing *)
Definition td_resume : list event :=
  td_open td_conn 2 2 false [] ++
  [EDeqCall 3; EDeqRet 3 (QMsg td_q2 false); ENextId 3 1; ESave 3 Outgoing (Publish false td_q2 1) true;
   ETx 3 (Publish false td_q2 1) true true;
   EDeqCall 3; EDeqRet 3 (QMsg td_q1 false); ENextId 3 2; ESave 3 Outgoing (Publish false td_q1 2) true;
   ETx 3 (Publish false td_q1 2) true true;
   ERx 2 (Pubrec 1); ESave 2 Outgoing (Pubrel 1) true; ETx 2 (Pubrel 1) true true;
   ERxErr 2; EDie 2 KTransport; EConnClose 2; ETerm 4 true; EClosed] ++
  td_open td_conn 5 2 true [Pubrel 1; Publish false td_q1 2] ++
  [ERx 5 (Pubcomp 1); EDelete 5 Outgoing 1 true; ERx 5 (Puback 2); EDelete 5 Outgoing 2 true;
   EDeqCall 6; EQuiescent] ++ td_lost 5 6 7 ++
  td_open td_conn 8 2 true [] ++ [EDeqCall 9; EQuiescent] ++ td_lost 8 9 10.

(* complete life cycles: (1) a client with a will is lost: the will is published, then
   Terminate, then Closed; (2) the first packet is not CONNECT: no Terminate, Closed;
   (3) authentication passes but Setup fails: Terminate still called once; (4) a clean
   DISCONNECT: no will, Terminate, Closed *)
Definition td_life : list event :=
  td_open td_connw 2 2 false [] ++
  [EDeqCall 3; ERxErr 2; EDie 2 KTransport; EConnClose 2; EDeqRet 3 QNone;
   EPub 4 td_will None; EPubRet 4 true; ETerm 4 true; EClosed] ++
  [ENewConn; ERx 5 Pingreq; EDie 5 KClient; EConnClose 5; EClosed] ++
  [ENewConn; ERx 6 (Connect td_connw); EAuth 6 AOk; ESetup 6 SErr; EDie 6 KBackend; EConnClose 6;
   ETerm 7 false; EDie 7 KBackend; EClosed] ++
  td_open td_connw 8 2 true [] ++
  [EDeqCall 9; ERx 8 Disconnect; EConnClose 8; EDeqRet 9 QNone; ETerm 10 true; EClosed].

Definition accepted (es : list event) : bool :=
  match bc_run es with Some _ => true | None => false end.

Definition count_ev (f : event -> bool) (es : list event) : nat := length (filter f es).

Definition is_pub (e : event) : bool := match e with EPub _ _ _ => true | _ => false end.
Definition is_pub_k (e : event) : bool := match e with EPub _ _ (Some _) => true | _ => false end.
Definition is_deqmsg (e : event) : bool := match e with EDeqRet _ (QMsg _ _) => true | _ => false end.
Definition is_all2 (e : event) : bool := match e with EAll _ Outgoing (Some (_ :: _ :: _)) => true | _ => false end.
Definition is_term (e : event) : bool := match e with ETerm _ _ => true | _ => false end.
Definition is_closed (e : event) : bool := match e with EClosed => true | _ => false end.

(* all witnesses are accepted by the model, satisfy every C14/C15 clause, and exercise
   the events the clauses talk about *)
Lemma td_all_accepted :
  forallb accepted [td_in_q1; td_in_q2; td_deq; td_resume; td_life] = true.
Proof. vm_compute. reflexivity. Qed.

Lemma td_all_clauses :
  forallb (fun es => c15_in_order es && c15_release_intact es && c15_resend_order es
                     && c15_dequeue_order es && c14_lifecycle es)
          [td_in_q1; td_in_q2; td_deq; td_resume; td_life] = true.
Proof. vm_compute. reflexivity. Qed.

Lemma td_counts :
  count_ev is_pub td_in_q1 = 3%nat /\ count_ev is_pub_k td_in_q2 = 1%nat /\
  count_ev is_deqmsg td_deq = 3%nat /\ count_ev is_all2 td_resume = 1%nat /\
  count_ev is_term td_life = 3%nat /\ count_ev is_closed td_life = 4%nat.
Proof. vm_compute. repeat split; reflexivity. Qed.

(* the scanners are not trivially true: small mutations of the witnesses are rejected *)
Definition td_bad_order : list event :=      (* the backend Publish carries another message than the PUBLISH received last *)
  td_open td_conn 2 10 false [] ++ [ERx 2 (Publish false td_q1 7); EPub 2 td_q1b (Some 1)].
Definition td_bad_twice : list event :=      (* two backend Publishes for one received PUBLISH *)
  td_open td_conn 2 10 false [] ++ [ERx 2 (Publish false td_q0 0); EPub 2 td_q0 None; EPubRet 2 true; EPub 2 td_q0 None].
Definition td_bad_release : list event :=    (* the message handed on differs from the stored one *)
  td_open td_conn 2 10 false [] ++
  [ERx 2 (Pubrel 1); ELookup 2 Incoming 1 (LRes (Some (Publish false td_q2 1))); EPub 2 td_q1 (Some 1)].
Definition td_bad_resend : list event :=     (* the store lists in another order than first-save order *)
  [ESave 3 Outgoing (Publish false td_q2 1) true; ESave 3 Outgoing (Publish false td_q1 2) true;
   ESave 2 Outgoing (Pubrel 1) true; EAll 5 Outgoing (Some [Publish false td_q1 2; Pubrel 1])].
Definition td_bad_deq : list event :=        (* a second dequeue before the first message was sent *)
  [ENewConn; EDeqCall 3; EDeqRet 3 (QMsg td_q1 false); EDeqCall 3; EDeqRet 3 (QMsg td_q0 false)].
Definition td_bad_deq2 : list event :=       (* the PUBLISH sent carries another message *)
  [ENewConn; EDeqCall 3; EDeqRet 3 (QMsg td_q1 false); ETx 3 (Publish false td_q1b 1) true true].
Definition td_bad_life1 : list event :=      (* Closed without Terminate although Setup succeeded *)
  td_open td_conn 2 2 false [] ++ [EClosed].
Definition td_bad_life2 : list event :=      (* Terminate twice *)
  td_open td_conn 2 2 false [] ++ [ETerm 4 true; ETerm 4 true].
Definition td_bad_life3 : list event :=      (* something happens after Closed *)
  td_life ++ [ETx 2 Pingresp true true].

Lemma td_mutants_rejected :
  c15_in_order td_bad_order = false /\ c15_in_order td_bad_twice = false /\
  c15_release_intact td_bad_release = false /\ c15_resend_order td_bad_resend = false /\
  c15_dequeue_order td_bad_deq = false /\ c15_dequeue_order td_bad_deq2 = false /\
  c14_lifecycle td_bad_life1 = false /\ c14_lifecycle td_bad_life2 = false /\
  c14_lifecycle td_bad_life3 = false.
Proof. vm_compute. repeat split; reflexivity. Qed.

(* ... and the model itself rejects them *)
Lemma td_mutants_not_accepted :
  forallb (fun es => negb (accepted es))
    [td_bad_order; td_bad_twice; td_bad_release; td_bad_deq; td_bad_deq2; td_bad_life1; td_bad_life2; td_bad_life3] = true.
Proof. vm_compute. reflexivity. Qed.

(* ------------------------------------------------ C06_forward_intact (ConnSpec5.v) *)

Definition td_q1r : message := Msg [x74] [x05] 1 true.       (* retain flag set, as queued *)

(* four deliveries: QoS 1 (id 1), QoS 0 (id 0), QoS 2 (id 2), QoS 1 retained (id 3, after
   PUBACK 1 freed the window) *)
Definition td_fwd : list event :=
  td_open td_conn 2 3 false [] ++
  [EDeqCall 3; EDeqRet 3 (QMsg td_q1 true); ENextId 3 1; ESave 3 Outgoing (Publish false td_q1 1) true;
   EDeqAck 3; ETx 3 (Publish false td_q1 1) true true;
   EDeqCall 3; EDeqRet 3 (QMsg td_q0 false); ETx 3 (Publish false td_q0 0) true true;
   EDeqCall 3; EDeqRet 3 (QMsg td_q2 false); ENextId 3 2; ESave 3 Outgoing (Publish false td_q2 2) true;
   ETx 3 (Publish false td_q2 2) true true;
   ERx 2 (Puback 1); EDelete 2 Outgoing 1 true;
   EDeqCall 3; EDeqRet 3 (QMsg td_q1r false); ENextId 3 3; ESave 3 Outgoing (Publish false td_q1r 3) true;
   ETx 3 (Publish false td_q1r 3) true true;
   ERxErr 2; EDie 2 KTransport; EConnClose 2; ETerm 4 true; EClosed].

Definition is_fresh_pub (e : event) : bool := match e with ETx _ (Publish false _ _) _ _ => true | _ => false end.

Definition td_fw_pre : list event := [ENewConn; EDeqCall 3; EDeqRet 3 (QMsg td_q1r false); ENextId 3 7].
Definition td_bad_fw_id : list event := td_fw_pre ++ [ETx 3 (Publish false td_q1r 8) true true].      (* not the allocated id *)
Definition td_bad_fw_dup : list event := td_fw_pre ++ [ETx 3 (Publish true td_q1r 7) true true].      (* dup set *)
Definition td_bad_fw_retain : list event :=                                                           (* retain flag altered *)
  td_fw_pre ++ [ETx 3 (Publish false (Msg [x74] [x05] 1 false) 7) true true].
Definition td_bad_fw_qos : list event :=                                                              (* QoS altered *)
  td_fw_pre ++ [ETx 3 (Publish false (Msg [x74] [x05] 0 true) 0) true true].
Definition td_bad_fw_noid : list event :=                                                             (* QoS 1 without an id *)
  [ENewConn; EDeqCall 3; EDeqRet 3 (QMsg td_q1 false); ETx 3 (Publish false td_q1 0) true true].
Definition td_bad_fw_q0id : list event :=                                                             (* QoS 0 with an id *)
  [ENewConn; EDeqCall 3; EDeqRet 3 (QMsg td_q0 false); ETx 3 (Publish false td_q0 5) true true].
Definition td_bad_fw_twice : list event :=                                                            (* forwarded twice *)
  td_fw_pre ++ [ETx 3 (Publish false td_q1r 7) true true; ETx 3 (Publish false td_q1r 7) true true].
Definition td_bad_fw_skip : list event :=                                                             (* never forwarded *)
  td_fw_pre ++ [EDeqCall 3; EDeqRet 3 (QMsg td_q0 false)].

Definition td_fw_mutants : list (list event) :=
  [td_bad_fw_id; td_bad_fw_dup; td_bad_fw_retain; td_bad_fw_qos; td_bad_fw_noid; td_bad_fw_q0id;
   td_bad_fw_twice; td_bad_fw_skip].

Lemma td_fwd_ok :
  accepted td_fwd = true /\ c06_forward_intact td_fwd = true /\ count_ev is_fresh_pub td_fwd = 4%nat /\
  forallb c06_forward_intact [td_in_q1; td_in_q2; td_deq; td_resume; td_life] = true /\
  forallb c14_lifecycle2 [td_in_q1; td_in_q2; td_deq; td_resume; td_life; td_fwd] = true.
Proof. vm_compute. repeat split; reflexivity. Qed.

Lemma td_fw_mutants_rejected :
  forallb (fun es => negb (c06_forward_intact es)) td_fw_mutants = true /\
  forallb (fun es => negb (accepted es)) td_fw_mutants = true.
Proof. vm_compute. split; reflexivity. Qed.

(* ------------------------------------------------------------ C07 progress *)

(* two QoS 2 handshakes reach PUBREL; the backend has acknowledged neither publish *)
Definition td_withheld : list event :=
  td_open td_conn 2 10 false [] ++
  [EDeqCall 3;
   ERx 2 (Publish false td_q2 1); ESave 2 Incoming (Publish false td_q2 1) true; ETx 2 (Pubrec 1) true true;
   ERx 2 (Publish false td_q2 2); ESave 2 Incoming (Publish false td_q2 2) true; ETx 2 (Pubrec 2) true true;
   ERx 2 (Pubrel 1); ELookup 2 Incoming 1 (LRes (Some (Publish false td_q2 1))); EPub 2 td_q2 (Some 11); EPubRet 2 true;
   ERx 2 (Pubrel 2); ELookup 2 Incoming 2 (LRes (Some (Publish false td_q2 2))); EPub 2 td_q2 (Some 12); EPubRet 2 true].

(* ------------------------------------------------------ C15_resend_first *)

(* the seeded reordering: on the resumed connection the dequeuer is started before the
   stored packets are re-sent and a fresh PUBLISH overtakes the retransmission *)
Definition td_bad_rf_overtake : list event :=
  [ENewConn; ERx 5 (Connect td_conn); EAuth 5 AOk; ESetup 5 (SOk true false 2 10 10); ETx 5 (Connack true 0) false true;
   EDeqCall 6; EDeqRet 6 (QMsg td_q1b false); ENextId 6 3; ESave 6 Outgoing (Publish false td_q1b 3) true;
   ETx 6 (Publish false td_q1b 3) true true;
   EAll 5 Outgoing (Some [Pubrel 1; Publish false td_q1 2]); ETx 5 (Pubrel 1) true true;
   ETx 5 (Publish true td_q1 2) true true; ERestore 5 true].
Definition td_bad_rf_order : list event :=       (* re-sent in another order than listed *)
  [ENewConn; ESetup 5 (SOk true false 2 10 10); ETx 5 (Connack true 0) false true;
   EAll 5 Outgoing (Some [Pubrel 1; Publish false td_q1 2]); ETx 5 (Publish true td_q1 2) true true].
Definition td_bad_rf_early : list event :=       (* Restore before the list is exhausted *)
  [ENewConn; ESetup 5 (SOk true false 2 10 10); ETx 5 (Connack true 0) false true;
   EAll 5 Outgoing (Some [Pubrel 1]); ERestore 5 true].

Lemma td_rf_ok :
  forallb c15_resend_first [td_in_q1; td_in_q2; td_deq; td_resume; td_life; td_fwd] = true /\
  forallb (fun es => negb (c15_resend_first es)) [td_bad_rf_overtake; td_bad_rf_order; td_bad_rf_early] = true /\
  forallb (fun es => negb (accepted es)) [td_bad_rf_overtake; td_bad_rf_order; td_bad_rf_early] = true.
Proof. vm_compute. repeat split; reflexivity. Qed.
