(* BackendFrame.v — "everything else is unchanged", as a clause on one observed step (frame_ok):
   * a session's subscriptions change only by a Subscribe / Unsubscribe of the connection that holds it;
   * a session's active connection changes only when a Setup completes on it (it becomes that connection)
     or when the connection holding it terminates while the session still names it (it becomes none);
   * a session disappears only as the temporary session of a terminating connection or as the stored
     session of a client id whose clean Setup completes; it appears only as the session a completing
     Setup hands out, and then it is empty and owned by that connection.
   (What happens to the queues is delivery_ok, Broker/BackendLog.v.) *)
From Coq Require Import List NArith Bool Lia.
From Coq.Strings Require Import Byte.
From GM Require Import Codec.Packet Topic.MatchSpec Broker.Backend Broker.BackendSpec
  Broker.BackendProofs Broker.BackendProofsPublish Broker.BackendProofsSteps Broker.BackendOwn Broker.BackendProofsHist
  Broker.BackendLog.
Import ListNotations.
Open Scope N_scope.

Definition holder (st : state) (c : conn) (k : skey) : bool :=
  option_eqb skey_eqb (alookup N.eqb c (st_sess st)) (Some k).

(* the session a completing Setup hands out, and to whom *)
Definition completes (st : state) (o : op) (r : result) : option (skey * conn) :=
  match r with
  | RSetup _ =>
      match o with
      | OSetup c id clean => Some ((if clean || is_nil id then KTemp c else KStored id), c)
      | OSetupEnd _ =>
          match st_pending st with
          | Some p => Some ((if p_clean p then KTemp (p_conn p) else KStored (p_id p)), p_conn p)
          | None => None
          end
      | _ => None
      end
  | _ => None
  end.

Definition deleted (st : state) (o : op) (r : result) (k : skey) : bool :=
  match r, o with
  | RSetup _, OSetup c id true => negb (is_nil id) && skey_eqb k (KStored id)
  | RSetup _, OSetupEnd _ =>
      match st_pending st with Some p => p_clean p && skey_eqb k (KStored (p_id p)) | None => false end
  | ROk, OTerminate c => skey_eqb k (KTemp c)
  | _, _ => false
  end.

Definition subs_may_change (st : state) (o : op) (k : skey) : bool :=
  match o with
  | OSubscribe c _ _ | OUnsubscribe c _ => holder st c k
  | _ => false
  end.

Definition act_after (st : state) (o : op) (r : result) (k : skey) (s : session) : option conn :=
  match completes st o r with
  | Some (k', c) => if skey_eqb k k' then Some c else s_act s
  | None =>
      match o, r with
      | OTerminate c, ROk =>                        (* released only if still held by the terminating connection *)
          if holder st c k && option_eqb N.eqb (s_act s) (Some c) then None else s_act s
      | _, _ => s_act s
      end
  end.

Definition frame_ok (st : state) (o : op) (r : result) (st' : state) : bool :=
  forallb (fun e =>
    match get_session st' (fst e) with
    | Some s' =>
        (subs_may_change st o (fst e) || subs_eqb (s_subs (snd e)) (s_subs s')) &&
        option_eqb N.eqb (s_act s') (act_after st o r (fst e) (snd e))
    | None => deleted st o r (fst e)
    end) (sessions st) &&
  forallb (fun e =>
    is_some (get_session st (fst e)) ||
    match completes st o r with
    | Some (k', c) => skey_eqb (fst e) k' && is_nil (s_subs (snd e)) && option_eqb N.eqb (s_act (snd e)) (Some c)
    | None => false
    end) (sessions st') &&
  (* a terminated connection's temporary session is released *)
  match o, r with
  | OTerminate c, ROk => negb (is_some (get_session st' (KTemp c)))
  | _, _ => true
  end.

(* ------------------------------------------------------------------ proofs *)
Lemma bytes_eqb_comm a b : bytes_eqb a b = bytes_eqb b a.
Proof.
  destruct (bytes_eqb a b) eqn:E.
  - apply bytes_eqb_eq in E; subst. symmetry; apply bytes_eqb_refl.
  - destruct (bytes_eqb b a) eqn:E2; [|reflexivity]. apply bytes_eqb_eq in E2; subst. rewrite bytes_eqb_refl in E; discriminate.
Qed.

(* a step that leaves every session as it is, or rewrites the holder's session keeping its active connection *)
Lemma frame_same st o r st' :
  wf st -> wf st' -> (forall k, get_session st' k = get_session st k) ->
  completes st o r = None -> (forall c, o = OTerminate c -> r <> ROk) ->
  frame_ok st o r st' = true.
Proof.
  intros W W' Hg Hc Ht. unfold frame_ok.
  assert (R : match o, r with OTerminate c, ROk => negb (is_some (get_session st' (KTemp c))) | _, _ => true end = true).
  { destruct o; try reflexivity. destruct r; try reflexivity. exfalso. exact (Ht c eq_refl eq_refl). }
  rewrite R, andb_true_r.
  apply andb_true_iff; split; apply forallb_forall; intros [k s] Hin; cbn [fst snd].
  - rewrite Hg, (sessions_get st k s W Hin). rewrite subs_eqb_refl, orb_true_r. cbn [andb].
    unfold act_after. rewrite Hc. destruct o; try apply act_eqb_refl. destruct r; try apply act_eqb_refl.
    exfalso. exact (Ht c eq_refl eq_refl).
  - rewrite <- Hg, (sessions_get st' k s W' Hin). reflexivity.
Qed.

Lemma setup_finish_get st c id clean k :
  get_session (snd (setup_finish st c id clean)) k =
  if skey_eqb k (if clean then KTemp c else KStored id) then
    Some (if clean then new_session c
          else match alookup bytes_eqb id (st_stored st) with
               | Some s => Sess (s_subs s) [] (s_sq s) (Some c)
               | None => new_session c end)
  else if clean && skey_eqb k (KStored id) then None else get_session st k.
Proof.
  unfold setup_finish. destruct clean.
  - cbn [snd andb]. destruct k as [x|i]; cbn [get_session st_temps st_stored skey_eqb].
    + rewrite (alookup_aset N.eqb N.eqb_eq). destruct (x =? c); reflexivity.
    + rewrite (alookup_aremove bytes_eqb bytes_eqb_eq). destruct (bytes_eqb i id); reflexivity.
  - cbn [andb]. destruct (alookup bytes_eqb id (st_stored st)) as [s0|]; cbn [snd];
      destruct k as [x|i]; cbn [get_session st_temps st_stored skey_eqb]; try reflexivity;
      rewrite (alookup_aset bytes_eqb bytes_eqb_eq); destruct (bytes_eqb i id); reflexivity.
Qed.

Lemma setup_finish_result st c id clean : exists b, fst (setup_finish st c id clean) = RSetup b.
Proof. unfold setup_finish. destruct clean; [|destruct (alookup bytes_eqb id (st_stored st))]; eexists; reflexivity. Qed.

(* a completing Setup: session K now belongs to connection c (S), the sessions in delK are gone, nothing else *)
Lemma frame_complete st0 o b st' K c S (delK : skey -> bool) :
  wf st0 -> wf st' ->
  (forall k, get_session st' k = if skey_eqb k K then Some S else if delK k then None else get_session st0 k) ->
  completes st0 o (RSetup b) = Some (K, c) -> (forall k, deleted st0 o (RSetup b) k = delK k) ->
  match o with OSubscribe _ _ _ | OUnsubscribe _ _ | OTerminate _ => False | _ => True end ->
  match get_session st0 K with Some s => s_subs S = s_subs s | None => s_subs S = [] end -> s_act S = Some c ->
  frame_ok st0 o (RSetup b) st' = true.
Proof.
  intros W W' Hg Hcomp Hdel Ho HS HA.
  unfold frame_ok.
  assert (R : match o, RSetup b with OTerminate c, ROk => negb (is_some (get_session st' (KTemp c))) | _, _ => true end = true)
    by (destruct o; reflexivity).
  rewrite R, andb_true_r.
  apply andb_true_iff; split; apply forallb_forall; intros [k s] Hin; cbn [fst snd].
  - pose proof (sessions_get st0 k s W Hin) as G. rewrite Hg.
    assert (SC : subs_may_change st0 o k = false) by (destruct o; try reflexivity; destruct Ho).
    rewrite SC. cbn [orb]. unfold act_after. rewrite Hcomp.
    destruct (skey_eqb k K) eqn:EK.
    + apply skey_eqb_eq in EK. subst k. rewrite G in HS. rewrite HS, HA, subs_eqb_refl, act_eqb_refl. reflexivity.
    + destruct (delK k) eqn:ED; [rewrite Hdel; exact ED|]. rewrite G, subs_eqb_refl, act_eqb_refl. reflexivity.
  - pose proof (sessions_get st' k s W' Hin) as G'. rewrite Hg in G'. rewrite Hcomp.
    destruct (skey_eqb k K) eqn:EK.
    + injection G' as <-. destruct (get_session st0 k) eqn:G; [reflexivity|]. cbn [is_some orb andb].
      apply skey_eqb_eq in EK. subst k. rewrite G in HS. rewrite HS, HA. cbn [is_nil]. apply act_eqb_refl.
    + destruct (delK k); [discriminate|]. rewrite G'. reflexivity.
Qed.

Lemma frame_setup_finish st0 o st c id clean :
  wf st0 -> wf (snd (setup_finish st c id clean)) ->
  (forall k, get_session st k = get_session st0 k) ->
  alookup N.eqb c (st_temps st) = None ->
  (forall b, completes st0 o (RSetup b) = Some ((if clean then KTemp c else KStored id), c)) ->
  (forall b k, deleted st0 o (RSetup b) k = clean && skey_eqb k (KStored id)) ->
  match o with OSubscribe _ _ _ | OUnsubscribe _ _ | OTerminate _ => False | _ => True end ->
  frame_ok st0 o (fst (setup_finish st c id clean)) (snd (setup_finish st c id clean)) = true.
Proof.
  intros W W' Hg Tc Hcomp Hdel Ho. destruct (setup_finish_result st c id clean) as [b Hr]. rewrite Hr.
  eapply (frame_complete st0 o b _ _ c _ (fun k => clean && skey_eqb k (KStored id)) W W').
  - intros k. rewrite setup_finish_get, Hg. reflexivity.
  - apply Hcomp.
  - apply Hdel.
  - exact Ho.
  - rewrite <- Hg. destruct clean.
    + cbn [get_session]. rewrite Tc. reflexivity.
    + cbn [get_session]. destruct (alookup bytes_eqb id (st_stored st)); reflexivity.
  - destruct clean; [reflexivity|]. destruct (alookup bytes_eqb id (st_stored st)); reflexivity.
Qed.

Lemma holder_of st c k s : session_of st c = Some (k, s) -> holder st c k = true.
Proof.
  unfold session_of, holder. destruct (alookup N.eqb c (st_sess st)) as [k0|]; [|discriminate].
  destruct (get_session st k0); [|discriminate]. intros H; injection H as -> _. cbn. apply skey_eqb_refl.
Qed.

(* a step that rewrites one session keeping its active connection, and its subscriptions unless `may` *)
Lemma frame_put st o r k0 s0 s2 :
  wf st -> get_session st k0 = Some s0 -> s_act s2 = s_act s0 ->
  completes st o r = None -> (forall c, o <> OTerminate c) ->
  (subs_may_change st o k0 = true \/ s_subs s2 = s_subs s0) ->
  frame_ok st o r (put_session st k0 s2) = true.
Proof.
  intros W G A Hc Ht Hs. pose proof (wf_put st k0 s2 W) as W'.
  assert (AA : forall k s, act_after st o r k s = s_act s).
  { intros k s. unfold act_after. rewrite Hc. destruct o; try reflexivity. exfalso; exact (Ht c eq_refl). }
  unfold frame_ok.
  assert (R : match o, r with OTerminate c, ROk => negb (is_some (get_session (put_session st k0 s2) (KTemp c))) | _, _ => true end = true).
  { destruct o; try reflexivity. exfalso; exact (Ht c eq_refl). }
  rewrite R, andb_true_r.
  apply andb_true_iff; split; apply forallb_forall; intros [k s] Hin; cbn [fst snd].
  - pose proof (sessions_get st k s W Hin) as Gk. rewrite get_put, AA. destruct (skey_eqb k k0) eqn:E.
    + apply skey_eqb_eq in E; subst k. rewrite G in Gk; injection Gk as <-. rewrite A, act_eqb_refl, andb_true_r.
      destruct Hs as [Hs|Hs]; [rewrite Hs; reflexivity|rewrite Hs, subs_eqb_refl, orb_true_r; reflexivity].
    + rewrite Gk, subs_eqb_refl, act_eqb_refl, orb_true_r. reflexivity.
  - pose proof (sessions_get _ k s W' Hin) as Gk. rewrite get_put in Gk. destruct (skey_eqb k k0) eqn:E.
    + apply skey_eqb_eq in E; subst k. rewrite G. reflexivity.
    + rewrite Gk. reflexivity.
Qed.

Ltac same_tac W W' :=
  cbn [fst snd]; apply frame_same;
  [exact W | (cbn [snd] in W'; exact W') | (let k := fresh "k" in intros k; try destruct k; reflexivity)
  | try reflexivity | (let E := fresh "E" in intros ? E; first [discriminate E | intro; discriminate])].

Theorem step_frame_ok st o :
  wf st -> Own st -> TempsOk st -> frame_ok st o (fst (step st o)) (snd (step st o)) = true.
Proof.
  intros W O [T1 T2]. pose proof (wf_step st o W) as W'.
  destruct o as [c id clean|t|c|c subs b|c fs|c m got|c t|c|]; cbn [step] in *.
  - (* Setup *)
    unfold setup in *. destruct (st_pending st) eqn:P; [same_tac W W'|].
    destruct (alookup N.eqb c (st_cid st)) eqn:H; [same_tac W W'|].
    cbn [st_closing] in *. destruct (st_closing st).
    { cbn [snd] in W'. same_tac W W'. }
    destruct (is_nil id) eqn:Hid.
    + cbn [snd] in W'. eapply (frame_complete st _ false _ (KTemp c) c (new_session c) (fun _ => false) W W').
      * intros k. destruct k as [x|i]; cbn [get_session st_temps st_stored skey_eqb]; [|reflexivity].
        rewrite (alookup_aset N.eqb N.eqb_eq). destruct (x =? c); reflexivity.
      * cbn [completes]. rewrite Hid, orb_true_r. reflexivity.
      * intros k. cbn [deleted]. destruct clean; [rewrite Hid; reflexivity|reflexivity].
      * exact I.
      * cbn [get_session]. rewrite (T1 c H). reflexivity.
      * reflexivity.
    + match goal with |- context [existing_session ?s0 id] => set (st1 := s0) in * end.
      destruct (existing_session st1 id) as [[a b0 c0 [c1|]]|].
      * cbn [snd] in W'. unfold set_pending in *. same_tac W W'.
      * apply (frame_setup_finish st (OSetup c id clean) st1 c id clean W W').
        -- intros k; destruct k; reflexivity.
        -- exact (T1 c H).
        -- intros b1. cbn [completes]. rewrite Hid, orb_false_r. destruct clean; reflexivity.
        -- intros b1 k. cbn [deleted]. destruct clean; [rewrite Hid; reflexivity|reflexivity].
        -- exact I.
      * apply (frame_setup_finish st (OSetup c id clean) st1 c id clean W W').
        -- intros k; destruct k; reflexivity.
        -- exact (T1 c H).
        -- intros b1. cbn [completes]. rewrite Hid, orb_false_r. destruct clean; reflexivity.
        -- intros b1 k. cbn [deleted]. destruct clean; [rewrite Hid; reflexivity|reflexivity].
        -- exact I.
  - (* SetupEnd *)
    unfold setup_end in *. destruct (st_pending st) as [p|] eqn:P; [|same_tac W W'; cbn; rewrite P; reflexivity].
    destruct t.
    { cbn [snd] in W'. unfold set_pending in *. same_tac W W'. }
    destruct (mem_n (p_old p) (st_closed st)); [|same_tac W W'].
    apply (frame_setup_finish st (OSetupEnd false) st (p_conn p) (p_id p) (p_clean p) W W').
    + reflexivity.
    + exact (proj1 (T2 p eq_refl)).
    + intros b1. cbn [completes]. rewrite P. reflexivity.
    + intros b1 k. cbn [deleted]. rewrite P. reflexivity.
    + exact I.
  - unfold mark_closed in *. destruct (mem_n c (st_term st)); same_tac W W'.
  - unfold subscribe in *. destruct (session_of st c) as [[k s]|] eqn:S; [|same_tac W W'].
    destruct (negb _); [same_tac W W'|].
    cbn [fst snd]. apply (frame_put st _ _ k s _ W (session_of_get _ _ _ _ S)); try reflexivity.
    + destruct (Nat.leb _ _); reflexivity.
    + intros; discriminate.
    + left. cbn [subs_may_change]. exact (holder_of _ _ _ _ S).
  - unfold unsubscribe in *. destruct (session_of st c) as [[k s]|] eqn:S; [|same_tac W W'].
    cbn [fst snd]. apply (frame_put st _ _ k s _ W (session_of_get _ _ _ _ S)); try reflexivity.
    + intros; discriminate.
    + left. cbn [subs_may_change]. exact (holder_of _ _ _ _ S).
  - (* Publish *)
    rewrite publish_unfold in *. destruct (pub_stuck st c m) eqn:Hnb.
    + same_tac W W'. destruct (own_refused st c m); reflexivity.
    + cbn [fst snd] in *.
      assert (Gp : forall k, get_session (snd (publish st c m got)) k =
                  option_map (fun s => deliver (pub_err st c m) got k (classify st c m s) m s) (get_session st k))
        by (intros k; apply (get_session_published st c m got k Hnb)).
      rewrite publish_unfold, Hnb in Gp. cbn [snd] in Gp.
      assert (Dsub : forall e k a s, s_subs (deliver e got k a m s) = s_subs s /\ s_act (deliver e got k a m s) = s_act s).
      { intros e k a s. unfold deliver. destruct a; auto; destruct e; auto; try (destruct (mem_key k got); auto);
          unfold enqueue; destruct (use_temp m); auto. }
      unfold frame_ok. rewrite andb_true_r.
      apply andb_true_iff; split; apply forallb_forall; intros [k s] Hin; cbn [fst snd].
      * rewrite Gp, (sessions_get st k s W Hin). cbn [option_map].
        destruct (Dsub (pub_err st c m) k (classify st c m s) s) as [D1 D2]. rewrite D1, D2, subs_eqb_refl.
        cbn [subs_may_change orb andb]. unfold act_after. destruct (pub_err st c m); cbn [completes]; apply act_eqb_refl.
      * pose proof (sessions_get _ k s W' Hin) as G'. rewrite Gp in G'. destruct (get_session st k); [reflexivity|discriminate].
  - unfold dequeue in *. destruct (session_of st c) as [[k s]|] eqn:S; [|same_tac W W'].
    destruct t; [destruct (s_tq s)|destruct (s_sq s)]; try (same_tac W W');
      cbn [fst snd]; apply (frame_put st _ _ k s _ W (session_of_get _ _ _ _ S)); try reflexivity;
      try (intros; discriminate); right; reflexivity.
  - (* Terminate *)
    unfold terminate in *. destruct (alookup N.eqb c (st_cid st)) as [id|]; [|same_tac W W'].
    destruct (mem_n c (st_term st) || _); [same_tac W W'|].
    cbn [fst snd] in *.
    unfold frame_ok. apply andb_true_iff; split.
    2:{ cbn [get_session st_temps]. rewrite (alookup_aremove N.eqb N.eqb_eq), N.eqb_refl. reflexivity. }
    apply andb_true_iff; split; apply forallb_forall; intros [k s] Hin; cbn [fst snd].
    + pose proof (sessions_get st k s W Hin) as G. cbn [subs_may_change orb]. unfold act_after. cbn [completes deleted].
      unfold holder. destruct k as [x|i]; cbn [get_session st_temps st_stored skey_eqb] in *.
      * rewrite (alookup_aremove N.eqb N.eqb_eq). destruct (x =? c) eqn:E; [reflexivity|].
        rewrite G, subs_eqb_refl. cbn [andb].
        destruct (alookup N.eqb c (st_sess st)) as [[y|j]|] eqn:Sc; cbn [option_eqb skey_eqb andb]; try apply act_eqb_refl.
        pose proof (o_shape _ O c y Sc) as ->. rewrite N.eqb_sym, E. apply act_eqb_refl.
      * destruct (alookup N.eqb c (st_sess st)) as [[y|j]|] eqn:Sc; cbn [option_eqb skey_eqb andb];
          try (rewrite G, subs_eqb_refl; apply act_eqb_refl).
        destruct (alookup bytes_eqb j (st_stored st)) as [s0|] eqn:L.
        -- destruct (bytes_eqb j i) eqn:E.
           ++ apply bytes_eqb_eq in E; subst j. rewrite L in G; injection G as <-.
              destruct (option_eqb N.eqb (s_act s0) (Some c)) eqn:Ea.
              ** rewrite (alookup_aset bytes_eqb bytes_eqb_eq), bytes_eqb_refl. cbn [s_subs s_act]. rewrite subs_eqb_refl. reflexivity.
              ** rewrite L, subs_eqb_refl. apply act_eqb_refl.
           ++ cbn [andb]. destruct (option_eqb N.eqb (s_act s0) (Some c)).
              ** rewrite (alookup_aset bytes_eqb bytes_eqb_eq), (bytes_eqb_comm i j), E, G, subs_eqb_refl. apply act_eqb_refl.
              ** rewrite G, subs_eqb_refl. apply act_eqb_refl.
        -- rewrite G, subs_eqb_refl. cbn [andb]. destruct (bytes_eqb j i) eqn:E; [|apply act_eqb_refl].
           apply bytes_eqb_eq in E; subst j. congruence.
    + pose proof (sessions_get _ k s W' Hin) as G'. destruct k as [x|i]; cbn [get_session st_temps st_stored] in *.
      * rewrite (alookup_aremove N.eqb N.eqb_eq) in G'. destruct (x =? c); [discriminate|rewrite G'; reflexivity].
      * destruct (alookup N.eqb c (st_sess st)) as [[y|j]|]; try (rewrite G'; reflexivity).
        destruct (alookup bytes_eqb j (st_stored st)) as [s0|] eqn:L; [|rewrite G'; reflexivity].
        destruct (option_eqb N.eqb (s_act s0) (Some c)); [|rewrite G'; reflexivity].
        rewrite (alookup_aset bytes_eqb bytes_eqb_eq) in G'. destruct (bytes_eqb i j) eqn:E; [|rewrite G'; reflexivity].
        apply bytes_eqb_eq in E; subst j. rewrite L. reflexivity.
  - unfold close_backend in *. same_tac W W'.
Qed.

Theorem frame_along cap ops :
  Forall (fun x => let '(st, o, r, st') := x in frame_ok st o r st' = true) (trace (init cap) ops).
Proof.
  assert (G : forall ops st, wf st -> Own st -> TempsOk st ->
              Forall (fun x => let '(st, o, r, st') := x in frame_ok st o r st' = true) (trace st ops)).
  { clear. induction ops as [|o ops IH]; intros st W O T; cbn [trace]; [constructor|].
    pose proof (step_frame_ok st o W O T) as X. pose proof (wf_step st o W) as W1.
    pose proof (tempsok_step st o T) as T1. pose proof (own_step st o O) as O1.
    destruct (step st o) as [r st1]. cbn [fst snd] in *. constructor; [exact X|apply IH; assumption]. }
  apply G; [apply wf_init|apply own_init|apply tempsok_init].
Qed.
