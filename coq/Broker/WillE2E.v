(* WillE2E.v — the will, end to end: definitions.

   Property C12 is decided in two places: the connection clause c12_will (Broker/ConnSpec.v: the
   cleanup of a connection hands the will to the backend exactly once iff the client had been
   accepted and sent no DISCONNECT) and the backend theorems about a Publish (Props/C06.v,
   Props/C11.v: delivered to the sessions matching at that moment, retained store updated).  This
   file defines what is needed to put them together over a composed run, with the glue of
   Broker/EndToEnd.v:

       connection trace esW (model BC) --glue_publish--> backend history (model MB)
                                        --glue_dequeue--> subscriber's connection trace esS (model BC)

     * the facts of a connection read off its trace, in the vocabulary of c12_will (the record wl_st:
       goroutines that received, will of the opening CONNECT, authentication, Setup, DISCONNECT,
       number of Publish calls of the cleanup): obs, will_of, connect_accepted, disconnected, ended,
       ended_uncleanly, will_due, will_pubs, by_cleanup, closing.  A trace is a session lifetime
       (ENewConn ... EClosed)*; all of them speak about its LAST connection;
     * one more clause of BC per connection, will_link: the books of c12_will and c20_closes together
       with three facts they do not state — the cleanup publishes the will only after the transport
       was closed; once it has, nothing more is handed to the backend on that connection; after
       EClosed nothing of the connection happens any more;
     * the will's Publish as a step of the backend history (will_returned, will_step_spec,
       will_copies, elsewhere).

   Definitions only; the theorems are in Broker/WillE2EProofs.v, the statements in Props/C12_e2e.v. *)
From Coq Require Import List NArith Bool.
From Coq.Strings Require Import Byte.
From GM Require Import Codec.Packet.
(* Backend.v and Conn.v both define step / state / session ...: the backend is used qualified *)
From GM Require Broker.Backend Broker.BackendSpec Broker.BackendProofsHist Broker.BackendLog.
From GM Require Import Session.Store Broker.Conn Broker.ConnSpec Broker.ConnSpec6 Broker.EndToEnd.
Import ListNotations.
Open Scope N_scope.

(* ------------------------------------------------------------------ one connection trace *)

(* The books of c12_will, kept without judging: wl_step (ConnSpec.v) updates the record wl_st at
   every event and answers None where the clause is violated — at a Publish of the cleanup, at
   Terminate, at Closed.  wl_obs keeps the same books (it IS wl_step on every other event, where
   wl_step never fails) and merely counts at those three.  ENewConn resets the books, so after a
   trace they describe its last connection. *)
Definition wl_obs (t : wl_st) (e : event) : wl_st :=
  match e with
  | EPub g _ None =>
      if nmem g (wl_procs t) then t                          (* a QoS 0 publish by the processor *)
      else WlSt (wl_procs t) (wl_will t) (wl_auth t) (wl_setup t) (wl_disc t) (wl_pubs t + 1) (wl_terms t)
  | ETerm _ _ => WlSt (wl_procs t) (wl_will t) (wl_auth t) (wl_setup t) (wl_disc t) (wl_pubs t) (wl_terms t + 1)
  | EClosed => t
  | _ => match wl_step t e with Some t' => t' | None => t end
  end.
Definition obs (es : list event) : wl_st := fold_left wl_obs es wl_new.

(* the will announced by the CONNECT that opened the connection (its first received packet) *)
Definition will_of (es : list event) : option message := wl_will (obs es).
(* the CONNECT was accepted: the backend's Setup succeeded (the connection calls Setup only after
   Authenticate succeeded: C20_gate) — not: authentication denied or failed, Setup failed *)
Definition connect_accepted (es : list event) : bool := wl_setup (obs es).
(* a DISCONNECT was received on the accepted connection *)
Definition disconnected (es : list event) : bool := wl_disc (obs es).
(* the connection has ended: its closed signal fired (EClosed) *)
Definition ended (es : list event) : bool :=
  fold_left (fun b e => match e with ENewConn => false | EClosed => true | _ => b end) es false.
(* ... for any reason other than a received DISCONNECT: connection loss, keep-alive expiry, protocol
   error, takeover, broker shutdown — in BC all of them are orders of the same events *)
Definition ended_uncleanly (es : list event) : bool := ended es && negb (disconnected es).
(* the will that is due: the client connected successfully with a will and ended without DISCONNECT
   (the `due` of c12_will's EClosed case, once the connection has ended) *)
Definition will_due (es : list event) : option message :=
  if connect_accepted es && ended_uncleanly es then will_of es else None.
(* how many Publish calls the cleanup of the connection has made (a Publish without acknowledgement
   closure by a goroutine that received nothing on the connection: what c12_will counts) *)
Definition will_pubs (es : list event) : N := wl_pubs (obs es).
(* after es1, g is not a processor of the connection: it has received nothing on it *)
Definition by_cleanup (es1 : list event) (g : N) : bool := negb (nmem g (wl_procs (obs es1))).
(* the transport of the connection has been closed by the client object (conn.Close: by a dying
   coroutine, by the DISCONNECT handling, or from outside — takeover, shutdown): it is dying *)
Definition closing (es : list event) : bool :=
  fold_left (fun b e => match e with ENewConn => false | EConnClose _ => true | _ => b end) es false.

(* (a) of the composition: the connection hands the will m to the backend exactly once — the only
   Publish of its cleanup — with exactly that message, when its transport has been closed, and
   hands nothing to the backend afterwards (es2 is the rest of that connection) *)
Definition will_handed_once (es : list event) (m : message) (es1 : list event) (g : N) (es2 : list event) : Prop :=
  es = es1 ++ EPub g m None :: es2 /\
  will_pubs es1 = 0 /\ by_cleanup es1 g = true /\ will_pubs es = 1 /\
  closing es1 = true /\
  published es2 = [] /\ ~ In ENewConn es2.

(* ------------------------------------------------------------------ the clause will_link of BC *)

(* events that may follow EClosed before the next connection: acknowledgement closures the backend
   still invokes (they belong to the session lifetime, not to the connection) *)
Definition after_end_ok (e : event) : bool :=
  match e with
  | EAckCall _ _ | EAckRet _ _ | EDelete _ _ _ _ | EDie _ _ | EConnClose _ => true
  | _ => false
  end.

Record we_st := WeSt {
  we_wl : wl_st;          (* the books of c12_will *)
  we_cl : cl_st;          (* the books of c20_closes (transport closed?) *)
  we_end : bool }.        (* EClosed seen on this connection *)
Definition we_new : we_st := WeSt wl_new (ClSt true false false) false.

(* will_link: c12_will and c20_closes hold, and
     - a Publish happens only while the cleanup has not published (the will is the last thing the
       connection hands to the backend) and the connection has not ended;
     - the cleanup publishes only after the transport was closed;
     - the connection ends once, and after EClosed only leftover closures run until ENewConn. *)
Definition we_step (x : we_st) (e : event) : option we_st :=
  match wl_step (we_wl x) e, cl_step (we_cl x) e with
  | Some t, Some c =>
      match e with
      | ENewConn => Some (WeSt t c false)
      | EClosed => if we_end x then None else Some (WeSt t c true)
      | EPub g _ k =>
          if negb (we_end x) && (wl_pubs (we_wl x) =? 0) &&
             match k with
             | Some _ => true
             | None => nmem g (wl_procs (we_wl x)) || cl_closed (we_cl x)
             end
          then Some (WeSt t c (we_end x)) else None
      | _ => if negb (we_end x) || after_end_ok e then Some (WeSt t c (we_end x)) else None
      end
  | _, _ => None
  end.
Definition will_link (es : list event) : bool := scan we_step we_new es.

(* ------------------------------------------------------------------ the will's Publish in a backend history *)

(* The will is the last message the connection trace hands to the backend (will_handed_once), and the
   glue identifies the Publish calls of the history with the EPub events of the trace in order
   (glue_publish: pub_calls is a prefix of published).  So the will's call has returned in the history
   iff the history shows as many returned Publish calls of the clients as the trace shows EPub
   events — and then it is the last one of them. *)
Definition will_returned (cPs : list N) (esW : list event) (tr : list bstep) : Prop :=
  length (pub_calls cPs tr) = length (published esW).

Definition is_ok (r : Backend.result) : bool := match r with Backend.ROk => true | _ => false end.

(* the copy of m a session receives: topic, payload, QoS as published, retain flag cleared
   (the QoS is capped to the granted one when the session's connection dequeues it: C06_qos) *)
Definition live (m : message) : message := Msg (m_topic m) (m_payload m) (m_qos m) false.

(* (b) of the composition: what the backend does with the will's Publish, as a statement about the
   observed step x = (state, operation, result, next state).
     - the call returns nil or ErrQueueFull; ErrQueueFull exactly when own_full: the backend does NOT
       see the publisher as closing (c not in st_dying), its own session holds a matching filter and
       its own queue for this message is full — then nothing at all has changed (no delivery, the
       retained store untouched: the will is lost).  A publisher the backend sees as closing is
       never refused;
     - on nil the retained store is updated as MQTT 3.3.1.3 says (ret_spec: set if retain and
       payload, deleted if retain and no payload, untouched if not retain);
     - on nil every session k gets, on the queue of the message's QoS class, exactly one copy
       (live m) iff it holds a matching filter at that moment and that queue has room; its
       subscriptions, its other queue are unchanged;
     - the exception, stated rather than hidden: a session with a matching filter and a FULL queue gets
       nothing although the call returns nil only if it is offline or its connection is closing
       (st_dying) — this includes the dying publisher's OWN session (fix d814c38 / 25be3de: a closing
       publisher's own full queue is skipped): then s_act s = Some c and c is in st_dying. *)
Definition will_step_spec (m : message) (x : bstep) : Prop :=
  exists st c got r st1,
    x = (st, Backend.OPublish c m got, r, st1) /\
    (r = Backend.ROk \/ r = Backend.RQueueFull) /\
    (r = Backend.RQueueFull <-> BackendSpec.own_full st c m = true) /\
    (Backend.mem_n c (Backend.st_dying st) = true -> r = Backend.ROk) /\
    (r = Backend.RQueueFull -> st1 = st) /\
    (forall t, Backend.alookup bytes_eqb t (Backend.st_retained st1) =
               if is_ok r then BackendSpec.ret_spec m (Backend.st_retained st) t
               else Backend.alookup bytes_eqb t (Backend.st_retained st)) /\
    (forall k s, Backend.get_session st k = Some s ->
       exists s1, Backend.get_session st1 k = Some s1 /\
         Backend.s_subs s1 = Backend.s_subs s /\
         (forall temp, BackendLog.queue temp s1 =
                       BackendLog.queue temp s ++ BackendLog.enq_event k temp st (Backend.OPublish c m got) r) /\
         (forall temp, BackendLog.enq_event k temp st (Backend.OPublish c m got) r =
                       if is_ok r && Bool.eqb (Backend.use_temp m) temp &&
                          BackendSpec.has_match (Backend.s_subs s) (m_topic m) &&
                          negb (Backend.is_full (Backend.st_cap st) (BackendLog.queue temp s))
                       then [live m] else []) /\
         (r = Backend.ROk -> BackendSpec.has_match (Backend.s_subs s) (m_topic m) = true ->
          Backend.is_full (Backend.st_cap st) (BackendLog.queue (Backend.use_temp m) s) = true ->
          Backend.s_act s = None \/
          exists c', Backend.s_act s = Some c' /\ Backend.mem_n c' (Backend.st_dying st) = true)).

(* the copies of the will the step enqueues for session k (on either queue) *)
Definition will_copies (k : Backend.skey) (x : bstep) : list message :=
  let '(st, o, r, _) := x in BackendLog.enq_event k true st o r ++ BackendLog.enq_event k false st o r.

(* how often the rest of the history (tr1 before, tr2 after the will's step) enqueues a message with
   topic t and payload p for session k: other Publishes of the same content, the retained replay of a
   Subscribe (a retained will is replayed to later subscribers like any retained message) *)
Definition elsewhere (k : Backend.skey) (t p : bytes) (tr1 tr2 : list bstep) : nat :=
  (count_key t p (enqueued k true tr1) + count_key t p (enqueued k false tr1) +
   count_key t p (enqueued k true tr2) + count_key t p (enqueued k false tr2))%nat.

(* a step of the history that is a returned Publish call of one of the clients cPs, and its message
   (pub_calls cPs tr lists these messages in order) *)
Definition pub_call_of (cPs : list N) (x : bstep) : option message :=
  match x with
  | (_, Backend.OPublish c m _, r, _) => if Backend.mem_n c cPs && returned r then Some m else None
  | _ => None
  end.

(* "nothing else brings the will's content to session k", decidable on a history: exactly one returned
   Publish of the clients cPs carries the message m (the client did not also send its will's content as
   an ordinary PUBLISH), and no other step enqueues a message with m's topic and payload for session k
   (no other publisher sends the same content, no Subscribe on k replays it from the retained store) *)
Definition enq_here (k : Backend.skey) (t p : bytes) (x : bstep) : nat :=
  (count_key t p (enqueued k true [x]) + count_key t p (enqueued k false [x]))%nat.
Definition is_will_call (cPs : list N) (m : message) (x : bstep) : bool :=
  match pub_call_of cPs x with Some m' => message_eqb m' m | None => false end.
Definition will_fresh (cPs : list N) (k : Backend.skey) (m : message) (tr : list bstep) : bool :=
  Nat.eqb (length (filter (is_will_call cPs m) tr)) 1 &&
  forallb (fun x => is_will_call cPs m x || Nat.eqb (enq_here k (m_topic m) (m_payload m) x) 0) tr.
