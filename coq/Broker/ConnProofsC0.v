(* ConnProofsC0.v — shared infrastructure for the C08 / C16 proofs about the
   broker-connection model BC (Conn.v): decidable-equality lemmas, association
   list lemmas, inversion of [step] into the sub-step that fired, inversion
   tactics, and the basic model invariant INV. *)
From Coq Require Import List NArith Bool Lia ZArith ZifyN ZifyBool.
From Coq.Strings Require Import Byte.
From GM Require Import Base.Lts Codec.Packet Session.Ids Session.Store Session.StoreProofs
  Broker.Conn Broker.ConnSpec Broker.ConnBase.
Import ListNotations.
Open Scope N_scope.

(* ------------------------------------------------------- boolean equalities *)

Lemma bytes_eqb_eq a : forall b, bytes_eqb a b = true -> a = b.
Proof.
  induction a as [|x a IH]; intros [|y b] H; cbn [bytes_eqb] in H; try discriminate H; [reflexivity|].
  apply andb_prop in H as [H1 H2]. apply byte_dec_bl in H1. apply IH in H2. congruence.
Qed.

Lemma message_eqb_eq a b : message_eqb a b = true -> a = b.
Proof.
  unfold message_eqb. intros H.
  apply andb_prop in H as [H H4]. apply andb_prop in H as [H H3]. apply andb_prop in H as [H1 H2].
  apply bytes_eqb_eq in H1. apply bytes_eqb_eq in H2. apply N.eqb_eq in H3. apply Bool.eqb_prop in H4.
  destruct a, b; cbn in *; congruence.
Qed.

Lemma packet_eqb_publish_l d m i q : packet_eqb (Publish d m i) q = true -> q = Publish d m i.
Proof.
  destruct q; cbn [packet_eqb]; try discriminate. intros H.
  apply andb_prop in H as [H H3]. apply andb_prop in H as [H1 H2].
  apply Bool.eqb_prop in H1. apply message_eqb_eq in H2. apply N.eqb_eq in H3. congruence.
Qed.

Lemma packet_eqb_publish_r d m i q : packet_eqb q (Publish d m i) = true -> q = Publish d m i.
Proof.
  destruct q; cbn [packet_eqb]; try discriminate. intros H.
  apply andb_prop in H as [H H3]. apply andb_prop in H as [H1 H2].
  apply Bool.eqb_prop in H1. apply message_eqb_eq in H2. apply N.eqb_eq in H3. congruence.
Qed.

Lemma bytes_eqb_refl a : bytes_eqb a a = true.
Proof. induction a as [|x a IH]; cbn [bytes_eqb]; [reflexivity|]. rewrite IH, (byte_dec_lb eq_refl). reflexivity. Qed.

Lemma message_eqb_refl a : message_eqb a a = true.
Proof. unfold message_eqb. rewrite !bytes_eqb_refl, N.eqb_refl, Bool.eqb_reflx. reflexivity. Qed.

Lemma packet_eqb_publish_refl d m i : packet_eqb (Publish d m i) (Publish d m i) = true.
Proof. cbn [packet_eqb]. rewrite Bool.eqb_reflx, message_eqb_refl, N.eqb_refl. reflexivity. Qed.

(* a packet equal (packet_eqb) to an acknowledgement packet is one *)
Lemma packet_eqb_is_ack x p : packet_eqb x p = true -> is_ack_packet x = true -> is_ack_packet p = true.
Proof. destruct x, p; cbn [packet_eqb is_ack_packet]; intros H1 H2; try discriminate H1; try discriminate H2; reflexivity. Qed.

(* what [set_dup] can produce *)
Lemma set_dup_not_fresh p m i : set_dup p <> Publish false m i.
Proof. destruct p; cbn [set_dup]; discriminate. Qed.

(* ------------------------------------------------------- association lists *)

Lemma aget_filter_ne {A} (l : list (N * A)) k j :
  j <> k -> aget (filter (fun e => negb (fst e =? k)) l) j = aget l j.
Proof.
  intros Hne. induction l as [|[i v] l IH]; cbn [filter aget fst]; [reflexivity|].
  destruct (N.eqb_spec i k) as [->|Hik]; cbn [negb].
  - destruct (N.eqb_spec j k); [contradiction|exact IH].
  - cbn [aget]. rewrite IH. reflexivity.
Qed.

Lemma aget_filter_eq {A} (l : list (N * A)) k :
  aget (filter (fun e => negb (fst e =? k)) l) k = None.
Proof.
  induction l as [|[i v] l IH]; cbn [filter aget fst]; [reflexivity|].
  destruct (N.eqb_spec i k) as [->|Hik]; cbn [negb]; [exact IH|].
  cbn [aget]. destruct (N.eqb_spec k i); [congruence|exact IH].
Qed.

Lemma aget_aput {A} (l : list (N * A)) k v j :
  aget (aput l k v) j = if j =? k then Some v else aget l j.
Proof.
  unfold aput. cbn [aget]. destruct (N.eqb_spec j k) as [->|Hne]; [reflexivity|].
  apply aget_filter_ne. exact Hne.
Qed.

Lemma aget_aput_same {A} (l : list (N * A)) k v : aget (aput l k v) k = Some v.
Proof. rewrite aget_aput, N.eqb_refl. reflexivity. Qed.

Lemma aget_aput_other {A} (l : list (N * A)) k v j : j <> k -> aget (aput l k v) j = aget l j.
Proof. intros H. rewrite aget_aput. destruct (N.eqb_spec j k); [contradiction|reflexivity]. Qed.

Lemma aget_adel {A} (l : list (N * A)) k j :
  aget (adel l k) j = if j =? k then None else aget l j.
Proof.
  unfold adel. destruct (N.eqb_spec j k) as [->|Hne]; [apply aget_filter_eq|apply aget_filter_ne; exact Hne].
Qed.

Lemma nmem_true_iff k l : nmem k l = true <-> In k l.
Proof.
  unfold nmem. rewrite existsb_exists. split.
  - intros (x & Hx & E). apply N.eqb_eq in E. subst. exact Hx.
  - intros H. exists k. split; [exact H|apply N.eqb_refl].
Qed.

Lemma nremove1_length k l : nmem k l = true -> S (length (nremove1 k l)) = length l.
Proof.
  induction l as [|x l IH]; cbn [nmem existsb nremove1 length]; [discriminate|].
  rewrite N.eqb_sym. destruct (N.eqb_spec x k) as [->|Hne]; cbn [orb length]; [reflexivity|].
  intros H. f_equal. apply IH. exact H.
Qed.

(* -------------------------------------------------------- inversion tactics *)

(* reduce projections of explicitly updated states *)
Ltac bcsimpl :=
  cbn [conn_no sess clos gproc gdeq gack gcl ph pp dp ap lp dying will cw cpp cps tdeq tpub tsub ackq
       set_pp set_dp set_ap set_lp set_sess set_clos set_dying set_tok set_ackq set_ph set_roles
       put_deq put_pub put_sub sess_save sess_delete freeze new_conn die_p] in *.

(* peel all the matches of a hypothesis  H : <nested matches> = Some _ *)
Ltac inv_step H :=
  cbv beta iota zeta in H;
  repeat (match type of H with
          | match ?x with _ => _ end = Some _ => destruct x eqn:?; cbv beta iota zeta in H; try discriminate H
          end).

Lemma take_deq_inv s s1 : take_deq s = Some s1 -> 0 < tdeq s /\ s1 = set_tok s (tdeq s - 1) (tpub s) (tsub s).
Proof. unfold take_deq. destruct (N.ltb_spec 0 (tdeq s)) as [Hlt|Hge]; [|discriminate]. intros H; injection H as <-. split; [exact Hlt|reflexivity]. Qed.
Lemma take_pub_inv s s1 : take_pub s = Some s1 -> 0 < tpub s /\ s1 = set_tok s (tdeq s) (tpub s - 1) (tsub s).
Proof. unfold take_pub. destruct (N.ltb_spec 0 (tpub s)) as [Hlt|Hge]; [|discriminate]. intros H; injection H as <-. split; [exact Hlt|reflexivity]. Qed.
Lemma take_sub_inv s s1 : take_sub s = Some s1 -> 0 < tsub s /\ s1 = set_tok s (tdeq s) (tpub s) (tsub s - 1).
Proof. unfold take_sub. destruct (N.ltb_spec 0 (tsub s)) as [Hlt|Hge]; [|discriminate]. intros H; injection H as <-. split; [exact Hlt|reflexivity]. Qed.
Lemma clo_reg_inv s k a s1 : clo_reg s k a = Some s1 -> s1 = set_clos s (clos s ++ [Clo k (conn_no s) a CReg]).
Proof. unfold clo_reg. destruct (clo_find (clos s) k); [discriminate|]. intros H; injection H as <-. reflexivity. Qed.

(* replace the results of token/closure helpers by explicit terms *)
Ltac inv_helpers :=
  repeat match goal with
         | H : take_deq _ = Some _ |- _ => apply take_deq_inv in H; destruct H as [? ->]
         | H : take_pub _ = Some _ |- _ => apply take_pub_inv in H; destruct H as [? ->]
         | H : take_sub _ = Some _ |- _ => apply take_sub_inv in H; destruct H as [? ->]
         | H : clo_reg _ _ _ = Some _ |- _ => apply clo_reg_inv in H; rewrite H in *; clear H
         end.

(* ------------------------------------------------------ inversion of [step] *)

(* learning a role changes nothing but the role table *)
Definition learned (s s1 : bc) : Prop :=
  s1 = s \/
  exists g, role_free s g = true /\
    ((gproc s = None /\ s1 = set_roles s (Some g) (gdeq s) (gack s) (gcl s)) \/
     (gdeq s = None /\ s1 = set_roles s (gproc s) (Some g) (gack s) (gcl s)) \/
     (gack s = None /\ s1 = set_roles s (gproc s) (gdeq s) (Some g) (gcl s)) \/
     (gcl s = None /\ s1 = set_roles s (gproc s) (gdeq s) (gack s) (Some g))).

Inductive fired (s : bc) (e : event) (s' : bc) : Prop :=
| F_new : e = ENewConn -> conn_open s = false -> s' = new_conn s -> fired s e s'
| F_mark : e = ECloseReq -> conn_open s = true -> s' = s -> fired s e s'
| F_quiet : e = EQuiescent -> quiescent s = true -> s' = s -> fired s e s'
| F_clo : step_clo s e = Some s' -> fired s e s'
| F_proc g s1 : ev_g e = Some g -> learned s s1 -> gproc s1 = Some g -> conn_open s = true ->
                step_proc s1 e = Some s' -> fired s e s'
| F_deq g s1 : ev_g e = Some g -> learned s s1 -> gdeq s1 = Some g -> conn_open s = true ->
               gproc s1 <> Some g -> step_deq s1 e = Some s' -> fired s e s'
| F_ack g s1 : ev_g e = Some g -> learned s s1 -> gack s1 = Some g -> conn_open s = true ->
               gproc s1 <> Some g -> gdeq s1 <> Some g -> step_ack s1 e = Some s' -> fired s e s'
| F_cl g s1 : ev_g e = Some g -> learned s s1 -> gcl s1 = Some g -> conn_open s = true ->
              step_cleanup s1 e = Some s' -> fired s e s'
| F_closed : e = EClosed -> step_cleanup s e = Some s' -> fired s e s'
| F_kill g : e = EConnClose g -> conn_open s = true -> s' = set_dying s -> fired s e s'.

Lemma is_role_true r g : is_role r g = true -> r = Some g.
Proof. destruct r as [g'|]; cbn [is_role]; [|discriminate]. intros H. apply N.eqb_eq in H. congruence. Qed.
Lemma is_role_false r g : is_role r g = false -> r <> Some g.
Proof. destruct r as [g'|]; cbn [is_role]; [|discriminate]. intros H E. injection E as ->. rewrite N.eqb_refl in H. discriminate. Qed.

Lemma role_free_inv s g : role_free s g = true ->
  gproc s <> Some g /\ gdeq s <> Some g /\ gack s <> Some g /\ gcl s <> Some g.
Proof.
  unfold role_free. intros H. apply negb_true_iff in H.
  apply orb_false_iff in H as [H H4]. apply orb_false_iff in H as [H H3]. apply orb_false_iff in H as [H1 H2].
  repeat split; apply is_role_false; assumption.
Qed.

Lemma learn_proc_inv s g s1 : is_role (gproc s) g = false -> learn_proc s g = Some s1 ->
  learned s s1 /\ gproc s1 = Some g /\ gdeq s1 = gdeq s /\ gack s1 = gack s.
Proof.
  unfold learn_proc, guard. intros Hr. destruct (gproc s) as [g'|] eqn:E.
  - cbn [is_role] in Hr. rewrite Hr. discriminate.
  - destruct (role_free s g) eqn:Ef; [|discriminate]. intros H; injection H as <-.
    split; [right; exists g; split; [exact Ef|left; split; [exact E|reflexivity]]|]. repeat split.
Qed.
Lemma learn_deq_inv s g s1 : is_role (gdeq s) g = false -> learn_deq s g = Some s1 ->
  learned s s1 /\ gdeq s1 = Some g /\ gproc s1 = gproc s /\ gack s1 = gack s.
Proof.
  unfold learn_deq, guard. intros Hr. destruct (gdeq s) as [g'|] eqn:E.
  - cbn [is_role] in Hr. rewrite Hr. discriminate.
  - destruct (role_free s g) eqn:Ef; [|discriminate]. intros H; injection H as <-.
    split; [right; exists g; split; [exact Ef|right; left; split; [exact E|reflexivity]]|]. repeat split.
Qed.
Lemma learn_ack_inv s g s1 : is_role (gack s) g = false -> learn_ack s g = Some s1 ->
  learned s s1 /\ gack s1 = Some g /\ gproc s1 = gproc s /\ gdeq s1 = gdeq s.
Proof.
  unfold learn_ack, guard. intros Hr. destruct (gack s) as [g'|] eqn:E.
  - cbn [is_role] in Hr. rewrite Hr. discriminate.
  - destruct (role_free s g) eqn:Ef; [|discriminate]. intros H; injection H as <-.
    split; [right; exists g; split; [exact Ef|right; right; left; split; [exact E|reflexivity]]|]. repeat split.
Qed.
Lemma learn_cl_inv s g s1 : is_role (gcl s) g = false -> learn_cl s g = Some s1 ->
  learned s s1 /\ gcl s1 = Some g.
Proof.
  unfold learn_cl, guard. intros Hr. destruct (gcl s) as [g'|] eqn:E.
  - cbn [is_role] in Hr. rewrite Hr. discriminate.
  - destruct (role_free s g) eqn:Ef; [|discriminate]. intros H; injection H as <-.
    split; [right; exists g; split; [exact Ef|right; right; right; split; [exact E|reflexivity]]|]. reflexivity.
Qed.

Lemma conn_open_negb s : negb (conn_open s) = false -> conn_open s = true.
Proof. destruct (conn_open s); [reflexivity|discriminate]. Qed.

(* the generic branch of [step] for an event of goroutine g *)
Lemma step_generic_inv s e g s' (tail : option bc) :
  ev_g e = Some g -> conn_open s = true ->
  first_some (step_clo s e)
    (if in_closure s g then None
     else if is_role (gproc s) g then step_proc s e
     else if is_role (gdeq s) g then step_deq s e
     else if is_role (gack s) g then step_ack s e
     else if is_role (gcl s) g then step_cleanup s e
     else tail) = Some s' ->
  (is_role (gproc s) g = false -> is_role (gdeq s) g = false -> is_role (gack s) g = false ->
   is_role (gcl s) g = false -> tail = Some s' -> fired s e s') ->
  fired s e s'.
Proof.
  intros Hg Ho H Htail. unfold first_some in H.
  destruct (step_clo s e) as [x|] eqn:Ec; [injection H as <-; apply F_clo; exact Ec|].
  destruct (in_closure s g); [discriminate H|].
  destruct (is_role (gproc s) g) eqn:Ep.
  { apply is_role_true in Ep. eapply F_proc; [exact Hg|left; reflexivity|exact Ep|exact Ho|exact H]. }
  destruct (is_role (gdeq s) g) eqn:Ed.
  { apply is_role_true in Ed. apply is_role_false in Ep.
    eapply F_deq; [exact Hg|left; reflexivity|exact Ed|exact Ho|exact Ep|exact H]. }
  destruct (is_role (gack s) g) eqn:Ea.
  { apply is_role_true in Ea. apply is_role_false in Ep. apply is_role_false in Ed.
    eapply F_ack; [exact Hg|left; reflexivity|exact Ea|exact Ho|exact Ep|exact Ed|exact H]. }
  destruct (is_role (gcl s) g) eqn:El.
  { apply is_role_true in El. eapply F_cl; [exact Hg|left; reflexivity|exact El|exact Ho|exact H]. }
  apply Htail; try reflexivity. exact H.
Qed.

Ltac step_generic H :=
  match type of H with
  | (if negb (conn_open ?s) then _ else _) = Some _ =>
      let Eo := fresh "Eo" in
      destruct (negb (conn_open s)) eqn:Eo; [apply F_clo; exact H|];
      apply conn_open_negb in Eo;
      cbn [ev_g] in H;
      eapply step_generic_inv; [cbn [ev_g]; reflexivity|exact Eo|exact H|]
  end.

Lemma step_inv s e s' : step s e = Some s' -> fired s e s'.
Proof.
  intros H. unfold step in H.
  destruct e; try (step_generic H; intros Ep Ed Ea El Ht; try discriminate Ht).
  - (* ENewConn *) destruct (conn_open s) eqn:Eo; [discriminate|]. injection H as <-. apply F_new; reflexivity || assumption.
  - (* ERx *) unfold bind in Ht. destruct (learn_proc s g) as [s1|] eqn:El1; [|discriminate].
    destruct (learn_proc_inv _ _ _ Ep El1) as (L & G & _). eapply F_proc; [reflexivity|exact L|exact G|exact Eo|exact Ht].
  - (* ERxErr *) unfold bind in Ht. destruct (learn_proc s g) as [s1|] eqn:El1; [|discriminate].
    destruct (learn_proc_inv _ _ _ Ep El1) as (L & G & _). eapply F_proc; [reflexivity|exact L|exact G|exact Eo|exact Ht].
  - (* ETx *) unfold bind in Ht. destruct (learn_ack s g) as [s1|] eqn:El1; [|discriminate].
    destruct (learn_ack_inv _ _ _ Ea El1) as (L & G & Gp & Gd).
    eapply F_ack; [reflexivity|exact L|exact G|exact Eo| | |exact Ht].
    + rewrite Gp. apply is_role_false. exact Ep.
    + rewrite Gd. apply is_role_false. exact Ed.
  - (* EConnClose *) injection Ht as <-. eapply F_kill; [reflexivity|exact Eo|reflexivity].
  - (* EPub *) destruct k; [discriminate|]. unfold bind in Ht. destruct (learn_cl s g) as [s1|] eqn:El1; [|discriminate].
    destruct (learn_cl_inv _ _ _ El El1) as (L & G). eapply F_cl; [reflexivity|exact L|exact G|exact Eo|exact Ht].
  - (* EDeqCall *) unfold bind in Ht. destruct (learn_deq s g) as [s1|] eqn:El1; [|discriminate].
    destruct (learn_deq_inv _ _ _ Ed El1) as (L & G & Gp & _).
    eapply F_deq; [reflexivity|exact L|exact G|exact Eo| |exact Ht].
    rewrite Gp. apply is_role_false. exact Ep.
  - (* ETerm *) unfold bind in Ht. destruct (learn_cl s g) as [s1|] eqn:El1; [|discriminate].
    destruct (learn_cl_inv _ _ _ El El1) as (L & G). eapply F_cl; [reflexivity|exact L|exact G|exact Eo|exact Ht].
  - (* EAckCall *) apply F_clo; exact H.
  - (* EAckRet *) apply F_clo; exact H.
  - (* EDie *) destruct k; try discriminate Ht. destruct (gdeq s) eqn:Eg; [discriminate|]. destruct (dp s); try discriminate Ht.
    rewrite <- Eg in Ed. unfold bind in Ht. destruct (learn_deq s g) as [s1|] eqn:El1; [|discriminate].
    destruct (learn_deq_inv _ _ _ Ed El1) as (L & G & Gp & _).
    eapply F_deq; [reflexivity|exact L|exact G|exact Eo| |exact Ht].
    rewrite Gp. apply is_role_false. exact Ep.
  - (* ECloseReq *) unfold guard in H. destruct (conn_open s) eqn:Eo; [|discriminate]. injection H as <-.
    apply F_mark; [reflexivity|exact Eo|reflexivity].
  - (* EClosed *) apply F_closed; [reflexivity|exact H].
  - (* EQuiescent *) unfold guard in H. destruct (quiescent s) eqn:Eq; [|discriminate]. injection H as <-.
    apply F_quiet; [reflexivity|exact Eq|reflexivity].
Qed.
