(* ConnProofsC3.v — C08: c08_resend (CONNACK session-present, resend in store
   order directly after CONNACK, nothing dequeued before the resend is complete). *)
From Coq Require Import List NArith Bool Lia ZArith ZifyN ZifyBool.
From GM Require Import Base.Lts Codec.Packet Session.Ids Session.Store Session.StoreProofs
  Broker.Conn Broker.ConnSpec Broker.ConnBase Broker.ConnProofsC0 Broker.ConnProofsC1.
Import ListNotations.
Open Scope N_scope.

Lemma aput_single {A} k (v v' : A) : aput [(k, v)] k v' = [(k, v')].
Proof. unfold aput. cbn [filter fst]. rewrite N.eqb_refl. reflexivity. Qed.
Lemma adel_single {A} k (v : A) : adel [(k, v)] k = [].
Proof. unfold adel. cbn [filter fst]. rewrite N.eqb_refl. reflexivity. Qed.
Lemma aget_single {A} k (v : A) : aget [(k, v)] k = Some v.
Proof. cbn [aget]. rewrite N.eqb_refl. reflexivity. Qed.

Lemma learned_role_kept' s s1 : learned s s1 ->
  (forall g, gproc s = Some g -> gproc s1 = Some g) /\ pp s1 = pp s.
Proof.
  intros [->|(g & _ & [[E ->]|[[E ->]|[[_ ->]|[_ ->]]]])]; split; try reflexivity; intros g' Hg'; bcsimpl;
    try assumption; congruence.
Qed.

(* no resend in progress or announced *)
Definition re_idle (t : re_st) : Prop :=
  re_stage t = [] /\ (re_todo t = [] \/ exists g, re_todo t = [(g, [])]).

Definition R_re (s : bc) (t : re_st) : Prop :=
  match pp s with
  | PFirst | PDeny => re_stage t = [] /\ re_todo t = []
  | PAuth c | PSetup c =>
      re_stage t = [] /\ re_todo t = [] /\
      exists g, gproc s = Some g /\ aget (re_clean t) g = Some (c_clean c)
  | PConnack c r =>
      re_stage t = [] /\ re_todo t = [] /\
      exists g, gproc s = Some g /\ aget (re_clean t) g = Some (c_clean c) /\ aget (re_resumed t) g = Some r
  | PAll => re_todo t = [] /\ exists g, gproc s = Some g /\ re_stage t = [(g, 1)]
  | PResend ps => re_stage t = [] /\ exists g, gproc s = Some g /\ re_todo t = [(g, map set_dup ps)]
  | _ => re_idle t
  end.

Definition not_connack0 (p : packet) : Prop := match p with Connack _ 0 => False | _ => True end.

Lemma re_step_tx_idle t g p a ok : re_idle t -> not_connack0 p -> re_step t (ETx g p a ok) = Some t.
Proof.
  intros [Hs Ht] Hp.
  assert (E : match aget (re_todo t) g with Some (_ :: _) => False | _ => True end).
  { destruct Ht as [->|(g' & ->)]; cbn [aget]; [exact I|]. destruct (g =? g'); exact I. }
  destruct p; cbn [re_step]; try (destruct (aget (re_todo t) g) as [[|q rest]|]; [reflexivity|contradiction|reflexivity]).
  destruct rc as [|pr]; [contradiction|].
  destruct (aget (re_todo t) g) as [[|q rest]|]; [reflexivity|contradiction|reflexivity].
Qed.

Lemma idle_of_empty t : re_stage t = [] -> re_todo t = [] -> re_idle t.
Proof. intros H1 H2. split; [exact H1|left; exact H2]. Qed.

Lemma re_not_pre s t : R_re s t -> pre_loop (pp s) = false -> re_idle t.
Proof. unfold R_re. destruct (pp s); cbn [pre_loop]; intros HR Hp; try discriminate Hp; exact HR. Qed.

Lemma re_frame s s' t : pp s' = pp s -> gproc s' = gproc s -> R_re s t -> R_re s' t.
Proof. intros Ep Eg. unfold R_re. rewrite Ep, Eg. exact (fun x => x). Qed.

Lemma storable_not_connack0 p : storable p = true -> not_connack0 p.
Proof. destruct p; cbn [storable get_id]; try discriminate; intros _; exact I. Qed.

Lemma re_proc s t e s' g : INV s -> R_re s t -> ev_g e = Some g -> gproc s = Some g -> step_proc s e = Some s' ->
  exists t', re_step t e = Some t' /\ R_re s' t'.
Proof.
  intros HI HR Hg Hr H. unfold step_proc, proc_dispatch, die_p, guard in H.
  pose proof (I_resend _ HI) as Hrs.
  pose proof HR as HR'. unfold R_re in HR'.
  inv_step H; inv_helpers; injection H as <-; subst; cbv beta iota in HR'; cbn [ev_g] in Hg; try injection Hg as ->.
  (* idle before and after, scanner state untouched *)
  all: try (cbn [re_step]; eexists; split; [reflexivity|]; unfold R_re; bcsimpl; exact HR'; fail).
  all: try (rewrite re_step_tx_idle by (exact HR' || exact I); eexists; split; [reflexivity|]; unfold R_re; bcsimpl; exact HR'; fail).
  all: try (cbn [re_step]; eexists; split; [reflexivity|]; unfold R_re; bcsimpl;
            cbn [re_stage re_todo re_clean re_resumed]; first [apply idle_of_empty; tauto|tauto]; fail).
  - (* Rx Connect *)
    cbn [re_step]. eexists; split; [reflexivity|]. unfold R_re; bcsimpl; cbn [re_stage re_todo re_clean re_resumed].
    destruct HR' as [S0 T0]. repeat split; try assumption. exists g. split; [exact Hr|apply aget_aput_same].
  - (* Deny: Connack 5 *)
    destruct HR' as [S0 T0]. cbn [re_step]. rewrite T0. cbn [aget]. eexists; split; [reflexivity|].
    unfold R_re; bcsimpl. apply idle_of_empty; assumption.
  - destruct HR' as [S0 T0]. cbn [re_step]. rewrite T0. cbn [aget]. eexists; split; [reflexivity|].
    unfold R_re; bcsimpl. apply idle_of_empty; assumption.
  - (* Setup ok *)
    destruct HR' as (S0 & T0 & g' & G & A). rewrite Hr in G. injection G as <-.
    cbn [re_step]. eexists; split; [reflexivity|].
    destruct fresh; unfold R_re; bcsimpl; cbn [re_stage re_todo re_clean re_resumed];
      (repeat split; try assumption; exists g; split; [exact Hr|split; [exact A|apply aget_aput_same]]).
  - (* Connack ok *)
    destruct HR' as (S0 & T0 & g' & G & A & B). rewrite Hr in G. injection G as <-.
    cbn [re_step]. rewrite A, B.
    match goal with Hq : Bool.eqb _ _ = true |- _ => rewrite Hq end.
    eexists; split; [reflexivity|]. unfold R_re; bcsimpl; cbn [re_stage re_todo re_clean re_resumed].
    split; [exact T0|]. exists g. split; [exact Hr|rewrite S0; reflexivity].
  - (* Connack fail *)
    destruct HR' as (S0 & T0 & g' & G & A & B). rewrite Hr in G. injection G as <-.
    cbn [re_step]. rewrite A, B.
    match goal with Hq : Bool.eqb _ _ = true |- _ => rewrite Hq end.
    eexists; split; [reflexivity|]. unfold R_re; bcsimpl. apply idle_of_empty; assumption.
  - (* All ok *)
    destruct HR' as (T0 & g' & G & S0). rewrite Hr in G. injection G as <-.
    cbn [re_step]. rewrite S0, aget_single, adel_single, T0. eexists; split; [reflexivity|].
    destruct l; unfold R_re; bcsimpl; cbn [re_stage re_todo re_clean re_resumed map].
    + split; [reflexivity|right; exists g; reflexivity].
    + split; [reflexivity|exists g; split; [exact Hr|reflexivity]].
  - (* All err *)
    destruct HR' as (T0 & g' & G & S0). rewrite Hr in G. injection G as <-.
    cbn [re_step]. rewrite S0, aget_single, adel_single. eexists; split; [reflexivity|].
    unfold R_re; bcsimpl; cbn [re_stage re_todo]. apply idle_of_empty; [reflexivity|exact T0].
  - (* Resend ok *)
    destruct HR' as (S0 & g' & G & T0). rewrite Hr in G. injection G as <-.
    destruct Hrs as [Hst _]. inversion Hst as [|? ? Hp Hl]; subst.
    assert (Hn : not_connack0 p0).
    { apply storable_not_connack0. eapply packet_eqb_storable; [eassumption|apply storable_set_dup; exact Hp]. }
    assert (E : re_step t (ETx g p0 true true) =
                Some (ReSt (re_clean t) (re_resumed t) (re_stage t) (aput (re_todo t) g (map set_dup l)))).
    { destruct p0; cbn [re_step]; try (destruct rc; [contradiction|]); rewrite T0, aget_single; cbn [map];
        match goal with Hq : packet_eqb _ _ = true |- _ => rewrite Hq end; reflexivity. }
    rewrite E, T0. cbn [map]. rewrite aput_single. eexists; split; [reflexivity|].
    unfold take_deq_if_any, take_deq. destruct (0 <? tdeq s); destruct l; unfold R_re; bcsimpl;
      cbn [re_stage re_todo re_clean re_resumed map];
      first [split; [exact S0|right; exists g; reflexivity]|split; [exact S0|exists g; split; [exact Hr|reflexivity]]].
  - (* Resend fail *)
    destruct HR' as (S0 & g' & G & T0). rewrite Hr in G. injection G as <-.
    destruct Hrs as [Hst _]. inversion Hst as [|? ? Hp Hl]; subst.
    assert (Hn : not_connack0 p0).
    { apply storable_not_connack0. eapply packet_eqb_storable; [eassumption|apply storable_set_dup; exact Hp]. }
    assert (E : re_step t (ETx g p0 true false) =
                Some (ReSt (re_clean t) (re_resumed t) (re_stage t) (adel (re_todo t) g))).
    { destruct p0; cbn [re_step]; try (destruct rc; [contradiction|]); rewrite T0, aget_single; cbn [map];
        match goal with Hq : packet_eqb _ _ = true |- _ => rewrite Hq end; reflexivity. }
    rewrite E, T0. cbn [map]. rewrite adel_single. eexists; split; [reflexivity|].
    unfold take_deq_if_any, take_deq. destruct (0 <? tdeq s); unfold R_re; bcsimpl;
      cbn [re_stage re_todo]; (apply idle_of_empty; [exact S0|reflexivity]).
  - (* Restore ok *)
    destruct HR' as [S0 T0]. cbn [re_step].
    assert (E : match aget (re_todo t) g with Some (_ :: _) => False | _ => True end).
    { destruct T0 as [->|(g' & ->)]; cbn [aget]; [exact I|]. destruct (g =? g'); exact I. }
    destruct (aget (re_todo t) g) as [[|q rest]|]; try contradiction;
      (eexists; split; [reflexivity|]; unfold R_re; bcsimpl; split; assumption).
  - destruct HR' as [S0 T0]. cbn [re_step].
    assert (E : match aget (re_todo t) g with Some (_ :: _) => False | _ => True end).
    { destruct T0 as [->|(g' & ->)]; cbn [aget]; [exact I|]. destruct (g =? g'); exact I. }
    destruct (aget (re_todo t) g) as [[|q rest]|]; try contradiction;
      (eexists; split; [reflexivity|]; unfold R_re; bcsimpl; split; assumption).
Qed.

Lemma re_busy_idle t : re_idle t -> re_busy t = false.
Proof.
  intros [Hs Ht]. unfold re_busy. rewrite Hs. destruct Ht as [->|(g & ->)]; reflexivity.
Qed.

Lemma re_deq s t e s' : INV s -> R_re s t -> step_deq s e = Some s' ->
  exists t', re_step t e = Some t' /\ R_re s' t'.
Proof.
  intros HI HR H. pose proof (I_shape _ HI) as Hsh.
  assert (Hidle : re_idle t).
  { apply (re_not_pre s t HR). destruct (pre_loop (pp s)) eqn:Ep; [|reflexivity].
    destruct (I_pre _ HI Ep) as [Hd _]. unfold step_deq, guard in H. rewrite Hd in H. discriminate H. }
  unfold step_deq, guard in H.
  inv_step H; inv_helpers; injection H as <-; subst; cbn [dp_shape] in Hsh.
  all: try (cbn [re_step]; eexists; split; [reflexivity|]; (eapply re_frame; [| |exact HR]); reflexivity).
  - (* DeqCall *) cbn [re_step]. rewrite (re_busy_idle _ Hidle). eexists; split; [reflexivity|].
    (eapply re_frame; [| |exact HR]); reflexivity.
  - (* Send ok *) destruct Hsh as (m & id & ->).
    match goal with Hq : packet_eqb _ _ = true |- _ => apply packet_eqb_publish_l in Hq; subst end.
    rewrite re_step_tx_idle by (exact Hidle || exact I). eexists; split; [reflexivity|].
    destruct (m_qos m =? 0); (eapply re_frame; [| |exact HR]); reflexivity.
  - destruct Hsh as (m & id & ->).
    match goal with Hq : packet_eqb _ _ = true |- _ => apply packet_eqb_publish_l in Hq; subst end.
    rewrite re_step_tx_idle by (exact Hidle || exact I). eexists; split; [reflexivity|].
    (eapply re_frame; [| |exact HR]); reflexivity.
Qed.

Lemma re_same s s' t : same_pd s s' -> R_re s t -> R_re s' t.
Proof. intros Hs. apply re_frame; [apply (sp_pp _ _ Hs)|apply (sp_gproc _ _ Hs)]. Qed.

Lemma re_frozen s s' t : frozen s s' -> R_re s t -> R_re s' t.
Proof.
  intros Hf HR. unfold R_re. rewrite (fz_pp _ _ Hf). apply (re_not_pre s t HR).
  pose proof (fz_stop _ _ Hf) as Hst. unfold all_stopped, proc_can_stop in Hst.
  destruct (pp s); cbn [pre_loop]; try reflexivity; discriminate Hst.
Qed.

Lemma re_learned s s1 t : learned s s1 -> R_re s t -> R_re s1 t.
Proof.
  intros Hl HR. destruct (learned_role_kept' _ _ Hl) as [Kp Ep].
  unfold R_re in *. rewrite Ep. destruct (pp s); try exact HR.
  - destruct HR as (S0 & T0 & g & G & A). repeat split; try assumption. exists g. split; [apply Kp; exact G|exact A].
  - destruct HR as (S0 & T0 & g & G & A). repeat split; try assumption. exists g. split; [apply Kp; exact G|exact A].
  - destruct HR as (S0 & T0 & g & G & A). repeat split; try assumption. exists g. split; [apply Kp; exact G|exact A].
  - destruct HR as (T0 & g & G & A). split; [exact T0|]. exists g. split; [apply Kp; exact G|exact A].
  - destruct HR as (S0 & g & G & A). split; [exact S0|]. exists g. split; [apply Kp; exact G|exact A].
Qed.

Lemma re_step_clo t e : clo_event e -> re_step t e = Some t.
Proof. destruct e; try contradiction; reflexivity. Qed.

Lemma re_step_cl t e : cl_event e -> re_step t e = Some t.
Proof. destruct e; try contradiction; reflexivity. Qed.

Lemma ack_not_connack0 p : is_ack_packet p = true -> not_connack0 p.
Proof. destruct p; try discriminate; intros _; exact I. Qed.

Lemma re_step_ok s t e s' : INV s -> R_re s t -> step s e = Some s' ->
  exists t', re_step t e = Some t' /\ R_re s' t'.
Proof.
  intros HI HR H. apply step_inv in H.
  destruct H as [He Ho ->|He Ho ->|He Hq ->|Hc|g s1 Hg Hl Hr Ho Hp|g s1 Hg Hl Hr Ho Hnp Hd
                |g s1 Hg Hl Hr Ho Hnp Hnd Ha|g s1 Hg Hl Hr Ho Hc|He Hc|g He Ho ->].
  - subst e. eexists. split; [reflexivity|]. unfold R_re. bcsimpl. split; reflexivity.
  - subst e. exists t. split; [reflexivity|exact HR].
  - subst e. exists t. split; [reflexivity|exact HR].
  - apply step_clo_sum in Hc as (He & Hs & _). exists t. split; [apply re_step_clo; exact He|eapply re_same; eassumption].
  - eapply re_proc; [eapply INV_learned; eassumption|exact (re_learned _ _ _ Hl HR)|exact Hg|exact Hr|exact Hp].
  - eapply re_deq; [eapply INV_learned; eassumption|exact (re_learned _ _ _ Hl HR)|exact Hd].
  - pose proof (INV_learned _ _ Hl HI) as HI1. pose proof (re_learned _ _ _ Hl HR) as HR1.
    pose proof (step_ack_sum _ _ _ Ha) as (Hs & _ & He).
    exists t. split; [|eapply re_same; [exact Hs|exact HR1]].
    destruct e; try contradiction; try reflexivity.
    destruct async; [|contradiction]. destruct He as (q' & Ht & _ & Hap).
    apply re_step_tx_idle.
    + apply (re_not_pre s1 t HR1). destruct (pre_loop (pp s1)) eqn:Ep; [|reflexivity].
      destruct (I_pre _ HI1 Ep) as [_ Hoff]. rewrite Hoff in Hap. discriminate Hap.
    + apply ack_not_connack0. eapply ackq_take_is_ack; [exact Ht|apply (I_ackq _ HI1)].
  - pose proof (re_learned _ _ _ Hl HR) as HR1.
    apply step_cleanup_sum in Hc as (He & [(Hs & _)|Hf]); exists t; (split; [apply re_step_cl; exact He|]).
    + eapply re_same; [exact Hs|exact HR1].
    + eapply re_frozen; [exact Hf|exact HR1].
  - apply step_cleanup_sum in Hc as (He' & [(Hs & _)|Hf]); exists t; (split; [apply re_step_cl; exact He'|]).
    + eapply re_same; eassumption.
    + eapply re_frozen; eassumption.
  - subst e. exists t. split; [reflexivity|]. (eapply re_frame; [| |exact HR]); reflexivity.
Qed.

Theorem c08_resend_holds : forall es s, bc_run es = Some s -> c08_resend es = true.
Proof.
  apply (scan_sound_inv re_step INV R_re INV_init INV_step re_step_ok).
  unfold R_re. cbn. split; [reflexivity|left; reflexivity].
Qed.
