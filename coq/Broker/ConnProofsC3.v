(* ConnProofsC3.v — C08: c08_resend (CONNACK session-present, resend in store
   order directly after CONNACK, nothing dequeued before the resend is complete). *)
From Coq Require Import List NArith Bool Lia ZArith ZifyN ZifyBool.
From GM Require Import Base.Lts Codec.Packet Session.Ids Session.Store Session.StoreProofs
  Broker.Conn Broker.ConnSpec Broker.ConnBase Broker.ConnProofsC0 Broker.ConnProofsC1.
Import ListNotations.
Open Scope N_scope.

Lemma aput_single {A} k (v v' : A) : aput [(k, v)] k v' = [(k, v')].
Proof. unfold aput. cbn [filter fst]. rewrite N.eqb_refl. reflexivity. Qed.
Lemma adel_single {A} k (v : A) : adel [(k, v)] k = [].
Proof. unfold adel. cbn [filter fst]. rewrite N.eqb_refl. reflexivity. Qed.
Lemma aget_single {A} k (v : A) : aget [(k, v)] k = Some v.
Proof. cbn [aget]. rewrite N.eqb_refl. reflexivity. Qed.

(* no resend in progress or announced *)
Definition re_idle (t : re_st) : Prop :=
  re_stage t = [] /\ (re_todo t = [] \/ exists g, re_todo t = [(g, [])]).

Definition R_re (s : bc) (t : re_st) : Prop :=
  match pp s with
  | PFirst | PDeny => re_stage t = [] /\ re_todo t = []
  | PAuth c | PSetup c =>
      re_stage t = [] /\ re_todo t = [] /\
      exists g, gproc s = Some g /\ aget (re_clean t) g = Some (c_clean c)
  | PConnack c r =>
      re_stage t = [] /\ re_todo t = [] /\
      exists g, gproc s = Some g /\ aget (re_clean t) g = Some (c_clean c) /\ aget (re_resumed t) g = Some r
  | PAll => re_todo t = [] /\ exists g, gproc s = Some g /\ re_stage t = [(g, 1)]
  | PResend ps => re_stage t = [] /\ exists g, gproc s = Some g /\ re_todo t = [(g, map set_dup ps)]
  | _ => re_idle t
  end.

Definition not_connack0 (p : packet) : Prop := match p with Connack _ 0 => False | _ => True end.

Lemma re_step_tx_idle t g p a ok : re_idle t -> not_connack0 p -> re_step t (ETx g p a ok) = Some t.
Proof.
  intros [Hs Ht] Hp.
  assert (E : match aget (re_todo t) g with Some (_ :: _) => False | _ => True end).
  { destruct Ht as [->|(g' & ->)]; cbn [aget]; [exact I|]. destruct (g =? g'); exact I. }
  destruct p; cbn [re_step]; try (destruct (aget (re_todo t) g) as [[|q rest]|]; [reflexivity|contradiction|reflexivity]).
  destruct rc as [|pr]; [contradiction|].
  destruct (aget (re_todo t) g) as [[|q rest]|]; [reflexivity|contradiction|reflexivity].
Qed.

Lemma idle_of_empty t : re_stage t = [] -> re_todo t = [] -> re_idle t.
Proof. intros H1 H2. split; [exact H1|left; exact H2]. Qed.

Lemma re_not_pre s t : R_re s t -> pre_loop (pp s) = false -> re_idle t.
Proof. unfold R_re. destruct (pp s); cbn [pre_loop]; intros HR Hp; try discriminate Hp; exact HR. Qed.

Lemma re_frame s s' t : pp s' = pp s -> gproc s' = gproc s -> R_re s t -> R_re s' t.
Proof. intros Ep Eg. unfold R_re. rewrite Ep, Eg. exact (fun x => x). Qed.

Lemma storable_not_connack0 p : storable p = true -> not_connack0 p.
Proof. destruct p; cbn [storable get_id]; try discriminate; intros _; exact I. Qed.

Lemma re_proc s t e s' g : INV s -> R_re s t -> ev_g e = Some g -> gproc s = Some g -> step_proc s e = Some s' ->
  exists t', re_step t e = Some t' /\ R_re s' t'.
Proof.
  intros HI HR Hg Hr H. unfold step_proc, proc_dispatch, die_p, guard in H.
  pose proof (I_resend _ HI) as Hrs.
  pose proof HR as HR'. unfold R_re in HR'.
  inv_step H; inv_helpers; injection H as <-; subst; cbv beta iota in HR'; cbn [ev_g] in Hg; try injection Hg as ->.
  (* idle before and after, scanner state untouched *)
  all: try (cbn [re_step]; eexists; split; [reflexivity|]; unfold R_re; bcsimpl; exact HR'; fail).
  all: try (rewrite re_step_tx_idle by (exact HR' || exact I); eexists; split; [reflexivity|]; unfold R_re; bcsimpl; exact HR'; fail).
  all: match goal with |- ?G => idtac G end.
Abort.
