(* ConnProofsCTraces.v — concrete accepted traces used as non-vacuity witnesses
   and counter-examples for C08 / C16.  Definitions only. *)
From Coq Require Import List NArith Bool.
From Coq.Strings Require Import Byte.
From GM Require Import Base.Lts Codec.Packet Session.Ids Session.Store Broker.Conn Broker.ConnSpec.
Import ListNotations.
Open Scope N_scope.

Definition tc_conn : connect := Conn [x63] 0 [] [] false None 4.
Definition tc_m1 : message := Msg [x6d] [x01] 1 false.
Definition tc_m1b : message := Msg [x6d] [x03] 1 false.
Definition tc_m2 : message := Msg [x6d] [x02] 2 false.
Definition tc_m0 : message := Msg [x6d] [x00] 0 false.

(* connection prologue: processor g, window w, resumed r, stored packets ps (resent) *)
Definition tc_open (g w : N) (r : bool) (ps : list packet) : list event :=
  [ENewConn; ERx g (Connect tc_conn); EAuth g AOk; ESetup g (SOk r false w 10 10);
   ETx g (Connack r 0) false true; EAll g Outgoing (Some ps)]
  ++ map (fun p => ETx g (set_dup p) true true) ps ++ [ERestore g true].

(* the peer goes away while the dequeuer (gd) waits inside Dequeue; cleanup goroutine gc *)
Definition tc_lost (g gd gc : N) : list event :=
  [ERxErr g; EDie g KTransport; EConnClose g; EDeqRet gd QNone; ETerm gc true; EClosed].

(* QoS 1: dequeue, id, store, send, PUBACK, delete *)
Definition tr_qos1 : list event :=
  tc_open 2 2 false [] ++
  [EDeqCall 3; EDeqRet 3 (QMsg tc_m1 false); ENextId 3 1; ESave 3 Outgoing (Publish false tc_m1 1) true;
   ETx 3 (Publish false tc_m1 1) true true; EDeqCall 3;
   ERx 2 (Puback 1); EDelete 2 Outgoing 1 true; EQuiescent] ++ tc_lost 2 3 4.

(* QoS 2: PUBLISH, PUBREC, (store PUBREL) PUBREL, PUBCOMP, delete *)
Definition tr_qos2 : list event :=
  tc_open 2 2 false [] ++
  [EDeqCall 3; EDeqRet 3 (QMsg tc_m2 true); ENextId 3 1; ESave 3 Outgoing (Publish false tc_m2 1) true;
   EDeqAck 3; ETx 3 (Publish false tc_m2 1) true true; EDeqCall 3;
   ERx 2 (Pubrec 1); ESave 2 Outgoing (Pubrel 1) true; ETx 2 (Pubrel 1) true true;
   ERx 2 (Pubcomp 1); EDelete 2 Outgoing 1 true; EQuiescent] ++ tc_lost 2 3 4.

(* connection lost with a QoS 1 PUBLISH and a QoS 2 PUBREL outstanding; the resumed
   connection re-sends PUBLISH (dup) and PUBREL in store order before dequeuing *)
Definition tr_resume : list event :=
  tc_open 2 2 false [] ++
  [EDeqCall 3; EDeqRet 3 (QMsg tc_m1 false); ENextId 3 1; ESave 3 Outgoing (Publish false tc_m1 1) true;
   ETx 3 (Publish false tc_m1 1) true true;
   EDeqCall 3; EDeqRet 3 (QMsg tc_m2 false); ENextId 3 2; ESave 3 Outgoing (Publish false tc_m2 2) true;
   ETx 3 (Publish false tc_m2 2) true true;
   ERx 2 (Pubrec 2); ESave 2 Outgoing (Pubrel 2) true; ETx 2 (Pubrel 2) true true;
   ERxErr 2; EDie 2 KTransport; EConnClose 2; ETerm 4 true; EClosed] ++
  tc_open 5 2 true [Publish false tc_m1 1; Pubrel 2] ++
  [ERx 5 (Puback 1); EDelete 5 Outgoing 1 true; EDeqCall 6; ERx 5 (Pubcomp 2); EDelete 5 Outgoing 2 true;
   EQuiescent] ++ tc_lost 5 6 7.

(* window 1, two queued messages: the second is dequeued only after the PUBACK of the first *)
Definition tr_w1_a : list event :=
  tc_open 2 1 false [] ++
  [EDeqCall 3; EDeqRet 3 (QMsg tc_m1 false); ENextId 3 1; ESave 3 Outgoing (Publish false tc_m1 1) true;
   ETx 3 (Publish false tc_m1 1) true true].
Definition tr_w1_b : list event :=
  [ERx 2 (Puback 1); EDelete 2 Outgoing 1 true;
   EDeqCall 3; EDeqRet 3 (QMsg tc_m1b false); ENextId 3 2; ESave 3 Outgoing (Publish false tc_m1b 2) true;
   ETx 3 (Publish false tc_m1b 2) true true; ERx 2 (Puback 2); EDelete 2 Outgoing 2 true; EDeqCall 3; EQuiescent]
  ++ tc_lost 2 3 4.
Definition tr_w1 : list event := tr_w1_a ++ tr_w1_b.

(* QoS 0 deliveries do not occupy the window (window 1, three QoS 0 in a row) *)
Definition tr_qos0 : list event :=
  tc_open 2 1 false [] ++
  [EDeqCall 3; EDeqRet 3 (QMsg tc_m0 false); ETx 3 (Publish false tc_m0 0) true true;
   EDeqCall 3; EDeqRet 3 (QMsg tc_m0 false); ETx 3 (Publish false tc_m0 0) true true;
   EDeqCall 3; EDeqRet 3 (QMsg tc_m0 false); ETx 3 (Publish false tc_m0 0) true true;
   EDeqCall 3; EQuiescent] ++ tc_lost 2 3 4.

(* C16_bound counter-example 1: window 2, two unacknowledged messages, connection lost,
   the next connection is set up with window 1: both are re-sent *)
Definition tr_c16_shrink : list event :=
  tc_open 2 2 false [] ++
  [EDeqCall 3; EDeqRet 3 (QMsg tc_m1 false); ENextId 3 1; ESave 3 Outgoing (Publish false tc_m1 1) true;
   ETx 3 (Publish false tc_m1 1) true true;
   EDeqCall 3; EDeqRet 3 (QMsg tc_m1b false); ENextId 3 2; ESave 3 Outgoing (Publish false tc_m1b 2) true;
   ETx 3 (Publish false tc_m1b 2) true true;
   ERxErr 2; EDie 2 KTransport; EConnClose 2; ETerm 4 true; EClosed] ++
  tc_open 5 1 true [Publish false tc_m1 1; Publish false tc_m1b 2].

(* C16_bound counter-example 2: the window stays 1; on the first connection the peer sends a
   PUBACK for an id that is not in flight, which returns a window slot although the stored
   message stays; two messages are stored when the connection is lost, both are re-sent *)
Definition tr_c16_spurious : list event :=
  tc_open 2 1 false [] ++
  [EDeqCall 3; EDeqRet 3 (QMsg tc_m1 false); ENextId 3 1; ESave 3 Outgoing (Publish false tc_m1 1) true;
   ETx 3 (Publish false tc_m1 1) true true;
   ERx 2 (Puback 9); EDelete 2 Outgoing 9 true;
   EDeqCall 3; EDeqRet 3 (QMsg tc_m1b false); ENextId 3 2; ESave 3 Outgoing (Publish false tc_m1b 2) true;
   ETx 3 (Publish false tc_m1b 2) true true;
   ERxErr 2; EDie 2 KTransport; EConnClose 2; ETerm 4 true; EClosed] ++
  tc_open 5 1 true [Publish false tc_m1 1; Publish false tc_m1b 2].

(* window 1, one unacknowledged delivery, the dequeuer waits for a slot and times out: legitimate *)
Definition tr_sl_full : list event := tr_w1_a ++ [EDie 3 KClient; EConnClose 3].
(* the PUBACK has been received but its slot is not back yet when the timer fires: legitimate *)
Definition tr_sl_race : list event := tr_w1_a ++ [ERx 2 (Puback 1); EDie 3 KClient; EConnClose 3].
(* the delete of the acknowledged packet fails: the slot is gone with the dying connection *)
Definition tr_sl_delfail : list event :=
  tr_w1_a ++ [ERx 2 (Puback 1); EDelete 2 Outgoing 1 false; EDie 3 KClient; EConnClose 3].
(* a lost slot: window 2, one unacknowledged delivery, yet the dequeuer times out *)
Definition tr_sl_lost : list event :=
  tc_open 2 2 false [] ++
  [EDeqCall 3; EDeqRet 3 (QMsg tc_m1 false); ENextId 3 1; ESave 3 Outgoing (Publish false tc_m1 1) true;
   ETx 3 (Publish false tc_m1 1) true true; EDie 3 KClient].
(* slots lost across a reconnect: window 2, one message re-sent on the resumed connection, acknowledged,
   one delivery, then a timeout although only one message is in flight *)
Definition tr_sl_lost_resume : list event :=
  tc_open 2 2 false [] ++
  [EDeqCall 3; EDeqRet 3 (QMsg tc_m1 false); ENextId 3 1; ESave 3 Outgoing (Publish false tc_m1 1) true;
   ETx 3 (Publish false tc_m1 1) true true;
   ERxErr 2; EDie 2 KTransport; EConnClose 2; ETerm 4 true; EClosed] ++
  tc_open 5 2 true [Publish false tc_m1 1] ++
  [EDeqCall 6; EDeqRet 6 (QMsg tc_m1b false); ENextId 6 2; ESave 6 Outgoing (Publish false tc_m1b 2) true;
   ETx 6 (Publish false tc_m1b 2) true true; ERx 5 (Puback 1); EDelete 5 Outgoing 1 true; EDie 6 KClient].

Definition tc_accepted (es : list event) : bool := match bc_run es with Some _ => true | None => false end.
