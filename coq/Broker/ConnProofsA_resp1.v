(* ConnProofsA_resp1.v — list lemmas for the closure table, the ack queue and the
   scanner's association lists, and the invariant inv_clos of the model's
   closure table; used by ConnProofsA_resp2.v (C20_responses). *)
From Coq Require Import List NArith Bool Lia.
From GM Require Import Base.Lts Codec.Packet Session.Ids Session.Store
  Broker.Conn Broker.ConnSpec Broker.ConnBase Broker.ConnProofsA_lib Broker.ConnProofsA_inv
  Broker.ConnProofsA_sc.
Import ListNotations.
Open Scope N_scope.

(* --------------------------------------------------- packet_eqb is reflexive *)

Lemma option_eqb_refl {A} (eqb : A -> A -> bool) : (forall x, eqb x x = true) -> forall a, option_eqb eqb a a = true.
Proof. intros H [x|]; cbn; [apply H|reflexivity]. Qed.

Ltac eqb_refl_tac :=
  repeat (apply andb_true_iff; split);
  first [ reflexivity | apply N.eqb_refl | apply Bool.eqb_reflx | apply bytes_eqb_refl | apply message_eqb_refl
        | apply (option_eqb_refl _ message_eqb_refl)
        | apply (list_eqb_refl _ N.eqb_refl) | apply (list_eqb_refl _ bytes_eqb_refl)
        | apply list_eqb_refl; intros x; rewrite bytes_eqb_refl, N.eqb_refl; reflexivity ].

Lemma connect_eqb_refl c : connect_eqb c c = true.
Proof. unfold connect_eqb. eqb_refl_tac. Qed.

Lemma packet_eqb_refl p : packet_eqb p p = true.
Proof. destruct p; cbn [packet_eqb]; first [apply connect_eqb_refl | eqb_refl_tac]. Qed.

Lemma packet_eqb_sym_true p q : packet_eqb p q = true -> packet_eqb q p = true.
Proof. intros H. apply packet_eqb_eq in H. subst. apply packet_eqb_refl. Qed.

(* ------------------------------------------------------- counting by filter *)

Definition b2n (b : bool) : nat := if b then 1%nat else 0%nat.
Definition flen {A} (f : A -> bool) (l : list A) : nat := length (filter f l).

Lemma flen_nil {A} (f : A -> bool) : flen f [] = 0%nat.
Proof. reflexivity. Qed.

Lemma flen_cons {A} (f : A -> bool) x l : flen f (x :: l) = (b2n (f x) + flen f l)%nat.
Proof. unfold flen. cbn [filter]. destruct (f x); reflexivity. Qed.

Lemma flen_app {A} (f : A -> bool) a b : flen f (a ++ b) = (flen f a + flen f b)%nat.
Proof. unfold flen. rewrite filter_app, app_length. reflexivity. Qed.

Lemma flen_ext {A} (f g : A -> bool) l : (forall x, In x l -> f x = g x) -> flen f l = flen g l.
Proof.
  induction l as [|x l IH]; intros H; [reflexivity|]. rewrite !flen_cons, (H x (or_introl eq_refl)), IH; [reflexivity|].
  intros y Hy. apply H. right; exact Hy.
Qed.

Lemma flen_pos_ex {A} (f : A -> bool) l : (0 < flen f l)%nat -> exists x, In x l /\ f x = true.
Proof.
  induction l as [|x l IH]; [cbn; lia|]. rewrite flen_cons. destruct (f x) eqn:E; intros H.
  - exists x. split; [left; reflexivity|exact E].
  - destruct (IH H) as (y & Hy & Hf). exists y. split; [right; exact Hy|exact Hf].
Qed.

Lemma flen_zero_all {A} (f : A -> bool) l : flen f l = 0%nat -> forall x, In x l -> f x = false.
Proof.
  induction l as [|y l IH]; intros H x Hx; [destruct Hx|]. rewrite flen_cons in H.
  destruct (f y) eqn:E; [cbn in H; lia|]. destruct Hx as [<-|Hx]; [exact E|apply IH; [exact H|exact Hx]].
Qed.

Lemma flen_all_false {A} (f : A -> bool) l : (forall x, In x l -> f x = false) -> flen f l = 0%nat.
Proof.
  induction l as [|y l IH]; intros H; [reflexivity|]. rewrite flen_cons, (H y (or_introl eq_refl)), IH; [reflexivity|].
  intros x Hx. apply H. right; exact Hx.
Qed.

Lemma flen_nremove1 (f : N -> bool) k l : In k l -> (flen f (nremove1 k l) + b2n (f k) = flen f l)%nat.
Proof.
  induction l as [|x l IH]; intros H; [destruct H|]. cbn [nremove1]. destruct (x =? k) eqn:E.
  - apply N.eqb_eq in E. subst x. rewrite flen_cons. lia.
  - destruct H as [->|H]; [rewrite N.eqb_refl in E; discriminate E|]. rewrite !flen_cons. specialize (IH H). lia.
Qed.

Lemma nremove1_in k x l : In x (nremove1 k l) -> In x l.
Proof.
  induction l as [|y l IH]; cbn [nremove1]; [auto|]. destruct (y =? k); intros H; [right; exact H|].
  destruct H as [->|H]; [left; reflexivity|right; apply IH, H].
Qed.

(* ------------------------------------------------------- association lists *)

Lemma aget_cons_eq {A} (l : list (N * A)) k v : aget ((k, v) :: l) k = Some v.
Proof. cbn [aget]. rewrite N.eqb_refl. reflexivity. Qed.

Lemma aget_cons_ne {A} (l : list (N * A)) k k' v : k' <> k -> aget ((k, v) :: l) k' = aget l k'.
Proof. intros H. cbn [aget]. apply N.eqb_neq in H. rewrite H. reflexivity. Qed.

Lemma aput_nil {A} k (v : A) : aput [] k v = [(k, v)].
Proof. reflexivity. Qed.

Lemma aput_single {A} k (x v : A) : aput [(k, x)] k v = [(k, v)].
Proof. unfold aput. cbn [filter fst]. rewrite N.eqb_refl. reflexivity. Qed.

Lemma aget_aput_eq {A} (l : list (N * A)) k v : aget (aput l k v) k = Some v.
Proof. unfold aput. apply aget_cons_eq. Qed.

(* ----------------------------------------------------------- closure table *)

Definition with_stat (c : closure) (st : cstat) : closure := Clo (c_k c) (c_conn c) (c_kind c) st.

Lemma clo_find_in l k c : clo_find l k = Some c -> In c l /\ c_k c = k.
Proof.
  induction l as [|x l IH]; cbn [clo_find]; [discriminate|]. destruct (c_k x =? k) eqn:E; intros H.
  - injection H as <-. split; [left; reflexivity|apply N.eqb_eq, E].
  - destruct (IH H) as [H1 H2]. split; [right; exact H1|exact H2].
Qed.

Lemma clo_find_none_notin l k : clo_find l k = None -> ~ In k (map c_k l).
Proof.
  induction l as [|x l IH]; cbn [clo_find map]; [auto|]. destruct (c_k x =? k) eqn:E; [discriminate|].
  intros H [Hx|Hx]; [apply N.eqb_neq in E; contradiction|exact (IH H Hx)].
Qed.

Lemma clo_find_app l c k :
  clo_find (l ++ [c]) k = match clo_find l k with Some x => Some x | None => if c_k c =? k then Some c else None end.
Proof.
  induction l as [|x l IH]; cbn [clo_find app]; [reflexivity|]. destruct (c_k x =? k); [reflexivity|exact IH].
Qed.

Lemma clo_find_set_eq l k c st : clo_find l k = Some c -> clo_find (clo_set l k st) k = Some (with_stat c st).
Proof.
  induction l as [|x l IH]; cbn [clo_find clo_set]; [discriminate|]. destruct (c_k x =? k) eqn:E; intros H.
  - injection H as <-. cbn [clo_find c_k]. rewrite E. reflexivity.
  - cbn [clo_find]. rewrite E. apply IH, H.
Qed.

Lemma clo_find_set_ne l k k' st : k' <> k -> clo_find (clo_set l k st) k' = clo_find l k'.
Proof.
  intros Hne. induction l as [|x l IH]; cbn [clo_find clo_set]; [reflexivity|]. destruct (c_k x =? k) eqn:E.
  - cbn [clo_find c_k]. apply N.eqb_eq in E. rewrite E.
    assert (Hx : (k =? k') = false) by (apply N.eqb_neq; congruence). rewrite Hx. reflexivity.
  - cbn [clo_find]. rewrite IH. reflexivity.
Qed.

Lemma keys_clo_set l k st : map c_k (clo_set l k st) = map c_k l.
Proof.
  induction l as [|x l IH]; cbn [clo_set map]; [reflexivity|]. destruct (c_k x =? k); cbn [map c_k]; [reflexivity|].
  rewrite IH. reflexivity.
Qed.

Lemma conns_clo_set l k st : map c_conn (clo_set l k st) = map c_conn l.
Proof.
  induction l as [|x l IH]; cbn [clo_set map]; [reflexivity|]. destruct (c_k x =? k); cbn [map c_conn]; [reflexivity|].
  rewrite IH. reflexivity.
Qed.

Lemma flen_clo_set (f : closure -> bool) l k c st : clo_find l k = Some c ->
  (flen f (clo_set l k st) + b2n (f c) = flen f l + b2n (f (with_stat c st)))%nat.
Proof.
  induction l as [|x l IH]; cbn [clo_find clo_set]; [discriminate|]. destruct (c_k x =? k) eqn:E; intros H.
  - injection H as <-. rewrite !flen_cons. unfold with_stat. lia.
  - rewrite !flen_cons. specialize (IH H). lia.
Qed.

Lemma clo_find_of_in l c : NoDup (map c_k l) -> In c l -> clo_find l (c_k c) = Some c.
Proof.
  induction l as [|x l IH]; intros Hnd Hin; [destruct Hin|]. cbn [clo_find]. cbn [map] in Hnd.
  inversion Hnd as [|y m Hy Hm]; subst. destruct Hin as [->|Hin]; [rewrite N.eqb_refl; reflexivity|].
  destruct (c_k x =? c_k c) eqn:E; [|apply IH; assumption].
  apply N.eqb_eq in E. exfalso. apply Hy. rewrite E. apply in_map, Hin.
Qed.

Lemma clo_del_find_some l g id c : clo_del_find l g id = Some c ->
  In c l /\ c_stat c = CDel g /\ c_kind c = KPubcomp id.
Proof.
  induction l as [|x l IH]; cbn [clo_del_find]; [discriminate|]. intros H.
  destruct (c_stat x) eqn:Es; try (destruct (IH H) as (H1 & H2); split; [right; exact H1|exact H2]).
  destruct (c_kind x) eqn:Ek; try (destruct (IH H) as (H1 & H2); split; [right; exact H1|exact H2]).
  destruct ((g =? g0) && (id =? id0)) eqn:E.
  - injection H as <-. apply andb_true_iff in E as [E1 E2]. apply N.eqb_eq in E1, E2. subst.
    split; [left; reflexivity|split; assumption].
  - destruct (IH H) as (H1 & H2); split; [right; exact H1|exact H2].
Qed.

Lemma clo_stat_find_some l f c : clo_stat_find l f = Some c -> In c l /\ f (c_stat c) = true.
Proof.
  induction l as [|x l IH]; cbn [clo_stat_find]; [discriminate|]. destruct (f (c_stat x)) eqn:E; intros H.
  - injection H as <-. split; [left; reflexivity|exact E].
  - destruct (IH H) as (H1 & H2); split; [right; exact H1|exact H2].
Qed.

(* ------------------------------------------------------------- the ack queue *)

Lemma ackq_take_flen q p q' p' : ackq_take q p = Some q' ->
  (flen (packet_eqb p') q' + b2n (packet_eqb p' p) = flen (packet_eqb p') q)%nat.
Proof.
  revert q'; induction q as [|x q IH]; cbn [ackq_take]; intros q' H; [discriminate H|].
  destruct (packet_eqb x p) eqn:E.
  - injection H as <-. apply packet_eqb_eq in E. subst x. rewrite flen_cons. lia.
  - destruct (ackq_take q p) as [r|] eqn:Er; [|discriminate H]. injection H as <-.
    rewrite !flen_cons. specialize (IH r eq_refl). lia.
Qed.

Lemma ackq_take_pos q p q' : ackq_take q p = Some q' -> (0 < flen (packet_eqb p) q)%nat.
Proof.
  intros H. pose proof (ackq_take_flen _ _ _ p H) as Hx. rewrite packet_eqb_refl in Hx. cbn [b2n] in Hx. lia.
Qed.

(* ================================================================ inv_clos *)

(* The keys of the closure table are distinct; no closure belongs to a later
   connection than the current one; before the CONNACK the current connection has
   no closures and its ack queue is empty. *)
Definition inv_clos (s : bc) : Prop :=
  NoDup (map c_k (clos s)) /\
  (forall n, In n (map c_conn (clos s)) -> n <= conn_no s) /\
  (pre_connack (pp s) = true -> (forall n, In n (map c_conn (clos s)) -> n <> conn_no s) /\ ackq s = []).

Lemma inv_clos_init : inv_clos bc_init.
Proof.
  unfold inv_clos; cbn. split; [constructor|]. split; [intros n []|discriminate].
Qed.

Lemma NoDup_app_single (l : list N) x : NoDup l -> ~ In x l -> NoDup (l ++ [x]).
Proof.
  induction l as [|y l IH]; cbn [app]; intros H Hx; [constructor; [intros []|constructor]|].
  inversion H as [|z m Hz Hm]; subst. constructor.
  - rewrite in_app_iff. intros [Hy|[Hy|[]]]; [contradiction|]. apply Hx. left. congruence.
  - apply IH; [exact Hm|]. intros Hi. apply Hx. right; exact Hi.
Qed.

Lemma inv_clos_reg s k a s' :
  inv_clos s -> pre_connack (pp s) = false -> clo_reg s k a = Some s' ->
  inv_clos s' /\ pp s' = pp s.
Proof.
  intros (H1 & H2 & H3) Hpc H. unfold clo_reg in H. destruct (clo_find (clos s) k) eqn:E; [discriminate H|].
  inv_some H. split; [|reflexivity]. unfold inv_clos; sf. rewrite !map_app. cbn [map c_k c_conn].
  split; [apply NoDup_app_single; [exact H1|apply clo_find_none_notin, E]|].
  split; [intros n Hn; apply in_app_iff in Hn as [Hn|[<-|[]]]; [apply H2, Hn|lia]|].
  rewrite Hpc. discriminate.
Qed.

Lemma inv_clos_step s e s' : inv_clos s -> step s e = Some s' -> inv_clos s'.
Proof.
  apply sweep; clear s e s'.
  - intros s p d a c H. exact H.
  - intros s (H1 & H2 & H3) _. unfold inv_clos; sf. split; [exact H1|]. split.
    + intros n Hn. specialize (H2 n Hn). lia.
    + intros _. split; [|reflexivity]. intros n Hn. specialize (H2 n Hn). lia.
  - intros s H. exact H.
  - (* closures *)
    intros s e s' (H1 & H2 & H3) Hc. unfold inv_clos. unfold step_clo, guard in Hc.
    destruct e; try discriminate Hc; bm Hc; inv_some Hc; unfold clo_enqueue, clo_live;
      repeat match goal with |- context [if ?b then _ else _] => destruct b eqn:? end; sf;
      rewrite ?keys_clo_set, ?conns_clo_set; (split; [exact H1|]); (split; [exact H2|]); try exact H3;
      intros Hpc; destruct (H3 Hpc) as [H4 H5]; (split; [exact H4|]); try exact H5;
      exfalso;
      match goal with Hx : _ && _ = true |- _ => apply andb_true_iff in Hx as [Hx _]; apply N.eqb_eq in Hx end;
      match goal with
      | Hf : clo_find _ _ = Some ?c |- _ => apply clo_find_in in Hf as [Hf _]; apply (H4 (c_conn c)); [apply in_map, Hf|assumption]
      | Hf : clo_del_find _ _ _ = Some ?c |- _ => apply clo_del_find_some in Hf as [Hf _]; apply (H4 (c_conn c)); [apply in_map, Hf|assumption]
      end.
  - (* processor *)
    intros s e s' Hi Hp. pose proof Hi as (H1 & H2 & H3).
    destruct (step_proc_mono _ _ _ Hp) as (_ & _ & M3).
    unfold_proc Hp.
    destruct (pp s) eqn:Epp; destruct e; try discriminate Hp; bm Hp; inv_some Hp; unfold inv_clos; sf;
      cbn [pre_connack] in *;
      try (split; [exact H1|]; split; [exact H2|]; first [exact H3 | discriminate | intros _; split; [apply H3; reflexivity|reflexivity] ]);
      rewrite !map_app; cbn [map c_k c_conn];
      (split; [apply NoDup_app_single; [exact H1|apply clo_find_none_notin; assumption]|]);
      (split; [intros nn Hnn; apply in_app_iff in Hnn as [Hnn|[<-|[]]]; [apply H2, Hnn|lia]|discriminate]).
  - intros s e s' H Hd. destruct (step_deq_shape _ _ _ Hd) as (se & d & dy & t1 & t2 & t3 & ->). exact H.
  - (* acker *)
    intros s e s' (H1 & H2 & H3) Ha. unfold inv_clos. unfold step_ack, guard in Ha.
    destruct (ap s) eqn:Eap; destruct e; try discriminate Ha; bm Ha; inv_some Ha;
      unfold ack_token_back; repeat match goal with |- context [match ?b with _ => _ end] => destruct b end; sf;
      (split; [exact H1|]); (split; [exact H2|]); try exact H3;
      intros Hpc; destruct (H3 Hpc) as [H4 H5]; (split; [exact H4|]);
      match goal with Hx : ackq_take _ _ = Some _ |- _ => rewrite H5 in Hx; discriminate Hx end.
  - intros s e s' (H1 & H2 & H3) Hl. destruct (step_cleanup_shape _ _ _ Hl) as (p & d & a & l & -> & Hsh).
    unfold inv_clos; sf. destruct Hsh as [(-> & -> & -> & Hn)|(Hn & Hst & -> & -> & ->)].
    + split; [exact H1|]. split; [exact H2|exact H3].
    + split; [exact H1|]. split; [exact H2|discriminate].
Qed.

Theorem inv_clos_all es s : bc_run es = Some s -> inv_clos s.
Proof. apply bc_invariant; [exact inv_clos_init|exact inv_clos_step]. Qed.
