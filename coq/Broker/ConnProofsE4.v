(* ConnProofsE4.v — c08_store_replica (ConnSpec6.v) holds of every trace the
   broker-connection model accepts: the outgoing store read off the trace (successful
   Save/Delete Outgoing, fresh Setup, dup-flagging by a resend) IS the model's outgoing
   store, so every listing at a resume equals it. *)
From Coq Require Import List NArith Bool Lia.
From GM Require Import Base.Lts Codec.Packet Session.Ids Session.Store Session.StoreProofs
  Broker.Conn Broker.ConnSpec Broker.ConnSpec6 Broker.ConnBase
  Broker.ConnProofsB1 Broker.ConnProofsB2 Broker.ConnProofsB3 Broker.ConnProofsB4.
Import ListNotations.
Open Scope N_scope.

Definition sr_todo_rel (s : bc) (td : option (N * list packet)) : Prop :=
  match pp s with
  | PResend ps => exists g, gproc s = Some g /\ td = Some (g, ps)
  | _ => td = None
  end.

Definition sr_rel (s : bc) (t : sr_st) : Prop :=
  sr_store t = s_out (sess s) /\ sr_todo_rel s (sr_todo t).

Lemma sr_step_no_todo t e : sr_todo t = None ->
  match e with
  | ENewConn | ESetup _ _ | ESave _ Outgoing _ true | EDelete _ Outgoing _ true | EAll _ Outgoing (Some _) => True
  | _ => sr_step t e = Some t
  end.
Proof.
  intros Hn. destruct e; try exact I; try reflexivity.
  - cbn [sr_step]. rewrite Hn. destruct async; reflexivity.
  - destruct d; [reflexivity|]. destruct ok; [exact I|reflexivity].
  - destruct d; [reflexivity|]. destruct ok; [exact I|reflexivity].
  - destruct d; [reflexivity|]. destruct r; [exact I|reflexivity].
Qed.

(* a send by a goroutine that is not the one re-sending *)
Lemma sr_step_tx_other t g p a ok :
  (forall g' ps, sr_todo t = Some (g', ps) -> g <> g') -> sr_step t (ETx g p a ok) = Some t.
Proof.
  intros H. cbn [sr_step]. destruct a; [|reflexivity].
  destruct (sr_todo t) as [[g' [|q rest]]|] eqn:E; try reflexivity.
  destruct (N.eqb_spec g g') as [->|Hne]; [exfalso; eapply H; reflexivity|reflexivity].
Qed.

Lemma sr_proc s t e s' g : gproc s = Some g -> ev_g e = Some g -> sr_rel s t -> step_proc s e = Some s' ->
  exists t', sr_step t e = Some t' /\ sr_store t' = s_out (sess s') /\ sr_todo_rel s' (sr_todo t').
Proof.
  intros Hg Heg [Hst Htd] H. unfold sr_todo_rel in Htd.
  unfold step_proc, proc_dispatch, die_p, guard, take_pub, take_sub, clo_reg, take_deq_if_any, take_deq in H.
  destruct (pp s) eqn:Epp; destruct e; try discriminate H; bm H; inv_some H;
    cbn [ev_g] in Heg; injection Heg as Heg; subst; unfold sr_todo_rel; sf;
    try (match goal with |- exists t', sr_step ?t0 ?e0 = Some t' /\ _ =>
           exists t0; split; [exact (sr_step_no_todo t0 e0 Htd)|split; [exact Hst|exact Htd]] end).
  - (* Setup *)
    eexists; split; [reflexivity|]. cbn [sr_store sr_todo]. split; [first [reflexivity|exact Hst]|exact Htd].
  -
    eexists; split; [reflexivity|]. cbn [sr_store sr_todo]. split; [first [reflexivity|exact Hst]|exact Htd].
  -
    eexists; split; [reflexivity|]. cbn [sr_store sr_todo]. split; [first [reflexivity|exact Hst]|exact Htd].
  - (* All: the listing is the store *)
    cbn [sr_step]. rewrite Hst.
    match goal with Hq : list_eqb packet_eqb _ _ = true |- _ => rewrite Hq end.
    eexists; split; [reflexivity|]. cbn [sr_store sr_todo]. split; [first [exact Hst|reflexivity]|reflexivity].
  - cbn [sr_step]. rewrite Hst.
    match goal with Hq : list_eqb packet_eqb _ _ = true |- _ => rewrite Hq end.
    eexists; split; [reflexivity|]. cbn [sr_store sr_todo]. split; [first [exact Hst|reflexivity]|]. exists g. split; [exact Hg|reflexivity].
  - (* a stored packet is re-sent *)
    destruct Htd as (g' & G & Htd). rewrite Hg in G. injection G as <-.
    cbn [sr_step]. rewrite Htd, N.eqb_refl.
    match goal with Hq : packet_eqb _ _ = true |- _ => rewrite Hq end. cbn [andb].
    eexists; split; [reflexivity|]. cbn [sr_store sr_todo]. split; [rewrite Hst; reflexivity|].
    first [reflexivity|exists g; split; [exact Hg|reflexivity]].
  - (* a stored packet is re-sent *)
    destruct Htd as (g' & G & Htd). rewrite Hg in G. injection G as <-.
    cbn [sr_step]. rewrite Htd, N.eqb_refl.
    match goal with Hq : packet_eqb _ _ = true |- _ => rewrite Hq end. cbn [andb].
    eexists; split; [reflexivity|]. cbn [sr_store sr_todo]. split; [rewrite Hst; reflexivity|].
    first [reflexivity|exists g; split; [exact Hg|reflexivity]].
  - (* a stored packet is re-sent *)
    destruct Htd as (g' & G & Htd). rewrite Hg in G. injection G as <-.
    cbn [sr_step]. rewrite Htd, N.eqb_refl.
    match goal with Hq : packet_eqb _ _ = true |- _ => rewrite Hq end. cbn [andb].
    eexists; split; [reflexivity|]. cbn [sr_store sr_todo]. split; [rewrite Hst; reflexivity|].
    first [reflexivity|exists g; split; [exact Hg|reflexivity]].
  - (* a stored packet is re-sent *)
    destruct Htd as (g' & G & Htd). rewrite Hg in G. injection G as <-.
    cbn [sr_step]. rewrite Htd, N.eqb_refl.
    match goal with Hq : packet_eqb _ _ = true |- _ => rewrite Hq end. cbn [andb].
    eexists; split; [reflexivity|]. cbn [sr_store sr_todo]. split; [rewrite Hst; reflexivity|].
    first [reflexivity|exists g; split; [exact Hg|reflexivity]].
  - (* a stored packet is re-sent *)
    destruct Htd as (g' & G & Htd). rewrite Hg in G. injection G as <-.
    cbn [sr_step]. rewrite Htd, N.eqb_refl.
    match goal with Hq : packet_eqb _ _ = true |- _ => rewrite Hq end. cbn [andb].
    eexists; split; [reflexivity|]. cbn [sr_store sr_todo]. split; [rewrite Hst; reflexivity|].
    first [reflexivity|exists g; split; [exact Hg|reflexivity]].
  - (* a stored packet is re-sent *)
    destruct Htd as (g' & G & Htd). rewrite Hg in G. injection G as <-.
    cbn [sr_step]. rewrite Htd, N.eqb_refl.
    match goal with Hq : packet_eqb _ _ = true |- _ => rewrite Hq end. cbn [andb].
    eexists; split; [reflexivity|]. cbn [sr_store sr_todo]. split; [rewrite Hst; reflexivity|].
    first [reflexivity|exists g; split; [exact Hg|reflexivity]].
  - (* PUBACK / PUBCOMP: the stored packet is deleted *)
    match goal with Hq : (_ =? _) = true |- _ => apply N.eqb_eq in Hq; subst end.
    eexists; split; [reflexivity|]. cbn [sr_store sr_todo]. split; [rewrite Hst; reflexivity|exact Htd].
  - (* PUBREC: PUBREL replaces the PUBLISH *)
    match goal with Hq : (_ =? _) = true |- _ => apply N.eqb_eq in Hq; subst end.
    eexists; split; [reflexivity|]. cbn [sr_store sr_todo]. split; [rewrite Hst; reflexivity|exact Htd].
Qed.

Lemma sr_deq s t e s' g : gdeq s = Some g -> ev_g e = Some g ->
  (forall g' ps, sr_todo t = Some (g', ps) -> g <> g') ->
  sr_store t = s_out (sess s) -> step_deq s e = Some s' ->
  exists t', sr_step t e = Some t' /\ sr_store t' = s_out (sess s') /\ sr_todo t' = sr_todo t.
Proof.
  intros Hg Heg Hoth Hst H. unfold step_deq, take_deq, guard in H.
  destruct (dp s) eqn:Edp; destruct e; try discriminate H; bm H; inv_some H;
    cbn [ev_g] in Heg; try injection Heg as Heg; subst; sf;
    try (exists t; split; [reflexivity|]; split; [exact Hst|reflexivity]);
    try (exists t; split; [apply sr_step_tx_other; exact Hoth|]; split;
         [repeat match goal with |- context [match ?b with _ => _ end] => destruct b end; exact Hst|reflexivity]).
  - (* Save ok *)
    match goal with Hq : packet_eqb _ _ = true |- _ => apply packet_eqb_eq in Hq; subst end.
    eexists; split; [reflexivity|]. cbn [sr_store sr_todo]. split; [rewrite Hst; reflexivity|reflexivity].
  - match goal with Hq : packet_eqb _ _ = true |- _ => apply packet_eqb_eq in Hq; subst end.
    eexists; split; [reflexivity|]. cbn [sr_store sr_todo]. split; [rewrite Hst; reflexivity|reflexivity].
Qed.

Lemma step_clo_out s e s' : step_clo s e = Some s' -> s_out (sess s') = s_out (sess s).
Proof.
  intros H. apply step_clo_cases in H.
  destruct H as [k g c id -> Hf Hs Hi Hk -> | k g c -> Hf Hs Hi Hk -> | k g c -> Hf Hs Hi -> | g id c -> Hf ->
                | g id c -> Hf -> | g c -> Hin Hs -> | g c -> Hin Hs -> | k g c -> Hf Hs -> | k g c -> Hf Hs Hi ->];
    unfold clo_enqueue; repeat match goal with |- context [if ?b then _ else _] => destruct b end; reflexivity.
Qed.

Lemma sr_todo_rel_same s s' td : pp s' = pp s -> gproc s' = gproc s -> sr_todo_rel s td -> sr_todo_rel s' td.
Proof. unfold sr_todo_rel. intros -> ->. exact (fun x => x). Qed.

(* a goroutine that is not the processor is not the one re-sending *)
Lemma sr_other s t g : is_role (gproc s) g = false -> sr_todo_rel s (sr_todo t) ->
  forall g' ps, sr_todo t = Some (g', ps) -> g <> g'.
Proof.
  intros Hr Htd g' ps E Heq. subst g'. unfold sr_todo_rel in Htd. destruct (pp s); try (rewrite E in Htd; discriminate Htd).
  destruct Htd as (g0 & G & Htd). rewrite E in Htd. injection Htd as <- _. rewrite G in Hr. cbn [is_role] in Hr.
  rewrite N.eqb_refl in Hr. discriminate Hr.
Qed.

Lemma sr_hstep s t e s' : sr_rel s t -> step s e = Some s' -> exists t', sr_step t e = Some t' /\ sr_rel s' t'.
Proof.
  intros [Hst Htd] H. apply step_cases in H.
  destruct H as [-> Hl -> | -> _ -> | -> _ -> | H | -> H
                | g s1 _ Hev _ _ Hv H | g s1 _ Hev _ _ Rp Hv H | g s1 _ Hev _ _ Rp _ Hv H | g s1 _ Hev _ _ Rp _ _ Hv H
                | g -> _ _ _ Hf ->].
  - (* ENewConn *) eexists; split; [reflexivity|]. split; [exact Hst|reflexivity].
  - exists t. split; [reflexivity|split; assumption].
  - exists t. split; [reflexivity|split; assumption].
  - (* closure *)
    exists t. split.
    + apply step_clo_event in H. destruct e; try discriminate H; try reflexivity.
      destruct d; [reflexivity|discriminate H].
    + split; [rewrite (step_clo_out _ _ _ H); exact Hst|].
      apply step_clo_shape in H. destruct H as (se & cl & dy & q & ->). exact Htd.
  - (* EClosed *)
    exists t. split; [reflexivity|].
    pose proof H as H0. apply step_cleanup_frame in H. destruct H as (_ & Hs & _ & Hg & _ & _ & Hp & _).
    split; [rewrite Hs; exact Hst|].
    destruct Hp as [Hp|Hp]; [eapply sr_todo_rel_same; eassumption|].
    unfold sr_todo_rel in *. rewrite Hp.
    unfold step_cleanup, guard in H0. destruct (lp s) eqn:El; try discriminate H0.
    + destruct (all_stopped s && negb (phase_geq_connected (ph s))) eqn:Ea; [|discriminate H0].
      apply andb_true_iff in Ea as [Ea _]. unfold all_stopped in Ea.
      apply andb_true_iff in Ea as [Ea _]. apply andb_true_iff in Ea as [Ea _]. unfold proc_can_stop in Ea.
      destruct (pp s); try discriminate Ea; exact Htd.
    + inv_some H0. sf. destruct (pp s); try exact Htd. discriminate Hp.
  - (* processor *)
    assert (Hg1 : gproc s1 = Some g) by (destruct Hv as [[-> Hg]|(_ & _ & -> & _)]; [exact Hg|reflexivity]).
    assert (HR1 : sr_rel s1 t).
    { destruct Hv as [[-> _]|(Hn & _ & -> & _)]; [split; assumption|]. split; [exact Hst|].
      unfold sr_todo_rel in *; sf. destruct (pp s); try exact Htd.
      destruct Htd as (g0 & G & _). rewrite Hn in G. discriminate G. }
    destruct (sr_proc _ _ _ _ _ Hg1 Hev HR1 H) as (t' & Ht & Hs' & Htd'). exists t'. split; [exact Ht|split; assumption].
  - (* dequeuer *)
    assert (Hg1 : gdeq s1 = Some g) by (destruct Hv as [[-> Hg]|(_ & _ & ->)]; [exact Hg|reflexivity]).
    assert (Hst1 : sr_store t = s_out (sess s1)) by (destruct Hv as [[-> _]|(_ & _ & ->)]; exact Hst).
    destruct (sr_deq s1 t e s' g Hg1 Hev (sr_other _ _ _ Rp Htd) Hst1 H) as (t' & Ht & Hs' & Htd').
    exists t'. split; [exact Ht|]. split; [exact Hs'|]. rewrite Htd'.
    apply step_deq_frame in H. destruct H as (_ & _ & Hp & Hg & _).
    eapply sr_todo_rel_same; [exact Hp|exact Hg|]. destruct Hv as [[-> _]|(_ & _ & ->)]; exact Htd.
  - (* acker *)
    exists t. split.
    + apply step_ack_event in H. destruct e; try contradiction; try reflexivity.
      cbn [ev_g] in Hev. injection Hev as ->. apply sr_step_tx_other. exact (sr_other _ _ _ Rp Htd).
    + apply step_ack_frame in H. destruct H as (Hs & _ & Hp & Hg & _). split.
      * rewrite Hs. destruct Hv as [[-> _]|(_ & _ & ->)]; exact Hst.
      * eapply sr_todo_rel_same; [exact Hp|exact Hg|]. destruct Hv as [[-> _]|(_ & _ & ->)]; exact Htd.
  - (* cleanup *)
    exists t. split.
    + apply step_cleanup_event in H. destruct e; try discriminate H; reflexivity.
    + pose proof H as H0. apply step_cleanup_frame in H. destruct H as (_ & Hs & _ & Hg & _ & _ & Hp & _). split.
      * rewrite Hs. destruct Hv as [[-> _]|(_ & _ & ->)]; exact Hst.
      * assert (Htd1 : sr_todo_rel s1 (sr_todo t)) by (destruct Hv as [[-> _]|(_ & _ & ->)]; exact Htd).
        destruct Hp as [Hp|Hp]; [eapply sr_todo_rel_same; eassumption|].
        unfold sr_todo_rel in *. rewrite Hp.
        unfold step_cleanup, guard in H0. destruct (lp s1) eqn:El; destruct e; try discriminate H0; bm H0;
          repeat match goal with Hx : _ && _ = true |- _ => apply andb_true_iff in Hx; destruct Hx as [Hx ?] end;
          try (match goal with Ha : all_stopped s1 = true |- _ =>
                 unfold all_stopped in Ha; apply andb_true_iff in Ha as [Ha _]; apply andb_true_iff in Ha as [Ha _];
                 unfold proc_can_stop in Ha; destruct (pp s1); try discriminate Ha; exact Htd1 end);
          inv_some H0; sf; destruct (pp s1); try exact Htd1; discriminate Hp.
  - (* Close() from outside *)
    exists t. split; [reflexivity|split; assumption].
Qed.

Theorem c08_store_replica_holds : forall es s, bc_run es = Some s -> c08_store_replica es = true.
Proof.
  unfold c08_store_replica. apply (scan_sound sr_step sr_rel sr_hstep).
  split; reflexivity.
Qed.
