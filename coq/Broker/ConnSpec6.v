(* ConnSpec6.v — trace clauses added by the clause-by-clause audit of C07 C08 C12 C16 C20
   (/verif/audit/*.md): situations in which a change of broker/client.go violated the
   property text but no scanner judged the observed trace (the monitor merely rejected
   it).  Same conventions as ConnSpec.v: each clause is a small scanner over the event
   list alone, [false] at the first offending event.  Definitions only; the proofs that
   every trace accepted by the monitor satisfies them are in ConnProofsE*.v. *)
From Coq Require Import List NArith Bool.
From GM Require Import Codec.Packet Session.Store Broker.Conn Broker.ConnSpec.
Import ListNotations.
Open Scope N_scope.

(* ================================================================== C07 == *)

(* C07_release_in_ack ("PUBCOMP ... only after the backend has accepted responsibility",
   "handed on exactly once"): the stored QoS 2 PUBLISH of the publisher's session is
   removed (Delete Incoming id, whatever its result) ONLY by a goroutine that is inside
   the acknowledgement closure the backend was handed with the Publish that PUBREL id
   triggered — between that closure's (first) invocation and its return, once.  So the
   message leaves the session only when the backend has accepted it: not when Publish
   merely returned, not on reconnect, not by the subscriber-side handlers.  Together with
   c20_responses (the processor sends PUBCOMP itself only for an id the session does not
   know) this is what makes "PUBCOMP => accepted" hold across retransmitted PUBRELs. *)
Record ra_st := RaSt {
  ra_last : list (N * packet);   (* per goroutine: last packet received on this connection *)
  ra_open : list (N * N);        (* closure k of a PUBREL-publish -> id: handed out, not invoked yet *)
  ra_busy : list (N * N) }.      (* goroutine g -> id: g is inside such a closure, its Delete still to come *)
Definition ra_step (s : ra_st) (e : event) : option ra_st :=
  match e with
  | ENewConn => Some (RaSt [] (ra_open s) (ra_busy s))
  | ERx g p => Some (RaSt (aput (ra_last s) g p) (ra_open s) (ra_busy s))
  | EPub g _ (Some k) =>
      match aget (ra_last s) g with
      | Some (Pubrel id) => Some (RaSt (ra_last s) ((k, id) :: ra_open s) (ra_busy s))
      | _ => Some s
      end
  | EAckCall k g =>
      match aget (ra_open s) k with
      | Some id => Some (RaSt (ra_last s) (adel (ra_open s) k) (aput (ra_busy s) g id))
      | None => Some s                         (* another kind of closure, or a repeated call (sync.Once) *)
      end
  | EDelete g Incoming id _ =>
      match aget (ra_busy s) g with
      | Some id' => if id =? id' then Some (RaSt (ra_last s) (ra_open s) (adel (ra_busy s) g)) else None
      | None => None
      end
  | EAckRet _ g => Some (RaSt (ra_last s) (ra_open s) (adel (ra_busy s) g))
  | _ => Some s
  end.
Definition c07_release_in_ack (es : list event) : bool := scan ra_step (RaSt [] [] []) es.

(* ================================================================== C20 == *)

(* C20_acted_on ("every SUBSCRIBE is answered ...", "every PUBREL ... is answered", and the
   slot/ack bookkeeping of C08/C16): no received packet is dropped on the floor.  A
   goroutine that received a packet performs the first step that packet calls for before
   it receives again (and before the connection is reported quiescent):
       CONNECT                -> Authenticate
       SUBSCRIBE / UNSUBSCRIBE-> the backend call (Subscribe / Unsubscribe)
       PUBLISH q0 / q1 / q2   -> backend Publish without / with ack closure / Save Incoming
       PUBACK, PUBCOMP        -> Delete Outgoing      PUBREC -> Save Outgoing
       PUBREL                 -> Lookup Incoming      PINGREQ -> send PINGRESP
       DISCONNECT             -> close the connection
   or it reports a client error (token-wait timeout, out-of-protocol packet: anything that
   is not CONNECT first, a second CONNECT or a server-only packet later).  A processor that
   stops because the connection is being closed reads nothing more, which the clause allows.
   With c20_responses (a closure is handed out for exactly the request in hand; every invoked
   closure's packet leaves) this gives "every request is answered unless the backend
   withholds its acknowledgement". *)
Definition nd_discharges (p : packet) (e : event) : bool :=
  match e with
  | EDie _ KClient => true
  | _ =>
    match p, e with
    | Connect _, EAuth _ _ => true
    | Subscribe _ _, ESub _ _ _ => true
    | Unsubscribe _ _, EUnsub _ _ _ => true
    | Publish _ m _, EPub _ _ None => m_qos m =? 0
    | Publish _ m _, EPub _ _ (Some _) => m_qos m =? 1
    | Publish _ m _, ESave _ Incoming _ _ => m_qos m =? 2
    | Puback _, EDelete _ Outgoing _ _ | Pubcomp _, EDelete _ Outgoing _ _ => true
    | Pubrec _, ESave _ Outgoing _ _ => true
    | Pubrel _, ELookup _ Incoming _ _ => true
    | Pingreq, ETx _ Pingresp _ _ => true
    | Disconnect, EConnClose _ => true
    | _, _ => false
    end
  end.
Definition nd_step (s : list (N * packet)) (e : event) : option (list (N * packet)) :=
  match e with
  | ENewConn => Some []
  | ERx g p => match aget s g with Some _ => None | None => Some (aput s g p) end
  | ERxErr g => match aget s g with Some _ => None | None => Some s end
  | EQuiescent => match s with [] => Some s | _ => None end
  | _ =>
      match ev_g e with
      | Some g =>
          match aget s g with
          | Some p => if nd_discharges p e then Some (adel s g) else Some s
          | None => Some s
          end
      | None => Some s
      end
  end.
Definition c20_acted_on (es : list event) : bool := scan nd_step [] es.

(* C20_closes ("anything else first closes the connection", "a second CONNECT or a
   server-only packet closes the connection", "failed authentication yields a not-authorised
   CONNACK and nothing more"): a connection does not end (EClosed) without the transport
   having been closed by the client object (conn.Close: by the dying coroutine, by
   DISCONNECT handling, or from outside); and a connection whose authentication was denied
   does not end before the CONNACK(not authorised) has been handed to the transport. *)
Record cl_st := ClSt { cl_closed : bool; cl_denied : bool; cl_sent : bool }.
Definition cl_step (s : cl_st) (e : event) : option cl_st :=
  match e with
  | ENewConn => Some (ClSt false false false)
  | EConnClose _ => Some (ClSt true (cl_denied s) (cl_sent s))
  | EAuth _ ADeny => Some (ClSt (cl_closed s) true (cl_sent s))
  | ETx _ (Connack false 5) _ _ => Some (ClSt (cl_closed s) (cl_denied s) true)
  | EClosed => if cl_closed s && (negb (cl_denied s) || cl_sent s) then Some s else None
  | _ => Some s
  end.
Definition c20_closes (es : list event) : bool := scan cl_step (ClSt true false false) es.

(* ================================================================== C16 == *)

(* C16_quiescent_dequeuing ("as long as the client acknowledges what it receives, every
   queued message is eventually delivered"; "QoS 0 deliveries do not occupy window slots"):
   whenever the connection is reported quiescent (alive, nothing moves, nothing left to
   acknowledge) the dequeuer is inside Backend.Dequeue — it holds a window slot and asks for
   the next message — i.e. it is NOT waiting for a slot and has not stopped.  The harness
   reports quiescence at the end of every stream whose subscriber acknowledged everything it
   received, also when messages are still queued (that is how a lost slot is seen without
   waiting for the token timeout). *)
Definition qd_step (t : bool) (e : event) : option bool :=
  match e with
  | ENewConn => Some false
  | EDeqCall _ => Some true
  | EDeqRet _ _ => Some false
  | EQuiescent => if t then Some t else None
  | _ => Some t
  end.
Definition c16_quiescent_dequeuing (es : list event) : bool := scan qd_step false es.

(* ================================================================== C08 == *)

(* C08_deqack_after_store ("recorded in the session before it is transmitted", "never loses
   an accepted message"): the acknowledgement a backend may ask for with a dequeued message
   (the closure returned by Dequeue, which lets the backend forget the message) is given, by
   the goroutine that dequeued it, only after that goroutine's successful Save(Outgoing) of
   the PUBLISH carrying the message (QoS 0: at once).  Otherwise a failing SavePacket leaves
   the message neither in the backend's queue nor in the session. *)
Definition da_step (s : list (N * (message * bool))) (e : event) : option (list (N * (message * bool))) :=
  match e with
  | ENewConn => Some []
  | EDeqRet g (QMsg m _) => Some (aput s g (m, false))
  | ESave g Outgoing (Publish false m _) true =>
      match aget s g with
      | Some (m', _) => if message_eqb m m' then Some (aput s g (m', true)) else Some s
      | None => Some s
      end
  | EDeqAck g =>
      match aget s g with
      | Some (m, saved) => if (m_qos m =? 0) || saved then Some s else None
      | None => None
      end
  | _ => Some s
  end.
Definition c08_deqack_after_store (es : list event) : bool := scan da_step [] es.

(* C08_store_replica ("stays recorded until the client's PUBACK or PUBCOMP arrives, and is
   retransmitted when the client reconnects"): what the session lists when a connection is
   resumed (All Outgoing) is exactly what the trace says was recorded and not yet
   acknowledged: the packets saved successfully (Save Outgoing: a PUBLISH for a dequeued
   message, a PUBREL in place of its PUBLISH), in the order of the first save of each id,
   minus those deleted successfully (Delete Outgoing, on PUBACK/PUBCOMP), starting empty at
   a fresh session, with the dup flag on the PUBLISHes that an earlier resume already
   retransmitted (the broker flags the stored object when it re-sends it).  [sr_store] is
   that replica, kept with the store operations of Session/Store.v; [sr_todo] the packets the
   goroutine that listed the store has still to re-send. *)
Record sr_st := SrSt { sr_store : store; sr_todo : option (N * list packet) }.
Definition sr_step (s : sr_st) (e : event) : option sr_st :=
  match e with
  | ENewConn => Some (SrSt (sr_store s) None)
  | ESetup _ (SOk _ fresh _ _ _) => Some (SrSt (if fresh then [] else sr_store s) (sr_todo s))
  | ESave _ Outgoing p true => Some (SrSt (store_save (sr_store s) p) (sr_todo s))
  | EDelete _ Outgoing id true => Some (SrSt (store_delete (sr_store s) id) (sr_todo s))
  | EAll g Outgoing (Some ps) =>
      if list_eqb packet_eqb ps (store_all (sr_store s))
      then Some (SrSt (sr_store s) (match ps with [] => None | _ => Some (g, ps) end)) else None
  | ETx g q true ok =>
      match sr_todo s with
      | Some (g', p :: rest) =>
          if (g =? g') && packet_eqb q (set_dup p)
          then Some (SrSt (store_save (sr_store s) (set_dup p))
                          (if ok then match rest with [] => None | _ => Some (g', rest) end else None))
          else Some s
      | _ => Some s
      end
  | _ => Some s
  end.
Definition c08_store_replica (es : list event) : bool := scan sr_step (SrSt [] None) es.
