(* EndToEndProofsBackend.v — the backend stage of the end-to-end composition, from the delivery
   log of C06/C15 (Broker/BackendLog.v: queue_step, created_step — the per-step form of
   delivery_log / C15_queue_fifo):

     deq_embeds_enq   per session and queue, what the Dequeue calls hand out embeds, in order and
                      with topic and payload intact and QoS capped, into what the delivery
                      specification says was enqueued (over the whole history, across resets of the
                      session);
     backend_order    for a flow (one publisher, one QoS class), what is dequeued for session k
                      embeds in order into that publisher's Publish calls;
     backend_once / backend_intact   nothing is handed out that was not enqueued, nor more often.

   MB only (no connection model here). *)
From Coq Require Import List NArith Bool Lia PeanoNat.
From Coq.Strings Require Import Byte.
From GM Require Import Codec.Packet Topic.MatchSpec Broker.Backend Broker.BackendSpec
  Broker.BackendProofs Broker.BackendProofsPublish Broker.BackendProofsSteps Broker.BackendOwn
  Broker.BackendProofsHist Broker.BackendLog Broker.EndToEnd Broker.EndToEndProofsLists.
Import ListNotations.
Open Scope N_scope.

(* ------------------------------------------------------------------ one step, one queue *)

Definition deq_piece (k : skey) (temp : bool) (x : bstep) : list message :=
  map snd (filter (fun y => Bool.eqb (fst y) temp) (deq_step k x)).

Lemma deq_q_cons k temp x tr : deq_q k temp (x :: tr) = deq_piece k temp x ++ deq_q k temp tr.
Proof. unfold deq_q, deq_piece. cbn [flat_map]. rewrite filter_app, map_app. reflexivity. Qed.

Lemma enqueued_cons k temp st o r st1 tr :
  enqueued k temp ((st, o, r, st1) :: tr) = enq_event k temp st o r ++ enqueued k temp tr.
Proof. reflexivity. Qed.

Lemma apply_qos_is_capped subs m : capped (apply_qos subs m) m.
Proof.
  unfold apply_qos, capped. destruct (pick_sub subs (m_topic m)) as [[f q]|]; [|repeat split; apply N.le_refl].
  destruct (q <? m_qos m) eqn:L; [|repeat split; apply N.le_refl].
  apply N.ltb_lt in L. cbn [m_topic m_payload m_qos]. repeat split. lia.
Qed.

(* a step hands out nothing from queue (k, temp), or the head of that queue, capped *)
Lemma deq_piece_cases k temp st o r st1 :
  step st o = (r, st1) ->
  (deq_piece k temp (st, o, r, st1) = [] /\ deq_count k temp st o r = 0%nat) \/
  (exists s m' m rest, get_session st k = Some s /\ deq_piece k temp (st, o, r, st1) = [m'] /\
     deq_count k temp st o r = 1%nat /\ queue temp s = m :: rest /\ capped m' m).
Proof.
  intros H. destruct o as [c id clean|t|c|c subs b|c fs|c m got|c t|c|]; try (left; split; reflexivity).
  cbn [step] in H. unfold dequeue in H. destruct (session_of st c) as [[k0 s0]|] eqn:S.
  2:{ injection H as <- <-. left. split; reflexivity. }
  pose proof (session_of_get _ _ _ _ S) as G0.
  assert (Hh : holds st c k = skey_eqb k0 k) by (apply (holds_key _ _ _ _ k S)).
  destruct t.
  - destruct (s_tq s0) as [|m q] eqn:Q; injection H as <- <-; [left; split; reflexivity|].
    unfold deq_piece, deq_count. cbn [deq_step]. rewrite Hh. destruct (skey_eqb k0 k) eqn:EK.
    + apply skey_eqb_eq in EK. subst k0. destruct temp; cbn [filter fst snd Bool.eqb map andb].
      * right. exists s0, (apply_qos (s_subs s0) m), m, q.
        split; [exact G0|split; [reflexivity|split; [reflexivity|split; [exact Q|apply apply_qos_is_capped]]]].
      * left. split; reflexivity.
    + left. rewrite andb_false_r. split; reflexivity.
  - destruct (s_sq s0) as [|m q] eqn:Q; injection H as <- <-; [left; split; reflexivity|].
    unfold deq_piece, deq_count. cbn [deq_step]. rewrite Hh. destruct (skey_eqb k0 k) eqn:EK.
    + apply skey_eqb_eq in EK. subst k0. destruct temp; cbn [filter fst snd Bool.eqb map andb].
      * left. split; reflexivity.
      * right. exists s0, (apply_qos (s_subs s0) m), m, q.
        split; [exact G0|split; [reflexivity|split; [reflexivity|split; [exact Q|apply apply_qos_is_capped]]]].
    + left. rewrite andb_false_r. split; reflexivity.
Qed.

(* the current content of queue (k, temp) *)
Definition cur (k : skey) (temp : bool) (st : state) : list message :=
  match get_session st k with Some s => queue temp s | None => [] end.

Lemma one_step k temp st o r st1 D E :
  wf st -> OwnOk st -> TempsOk st ->
  (match o with OPublish _ m _ => name_ok (m_topic m) = true | _ => True end) ->
  step st o = (r, st1) ->
  Emb capped (D ++ cur k temp st) E ->
  Emb capped ((D ++ deq_piece k temp (st, o, r, st1)) ++ cur k temp st1) (E ++ enq_event k temp st o r).
Proof.
  intros W O T Hn Es H. unfold cur in *.
  destruct (get_session st k) as [s|] eqn:G.
  - pose proof (queue_step st o temp k s W O T Hn G) as Qs. rewrite Es in Qs.
    destruct (deq_piece_cases k temp st o r st1 Es) as [(P0 & C0)|(s' & m' & m & rest & G' & P1 & C1 & HQ & Hc)].
    + rewrite P0, C0 in *. rewrite app_nil_r. cbn [skipn] in Qs.
      assert (Hdrop : Emb capped (D ++ []) (E ++ enq_event k temp st o r)).
      { rewrite app_nil_r. apply Emb_app_r. eapply Emb_drop_suffix; exact H. }
      destruct (get_session st1 k) as [s1|] eqn:G1; [|exact Hdrop].
      rewrite (Qs s1 eq_refl). destruct (reset_event k temp st o r); [exact Hdrop|].
      rewrite app_assoc. apply Emb_app; [exact H|apply Emb_refl, capped_refl].
    + rewrite G in G'. injection G' as <-. rewrite P1, C1 in *. rewrite HQ in *. cbn [skipn] in Qs.
      assert (Hbase : Emb capped (D ++ m' :: rest) E).
      { eapply (Emb_trans capped capped capped capped_trans); [exact H|].
        apply Emb_app; [apply Emb_refl, capped_refl|]. apply Emb_take; [exact Hc|apply Emb_refl, capped_refl]. }
      assert (Hdrop : Emb capped ((D ++ [m']) ++ []) (E ++ enq_event k temp st o r)).
      { rewrite app_nil_r. apply Emb_app_r. apply (Emb_drop_suffix capped _ rest). rewrite <- app_assoc. exact Hbase. }
      destruct (get_session st1 k) as [s1|] eqn:G1; [|exact Hdrop].
      rewrite (Qs s1 eq_refl). destruct (reset_event k temp st o r); [exact Hdrop|].
      rewrite <- app_assoc. cbn [app]. rewrite app_comm_cons, app_assoc.
      apply Emb_app; [exact Hbase|apply Emb_refl, capped_refl].
  - assert (P0 : deq_piece k temp (st, o, r, st1) = []).
    { destruct (deq_piece_cases k temp st o r st1 Es) as [(P0 & _)|(s' & m' & m & rest & G' & _)]; [exact P0|congruence]. }
    assert (En : enq_event k temp st o r = []) by (unfold enq_event; rewrite G; reflexivity).
    rewrite P0, En, !app_nil_r in *.
    assert (Hc : match get_session st1 k with Some s1 => queue temp s1 | None => [] end = []).
    { destruct (get_session st1 k) as [s1|] eqn:G1; [|reflexivity].
      pose proof (created_step st o k T G s1) as Cr. rewrite Es in Cr. destruct (Cr G1) as [E1 E2].
      destruct temp; cbn [queue]; assumption. }
    rewrite Hc, app_nil_r. exact H.
Qed.

Lemma deq_emb_enq_from k temp : forall ops st D E,
  wf st -> Own st -> TempsOk st -> names_ok ops = true ->
  Emb capped (D ++ cur k temp st) E ->
  Emb capped (D ++ deq_q k temp (trace st ops)) (E ++ enqueued k temp (trace st ops)).
Proof.
  induction ops as [|o ops IH]; intros st D E W O T N H; cbn [trace].
  - cbn [deq_q enqueued flat_map filter map]. rewrite !app_nil_r. eapply Emb_drop_suffix; exact H.
  - cbn [names_ok forallb] in N. apply andb_true_iff in N as [N1 N2].
    pose proof (wf_step st o W) as W1. pose proof (tempsok_step st o T) as T1. pose proof (own_step st o O) as O1.
    assert (Hn : match o with OPublish _ m _ => name_ok (m_topic m) = true | _ => True end) by (destruct o; auto).
    destruct (step st o) as [r st1] eqn:Es. cbn [snd] in *.
    rewrite deq_q_cons, enqueued_cons, !app_assoc.
    apply IH; try assumption.
    apply one_step; try assumption. apply own_ownok, O.
Qed.

(* per session and queue: dequeued embeds into enqueued *)
Theorem deq_embeds_enq cap ops k temp :
  names_ok ops = true ->
  Emb capped (deq_q k temp (trace (init cap) ops)) (enqueued k temp (trace (init cap) ops)).
Proof.
  intros N.
  apply (deq_emb_enq_from k temp ops (init cap) [] []); [apply wf_init|apply own_init|apply tempsok_init|exact N|].
  unfold cur. destruct k; cbn [get_session init st_temps st_stored alookup app]; apply Emb_nil.
Qed.

(* ------------------------------------------------------------------ the two queues of a session *)

Section TwoQueues.
  Variable f : message -> bool.

  Lemma split_filter (temp : bool) (l : list (bool * message)) :
    filter f (map snd (filter (fun x => Bool.eqb (fst x) (negb temp)) l)) = [] ->
    filter f (map snd l) = filter f (map snd (filter (fun x => Bool.eqb (fst x) temp) l)).
  Proof.
    induction l as [|[b m] l IH]; cbn [map filter fst snd]; [reflexivity|].
    destruct b, temp; cbn [Bool.eqb negb map filter snd]; intros H.
    - destruct (f m); [f_equal|]; apply IH, H.
    - destruct (f m) eqn:F; [discriminate H|apply IH, H].
    - destruct (f m) eqn:F; [discriminate H|apply IH, H].
    - destruct (f m); [f_equal|]; apply IH, H.
  Qed.
End TwoQueues.

Lemma split_count t p (l : list (bool * message)) :
  count_key t p (map snd l) =
  (count_key t p (map snd (filter (fun x => Bool.eqb (fst x) true) l)) +
   count_key t p (map snd (filter (fun x => Bool.eqb (fst x) false) l)))%nat.
Proof.
  unfold count_key. induction l as [|[b m] l IH]; cbn [map filter fst snd]; [reflexivity|].
  destruct b; cbn [Bool.eqb map filter snd]; destruct (bytes_eqb (m_topic m) t && bytes_eqb (m_payload m) p);
    cbn [length]; rewrite IH; lia.
Qed.

Lemma split_in x (l : list (bool * message)) :
  In x (map snd l) -> exists temp, In x (map snd (filter (fun y => Bool.eqb (fst y) temp) l)).
Proof.
  intros H. apply in_map_iff in H as ([b m] & <- & Hin). exists b.
  apply in_map_iff. exists (b, m). split; [reflexivity|]. apply filter_In. split; [exact Hin|].
  cbn [fst]. destruct b; reflexivity.
Qed.

(* ------------------------------------------------------------------ flows *)

Lemma filter_firstn_nil {A} (f : A -> bool) n l :
  forallb (fun x => negb (f x)) l = true -> filter f (firstn n l) = [].
Proof.
  revert n. induction l as [|x l IH]; intros [|n] H; cbn [firstn filter]; try reflexivity.
  cbn [forallb] in H. apply andb_true_iff in H as [H1 H2]. apply negb_true_iff in H1. rewrite H1. apply IH, H2.
Qed.

(* what the history enqueued of the flow on its queue are the publisher's calls, in order *)
Lemma enq_flow_pubs fl cPs k temp (tr : list bstep) :
  flow_exclusive fl cPs k temp tr = true ->
  Emb capped (filter (in_flow fl) (enqueued k temp tr)) (filter (in_flow fl) (pub_calls cPs tr)).
Proof.
  induction tr as [|[[[st o] r] st1] tr IH]; intros H; [apply Emb_nil|].
  cbn [flow_exclusive forallb] in H. apply andb_true_iff in H as [Hx Ht].
  rewrite enqueued_cons. cbn [pub_calls flat_map]. rewrite !filter_app.
  apply Emb_app; [|apply IH, Ht]. clear IH Ht.
  unfold enq_event. destruct (get_session st k) as [s|]; [|apply Emb_nil].
  destruct o as [c id clean|t|c|c subs b|c fs|c m got|c t|c|]; try apply Emb_nil.
  - (* Subscribe: the retained replay holds nothing of the flow *)
    match goal with |- context [if ?cond then _ else _] => destruct cond eqn:C end; [|apply Emb_nil].
    apply andb_true_iff in C as [C _]. apply andb_true_iff in C as [_ Hh]. rewrite Hh in Hx. cbn [negb orb] in Hx.
    rewrite (filter_firstn_nil _ _ _ Hx). apply Emb_nil.
  - (* Publish *)
    match goal with |- context [if ?cond then _ else _] => destruct cond eqn:C end; [|apply Emb_nil].
    cbn [filter]. unfold in_flow at 1. cbn [m_topic m_payload]. fold (in_flow fl m).
    destruct (in_flow fl m) eqn:F; [|apply Emb_nil].
    cbn [negb orb] in Hx. apply andb_true_iff in Hx as [Hc _]. rewrite Hc.
    apply andb_true_iff in C as [_ Hr]. destruct r; try discriminate Hr. cbn [returned andb filter]. rewrite F.
    apply Emb_take; [|apply Emb_nil]. unfold capped. cbn [m_topic m_payload m_qos]. repeat split. apply N.le_refl.
Qed.

(* ... and nothing of the flow is enqueued on the other queue *)
Lemma enq_other_noflow fl cPs k temp (tr : list bstep) :
  flow_exclusive fl cPs k temp tr = true -> filter (in_flow fl) (enqueued k (negb temp) tr) = [].
Proof.
  induction tr as [|[[[st o] r] st1] tr IH]; intros H; [reflexivity|].
  cbn [flow_exclusive forallb] in H. apply andb_true_iff in H as [Hx Ht].
  rewrite enqueued_cons, filter_app, (IH Ht), app_nil_r. clear IH Ht.
  unfold enq_event. destruct (get_session st k) as [s|]; [|reflexivity].
  destruct o as [c id clean|t|c|c subs b|c fs|c m got|c t|c|]; try reflexivity.
  - match goal with |- context [if ?cond then _ else _] => destruct cond eqn:C end; [|reflexivity].
    apply andb_true_iff in C as [C _]. apply andb_true_iff in C as [_ Hh]. rewrite Hh in Hx. cbn [negb orb] in Hx.
    apply (filter_firstn_nil _ _ _ Hx).
  - match goal with |- context [if ?cond then _ else _] => destruct cond eqn:C end; [|reflexivity].
    cbn [filter]. unfold in_flow at 1. cbn [m_topic m_payload]. fold (in_flow fl m).
    destruct (in_flow fl m) eqn:F; [|reflexivity]. exfalso.
    cbn [negb orb] in Hx. apply andb_true_iff in Hx as [_ Hq]. apply Bool.eqb_prop in Hq.
    apply andb_true_iff in C as [C _]. apply andb_true_iff in C as [C _]. apply andb_true_iff in C as [C _].
    apply Bool.eqb_prop in C. rewrite Hq in C. destruct temp; discriminate C.
Qed.

(* ------------------------------------------------------------------ the backend stage *)

(* C15, backend stage, for a flow: the messages of the flow that the Dequeue calls on session k
   hand out are, in order, messages of the publisher's Publish calls (topic and payload
   unchanged, QoS capped) — no two are swapped, none is invented or repeated *)
Theorem backend_order cap ops fl cPs k temp :
  names_ok ops = true ->
  flow_exclusive fl cPs k temp (trace (init cap) ops) = true ->
  Emb capped (filter (in_flow fl) (deq_results k (trace (init cap) ops)))
             (filter (in_flow fl) (pub_calls cPs (trace (init cap) ops))).
Proof.
  intros N X. set (tr := trace (init cap) ops) in *.
  assert (Hother : filter (in_flow fl) (deq_q k (negb temp) tr) = []).
  { apply (Emb_nil_r capped). rewrite <- (enq_other_noflow fl cPs k temp tr X).
    apply Emb_filter; [intros x y Hc; apply capped_in_flow, Hc|apply deq_embeds_enq, N]. }
  unfold deq_results. rewrite (split_filter (in_flow fl) temp _ Hother). fold (deq_q k temp tr).
  eapply (Emb_trans capped capped capped capped_trans); [apply enq_flow_pubs, X|].
  apply Emb_filter; [intros x y Hc; apply capped_in_flow, Hc|apply deq_embeds_enq, N].
Qed.

(* C06, backend stage: nothing is handed out more often than the delivery specification enqueued it *)
Theorem backend_once cap ops k t p :
  names_ok ops = true ->
  (count_key t p (deq_results k (trace (init cap) ops)) <=
   count_key t p (enqueued k true (trace (init cap) ops)) + count_key t p (enqueued k false (trace (init cap) ops)))%nat.
Proof.
  intros N. unfold deq_results. rewrite split_count. fold (deq_q k true (trace (init cap) ops)) (deq_q k false (trace (init cap) ops)).
  assert (Hk : forall x y, capped x y -> m_topic x = m_topic y /\ m_payload x = m_payload y)
    by (intros x y (A & B & _); split; assumption).
  pose proof (Emb_count capped t p _ _ Hk (deq_embeds_enq cap ops k true N)).
  pose proof (Emb_count capped t p _ _ Hk (deq_embeds_enq cap ops k false N)). lia.
Qed.

(* ... and nothing that it did not enqueue: intact (topic, payload) and QoS-capped *)
Theorem backend_intact cap ops k x :
  names_ok ops = true ->
  In x (deq_results k (trace (init cap) ops)) ->
  exists temp y, In y (enqueued k temp (trace (init cap) ops)) /\ capped x y.
Proof.
  intros N H. unfold deq_results in H. apply split_in in H as [temp H]. exists temp.
  apply (Emb_in capped _ _ x (deq_embeds_enq cap ops k temp N)). exact H.
Qed.

(* what "enqueued" means (unfolding the delivery specification enq_event): a copy of a Publish that
   returned nil while the session held a matching filter and the queue of the message's QoS class had
   room, with the retain flag cleared — or a retained message replayed by a Subscribe of the holder *)
Theorem enqueued_reading k temp (tr : list bstep) y :
  In y (enqueued k temp tr) ->
  exists st o r st1 s, In (st, o, r, st1) tr /\ get_session st k = Some s /\
    match o with
    | OPublish c m got =>
        r = ROk /\ y = Msg (m_topic m) (m_payload m) (m_qos m) false /\ use_temp m = temp /\
        has_match (s_subs s) (m_topic m) = true /\ is_full (st_cap st) (queue temp s) = false
    | OSubscribe c subs batches => temp = true /\ holds st c k = true /\ In y (concat batches)
    | _ => False
    end.
Proof.
  unfold enqueued. intros H. apply in_flat_map in H as ([[[st o] r] st1] & Hin & Hy).
  unfold enq_event in Hy. destruct (get_session st k) as [s|] eqn:G; [|destruct Hy].
  exists st, o, r, st1, s. split; [exact Hin|split; [exact G|]].
  destruct o as [c id clean|t|c|c subs b|c fs|c m got|c t|c|]; try (destruct Hy; fail).
  - match type of Hy with In _ (if ?cond then _ else _) => destruct cond eqn:C end; [|destruct Hy].
    apply andb_true_iff in C as [C _]. apply andb_true_iff in C as [C1 C2].
    destruct temp; [|discriminate C1]. repeat split; try assumption.
    revert Hy. generalize (N.to_nat (st_cap st - N.of_nat (length (s_tq s)))) as n. generalize (concat b) as l.
    induction l as [|z l IH]; intros [|n] Hy; cbn [firstn] in Hy; try (destruct Hy; fail).
    destruct Hy as [<-|Hy]; [left; reflexivity|right; eapply IH; exact Hy].
  - match type of Hy with In _ (if ?cond then _ else _) => destruct cond eqn:C end; [|destruct Hy].
    destruct Hy as [<-|[]].
    apply andb_true_iff in C as [C Hr]. apply andb_true_iff in C as [C Hf]. apply andb_true_iff in C as [Hq Hm].
    apply Bool.eqb_prop in Hq. apply negb_true_iff in Hf. destruct r; try discriminate Hr.
    repeat split; assumption.
Qed.
