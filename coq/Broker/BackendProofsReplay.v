(* BackendProofsReplay.v — the Subscribe step against replay_ok (C11 replay). *)
From Coq Require Import List NArith Bool Lia PeanoNat.
From Coq.Strings Require Import Byte.
From GM Require Import Codec.Packet Topic.MatchSpec Broker.Backend Broker.BackendSpec
  Broker.BackendProofs Broker.BackendProofsPublish Broker.BackendProofsSteps.
Import ListNotations.

Lemma remove_first_length m l : forall l', remove_first m l = Some l' -> length l = S (length l').
Proof.
  induction l as [|x l IH]; intros l'; cbn [remove_first]; [discriminate|].
  destruct (message_eqb m x); [intros H; injection H as <-; reflexivity|].
  destruct (remove_first m l) as [t|]; [|discriminate]. intros H; injection H as <-.
  cbn [length]. rewrite (IH t eq_refl). reflexivity.
Qed.

Lemma perm_b_length a : forall b, perm_b a b = true -> length a = length b.
Proof.
  induction a as [|x a IH]; intros b; cbn [perm_b].
  - destruct b; [reflexivity|discriminate].
  - destruct (remove_first x b) as [b'|] eqn:R; [|discriminate]. intros H.
    rewrite (remove_first_length _ _ _ R). cbn [length]. f_equal. apply IH; exact H.
Qed.

Lemma perm_b_submulti a : forall b, perm_b a b = true -> submulti a b = true.
Proof.
  induction a as [|x a IH]; intros b; cbn [perm_b submulti]; [reflexivity|].
  destruct (remove_first x b) as [b'|]; [apply IH|discriminate].
Qed.

Lemma submulti_firstn a : forall k b, submulti a b = true -> submulti (firstn k a) b = true.
Proof.
  induction a as [|x a IH]; intros k b; destruct k; cbn [firstn submulti]; try reflexivity.
  destruct (remove_first x b) as [b'|]; [apply IH|discriminate].
Qed.

Lemma batches_total exp : forall b, batches_ok exp b = true -> length (concat exp) = length (concat b).
Proof.
  induction exp as [|e es IH]; intros [|g gs]; cbn [batches_ok]; try discriminate; [reflexivity|].
  intros H. apply andb_true_iff in H as [H1 H2]. cbn [concat]. rewrite !app_length, (IH gs H2), (perm_b_length _ _ H1).
  reflexivity.
Qed.

Lemma replay_check_firstn exp : forall b room,
  batches_ok exp b = true -> replay_check exp (firstn room (concat b)) = true.
Proof.
  induction exp as [|e es IH]; intros [|g gs] room; cbn [batches_ok]; try discriminate.
  - intros _. cbn [concat]. rewrite firstn_nil. reflexivity.
  - intros H. apply andb_true_iff in H as [H1 H2]. cbn [concat replay_check].
    pose proof (perm_b_length _ _ H1) as L.
    rewrite firstn_app.
    destruct (Nat.ltb room (length g)) eqn:C.
    + apply Nat.ltb_lt in C.
      replace (room - length g)%nat with 0%nat by lia. rewrite firstn_O, app_nil_r.
      rewrite firstn_length, Nat.min_l by lia.
      replace (Nat.ltb room (length e)) with true by (symmetry; apply Nat.ltb_lt; lia).
      apply submulti_firstn, perm_b_submulti; exact H1.
    + apply Nat.ltb_ge in C. rewrite (firstn_all2 g) by lia.
      rewrite app_length.
      replace (Nat.ltb (length g + length (firstn (room - length g) (concat gs))) (length e)) with false
        by (symmetry; apply Nat.ltb_ge; lia).
      rewrite <- L. rewrite firstn_app, Nat.sub_diag, firstn_O, app_nil_r, firstn_all, H1. cbn [andb].
      rewrite skipn_app, Nat.sub_diag, skipn_all. cbn [skipn app].
      apply IH; exact H2.
Qed.

Theorem subscribe_replay_ok st c subs b :
  wf st ->
  let (r, st') := subscribe st c subs b in
  r <> RBadOracle -> replay_ok st (OSubscribe c subs b) r st' = true.
Proof.
  intros W. unfold subscribe, replay_ok.
  destruct (session_of st c) as [[k s]|] eqn:S; [|intros _; apply others_unchanged_refl; exact W].
  pose proof (session_of_get _ _ _ _ S) as G.
  destruct (negb (batches_ok _ b)) eqn:B; [intros H; exfalso; apply H; reflexivity|]. intros _.
  apply negb_false_iff in B.
  set (all := concat b).
  set (room := N.to_nat (st_cap st - N.of_nat (length (s_tq s)))).
  rewrite get_put, skey_eqb_refl. cbn [s_tq s_sq s_act].
  rewrite (others_unchanged_put st k s _ W G), !msgs_eqb_refl, act_eqb_refl, !andb_true_r.
  rewrite firstn_app, Nat.sub_diag, firstn_O, app_nil_r, firstn_all, msgs_eqb_refl.
  rewrite skipn_app, Nat.sub_diag, skipn_all. cbn [skipn app andb].
  rewrite (batches_total _ _ B). fold all.
  rewrite firstn_length, Nat.eqb_refl. cbn [andb].
  pose proof (replay_check_firstn _ _ room B) as RC. fold all in RC.
  destruct (Nat.leb (length all) room) eqn:L; rewrite RC; [reflexivity|]. cbn [andb].
  apply Nat.ltb_lt. apply Nat.leb_gt in L. exact L.
Qed.

(* ------------------------------------------------------------------ a replayed message is capped by a granted QoS *)
Lemma firstn_In' {A} (l : list A) : forall n x, In x (firstn n l) -> In x l.
Proof.
  induction l as [|y l IH]; intros [|n] x H; cbn [firstn] in H; try destruct H.
  - subst; left; reflexivity.
  - right; exact (IH n x H).
Qed.

Lemma remove_first_In m l : forall l', remove_first m l = Some l' -> In m l /\ (forall y, In y l' -> In y l).
Proof.
  induction l as [|x l IH]; intros l'; cbn [remove_first]; [discriminate|].
  destruct (message_eqb m x) eqn:E.
  - intros H; injection H as <-. apply message_eqb_eq in E; subst x. split; [left; reflexivity|intros y Hy; right; exact Hy].
  - destruct (remove_first m l) as [t|] eqn:R; [|discriminate]. intros H; injection H as <-.
    destruct (IH t eq_refl) as [H1 H2]. split; [right; exact H1|].
    intros y [->|Hy]; [left; reflexivity|right; apply H2; exact Hy].
Qed.

Lemma perm_b_In a : forall b x, perm_b a b = true -> In x a -> In x b.
Proof.
  induction a as [|y a IH]; intros b x H Hin; [destruct Hin|]. cbn [perm_b] in H.
  destruct (remove_first y b) as [b'|] eqn:R; [|discriminate].
  destruct (remove_first_In _ _ _ R) as [H1 H2]. destruct Hin as [->|Hin]; [exact H1|].
  apply H2. exact (IH b' x H Hin).
Qed.

Lemma last_q_some f subs : In f (map fst subs) -> last_q f subs <> None.
Proof.
  induction subs as [|[f' q] subs IH]; cbn [map fst In last_q]; [intros []|].
  intros [->|H].
  - destruct (last_q f subs); [discriminate|]. rewrite bytes_eqb_refl. discriminate.
  - specialize (IH H). destruct (last_q f subs); [discriminate|contradiction].
Qed.

(* every message a Subscribe replays comes from the retained map and matches a filter the session holds
   afterwards: at dequeue it is capped by a granted QoS of a matching filter (it never leaves uncapped for
   lack of a matching subscription) *)
Theorem subscribe_replayed_match st c subs b k s :
  session_of st c = Some (k, s) ->
  let (r, st') := subscribe st c subs b in
  r <> RBadOracle ->
  forall s' m, get_session st' k = Some s' ->
    In m (skipn (length (s_tq s)) (s_tq s')) ->
    has_match (s_subs s') (m_topic m) = true /\ exists t, In (t, m) (st_retained st).
Proof.
  intros S. unfold subscribe. rewrite S.
  destruct (negb (batches_ok _ b)) eqn:B; [intros H; exfalso; apply H; reflexivity|]. intros _.
  apply negb_false_iff in B. intros s' m G Hin. rewrite get_put, skey_eqb_refl in G. injection G as <-.
  cbn [s_tq s_subs] in *. rewrite skipn_app, Nat.sub_diag, skipn_all in Hin. cbn [skipn app] in Hin.
  apply firstn_In' in Hin.
  assert (X : exists f, In f (map fst subs) /\ In m (search_retained st f)).
  { clear S. revert b B Hin. induction subs as [|[f q] subs IH]; intros [|g gs] B Hin; cbn [map batches_ok concat] in *; try discriminate.
    - destruct Hin.
    - apply andb_true_iff in B as [B1 B2]. apply in_app_iff in Hin as [Hin|Hin].
      + exists f. split; [left; reflexivity|]. exact (perm_b_In _ _ _ B1 Hin).
      + destruct (IH gs B2 Hin) as [f' [H1 H2]]. exists f'. split; [right; exact H1|exact H2]. }
  destruct X as [f [Hf Hm]]. unfold search_retained in Hm. apply filter_In in Hm as [Hm1 Hm2].
  split.
  - pose proof (alookup_set_subs subs (s_subs s) f) as L. unfold sub_spec in L.
    destruct (last_q f subs) as [q|] eqn:LQ; [|exfalso; exact (last_q_some f subs Hf LQ)].
    apply (alookup_In bytes_eqb bytes_eqb_eq) in L.
    apply existsb_exists. exists (f, q). split; [exact L|exact Hm2].
  - apply in_map_iff in Hm1 as [[t m0] [E Hin0]]. cbn [snd] in E. subst m0. exists t; exact Hin0.
Qed.
