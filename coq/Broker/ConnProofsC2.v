(* ConnProofsC2.v — C08: the four trace clauses hold of every accepted trace. *)
From Coq Require Import List NArith Bool Lia ZArith ZifyN ZifyBool.
From GM Require Import Base.Lts Codec.Packet Session.Ids Session.Store Session.StoreProofs
  Broker.Conn Broker.ConnSpec Broker.ConnBase Broker.ConnProofsC0 Broker.ConnProofsC1.
Import ListNotations.
Open Scope N_scope.

(* the packet the dequeuer is working on *)
Definition dp_pkt (d : dpc) : option packet :=
  match d with DSave p _ | DBackAck p | DSend p => Some p | _ => None end.

(* ======================================================= c08_no_second_new *)

(* the id of the fresh QoS>0 PUBLISH the dequeuer is about to send was allocated
   and has not been used for a fresh send since *)
Definition R_ns (s : bc) (t : list (N * N)) : Prop :=
  forall m id, dp_pkt (dp s) = Some (Publish false m id) -> (m_qos m =? 0) = false -> aget t id = Some 0.

Definition not_fresh (p : packet) : Prop := match p with Publish false _ _ => False | _ => True end.

Lemma resend_not_fresh q p : packet_eqb q (set_dup p) = true -> not_fresh q.
Proof.
  destruct q; try exact (fun _ => I). destruct dup; [exact (fun _ => I)|].
  intros H. apply packet_eqb_publish_l in H. exfalso. eapply set_dup_not_fresh. exact H.
Qed.

Lemma ack_not_fresh p : is_ack_packet p = true -> not_fresh p.
Proof. destruct p; try discriminate; exact (fun _ => I). Qed.

Lemma ns_step_tx_other t g p a ok : not_fresh p -> ns_step t (ETx g p a ok) = Some t.
Proof. destruct p; try reflexivity. destruct dup; [reflexivity|contradiction]. Qed.

Ltac split_ifs := repeat match goal with |- context[if ?b then _ else _] => destruct b eqn:? end.

Lemma ns_proc s t e s' : INV s -> R_ns s t -> step_proc s e = Some s' ->
  exists t', ns_step t e = Some t' /\ R_ns s' t'.
Proof.
  intros HI HR H. unfold R_ns in *. unfold step_proc, proc_dispatch, die_p, guard in H.
  inv_step H; inv_helpers; injection H as <-; subst.
  all: try (cbn [ns_step]; eexists; split; [reflexivity|]; bcsimpl; try exact HR; fail).
  - (* Setup *) eexists; split; [reflexivity|]. destruct fresh; bcsimpl; exact HR.
  - (* Resend ok *)
    rewrite ns_step_tx_other by (eapply resend_not_fresh; eassumption).
    eexists; split; [reflexivity|]. unfold take_deq_if_any, take_deq. destruct (0 <? tdeq s); bcsimpl; exact HR.
  - rewrite ns_step_tx_other by (eapply resend_not_fresh; eassumption).
    eexists; split; [reflexivity|]. unfold take_deq_if_any, take_deq. destruct (0 <? tdeq s); bcsimpl; exact HR.
  - (* Restore *) eexists; split; [reflexivity|]. bcsimpl. cbn [dp_pkt]. discriminate.
Qed.

Lemma ns_deq s t e s' : INV s -> R_ns s t -> step_deq s e = Some s' ->
  exists t', ns_step t e = Some t' /\ R_ns s' t'.
Proof.
  intros HI HR H. unfold R_ns in *. pose proof (I_shape _ HI) as Hsh. unfold step_deq, guard in H.
  inv_step H; inv_helpers; injection H as <-; subst; cbn [dp_shape] in Hsh.
  all: try (cbn [ns_step]; eexists; split; [reflexivity|]; bcsimpl; cbn [dp_pkt]; try exact HR; try discriminate; fail).
  - (* DeqRet, qos 0 *)
    cbn [ns_step]. eexists; split; [reflexivity|]. destruct backack; bcsimpl; cbn [dp_pkt];
      intros m0 id E Hq; injection E as <- <-; congruence.
  - (* NextId *)
    cbn [ns_step]. eexists; split; [reflexivity|]. bcsimpl. cbn [dp_pkt].
    intros m0 id0 E Hq. injection E as <- <-. apply aget_aput_same.
  - (* Save ok *)
    cbn [ns_step]. eexists; split; [reflexivity|]. destruct ba; bcsimpl; cbn [dp_pkt]; exact HR.
  - (* Send ok *)
    destruct Hsh as (m & id & ->).
    match goal with Hq : packet_eqb _ _ = true |- _ => apply packet_eqb_publish_l in Hq; subst end.
    cbn [ns_step]. destruct (m_qos m =? 0) eqn:Eq.
    + eexists; split; [reflexivity|]. bcsimpl. cbn [dp_pkt]. discriminate.
    + rewrite (HR m id eq_refl Eq). eexists; split; [reflexivity|]. bcsimpl. cbn [dp_pkt]. discriminate.
  - (* Send fail *)
    destruct Hsh as (m & id & ->).
    match goal with Hq : packet_eqb _ _ = true |- _ => apply packet_eqb_publish_l in Hq; subst end.
    cbn [ns_step]. destruct (m_qos m =? 0) eqn:Eq.
    + eexists; split; [reflexivity|]. bcsimpl. cbn [dp_pkt]. discriminate.
    + rewrite (HR m id eq_refl Eq). eexists; split; [reflexivity|]. bcsimpl. cbn [dp_pkt]. discriminate.
Qed.

Lemma ns_same s s' t : same_pd s s' -> R_ns s t -> R_ns s' t.
Proof. intros Hs HR. unfold R_ns. rewrite (sp_dp _ _ Hs). exact HR. Qed.

Lemma ns_frozen s s' t : frozen s s' -> R_ns s' t.
Proof. intros Hf. unfold R_ns. rewrite (fz_dp _ _ Hf). destruct (dp s); cbn [dp_pkt]; discriminate. Qed.

Lemma ns_learned s s1 t : learned s s1 -> R_ns s t -> R_ns s1 t.
Proof.
  intros [->|(g & _ & [[_ ->]|[[_ ->]|[[_ ->]|[_ ->]]]])] HR; exact HR.
Qed.

Lemma ns_step_clo t e : clo_event e -> ns_step t e = Some t.
Proof. destruct e; try contradiction; reflexivity. Qed.

Lemma ns_step_cl t e : cl_event e -> ns_step t e = Some t.
Proof. destruct e; try contradiction; reflexivity. Qed.

Lemma ns_step_ok s t e s' : INV s -> R_ns s t -> step s e = Some s' ->
  exists t', ns_step t e = Some t' /\ R_ns s' t'.
Proof.
  intros HI HR H. apply step_inv in H.
  destruct H as [He Ho ->|He Ho ->|He Hq ->|Hc|g s1 Hg Hl Hr Ho Hp|g s1 Hg Hl Hr Ho Hnp Hd
                |g s1 Hg Hl Hr Ho Hnp Hnd Ha|g s1 Hg Hl Hr Ho Hc|He Hc|g He Ho ->].
  - subst e. exists t. split; [reflexivity|]. unfold R_ns. bcsimpl. cbn [dp_pkt]. discriminate.
  - subst e. exists t. split; [reflexivity|exact HR].
  - subst e. exists t. split; [reflexivity|exact HR].
  - apply step_clo_sum in Hc as (He & Hs & _). exists t. split; [apply ns_step_clo; exact He|eapply ns_same; eassumption].
  - eapply ns_proc; [eapply INV_learned; eassumption|eapply ns_learned; eassumption|exact Hp].
  - eapply ns_deq; [eapply INV_learned; eassumption|eapply ns_learned; eassumption|exact Hd].
  - pose proof (INV_learned _ _ Hl HI) as HI1. pose proof (step_ack_sum _ _ _ Ha) as (Hs & _ & He).
    exists t. split; [|eapply ns_same; [exact Hs|eapply ns_learned; eassumption]].
    destruct e; try contradiction; try reflexivity.
    destruct async; [|contradiction]. destruct He as (q' & Ht & _).
    apply ns_step_tx_other. apply ack_not_fresh. eapply ackq_take_is_ack; [exact Ht|apply (I_ackq _ HI1)].
  - apply step_cleanup_sum in Hc as (He & [(Hs & _)|Hf]); exists t; (split; [apply ns_step_cl; exact He|]).
    + eapply ns_same; [exact Hs|eapply ns_learned; eassumption].
    + eapply ns_frozen; exact Hf.
  - apply step_cleanup_sum in Hc as (He' & [(Hs & _)|Hf]); exists t; (split; [apply ns_step_cl; exact He'|]).
    + eapply ns_same; eassumption.
    + eapply ns_frozen; exact Hf.
  - subst e. exists t. split; [reflexivity|exact HR].
Qed.

Theorem c08_no_second_new_holds : forall es s, bc_run es = Some s -> c08_no_second_new es = true.
Proof.
  apply (scan_sound_inv ns_step INV R_ns INV_init INV_step ns_step_ok).
  unfold R_ns. cbn. discriminate.
Qed.

(* =================================================== c08_store_before_send *)

(* the scanner's entry for the dequeuer's goroutine mirrors the dequeuer's program counter *)
Definition R_sb (s : bc) (t : list (N * (message * option packet))) : Prop :=
  match dp s with
  | DNextId m _ => exists g o, gdeq s = Some g /\ aget t g = Some (m, o)
  | DSave p _ => exists g m id o, gdeq s = Some g /\ p = Publish false m id /\ aget t g = Some (m, o)
  | DBackAck p | DSend p =>
      exists g m id, gdeq s = Some g /\ p = Publish false m id /\
                     ((m_qos m =? 0) = true \/ aget t g = Some (m, Some p))
  | _ => True
  end.

Lemma sb_step_tx_other t g p a ok : not_fresh p -> sb_step t (ETx g p a ok) = Some t.
Proof. destruct p; try reflexivity. destruct dup; [reflexivity|contradiction]. Qed.

Lemma sb_frame s s' t t' :
  dp s' = dp s -> gdeq s' = gdeq s -> (forall g, gdeq s = Some g -> aget t' g = aget t g) ->
  R_sb s t -> R_sb s' t'.
Proof.
  intros Ed Eg Ht HR. unfold R_sb in *. rewrite Ed, Eg. destruct (dp s); try exact I.
  - destruct HR as (g & o & G & A). exists g, o. split; [exact G|rewrite (Ht g G); exact A].
  - destruct HR as (g & m0 & id & o & G & E & A). exists g, m0, id, o. repeat split; try assumption. rewrite (Ht g G); exact A.
  - destruct HR as (g & m0 & id & G & E & A). exists g, m0, id. repeat split; try assumption.
    destruct A as [A|A]; [left; exact A|right; rewrite (Ht g G); exact A].
  - destruct HR as (g & m0 & id & G & E & A). exists g, m0, id. repeat split; try assumption.
    destruct A as [A|A]; [left; exact A|right; rewrite (Ht g G); exact A].
Qed.

Lemma sb_proc s t e s' g : INV s -> R_sb s t -> ev_g e = Some g -> gproc s = Some g -> step_proc s e = Some s' ->
  exists t', sb_step t e = Some t' /\ R_sb s' t'.
Proof.
  intros HI HR Hg Hr H. unfold step_proc, proc_dispatch, die_p, guard in H.
  inv_step H; inv_helpers; injection H as <-; subst.
  all: try (cbn [sb_step]; eexists; split; [reflexivity|];
            (eapply sb_frame; [| |intros ? ?; reflexivity|exact HR]); reflexivity).
  - (* Setup *) cbn [sb_step]. eexists; split; [reflexivity|].
    destruct fresh; (eapply sb_frame; [| |intros ? ?; reflexivity|exact HR]); reflexivity.
  - (* Resend ok *)
    rewrite sb_step_tx_other by (eapply resend_not_fresh; eassumption). eexists; split; [reflexivity|].
    unfold take_deq_if_any, take_deq. destruct (0 <? tdeq s);
      (eapply sb_frame; [| |intros ? ?; reflexivity|exact HR]); reflexivity.
  - rewrite sb_step_tx_other by (eapply resend_not_fresh; eassumption). eexists; split; [reflexivity|].
    unfold take_deq_if_any, take_deq. destruct (0 <? tdeq s);
      (eapply sb_frame; [| |intros ? ?; reflexivity|exact HR]); reflexivity.
  - (* Restore *) cbn [sb_step]. eexists; split; [reflexivity|]. unfold R_sb. bcsimpl. exact I.
  - (* RecSave ok: the processor's own entry, if any, changes; the dequeuer is another goroutine *)
    cbn [ev_g] in Hg. injection Hg as ->. cbn [sb_step].
    destruct (aget t g) as [[m o]|] eqn:Ea; eexists; (split; [reflexivity|]);
      (eapply sb_frame; [reflexivity|reflexivity| |exact HR]); [|intros ? ?; reflexivity].
    intros gd Hd. apply aget_aput_other. intros ->. exact (I_roles _ HI _ Hr Hd).
Qed.

Lemma sb_deq s t e s' g : INV s -> R_sb s t -> ev_g e = Some g -> gdeq s = Some g -> step_deq s e = Some s' ->
  exists t', sb_step t e = Some t' /\ R_sb s' t'.
Proof.
  intros HI HR Hg Hr H. pose proof (I_shape _ HI) as Hsh. unfold step_deq, guard in H. unfold R_sb in HR.
  inv_step H; inv_helpers; injection H as <-; subst; cbn [dp_shape] in Hsh; cbn [ev_g] in Hg; try injection Hg as ->.
  all: try (cbn [sb_step]; eexists; split; [reflexivity|]; unfold R_sb; bcsimpl; try exact I; try exact HR; fail).
  - (* DeqRet qos 0 *)
    cbn [sb_step]. eexists; split; [reflexivity|]. unfold R_sb.
    destruct backack; bcsimpl; (exists g; exists m; exists 0; split; [exact Hr|split; [reflexivity|left; assumption]]).
  - (* DeqRet qos>0 *)
    cbn [sb_step]. eexists; split; [reflexivity|]. unfold R_sb. bcsimpl.
    exists g, None. split; [exact Hr|apply aget_aput_same].
  - (* NextId *)
    cbn [sb_step]. eexists; split; [reflexivity|]. unfold R_sb. bcsimpl.
    destruct HR as (g' & o & G & A). exists g', m, id, o. repeat split; assumption.
  - (* Save ok *)
    destruct HR as (g' & m & id & o & G & -> & A). rewrite Hr in G. injection G as <-.
    match goal with Hq : packet_eqb _ _ = true |- _ => apply packet_eqb_publish_l in Hq; subst end.
    cbn [sb_step]. rewrite A. eexists; split; [reflexivity|]. unfold R_sb.
    destruct ba; bcsimpl; (exists g; exists m; exists id; split; [exact Hr|split; [reflexivity|right; apply aget_aput_same]]).
  - (* Send ok *)
    destruct HR as (g' & m & id & G & -> & A). rewrite Hr in G. injection G as <-.
    match goal with Hq : packet_eqb _ _ = true |- _ => apply packet_eqb_publish_l in Hq; subst end.
    cbn [sb_step]. destruct A as [A|A].
    + rewrite A. eexists; split; [reflexivity|]. unfold R_sb. bcsimpl. exact I.
    + rewrite A, packet_eqb_publish_refl, message_eqb_refl. cbn [andb].
      destruct (m_qos m =? 0); eexists; (split; [reflexivity|]); unfold R_sb; bcsimpl; exact I.
  - (* Send fail *)
    destruct HR as (g' & m & id & G & -> & A). rewrite Hr in G. injection G as <-.
    match goal with Hq : packet_eqb _ _ = true |- _ => apply packet_eqb_publish_l in Hq; subst end.
    cbn [sb_step]. destruct A as [A|A].
    + rewrite A. eexists; split; [reflexivity|]. unfold R_sb. bcsimpl. exact I.
    + rewrite A, packet_eqb_publish_refl, message_eqb_refl. cbn [andb].
      destruct (m_qos m =? 0); eexists; (split; [reflexivity|]); unfold R_sb; bcsimpl; exact I.
Qed.

Lemma sb_same s s' t : same_pd s s' -> R_sb s t -> R_sb s' t.
Proof. intros Hs. apply sb_frame; [apply (sp_dp _ _ Hs)|apply (sp_gdeq _ _ Hs)|reflexivity]. Qed.

Lemma sb_frozen s s' t : frozen s s' -> R_sb s' t.
Proof. intros Hf. unfold R_sb. rewrite (fz_dp _ _ Hf). destruct (dp s); exact I. Qed.

Lemma sb_learned s s1 t : INV s -> learned s s1 -> R_sb s t -> R_sb s1 t.
Proof.
  intros HI [->|(g & _ & [[_ ->]|[[E ->]|[[_ ->]|[_ ->]]]])] HR; try exact HR.
  unfold R_sb in *. bcsimpl. pose proof (I_busy _ HI) as Hb.
  destruct (dp s); try exact I; exfalso; apply Hb; try reflexivity; exact E.
Qed.

Lemma sb_step_clo t e : clo_event e -> sb_step t e = Some t.
Proof. destruct e; try contradiction; reflexivity. Qed.

Lemma sb_step_cl t e : cl_event e -> sb_step t e = Some t.
Proof. destruct e; try contradiction; reflexivity. Qed.

Lemma learned_role_kept s s1 : learned s s1 ->
  (forall g, gproc s = Some g -> gproc s1 = Some g) /\ (forall g, gdeq s = Some g -> gdeq s1 = Some g).
Proof.
  intros [->|(g & _ & [[E ->]|[[E ->]|[[_ ->]|[_ ->]]]])]; split; intros g' Hg'; bcsimpl; try assumption; congruence.
Qed.

Lemma sb_step_ok s t e s' : INV s -> R_sb s t -> step s e = Some s' ->
  exists t', sb_step t e = Some t' /\ R_sb s' t'.
Proof.
  intros HI HR H. apply step_inv in H.
  destruct H as [He Ho ->|He Ho ->|He Hq ->|Hc|g s1 Hg Hl Hr Ho Hp|g s1 Hg Hl Hr Ho Hnp Hd
                |g s1 Hg Hl Hr Ho Hnp Hnd Ha|g s1 Hg Hl Hr Ho Hc|He Hc|g He Ho ->].
  - subst e. exists []. split; [reflexivity|]. unfold R_sb. bcsimpl. exact I.
  - subst e. exists t. split; [reflexivity|exact HR].
  - subst e. exists t. split; [reflexivity|exact HR].
  - apply step_clo_sum in Hc as (He & Hs & _). exists t. split; [apply sb_step_clo; exact He|eapply sb_same; eassumption].
  - eapply sb_proc; [eapply INV_learned; eassumption|exact (sb_learned _ _ _ HI Hl HR)|exact Hg|exact Hr|exact Hp].
  - eapply sb_deq; [eapply INV_learned; eassumption|exact (sb_learned _ _ _ HI Hl HR)|exact Hg|exact Hr|exact Hd].
  - pose proof (INV_learned _ _ Hl HI) as HI1. pose proof (step_ack_sum _ _ _ Ha) as (Hs & _ & He).
    exists t. split; [|eapply sb_same; [exact Hs|exact (sb_learned _ _ _ HI Hl HR)]].
    destruct e; try contradiction; try reflexivity.
    destruct async; [|contradiction]. destruct He as (q' & Ht & _).
    apply sb_step_tx_other. apply ack_not_fresh. eapply ackq_take_is_ack; [exact Ht|apply (I_ackq _ HI1)].
  - apply step_cleanup_sum in Hc as (He & [(Hs & _)|Hf]); exists t; (split; [apply sb_step_cl; exact He|]).
    + eapply sb_same; [exact Hs|exact (sb_learned _ _ _ HI Hl HR)].
    + eapply sb_frozen; exact Hf.
  - apply step_cleanup_sum in Hc as (He' & [(Hs & _)|Hf]); exists t; (split; [apply sb_step_cl; exact He'|]).
    + eapply sb_same; eassumption.
    + eapply sb_frozen; exact Hf.
  - subst e. exists t. split; [reflexivity|]. eapply sb_frame; [| |reflexivity|exact HR]; reflexivity.
Qed.

Theorem c08_store_before_send_holds : forall es s, bc_run es = Some s -> c08_store_before_send es = true.
Proof.
  apply (scan_sound_inv sb_step INV R_sb INV_init INV_step sb_step_ok).
  unfold R_sb. cbn. exact I.
Qed.

(* ==================================================== c08_kept_until_acked *)

(* while the processor is about to delete / replace an outgoing entry, the packet
   it received last is the acknowledgement that justifies it; while the dequeuer
   is about to save, its goroutine has dequeued a message *)
Definition R_ku (s : bc) (t : ku_st) : Prop :=
  (match pp s with
   | PAckDel id => exists g, gproc s = Some g /\
                     (aget (ku_last t) g = Some (Puback id) \/ aget (ku_last t) g = Some (Pubcomp id))
   | PRecSave id => exists g, gproc s = Some g /\ aget (ku_last t) g = Some (Pubrec id)
   | _ => True
   end) /\
  (match dp s with
   | DNextId _ _ | DSave _ _ => exists g, gdeq s = Some g /\ nmem g (ku_deq t) = true
   | _ => True
   end).

Lemma ku_frame s s' t t' :
  pp s' = pp s -> dp s' = dp s -> gproc s' = gproc s -> gdeq s' = gdeq s ->
  (forall g, gproc s = Some g -> aget (ku_last t') g = aget (ku_last t) g) ->
  (forall g, nmem g (ku_deq t) = true -> nmem g (ku_deq t') = true) ->
  R_ku s t -> R_ku s' t'.
Proof.
  intros Ep Ed Egp Egd Hl Hd [H1 H2]. unfold R_ku. rewrite Ep, Ed, Egp, Egd. split.
  - destruct (pp s); try exact I.
    + destruct H1 as (g & G & A). exists g. split; [exact G|rewrite (Hl g G); exact A].
    + destruct H1 as (g & G & A). exists g. split; [exact G|rewrite (Hl g G); exact A].
  - destruct (dp s); try exact I; destruct H2 as (g & G & A); exists g; (split; [exact G|apply Hd; exact A]).
Qed.

Ltac ku_same_t HR := (eapply ku_frame; [| | | |intros ? ?; reflexivity|intros ? Hx; exact Hx|exact HR]); reflexivity.

Lemma ku_proc s t e s' g : INV s -> R_ku s t -> ev_g e = Some g -> gproc s = Some g -> step_proc s e = Some s' ->
  exists t', ku_step t e = Some t' /\ R_ku s' t'.
Proof.
  intros HI HR Hg Hr H. unfold step_proc, proc_dispatch, die_p, guard in H.
  pose proof HR as HR'. unfold R_ku in HR'.
  inv_step H; inv_helpers; injection H as <-; subst; cbv beta iota in HR'; cbn [ev_g] in Hg; try injection Hg as ->.
  all: try (cbn [ku_step]; eexists; split; [reflexivity|]; ku_same_t HR).
  all: try (cbn [ku_step]; eexists; split; [reflexivity|]; destruct HR as [HR1 HR2]; split; bcsimpl; cbn [ku_last ku_deq];
            try exact I; try exact HR2; fail).
  - (* Setup *) cbn [ku_step]. eexists; split; [reflexivity|]. destruct HR as [HR1 HR2].
    destruct fresh; split; bcsimpl; try exact I; exact HR2.
  - (* All *) cbn [ku_step]. eexists; split; [reflexivity|]. destruct HR as [HR1 HR2].
    destruct l; split; bcsimpl; try exact I; exact HR2.
  - (* Resend ok *) cbn [ku_step]. eexists; split; [reflexivity|]. destruct HR as [HR1 HR2].
    unfold take_deq_if_any, take_deq. destruct (0 <? tdeq s); destruct l; split; bcsimpl; try exact I; exact HR2.
  - cbn [ku_step]. eexists; split; [reflexivity|]. destruct HR as [HR1 HR2].
    unfold take_deq_if_any, take_deq. destruct (0 <? tdeq s); split; bcsimpl; try exact I; exact HR2.
  - (* Rx Puback *) cbn [ku_step]. eexists; split; [reflexivity|]. destruct HR as [HR1 HR2].
    split; bcsimpl; cbn [ku_last ku_deq]; [|exact HR2]. exists g. split; [exact Hr|left; apply aget_aput_same].
  - (* Rx Pubrec *) cbn [ku_step]. eexists; split; [reflexivity|]. destruct HR as [HR1 HR2].
    split; bcsimpl; cbn [ku_last ku_deq]; [|exact HR2]. exists g. split; [exact Hr|apply aget_aput_same].
  - (* Rx Pubcomp *) cbn [ku_step]. eexists; split; [reflexivity|]. destruct HR as [HR1 HR2].
    split; bcsimpl; cbn [ku_last ku_deq]; [|exact HR2]. exists g. split; [exact Hr|right; apply aget_aput_same].
  - (* Delete ok *)
    destruct HR' as [HR1 HR2]. destruct HR1 as (g' & G & A). rewrite Hr in G. injection G as <-.
    match goal with Hq : (_ =? _) = true |- _ => apply N.eqb_eq in Hq; subst end.
    cbn [ku_step]. destruct A as [A|A]; rewrite A, N.eqb_refl; (eexists; split; [reflexivity|]);
      split; bcsimpl; try exact I; exact HR2.
  - (* Delete fail *)
    destruct HR' as [HR1 HR2]. destruct HR1 as (g' & G & A). rewrite Hr in G. injection G as <-.
    match goal with Hq : (_ =? _) = true |- _ => apply N.eqb_eq in Hq; subst end.
    cbn [ku_step]. destruct A as [A|A]; rewrite A, N.eqb_refl; (eexists; split; [reflexivity|]);
      split; bcsimpl; try exact I; exact HR2.
  - (* RecSave ok *)
    destruct HR' as [HR1 HR2]. destruct HR1 as (g' & G & A). rewrite Hr in G. injection G as <-.
    match goal with Hq : (_ =? _) = true |- _ => apply N.eqb_eq in Hq; subst end.
    cbn [ku_step]. rewrite A, N.eqb_refl. eexists; split; [reflexivity|]. split; bcsimpl; try exact I; exact HR2.
  - destruct HR' as [HR1 HR2]. destruct HR1 as (g' & G & A). rewrite Hr in G. injection G as <-.
    match goal with Hq : (_ =? _) = true |- _ => apply N.eqb_eq in Hq; subst end.
    cbn [ku_step]. rewrite A, N.eqb_refl. eexists; split; [reflexivity|]. split; bcsimpl; try exact I; exact HR2.
Qed.

Lemma ku_deq' s t e s' g : INV s -> R_ku s t -> ev_g e = Some g -> gdeq s = Some g -> step_deq s e = Some s' ->
  exists t', ku_step t e = Some t' /\ R_ku s' t'.
Proof.
  intros HI HR Hg Hr H. pose proof (I_shape _ HI) as Hsh. unfold step_deq, guard in H.
  pose proof HR as HR'. unfold R_ku in HR'.
  inv_step H; inv_helpers; injection H as <-; subst; cbv beta iota in HR';
    cbn [dp_shape] in Hsh; cbn [ev_g] in Hg; try injection Hg as ->.
  all: try (cbn [ku_step]; eexists; split; [reflexivity|]; destruct HR as [HR1 HR2]; split; bcsimpl; cbn [ku_last ku_deq];
            try exact I; try exact HR1; try exact HR2; fail).
  - (* DeqRet qos 0 *) cbn [ku_step]. eexists; split; [reflexivity|]. destruct HR as [HR1 HR2].
    destruct backack; split; bcsimpl; cbn [ku_last ku_deq]; try exact I; exact HR1.
  - (* DeqRet qos>0 *) cbn [ku_step]. eexists; split; [reflexivity|]. destruct HR as [HR1 HR2].
    split; bcsimpl; cbn [ku_last ku_deq]; [exact HR1|]. exists g. split; [exact Hr|].
    cbn [nmem existsb]. rewrite N.eqb_refl. reflexivity.
  - (* NextId *) cbn [ku_step]. eexists; split; [reflexivity|]. destruct HR as [HR1 _]. destruct HR' as [_ HR2].
    split; bcsimpl; [exact HR1|exact HR2].
  - (* Save ok *)
    destruct Hsh as (m & id & -> & Hq). destruct HR as [HR1 _]. destruct HR' as [_ (g' & G & A)].
    rewrite Hr in G. injection G as <-.
    match goal with Hx : packet_eqb _ _ = true |- _ => apply packet_eqb_publish_l in Hx; subst end.
    cbn [ku_step]. rewrite A, Hq. cbn [andb negb]. eexists; split; [reflexivity|].
    destruct ba; split; bcsimpl; try exact I; exact HR1.
  - (* Save fail *)
    destruct Hsh as (m & id & -> & Hq). destruct HR as [HR1 _]. destruct HR' as [_ (g' & G & A)].
    rewrite Hr in G. injection G as <-.
    match goal with Hx : packet_eqb _ _ = true |- _ => apply packet_eqb_publish_l in Hx; subst end.
    cbn [ku_step]. rewrite A, Hq. cbn [andb negb]. eexists; split; [reflexivity|].
    split; bcsimpl; try exact I; exact HR1.
  - (* Send ok *) destruct Hsh as (m & id & ->). destruct HR as [HR1 _].
    cbn [ku_step]. eexists; split; [reflexivity|]. destruct (m_qos m =? 0); split; bcsimpl; try exact I; exact HR1.
Qed.

Lemma ku_same s s' t : same_pd s s' -> R_ku s t -> R_ku s' t.
Proof.
  intros Hs. apply ku_frame; [apply (sp_pp _ _ Hs)|apply (sp_dp _ _ Hs)|apply (sp_gproc _ _ Hs)|apply (sp_gdeq _ _ Hs)
                             |reflexivity|intros ? Hx; exact Hx].
Qed.

Lemma ku_frozen s s' t : frozen s s' -> R_ku s' t.
Proof. intros Hf. unfold R_ku. rewrite (fz_pp _ _ Hf), (fz_dp _ _ Hf). split; [exact I|destruct (dp s); exact I]. Qed.

Lemma ku_learned s s1 t : INV s -> learned s s1 -> R_ku s t -> R_ku s1 t.
Proof.
  intros HI Hl [H1 H2]. destruct (learned_role_kept _ _ Hl) as [Kp Kd].
  assert (Ep : pp s1 = pp s /\ dp s1 = dp s).
  { destruct Hl as [->|(g & _ & [[_ ->]|[[_ ->]|[[_ ->]|[_ ->]]]])]; split; reflexivity. }
  destruct Ep as [Ep Ed]. unfold R_ku. rewrite Ep, Ed. split.
  - destruct (pp s); try exact I; destruct H1 as (g & G & A); exists g; (split; [apply Kp; exact G|exact A]).
  - destruct (dp s); try exact I; destruct H2 as (g & G & A); exists g; (split; [apply Kd; exact G|exact A]).
Qed.

Lemma ku_step_clo t e : clo_event e -> ku_step t e = Some t.
Proof. destruct e; try contradiction; try reflexivity. destruct d; [reflexivity|contradiction]. Qed.

Lemma ku_step_cl t e : cl_event e -> ku_step t e = Some t.
Proof. destruct e; try contradiction; reflexivity. Qed.

Lemma ku_step_ok s t e s' : INV s -> R_ku s t -> step s e = Some s' ->
  exists t', ku_step t e = Some t' /\ R_ku s' t'.
Proof.
  intros HI HR H. apply step_inv in H.
  destruct H as [He Ho ->|He Ho ->|He Hq ->|Hc|g s1 Hg Hl Hr Ho Hp|g s1 Hg Hl Hr Ho Hnp Hd
                |g s1 Hg Hl Hr Ho Hnp Hnd Ha|g s1 Hg Hl Hr Ho Hc|He Hc|g He Ho ->].
  - subst e. eexists. split; [reflexivity|]. unfold R_ku. bcsimpl. split; exact I.
  - subst e. exists t. split; [reflexivity|exact HR].
  - subst e. exists t. split; [reflexivity|exact HR].
  - apply step_clo_sum in Hc as (He & Hs & _). exists t. split; [apply ku_step_clo; exact He|eapply ku_same; eassumption].
  - eapply ku_proc; [eapply INV_learned; eassumption|exact (ku_learned _ _ _ HI Hl HR)|exact Hg|exact Hr|exact Hp].
  - eapply ku_deq'; [eapply INV_learned; eassumption|exact (ku_learned _ _ _ HI Hl HR)|exact Hg|exact Hr|exact Hd].
  - pose proof (step_ack_sum _ _ _ Ha) as (Hs & _ & He).
    exists t. split; [|eapply ku_same; [exact Hs|exact (ku_learned _ _ _ HI Hl HR)]].
    destruct e; try contradiction; reflexivity.
  - apply step_cleanup_sum in Hc as (He & [(Hs & _)|Hf]); exists t; (split; [apply ku_step_cl; exact He|]).
    + eapply ku_same; [exact Hs|exact (ku_learned _ _ _ HI Hl HR)].
    + eapply ku_frozen; exact Hf.
  - apply step_cleanup_sum in Hc as (He' & [(Hs & _)|Hf]); exists t; (split; [apply ku_step_cl; exact He'|]).
    + eapply ku_same; eassumption.
    + eapply ku_frozen; exact Hf.
  - subst e. exists t. split; [reflexivity|]. ku_same_t HR.
Qed.

Theorem c08_kept_until_acked_holds : forall es s, bc_run es = Some s -> c08_kept_until_acked es = true.
Proof.
  apply (scan_sound_inv ku_step INV R_ku INV_init INV_step ku_step_ok).
  unfold R_ku. cbn. split; exact I.
Qed.
