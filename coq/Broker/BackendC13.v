(* BackendC13.v — the STATE part of C13 on the MemoryBackend model: the active-connection
   map is a partial function consistent with the sessions (unique_ok, a state invariant
   for histories without kill timeout), and a non-clean Setup over an existing stored
   session hands that session over (handover_ok, a step clause). *)
From Coq Require Import List NArith Bool Lia.
From Coq.Strings Require Import Byte.
From GM Require Import Codec.Packet Topic.MatchSpec Broker.Backend Broker.BackendSpec
  Broker.BackendProofs Broker.BackendProofsPublish Broker.BackendProofsSteps Broker.BackendProofsHist.
Import ListNotations.
Open Scope N_scope.

Definition unique_ok (st : state) : bool :=
  (* client id -> active connection is a partial function *)
  nodup_keys (st_active st) &&
  (* every entry names the connection that holds the session of that id *)
  forallb (fun e =>
     match alookup N.eqb (snd e) (st_sess st) with
     | Some k => match get_session st k with
                 | Some s => option_eqb N.eqb (s_act s) (Some (snd e))
                 | None => false end && bytes_eqb (cid_of st (snd e)) (fst e)
     | None => false
     end) (st_active st) &&
  (* a session's active connection is not a terminated one, holds that session, and is the
     registered connection of its client id *)
  forallb (fun e =>
     match s_act (snd e) with
     | None => true
     | Some c => negb (mem_n c (st_term st)) &&
                 option_eqb skey_eqb (alookup N.eqb c (st_sess st)) (Some (fst e)) &&
                 (is_nil (cid_of st c) ||
                  option_eqb N.eqb (alookup bytes_eqb (cid_of st c) (st_active st)) (Some c))
     end) (sessions st).

(* handover *)
Definition handed_over (st st' : state) (id : bytes) (c : conn) : bool :=
  match alookup bytes_eqb id (st_stored st), alookup bytes_eqb id (st_stored st') with
  | Some s, Some s' =>
      subs_eqb (s_subs s) (s_subs s') && msgs_eqb (s_sq s) (s_sq s') && is_nil (s_tq s') &&
      option_eqb N.eqb (s_act s') (Some c)
  | _, _ => false
  end.

Definition handover_ok (st : state) (o : op) (r : result) (st' : state) : bool :=
  match r with
  | RSetup true =>
      match o with
      | OSetup c id false => handed_over st st' id c
      | OSetupEnd false =>
          match st_pending st with
          | Some p => negb (p_clean p) && handed_over st st' (p_id p) (p_conn p)
          | None => false
          end
      | _ => false
      end
  | _ => true
  end.

(* the temporary queue of a stored session that is resumed starts empty: whatever was replayed to (or queued at QoS 0
   for) an earlier connection is not handed to the new one *)
Definition resume_clean_ok (st : state) (o : op) (r : result) (st' : state) : bool :=
  match r with
  | RSetup true =>
      let empty id := match alookup bytes_eqb id (st_stored st') with Some s' => is_nil (s_tq s') | None => false end in
      match o with
      | OSetup _ id _ => empty id
      | OSetupEnd _ => match st_pending st with Some p => empty (p_id p) | None => false end
      | _ => false
      end
  | _ => true
  end.

Lemma setup_finish_handover st c id clean st' :
  setup_finish st c id clean = (RSetup true, st') ->
  clean = false /\ handed_over st st' id c = true.
Proof.
  unfold setup_finish. destruct clean; [discriminate|].
  destruct (alookup bytes_eqb id (st_stored st)) as [s|] eqn:E; [|discriminate].
  intros H; injection H as <-. split; [reflexivity|].
  unfold handed_over. rewrite E. cbn [st_stored].
  rewrite (alookup_aset bytes_eqb bytes_eqb_eq), bytes_eqb_refl. cbn [s_subs s_sq s_tq s_act is_nil].
  rewrite subs_eqb_refl, msgs_eqb_refl, act_eqb_refl. reflexivity.
Qed.

Theorem step_handover_ok st o : let (r, st') := step st o in handover_ok st o r st' = true.
Proof.
  destruct (step st o) as [r st'] eqn:E. unfold handover_ok.
  destruct r as [[|]| | | | | | | | | | | |]; try reflexivity.
  destruct o as [c id clean|t|c|c subs b|c fs|c m got|c t|c|]; cbn [step] in E.
  - unfold setup in E. destruct (st_pending st); [discriminate|].
    destruct (alookup N.eqb c (st_cid st)); [discriminate|]. cbn [st_closing] in E.
    destruct (st_closing st); [discriminate|]. destruct (is_nil id); [discriminate|].
    match type of E with context [existing_session ?s id] => set (st1 := s) in * end.
    destruct (existing_session st1 id) as [[a b0 c0 [c1|]]|]; [discriminate| |];
      apply setup_finish_handover in E as [-> H]; exact H.
  - unfold setup_end in E. destruct (st_pending st) as [p|]; [|discriminate].
    destruct t; [discriminate|]. destruct (mem_n (p_old p) (st_closed st)); [|discriminate].
    apply setup_finish_handover in E as [-> H]. exact H.
  - unfold mark_closed in E. destruct (mem_n c (st_term st)); discriminate.
  - unfold subscribe in E. destruct (session_of st c) as [[k s]|]; [|discriminate].
    destruct (negb _); [discriminate|]. destruct (Nat.leb _ _); discriminate.
  - unfold unsubscribe in E. destruct (session_of st c) as [[k s]|]; discriminate.
  - rewrite publish_unfold in E. destruct (pub_stuck _ _ _); [destruct (own_refused st c m); discriminate|]. destruct (pub_err st c m); discriminate.
  - unfold dequeue in E. destruct (session_of st c) as [[k s]|]; [|discriminate].
    destruct t; [destruct (s_tq s)|destruct (s_sq s)]; discriminate.
  - unfold terminate in E. destruct (alookup N.eqb c (st_cid st)) as [id|]; [|discriminate].
    destruct (mem_n c (st_term st) || _); discriminate.
  - discriminate.
Qed.

Theorem handover_along cap ops : holds_along handover_ok cap ops.
Proof.
  apply holds_along_intro. intros st o _ _. pose proof (step_handover_ok st o) as X.
  destruct (step st o). intros _; exact X.
Qed.

(* the partial-function part of unique_ok holds along every history *)
Lemma active_nodup_step st o : NoDup (map fst (st_active st)) -> NoDup (map fst (st_active (snd (step st o)))).
Proof.
  intros W.
  assert (SF : forall s c id clean, NoDup (map fst (st_active s)) ->
               NoDup (map fst (st_active (snd (setup_finish s c id clean))))).
  { intros s c id clean Ws. unfold setup_finish.
    destruct clean; [|destruct (alookup bytes_eqb id (st_stored s))]; cbn [snd st_active];
      apply (nodup_aset bytes_eqb bytes_eqb_eq); exact Ws. }
  destruct o as [c id clean|t|c|c subs b|c fs|c m got|c t|c|]; cbn [step].
  - unfold setup. destruct (st_pending st); [exact W|]. destruct (alookup N.eqb c (st_cid st)); [exact W|].
    cbn [st_closing]. destruct (st_closing st); [exact W|]. destruct (is_nil id); [exact W|].
    match goal with |- context [existing_session ?s id] => set (st1 := s) end.
    destruct (existing_session st1 id) as [[a b0 c0 [c1|]]|]; [exact W| |]; apply SF; exact W.
  - unfold setup_end. destruct (st_pending st) as [p|]; [|exact W]. destruct t; [exact W|].
    destruct (mem_n (p_old p) (st_closed st)); [apply SF; exact W|exact W].
  - unfold mark_closed. destruct (mem_n c (st_term st)); exact W.
  - unfold subscribe. destruct (session_of st c) as [[k s]|]; [|exact W]. destruct (negb _); [exact W|].
    destruct k; exact W.
  - unfold unsubscribe. destruct (session_of st c) as [[k s]|]; [|exact W]. destruct k; exact W.
  - rewrite publish_unfold. destruct (pub_stuck _ _ _); exact W.
  - unfold dequeue. destruct (session_of st c) as [[k s]|]; [|exact W].
    destruct t; [destruct (s_tq s)|destruct (s_sq s)]; try exact W; destruct k; exact W.
  - unfold terminate. destruct (alookup N.eqb c (st_cid st)) as [id|]; [|exact W].
    destruct (mem_n c (st_term st) || _); [exact W|].
    cbn [snd st_active]. destruct (option_eqb N.eqb (alookup bytes_eqb id (st_active st)) (Some c)); [apply (nodup_aremove bytes_eqb bytes_eqb_eq)|]; exact W.
  - exact W.
Qed.

Theorem active_partial_function cap ops : nodup_keys (st_active (run_state (init cap) ops)) = true.
Proof.
  apply nodup_keys_iff. unfold run_state.
  assert (G : forall ops st, NoDup (map fst (st_active st)) -> NoDup (map fst (st_active (snd (run st ops))))).
  { clear. induction ops as [|o ops IH]; intros st W; cbn [run]; [exact W|].
    pose proof (active_nodup_step st o W) as W1. destruct (step st o) as [r st1]; cbn [snd] in W1.
    specialize (IH st1 W1). destruct (run st1 ops); exact IH. }
  apply G. constructor.
Qed.

Theorem step_resume_clean_ok st o : let (r, st') := step st o in resume_clean_ok st o r st' = true.
Proof.
  pose proof (step_handover_ok st o) as H. destruct (step st o) as [r st']. unfold handover_ok, resume_clean_ok in *.
  destruct r as [[|]| | | | | | | | | | | |]; try reflexivity.
  assert (X : forall id c, handed_over st st' id c = true ->
              match alookup bytes_eqb id (st_stored st') with Some s' => is_nil (s_tq s') | None => false end = true).
  { intros id c. unfold handed_over. destruct (alookup bytes_eqb id (st_stored st)); [|discriminate].
    destruct (alookup bytes_eqb id (st_stored st')); [|discriminate]. rewrite !andb_true_iff. intros [[[_ _] E] _]. exact E. }
  destruct o as [c id clean|t|c|c subs b|c fs|c m got|c t|c|]; try discriminate.
  - destruct clean; [discriminate|]. exact (X id c H).
  - destruct t; [discriminate|]. destruct (st_pending st) as [p|]; [|discriminate].
    apply andb_true_iff in H as [_ H]. exact (X _ _ H).
Qed.

Theorem resume_clean_along cap ops : holds_along resume_clean_ok cap ops.
Proof.
  apply holds_along_intro. intros st o _ _. pose proof (step_resume_clean_ok st o) as X.
  destruct (step st o). intros _; exact X.
Qed.
