(* EndToEndProofsLists.v — list facts about order embeddings (Emb, Broker/EndToEnd.v) used by the
   composition proofs.  Nothing here mentions a model. *)
From Coq Require Import List NArith Bool Lia PeanoNat.
From Coq.Strings Require Import Byte.
From GM Require Import Codec.Packet Broker.EndToEnd.
Import ListNotations.

Section EmbFacts.
  Context {A B : Type}.
  Variable R : A -> B -> Prop.

  Lemma Emb_nil_r xs : Emb R xs [] -> xs = [].
  Proof. intros H. inversion H; reflexivity. Qed.

  Lemma Emb_app xs1 ys1 xs2 ys2 : Emb R xs1 ys1 -> Emb R xs2 ys2 -> Emb R (xs1 ++ xs2) (ys1 ++ ys2).
  Proof.
    intros H1 H2. induction H1 as [ys|xs y ys H IH|x xs y ys Hr H IH]; cbn [app].
    - induction ys as [|y ys IH]; cbn [app]; [exact H2|apply Emb_skip, IH].
    - apply Emb_skip, IH.
    - apply Emb_take; [exact Hr|exact IH].
  Qed.

  Lemma Emb_app_r xs ys zs : Emb R xs ys -> Emb R xs (ys ++ zs).
  Proof. intros H. rewrite <- (app_nil_r xs). apply Emb_app; [exact H|apply Emb_nil]. Qed.

  Lemma Emb_app_l xs ys zs : Emb R xs ys -> Emb R xs (zs ++ ys).
  Proof. intros H. induction zs as [|z zs IH]; cbn [app]; [exact H|apply Emb_skip, IH]. Qed.

  (* a shorter list embeds as well *)
  Lemma Emb_tail x xs ys : Emb R (x :: xs) ys -> Emb R xs ys.
  Proof.
    intros H. remember (x :: xs) as l eqn:E. revert x xs E.
    induction H as [ys|l y ys H IH|x' l y ys Hr H IH]; intros x xs E; [discriminate E| |].
    - apply Emb_skip. eapply IH; exact E.
    - injection E as -> ->. apply Emb_skip, H.
  Qed.

  Lemma Emb_drop_prefix xs1 xs2 ys : Emb R (xs1 ++ xs2) ys -> Emb R xs2 ys.
  Proof. induction xs1 as [|x xs1 IH]; cbn [app]; intros H; [exact H|apply IH; eapply Emb_tail; exact H]. Qed.

  Lemma Emb_drop_suffix xs1 xs2 ys : Emb R (xs1 ++ xs2) ys -> Emb R xs1 ys.
  Proof.
    intros H. remember (xs1 ++ xs2) as l eqn:E. revert xs1 E.
    induction H as [ys|l y ys H IH|x l y ys Hr H IH]; intros xs1 E.
    - destruct xs1; [apply Emb_nil|discriminate E].
    - apply Emb_skip, IH, E.
    - destruct xs1 as [|x1 xs1]; [apply Emb_nil|]. cbn [app] in E. injection E as -> ->.
      apply Emb_take; [exact Hr|apply IH; reflexivity].
  Qed.

  Lemma Emb_length xs ys : Emb R xs ys -> (length xs <= length ys)%nat.
  Proof. intros H. induction H; cbn [length]; lia. Qed.

  Lemma Emb_in xs ys x : Emb R xs ys -> In x xs -> exists y, In y ys /\ R x y.
  Proof.
    intros H. induction H as [ys|xs y ys H IH|x' xs y ys Hr H IH]; intros Hin.
    - destruct Hin.
    - destruct (IH Hin) as (y' & Hy & Hr). exists y'. split; [right; exact Hy|exact Hr].
    - destruct Hin as [<-|Hin]; [exists y; split; [left; reflexivity|exact Hr]|].
      destruct (IH Hin) as (y' & Hy & Hr'). exists y'. split; [right; exact Hy|exact Hr'].
  Qed.

  (* filtering both sides by predicates that R respects *)
  Lemma Emb_filter (f : A -> bool) (g : B -> bool) xs ys :
    (forall x y, R x y -> f x = g y) -> Emb R xs ys -> Emb R (filter f xs) (filter g ys).
  Proof.
    intros Hfg H. induction H as [ys|xs y ys H IH|x xs y ys Hr H IH]; cbn [filter].
    - apply Emb_nil.
    - destruct (g y); [apply Emb_skip, IH|exact IH].
    - rewrite (Hfg x y Hr). destruct (g y); [apply Emb_take; [exact Hr|exact IH]|exact IH].
  Qed.

  (* the greedy procedure decides Emb *)
  Variable r : A -> B -> bool.
  Hypothesis r_spec : forall x y, r x y = true <-> R x y.

  Lemma embb_sound xs ys : embb r xs ys = true -> Emb R xs ys.
  Proof.
    revert xs. induction ys as [|y ys IH]; intros [|x xs] H; cbn [embb] in H; try apply Emb_nil; [discriminate H|].
    destruct (r x y) eqn:E; [apply Emb_take; [apply r_spec, E|apply IH, H]|apply Emb_skip, IH, H].
  Qed.

  Lemma embb_complete xs ys : Emb R xs ys -> embb r xs ys = true.
  Proof.
    revert xs. induction ys as [|y ys IH]; intros xs H.
    - apply Emb_nil_r in H. subst xs. reflexivity.
    - destruct xs as [|x xs]; [reflexivity|]. cbn [embb]. destruct (r x y) eqn:E.
      + apply IH. inversion H as [|? ? ? H1|? ? ? ? Hr H1]; subst; [eapply Emb_tail; exact H1|exact H1].
      + apply IH. inversion H as [|? ? ? H1|? ? ? ? Hr H1]; subst; [exact H1|].
        apply r_spec in Hr. congruence.
  Qed.
End EmbFacts.

Lemma Emb_refl {A} (R : A -> A -> Prop) xs : (forall x, R x x) -> Emb R xs xs.
Proof. intros Hr. induction xs as [|x xs IH]; [apply Emb_nil|apply Emb_take; [apply Hr|exact IH]]. Qed.

Lemma Emb_mono {A B} (R S : A -> B -> Prop) xs ys : (forall x y, R x y -> S x y) -> Emb R xs ys -> Emb S xs ys.
Proof.
  intros HRS H. induction H as [ys|xs y ys H IH|x xs y ys Hr H IH];
    [apply Emb_nil|apply Emb_skip, IH|apply Emb_take; [apply HRS, Hr|exact IH]].
Qed.

(* embeddings compose *)
Lemma Emb_trans {A B C} (R : A -> B -> Prop) (S : B -> C -> Prop) (T : A -> C -> Prop) :
  (forall x y z, R x y -> S y z -> T x z) ->
  forall ys zs, Emb S ys zs -> forall xs, Emb R xs ys -> Emb T xs zs.
Proof.
  intros HT ys zs H. induction H as [zs|ys z zs H IH|y ys z zs Hs H IH]; intros xs Hx.
  - apply Emb_nil_r in Hx. subst xs. apply Emb_nil.
  - apply Emb_skip, IH, Hx.
  - inversion Hx as [|? ? ? H1|x xs' ? ? Hr H1]; subst.
    + apply Emb_nil.
    + apply Emb_skip, IH, H1.
    + apply Emb_take; [eapply HT; eassumption|apply IH, H1].
Qed.

Lemma prefix_Emb {A} (R : A -> A -> Prop) xs ys : (forall x, R x x) -> prefix_of xs ys -> Emb R xs ys.
Proof. intros Hr [rest ->]. apply Emb_app_r, Emb_refl, Hr. Qed.

Lemma prefix_filter {A} (f : A -> bool) xs ys : prefix_of xs ys -> prefix_of (filter f xs) (filter f ys).
Proof. intros [rest ->]. exists (filter f rest). apply filter_app. Qed.

Lemma filter_flat_map {A B} (f : B -> bool) (g : A -> list B) l :
  filter f (flat_map g l) = flat_map (fun x => filter f (g x)) l.
Proof. induction l as [|x l IH]; cbn [flat_map]; [reflexivity|]. rewrite filter_app, IH. reflexivity. Qed.

Lemma filter_nil_iff {A} (f : A -> bool) l : filter f l = [] <-> forall x, In x l -> f x = false.
Proof.
  induction l as [|x l IH]; cbn [filter]; [split; [intros _ y []|reflexivity]|].
  destruct (f x) eqn:E; split.
  - discriminate.
  - intros H. specialize (H x (or_introl eq_refl)). congruence.
  - intros H y [<-|Hy]; [exact E|apply IH; assumption].
  - intros H. apply IH. intros y Hy. apply H. right. exact Hy.
Qed.

(* ------------------------------------------------------------------ messages *)

Lemma bytes_eqb_true a b : bytes_eqb a b = true <-> a = b.
Proof.
  split.
  - revert b; induction a as [|x a IH]; intros [|y b] H; cbn [bytes_eqb] in H; try discriminate; [reflexivity|].
    apply andb_true_iff in H as [H1 H2]. apply Byte.byte_dec_bl in H1. f_equal; [exact H1|apply IH, H2].
  - intros <-. induction a as [|x a IH]; cbn [bytes_eqb]; [reflexivity|].
    rewrite IH, andb_true_r. apply Byte.byte_dec_lb. reflexivity.
Qed.

Lemma capped_refl m : capped m m.
Proof. unfold capped. repeat split. apply N.le_refl. Qed.

Lemma capped_trans x y z : capped x y -> capped y z -> capped x z.
Proof. unfold capped. intros (A1 & A2 & A3) (B1 & B2 & B3). repeat split; try congruence. eapply N.le_trans; eassumption. Qed.

Lemma capped_in_flow fl x y : capped x y -> in_flow fl x = in_flow fl y.
Proof. unfold capped, in_flow. intros (-> & -> & _). reflexivity. Qed.

Lemma cappedb_spec x m : cappedb x m = true <-> capped x m.
Proof.
  unfold cappedb, capped. rewrite !andb_true_iff, !bytes_eqb_true, N.leb_le. tauto.
Qed.

Lemma carriesb_spec x c : carriesb x c = true <-> carries x c.
Proof.
  unfold carriesb, carries. rewrite existsb_exists. split; intros (m & Hm & H); exists m; (split; [exact Hm|]); apply cappedb_spec, H.
Qed.

Lemma capped_carries x y c : capped x y -> carries y c -> carries x c.
Proof. intros H (m & Hm & Hc). exists m. split; [exact Hm|eapply capped_trans; eassumption]. Qed.

(* an embedding that keeps topic and payload does not increase any count *)
Lemma Emb_count (R : message -> message -> Prop) t p xs ys :
  (forall x y, R x y -> m_topic x = m_topic y /\ m_payload x = m_payload y) ->
  Emb R xs ys -> (count_key t p xs <= count_key t p ys)%nat.
Proof.
  intros HR H. unfold count_key. eapply Emb_length. eapply Emb_filter; [|exact H].
  intros x y Hxy. cbv beta. destruct (HR x y Hxy) as [-> ->]. reflexivity.
Qed.

Lemma count_key_app t p xs ys : count_key t p (xs ++ ys) = (count_key t p xs + count_key t p ys)%nat.
Proof. unfold count_key. rewrite filter_app, app_length. reflexivity. Qed.
