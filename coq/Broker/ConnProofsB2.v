(* ConnProofsB2.v — C07_pubrec_after_store: a PUBREC is sent only by the processor,
   for the QoS 2 PUBLISH it received last, after that PUBLISH was saved.
   Model invariant used: nobody else ever holds a PUBREC to send (inv_tx). *)
From Coq Require Import List NArith Bool Lia.
From GM Require Import Base.Lts Codec.Packet Session.Ids Session.Store Session.StoreProofs
  Broker.Conn Broker.ConnSpec Broker.ConnBase Broker.ConnProofsB1.
Import ListNotations.
Open Scope N_scope.

(* ------------------------------------------------------------ store values *)

Definition vals_ok (Q : packet -> bool) (st : store) : Prop := Forall (fun e => Q (snd e) = true) st.

Lemma vals_ok_put Q st i p : vals_ok Q st -> Q p = true -> vals_ok Q (store_put st i p).
Proof.
  intros H Hp. induction H as [|[j q] st Hq H IH]; cbn [store_put].
  - constructor; [exact Hp|constructor].
  - destruct (i =? j); constructor; try assumption.
Qed.

Lemma vals_ok_save Q st p : vals_ok Q st -> Q p = true -> vals_ok Q (store_save st p).
Proof. intros H Hp. unfold store_save. destruct (get_id p); [apply vals_ok_put; assumption|exact H]. Qed.

Lemma vals_ok_delete Q st i : vals_ok Q st -> vals_ok Q (store_delete st i).
Proof.
  intros H. induction H as [|[j q] st Hq H IH]; cbn [store_delete]; [constructor|].
  destruct (i =? j); [exact H|constructor; assumption].
Qed.

Lemma vals_ok_all Q st : vals_ok Q st -> Forall (fun p => Q p = true) (store_all st).
Proof. intros H. unfold store_all. induction H; cbn [map]; constructor; assumption. Qed.

Lemma ackq_take_inv (P : packet -> Prop) q p q' :
  ackq_take q p = Some q' -> Forall P q -> Forall P q' /\ P p.
Proof.
  revert q'. induction q as [|x q IH]; intros q' H HF; cbn [ackq_take] in H; [discriminate H|].
  inversion HF as [|? ? Hx HF']; subst.
  destruct (packet_eqb x p) eqn:E.
  - injection H as <-. apply packet_eqb_eq in E. subst. split; assumption.
  - destruct (ackq_take q p) as [r|] eqn:Er; [|discriminate H]. injection H as <-.
    destruct (IH r eq_refl HF') as [H1 H2]. split; [constructor; assumption|exact H2].
Qed.

(* ------------------------------------------ nobody else sends a PUBREC *)

Definition not_pubrec (p : packet) : bool := match p with Pubrec _ => false | _ => true end.

Definition pp_tx_ok (x : ppc) : Prop :=
  match x with PResend ps => Forall (fun p => not_pubrec p = true) ps | _ => True end.
Definition dp_tx_ok (x : dpc) : Prop :=
  match x with DSave p _ | DBackAck p | DSend p => not_pubrec p = true | _ => True end.

Definition inv_tx (s : bc) : Prop :=
  Forall (fun p => not_pubrec p = true) (ackq s) /\
  vals_ok not_pubrec (s_out (sess s)) /\
  pp_tx_ok (pp s) /\ dp_tx_ok (dp s).

Lemma not_pubrec_set_dup p : not_pubrec p = true -> not_pubrec (set_dup p) = true.
Proof. destruct p; cbn; auto. Qed.

Lemma not_pubrec_ack a : not_pubrec (ack_packet a) = true.
Proof. destruct a; reflexivity. Qed.

Lemma inv_tx_init : inv_tx bc_init.
Proof. repeat split; cbn; constructor. Qed.

Lemma inv_tx_clo s e s' : inv_tx s -> step_clo s e = Some s' -> inv_tx s'.
Proof.
  intros (Hq & Ho & Hp & Hd) H. unfold step_clo, guard, clo_enqueue in H.
  destruct e; try discriminate H; bm H; inv_some H; unfold inv_tx; sf;
    repeat match goal with |- context [if ?b then _ else _] => destruct b end; sf;
    repeat split; try assumption;
    try (apply Forall_app; split; [assumption|constructor; [first [apply not_pubrec_ack|reflexivity]|constructor]]).
Qed.

Lemma inv_tx_cleanup s e s' : inv_tx s -> step_cleanup s e = Some s' -> inv_tx s'.
Proof.
  intros (Hq & Ho & Hp & Hd) H. unfold step_cleanup, guard in H.
  destruct (lp s) eqn:Elp; destruct e; try discriminate H; bm H; inv_some H; unfold inv_tx; sf;
    repeat split; try assumption; try exact I; destruct (dp s); exact I.
Qed.

Lemma inv_tx_deq s e s' : inv_tx s -> step_deq s e = Some s' -> inv_tx s'.
Proof.
  intros (Hq & Ho & Hp & Hd) H. unfold step_deq, take_deq, guard in H.
  destruct (dp s) eqn:Edp; destruct e; try discriminate H; bm H; inv_some H; unfold inv_tx; sf;
    cbn [dp_tx_ok] in *; repeat split; try assumption; try exact I; try reflexivity;
    try (apply vals_ok_save; assumption).
Qed.

Lemma inv_tx_ack s e s' : inv_tx s -> step_ack s e = Some s' -> inv_tx s'.
Proof.
  intros (Hq & Ho & Hp & Hd) H. unfold step_ack in H.
  destruct (ap s) eqn:Eap; destruct e; try discriminate H; bm H; inv_some H; unfold inv_tx, ack_token_back;
    try match goal with |- context [match ?p with Connect _ => _ | _ => _ end] => destruct p end; sf;
    repeat split; try assumption;
    match goal with Ht : ackq_take _ _ = Some _ |- _ => eapply ackq_take_inv in Ht; [apply Ht|exact Hq] end.
Qed.

Lemma inv_tx_proc s e s' : inv_tx s -> step_proc s e = Some s' -> inv_tx s'.
Proof.
  intros (Hq & Ho & Hp & Hd) H.
  unfold step_proc, proc_dispatch, die_p, guard, take_pub, take_sub, clo_reg, take_deq_if_any, take_deq in H.
  destruct (pp s) eqn:Epp; destruct e; try discriminate H; bm H; inv_some H; unfold inv_tx; sf;
    cbn [pp_tx_ok] in *; repeat split; try assumption; try exact I; try apply Forall_nil.
  all: try (match goal with Hl : list_eqb packet_eqb _ _ = true |- _ =>
              apply (list_eqb_eq _ packet_eqb_eq) in Hl; rewrite Hl; apply vals_ok_all; assumption end).
  all: try (apply vals_ok_save; [assumption|]).
  all: try (apply vals_ok_delete; assumption).
  all: try (inversion Hp; subst; try apply not_pubrec_set_dup; assumption).
  all: try reflexivity.
  all: try (match goal with Hl : list_eqb packet_eqb ?l _ = true |- Forall _ ?l0 =>
              apply (list_eqb_eq _ packet_eqb_eq) in Hl; apply vals_ok_all in Ho; rewrite <- Hl in Ho; exact Ho end).
Qed.

Lemma inv_tx_roles s p d a c : inv_tx (set_roles s p d a c) <-> inv_tx s.
Proof. unfold inv_tx; sf; tauto. Qed.

Lemma inv_tx_step s e s' : inv_tx s -> step s e = Some s' -> inv_tx s'.
Proof.
  intros Hi H. apply step_cases in H.
  destruct H as [-> _ -> | -> _ -> | -> _ -> | H | -> H
                | g s1 _ _ _ _ Hv H | g s1 _ _ _ _ _ Hv H | g s1 _ _ _ _ _ _ Hv H | g s1 _ _ _ _ _ _ _ Hv H
                | g -> _ _ _ _ ->].
  - destruct Hi as (Hq & Ho & Hp & Hd). unfold inv_tx; sf. repeat split; try assumption; constructor.
  - exact Hi.
  - exact Hi.
  - eapply inv_tx_clo; eassumption.
  - eapply inv_tx_cleanup; eassumption.
  - eapply inv_tx_proc; [|exact H]. destruct Hv as [[-> _]|(_ & _ & -> & _)]; [exact Hi|apply inv_tx_roles, Hi].
  - eapply inv_tx_deq; [|exact H]. destruct Hv as [[-> _]|(_ & _ & ->)]; [exact Hi|apply inv_tx_roles, Hi].
  - eapply inv_tx_ack; [|exact H]. destruct Hv as [[-> _]|(_ & _ & ->)]; [exact Hi|apply inv_tx_roles, Hi].
  - eapply inv_tx_cleanup; [|exact H]. destruct Hv as [[-> _]|(_ & _ & ->)]; [exact Hi|apply inv_tx_roles, Hi].
  - destruct Hi as (Hq & Ho & Hp & Hd). unfold inv_tx; sf. repeat split; assumption.
Qed.

(* ------------------------------------------------- frames (projection form) *)

Lemma step_cleanup_frame s e s' : step_cleanup s e = Some s' ->
  conn_no s' = conn_no s /\ sess s' = sess s /\ clos s' = clos s /\ gproc s' = gproc s /\
  ackq s' = ackq s /\ dying s' = dying s /\ (pp s' = pp s \/ pp s' = PDone) /\ lp s' <> LNone.
Proof.
  intros H. unfold step_cleanup, guard in H.
  destruct (lp s) eqn:Elp; destruct e; try discriminate H; bm H; inv_some H; sf;
    repeat split; try reflexivity; try (left; reflexivity); try (right; reflexivity); discriminate.
Qed.

(* events of the cleanup, the dequeuer (other than its sends), the closures *)
Definition cleanup_event (e : event) : bool :=
  match e with EPub _ _ None | ETerm _ _ | EClosed | EPubRet _ _ | EDie _ KBackend => true | _ => false end.
Lemma step_cleanup_event s e s' : step_cleanup s e = Some s' -> cleanup_event e = true.
Proof.
  intros H. unfold step_cleanup in H.
  destruct (lp s); destruct e; try discriminate H; try reflexivity;
    try (destruct k; try discriminate H; reflexivity).
Qed.

(* ------------------------------------------------- c07_pubrec_after_store *)

Definition pr_rel (s : bc) (t : list (N * (N * bool))) : Prop :=
  match pp s with
  | PPub2W p => exists g d m id b, gproc s = Some g /\ p = Publish d m id /\ aget t g = Some (id, b)
  | PPubrec id => exists g, gproc s = Some g /\ aget t g = Some (id, true)
  | _ => True
  end.

Definition pr_quiet (e : event) : bool :=
  match e with ENewConn | ERx _ _ | ESave _ Incoming _ _ | ETx _ _ _ _ => false | _ => true end.

Lemma pr_step_quiet t e : pr_quiet e = true -> pr_step t e = Some t.
Proof. destruct e; cbn [pr_quiet]; intros H; try discriminate H; try reflexivity. destruct d; [discriminate H|reflexivity]. Qed.

Lemma pr_step_tx t g p a ok : not_pubrec p = true -> pr_step t (ETx g p a ok) = Some t.
Proof. destruct p; cbn [not_pubrec]; intros H; try discriminate H; reflexivity. Qed.

Lemma pr_rel_same s s' t : pp s' = pp s -> gproc s' = gproc s -> pr_rel s t -> pr_rel s' t.
Proof. unfold pr_rel. intros -> ->. exact (fun x => x). Qed.

Lemma pr_clo s t e s' : pr_rel s t -> step_clo s e = Some s' -> exists t', pr_step t e = Some t' /\ pr_rel s' t'.
Proof.
  intros HR H. exists t. split.
  - apply pr_step_quiet. apply step_clo_event in H. destruct e; try discriminate H; reflexivity.
  - apply step_clo_shape in H. destruct H as (se & cl & dy & q & ->). exact HR.
Qed.

Lemma pr_cleanup s t e s' : pr_rel s t -> step_cleanup s e = Some s' -> exists t', pr_step t e = Some t' /\ pr_rel s' t'.
Proof.
  intros HR H. exists t. split.
  - apply pr_step_quiet. apply step_cleanup_event in H. destruct e; try discriminate H; reflexivity.
  - apply step_cleanup_frame in H. destruct H as (_ & _ & _ & Hg & _ & _ & [Hp|Hp] & _).
    + eapply pr_rel_same; eassumption.
    + unfold pr_rel. rewrite Hp. exact I.
Qed.

Lemma pr_deq s t e s' : inv_tx s -> pr_rel s t -> step_deq s e = Some s' -> exists t', pr_step t e = Some t' /\ pr_rel s' t'.
Proof.
  intros (_ & _ & _ & Hd) HR H. exists t. split.
  - unfold step_deq in H. destruct (dp s) eqn:Edp; destruct e; try discriminate H; try reflexivity.
    + destruct d; [discriminate H|reflexivity].
    + destruct async; [|discriminate H]. destruct (packet_eqb p p0) eqn:E; [|discriminate H].
      apply packet_eqb_eq in E. subst p0. apply pr_step_tx. exact Hd.
  - apply step_deq_shape in H. destruct H as (se & d & dy & t1 & t2 & t3 & ->). exact HR.
Qed.

Lemma pr_ack s t e s' : inv_tx s -> pr_rel s t -> step_ack s e = Some s' -> exists t', pr_step t e = Some t' /\ pr_rel s' t'.
Proof.
  intros (Hq & _) HR H. exists t. split.
  - unfold step_ack in H. destruct (ap s) eqn:Eap; destruct e; try discriminate H; try reflexivity.
    destruct async; [|discriminate H]. destruct (ackq_take (ackq s) p) eqn:Et; [|discriminate H].
    apply pr_step_tx. eapply ackq_take_inv in Et; [|exact Hq]. exact (proj2 Et).
  - apply step_ack_shape in H. destruct H as (a & dy & t1 & t2 & t3 & q & ->). exact HR.
Qed.

Lemma pr_proc s t e s' g : gproc s = Some g -> ev_g e = Some g -> inv_tx s -> pr_rel s t ->
  step_proc s e = Some s' -> exists t', pr_step t e = Some t' /\ pr_rel s' t'.
Proof.
  intros Hg Heg (_ & _ & Hp & _) HR H.
  unfold step_proc, proc_dispatch, die_p, guard, take_pub, take_sub, clo_reg, take_deq_if_any, take_deq in H.
  unfold pr_rel in HR.
  destruct (pp s) eqn:Epp; destruct e; try discriminate H; bm H; inv_some H;
    cbn [ev_g] in Heg; injection Heg as Heg; subst;
    unfold pr_rel; sf;
    try (exists t; split; [reflexivity|exact I]).
  all: try (eexists; split; [unfold pr_step; try match goal with |- context [m_qos ?m =? 2] => destruct (m_qos m =? 2) end; reflexivity|exact I]).
  all: try (match goal with Hq : packet_eqb ?p (set_dup ?p0) = true |- _ =>
              apply packet_eqb_eq in Hq; subst p; exists t; split; [|exact I];
              apply pr_step_tx, not_pubrec_set_dup; inversion Hp; assumption end).
  all: try (match goal with |- exists t', pr_step _ (ERx _ (Publish _ ?m _)) = _ /\ True =>
              unfold pr_step; destruct (m_qos m =? 2); eexists; (split; [reflexivity|exact I]) end).
  - (* PLoop, ERx QoS 2 PUBLISH *)
    unfold pr_step. rewrite Heqb1. eexists. split; [reflexivity|].
    exists g, dup, m, id, false. repeat split; [exact Hg|apply aget_aput_eq].
  - (* PPub2W, save succeeded *)
    destruct HR as (g' & d & m & id & b & Hg' & -> & Ha). rewrite Hg in Hg'. injection Hg' as <-.
    apply packet_eqb_eq in Heqb. subst p0. cbn [get_id] in Heqo. injection Heqo as <-.
    unfold pr_step. rewrite Ha, N.eqb_refl. eexists. split; [reflexivity|].
    exists g. split; [exact Hg|apply aget_aput_eq].
  - (* PPub2W, save failed *)
    exists t. split; [|exact I]. destruct p0; reflexivity.
  - (* PPubrec *)
    destruct HR as (g' & Hg' & Ha). rewrite Hg in Hg'. injection Hg' as <-.
    apply N.eqb_eq in Heqb0. subst id0. exists t. split; [|exact I].
    unfold pr_step. rewrite Ha, N.eqb_refl. reflexivity.
  - destruct HR as (g' & Hg' & Ha). rewrite Hg in Hg'. injection Hg' as <-.
    apply N.eqb_eq in Heqb0. subst id0. exists t. split; [|exact I].
    unfold pr_step. rewrite Ha, N.eqb_refl. reflexivity.
Qed.

Lemma pr_rel_roles s t p d a c : gproc s = None -> pr_rel s t -> pr_rel (set_roles s p d a c) t.
Proof.
  unfold pr_rel; sf. intros Hn. destruct (pp s); try exact (fun x => x).
  - intros (g & d' & m & id & b & Hg & _). congruence.
  - intros (g & Hg & _). congruence.
Qed.

Lemma pr_rel_roles_same s t d a c : pr_rel s t -> pr_rel (set_roles s (gproc s) d a c) t.
Proof. unfold pr_rel; sf. exact (fun x => x). Qed.

Lemma pr_hstep s t e s' : inv_tx s -> pr_rel s t -> step s e = Some s' ->
  exists t', pr_step t e = Some t' /\ pr_rel s' t'.
Proof.
  intros Hi HR H. apply step_cases in H.
  destruct H as [-> _ -> | -> _ -> | -> _ -> | H | -> H
                | g s1 _ Hev _ _ Hv H | g s1 _ _ _ _ _ Hv H | g s1 _ _ _ _ _ _ Hv H | g s1 _ _ _ _ _ _ _ Hv H
                | g -> _ _ _ _ ->].
  - exists []. split; [reflexivity|exact I].
  - exists t. split; [reflexivity|exact HR].
  - exists t. split; [reflexivity|exact HR].
  - eapply pr_clo; eassumption.
  - eapply pr_cleanup; eassumption.
  - destruct Hv as [[-> Hg]|(Hn & _ & -> & _)].
    + eapply pr_proc; eassumption.
    + eapply (pr_proc (set_roles s (Some g) (gdeq s) (gack s) (gcl s)) t e s' g); [reflexivity|exact Hev|apply inv_tx_roles, Hi|apply pr_rel_roles; assumption|exact H].
  - destruct Hv as [[-> Hg]|(Hn & _ & ->)].
    + eapply pr_deq; eassumption.
    + eapply pr_deq; [apply inv_tx_roles, Hi|apply pr_rel_roles_same, HR|exact H].
  - destruct Hv as [[-> Hg]|(Hn & _ & ->)].
    + eapply pr_ack; eassumption.
    + eapply pr_ack; [apply inv_tx_roles, Hi|apply pr_rel_roles_same, HR|exact H].
  - destruct Hv as [[-> Hg]|(Hn & _ & ->)].
    + eapply pr_cleanup; eassumption.
    + eapply pr_cleanup; [apply pr_rel_roles_same, HR|exact H].
  - exists t. split; [reflexivity|exact HR].
Qed.

Theorem pubrec_after_store : forall es s, bc_run es = Some s -> c07_pubrec_after_store es = true.
Proof.
  unfold c07_pubrec_after_store.
  apply (scan_sound_inv pr_step inv_tx pr_rel inv_tx_init inv_tx_step pr_hstep). exact I.
Qed.
