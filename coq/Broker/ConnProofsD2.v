(* ConnProofsD2.v — model-level progress statements for C14 about the broker-connection
   model BC (Conn.v): once the three coroutines have stopped the cleanup events are
   enabled one after the other up to EClosed (C14_cleanup_enabled), and while the
   connection is dying every coroutine is at a stopping point or has an enabled next
   event of its own (C14_dying_stops).  Plus the model invariants they need. *)
From Coq Require Import List NArith Bool Lia.
From Coq.Strings Require Import Byte.
From GM Require Import Base.Lts Codec.Packet Session.Ids Session.Store Session.StoreProofs
  Broker.Conn Broker.ConnSpec Broker.ConnBase Broker.ConnProofsD0.
Import ListNotations.
Open Scope N_scope.

(* ============================================================ invariants == *)

(* a goroutine has at most one role *)
Definition roles_ok (s : bc) : Prop :=
  forall g,
    (gproc s = Some g -> gdeq s <> Some g /\ gack s <> Some g /\ gcl s <> Some g) /\
    (gdeq s = Some g -> gack s <> Some g /\ gcl s <> Some g) /\
    (gack s = Some g -> gcl s <> Some g).

(* the cleanup goroutine is known exactly while the cleanup is under way *)
Definition cl_ok (s : bc) : Prop :=
  match lp s with
  | LNone => gcl s = None
  | LWillR | LWillDie | LTerm | LTermDie => gcl s <> None
  | _ => True
  end.

(* a coroutine that has made a step is known by its goroutine *)
Definition known_ok (s : bc) : Prop :=
  (match pp s with PFirst | PDone => True | _ => gproc s <> None end) /\
  (match dp s with DOff | DToken | DDone => True | _ => gdeq s <> None end) /\
  (match ap s with ADieLog | ADieClose => gack s <> None | _ => True end).

(* the resend list is never empty *)
Definition resend_ok (s : bc) : Prop := forall ps, pp s = PResend ps -> ps <> [].

Definition inv (s : bc) : Prop := roles_ok s /\ cl_ok s /\ known_ok s /\ resend_ok s.

Lemma not_some_of_false r g : is_role r g = false -> r <> Some g.
Proof. apply is_role_false. Qed.

Lemma roles_ok_learn s g p d a c :
  roles_ok s -> role_free s g = true ->
  (p = Some g /\ d = gdeq s /\ a = gack s /\ c = gcl s) \/
  (p = gproc s /\ d = Some g /\ a = gack s /\ c = gcl s) \/
  (p = gproc s /\ d = gdeq s /\ a = Some g /\ c = gcl s) \/
  (p = gproc s /\ d = gdeq s /\ a = gack s /\ c = Some g) ->
  roles_ok (set_roles s p d a c).
Proof.
  intros Hok Hf Hc g'. destruct (role_free_inv _ _ Hf) as (F1 & F2 & F3 & F4).
  apply is_role_false in F1, F2, F3, F4. destruct (Hok g') as (H1 & H2 & H3). sf.
  destruct Hc as [(-> & -> & -> & ->)|[(-> & -> & -> & ->)|[(-> & -> & -> & ->)|(-> & -> & -> & ->)]]].
  - split; [intros E; injection E as <-; repeat split; assumption|split; assumption].
  - split; [intros E; destruct (H1 E) as (_ & Ha & Hb); repeat split; try assumption; intros E'; injection E' as <-; contradiction|].
    split; [intros E; injection E as <-; split; assumption|exact H3].
  - split; [intros E; destruct (H1 E) as (Ha & _ & Hb); repeat split; try assumption; intros E'; injection E' as <-; contradiction|].
    split; [intros E; destruct (H2 E) as (_ & Hb); split; [intros E'; injection E' as <-; contradiction|exact Hb]|].
    intros E; injection E as <-; exact F4.
  - split; [intros E; destruct (H1 E) as (Ha & Hb & _); repeat split; try assumption; intros E'; injection E' as <-; contradiction|].
    split; [intros E; destruct (H2 E) as (Ha & _); split; [exact Ha|intros E'; injection E' as <-; contradiction]|].
    intros E E'. injection E' as <-. contradiction.
Qed.

(* what the processor does to the other coroutines' control points *)
Lemma step_proc_pcs s e s' : step_proc s e = Some s' ->
  (dp s' = dp s \/ dp s' = DToken) /\ (ap s' = ap s \/ ap s' = AIdle) /\
  (match pp s' with PFirst => False | _ => True end) /\
  (resend_ok s -> resend_ok s').
Proof.
  intros H. unfold resend_ok. unfold step_proc, proc_dispatch, die_p, guard in H.
  destruct (pp s) eqn:Epp; destruct e; try discriminate H; bm H; inv_some H; inv_helpers; inv_tdia; sf.
  all: repeat split; auto; try (intros _ xps Hx; discriminate Hx); try (intros _ xps Hx; injection Hx as <-; discriminate).
Qed.

Lemma step_deq_pcs s e s' : step_deq s e = Some s' ->
  match dp s' with DOff => False | _ => True end.
Proof.
  intros H. unfold step_deq, take_deq, guard in H.
  destruct (dp s) eqn:Edp; destruct e; try discriminate H; bm H; inv_some H; sf; exact I.
Qed.

Lemma step_ack_pcs s e s' : step_ack s e = Some s' ->
  match ap s' with AOff => False | _ => True end.
Proof.
  intros H. unfold step_ack in H.
  destruct (ap s) eqn:Eap; destruct e; try discriminate H; bm H; inv_some H;
    unfold ack_token_back; try match goal with |- context [match ?p with Connect _ => _ | _ => _ end] => destruct p end;
    sf; try rewrite Eap; exact I.
Qed.

Lemma roles_ok_eq s s' :
  gproc s' = gproc s -> gdeq s' = gdeq s -> gack s' = gack s -> gcl s' = gcl s -> roles_ok s -> roles_ok s'.
Proof. intros E1 E2 E3 E4 H. unfold roles_ok. rewrite E1, E2, E3, E4. exact H. Qed.

Lemma cl_ok_eq s s' : lp s' = lp s -> gcl s' = gcl s -> cl_ok s -> cl_ok s'.
Proof. intros E1 E2 H. unfold cl_ok. rewrite E1, E2. exact H. Qed.

Lemma known_ok_eq s s' :
  pp s' = pp s -> dp s' = dp s -> ap s' = ap s ->
  gproc s' = gproc s -> gdeq s' = gdeq s -> gack s' = gack s -> known_ok s -> known_ok s'.
Proof. intros E1 E2 E3 E4 E5 E6 H. unfold known_ok. rewrite E1, E2, E3, E4, E5, E6. exact H. Qed.

Lemma resend_ok_eq s s' : pp s' = pp s -> resend_ok s -> resend_ok s'.
Proof. intros E H. unfold resend_ok. rewrite E. exact H. Qed.

Lemma inv_same s s' :
  pp s' = pp s -> dp s' = dp s -> ap s' = ap s -> lp s' = lp s ->
  gproc s' = gproc s -> gdeq s' = gdeq s -> gack s' = gack s -> gcl s' = gcl s -> inv s -> inv s'.
Proof.
  intros E1 E2 E3 E4 E5 E6 E7 E8 (I1 & I2 & I3 & I4). split; [|split; [|split]].
  - eapply roles_ok_eq; eassumption.
  - eapply cl_ok_eq; eassumption.
  - eapply known_ok_eq; eassumption.
  - eapply resend_ok_eq; eassumption.
Qed.

Lemma known_ok_roles s p d a c :
  (gproc s <> None -> p <> None) -> (gdeq s <> None -> d <> None) -> (gack s <> None -> a <> None) ->
  known_ok s -> known_ok (set_roles s p d a c).
Proof.
  intros H1 H2 H3 (K1 & K2 & K3). unfold known_ok; sf. split; [|split].
  - destruct (pp s); auto.
  - destruct (dp s); auto.
  - destruct (ap s); auto.
Qed.

Lemma inv_view_proc s s1 g e : inv s -> proc_view s s1 g e -> inv s1 /\ gproc s1 = Some g.
Proof.
  intros (I1 & I2 & I3 & I4) [[-> Hg]|(Hn & Hf & -> & _)]; [split; [exact (conj I1 (conj I2 (conj I3 I4)))|exact Hg]|].
  split; [|reflexivity]. split; [|split; [|split]].
  - apply roles_ok_learn with (g := g); [exact I1|exact Hf|left; repeat split; reflexivity].
  - exact I2.
  - apply known_ok_roles; auto; intros _; discriminate.
  - exact I4.
Qed.

Lemma inv_view_deq s s1 g : inv s -> deq_view s s1 g -> inv s1 /\ gdeq s1 = Some g.
Proof.
  intros (I1 & I2 & I3 & I4) [[-> Hg]|(Hn & Hf & ->)]; [split; [exact (conj I1 (conj I2 (conj I3 I4)))|exact Hg]|].
  split; [|reflexivity]. split; [|split; [|split]].
  - apply roles_ok_learn with (g := g); [exact I1|exact Hf|right; left; repeat split; reflexivity].
  - exact I2.
  - apply known_ok_roles; auto; intros _; discriminate.
  - exact I4.
Qed.

Lemma inv_view_ack s s1 g : inv s -> ack_view s s1 g -> inv s1 /\ gack s1 = Some g.
Proof.
  intros (I1 & I2 & I3 & I4) [[-> Hg]|(Hn & Hf & ->)]; [split; [exact (conj I1 (conj I2 (conj I3 I4)))|exact Hg]|].
  split; [|reflexivity]. split; [|split; [|split]].
  - apply roles_ok_learn with (g := g); [exact I1|exact Hf|right; right; left; repeat split; reflexivity].
  - exact I2.
  - apply known_ok_roles; auto; intros _; discriminate.
  - exact I4.
Qed.

Lemma inv_view_cl s s1 g : inv s -> cl_view s s1 g ->
  roles_ok s1 /\ known_ok s1 /\ resend_ok s1 /\ gcl s1 = Some g.
Proof.
  intros (I1 & I2 & I3 & I4) [[-> Hg]|(Hn & Hf & ->)]; [exact (conj I1 (conj I3 (conj I4 Hg)))|].
  split; [|split; [|split; [|reflexivity]]].
  - apply roles_ok_learn with (g := g); [exact I1|exact Hf|right; right; right; repeat split; reflexivity].
  - apply known_ok_roles; auto.
  - exact I4.
Qed.

(* the invariant after a cleanup step of a known cleanup goroutine (or EClosed) *)
Lemma inv_cleanup s e s' :
  roles_ok s -> known_ok s -> resend_ok s -> (gcl s <> None \/ e = EClosed) ->
  step_cleanup s e = Some s' -> inv s'.
Proof.
  intros I1 I3 I4 Hg Hp.
  assert (Hl : match lp s' with LNone => False | LWillR | LWillDie | LTerm | LTermDie => gcl s <> None | _ => True end).
  { unfold step_cleanup, guard in Hp. destruct (lp s) eqn:Elp; destruct e; try discriminate Hp; bm Hp; inv_some Hp; sf;
    try exact I; destruct Hg as [Hg|Hg]; try exact Hg; discriminate Hg. }
  destruct (step_cleanup_shape _ _ _ Hp) as (p & d & a & l & -> & _ & Hx). sf.
  split; [|split; [|split]].
  - apply (roles_ok_eq s); try reflexivity; exact I1.
  - unfold cl_ok; sf. destruct l; try exact I; try exact Hl. contradiction.
  - destruct I3 as (K1 & K2 & K3). unfold known_ok; sf.
    destruct Hx as [(-> & -> & -> & _)|(_ & _ & -> & -> & ->)]; [repeat split; assumption|].
    split; [exact I|split; [destruct (dp s); exact I|destruct (ap s); exact I]].
  - unfold resend_ok in *; sf. destruct Hx as [(-> & _)|(_ & _ & -> & _)]; [exact I4|intros xps Hx; discriminate Hx].
Qed.

Lemma inv_step s e s' : inv s -> step s e = Some s' -> inv s'.
Proof.
  intros HI H. destruct (step_cases _ _ _ H) as
    [He Hlp Hs|He Ho Hs|He Hq Hs|Hc|He Hc|g s1 Ho Hg Hc Hi Hv Hp|g s1 Ho Hg Hc Hi Hr1 Hv Hp
    |g s1 Ho Hg Hc Hi Hr1 Hr2 Hv Hp|g s1 Ho Hg Hc Hi Hr1 Hr2 Hr3 Hv Hp|g He Ho Hc Hi Hf Hs].
  - subst s'. unfold inv, roles_ok, cl_ok, known_ok, resend_ok, new_conn; sf.
    repeat split; try discriminate; auto.
  - subst s'. exact HI.
  - subst s'. exact HI.
  - destruct (step_clo_shape _ _ _ Hc) as (si & cl & dy & q & ->).
    apply (inv_same s); try reflexivity; exact HI.
  - destruct HI as (I1 & I2 & I3 & I4). eapply inv_cleanup; try eassumption. right; exact He.
  - (* processor *)
    destruct (inv_view_proc _ _ _ _ HI Hv) as ((I1 & I2 & I3 & I4) & Hgp).
    destruct (step_proc_frame _ _ _ Hp) as (_ & F1 & F2 & F3 & F4 & F5).
    destruct (step_proc_pcs _ _ _ Hp) as (P1 & P2 & P3 & P4).
    split; [|split; [|split]].
    + apply (roles_ok_eq s1); assumption.
    + apply (cl_ok_eq s1); assumption.
    + destruct I3 as (K1 & K2 & K3). unfold known_ok. rewrite F1, F2, F3, Hgp. split; [|split].
      * destruct (pp s'); try exact I; discriminate.
      * destruct P1 as [-> | ->]; [exact K2|exact I].
      * destruct P2 as [-> | ->]; [exact K3|exact I].
    + apply P4, I4.
  - (* dequeuer *)
    destruct (inv_view_deq _ _ _ HI Hv) as ((I1 & I2 & I3 & I4) & Hgd).
    pose proof (step_deq_pcs _ _ _ Hp) as P1.
    destruct (step_deq_shape _ _ _ Hp) as (se & d & dy & t1 & t2 & t3 & ->). sf.
    split; [|split; [|split]].
    + apply (roles_ok_eq s1); try reflexivity; exact I1.
    + apply (cl_ok_eq s1); try reflexivity; exact I2.
    + destruct I3 as (K1 & K2 & K3). unfold known_ok; sf. rewrite Hgd.
      split; [exact K1|split; [destruct d; try exact I; discriminate|exact K3]].
    + apply (resend_ok_eq s1); [reflexivity|exact I4].
  - (* acker *)
    destruct (inv_view_ack _ _ _ HI Hv) as ((I1 & I2 & I3 & I4) & Hga).
    destruct (step_ack_shape _ _ _ Hp) as (a & dy & t1 & t2 & t3 & q & ->). sf.
    split; [|split; [|split]].
    + apply (roles_ok_eq s1); try reflexivity; exact I1.
    + apply (cl_ok_eq s1); try reflexivity; exact I2.
    + destruct I3 as (K1 & K2 & K3). unfold known_ok; sf. rewrite Hga.
      split; [exact K1|split; [exact K2|destruct a; try exact I; discriminate]].
    + apply (resend_ok_eq s1); [reflexivity|exact I4].
  - (* cleanup *)
    destruct (inv_view_cl _ _ _ HI Hv) as (I1 & I3 & I4 & Hgc).
    eapply inv_cleanup; try eassumption. left. rewrite Hgc. discriminate.
  - subst s'. apply (inv_same s); try reflexivity; exact HI.
Qed.

Lemma inv_init : inv bc_init.
Proof.
  unfold inv, roles_ok, cl_ok, known_ok, resend_ok, bc_init; sf. repeat split; try discriminate; auto.
Qed.

Theorem inv_reachable : forall es s, bc_run es = Some s -> inv s.
Proof. exact (bc_invariant inv inv_init inv_step). Qed.

(* ================================================= C14_cleanup_enabled == *)

(* a goroutine number that is not in use *)
Definition og (r : option N) : N := match r with Some g => g | None => 0 end.
Definition clo_g (c : closure) : N :=
  match c_stat c with CDel g | CDieLog g | CDieClose g | CRun g => g | _ => 0 end.
Definition fresh_g (s : bc) : N :=
  1 + N.max (og (gproc s)) (N.max (og (gdeq s)) (N.max (og (gack s)) (N.max (og (gcl s))
        (fold_right N.max 0 (map clo_g (clos s)))))).

Lemma is_role_above r g : og r < g -> is_role r g = false.
Proof.
  destruct r as [g'|]; cbn [og is_role]; [|reflexivity]. intros H. apply N.eqb_neq. lia.
Qed.

Lemma fresh_role_free s : role_free s (fresh_g s) = true.
Proof.
  unfold role_free, fresh_g. rewrite !is_role_above; [reflexivity| | | |]; lia.
Qed.

Lemma clo_on_above l g : fold_right N.max 0 (map clo_g l) < g -> existsb (clo_on g) l = false.
Proof.
  induction l as [|c l IH]; cbn [map fold_right existsb]; [reflexivity|]. intros H.
  rewrite IH by lia. rewrite orb_false_r. unfold clo_on. unfold clo_g in H.
  destruct (c_stat c); try reflexivity; apply N.eqb_neq; lia.
Qed.

Lemma fresh_not_in_closure s : in_closure s (fresh_g s) = false.
Proof. unfold in_closure. apply clo_on_above. unfold fresh_g. lia. Qed.

(* g is the cleanup goroutine, has no other role and is not inside a closure *)
Definition cl_only (s : bc) (g : N) : Prop :=
  gcl s = Some g /\ is_role (gproc s) g = false /\ is_role (gdeq s) g = false /\ is_role (gack s) g = false /\
  in_closure s g = false.

Lemma cl_only_set_lp s g l : cl_only s g -> cl_only (set_lp s l) g.
Proof. intros H. unfold cl_only, in_closure in *; sf; exact H. Qed.

Lemma cl_only_of_inv s g : inv s -> gcl s = Some g -> in_closure s g = false -> cl_only s g.
Proof.
  intros (I1 & _) Hg Hc. destruct (I1 g) as (H1 & H2 & H3).
  split; [exact Hg|]. split; [|split; [|split; [|exact Hc]]]; apply is_role_false_of.
  - intros E. destruct (H1 E) as (_ & _ & Hx). contradiction.
  - intros E. destruct (H2 E) as (_ & Hx). contradiction.
  - intros E. apply (H3 E). exact Hg.
Qed.

(* an event of the cleanup goroutine is handled by step_cleanup *)
Lemma step_to_cleanup s e g :
  special_event e = false -> ev_g e = Some g -> lp s <> LEnd -> step_clo s e = None -> cl_only s g ->
  step s e = step_cleanup s e.
Proof.
  intros Hs Hg Hl Hc (G & R1 & R2 & R3 & Hi).
  rewrite (step_is_gen _ _ Hs). unfold step_gen.
  assert (Ho : conn_open s = true) by (unfold conn_open; destruct (lp s); try reflexivity; contradiction).
  rewrite Ho, Hg, Hc, Hi, R1, R2, R3, G, is_role_some. reflexivity.
Qed.

(* the first cleanup event of a fresh goroutine is handled by step_cleanup *)
Lemma step_learn_cleanup s e g :
  match e with EPub g' _ None | ETerm g' _ => g' = g | _ => False end ->
  lp s <> LEnd -> gcl s = None -> role_free s g = true -> in_closure s g = false ->
  step s e = step_cleanup (set_roles s (gproc s) (gdeq s) (gack s) (Some g)) e.
Proof.
  intros He Hl Hn Hf Hi. destruct (role_free_inv _ _ Hf) as (R1 & R2 & R3 & R4).
  assert (Ho : conn_open s = true) by (unfold conn_open; destruct (lp s); try reflexivity; contradiction).
  destruct e; try contradiction.
  - destruct k; [contradiction|]. subst g0. unfold step. rewrite Ho. cbn [negb ev_g step_clo first_some].
    rewrite Hi, R1, R2, R3, R4. unfold bind, learn_cl, guard. rewrite Hn, Hf. reflexivity.
  - subst g0. unfold step. rewrite Ho. cbn [negb ev_g step_clo first_some].
    rewrite Hi, R1, R2, R3, R4. unfold bind, learn_cl, guard. rewrite Hn, Hf. reflexivity.
Qed.

Definition with_cl (s : bc) (g : N) : bc := set_roles s (gproc s) (gdeq s) (gack s) (Some g).

Lemma cl_only_start s g l : role_free s g = true -> in_closure s g = false -> cl_only (set_lp (freeze (with_cl s g)) l) g.
Proof.
  intros Hf Hi. destruct (role_free_inv _ _ Hf) as (R1 & R2 & R3 & R4).
  unfold cl_only, in_closure, with_cl in *; sf. repeat split; assumption.
Qed.

(* ---- the individual cleanup steps, with their exact successor states ---- *)

Lemma cl_start_will s g w :
  lp s = LNone -> gcl s = None -> all_stopped s = true -> ph s = Connected -> will s = Some w ->
  role_free s g = true -> in_closure s g = false ->
  step s (EPub g w None) = Some (set_lp (freeze (with_cl s g)) LWillR).
Proof.
  intros Hl Hn Hst Hph Hw Hf Hi.
  rewrite (step_learn_cleanup s _ g); try assumption; [|reflexivity|rewrite Hl; discriminate].
  unfold step_cleanup, guard. fold (with_cl s g).
  change (lp (with_cl s g)) with (lp s). change (all_stopped (with_cl s g)) with (all_stopped s).
  change (ph (with_cl s g)) with (ph s). change (will (with_cl s g)) with (will s).
  rewrite Hl, Hst, Hph, Hw, message_eqb_refl. reflexivity.
Qed.

Lemma cl_start_term s g ok :
  lp s = LNone -> gcl s = None -> all_stopped s = true -> phase_geq_connected (ph s) = true ->
  (ph s = Connected -> will s = None) ->
  role_free s g = true -> in_closure s g = false ->
  step s (ETerm g ok) = Some (set_lp (freeze (with_cl s g)) (if ok then LClosed else LTermDie)).
Proof.
  intros Hl Hn Hst Hph Hw Hf Hi.
  rewrite (step_learn_cleanup s _ g); try assumption; [|reflexivity|rewrite Hl; discriminate].
  unfold step_cleanup, guard. fold (with_cl s g).
  change (lp (with_cl s g)) with (lp s). change (all_stopped (with_cl s g)) with (all_stopped s).
  change (ph (with_cl s g)) with (ph s). change (will (with_cl s g)) with (will s).
  rewrite Hl, Hst, Hph.
  assert (Hx : negb (phase_connected (ph s) && match will s with Some _ => true | None => false end) = true).
  { destruct (ph s) eqn:E; try reflexivity. rewrite (Hw eq_refl). reflexivity. }
  rewrite Hx. reflexivity.
Qed.

Lemma cl_start_closed s :
  lp s = LNone -> all_stopped s = true -> ph s = Connecting -> step s EClosed = Some (set_lp (freeze s) LEnd).
Proof.
  intros Hl Hst Hph. cbn [step]. unfold step_cleanup, guard. rewrite Hl, Hst, Hph. reflexivity.
Qed.

Lemma cl_willret s g ok : lp s = LWillR -> cl_only s g ->
  step s (EPubRet g ok) = Some (set_lp s (if ok then LTerm else LWillDie)).
Proof.
  intros Hl Hc. rewrite (step_to_cleanup s _ g); try assumption; try reflexivity; [|rewrite Hl; discriminate].
  unfold step_cleanup. rewrite Hl. reflexivity.
Qed.

Lemma cl_willdie s g : lp s = LWillDie -> cl_only s g -> step s (EDie g KBackend) = Some (set_lp s LTerm).
Proof.
  intros Hl Hc. rewrite (step_to_cleanup s _ g); try assumption; try reflexivity; [|rewrite Hl; discriminate].
  unfold step_cleanup. rewrite Hl. reflexivity.
Qed.

Lemma cl_term s g ok : lp s = LTerm -> cl_only s g ->
  step s (ETerm g ok) = Some (set_lp s (if ok then LClosed else LTermDie)).
Proof.
  intros Hl Hc. rewrite (step_to_cleanup s _ g); try assumption; try reflexivity; [|rewrite Hl; discriminate].
  unfold step_cleanup. rewrite Hl. reflexivity.
Qed.

Lemma cl_termdie s g : lp s = LTermDie -> cl_only s g -> step s (EDie g KBackend) = Some (set_lp s LClosed).
Proof.
  intros Hl Hc. rewrite (step_to_cleanup s _ g); try assumption; try reflexivity; [|rewrite Hl; discriminate].
  unfold step_cleanup. rewrite Hl. reflexivity.
Qed.

Lemma cl_closed s : lp s = LClosed -> step s EClosed = Some (set_lp s LEnd).
Proof. intros Hl. cbn [step]. unfold step_cleanup. rewrite Hl. reflexivity. Qed.

(* ---- runs to EClosed ---- *)

Lemma reach_LClosed s : lp s = LClosed -> Lts.run step s [EClosed] = Some (set_lp s LEnd).
Proof. intros Hl. cbn [Lts.run]. rewrite (cl_closed s Hl). reflexivity. Qed.

Lemma reach_LTerm s g : lp s = LTerm -> cl_only s g ->
  Lts.run step s [ETerm g true; EClosed] = Some (set_lp (set_lp s LClosed) LEnd).
Proof. intros Hl Hc. cbn [Lts.run]. rewrite (cl_term s g true Hl Hc). apply reach_LClosed. reflexivity. Qed.

Lemma reach_LTermDie s g : lp s = LTermDie -> cl_only s g ->
  Lts.run step s [EDie g KBackend; EClosed] = Some (set_lp (set_lp s LClosed) LEnd).
Proof. intros Hl Hc. cbn [Lts.run]. rewrite (cl_termdie s g Hl Hc). apply reach_LClosed. reflexivity. Qed.

Lemma reach_LWillR s g : lp s = LWillR -> cl_only s g ->
  Lts.run step s [EPubRet g true; ETerm g true; EClosed] = Some (set_lp (set_lp (set_lp s LTerm) LClosed) LEnd).
Proof.
  intros Hl Hc. cbn [Lts.run]. rewrite (cl_willret s g true Hl Hc).
  apply (reach_LTerm _ g); [reflexivity|apply cl_only_set_lp, Hc].
Qed.

Lemma reach_LWillDie s g : lp s = LWillDie -> cl_only s g ->
  Lts.run step s [EDie g KBackend; ETerm g true; EClosed] = Some (set_lp (set_lp (set_lp s LTerm) LClosed) LEnd).
Proof.
  intros Hl Hc. cbn [Lts.run]. rewrite (cl_willdie s g Hl Hc).
  apply (reach_LTerm _ g); [reflexivity|apply cl_only_set_lp, Hc].
Qed.

(* ---- the statement ---- *)

(* the first cleanup event, by a goroutine g that is new to the connection *)
Definition cl_next_start (s : bc) (g : N) : Prop :=
  match ph s, will s with
  | Connecting, _ => exists s', step s EClosed = Some s' /\ lp s' = LEnd
  | Connected, Some w => exists s', step s (EPub g w None) = Some s' /\ lp s' = LWillR /\ cl_only s' g
  | _, _ => forall ok, exists s', step s (ETerm g ok) = Some s' /\ lp s' = (if ok then LClosed else LTermDie) /\ cl_only s' g
  end.

(* the next cleanup event of the cleanup goroutine g *)
Definition cl_next_cont (s : bc) (g : N) : Prop :=
  match lp s with
  | LWillR => forall ok, exists s', step s (EPubRet g ok) = Some s' /\ lp s' = (if ok then LTerm else LWillDie) /\ cl_only s' g
  | LWillDie => exists s', step s (EDie g KBackend) = Some s' /\ lp s' = LTerm /\ cl_only s' g
  | LTerm => forall ok, exists s', step s (ETerm g ok) = Some s' /\ lp s' = (if ok then LClosed else LTermDie) /\ cl_only s' g
  | LTermDie => exists s', step s (EDie g KBackend) = Some s' /\ lp s' = LClosed /\ cl_only s' g
  | _ => True
  end.

(* the cleanup can proceed: the coroutines have stopped, resp. the cleanup goroutine is
   not held inside an acknowledgement closure *)
Definition cl_ready (s : bc) : Prop :=
  match lp s with
  | LNone => all_stopped s = true
  | LEnd => False
  | LClosed => True
  | _ => forall g, gcl s = Some g -> in_closure s g = false
  end.

Lemma cl_next_start_holds s g :
  inv s -> lp s = LNone -> all_stopped s = true -> role_free s g = true -> in_closure s g = false ->
  cl_next_start s g.
Proof.
  intros (_ & I2 & _) Hl Hst Hf Hi. unfold cl_ok in I2. rewrite Hl in I2. unfold cl_next_start.
  destruct (ph s) eqn:Eph.
  - eexists. split; [apply cl_start_closed; assumption|reflexivity].
  - destruct (will s) as [w|] eqn:Ew.
    + eexists. split; [apply cl_start_will; assumption|]. split; [reflexivity|apply cl_only_start; assumption].
    + intros ok. eexists. split; [apply cl_start_term; try assumption; [rewrite Eph; reflexivity|intros _; exact Ew]|].
      split; [reflexivity|apply cl_only_start; assumption].
  - intros ok. eexists. split; [apply cl_start_term; try assumption; [rewrite Eph; reflexivity|rewrite Eph; discriminate]|].
    split; [reflexivity|apply cl_only_start; assumption].
Qed.

Lemma cl_next_cont_holds s g : cl_only s g -> cl_next_cont s g.
Proof.
  intros Hc. unfold cl_next_cont. destruct (lp s) eqn:Hl; try exact I.
  - intros ok. eexists. split; [apply (cl_willret s g ok Hl Hc)|]. split; [reflexivity|apply cl_only_set_lp, Hc].
  - eexists. split; [apply (cl_willdie s g Hl Hc)|]. split; [reflexivity|apply cl_only_set_lp, Hc].
  - intros ok. eexists. split; [apply (cl_term s g ok Hl Hc)|]. split; [reflexivity|apply cl_only_set_lp, Hc].
  - eexists. split; [apply (cl_termdie s g Hl Hc)|]. split; [reflexivity|apply cl_only_set_lp, Hc].
Qed.

Lemma cl_reaches_closed s : inv s -> cl_ready s ->
  exists es' s', (length es' <= 3)%nat /\ Lts.run step s (es' ++ [EClosed]) = Some s' /\ lp s' = LEnd.
Proof.
  intros HI Hr. pose proof HI as (_ & I2 & _). unfold cl_ok in I2. unfold cl_ready in Hr.
  assert (Hknown : forall P : Prop, gcl s <> None -> (forall g, gcl s = Some g -> P) -> P).
  { intros P Hn HP. destruct (gcl s) as [g|]; [apply (HP g); reflexivity|contradiction]. }
  destruct (lp s) eqn:Hl.
  - (* LNone *)
    pose proof (fresh_role_free s) as Hf. pose proof (fresh_not_in_closure s) as Hi. set (g := fresh_g s) in *.
    destruct (ph s) eqn:Eph.
    + exists [], (set_lp (freeze s) LEnd). split; [cbn; lia|]. cbn [app Lts.run].
      rewrite (cl_start_closed s Hl Hr Eph). split; reflexivity.
    + destruct (will s) as [w|] eqn:Ew.
      * exists [EPub g w None; EPubRet g true; ETerm g true]. eexists. split; [cbn; lia|].
        cbn [app]. cbn [Lts.run]. rewrite (cl_start_will s g w Hl I2 Hr Eph Ew Hf Hi).
        split; [apply (reach_LWillR _ g); [reflexivity|apply cl_only_start; assumption]|reflexivity].
      * exists [ETerm g true]. eexists. split; [cbn; lia|].
        cbn [app]. cbn [Lts.run]. rewrite (cl_start_term s g true Hl I2 Hr); try assumption;
          [|rewrite Eph; reflexivity|intros _; exact Ew].
        split; [apply reach_LClosed; reflexivity|reflexivity].
    + exists [ETerm g true]. eexists. split; [cbn; lia|].
      cbn [app]. cbn [Lts.run]. rewrite (cl_start_term s g true Hl I2 Hr); try assumption;
        [|rewrite Eph; reflexivity|rewrite Eph; discriminate].
      split; [apply reach_LClosed; reflexivity|reflexivity].
  - apply (Hknown _ I2). intros g Hg. pose proof (cl_only_of_inv s g HI Hg (Hr g Hg)) as Hc.
    exists [EPubRet g true; ETerm g true]. eexists. split; [cbn; lia|]. cbn [app].
    split; [apply (reach_LWillR s g Hl Hc)|reflexivity].
  - apply (Hknown _ I2). intros g Hg. pose proof (cl_only_of_inv s g HI Hg (Hr g Hg)) as Hc.
    exists [EDie g KBackend; ETerm g true]. eexists. split; [cbn; lia|]. cbn [app].
    split; [apply (reach_LWillDie s g Hl Hc)|reflexivity].
  - apply (Hknown _ I2). intros g Hg. pose proof (cl_only_of_inv s g HI Hg (Hr g Hg)) as Hc.
    exists [ETerm g true]. eexists. split; [cbn; lia|]. cbn [app].
    split; [apply (reach_LTerm s g Hl Hc)|reflexivity].
  - apply (Hknown _ I2). intros g Hg. pose proof (cl_only_of_inv s g HI Hg (Hr g Hg)) as Hc.
    exists [EDie g KBackend]. eexists. split; [cbn; lia|]. cbn [app].
    split; [apply (reach_LTermDie s g Hl Hc)|reflexivity].
  - exists []. eexists. split; [cbn; lia|]. cbn [app]. split; [apply (reach_LClosed s Hl)|reflexivity].
  - contradiction.
Qed.

Theorem cleanup_enabled : forall es s, bc_run es = Some s ->
  (* a goroutine number new to the connection always exists *)
  (exists g, role_free s g = true /\ in_closure s g = false) /\
  (* once the three coroutines have stopped, any such goroutine can begin the cleanup:
     the will when due, else Terminate, else (client never authenticated) Closed *)
  (lp s = LNone -> all_stopped s = true ->
   forall g, role_free s g = true -> in_closure s g = false -> cl_next_start s g) /\
  (* while the cleanup is under way its goroutine is known ... *)
  (match lp s with LWillR | LWillDie | LTerm | LTermDie => exists g, gcl s = Some g | _ => True end) /\
  (* ... and, unless it is held inside an acknowledgement closure, its next event is enabled *)
  (forall g, gcl s = Some g -> in_closure s g = false -> cl_next_cont s g) /\
  (lp s = LClosed -> exists s', step s EClosed = Some s' /\ lp s' = LEnd) /\
  (* so the closed signal can fire within four further events *)
  (cl_ready s ->
   exists es' s', (length es' <= 3)%nat /\ Lts.run step s (es' ++ [EClosed]) = Some s' /\ lp s' = LEnd).
Proof.
  intros es s Hrun. pose proof (inv_reachable es s Hrun) as HI.
  split; [exists (fresh_g s); split; [apply fresh_role_free|apply fresh_not_in_closure]|].
  split; [intros Hl Hst g Hf Hi; apply cl_next_start_holds; assumption|].
  split.
  { destruct HI as (_ & I2 & _). unfold cl_ok in I2.
    destruct (lp s); try exact I; (destruct (gcl s) as [g|]; [exists g; reflexivity|contradiction]). }
  split; [intros g Hg Hi; apply cl_next_cont_holds, cl_only_of_inv; assumption|].
  split; [intros Hl; eexists; split; [apply (cl_closed s Hl)|reflexivity]|].
  apply cl_reaches_closed, HI.
Qed.

(* ===================================================== C14_dying_stops == *)

(* no goroutine is inside an acknowledgement closure *)
Definition clos_idle (s : bc) : bool := forallb clo_idle (clos s).

Lemma in_closure_idle s g : clos_idle s = true -> in_closure s g = false.
Proof.
  unfold clos_idle, in_closure. induction (clos s) as [|c l IH]; cbn [forallb existsb]; [reflexivity|].
  intros H. apply andb_true_iff in H as [H1 H2]. rewrite (IH H2), orb_false_r.
  unfold clo_idle in H1. unfold clo_on. destruct (c_stat c); try discriminate H1; reflexivity.
Qed.

Lemma clo_stat_find_idle l f :
  forallb clo_idle l = true -> f CReg = false -> f CDone = false -> clo_stat_find l f = None.
Proof.
  intros H Hr Hd. induction l as [|c l IH]; cbn [clo_stat_find forallb] in *; [reflexivity|].
  apply andb_true_iff in H as [H1 H2]. unfold clo_idle in H1.
  destruct (c_stat c); try discriminate H1; rewrite ?Hr, ?Hd; apply IH, H2.
Qed.

Lemma clo_del_find_idle l g id : forallb clo_idle l = true -> clo_del_find l g id = None.
Proof.
  intros H. induction l as [|c l IH]; cbn [clo_del_find forallb] in *; [reflexivity|].
  apply andb_true_iff in H as [H1 H2]. unfold clo_idle in H1.
  destruct (c_stat c); try discriminate H1; apply IH, H2.
Qed.

(* with all closures idle, only EAckCall / EAckRet are closure events *)
Lemma step_clo_idle s e : clos_idle s = true -> special_event e = false -> step_clo s e = None.
Proof.
  unfold clos_idle. intros H Hs. destruct e; cbn [special_event] in Hs; try discriminate Hs; cbn [step_clo]; try reflexivity.
  - rewrite clo_stat_find_idle; [reflexivity|exact H|reflexivity|reflexivity].
  - destruct d; [|reflexivity]. rewrite clo_del_find_idle; [reflexivity|exact H].
  - destruct k; try reflexivity. rewrite clo_stat_find_idle; [reflexivity|exact H|reflexivity|reflexivity].
Qed.

(* dispatch of an event to the coroutine whose goroutine issued it *)
Lemma step_as_proc s e g :
  special_event e = false -> ev_g e = Some g -> lp s <> LEnd -> clos_idle s = true -> gproc s = Some g ->
  step s e = step_proc s e.
Proof.
  intros Hs Hg Hl Hc G. rewrite (step_is_gen _ _ Hs). unfold step_gen.
  assert (Ho : conn_open s = true) by (unfold conn_open; destruct (lp s); try reflexivity; contradiction).
  rewrite Ho, Hg, (step_clo_idle _ _ Hc Hs), (in_closure_idle _ g Hc), G, is_role_some. reflexivity.
Qed.

Lemma step_as_deq s e g :
  special_event e = false -> ev_g e = Some g -> lp s <> LEnd -> clos_idle s = true ->
  is_role (gproc s) g = false -> gdeq s = Some g ->
  step s e = step_deq s e.
Proof.
  intros Hs Hg Hl Hc R1 G. rewrite (step_is_gen _ _ Hs). unfold step_gen.
  assert (Ho : conn_open s = true) by (unfold conn_open; destruct (lp s); try reflexivity; contradiction).
  rewrite Ho, Hg, (step_clo_idle _ _ Hc Hs), (in_closure_idle _ g Hc), R1, G, is_role_some. reflexivity.
Qed.

Lemma step_as_ack s e g :
  special_event e = false -> ev_g e = Some g -> lp s <> LEnd -> clos_idle s = true ->
  is_role (gproc s) g = false -> is_role (gdeq s) g = false -> gack s = Some g ->
  step s e = step_ack s e.
Proof.
  intros Hs Hg Hl Hc R1 R2 G. rewrite (step_is_gen _ _ Hs). unfold step_gen.
  assert (Ho : conn_open s = true) by (unfold conn_open; destruct (lp s); try reflexivity; contradiction).
  rewrite Ho, Hg, (step_clo_idle _ _ Hc Hs), (in_closure_idle _ g Hc), R1, R2, G, is_role_some. reflexivity.
Qed.

(* a closure key that is not in use *)
Definition fresh_k (s : bc) : N := 1 + fold_right N.max 0 (map c_k (clos s)).

Lemma clo_find_above l k : fold_right N.max 0 (map c_k l) < k -> clo_find l k = None.
Proof.
  induction l as [|c l IH]; cbn [map fold_right clo_find]; [reflexivity|]. intros H.
  destruct (N.eqb_spec (c_k c) k) as [E|_]; [lia|]. apply IH. lia.
Qed.

Lemma fresh_k_free s : clo_find (clos s) (fresh_k s) = None.
Proof. apply clo_find_above. unfold fresh_k. lia. Qed.

(* ---- classification of the control points ---- *)

Inductive pkind := KStop | KOwn | KRet.

(* processor: KStop = may have returned (proc_can_stop holds once dying);
   KRet = inside a backend call (Authenticate, Setup, Restore, Subscribe, Unsubscribe,
   Publish), waiting for it to return;  KOwn = its next event is an action of its own
   (a send, a receive that fails on the closed connection, a session operation, the
   next backend call, die / close) *)
Definition proc_kind (x : ppc) : pkind :=
  match x with
  | PDone | PLoop | PSubW _ _ | PUnsubW _ _ | PPub1W _ _ | PPub2W _ => KStop
  | PAuth _ | PSetup _ | PRestore | PSubR | PUnsubR | PPubR => KRet
  | _ => KOwn
  end.

(* dequeuer: DWait = inside Backend.Dequeue *)
Definition deq_kind (x : dpc) : pkind :=
  match x with
  | DOff | DToken | DDone => KStop
  | DWait => KRet
  | _ => KOwn
  end.

Definition ack_kind (x : apc) : pkind :=
  match x with AOff | AIdle | ADone => KStop | _ => KOwn end.

(* the return of a backend call *)
Definition ret_event (e : event) : bool :=
  match e with
  | EAuth _ _ | ESetup _ _ | ERestore _ _ | ESubRet _ _ | EUnsubRet _ _ | EPubRet _ _ | EDeqRet _ _ => true
  | _ => false
  end.

(* an action of the connection's own goroutine: needs nothing from the peer (no packet
   received), nothing from the backend (no call returning, no closure invoked) *)
Definition own_event (e : event) : bool :=
  match e with
  | ERxErr _ | ETx _ _ _ _ | EConnClose _ | ESub _ _ _ | EUnsub _ _ _ | EPub _ _ _ | EDeqCall _ | EDeqAck _
  | ENextId _ _ | ESave _ _ _ _ | ELookup _ _ _ _ | EDelete _ _ _ _ | EAll _ _ _ | EDie _ _ => true
  | _ => false
  end.

(* the next event of the processor (goroutine g; k a closure key not in use; ok: does the
   operation succeed) *)
Definition proc_next (s : bc) (g k : N) (ok : bool) : option event :=
  match pp s with
  | PFirst => Some (ERxErr g)
  | PAuth _ => Some (EAuth g (if ok then AOk else AErr))
  | PDeny => Some (ETx g (Connack false 5) false ok)
  | PSetup _ => Some (ESetup g SErr)
  | PConnack c r => Some (ETx g (Connack (negb (c_clean c) && r) 0) false ok)
  | PAll => Some (EAll g Outgoing (if ok then Some (store_all (s_out (sess s))) else None))
  | PResend (p :: _) => Some (ETx g (set_dup p) true ok)
  | PResend [] => None
  | PRestore => Some (ERestore g ok)
  | PSubR => Some (ESubRet g ok)
  | PUnsubR => Some (EUnsubRet g ok)
  | PPub0 m => Some (EPub g m None)
  | PPubR => Some (EPubRet g ok)
  | PPubrec id => Some (ETx g (Pubrec id) true ok)
  | PAckDel id => Some (EDelete g Outgoing id ok)
  | PRecSave id => Some (ESave g Outgoing (Pubrel id) ok)
  | PRelTx id => Some (ETx g (Pubrel id) true ok)
  | PRelLookup id => Some (ELookup g Incoming id (if ok then LRes (store_lookup (s_in (sess s)) id) else LErr))
  | PRelPub _ m => Some (EPub g m (Some k))
  | PCompTx id => Some (ETx g (Pubcomp id) true ok)
  | PPing => Some (ETx g Pingresp true ok)
  | PDisc | PDieClose => Some (EConnClose g)
  | PDieLog kd => Some (EDie g kd)
  | PDone | PLoop | PSubW _ _ | PUnsubW _ _ | PPub1W _ _ | PPub2W _ => None
  end.

Definition deq_next (s : bc) (g : N) (ok : bool) : option event :=
  match dp s with
  | DWait => Some (EDeqRet g (if ok then QNone else QErr))
  | DNextId _ _ => Some (ENextId g (fst (next_id (s_counter (sess s)))))
  | DSave p _ => Some (ESave g Outgoing p ok)
  | DBackAck _ => Some (EDeqAck g)
  | DSend p => Some (ETx g p true ok)
  | DDieLog kd => Some (EDie g kd)
  | DDieClose => Some (EConnClose g)
  | DOff | DToken | DDone => None
  end.

Definition ack_next (s : bc) (g : N) : option event :=
  match ap s with
  | ADieLog => Some (EDie g KTransport)
  | ADieClose => Some (EConnClose g)
  | _ => None
  end.

Lemma opt_packet_eqb_refl r : opt_packet_eqb r r = true.
Proof. unfold opt_packet_eqb. apply option_eqb_refl, packet_eqb_refl. Qed.

Lemma list_packet_eqb_refl l : list_eqb packet_eqb l l = true.
Proof. apply list_eqb_refl, packet_eqb_refl. Qed.

Lemma proc_progress s g k ok :
  inv s -> lp s = LNone -> clos_idle s = true -> dying s = true ->
  (gproc s = Some g \/ (gproc s = None /\ role_free s g = true)) -> clo_find (clos s) k = None ->
  match proc_next s g k ok with
  | Some e => ev_g e = Some g /\ (ret_event e = true <-> proc_kind (pp s) = KRet) /\
              (ret_event e = false -> own_event e = true) /\ exists s', step s e = Some s' /\ gproc s' = Some g
  | None => proc_kind (pp s) = KStop /\ proc_can_stop s = true
  end.
Proof.
  intros (I1 & I2 & (K1 & _) & I4) Hl Hc Hdy Hg Hk.
  assert (Hne : lp s <> LEnd) by (rewrite Hl; discriminate).
  destruct Hg as [Hg|(Hg & Hf)].
  - (* the processor is known *)
    unfold proc_next, proc_can_stop. destruct (pp s) eqn:Epp; try (split; [reflexivity|first [reflexivity|exact Hdy]]).
    all: try match goal with |- context [match ?l with [] => _ | _ :: _ => _ end] =>
           destruct l as [|xp xrest]; [exfalso; apply (I4 [] Epp); reflexivity|] end.
    all: (split; [reflexivity|split; [cbn [ret_event proc_kind]; split; intros Hx; try discriminate Hx; reflexivity|
                 split; [intros Hx; first [reflexivity|discriminate Hx]|]]]).
    all: rewrite (step_as_proc s _ g) by (try assumption; reflexivity).
    all: unfold step_proc, die_p, guard; rewrite Epp.
    all: rewrite ?N.eqb_refl, ?message_eqb_refl, ?packet_eqb_refl, ?Bool.eqb_reflx, ?opt_packet_eqb_refl,
                 ?list_packet_eqb_refl; cbn [andb].
    all: try (destruct ok; (eexists; split; [reflexivity|sf; exact Hg]); fail).
    all: first
      [ (* All *)
        destruct ok; cbn beta iota; rewrite ?list_packet_eqb_refl; (eexists; split; [reflexivity|sf; exact Hg])
      | (* re-send *)
        inv_tdia; destruct ok; (eexists; split; [reflexivity|sf; exact Hg])
      | (* Lookup *)
        destruct ok; cbn beta iota; rewrite ?opt_packet_eqb_refl; [|eexists; split; [reflexivity|sf; exact Hg]];
        match goal with |- context [store_lookup ?st ?i] => destruct (store_lookup st i) as [[]|] end;
        (eexists; split; [reflexivity|sf; exact Hg])
      | (* Publish of a released message: the closure key is new *)
        unfold clo_reg; rewrite Hk; eexists; split; [reflexivity|sf; exact Hg]
      | (* die-log *)
        match goal with |- context [match ?k with KTransport => _ | _ => _ end] => destruct k end;
        (eexists; split; [reflexivity|sf; exact Hg]) ].
  - (* the processor has not made a step yet *)
    assert (Hp : pp s = PFirst \/ pp s = PDone).
    { destruct (pp s); try (exfalso; apply K1; exact Hg); auto. }
    unfold proc_next, proc_can_stop. destruct Hp as [Epp|Epp]; rewrite Epp; [|split; reflexivity].
    split; [reflexivity|split; [cbn [ret_event proc_kind]; split; intros Hx; discriminate Hx|split; [reflexivity|]]].
    destruct (role_free_inv _ _ Hf) as (R1 & R2 & R3 & R4).
    unfold step. unfold conn_open. rewrite Hl. cbn [negb ev_g step_clo first_some].
    rewrite (in_closure_idle _ g Hc), R1, R2, R3, R4. unfold bind, learn_proc, guard. rewrite Hg, Hf.
    unfold step_proc, die_p. change (pp (set_roles s (Some g) (gdeq s) (gack s) (gcl s))) with (pp s). rewrite Epp.
    eexists; split; [reflexivity|reflexivity].
Qed.


Lemma deq_progress s g ok :
  inv s -> lp s = LNone -> clos_idle s = true -> dying s = true -> (gdeq s <> None -> gdeq s = Some g) ->
  match deq_next s g ok with
  | Some e => ev_g e = Some g /\ (ret_event e = true <-> deq_kind (dp s) = KRet) /\
              (ret_event e = false -> own_event e = true) /\ exists s', step s e = Some s' /\ gdeq s' = Some g
  | None => deq_kind (dp s) = KStop /\ deq_can_stop s = true
  end.
Proof.
  intros (I1 & I2 & (_ & K2 & _) & I4) Hl Hc Hdy Hg.
  assert (Hne : lp s <> LEnd) by (rewrite Hl; discriminate).
  unfold deq_next, deq_can_stop. destruct (dp s) eqn:Edp; try (split; [reflexivity|first [reflexivity|exact Hdy]]).
  all: specialize (Hg K2).
  all: assert (R1 : is_role (gproc s) g = false)
         by (apply is_role_false_of; intros E; destruct (I1 g) as (H1 & _); destruct (H1 E) as (Hx & _); contradiction).
  all: (split; [reflexivity|split; [cbn [ret_event deq_kind]; split; intros Hx; try discriminate Hx; reflexivity|
               split; [intros Hx; first [reflexivity|discriminate Hx]|]]]).
  all: rewrite (step_as_deq s _ g) by (try assumption; reflexivity).
  all: unfold step_deq, guard; rewrite Edp.
  all: rewrite ?N.eqb_refl, ?packet_eqb_refl; cbn [andb].
  all: try (destruct ok; (eexists; split; [reflexivity|sf; exact Hg]); fail).
  all: first
    [ (* ENextId *)
      destruct (next_id (s_counter (sess s))) as [i c] eqn:En; cbn [fst]; rewrite N.eqb_refl;
      eexists; split; [reflexivity|sf; exact Hg]
    | (* ETx *)
      destruct ok; [|eexists; split; [reflexivity|sf; exact Hg]];
      match goal with |- context [match ?p with Publish _ _ _ => _ | _ => _ end] => destruct p end;
      try (eexists; split; [reflexivity|sf; exact Hg]);
      match goal with |- context [if ?b then _ else _] => destruct b end; (eexists; split; [reflexivity|sf; exact Hg])
    | (* die-log *)
      match goal with |- context [match ?k with KTransport => _ | _ => _ end] => destruct k end;
      (eexists; split; [reflexivity|sf; exact Hg]) ].
Qed.

Lemma ack_progress s g :
  inv s -> lp s = LNone -> clos_idle s = true -> dying s = true -> (gack s <> None -> gack s = Some g) ->
  match ack_next s g with
  | Some e => ev_g e = Some g /\ ret_event e = false /\ own_event e = true /\
              exists s', step s e = Some s' /\ gack s' = Some g
  | None => ack_kind (ap s) = KStop /\ ack_can_stop s = true
  end.
Proof.
  intros (I1 & I2 & (_ & _ & K3) & I4) Hl Hc Hdy Hg.
  assert (Hne : lp s <> LEnd) by (rewrite Hl; discriminate).
  unfold ack_next, ack_can_stop. destruct (ap s) eqn:Eap; try (split; [reflexivity|first [reflexivity|exact Hdy]]).
  all: specialize (Hg K3).
  all: assert (R1 : is_role (gproc s) g = false)
         by (apply is_role_false_of; intros E; destruct (I1 g) as (H1 & _); destruct (H1 E) as (_ & Hx & _); contradiction).
  all: assert (R2 : is_role (gdeq s) g = false)
         by (apply is_role_false_of; intros E; destruct (I1 g) as (_ & H2 & _); destruct (H2 E) as (Hx & _); contradiction).
  all: (split; [reflexivity|split; [reflexivity|split; [reflexivity|]]]).
  all: rewrite (step_as_ack s _ g) by (try assumption; reflexivity).
  all: unfold step_ack; rewrite Eap; (eexists; split; [reflexivity|sf; exact Hg]).
Qed.

(* the goroutine of a coroutine (for the processor: any unused number if it has not
   made a step yet) *)
Definition proc_g (s : bc) : N := match gproc s with Some g => g | None => fresh_g s end.

Theorem dying_stops : forall es s, bc_run es = Some s ->
  dying s = true -> lp s = LNone -> clos_idle s = true ->
  forall ok,
  (* processor *)
  match proc_next s (proc_g s) (fresh_k s) ok with
  | Some e => ev_g e = Some (proc_g s) /\ (ret_event e = true <-> proc_kind (pp s) = KRet) /\
              (ret_event e = false -> own_event e = true) /\
              exists s', step s e = Some s' /\ gproc s' = Some (proc_g s)
  | None => proc_kind (pp s) = KStop /\ proc_can_stop s = true
  end /\
  (* dequeuer *)
  match deq_next s (og (gdeq s)) ok with
  | Some e => ev_g e = Some (og (gdeq s)) /\ (ret_event e = true <-> deq_kind (dp s) = KRet) /\
              (ret_event e = false -> own_event e = true) /\
              exists s', step s e = Some s' /\ gdeq s' = Some (og (gdeq s))
  | None => deq_kind (dp s) = KStop /\ deq_can_stop s = true
  end /\
  (* acker *)
  match ack_next s (og (gack s)) with
  | Some e => ev_g e = Some (og (gack s)) /\ ret_event e = false /\ own_event e = true /\
              exists s', step s e = Some s' /\ gack s' = Some (og (gack s))
  | None => ack_kind (ap s) = KStop /\ ack_can_stop s = true
  end.
Proof.
  intros es s Hrun Hdy Hl Hc ok. pose proof (inv_reachable es s Hrun) as HI.
  split; [|split].
  - apply proc_progress; try assumption; [|apply fresh_k_free].
    unfold proc_g. destruct (gproc s) as [g|] eqn:E; [left; reflexivity|right; split; [reflexivity|apply fresh_role_free]].
  - apply deq_progress; try assumption. destruct (gdeq s); [reflexivity|intros Hx; contradiction].
  - apply ack_progress; try assumption. destruct (gack s); [reflexivity|intros Hx; contradiction].
Qed.

(* consequences in words: every control point is classified, and the classification
   of the enabled event agrees with it *)
Corollary dying_stops_summary : forall es s, bc_run es = Some s ->
  dying s = true -> lp s = LNone -> clos_idle s = true ->
  (proc_kind (pp s) = KStop -> proc_can_stop s = true) /\
  (deq_kind (dp s) = KStop -> deq_can_stop s = true) /\
  (ack_kind (ap s) = KStop -> ack_can_stop s = true) /\
  (proc_kind (pp s) <> KStop -> exists e s', step s e = Some s' /\ ev_g e = Some (proc_g s) /\
      (if ret_event e then proc_kind (pp s) = KRet else own_event e = true /\ proc_kind (pp s) = KOwn)) /\
  (deq_kind (dp s) <> KStop -> exists e s', step s e = Some s' /\ ev_g e = Some (og (gdeq s)) /\
      (if ret_event e then deq_kind (dp s) = KRet else own_event e = true /\ deq_kind (dp s) = KOwn)) /\
  (ack_kind (ap s) <> KStop -> exists e s', step s e = Some s' /\ ev_g e = Some (og (gack s)) /\
      ret_event e = false /\ own_event e = true).
Proof.
  intros es s Hrun Hdy Hl Hc. destruct (dying_stops es s Hrun Hdy Hl Hc true) as (Hp & Hd & Ha).
  split; [|split; [|split; [|split; [|split]]]].
  - destruct (proc_next s (proc_g s) (fresh_k s) true) as [e|]; [|intros _; apply Hp].
    destruct Hp as (_ & _ & _ & _). intros Hk. unfold proc_can_stop. destruct (pp s); try discriminate Hk; try reflexivity; exact Hdy.
  - intros Hk. unfold deq_can_stop. destruct (dp s); try discriminate Hk; try reflexivity; exact Hdy.
  - intros Hk. unfold ack_can_stop. destruct (ap s); try discriminate Hk; try reflexivity; exact Hdy.
  - intros Hk. destruct (proc_next s (proc_g s) (fresh_k s) true) as [e|]; [|destruct Hp as [Hx _]; contradiction].
    destruct Hp as (Hg & Hr & Ho & s' & Hs & _). exists e, s'. split; [exact Hs|split; [exact Hg|]].
    destruct (ret_event e) eqn:Er; [apply Hr; reflexivity|]. split; [apply Ho; reflexivity|].
    destruct (proc_kind (pp s)) eqn:Ek; [contradiction|reflexivity|]. destruct Hr as [_ Hr]. specialize (Hr eq_refl). discriminate Hr.
  - intros Hk. destruct (deq_next s (og (gdeq s)) true) as [e|]; [|destruct Hd as [Hx _]; contradiction].
    destruct Hd as (Hg & Hr & Ho & s' & Hs & _). exists e, s'. split; [exact Hs|split; [exact Hg|]].
    destruct (ret_event e) eqn:Er; [apply Hr; reflexivity|]. split; [apply Ho; reflexivity|].
    destruct (deq_kind (dp s)) eqn:Ek; [contradiction|reflexivity|]. destruct Hr as [_ Hr]. specialize (Hr eq_refl). discriminate Hr.
  - intros Hk. destruct (ack_next s (og (gack s))) as [e|]; [|destruct Ha as [Hx _]; contradiction].
    destruct Ha as (Hg & Hr & Ho & s' & Hs & _). exists e, s'. repeat split; assumption.
Qed.
