(* ConnProofsD2.v — model-level progress statements for C14 about the broker-connection
   model BC (Conn.v): once the three coroutines have stopped the cleanup events are
   enabled one after the other up to EClosed (C14_cleanup_enabled), and while the
   connection is dying every coroutine is at a stopping point or has an enabled next
   event of its own (C14_dying_stops).  Plus the model invariants they need. *)
From Coq Require Import List NArith Bool Lia.
From Coq.Strings Require Import Byte.
From GM Require Import Base.Lts Codec.Packet Session.Ids Session.Store Session.StoreProofs
  Broker.Conn Broker.ConnSpec Broker.ConnBase Broker.ConnProofsD0.
Import ListNotations.
Open Scope N_scope.

(* ============================================================ invariants == *)

(* a goroutine has at most one role *)
Definition roles_ok (s : bc) : Prop :=
  forall g,
    (gproc s = Some g -> gdeq s <> Some g /\ gack s <> Some g /\ gcl s <> Some g) /\
    (gdeq s = Some g -> gack s <> Some g /\ gcl s <> Some g) /\
    (gack s = Some g -> gcl s <> Some g).

(* the cleanup goroutine is known exactly while the cleanup is under way *)
Definition cl_ok (s : bc) : Prop :=
  match lp s with
  | LNone => gcl s = None
  | LWillR | LWillDie | LTerm | LTermDie => gcl s <> None
  | _ => True
  end.

(* a coroutine that has made a step is known by its goroutine *)
Definition known_ok (s : bc) : Prop :=
  (match pp s with PFirst | PDone => True | _ => gproc s <> None end) /\
  (match dp s with DOff | DToken | DDone => True | _ => gdeq s <> None end) /\
  (match ap s with ADieLog | ADieClose => gack s <> None | _ => True end).

(* the resend list is never empty *)
Definition resend_ok (s : bc) : Prop := forall ps, pp s = PResend ps -> ps <> [].

Definition inv (s : bc) : Prop := roles_ok s /\ cl_ok s /\ known_ok s /\ resend_ok s.

Lemma not_some_of_false r g : is_role r g = false -> r <> Some g.
Proof. apply is_role_false. Qed.

Lemma roles_ok_learn s g p d a c :
  roles_ok s -> role_free s g = true ->
  (p = Some g /\ d = gdeq s /\ a = gack s /\ c = gcl s) \/
  (p = gproc s /\ d = Some g /\ a = gack s /\ c = gcl s) \/
  (p = gproc s /\ d = gdeq s /\ a = Some g /\ c = gcl s) \/
  (p = gproc s /\ d = gdeq s /\ a = gack s /\ c = Some g) ->
  roles_ok (set_roles s p d a c).
Proof.
  intros Hok Hf Hc g'. destruct (role_free_inv _ _ Hf) as (F1 & F2 & F3 & F4).
  apply is_role_false in F1, F2, F3, F4. destruct (Hok g') as (H1 & H2 & H3). sf.
  destruct Hc as [(-> & -> & -> & ->)|[(-> & -> & -> & ->)|[(-> & -> & -> & ->)|(-> & -> & -> & ->)]]].
  - split; [intros E; injection E as <-; repeat split; assumption|split; assumption].
  - split; [intros E; destruct (H1 E) as (_ & Ha & Hb); repeat split; try assumption; intros E'; injection E' as <-; contradiction|].
    split; [intros E; injection E as <-; split; assumption|exact H3].
  - split; [intros E; destruct (H1 E) as (Ha & _ & Hb); repeat split; try assumption; intros E'; injection E' as <-; contradiction|].
    split; [intros E; destruct (H2 E) as (_ & Hb); split; [intros E'; injection E' as <-; contradiction|exact Hb]|].
    intros E; injection E as <-; exact F4.
  - split; [intros E; destruct (H1 E) as (Ha & Hb & _); repeat split; try assumption; intros E'; injection E' as <-; contradiction|].
    split; [intros E; destruct (H2 E) as (Ha & _); split; [exact Ha|intros E'; injection E' as <-; contradiction]|].
    intros E E'. injection E' as <-. contradiction.
Qed.

(* what the processor does to the other coroutines' control points *)
Lemma step_proc_pcs s e s' : step_proc s e = Some s' ->
  (dp s' = dp s \/ dp s' = DToken) /\ (ap s' = ap s \/ ap s' = AIdle) /\
  (match pp s' with PFirst => False | _ => True end) /\
  (resend_ok s -> resend_ok s').
Proof.
  intros H. unfold resend_ok. unfold step_proc, proc_dispatch, die_p, guard in H.
  destruct (pp s) eqn:Epp; destruct e; try discriminate H; bm H; inv_some H; inv_helpers; inv_tdia; sf.
  all: repeat split; auto; try (intros _ xps Hx; discriminate Hx); try (intros _ xps Hx; injection Hx as <-; discriminate).
Qed.

Lemma step_deq_pcs s e s' : step_deq s e = Some s' ->
  match dp s' with DOff => False | _ => True end.
Proof.
  intros H. unfold step_deq, take_deq, guard in H.
  destruct (dp s) eqn:Edp; destruct e; try discriminate H; bm H; inv_some H; sf; exact I.
Qed.

Lemma step_ack_pcs s e s' : step_ack s e = Some s' ->
  match ap s' with AOff => False | _ => True end.
Proof.
  intros H. unfold step_ack in H.
  destruct (ap s) eqn:Eap; destruct e; try discriminate H; bm H; inv_some H;
    unfold ack_token_back; try match goal with |- context [match ?p with Connect _ => _ | _ => _ end] => destruct p end;
    sf; try rewrite Eap; exact I.
Qed.

Lemma roles_ok_eq s s' :
  gproc s' = gproc s -> gdeq s' = gdeq s -> gack s' = gack s -> gcl s' = gcl s -> roles_ok s -> roles_ok s'.
Proof. intros E1 E2 E3 E4 H. unfold roles_ok. rewrite E1, E2, E3, E4. exact H. Qed.

Lemma cl_ok_eq s s' : lp s' = lp s -> gcl s' = gcl s -> cl_ok s -> cl_ok s'.
Proof. intros E1 E2 H. unfold cl_ok. rewrite E1, E2. exact H. Qed.

Lemma known_ok_eq s s' :
  pp s' = pp s -> dp s' = dp s -> ap s' = ap s ->
  gproc s' = gproc s -> gdeq s' = gdeq s -> gack s' = gack s -> known_ok s -> known_ok s'.
Proof. intros E1 E2 E3 E4 E5 E6 H. unfold known_ok. rewrite E1, E2, E3, E4, E5, E6. exact H. Qed.

Lemma resend_ok_eq s s' : pp s' = pp s -> resend_ok s -> resend_ok s'.
Proof. intros E H. unfold resend_ok. rewrite E. exact H. Qed.

Lemma inv_same s s' :
  pp s' = pp s -> dp s' = dp s -> ap s' = ap s -> lp s' = lp s ->
  gproc s' = gproc s -> gdeq s' = gdeq s -> gack s' = gack s -> gcl s' = gcl s -> inv s -> inv s'.
Proof.
  intros E1 E2 E3 E4 E5 E6 E7 E8 (I1 & I2 & I3 & I4). split; [|split; [|split]].
  - eapply roles_ok_eq; eassumption.
  - eapply cl_ok_eq; eassumption.
  - eapply known_ok_eq; eassumption.
  - eapply resend_ok_eq; eassumption.
Qed.

Lemma known_ok_roles s p d a c :
  (gproc s <> None -> p <> None) -> (gdeq s <> None -> d <> None) -> (gack s <> None -> a <> None) ->
  known_ok s -> known_ok (set_roles s p d a c).
Proof.
  intros H1 H2 H3 (K1 & K2 & K3). unfold known_ok; sf. split; [|split].
  - destruct (pp s); auto.
  - destruct (dp s); auto.
  - destruct (ap s); auto.
Qed.

Lemma inv_view_proc s s1 g e : inv s -> proc_view s s1 g e -> inv s1 /\ gproc s1 = Some g.
Proof.
  intros (I1 & I2 & I3 & I4) [[-> Hg]|(Hn & Hf & -> & _)]; [split; [exact (conj I1 (conj I2 (conj I3 I4)))|exact Hg]|].
  split; [|reflexivity]. split; [|split; [|split]].
  - apply roles_ok_learn with (g := g); [exact I1|exact Hf|left; repeat split; reflexivity].
  - exact I2.
  - apply known_ok_roles; auto; intros _; discriminate.
  - exact I4.
Qed.

Lemma inv_view_deq s s1 g : inv s -> deq_view s s1 g -> inv s1 /\ gdeq s1 = Some g.
Proof.
  intros (I1 & I2 & I3 & I4) [[-> Hg]|(Hn & Hf & ->)]; [split; [exact (conj I1 (conj I2 (conj I3 I4)))|exact Hg]|].
  split; [|reflexivity]. split; [|split; [|split]].
  - apply roles_ok_learn with (g := g); [exact I1|exact Hf|right; left; repeat split; reflexivity].
  - exact I2.
  - apply known_ok_roles; auto; intros _; discriminate.
  - exact I4.
Qed.

Lemma inv_view_ack s s1 g : inv s -> ack_view s s1 g -> inv s1 /\ gack s1 = Some g.
Proof.
  intros (I1 & I2 & I3 & I4) [[-> Hg]|(Hn & Hf & ->)]; [split; [exact (conj I1 (conj I2 (conj I3 I4)))|exact Hg]|].
  split; [|reflexivity]. split; [|split; [|split]].
  - apply roles_ok_learn with (g := g); [exact I1|exact Hf|right; right; left; repeat split; reflexivity].
  - exact I2.
  - apply known_ok_roles; auto; intros _; discriminate.
  - exact I4.
Qed.

Lemma inv_view_cl s s1 g : inv s -> cl_view s s1 g ->
  roles_ok s1 /\ known_ok s1 /\ resend_ok s1 /\ gcl s1 = Some g.
Proof.
  intros (I1 & I2 & I3 & I4) [[-> Hg]|(Hn & Hf & ->)]; [exact (conj I1 (conj I3 (conj I4 Hg)))|].
  split; [|split; [|split; [|reflexivity]]].
  - apply roles_ok_learn with (g := g); [exact I1|exact Hf|right; right; right; repeat split; reflexivity].
  - apply known_ok_roles; auto.
  - exact I4.
Qed.

(* the invariant after a cleanup step of a known cleanup goroutine (or EClosed) *)
Lemma inv_cleanup s e s' :
  roles_ok s -> known_ok s -> resend_ok s -> (gcl s <> None \/ e = EClosed) ->
  step_cleanup s e = Some s' -> inv s'.
Proof.
  intros I1 I3 I4 Hg Hp.
  assert (Hl : match lp s' with LNone => False | LWillR | LWillDie | LTerm | LTermDie => gcl s <> None | _ => True end).
  { unfold step_cleanup, guard in Hp. destruct (lp s) eqn:Elp; destruct e; try discriminate Hp; bm Hp; inv_some Hp; sf;
    try exact I; destruct Hg as [Hg|Hg]; try exact Hg; discriminate Hg. }
  destruct (step_cleanup_shape _ _ _ Hp) as (p & d & a & l & -> & _ & Hx). sf.
  split; [|split; [|split]].
  - apply (roles_ok_eq s); try reflexivity; exact I1.
  - unfold cl_ok; sf. destruct l; try exact I; try exact Hl. contradiction.
  - destruct I3 as (K1 & K2 & K3). unfold known_ok; sf.
    destruct Hx as [(-> & -> & -> & _)|(_ & _ & -> & -> & ->)]; [repeat split; assumption|].
    split; [exact I|split; [destruct (dp s); exact I|destruct (ap s); exact I]].
  - unfold resend_ok in *; sf. destruct Hx as [(-> & _)|(_ & _ & -> & _)]; [exact I4|intros xps Hx; discriminate Hx].
Qed.

Lemma inv_step s e s' : inv s -> step s e = Some s' -> inv s'.
Proof.
  intros HI H. destruct (step_cases _ _ _ H) as
    [He Hlp Hs|He Ho Hs|He Hq Hs|Hc|He Hc|g s1 Ho Hg Hc Hi Hv Hp|g s1 Ho Hg Hc Hi Hr1 Hv Hp
    |g s1 Ho Hg Hc Hi Hr1 Hr2 Hv Hp|g s1 Ho Hg Hc Hi Hr1 Hr2 Hr3 Hv Hp|g He Ho Hc Hi Hf Hs].
  - subst s'. unfold inv, roles_ok, cl_ok, known_ok, resend_ok, new_conn; sf.
    repeat split; try discriminate; auto.
  - subst s'. exact HI.
  - subst s'. exact HI.
  - destruct (step_clo_shape _ _ _ Hc) as (si & cl & dy & q & ->).
    apply (inv_same s); try reflexivity; exact HI.
  - destruct HI as (I1 & I2 & I3 & I4). eapply inv_cleanup; try eassumption. right; exact He.
  - (* processor *)
    destruct (inv_view_proc _ _ _ _ HI Hv) as ((I1 & I2 & I3 & I4) & Hgp).
    destruct (step_proc_frame _ _ _ Hp) as (_ & F1 & F2 & F3 & F4 & F5).
    destruct (step_proc_pcs _ _ _ Hp) as (P1 & P2 & P3 & P4).
    split; [|split; [|split]].
    + apply (roles_ok_eq s1); assumption.
    + apply (cl_ok_eq s1); assumption.
    + destruct I3 as (K1 & K2 & K3). unfold known_ok. rewrite F1, F2, F3, Hgp. split; [|split].
      * destruct (pp s'); try exact I; discriminate.
      * destruct P1 as [-> | ->]; [exact K2|exact I].
      * destruct P2 as [-> | ->]; [exact K3|exact I].
    + apply P4, I4.
  - (* dequeuer *)
    destruct (inv_view_deq _ _ _ HI Hv) as ((I1 & I2 & I3 & I4) & Hgd).
    pose proof (step_deq_pcs _ _ _ Hp) as P1.
    destruct (step_deq_shape _ _ _ Hp) as (se & d & dy & t1 & t2 & t3 & ->). sf.
    split; [|split; [|split]].
    + apply (roles_ok_eq s1); try reflexivity; exact I1.
    + apply (cl_ok_eq s1); try reflexivity; exact I2.
    + destruct I3 as (K1 & K2 & K3). unfold known_ok; sf. rewrite Hgd.
      split; [exact K1|split; [destruct d; try exact I; discriminate|exact K3]].
    + apply (resend_ok_eq s1); [reflexivity|exact I4].
  - (* acker *)
    destruct (inv_view_ack _ _ _ HI Hv) as ((I1 & I2 & I3 & I4) & Hga).
    destruct (step_ack_shape _ _ _ Hp) as (a & dy & t1 & t2 & t3 & q & ->). sf.
    split; [|split; [|split]].
    + apply (roles_ok_eq s1); try reflexivity; exact I1.
    + apply (cl_ok_eq s1); try reflexivity; exact I2.
    + destruct I3 as (K1 & K2 & K3). unfold known_ok; sf. rewrite Hga.
      split; [exact K1|split; [exact K2|destruct a; try exact I; discriminate]].
    + apply (resend_ok_eq s1); [reflexivity|exact I4].
  - (* cleanup *)
    destruct (inv_view_cl _ _ _ HI Hv) as (I1 & I3 & I4 & Hgc).
    eapply inv_cleanup; try eassumption. left. rewrite Hgc. discriminate.
  - subst s'. apply (inv_same s); try reflexivity; exact HI.
Qed.

Lemma inv_init : inv bc_init.
Proof.
  unfold inv, roles_ok, cl_ok, known_ok, resend_ok, bc_init; sf. repeat split; try discriminate; auto.
Qed.

Theorem inv_reachable : forall es s, bc_run es = Some s -> inv s.
Proof. exact (bc_invariant inv inv_init inv_step). Qed.

(* ================================================= C14_cleanup_enabled == *)

(* a goroutine number that is not in use *)
Definition og (r : option N) : N := match r with Some g => g | None => 0 end.
Definition clo_g (c : closure) : N :=
  match c_stat c with CDel g | CDieLog g | CDieClose g | CRun g => g | _ => 0 end.
Definition fresh_g (s : bc) : N :=
  1 + N.max (og (gproc s)) (N.max (og (gdeq s)) (N.max (og (gack s)) (N.max (og (gcl s))
        (fold_right N.max 0 (map clo_g (clos s)))))).

Lemma is_role_above r g : og r < g -> is_role r g = false.
Proof.
  destruct r as [g'|]; cbn [og is_role]; [|reflexivity]. intros H. apply N.eqb_neq. lia.
Qed.

Lemma fresh_role_free s : role_free s (fresh_g s) = true.
Proof.
  unfold role_free, fresh_g. rewrite !is_role_above; [reflexivity| | | |]; lia.
Qed.

Lemma clo_on_above l g : fold_right N.max 0 (map clo_g l) < g -> existsb (clo_on g) l = false.
Proof.
  induction l as [|c l IH]; cbn [map fold_right existsb]; [reflexivity|]. intros H.
  rewrite IH by lia. rewrite orb_false_r. unfold clo_on. unfold clo_g in H.
  destruct (c_stat c); try reflexivity; apply N.eqb_neq; lia.
Qed.

Lemma fresh_not_in_closure s : in_closure s (fresh_g s) = false.
Proof. unfold in_closure. apply clo_on_above. unfold fresh_g. lia. Qed.

(* g is the cleanup goroutine, has no other role and is not inside a closure *)
Definition cl_only (s : bc) (g : N) : Prop :=
  gcl s = Some g /\ is_role (gproc s) g = false /\ is_role (gdeq s) g = false /\ is_role (gack s) g = false /\
  in_closure s g = false.

Lemma cl_only_set_lp s g l : cl_only s g -> cl_only (set_lp s l) g.
Proof. intros H. unfold cl_only, in_closure in *; sf; exact H. Qed.

Lemma cl_only_of_inv s g : inv s -> gcl s = Some g -> in_closure s g = false -> cl_only s g.
Proof.
  intros (I1 & _) Hg Hc. destruct (I1 g) as (H1 & H2 & H3).
  split; [exact Hg|]. split; [|split; [|split; [|exact Hc]]]; apply is_role_false_of.
  - intros E. destruct (H1 E) as (_ & _ & Hx). contradiction.
  - intros E. destruct (H2 E) as (_ & Hx). contradiction.
  - intros E. apply (H3 E). exact Hg.
Qed.

(* an event of the cleanup goroutine is handled by step_cleanup *)
Lemma step_to_cleanup s e g :
  special_event e = false -> ev_g e = Some g -> lp s <> LEnd -> step_clo s e = None -> cl_only s g ->
  step s e = step_cleanup s e.
Proof.
  intros Hs Hg Hl Hc (G & R1 & R2 & R3 & Hi).
  rewrite (step_is_gen _ _ Hs). unfold step_gen.
  assert (Ho : conn_open s = true) by (unfold conn_open; destruct (lp s); try reflexivity; contradiction).
  rewrite Ho, Hg, Hc, Hi, R1, R2, R3, G, is_role_some. reflexivity.
Qed.

(* the first cleanup event of a fresh goroutine is handled by step_cleanup *)
Lemma step_learn_cleanup s e g :
  match e with EPub g' _ None | ETerm g' _ => g' = g | _ => False end ->
  lp s <> LEnd -> gcl s = None -> role_free s g = true -> in_closure s g = false ->
  step s e = step_cleanup (set_roles s (gproc s) (gdeq s) (gack s) (Some g)) e.
Proof.
  intros He Hl Hn Hf Hi. destruct (role_free_inv _ _ Hf) as (R1 & R2 & R3 & R4).
  assert (Ho : conn_open s = true) by (unfold conn_open; destruct (lp s); try reflexivity; contradiction).
  destruct e; try contradiction.
  - destruct k; [contradiction|]. subst g0. unfold step. rewrite Ho. cbn [negb ev_g step_clo first_some].
    rewrite Hi, R1, R2, R3, R4. unfold bind, learn_cl, guard. rewrite Hn, Hf. reflexivity.
  - subst g0. unfold step. rewrite Ho. cbn [negb ev_g step_clo first_some].
    rewrite Hi, R1, R2, R3, R4. unfold bind, learn_cl, guard. rewrite Hn, Hf. reflexivity.
Qed.

Definition with_cl (s : bc) (g : N) : bc := set_roles s (gproc s) (gdeq s) (gack s) (Some g).

Lemma cl_only_start s g l : role_free s g = true -> in_closure s g = false -> cl_only (set_lp (freeze (with_cl s g)) l) g.
Proof.
  intros Hf Hi. destruct (role_free_inv _ _ Hf) as (R1 & R2 & R3 & R4).
  unfold cl_only, in_closure, with_cl in *; sf. repeat split; assumption.
Qed.

(* ---- the individual cleanup steps, with their exact successor states ---- *)

Lemma cl_start_will s g w :
  lp s = LNone -> gcl s = None -> all_stopped s = true -> ph s = Connected -> will s = Some w ->
  role_free s g = true -> in_closure s g = false ->
  step s (EPub g w None) = Some (set_lp (freeze (with_cl s g)) LWillR).
Proof.
  intros Hl Hn Hst Hph Hw Hf Hi.
  rewrite (step_learn_cleanup s _ g); try assumption; [|reflexivity|rewrite Hl; discriminate].
  unfold step_cleanup, guard. fold (with_cl s g).
  change (lp (with_cl s g)) with (lp s). change (all_stopped (with_cl s g)) with (all_stopped s).
  change (ph (with_cl s g)) with (ph s). change (will (with_cl s g)) with (will s).
  rewrite Hl, Hst, Hph, Hw, message_eqb_refl. reflexivity.
Qed.

Lemma cl_start_term s g ok :
  lp s = LNone -> gcl s = None -> all_stopped s = true -> phase_geq_connected (ph s) = true ->
  (ph s = Connected -> will s = None) ->
  role_free s g = true -> in_closure s g = false ->
  step s (ETerm g ok) = Some (set_lp (freeze (with_cl s g)) (if ok then LClosed else LTermDie)).
Proof.
  intros Hl Hn Hst Hph Hw Hf Hi.
  rewrite (step_learn_cleanup s _ g); try assumption; [|reflexivity|rewrite Hl; discriminate].
  unfold step_cleanup, guard. fold (with_cl s g).
  change (lp (with_cl s g)) with (lp s). change (all_stopped (with_cl s g)) with (all_stopped s).
  change (ph (with_cl s g)) with (ph s). change (will (with_cl s g)) with (will s).
  rewrite Hl, Hst, Hph.
  assert (Hx : negb (phase_connected (ph s) && match will s with Some _ => true | None => false end) = true).
  { destruct (ph s) eqn:E; try reflexivity. rewrite (Hw eq_refl). reflexivity. }
  rewrite Hx. reflexivity.
Qed.

Lemma cl_start_closed s :
  lp s = LNone -> all_stopped s = true -> ph s = Connecting -> step s EClosed = Some (set_lp (freeze s) LEnd).
Proof.
  intros Hl Hst Hph. cbn [step]. unfold step_cleanup, guard. rewrite Hl, Hst, Hph. reflexivity.
Qed.

Lemma cl_willret s g ok : lp s = LWillR -> cl_only s g ->
  step s (EPubRet g ok) = Some (set_lp s (if ok then LTerm else LWillDie)).
Proof.
  intros Hl Hc. rewrite (step_to_cleanup s _ g); try assumption; try reflexivity; [|rewrite Hl; discriminate].
  unfold step_cleanup. rewrite Hl. reflexivity.
Qed.

Lemma cl_willdie s g : lp s = LWillDie -> cl_only s g -> step s (EDie g KBackend) = Some (set_lp s LTerm).
Proof.
  intros Hl Hc. rewrite (step_to_cleanup s _ g); try assumption; try reflexivity; [|rewrite Hl; discriminate].
  unfold step_cleanup. rewrite Hl. reflexivity.
Qed.

Lemma cl_term s g ok : lp s = LTerm -> cl_only s g ->
  step s (ETerm g ok) = Some (set_lp s (if ok then LClosed else LTermDie)).
Proof.
  intros Hl Hc. rewrite (step_to_cleanup s _ g); try assumption; try reflexivity; [|rewrite Hl; discriminate].
  unfold step_cleanup. rewrite Hl. reflexivity.
Qed.

Lemma cl_termdie s g : lp s = LTermDie -> cl_only s g -> step s (EDie g KBackend) = Some (set_lp s LClosed).
Proof.
  intros Hl Hc. rewrite (step_to_cleanup s _ g); try assumption; try reflexivity; [|rewrite Hl; discriminate].
  unfold step_cleanup. rewrite Hl. reflexivity.
Qed.

Lemma cl_closed s : lp s = LClosed -> step s EClosed = Some (set_lp s LEnd).
Proof. intros Hl. cbn [step]. unfold step_cleanup. rewrite Hl. reflexivity. Qed.

(* ---- runs to EClosed ---- *)

Lemma reach_LClosed s : lp s = LClosed -> Lts.run step s [EClosed] = Some (set_lp s LEnd).
Proof. intros Hl. cbn [Lts.run]. rewrite (cl_closed s Hl). reflexivity. Qed.

Lemma reach_LTerm s g : lp s = LTerm -> cl_only s g ->
  Lts.run step s [ETerm g true; EClosed] = Some (set_lp (set_lp s LClosed) LEnd).
Proof. intros Hl Hc. cbn [Lts.run]. rewrite (cl_term s g true Hl Hc). apply reach_LClosed. reflexivity. Qed.

Lemma reach_LTermDie s g : lp s = LTermDie -> cl_only s g ->
  Lts.run step s [EDie g KBackend; EClosed] = Some (set_lp (set_lp s LClosed) LEnd).
Proof. intros Hl Hc. cbn [Lts.run]. rewrite (cl_termdie s g Hl Hc). apply reach_LClosed. reflexivity. Qed.

Lemma reach_LWillR s g : lp s = LWillR -> cl_only s g ->
  Lts.run step s [EPubRet g true; ETerm g true; EClosed] = Some (set_lp (set_lp (set_lp s LTerm) LClosed) LEnd).
Proof.
  intros Hl Hc. cbn [Lts.run]. rewrite (cl_willret s g true Hl Hc).
  apply (reach_LTerm _ g); [reflexivity|apply cl_only_set_lp, Hc].
Qed.

Lemma reach_LWillDie s g : lp s = LWillDie -> cl_only s g ->
  Lts.run step s [EDie g KBackend; ETerm g true; EClosed] = Some (set_lp (set_lp (set_lp s LTerm) LClosed) LEnd).
Proof.
  intros Hl Hc. cbn [Lts.run]. rewrite (cl_willdie s g Hl Hc).
  apply (reach_LTerm _ g); [reflexivity|apply cl_only_set_lp, Hc].
Qed.

(* ---- the statement ---- *)

(* the first cleanup event, by a goroutine g that is new to the connection *)
Definition cl_next_start (s : bc) (g : N) : Prop :=
  match ph s, will s with
  | Connecting, _ => exists s', step s EClosed = Some s' /\ lp s' = LEnd
  | Connected, Some w => exists s', step s (EPub g w None) = Some s' /\ lp s' = LWillR /\ cl_only s' g
  | _, _ => forall ok, exists s', step s (ETerm g ok) = Some s' /\ lp s' = (if ok then LClosed else LTermDie) /\ cl_only s' g
  end.

(* the next cleanup event of the cleanup goroutine g *)
Definition cl_next_cont (s : bc) (g : N) : Prop :=
  match lp s with
  | LWillR => forall ok, exists s', step s (EPubRet g ok) = Some s' /\ lp s' = (if ok then LTerm else LWillDie) /\ cl_only s' g
  | LWillDie => exists s', step s (EDie g KBackend) = Some s' /\ lp s' = LTerm /\ cl_only s' g
  | LTerm => forall ok, exists s', step s (ETerm g ok) = Some s' /\ lp s' = (if ok then LClosed else LTermDie) /\ cl_only s' g
  | LTermDie => exists s', step s (EDie g KBackend) = Some s' /\ lp s' = LClosed /\ cl_only s' g
  | _ => True
  end.

(* the cleanup can proceed: the coroutines have stopped, resp. the cleanup goroutine is
   not held inside an acknowledgement closure *)
Definition cl_ready (s : bc) : Prop :=
  match lp s with
  | LNone => all_stopped s = true
  | LEnd => False
  | LClosed => True
  | _ => forall g, gcl s = Some g -> in_closure s g = false
  end.

Lemma cl_next_start_holds s g :
  inv s -> lp s = LNone -> all_stopped s = true -> role_free s g = true -> in_closure s g = false ->
  cl_next_start s g.
Proof.
  intros (_ & I2 & _) Hl Hst Hf Hi. unfold cl_ok in I2. rewrite Hl in I2. unfold cl_next_start.
  destruct (ph s) eqn:Eph.
  - eexists. split; [apply cl_start_closed; assumption|reflexivity].
  - destruct (will s) as [w|] eqn:Ew.
    + eexists. split; [apply cl_start_will; assumption|]. split; [reflexivity|apply cl_only_start; assumption].
    + intros ok. eexists. split; [apply cl_start_term; try assumption; [rewrite Eph; reflexivity|intros _; exact Ew]|].
      split; [reflexivity|apply cl_only_start; assumption].
  - intros ok. eexists. split; [apply cl_start_term; try assumption; [rewrite Eph; reflexivity|rewrite Eph; discriminate]|].
    split; [reflexivity|apply cl_only_start; assumption].
Qed.

Lemma cl_next_cont_holds s g : cl_only s g -> cl_next_cont s g.
Proof.
  intros Hc. unfold cl_next_cont. destruct (lp s) eqn:Hl; try exact I.
  - intros ok. eexists. split; [apply (cl_willret s g ok Hl Hc)|]. split; [reflexivity|apply cl_only_set_lp, Hc].
  - eexists. split; [apply (cl_willdie s g Hl Hc)|]. split; [reflexivity|apply cl_only_set_lp, Hc].
  - intros ok. eexists. split; [apply (cl_term s g ok Hl Hc)|]. split; [reflexivity|apply cl_only_set_lp, Hc].
  - eexists. split; [apply (cl_termdie s g Hl Hc)|]. split; [reflexivity|apply cl_only_set_lp, Hc].
Qed.

Lemma cl_reaches_closed s : inv s -> cl_ready s ->
  exists es' s', (length es' <= 3)%nat /\ Lts.run step s (es' ++ [EClosed]) = Some s' /\ lp s' = LEnd.
Proof.
  intros HI Hr. pose proof HI as (_ & I2 & _). unfold cl_ok in I2. unfold cl_ready in Hr.
  assert (Hknown : forall P : Prop, gcl s <> None -> (forall g, gcl s = Some g -> P) -> P).
  { intros P Hn HP. destruct (gcl s) as [g|]; [apply (HP g); reflexivity|contradiction]. }
  destruct (lp s) eqn:Hl.
  - (* LNone *)
    pose proof (fresh_role_free s) as Hf. pose proof (fresh_not_in_closure s) as Hi. set (g := fresh_g s) in *.
    destruct (ph s) eqn:Eph.
    + exists [], (set_lp (freeze s) LEnd). split; [cbn; lia|]. cbn [app Lts.run].
      rewrite (cl_start_closed s Hl Hr Eph). split; reflexivity.
    + destruct (will s) as [w|] eqn:Ew.
      * exists [EPub g w None; EPubRet g true; ETerm g true]. eexists. split; [cbn; lia|].
        cbn [app]. cbn [Lts.run]. rewrite (cl_start_will s g w Hl I2 Hr Eph Ew Hf Hi).
        split; [apply (reach_LWillR _ g); [reflexivity|apply cl_only_start; assumption]|reflexivity].
      * exists [ETerm g true]. eexists. split; [cbn; lia|].
        cbn [app]. cbn [Lts.run]. rewrite (cl_start_term s g true Hl I2 Hr); try assumption;
          [|rewrite Eph; reflexivity|intros _; exact Ew].
        split; [apply reach_LClosed; reflexivity|reflexivity].
    + exists [ETerm g true]. eexists. split; [cbn; lia|].
      cbn [app]. cbn [Lts.run]. rewrite (cl_start_term s g true Hl I2 Hr); try assumption;
        [|rewrite Eph; reflexivity|rewrite Eph; discriminate].
      split; [apply reach_LClosed; reflexivity|reflexivity].
  - apply (Hknown _ I2). intros g Hg. pose proof (cl_only_of_inv s g HI Hg (Hr g Hg)) as Hc.
    exists [EPubRet g true; ETerm g true]. eexists. split; [cbn; lia|]. cbn [app].
    split; [apply (reach_LWillR s g Hl Hc)|reflexivity].
  - apply (Hknown _ I2). intros g Hg. pose proof (cl_only_of_inv s g HI Hg (Hr g Hg)) as Hc.
    exists [EDie g KBackend; ETerm g true]. eexists. split; [cbn; lia|]. cbn [app].
    split; [apply (reach_LWillDie s g Hl Hc)|reflexivity].
  - apply (Hknown _ I2). intros g Hg. pose proof (cl_only_of_inv s g HI Hg (Hr g Hg)) as Hc.
    exists [ETerm g true]. eexists. split; [cbn; lia|]. cbn [app].
    split; [apply (reach_LTerm s g Hl Hc)|reflexivity].
  - apply (Hknown _ I2). intros g Hg. pose proof (cl_only_of_inv s g HI Hg (Hr g Hg)) as Hc.
    exists [EDie g KBackend]. eexists. split; [cbn; lia|]. cbn [app].
    split; [apply (reach_LTermDie s g Hl Hc)|reflexivity].
  - exists []. eexists. split; [cbn; lia|]. cbn [app]. split; [apply (reach_LClosed s Hl)|reflexivity].
  - contradiction.
Qed.

Theorem cleanup_enabled : forall es s, bc_run es = Some s ->
  (* a goroutine number new to the connection always exists *)
  (exists g, role_free s g = true /\ in_closure s g = false) /\
  (* once the three coroutines have stopped, any such goroutine can begin the cleanup:
     the will when due, else Terminate, else (client never authenticated) Closed *)
  (lp s = LNone -> all_stopped s = true ->
   forall g, role_free s g = true -> in_closure s g = false -> cl_next_start s g) /\
  (* while the cleanup is under way its goroutine is known ... *)
  (match lp s with LWillR | LWillDie | LTerm | LTermDie => exists g, gcl s = Some g | _ => True end) /\
  (* ... and, unless it is held inside an acknowledgement closure, its next event is enabled *)
  (forall g, gcl s = Some g -> in_closure s g = false -> cl_next_cont s g) /\
  (lp s = LClosed -> exists s', step s EClosed = Some s' /\ lp s' = LEnd) /\
  (* so the closed signal can fire within four further events *)
  (cl_ready s ->
   exists es' s', (length es' <= 3)%nat /\ Lts.run step s (es' ++ [EClosed]) = Some s' /\ lp s' = LEnd).
Proof.
  intros es s Hrun. pose proof (inv_reachable es s Hrun) as HI.
  split; [exists (fresh_g s); split; [apply fresh_role_free|apply fresh_not_in_closure]|].
  split; [intros Hl Hst g Hf Hi; apply cl_next_start_holds; assumption|].
  split.
  { destruct HI as (_ & I2 & _). unfold cl_ok in I2.
    destruct (lp s); try exact I; (destruct (gcl s) as [g|]; [exists g; reflexivity|contradiction]). }
  split; [intros g Hg Hi; apply cl_next_cont_holds, cl_only_of_inv; assumption|].
  split; [intros Hl; eexists; split; [apply (cl_closed s Hl)|reflexivity]|].
  apply cl_reaches_closed, HI.
Qed.
