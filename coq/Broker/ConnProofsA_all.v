(* ConnProofsA_all.v — the clauses of C20 and C12 together, per property. *)
From Coq Require Import List NArith Bool.
From GM Require Import Base.Lts Codec.Packet Session.Store Broker.Conn Broker.ConnSpec Broker.ConnBase
  Broker.ConnProofsA_gate Broker.ConnProofsA_sc Broker.ConnProofsA_will Broker.ConnProofsA_resp2.
Import ListNotations.

Theorem spec_c20_holds : forall es s, bc_run es = Some s -> spec_c20 es = true.
Proof.
  intros es s H. unfold spec_c20.
  rewrite (c20_gate_holds es s H), (c20_single_connack_holds es s H), (c20_responses_holds es s H). reflexivity.
Qed.

Theorem spec_c12_holds : forall es s, bc_run es = Some s -> spec_c12 es = true.
Proof. intros es s H. unfold spec_c12. exact (c12_will_holds es s H). Qed.
