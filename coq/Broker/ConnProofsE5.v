(* ConnProofsE5.v — non-vacuity of the audit clauses (ConnSpec6.v): they hold on traces the
   model accepts that exercise them (traces observed on the implementation, kept in
   ConnProofsB0 / ConnProofsCTraces / ConnProofsA_traces), and they reject short traces that
   show exactly the behaviour each of them is about. *)
From Coq Require Import List NArith Bool.
From Coq.Strings Require Import Byte.
From GM Require Import Base.Lts Codec.Packet Session.Store Broker.Conn Broker.ConnSpec Broker.ConnSpec6
  Broker.ConnProofsB0 Broker.ConnProofsCTraces Broker.ConnProofsA_traces.
Import ListNotations.
Open Scope N_scope.

Definition acc (es : list event) : bool := match bc_run es with Some _ => true | None => false end.

Definition audit_clauses (es : list event) : bool :=
  c07_release_in_ack es && c20_acted_on es && c20_closes es && c16_quiescent_dequeuing es &&
  c08_deqack_after_store es && c08_store_replica es.

(* QoS 2 handshakes of a publisher (release inside the acknowledgement, retransmitted PUBREL, PUBCOMP
   write failing and resume), deliveries with PUBACK / PUBREC / PUBCOMP, a resume that re-sends a
   PUBLISH (dup) and a PUBREL, pipelined requests, denial, a first packet that is not CONNECT *)
Lemma audit_clauses_on_accepted :
  forallb (fun es => acc es && audit_clauses es)
    [tr_handshake; tr_pubrel_retx; tr_pubcomp_write_fails; tr_delfail_resume; tr_never_ack;
     tr_qos1; tr_qos2; tr_resume; tr_w1; tr_qos0;
     tr_pipe; tr_deny; tr_first_not_connect; tr_second_connect; tr_failsend; tr_sub_tokens; tr_token_timeout] = true.
Proof. vm_compute. reflexivity. Qed.

Definition e_m1 := Msg [x6d] [x01] 1 false.
Definition e_m2 := Msg [x74] [x01] 2 true.

Lemma audit_clauses_reject :
  (* the stored PUBLISH deleted when Publish returned, outside the acknowledgement *)
  c07_release_in_ack [ENewConn; ERx 2 (Pubrel 1); ELookup 2 Incoming 1 (LRes (Some (Publish false e_m2 1)));
                      EPub 2 e_m2 (Some 1); EPubRet 2 true; EDelete 2 Incoming 1 true] = false /\
  (* ... or by a goroutine inside the acknowledgement of another id *)
  c07_release_in_ack [ENewConn; ERx 2 (Pubrel 1); EPub 2 e_m2 (Some 1); EAckCall 1 2; EDelete 2 Incoming 2 true] = false /\
  (* inside the acknowledgement: fine *)
  c07_release_in_ack [ENewConn; ERx 2 (Pubrel 1); EPub 2 e_m2 (Some 1); EAckCall 1 2; EDelete 2 Incoming 1 true;
                      EAckRet 1 2] = true /\
  (* a SUBSCRIBE dropped: the next packet is read without the backend having been called *)
  c20_acted_on [ENewConn; ERx 2 (Subscribe 7 [([x61], 1)]); ERx 2 Pingreq] = false /\
  (* a stray PINGRESP ignored *)
  c20_acted_on [ENewConn; ERx 2 Pingresp; ERxErr 2] = false /\
  c20_acted_on [ENewConn; ERx 2 Pingresp; EDie 2 KClient; EConnClose 2] = true /\
  (* a PUBACK not processed before quiescence *)
  c20_acted_on [ENewConn; ERx 2 (Puback 3); EQuiescent] = false /\
  (* a connection that ends without its transport having been closed *)
  c20_closes [ENewConn; ERx 2 (Pubrel 6); EDie 2 KClient; EClosed] = false /\
  (* a denied client that never got its CONNACK *)
  c20_closes [ENewConn; EAuth 2 ADeny; EDie 2 KClient; EConnClose 2; EClosed] = false /\
  c20_closes [ENewConn; EAuth 2 ADeny; ETx 2 (Connack false 5) false true; EDie 2 KClient; EConnClose 2; EClosed] = true /\
  (* quiescent while the dequeuer is not asking for the next message *)
  c16_quiescent_dequeuing [ENewConn; EDeqCall 3; EDeqRet 3 (QMsg e_m1 false); EQuiescent] = false /\
  c16_quiescent_dequeuing [ENewConn; EQuiescent] = false /\
  c16_quiescent_dequeuing [ENewConn; EDeqCall 3; EQuiescent] = true /\
  (* the backend's message acknowledged before it is stored *)
  c08_deqack_after_store [ENewConn; EDeqRet 3 (QMsg e_m1 true); ENextId 3 1; EDeqAck 3] = false /\
  c08_deqack_after_store [ENewConn; EDeqRet 3 (QMsg e_m1 true); ENextId 3 1; ESave 3 Outgoing (Publish false e_m1 1) false;
                          EDeqAck 3] = false /\
  c08_deqack_after_store [ENewConn; EDeqRet 3 (QMsg e_m1 true); ENextId 3 1; ESave 3 Outgoing (Publish false e_m1 1) true;
                          EDeqAck 3] = true /\
  (* a listing at resume that is not what was recorded: an entry missing, an entry aliased *)
  c08_store_replica [ESave 3 Outgoing (Publish false e_m1 1) true; EAll 5 Outgoing (Some [])] = false /\
  c08_store_replica [ESave 3 Outgoing (Publish false e_m1 1) true; ESave 3 Outgoing (Publish false e_m2 2) true;
                     EAll 5 Outgoing (Some [Publish false e_m2 2; Publish false e_m2 2])] = false /\
  c08_store_replica [ESave 3 Outgoing (Publish false e_m1 1) true; ESave 3 Outgoing (Publish false e_m2 2) true;
                     ESave 2 Outgoing (Pubrel 2) true; EDelete 2 Outgoing 1 true;
                     EAll 5 Outgoing (Some [Pubrel 2])] = true.
Proof. vm_compute. repeat split; reflexivity. Qed.
