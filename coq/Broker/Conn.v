(* Conn.v — BC: the model of one broker connection (/repo/broker/client.go) as a
   deterministic monitor over the events a recording Conn / Session / Backend
   observe (DESIGN.md Appendix A).  Definitions only.

   A *session lifetime* is a sequence of connections (ENewConn … EClosed)* over
   one session object; the session (packet stores, id counter) and the ack
   closures handed to the backend survive a connection.

   Coroutines of one connection: processor, dequeuer, acker, the closures the
   backend invokes (from any goroutine), cleanup.  Every event carries the id
   [g] of the goroutine that produced it; roles are learned from the first
   distinctive event (first Receive => processor, first Dequeue => dequeuer,
   first other Send => acker).  All nondeterminism (scheduler, peer, backend,
   failures) is in WHICH event comes next; [step] is a function.

   Blocking on a token is invisible: the token is taken in the model at the
   next visible event of the coroutine that needed it.  Once the connection is
   dying the model is deliberately permissive about where coroutines stop. *)
From Coq Require Import List NArith Bool.
From GM Require Import Base.Lts Codec.Packet Session.Ids Session.Store.
Import ListNotations.
Open Scope N_scope.

(* ------------------------------------------------------------------ events *)

Inductive auth_res := AOk | ADeny | AErr.
Inductive setup_res := SErr | SOk (resumed fresh : bool) (w pp ps : N).
Inductive deq_res := QNone | QErr | QMsg (m : message) (backack : bool).
Inductive lookup_res := LErr | LRes (p : option packet).
Inductive diekind := KTransport | KSession | KBackend | KClient.

Inductive event :=
| ENewConn
| ERx (g : N) (p : packet) | ERxErr (g : N)
| ETx (g : N) (p : packet) (async ok : bool)
| EConnClose (g : N)
| EAuth (g : N) (r : auth_res)
| ESetup (g : N) (r : setup_res)
| ERestore (g : N) (ok : bool)
| ESub (g : N) (subs : list (bytes * N)) (k : N) | ESubRet (g : N) (ok : bool)
| EUnsub (g : N) (topics : list bytes) (k : N) | EUnsubRet (g : N) (ok : bool)
| EPub (g : N) (m : message) (k : option N) | EPubRet (g : N) (ok : bool)
| EDeqCall (g : N) | EDeqRet (g : N) (r : deq_res) | EDeqAck (g : N)
| ETerm (g : N) (ok : bool)
| EAckCall (k : N) (g : N) | EAckRet (k : N) (g : N)
| ENextId (g : N) (id : N)
| ESave (g : N) (d : direction) (p : packet) (ok : bool)
| ELookup (g : N) (d : direction) (id : N) (r : lookup_res)
| EDelete (g : N) (d : direction) (id : N) (ok : bool)
| EAll (g : N) (d : direction) (r : option (list packet))
| EDie (g : N) (k : diekind)
| ECloseReq
| EClosed
| EQuiescent.                       (* harness marker: connection alive, nothing moves *)

(* ------------------------------------------------------------------- state *)

Inductive phase := Connecting | Connected | Disconnected.      (* Client.state *)

Inductive ackkind :=
| KSuback (id : N) (codes : list N) | KUnsuback (id : N) | KPuback (id : N) | KPubcomp (id : N).

Definition ack_packet (a : ackkind) : packet :=
  match a with
  | KSuback id cs => Suback id cs | KUnsuback id => Unsuback id
  | KPuback id => Puback id | KPubcomp id => Pubcomp id
  end.

(* a closure handed to the backend *)
Inductive cstat :=
| CReg                      (* handed out, not invoked *)
| CDel (g : N)              (* pubcomp closure running: next its EDelete Incoming id *)
| CDieLog (g : N) | CDieClose (g : N)   (* its delete failed: die(SessionError) *)
| CRun (g : N)              (* running: next EAckRet *)
| CDone.
Record closure := Clo { c_k : N; c_conn : N; c_kind : ackkind; c_stat : cstat }.

Inductive ppc :=
| PFirst | PAuth (c : connect) | PDeny | PSetup (c : connect) | PConnack (c : connect) (resumed : bool)
| PAll | PResend (ps : list packet) | PRestore | PLoop
| PSubW (id : N) (subs : list (bytes * N)) | PSubR
| PUnsubW (id : N) (ts : list bytes) | PUnsubR
| PPub0 (m : message) | PPubR
| PPub1W (id : N) (m : message)
| PPub2W (p : packet) | PPubrec (id : N)
| PAckDel (id : N)
| PRecSave (id : N) | PRelTx (id : N)
| PRelLookup (id : N) | PRelPub (id : N) (m : message) | PCompTx (id : N)
| PPing | PDisc
| PDieLog (k : diekind) | PDieClose | PDone.

Inductive dpc :=
| DOff | DToken | DWait | DNextId (m : message) (ba : bool)
| DSave (p : packet) (ba : bool) | DBackAck (p : packet) | DSend (p : packet)
| DDieLog (k : diekind) | DDieClose | DDone.

Inductive apc := AOff | AIdle | ADieLog | ADieClose | ADone.

Inductive lpc := LNone | LWillR | LWillDie | LTerm | LTermDie | LClosed | LEnd.

Record bc := BC {
  conn_no : N;                      (* number of the current connection in the lifetime (0 = none yet) *)
  sess    : session;                (* survives connections *)
  clos    : list closure;           (* survives connections *)
  gproc : option N; gdeq : option N; gack : option N; gcl : option N;
  ph    : phase;
  pp    : ppc; dp : dpc; ap : apc; lp : lpc;
  dying : bool;                     (* conn.Close was called: tomb.Kill happened or is imminent *)
  will  : option message;
  cw : N; cpp : N; cps : N;         (* window, parallel publishes, parallel subscribes *)
  tdeq : N; tpub : N; tsub : N;     (* tokens currently in the three channels *)
  ackq : list packet }.             (* ack queue (packets whose closure ran and that the acker has not sent) *)

Definition bc_init : bc :=
  BC 0 session_new [] None None None None Connecting PDone DOff AOff LEnd false None 0 0 0 0 0 0 [].

(* record update helpers (one per field that changes often) *)
Definition set_pp (s : bc) (x : ppc) : bc :=
  BC (conn_no s) (sess s) (clos s) (gproc s) (gdeq s) (gack s) (gcl s) (ph s) x (dp s) (ap s) (lp s)
     (dying s) (will s) (cw s) (cpp s) (cps s) (tdeq s) (tpub s) (tsub s) (ackq s).
Definition set_dp (s : bc) (x : dpc) : bc :=
  BC (conn_no s) (sess s) (clos s) (gproc s) (gdeq s) (gack s) (gcl s) (ph s) (pp s) x (ap s) (lp s)
     (dying s) (will s) (cw s) (cpp s) (cps s) (tdeq s) (tpub s) (tsub s) (ackq s).
Definition set_ap (s : bc) (x : apc) : bc :=
  BC (conn_no s) (sess s) (clos s) (gproc s) (gdeq s) (gack s) (gcl s) (ph s) (pp s) (dp s) x (lp s)
     (dying s) (will s) (cw s) (cpp s) (cps s) (tdeq s) (tpub s) (tsub s) (ackq s).
Definition set_lp (s : bc) (x : lpc) : bc :=
  BC (conn_no s) (sess s) (clos s) (gproc s) (gdeq s) (gack s) (gcl s) (ph s) (pp s) (dp s) (ap s) x
     (dying s) (will s) (cw s) (cpp s) (cps s) (tdeq s) (tpub s) (tsub s) (ackq s).
Definition set_sess (s : bc) (x : session) : bc :=
  BC (conn_no s) x (clos s) (gproc s) (gdeq s) (gack s) (gcl s) (ph s) (pp s) (dp s) (ap s) (lp s)
     (dying s) (will s) (cw s) (cpp s) (cps s) (tdeq s) (tpub s) (tsub s) (ackq s).
Definition set_clos (s : bc) (x : list closure) : bc :=
  BC (conn_no s) (sess s) x (gproc s) (gdeq s) (gack s) (gcl s) (ph s) (pp s) (dp s) (ap s) (lp s)
     (dying s) (will s) (cw s) (cpp s) (cps s) (tdeq s) (tpub s) (tsub s) (ackq s).
Definition set_dying (s : bc) : bc :=
  BC (conn_no s) (sess s) (clos s) (gproc s) (gdeq s) (gack s) (gcl s) (ph s) (pp s) (dp s) (ap s) (lp s)
     true (will s) (cw s) (cpp s) (cps s) (tdeq s) (tpub s) (tsub s) (ackq s).
Definition set_tok (s : bc) (d p b : N) : bc :=
  BC (conn_no s) (sess s) (clos s) (gproc s) (gdeq s) (gack s) (gcl s) (ph s) (pp s) (dp s) (ap s) (lp s)
     (dying s) (will s) (cw s) (cpp s) (cps s) d p b (ackq s).
Definition set_ackq (s : bc) (q : list packet) : bc :=
  BC (conn_no s) (sess s) (clos s) (gproc s) (gdeq s) (gack s) (gcl s) (ph s) (pp s) (dp s) (ap s) (lp s)
     (dying s) (will s) (cw s) (cpp s) (cps s) (tdeq s) (tpub s) (tsub s) q.
Definition set_ph (s : bc) (x : phase) (w : option message) : bc :=
  BC (conn_no s) (sess s) (clos s) (gproc s) (gdeq s) (gack s) (gcl s) x (pp s) (dp s) (ap s) (lp s)
     (dying s) w (cw s) (cpp s) (cps s) (tdeq s) (tpub s) (tsub s) (ackq s).
Definition set_roles (s : bc) (p d a c : option N) : bc :=
  BC (conn_no s) (sess s) (clos s) p d a c (ph s) (pp s) (dp s) (ap s) (lp s)
     (dying s) (will s) (cw s) (cpp s) (cps s) (tdeq s) (tpub s) (tsub s) (ackq s).

Definition is_role (r : option N) (g : N) : bool :=
  match r with Some g' => g =? g' | None => false end.
Definition role_free (s : bc) (g : N) : bool :=
  negb (is_role (gproc s) g || is_role (gdeq s) g || is_role (gack s) g || is_role (gcl s) g).

Definition guard (b : bool) (s : bc) : option bc := if b then Some s else None.

Definition opt_packet_eqb := option_eqb packet_eqb.
Definition subs_eqb (a b : list (bytes * N)) : bool :=
  list_eqb (fun x y => bytes_eqb (fst x) (fst y) && N.eqb (snd x) (snd y)) a b.

(* ---------------------------------------------------------------- closures *)

Fixpoint clo_find (l : list closure) (k : N) : option closure :=
  match l with
  | [] => None
  | c :: l' => if c_k c =? k then Some c else clo_find l' k
  end.

Fixpoint clo_set (l : list closure) (k : N) (st : cstat) : list closure :=
  match l with
  | [] => []
  | c :: l' => if c_k c =? k then Clo (c_k c) (c_conn c) (c_kind c) st :: l' else c :: clo_set l' k st
  end.

(* register closure k (fresh) for the current connection *)
Definition clo_reg (s : bc) (k : N) (a : ackkind) : option bc :=
  match clo_find (clos s) k with
  | Some _ => None
  | None => Some (set_clos s (clos s ++ [Clo k (conn_no s) a CReg]))
  end.

(* the running pubcomp closure whose next event is the delete of [id] by goroutine g *)
Fixpoint clo_del_find (l : list closure) (g id : N) : option closure :=
  match l with
  | [] => None
  | c :: l' =>
      match c_stat c, c_kind c with
      | CDel g', KPubcomp id' => if (g =? g') && (id =? id') then Some c else clo_del_find l' g id
      | _, _ => clo_del_find l' g id
      end
  end.

Fixpoint clo_stat_find (l : list closure) (f : cstat -> bool) : option closure :=
  match l with
  | [] => None
  | c :: l' => if f (c_stat c) then Some c else clo_stat_find l' f
  end.

(* ------------------------------------------------------------------ tokens *)

Definition N_min := N.min.
Definition put_deq (s : bc) : bc := set_tok s (N.min (cw s) (tdeq s + 1)) (tpub s) (tsub s).
Definition put_pub (s : bc) : bc := set_tok s (tdeq s) (N.min (cpp s) (tpub s + 1)) (tsub s).
Definition put_sub (s : bc) : bc := set_tok s (tdeq s) (tpub s) (N.min (cps s) (tsub s + 1)).
Definition take_deq (s : bc) : option bc := if 0 <? tdeq s then Some (set_tok s (tdeq s - 1) (tpub s) (tsub s)) else None.
Definition take_pub (s : bc) : option bc := if 0 <? tpub s then Some (set_tok s (tdeq s) (tpub s - 1) (tsub s)) else None.
Definition take_sub (s : bc) : option bc := if 0 <? tsub s then Some (set_tok s (tdeq s) (tpub s) (tsub s - 1)) else None.
(* resend phase: "consume a dequeue token, continue if depleted" *)
Definition take_deq_if_any (s : bc) : bc := match take_deq s with Some s' => s' | None => s end.

(* --------------------------------------------------------------- processor *)

Definition die_p (s : bc) (k : diekind) : option bc := Some (set_pp s (PDieLog k)).

Definition set_dup (p : packet) : packet :=
  match p with Publish _ m id => Publish true m id | _ => p end.

(* dispatch of a received packet in the main loop (processPacket) *)
Definition proc_dispatch (s : bc) (p : packet) : option bc :=
  match p with
  | Subscribe id subs => Some (set_pp s (PSubW id subs))
  | Unsubscribe id ts => Some (set_pp s (PUnsubW id ts))
  | Publish _ m id =>
      if m_qos m =? 0 then Some (set_pp s (PPub0 m))
      else if m_qos m =? 1 then Some (set_pp s (PPub1W id m))
      else if m_qos m =? 2 then Some (set_pp s (PPub2W p))
      else None                                  (* the decoder never yields a QoS above 2 *)
  | Puback id | Pubcomp id => Some (set_pp s (PAckDel id))
  | Pubrec id => Some (set_pp s (PRecSave id))
  | Pubrel id => Some (set_pp s (PRelLookup id))
  | Pingreq => Some (set_pp s PPing)
  | Disconnect => Some (set_pp (set_ph s Disconnected None) PDisc)
  | _ => die_p s KClient
  end.

Definition sess_save (s : bc) (d : direction) (p : packet) : bc :=
  set_sess s (sess_with (sess s) d (store_save (sess_store (sess s) d) p)).
Definition sess_delete (s : bc) (d : direction) (id : N) : bc :=
  set_sess s (sess_with (sess s) d (store_delete (sess_store (sess s) d) id)).

Definition step_proc (s : bc) (e : event) : option bc :=
  match pp s, e with
  (* first packet *)
  | PFirst, ERx _ (Connect c) => Some (set_pp s (PAuth c))
  | PFirst, ERx _ _ => die_p s KClient
  | PFirst, ERxErr _ => die_p s KTransport
  | PAuth c, EAuth _ AErr => die_p s KBackend
  | PAuth c, EAuth _ ADeny => Some (set_pp s PDeny)
  | PAuth c, EAuth _ AOk => Some (set_pp (set_ph s Connected (will s)) (PSetup c))
  | PDeny, ETx _ (Connack false 5) false ok => if ok then die_p s KClient else die_p s KTransport
  | PSetup c, ESetup _ SErr => die_p s KBackend
  | PSetup c, ESetup _ (SOk resumed fresh w p b) =>
      let s1 := if fresh then set_sess s session_new else s in
      let s2 := BC (conn_no s1) (sess s1) (clos s1) (gproc s1) (gdeq s1) (gack s1) (gcl s1) (ph s1)
                   (PConnack c resumed) (dp s1) (ap s1) (lp s1) (dying s1) (c_will c)
                   w p b w p b [] in
      guard ((0 <? w) && (0 <? p) && (0 <? b)) s2
  | PConnack c resumed, ETx _ (Connack sp 0) false ok =>
      if Bool.eqb sp (negb (c_clean c) && resumed)
      then (if ok then Some (set_pp s PAll) else die_p s KTransport) else None
  | PAll, EAll _ Outgoing None => die_p s KSession
  | PAll, EAll _ Outgoing (Some ps) =>
      guard (list_eqb packet_eqb ps (store_all (s_out (sess s))))
            (set_pp s (match ps with [] => PRestore | _ => PResend ps end))
  | PResend (p :: rest), ETx _ q true ok =>
      if packet_eqb q (set_dup p) then
        let s1 := take_deq_if_any s in
        let s2 := sess_save s1 Outgoing (set_dup p) in       (* the stored object itself is flagged dup *)
        if ok then Some (set_pp s2 (match rest with [] => PRestore | _ => PResend rest end))
        else die_p s2 KTransport
      else None
  | PRestore, ERestore _ ok =>
      if ok then Some (set_ap (set_dp (set_pp s PLoop) DToken) AIdle) else die_p s KBackend
  (* main loop *)
  | PLoop, ERx _ p => proc_dispatch s p
  | PLoop, ERxErr _ => die_p s KTransport
  | PSubW id subs, ESub _ subs' k =>
      if subs_eqb subs subs' then
        match take_sub s with
        | Some s1 => match clo_reg s1 k (KSuback id (map snd subs)) with
                     | Some s2 => Some (set_pp s2 PSubR) | None => None end
        | None => None
        end
      else None
  | PSubR, ESubRet _ ok => if ok then Some (set_pp s PLoop) else die_p s KBackend
  | PUnsubW id ts, EUnsub _ ts' k =>
      if list_eqb bytes_eqb ts ts' then
        match take_sub s with
        | Some s1 => match clo_reg s1 k (KUnsuback id) with
                     | Some s2 => Some (set_pp s2 PUnsubR) | None => None end
        | None => None
        end
      else None
  | PUnsubR, EUnsubRet _ ok => if ok then Some (set_pp s PLoop) else die_p s KBackend
  | PPub0 m, EPub _ m' None => guard (message_eqb m m') (set_pp s PPubR)
  | PPubR, EPubRet _ ok => if ok then Some (set_pp s PLoop) else die_p s KBackend
  | PPub1W id m, EPub _ m' (Some k) =>
      if message_eqb m m' then
        match take_pub s with
        | Some s1 => match clo_reg s1 k (KPuback id) with
                     | Some s2 => Some (set_pp s2 PPubR) | None => None end
        | None => None
        end
      else None
  | PPub2W p, ESave _ Incoming p' ok =>
      if packet_eqb p p' then
        match take_pub s with
        | Some s1 =>
            if ok then
              match get_id p with
              | Some id => Some (set_pp (sess_save s1 Incoming p) (PPubrec id))
              | None => None
              end
            else die_p s1 KSession
        | None => None
        end
      else None
  | PPubrec id, ETx _ (Pubrec id') true ok =>
      if id =? id' then (if ok then Some (set_pp s PLoop) else die_p s KTransport) else None
  | PAckDel id, EDelete _ Outgoing id' ok =>
      if id =? id' then
        (if ok then Some (set_pp (put_deq (sess_delete s Outgoing id)) PLoop) else die_p s KSession)
      else None
  | PRecSave id, ESave _ Outgoing (Pubrel id') ok =>
      if id =? id' then
        (if ok then Some (set_pp (sess_save s Outgoing (Pubrel id)) (PRelTx id)) else die_p s KSession)
      else None
  | PRelTx id, ETx _ (Pubrel id') true ok =>
      if id =? id' then (if ok then Some (set_pp s PLoop) else die_p s KTransport) else None
  | PRelLookup id, ELookup _ Incoming id' LErr => if id =? id' then die_p s KSession else None
  | PRelLookup id, ELookup _ Incoming id' (LRes r) =>
      if (id =? id') && opt_packet_eqb r (store_lookup (s_in (sess s)) id) then
        match r with
        | Some (Publish _ m _) => Some (set_pp s (PRelPub id m))
        | _ => Some (set_pp s (PCompTx id))
        end
      else None
  | PRelPub id m, EPub _ m' (Some k) =>
      if message_eqb m m' then
        match clo_reg s k (KPubcomp id) with
        | Some s2 => Some (set_pp s2 PPubR) | None => None end
      else None
  | PCompTx id, ETx _ (Pubcomp id') true ok =>
      if id =? id' then (if ok then Some (set_pp s PLoop) else die_p s KTransport) else None
  | PPing, ETx _ Pingresp true ok => if ok then Some (set_pp s PLoop) else die_p s KTransport
  | PDisc, EConnClose _ => Some (set_pp (set_dying s) PDone)
  (* dying *)
  | PDieLog k, EDie _ k' =>
      (* a token wait that expires is reported as a client error *)
      match k, k' with
      | KTransport, KTransport | KSession, KSession | KBackend, KBackend | KClient, KClient =>
          Some (set_pp s PDieClose)
      | _, _ => None
      end
  | PDieClose, EConnClose _ => Some (set_pp (set_dying s) PDone)
  (* token timeout while waiting for a token *)
  (* a token wait times out only when no token is there to take *)
  | PSubW _ _, EDie _ KClient | PUnsubW _ _, EDie _ KClient => guard (tsub s =? 0) (set_pp s PDieClose)
  | PPub1W _ _, EDie _ KClient | PPub2W _, EDie _ KClient => guard (tpub s =? 0) (set_pp s PDieClose)
  | _, _ => None
  end.

(* ---------------------------------------------------------------- dequeuer *)

Definition step_deq (s : bc) (e : event) : option bc :=
  match dp s, e with
  | DToken, EDeqCall _ => match take_deq s with Some s1 => Some (set_dp s1 DWait) | None => None end
  | DToken, EDie _ KClient => guard (tdeq s =? 0) (set_dp s DDieClose)   (* token timeout: only without a token *)
  | DWait, EDeqRet _ QErr => Some (set_dp s (DDieLog KBackend))
  | DWait, EDeqRet _ QNone => Some (set_dp s DDone)
  | DWait, EDeqRet _ (QMsg m ba) =>
      if m_qos m =? 0 then Some (set_dp s (if ba then DBackAck (Publish false m 0) else DSend (Publish false m 0)))
      else Some (set_dp s (DNextId m ba))
  | DNextId m ba, ENextId _ id =>
      let '(i, c) := next_id (s_counter (sess s)) in
      if id =? i then
        Some (set_dp (set_sess s (Sess c (s_in (sess s)) (s_out (sess s)))) (DSave (Publish false m id) ba))
      else None
  | DSave p ba, ESave _ Outgoing p' ok =>
      if packet_eqb p p' then
        (if ok then Some (set_dp (sess_save s Outgoing p) (if ba then DBackAck p else DSend p))
         else Some (set_dp s (DDieLog KSession)))
      else None
  | DBackAck p, EDeqAck _ => Some (set_dp s (DSend p))
  | DSend p, ETx _ q true ok =>
      if packet_eqb p q then
        (if ok then
           Some (set_dp (match p with
                         | Publish _ m _ => if m_qos m =? 0 then put_deq s else s
                         | _ => s end) DToken)
         else Some (set_dp s (DDieLog KTransport)))
      else None
  | DDieLog k, EDie _ k' =>
      match k, k' with
      | KTransport, KTransport | KSession, KSession | KBackend, KBackend | KClient, KClient =>
          Some (set_dp s DDieClose)
      | _, _ => None
      end
  | DDieClose, EConnClose _ => Some (set_dp (set_dying s) DDone)
  | _, _ => None
  end.

(* ------------------------------------------------------------------- acker *)

(* the acker sends a queued packet.  The channel is FIFO, but the order in which
   concurrently invoked closures reach the channel is not the order of their
   EAckCall log lines, so the model only demands that the packet IS queued
   (its closure was invoked and it has not been sent yet); it is removed once. *)
Fixpoint ackq_take (q : list packet) (p : packet) : option (list packet) :=
  match q with
  | [] => None
  | x :: q' =>
      if packet_eqb x p then Some q'
      else match ackq_take q' p with Some r => Some (x :: r) | None => None end
  end.

Definition ack_token_back (s : bc) (p : packet) : bc :=
  match p with
  | Suback _ _ | Unsuback _ => put_sub s
  | Puback _ | Pubcomp _ => put_pub s
  | _ => s
  end.

Definition step_ack (s : bc) (e : event) : option bc :=
  match ap s, e with
  | AIdle, ETx _ p true ok =>
      match ackq_take (ackq s) p with
      | Some q' =>
          if ok then Some (ack_token_back (set_ackq s q') p)
          else Some (set_ap (set_ackq s q') ADieLog)
      | None => None
      end
  | ADieLog, EDie _ KTransport => Some (set_ap s ADieClose)
  | ADieClose, EConnClose _ => Some (set_ap (set_dying s) ADone)
  | _, _ => None
  end.

(* ---------------------------------------------------------------- closures *)

(* a goroutine that is inside a closure does nothing else until the closure returns *)
Definition clo_on (g : N) (c : closure) : bool :=
  match c_stat c with
  | CDel g' | CDieLog g' | CDieClose g' | CRun g' => g =? g'
  | _ => false
  end.
Definition in_closure (s : bc) (g : N) : bool := existsb (clo_on g) (clos s).

(* may the ack queue of the closure's connection still be fed? *)
Definition clo_live (s : bc) (c : closure) : bool :=
  (c_conn c =? conn_no s) && negb (match lp s with LEnd => true | _ => false end).

Definition clo_enqueue (s : bc) (c : closure) : bc :=
  if clo_live s c then set_ackq s (ackq s ++ [ack_packet (c_kind c)]) else s.

Definition step_clo (s : bc) (e : event) : option bc :=
  match e with
  | EAckCall k g =>
      match clo_find (clos s) k with
      | Some c =>
          match c_stat c with
          | CReg =>
              if in_closure s g then None else
              (* the packet is queued by the closure itself: for a pubcomp closure after its
                 delete, otherwise at once (the acker may send it before EAckRet is logged) *)
              match c_kind c with
              | KPubcomp _ => Some (set_clos s (clo_set (clos s) k (CDel g)))
              | _ => Some (set_clos (clo_enqueue s c) (clo_set (clos s) k (CRun g)))
              end
          | CDone => guard (negb (in_closure s g)) s          (* sync.Once: a second call does nothing *)
          | _ => None
          end
      | None => None
      end
  | EDelete g Incoming id ok =>
      match clo_del_find (clos s) g id with
      | Some c =>
          if ok then Some (set_clos (clo_enqueue (sess_delete s Incoming id) c) (clo_set (clos s) (c_k c) (CRun g)))
          else Some (set_clos s (clo_set (clos s) (c_k c) (CDieLog g)))
      | None => None
      end
  | EDie g KSession =>
      match clo_stat_find (clos s) (fun st => match st with CDieLog g' => g =? g' | _ => false end) with
      | Some c => Some (set_clos s (clo_set (clos s) (c_k c) (CDieClose g)))
      | None => None
      end
  | EConnClose g =>
      match clo_stat_find (clos s) (fun st => match st with CDieClose g' => g =? g' | _ => false end) with
      | Some c =>
          let s1 := set_clos s (clo_set (clos s) (c_k c) (CRun g)) in
          Some (if c_conn c =? conn_no s then set_dying s1 else s1)
      | None => None
      end
  | EAckRet k g =>
      match clo_find (clos s) k with
      | Some c =>
          match c_stat c with
          | CRun g' => guard (g =? g') (set_clos s (clo_set (clos s) k CDone))
          | CDone => guard (negb (in_closure s g)) s
          | _ => None
          end
      | None => None
      end
  | _ => None
  end.

(* ----------------------------------------------------------------- cleanup *)

(* may the three goroutines all have returned? *)
Definition proc_can_stop (s : bc) : bool :=
  match pp s with
  | PDone => true
  | PLoop | PSubW _ _ | PUnsubW _ _ | PPub1W _ _ | PPub2W _ => dying s
  | _ => false
  end.
Definition deq_can_stop (s : bc) : bool :=
  match dp s with DOff | DDone => true | DToken => dying s | _ => false end.
Definition ack_can_stop (s : bc) : bool :=
  match ap s with AOff | ADone => true | AIdle => dying s | _ => false end.
Definition all_stopped (s : bc) : bool := proc_can_stop s && deq_can_stop s && ack_can_stop s.

Definition phase_connected (p : phase) : bool := match p with Connected => true | _ => false end.
Definition phase_geq_connected (p : phase) : bool := match p with Connecting => false | _ => true end.

Definition freeze (s : bc) : bc := set_ap (set_dp (set_pp s PDone) (match dp s with DOff => DOff | _ => DDone end))
                                          (match ap s with AOff => AOff | _ => ADone end).

Definition step_cleanup (s : bc) (e : event) : option bc :=
  match lp s, e with
  | LNone, EPub g m None =>
      if all_stopped s && phase_connected (ph s) then
        match will s with
        | Some w => guard (message_eqb w m) (set_lp (freeze s) LWillR)
        | None => None
        end
      else None
  | LNone, ETerm g ok =>
      if all_stopped s && phase_geq_connected (ph s)
         && negb (phase_connected (ph s) && match will s with Some _ => true | None => false end)
      then Some (set_lp (freeze s) (if ok then LClosed else LTermDie)) else None
  | LNone, EClosed =>
      if all_stopped s && negb (phase_geq_connected (ph s)) then Some (set_lp (freeze s) LEnd) else None
  | LWillR, EPubRet _ ok => Some (set_lp s (if ok then LTerm else LWillDie))
  | LWillDie, EDie _ KBackend => Some (set_lp s LTerm)
  | LTerm, ETerm _ ok => Some (set_lp s (if ok then LClosed else LTermDie))
  | LTermDie, EDie _ KBackend => Some (set_lp s LClosed)
  | LClosed, EClosed => Some (set_lp s LEnd)
  | _, _ => None
  end.

(* -------------------------------------------------------------------- step *)

Definition new_conn (s : bc) : bc :=
  BC (conn_no s + 1) (sess s) (clos s) None None None None Connecting PFirst DOff AOff LNone
     false None 0 0 0 0 0 0 [].

Definition first_some (a b : option bc) : option bc := match a with Some _ => a | None => b end.

(* learn the role of goroutine g from a distinctive event *)
Definition learn_proc (s : bc) (g : N) : option bc :=
  match gproc s with
  | Some g' => guard (g =? g') s
  | None => guard (role_free s g) (set_roles s (Some g) (gdeq s) (gack s) (gcl s))
  end.
Definition learn_deq (s : bc) (g : N) : option bc :=
  match gdeq s with
  | Some g' => guard (g =? g') s
  | None => guard (role_free s g) (set_roles s (gproc s) (Some g) (gack s) (gcl s))
  end.
Definition learn_ack (s : bc) (g : N) : option bc :=
  match gack s with
  | Some g' => guard (g =? g') s
  | None => guard (role_free s g) (set_roles s (gproc s) (gdeq s) (Some g) (gcl s))
  end.
Definition learn_cl (s : bc) (g : N) : option bc :=
  match gcl s with
  | Some g' => guard (g =? g') s
  | None => guard (role_free s g) (set_roles s (gproc s) (gdeq s) (gack s) (Some g))
  end.

Definition bind (a : option bc) (f : bc -> option bc) : option bc :=
  match a with Some s => f s | None => None end.

(* the goroutine an event belongs to, if it carries one *)
Definition ev_g (e : event) : option N :=
  match e with
  | ERx g _ | ERxErr g | ETx g _ _ _ | EConnClose g | EAuth g _ | ESetup g _ | ERestore g _
  | ESub g _ _ | ESubRet g _ | EUnsub g _ _ | EUnsubRet g _ | EPub g _ _ | EPubRet g _
  | EDeqCall g | EDeqRet g _ | EDeqAck g | ETerm g _ | ENextId g _ | ESave g _ _ _
  | ELookup g _ _ _ | EDelete g _ _ _ | EAll g _ _ | EDie g _ => Some g
  | _ => None
  end.

Definition conn_open (s : bc) : bool := match lp s with LEnd => false | _ => true end.

(* EQuiescent is the harness' claim that the connection is alive and nothing moves:
   the processor is back in Receive, the dequeuer is blocked inside Dequeue, the
   acker has nothing to send, no closure is running and cleanup has not begun.
   The model accepts the marker only in such states, so "at quiescence no
   obligation is pending" can be stated over traces. *)
Definition clo_idle (c : closure) : bool :=
  match c_stat c with CReg | CDone => true | _ => false end.
Definition quiescent (s : bc) : bool :=
  conn_open s && negb (dying s)
  && (match pp s with PLoop => true | _ => false end)
  && (match dp s with DWait => true | _ => false end)
  && (match ap s with AIdle => true | _ => false end)
  && (match ackq s with [] => true | _ => false end)
  && (match lp s with LNone => true | _ => false end)
  && forallb clo_idle (clos s).

Definition step (s : bc) (e : event) : option bc :=
  match e with
  | ENewConn => if conn_open s then None else Some (new_conn s)
  | ECloseReq => guard (conn_open s) s
  | EQuiescent => guard (quiescent s) s
  | EAckCall _ _ | EAckRet _ _ => step_clo s e
  | EClosed => step_cleanup s e
  | _ =>
      if negb (conn_open s) then
        (* after the connection ended only leftover closures run *)
        step_clo s e
      else
      match ev_g e with
      | None => None
      | Some g =>
          (* a running closure's own events come first: a synchronous ack runs on the
             goroutine that is inside the backend call *)
          first_some (step_clo s e)
          (if in_closure s g then None
           else if is_role (gproc s) g then step_proc s e
           else if is_role (gdeq s) g then step_deq s e
           else if is_role (gack s) g then step_ack s e
           else if is_role (gcl s) g then step_cleanup s e
           else
             (* first event of a goroutine: what it is decides the role *)
             match e with
             | ERx _ _ | ERxErr _ => bind (learn_proc s g) (fun s1 => step_proc s1 e)
             | EDeqCall _ => bind (learn_deq s g) (fun s1 => step_deq s1 e)
             | EDie _ KClient =>            (* token timeout of a dequeuer that never called Dequeue *)
                 match gdeq s, dp s with
                 | None, DToken => bind (learn_deq s g) (fun s1 => step_deq s1 e)
                 | _, _ => None
                 end
             | ETx _ _ _ _ => bind (learn_ack s g) (fun s1 => step_ack s1 e)
             | EPub _ _ None | ETerm _ _ => bind (learn_cl s g) (fun s1 => step_cleanup s1 e)
             | EConnClose _ => Some (set_dying s)          (* Client.Close() from outside: takeover, shutdown *)
             | _ => None
             end)
      end
  end.

Definition bc_run (es : list event) : option bc := Lts.run step bc_init es.
