(* ConnProofsB6.v — C07 exactly-once, part 3: c07_single_ack holds of every accepted
   trace on which the backend acknowledges promptly (prompt_acks). *)
From Coq Require Import List NArith Bool Lia.
From GM Require Import Base.Lts Codec.Packet Session.Ids Session.Store Session.StoreProofs
  Broker.Conn Broker.ConnSpec Broker.ConnBase Broker.ConnProofsB1 Broker.ConnProofsB2 Broker.ConnProofsB3
  Broker.ConnProofsB4 Broker.ConnProofsB5.
Import ListNotations.
Open Scope N_scope.

(* the relation between closure table / incoming store and the scanner, in four parts *)
Definition QA (l : list closure) (rel : list (N * N)) : Prop :=
  (forall c id, In c l -> c_kind c = KPubcomp id -> aget rel (c_k c) = Some id) /\
  (forall k id, aget rel k = Some id -> exists c, In c l /\ c_k c = k /\ c_kind c = KPubcomp id).
Definition QB (l : list closure) (done : list N) : Prop :=
  forall c id, In c l -> c_kind c = KPubcomp id -> c_stat c <> CReg -> In (c_k c) done.
Definition QC (l : list closure) (sin : store) (acked : list N) : Prop :=
  forall id, In id acked ->
    store_lookup sin id = None \/ exists c g, In c l /\ c_kind c = KPubcomp id /\ c_stat c = CDel g.
Definition QD (l : list closure) (over acked : list N) : Prop :=
  forall c id, In c l -> c_kind c = KPubcomp id -> c_stat c = CReg -> ~ In (c_k c) over -> ~ In id acked.

(* --- updates of one closure's status --- *)

Lemma clo_set_back l k st c' : NoDup (ckeys l) -> In c' (clo_set l k st) ->
  exists c0, In c0 l /\ c_k c0 = c_k c' /\ c_kind c0 = c_kind c' /\
             ((c' = c0 /\ c_k c0 <> k) \/ (c_k c0 = k /\ c_stat c' = st)).
Proof.
  intros Hnd H. apply (in_clo_set _ _ _ _ Hnd) in H. destruct H as [[H Hne]|(x & Hx & Kx & ->)].
  - exists c'. repeat split; auto.
  - exists x. cbn [c_k c_kind c_stat]. repeat split; auto.
Qed.

Lemma clo_set_fwd l k st c0 : NoDup (ckeys l) -> In c0 l ->
  exists c', In c' (clo_set l k st) /\ c_k c' = c_k c0 /\ c_kind c' = c_kind c0 /\
             ((c' = c0 /\ c_k c0 <> k) \/ (c_k c0 = k /\ c_stat c' = st)).
Proof.
  intros Hnd H. destruct (N.eq_dec (c_k c0) k) as [E|E].
  - exists (Clo k (c_conn c0) (c_kind c0) st). cbn [c_k c_kind c_stat].
    split; [apply clo_set_in_same; assumption|]. repeat split; auto.
  - exists c0. split; [apply clo_set_in_other; assumption|]. repeat split; auto.
Qed.

Lemma QA_set l k st rel : NoDup (ckeys l) -> QA l rel -> QA (clo_set l k st) rel.
Proof.
  intros Hnd [A1 A2]. split.
  - intros c' id H Hk. destruct (clo_set_back _ _ _ _ Hnd H) as (c0 & H0 & K0 & Kd0 & _).
    rewrite <- K0. apply A1; [exact H0|congruence].
  - intros k1 id H. destruct (A2 k1 id H) as (c0 & H0 & K0 & Kd0).
    destruct (clo_set_fwd _ k st _ Hnd H0) as (c' & H' & K' & Kd' & _).
    exists c'. repeat split; [exact H'|congruence|congruence].
Qed.

Lemma QB_set l c st done : NoDup (ckeys l) -> In c l ->
  (forall id, c_kind c = KPubcomp id -> st <> CReg -> In (c_k c) done) ->
  QB l done -> QB (clo_set l (c_k c) st) done.
Proof.
  intros Hnd Hin Hc B c' id H Hk Hs. destruct (clo_set_back _ _ _ _ Hnd H) as (c0 & H0 & K0 & Kd0 & [[-> _]|[E Es]]).
  - eapply B; eassumption.
  - assert (c0 = c) by (eapply ckeys_inj; eassumption). subst c0. rewrite <- K0.
    apply (Hc id); [congruence|]. rewrite <- Es. exact Hs.
Qed.

Lemma QC_set l c st sin acked : NoDup (ckeys l) -> In c l ->
  (forall id g, c_kind c = KPubcomp id -> c_stat c = CDel g -> In id acked ->
                store_lookup sin id = None \/ exists g', st = CDel g') ->
  QC l sin acked -> QC (clo_set l (c_k c) st) sin acked.
Proof.
  intros Hnd Hin Hc C id Hid. destruct (C id Hid) as [Hn|(c1 & g & H1 & K1 & S1)]; [left; exact Hn|].
  destruct (N.eq_dec (c_k c1) (c_k c)) as [E|E].
  - assert (c1 = c) by (eapply ckeys_inj; eassumption). subst c1.
    destruct (Hc id g K1 S1 Hid) as [Hn|(g' & ->)]; [left; exact Hn|].
    right. exists (Clo (c_k c) (c_conn c) (c_kind c) (CDel g')), g'. cbn [c_kind c_stat].
    split; [apply clo_set_in_same; auto|]. split; [exact K1|reflexivity].
  - right. exists c1, g. split; [apply clo_set_in_other; assumption|]. split; assumption.
Qed.

Lemma QD_set l c st over acked : NoDup (ckeys l) -> In c l -> st <> CReg ->
  QD l over acked -> QD (clo_set l (c_k c) st) over acked.
Proof.
  intros Hnd Hin Hst D c' id H Hk Hs. destruct (clo_set_back _ _ _ _ Hnd H) as (c0 & H0 & K0 & Kd0 & [[-> _]|[E Es]]).
  - eapply D; eassumption.
  - rewrite Es in Hs. contradiction.
Qed.

(* --- a registered closure is appended --- *)

Lemma QA_app_other l k n a rel : (forall id, a <> KPubcomp id) -> QA l rel -> QA (l ++ [Clo k n a CReg]) rel.
Proof.
  intros Ha [A1 A2]. split.
  - intros c id H Hk. apply in_app_iff in H. cbn [In] in H. destruct H as [H|[<-|[]]]; [eapply A1; eassumption|].
    exfalso. eapply Ha, Hk.
  - intros k1 id H. destruct (A2 k1 id H) as (c0 & H0 & R). exists c0. split; [apply in_app_iff; left; exact H0|exact R].
Qed.

Lemma QA_app_pc l k n id rel : clo_find l k = None -> QA l rel ->
  QA (l ++ [Clo k n (KPubcomp id) CReg]) ((k, id) :: rel).
Proof.
  intros Hf [A1 A2]. split.
  - intros c id' H Hk. apply in_app_iff in H. cbn [In] in H. destruct H as [H|[<-|[]]].
    + rewrite aget_cons_ne; [eapply A1; eassumption|]. eapply clo_find_none; eassumption.
    + cbn [c_kind c_k] in *. injection Hk as <-. apply aget_cons_eq.
  - intros k1 id' H. destruct (N.eq_dec k1 k) as [->|Hne].
    + rewrite aget_cons_eq in H. injection H as <-. eexists. split; [apply in_app_iff; right; left; reflexivity|].
      split; reflexivity.
    + rewrite aget_cons_ne in H by exact Hne. destruct (A2 k1 id' H) as (c0 & H0 & R).
      exists c0. split; [apply in_app_iff; left; exact H0|exact R].
Qed.

Lemma QB_app l k n a done : QB l done -> QB (l ++ [Clo k n a CReg]) done.
Proof.
  intros B c id H Hk Hs. apply in_app_iff in H. cbn [In] in H. destruct H as [H|[<-|[]]]; [eapply B; eassumption|].
  cbn [c_stat] in Hs. contradiction.
Qed.

Lemma QC_app l x sin acked : QC l sin acked -> QC (l ++ [x]) sin acked.
Proof.
  intros C id Hid. destruct (C id Hid) as [Hn|(c1 & g & H1 & R)]; [left; exact Hn|].
  right. exists c1, g. split; [apply in_app_iff; left; exact H1|exact R].
Qed.

Lemma QD_app_other l k n a over acked : (forall id, a <> KPubcomp id) -> QD l over acked ->
  QD (l ++ [Clo k n a CReg]) over acked.
Proof.
  intros Ha D c id H Hk. apply in_app_iff in H. cbn [In] in H. destruct H as [H|[<-|[]]]; [eapply D; eassumption|].
  exfalso. eapply Ha, Hk.
Qed.

Lemma QD_app_pc l k n id over acked : ~ In id acked -> QD l over acked ->
  QD (l ++ [Clo k n (KPubcomp id) CReg]) over acked.
Proof.
  intros Hid D c id' H Hk. apply in_app_iff in H. cbn [In] in H. destruct H as [H|[<-|[]]]; [eapply D; eassumption|].
  cbn [c_kind] in Hk. injection Hk as <-. intros _ _. exact Hid.
Qed.

(* --- the scanner or the store change --- *)

Lemma QB_mono l done done' : (forall k, In k done -> In k done') -> QB l done -> QB l done'.
Proof. intros Hm B c id H Hk Hs. apply Hm. eapply B; eassumption. Qed.

Lemma QC_sub l sin acked acked' : (forall x, In x acked' -> In x acked) -> QC l sin acked -> QC l sin acked'.
Proof. intros Hm C id Hid. apply C, Hm, Hid. Qed.

Lemma QC_delete l sin id acked : NoDup (keys sin) -> QC l sin acked -> QC l (store_delete sin id) acked.
Proof.
  intros Hk C id' Hid. rewrite lookup_delete by exact Hk. destruct (id' =? id); [left; reflexivity|]. apply C, Hid.
Qed.

Lemma QC_save l sin d m id acked : NoDup acked -> QC l sin acked ->
  QC l (store_save sin (Publish d m id)) (nremove1 id acked).
Proof.
  intros Hnd C id' Hid. destruct (nodup_nremove1 id acked Hnd) as [_ N2].
  unfold store_save. cbn [get_id]. rewrite lookup_put.
  destruct (id' =? id) eqn:E; [apply N.eqb_eq in E; subst; contradiction|].
  apply C. eapply in_nremove1, Hid.
Qed.

Lemma QC_nil l acked : QC l [] acked.
Proof. intros id _. left. reflexivity. Qed.

Lemma QD_sub l over acked acked' : (forall x, In x acked' -> In x acked) -> QD l over acked -> QD l over acked'.
Proof. intros Hm D c id H Hk Hs Ho Hid. eapply D; eauto. Qed.

Lemma QD_over l over over' acked : (forall k, In k over -> In k over') -> QD l over acked -> QD l over' acked.
Proof. intros Hm D c id H Hk Hs Ho. eapply D; eauto. Qed.

Lemma QC_call l c g id sin acked : NoDup (ckeys l) -> In c l -> c_kind c = KPubcomp id ->
  QC l sin acked -> QC (clo_set l (c_k c) (CDel g)) sin (id :: acked).
Proof.
  intros Hnd Hin Hk C id' [<-|Hid].
  - right. exists (Clo (c_k c) (c_conn c) (c_kind c) (CDel g)), g. cbn [c_kind c_stat].
    split; [apply clo_set_in_same; auto|]. split; [exact Hk|reflexivity].
  - destruct (C id' Hid) as [Hn|(c1 & g1 & H1 & K1 & S1)]; [left; exact Hn|]. right.
    destruct (N.eq_dec (c_k c1) (c_k c)) as [E|E].
    + assert (c1 = c) by (eapply ckeys_inj; eassumption). subst c1.
      exists (Clo (c_k c) (c_conn c) (c_kind c) (CDel g)), g. cbn [c_kind c_stat].
      split; [apply clo_set_in_same; auto|]. split; [exact K1|reflexivity].
    + exists c1, g1. split; [apply clo_set_in_other; assumption|]. split; assumption.
Qed.

Lemma QD_call l c g id over acked : NoDup (ckeys l) -> In c l ->
  (forall c', In c' l -> c_kind c' = KPubcomp id -> c_stat c' = CReg -> ~ In (c_k c') over -> c_k c' = c_k c) ->
  QD l over acked -> QD (clo_set l (c_k c) (CDel g)) over (id :: acked).
Proof.
  intros Hnd Hin Hu D c' id' H Hk Hs Ho.
  destruct (clo_set_back _ _ _ _ Hnd H) as (c0 & H0 & K0 & Kd0 & [[-> Hne]|[E Es]]).
  - intros [<-|Hid]; [apply Hne; eapply Hu; eassumption|]. revert Hid. eapply D; eassumption.
  - rewrite Es in Hs. discriminate Hs.
Qed.

Lemma pk_over_mono u e u' : pk_step u e = Some u' -> forall k, In k (pk_over u) -> In k (pk_over u').
Proof.
  intros H k Hk. unfold pk_step in H. destruct e; bm H; inv_some H; cbn [pk_over]; try exact Hk.
  apply in_app_iff. right. exact Hk.
Qed.

(* ------------------------------------------------------------ the invariant *)

Definition q3_pp (x : ppc) (acked : list N) : Prop :=
  match x with
  | PRelPub id _ => ~ In id acked
  | PPub2W p => exists d m id, p = Publish d m id
  | _ => True
  end.

Definition q3_tab (l : list closure) (sin : store) (v : q3_st) (over : list N) : Prop :=
  NoDup (q3_acked v) /\ QA l (q3_rel v) /\ QB l (q3_done v) /\ QC l sin (q3_acked v) /\ QD l over (q3_acked v).

Definition q3_inv (s : bc) (v : q3_st) (u : pk_st) : Prop :=
  q3_tab (clos s) (s_in (sess s)) v (pk_over u) /\ q3_pp (pp s) (q3_acked v).

Definition q3_relt (s : bc) (v : q3_st) (u : pk_st) : Prop := last_rel s (q3_last v) /\ q3_inv s v u.

Lemma q3_last_next v e v' : q3_step v e = Some v' -> q3_last v' = lt_next (q3_last v) e.
Proof. intros H. unfold q3_step in H. destruct e; bm H; inv_some H; reflexivity. Qed.

Lemma q3_tab_over l sin v over over' : (forall k, In k over -> In k over') -> q3_tab l sin v over -> q3_tab l sin v over'.
Proof. intros Hm (H1 & H2 & H3 & H4 & H5). repeat split; try assumption; try apply H2. eapply QD_over; eassumption. Qed.

(* an update of a closure that is not a waiting or deleting PUBREL-publish closure, before and after *)
Lemma q3_tab_set_irr l c st sin v over : NoDup (ckeys l) -> In c l -> irrelevant c -> st <> CReg ->
  q3_tab l sin v over -> q3_tab (clo_set l (c_k c) st) sin v over.
Proof.
  intros Hnd Hin Hirr Hst (H1 & H2 & H3 & H4 & H5).
  split; [exact H1|]. split; [apply QA_set; assumption|]. split; [|split].
  - apply QB_set; auto. intros id Hk _. destruct Hirr as [Hi|Hi]; [exfalso; eapply Hi, Hk|].
    eapply H3; [exact Hin|exact Hk|]. intros E. rewrite E in Hi. discriminate Hi.
  - apply QC_set; auto. intros id g Hk Hs _. destruct Hirr as [Hi|Hi]; [exfalso; eapply Hi, Hk|].
    rewrite Hs in Hi. discriminate Hi.
  - apply QD_set; auto.
Qed.

Lemma q3_inv_clo s v u e s' u' : inv_c07 s -> pk_inv s u -> q3_inv s v u ->
  step_clo s e = Some s' -> pk_step u e = Some u' ->
  exists v', q3_step v e = Some v' /\ q3_inv s' v' u'.
Proof.
  intros (I1 & I2 & I3) (Hc & Hp & Hsc) [Ht Hq] H Hu.
  pose proof (pk_over_mono _ _ _ Hu) as Hov.
  apply step_clo_cases in H.
  destruct H as [k g c id -> Hf Hst Hi Hk -> | k g c -> Hf Hst Hi Hk -> | k g c -> Hf Hst Hi -> | g id c -> Hf ->
                | g id c -> Hf -> | g c -> Hin Hst -> | g c -> Hin Hst -> | k g c -> Hf Hst -> | k g c -> Hf Hst Hi ->].
  - (* the backend acknowledges a PUBREL-publish *)
    apply clo_find_in in Hf. destruct Hf as [Hin <-].
    apply pk_step_call in Hu. destruct Hu as [Hno Hu'].
    assert (Eov : pk_over u' = pk_over u) by (destruct Hu' as [[_ ->]|(id' & _ & ->)]; reflexivity).
    destruct Ht as (T1 & T2 & T3 & T4 & T5).
    cbn [q3_step]. destruct (nmem (c_k c) (q3_done v)) eqn:Ed.
    + exists v. split; [reflexivity|]. apply nmem_true in Ed. unfold q3_inv, q3_tab; sf. rewrite Eov.
      split; [|exact Hq]. split; [exact T1|]. split; [apply QA_set; assumption|]. split; [|split].
      * apply QB_set; auto.
      * apply QC_set; auto. intros id0 g0 _ E. rewrite Hst in E. discriminate E.
      * apply QD_set; auto. discriminate.
    + rewrite (proj1 T2 _ _ Hin Hk).
      assert (Hna : ~ In id (q3_acked v)) by (eapply T5; eassumption).
      pose proof Hna as Hna'. apply nmem_false in Hna'. rewrite Hna'.
      eexists. split; [reflexivity|]. unfold q3_inv, q3_tab; sf. cbn [q3_acked q3_rel q3_done]. rewrite Eov.
      split; [split; [constructor; assumption|split; [apply QA_set; assumption|split; [|split]]]|].
      * apply QB_set; auto; [intros; left; reflexivity|]. eapply QB_mono; [|exact T3]. intros k Hk'. right. exact Hk'.
      * apply QC_call; assumption.
      * apply QD_call; auto. intros c' H' K' S' O'.
        destruct (N.eq_dec (c_k c') (c_k c)) as [E|E]; [exact E|exfalso].
        destruct Hc as (P1 & _). destruct (Hsc _ _ _ (P1 _ _ H' K' S') (P1 _ _ Hin Hk Hst) E); contradiction.
      * destruct (pp s) eqn:Ex; cbn [q3_pp pk_pp] in *; try exact I; try exact Hq.
        intros [E|Hin']; [|exact (Hq Hin')]. subst id0. apply Hno. destruct Hp as [Ha _]. apply Ha.
        destruct Hc as (P1 & _). eapply P1; eassumption.
  - (* another closure is invoked *)
    apply clo_find_in in Hf. destruct Hf as [Hin <-].
    assert (Ev : q3_step v (EAckCall (c_k c) g) = Some v).
    { cbn [q3_step]. destruct (nmem (c_k c) (q3_done v)); [reflexivity|].
      destruct (aget (q3_rel v) (c_k c)) as [id|] eqn:Er; [|reflexivity]. exfalso.
      destruct Ht as (_ & [_ A2] & _). destruct (A2 _ _ Er) as (c1 & H1 & K1 & Kd1).
      assert (c1 = c) by (eapply ckeys_inj; eassumption). subst c1. eapply Hk, Kd1. }
    exists v. split; [exact Ev|]. unfold q3_inv. rewrite clos_enq, sess_enq.
    assert (Epp : pp (set_clos (clo_enqueue s c) (clo_set (clos s) (c_k c) (CRun g))) = pp s)
      by (unfold clo_enqueue; destruct (clo_live _ c); reflexivity).
    rewrite Epp. split; [|exact Hq]. eapply q3_tab_over; [exact Hov|].
    apply q3_tab_set_irr; auto; [left; exact Hk|discriminate].
  - (* a finished closure is invoked again *)
    apply clo_find_in in Hf. destruct Hf as [Hin <-].
    assert (Ev : q3_step v (EAckCall (c_k c) g) = Some v).
    { cbn [q3_step]. destruct (nmem (c_k c) (q3_done v)) eqn:Ed; [reflexivity|].
      destruct (aget (q3_rel v) (c_k c)) as [id|] eqn:Er; [|reflexivity]. exfalso.
      destruct Ht as (_ & [_ A2] & B & _). destruct (A2 _ _ Er) as (c1 & H1 & K1 & Kd1).
      assert (c1 = c) by (eapply ckeys_inj; eassumption). subst c1.
      apply nmem_false in Ed. apply Ed. eapply B; [exact Hin|exact Kd1|]. rewrite Hst. discriminate. }
    exists v. split; [exact Ev|]. split; [|exact Hq]. eapply q3_tab_over; [exact Hov|exact Ht].
  - (* the closure releases the handshake *)
    apply clo_del_find_in in Hf. destruct Hf as (Hin & Hst & Hk).
    exists v. split; [reflexivity|]. unfold q3_inv. rewrite clos_enq, sess_enq.
    assert (Epp : pp (set_clos (clo_enqueue (sess_delete s Incoming id) c) (clo_set (clos s) (c_k c) (CRun g))) = pp s)
      by (unfold clo_enqueue; destruct (clo_live _ c); reflexivity).
    rewrite Epp. split; [|exact Hq]. eapply q3_tab_over; [exact Hov|]. sf. cbn [sess_with s_in].
    destruct Ht as (T1 & T2 & T3 & T4 & T5).
    split; [exact T1|]. split; [apply QA_set; assumption|]. split; [|split].
    + apply QB_set; auto. intros id0 Hk0 _. eapply T3; [exact Hin|exact Hk0|]. rewrite Hst. discriminate.
    + apply QC_set; auto; [|apply QC_delete; assumption].
      intros id0 g0 Hk0 _ _. left. rewrite Hk in Hk0. injection Hk0 as <-.
      rewrite lookup_delete by exact I3. rewrite N.eqb_refl. reflexivity.
    + apply QD_set; auto. discriminate.
  - (* the release fails *)
    apply clo_del_find_in in Hf. destruct Hf as (Hin & Hst & Hk).
    eexists. split; [reflexivity|]. unfold q3_inv, q3_tab; sf. cbn [q3_acked q3_rel q3_done].
    destruct Ht as (T1 & T2 & T3 & T4 & T5). destruct (nodup_nremove1 id _ T1) as [N1 N2].
    split; [split; [exact N1|split; [apply QA_set; assumption|split; [|split]]]|].
    + apply QB_set; auto. intros id0 Hk0 _. eapply T3; [exact Hin|exact Hk0|]. rewrite Hst. discriminate.
    + apply QC_set; auto; [|eapply QC_sub; [|exact T4]; intros x Hx; eapply in_nremove1, Hx].
      intros id0 g0 Hk0 _ Hin0. rewrite Hk in Hk0. injection Hk0 as <-. contradiction.
    + apply QD_set; auto; [discriminate|]. eapply QD_over; [exact Hov|].
      eapply QD_sub; [|exact T5]. intros x Hx; eapply in_nremove1, Hx.
    + destruct (pp s); cbn [q3_pp] in *; try exact I; try exact Hq. intros Hx. apply Hq. eapply in_nremove1, Hx.
  - exists v. split; [reflexivity|]. unfold q3_inv; sf. split; [|exact Hq]. eapply q3_tab_over; [exact Hov|].
    apply q3_tab_set_irr; auto; [right; rewrite Hst; reflexivity|discriminate].
  - exists v. split; [reflexivity|]. unfold q3_inv. destruct (c_conn c =? conn_no s); sf; (split; [|exact Hq]);
      (eapply q3_tab_over; [exact Hov|]); (apply q3_tab_set_irr; auto; [right; rewrite Hst; reflexivity|discriminate]).
  - apply clo_find_in in Hf. destruct Hf as [Hin <-].
    exists v. split; [reflexivity|]. unfold q3_inv; sf. split; [|exact Hq]. eapply q3_tab_over; [exact Hov|].
    apply q3_tab_set_irr; auto; [right; rewrite Hst; reflexivity|discriminate].
  - exists v. split; [reflexivity|]. split; [|exact Hq]. eapply q3_tab_over; [exact Hov|exact Ht].
Qed.

Lemma q3_tab_app_other l k n a sin v over : (forall id, a <> KPubcomp id) ->
  q3_tab l sin v over -> q3_tab (l ++ [Clo k n a CReg]) sin v over.
Proof.
  intros Ha (T1 & T2 & T3 & T4 & T5). split; [exact T1|]. split; [apply QA_app_other; assumption|].
  split; [apply QB_app, T3|]. split; [apply QC_app, T4|apply QD_app_other; assumption].
Qed.

Lemma q3_tab_app_pc l k n id sin v over x : clo_find l k = None -> ~ In id (q3_acked v) ->
  q3_tab l sin v over ->
  q3_tab (l ++ [Clo k n (KPubcomp id) CReg]) sin (Q3St x ((k, id) :: q3_rel v) (q3_acked v) (q3_done v)) over.
Proof.
  intros Hf Hid (T1 & T2 & T3 & T4 & T5). split; [exact T1|]. split; [apply QA_app_pc; assumption|].
  split; [apply QB_app, T3|]. split; [apply QC_app, T4|apply QD_app_pc; assumption].
Qed.

Lemma q3_tab_save l sin v over x d m id : q3_tab l sin v over ->
  q3_tab l (store_save sin (Publish d m id)) (Q3St x (q3_rel v) (nremove1 id (q3_acked v)) (q3_done v)) over.
Proof.
  intros (T1 & T2 & T3 & T4 & T5). destruct (nodup_nremove1 id _ T1) as [N1 N2].
  split; [exact N1|]. split; [exact T2|]. split; [exact T3|]. split; [apply QC_save; assumption|].
  eapply QD_sub; [|exact T5]. intros y Hy. eapply in_nremove1, Hy.
Qed.

Lemma q3_tab_nil l sin v over : q3_tab l sin v over -> q3_tab l [] v over.
Proof. intros (T1 & T2 & T3 & T4 & T5). repeat split; try assumption; try apply T2. apply QC_nil. Qed.

Lemma q3_inv_proc s v u e s' u' g : gproc s = Some g -> ev_g e = Some g ->
  plast (pp s) (aget (q3_last v) g) -> pk_inv s u -> q3_inv s v u ->
  step_proc s e = Some s' -> pk_step u e = Some u' ->
  exists v', q3_step v e = Some v' /\ q3_inv s' v' u'.
Proof.
  intros Hg Heg HL (Hc & Hp & Hsc) [Ht Hq] H Hu.
  pose proof (pk_over_mono _ _ _ Hu) as Hov.
  apply (q3_tab_over _ _ _ _ _ Hov) in Ht.
  unfold step_proc, proc_dispatch, die_p, guard, take_pub, take_sub, clo_reg, take_deq_if_any, take_deq in H.
  destruct (pp s) eqn:Epp; destruct e; try discriminate H; bm H; inv_some H;
    cbn [ev_g] in Heg; injection Heg as Heg; subst;
    try (eexists; split; [reflexivity|]; unfold q3_inv; sf; cbn [q3_pp];
         split; [first [exact Ht | apply q3_tab_app_other; [discriminate|exact Ht]]
                |solve [exact I | exact Hq | eauto]]).
  - (* ESetup, fresh session *)
    eexists; split; [reflexivity|]. unfold q3_inv; sf. cbn [session_new s_in q3_pp]. split; [|exact I].
    eapply q3_tab_nil, Ht.
  - (* PPub1W *)
    destruct HL as (d & m' & HL). exists v. split; [cbn [q3_step]; rewrite HL; reflexivity|].
    unfold q3_inv; sf. split; [apply q3_tab_app_other; [discriminate|exact Ht]|exact I].
  - (* PPub2W, saved *)
    destruct Hq as (d & m & id & ->). apply packet_eqb_eq in Heqb. subst p0. cbn [get_id] in Heqo. injection Heqo as <-.
    eexists. split; [reflexivity|]. unfold q3_inv; sf. cbn [q3_acked q3_pp sess_with s_in].
    split; [apply q3_tab_save, Ht|exact I].
  - (* PPub2W, save failed *)
    exists v. split; [destruct p0; reflexivity|]. unfold q3_inv; sf. split; [exact Ht|exact I].
  - (* PRelLookup, found *)
    exists v. split; [reflexivity|]. unfold q3_inv; sf. split; [exact Ht|]. cbn [q3_pp].
    apply andb_true_iff in Heqb. destruct Heqb as [E1 E2]. apply N.eqb_eq in E1. subst id0.
    intros Hin. destruct Ht as (_ & _ & _ & T4 & _). destruct (T4 _ Hin) as [Hn|(c1 & g1 & H1 & K1 & S1)].
    + rewrite Hn in E2. discriminate E2.
    + unfold pk_step in Hu.
      match type of Hu with (if ?b then None else _) = _ => destruct b eqn:Eb; [discriminate Hu|] end.
      destruct Hc as (_ & P2 & _). apply (pk_lookup_busy _ _ g1 Eb). eapply P2; eassumption.
  - (* PRelPub *)
    cbn [plast] in HL. cbn [q3_pp] in Hq. eexists. split; [cbn [q3_step]; rewrite HL; reflexivity|].
    unfold q3_inv; sf. cbn [q3_acked q3_pp]. split; [|exact I]. apply q3_tab_app_pc; assumption.
Qed.

Lemma q3_inv_same s s' v u : clos s' = clos s -> s_in (sess s') = s_in (sess s) -> pp s' = pp s ->
  q3_inv s v u -> q3_inv s' v u.
Proof. unfold q3_inv. intros -> -> ->. exact (fun x => x). Qed.

Lemma q3_inv_done s s' v u : clos s' = clos s -> s_in (sess s') = s_in (sess s) -> pp s' = PDone ->
  q3_inv s v u -> q3_inv s' v u.
Proof. unfold q3_inv. intros -> -> ->. intros [H _]. split; [exact H|exact I]. Qed.

Lemma q3_inv_over s v u u' : (forall k, In k (pk_over u) -> In k (pk_over u')) -> q3_inv s v u -> q3_inv s v u'.
Proof. intros Hm [H1 H2]. split; [eapply q3_tab_over; eassumption|exact H2]. Qed.

Lemma q3_inv_hstep s v u e s' u' : inv_c07 s -> pk_inv s u -> q3_relt s v u ->
  step s e = Some s' -> pk_step u e = Some u' ->
  exists v', q3_step v e = Some v' /\ q3_inv s' v' u'.
Proof.
  intros Hi Hpk [HL HR] H Hu. pose proof (pk_over_mono _ _ _ Hu) as Hov.
  pose proof HR as HR0. apply (q3_inv_over _ _ _ _ Hov) in HR.
  apply step_cases in H.
  destruct H as [-> _ -> | -> _ -> | -> _ -> | H | -> H
                | g s1 _ Hev _ _ Hv H | g s1 _ _ _ _ _ Hv H | g s1 _ _ _ _ _ _ Hv H | g s1 _ _ _ _ _ _ _ Hv H
                | g -> _ _ _ _ ->].
  - eexists. split; [reflexivity|]. destruct HR as [H1 _]. split; [exact H1|exact I].
  - exists v. split; [reflexivity|exact HR].
  - exists v. split; [reflexivity|exact HR].
  - eapply q3_inv_clo; eassumption.
  - exists v. split; [reflexivity|].
    apply step_cleanup_frame in H. destruct H as (_ & Hs & Hc & _ & _ & _ & [Hp|Hp] & _).
    + eapply q3_inv_same; [exact Hc|rewrite Hs; reflexivity|exact Hp|exact HR].
    + eapply q3_inv_done; [exact Hc|rewrite Hs; reflexivity|exact Hp|exact HR].
  - assert (Hg1 : gproc s1 = Some g) by (destruct Hv as [[-> Hg]|(_ & _ & -> & _)]; [exact Hg|reflexivity]).
    assert (HL1 : plast (pp s1) (aget (q3_last v) g)).
    { destruct Hv as [[-> Hg]|(Hn & _ & -> & _)]; unfold last_rel in HL.
      - rewrite Hg in HL. exact HL.
      - rewrite Hn in HL. apply plast_none. exact HL. }
    assert (HR1 : q3_inv s1 v u) by (destruct Hv as [[-> _]|(_ & _ & -> & _)]; exact HR0).
    assert (Hpk1 : pk_inv s1 u) by (destruct Hv as [[-> _]|(_ & _ & -> & _)]; exact Hpk).
    eapply q3_inv_proc; eassumption.
  - exists v. split.
    + apply step_deq_event in H. destruct e; try contradiction; try reflexivity. destruct d; [contradiction|reflexivity].
    + apply step_deq_frame in H. destruct H as (Hs & Hc & Hp & _).
      eapply q3_inv_same; [exact Hc|exact Hs|exact Hp|]. destruct Hv as [[-> _]|(_ & _ & ->)]; exact HR.
  - exists v. split.
    + apply step_ack_event in H. destruct e; try contradiction; reflexivity.
    + apply step_ack_frame in H. destruct H as (Hs & Hc & Hp & _).
      eapply q3_inv_same; [exact Hc|rewrite Hs; reflexivity|exact Hp|]. destruct Hv as [[-> _]|(_ & _ & ->)]; exact HR.
  - exists v. split.
    + apply step_cleanup_event in H. destruct e; try discriminate H; try reflexivity; destruct k; try discriminate H; reflexivity.
    + apply step_cleanup_frame in H. destruct H as (_ & Hs & Hc & _ & _ & _ & [Hp|Hp] & _).
      * eapply q3_inv_same; [exact Hc|rewrite Hs; reflexivity|exact Hp|]. destruct Hv as [[-> _]|(_ & _ & ->)]; exact HR.
      * eapply q3_inv_done; [exact Hc|rewrite Hs; reflexivity|exact Hp|]. destruct Hv as [[-> _]|(_ & _ & ->)]; exact HR.
  - exists v. split; [reflexivity|exact HR].
Qed.

Definition q3_R (s : bc) (v : q3_st) (u : pk_st) : Prop := inv_c07 s /\ pk_rel s u /\ q3_relt s v u.

Lemma q3_hstep s v u e s' u' : q3_R s v u -> step s e = Some s' -> pk_step u e = Some u' ->
  exists v', q3_step v e = Some v' /\ q3_R s' v' u'.
Proof.
  intros (Hi & Hpk & Hq) H Hu.
  destruct (q3_inv_hstep _ _ _ _ _ _ Hi (proj2 Hpk) Hq H Hu) as (v' & Ev & Hq').
  exists v'. split; [exact Ev|]. split; [eapply inv_c07_step; eassumption|]. split.
  - eapply pk_hstep; eassumption.
  - split; [|exact Hq']. rewrite (q3_last_next _ _ _ Ev). apply (last_hstep _ _ _ _ (proj1 Hq) H).
Qed.

Theorem single_ack_partial : forall es s,
  bc_run es = Some s -> prompt_acks es = true -> c07_single_ack es = true.
Proof.
  unfold prompt_acks, c07_single_ack.
  apply (scan_sound2 q3_step pk_step q3_R q3_hstep).
  split; [exact inv_c07_init|]. split; [exact pk_rel_init|].
  split; [exact I|]. split; [|exact I].
  split; [constructor|]. split; [split|split; [|split]].
  - intros c id [].
  - intros k id E. discriminate E.
  - intros c id [].
  - intros id [].
  - intros c id [].
Qed.
