(* ConnBase.v — the one induction shared by all broker-connection theorems:
   a trace clause (scanner) holds of every accepted trace if some relation
   between model state and scanner state is preserved by every model step. *)
From Coq Require Import List NArith Bool.
From GM Require Import Base.Lts Codec.Packet Session.Store Broker.Conn Broker.ConnSpec.
Import ListNotations.

Section ScanSound.
  Context {S : Type}.
  Variable f : S -> event -> option S.
  Variable R : bc -> S -> Prop.
  Hypothesis Hstep : forall s t e s', R s t -> step s e = Some s' -> exists t', f t e = Some t' /\ R s' t'.

  Lemma scan_sound_from : forall es s t s', R s t -> Lts.run step s es = Some s' -> scan f t es = true.
  Proof.
    induction es as [|e es IH]; intros s t s' HR Hrun; cbn [scan]; [reflexivity|].
    cbn [Lts.run] in Hrun. destruct (step s e) as [s1|] eqn:E; [|discriminate].
    destruct (Hstep s t e s1 HR E) as (t' & Ef & HR'). rewrite Ef. eapply IH; eassumption.
  Qed.

  Theorem scan_sound (init : S) : R bc_init init -> forall es s', bc_run es = Some s' -> scan f init es = true.
  Proof. intros H0 es s' Hrun. eapply scan_sound_from; [exact H0|exact Hrun]. Qed.
End ScanSound.

(* invariants of the model alone *)
Section Invariant.
  Variable I : bc -> Prop.
  Hypothesis H0 : I bc_init.
  Hypothesis Hstep : forall s e s', I s -> step s e = Some s' -> I s'.
  Theorem bc_invariant : forall es s, bc_run es = Some s -> I s.
  Proof. intros es s. unfold bc_run. apply (Lts.invariant_all_traces _ _ step I bc_init H0 Hstep). Qed.
End Invariant.

(* a relation may assume an already proved invariant *)
Section ScanSoundInv.
  Context {S : Type}.
  Variable f : S -> event -> option S.
  Variable I : bc -> Prop.
  Variable R : bc -> S -> Prop.
  Hypothesis HI0 : I bc_init.
  Hypothesis HIstep : forall s e s', I s -> step s e = Some s' -> I s'.
  Hypothesis Hstep : forall s t e s', I s -> R s t -> step s e = Some s' -> exists t', f t e = Some t' /\ R s' t'.
  Theorem scan_sound_inv (init : S) : R bc_init init -> forall es s', bc_run es = Some s' -> scan f init es = true.
  Proof.
    intros H0. apply (scan_sound f (fun s t => I s /\ R s t)); [|split; assumption].
    intros s t e s' [Hi Hr] E. destruct (Hstep s t e s' Hi Hr E) as (t' & Ef & Hr').
    exists t'. split; [exact Ef|split; [eapply HIstep; eassumption|exact Hr']].
  Qed.
End ScanSoundInv.
