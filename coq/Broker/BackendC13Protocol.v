(* BackendC13Protocol.v — the PROTOCOL part of C13 on the MemoryBackend model
   (Setup split into OSetup -> RSetupWait old / OMarkClosed / OSetupEnd):
     order      a takeover completes only after the displaced connection was terminated and then
                marked closed, both after the newcomer's Setup started waiting; while it waits no
                other Setup is enabled (setup mutex);
     many       any number of connections presenting one client id, in any interleaving (benign
                histories): at most one of them is active, it is the one whose Setup completed
                last, every earlier one is terminated;
     chain      the takeover machinery (non-clean Setup, SetupEnd, MarkClosed, Terminate) never
                changes the subscriptions or the stored queue of a stored session.
   The cleanup-order assumption "a connection is marked closed only after its Terminate"
   (broker/client.go: cleanup() then close(closed); C12_will / C14_lifecycle on the connection
   model) is built into the model: OMarkClosed c is RMisuse unless c has terminated. *)
From Coq Require Import List NArith Bool Lia.
From Coq.Strings Require Import Byte.
From GM Require Import Codec.Packet Topic.MatchSpec Broker.Backend Broker.BackendSpec
  Broker.BackendProofs Broker.BackendProofsPublish Broker.BackendProofsSteps Broker.BackendProofsHist
  Broker.BackendC13 Broker.BackendC13Proofs Broker.BackendLog.
Import ListNotations.
Open Scope N_scope.

Definition stepT := (state * op * result * state)%type.

(* ------------------------------------------------------------------ traces *)
Lemma run_state_cons st o ops : run_state st (o :: ops) = run_state (snd (step st o)) ops.
Proof. unfold run_state. cbn [run]. destruct (step st o) as [r s1]. cbn [snd]. destruct (run s1 ops); reflexivity. Qed.

Lemma trace_cons st o ops :
  trace st (o :: ops) = (st, o, fst (step st o), snd (step st o)) :: trace (snd (step st o)) ops.
Proof. cbn [trace]. destruct (step st o); reflexivity. Qed.

Lemma trace_split ops : forall st (l1 : list stepT) x l2,
  trace st ops = l1 ++ x :: l2 ->
  exists ops1 o ops2,
    ops = ops1 ++ o :: ops2 /\ l1 = trace st ops1 /\
    x = (run_state st ops1, o, fst (step (run_state st ops1) o), snd (step (run_state st ops1) o)) /\
    l2 = trace (snd (step (run_state st ops1) o)) ops2.
Proof.
  induction ops as [|o ops IH]; intros st l1 x l2 H.
  - destruct l1; discriminate.
  - rewrite trace_cons in H. destruct l1 as [|y l1]; cbn [app] in H.
    + injection H as <- <-. exists [], o, ops. repeat split.
    + injection H as <- H. destruct (IH _ _ _ _ H) as (ops1 & o' & ops2 & E1 & E2 & E3 & E4).
      exists (o :: ops1), o', ops2. rewrite run_state_cons. subst. rewrite trace_cons. repeat split.
Qed.

Lemma trace_snoc ops : forall st o,
  trace st (ops ++ [o]) = trace st ops ++ [(run_state st ops, o, fst (step (run_state st ops) o), snd (step (run_state st ops) o))].
Proof.
  induction ops as [|o' ops IH]; intros st o; cbn [app].
  - rewrite trace_cons. reflexivity.
  - rewrite !trace_cons, run_state_cons, IH. reflexivity.
Qed.

Lemma run_state_snoc ops : forall st o, run_state st (ops ++ [o]) = snd (step (run_state st ops) o).
Proof.
  induction ops as [|o' ops IH]; intros st o; cbn [app].
  - rewrite run_state_cons. reflexivity.
  - rewrite !run_state_cons. apply IH.
Qed.

(* an invariant of (history so far, state) established at init and kept by every step holds at every prefix *)
Lemma history_invariant (J : list stepT -> state -> Prop) (ok : op -> bool) st0 :
  J [] st0 ->
  (forall past st o, J past st -> ok o = true ->
     J (past ++ [(st, o, fst (step st o), snd (step st o))]) (snd (step st o))) ->
  forall ops, forallb ok ops = true -> J (trace st0 ops) (run_state st0 ops).
Proof.
  intros J0 Jstep ops. induction ops as [|o ops IH] using rev_ind; intros B.
  - exact J0.
  - rewrite forallb_app in B. apply andb_true_iff in B as [B1 B2]. cbn [forallb] in B2. rewrite andb_true_r in B2.
    rewrite trace_snoc, run_state_snoc. apply Jstep; [apply IH; exact B1|exact B2].
Qed.

Lemma forallb_firstn {A} (f : A -> bool) l : forall n, forallb f l = true -> forallb f (firstn n l) = true.
Proof.
  induction l as [|x l IH]; intros [|n] H; cbn [firstn forallb] in *; try reflexivity.
  apply andb_true_iff in H as [H1 H2]. rewrite H1, (IH n H2). reflexivity.
Qed.

Lemma forallb_app_l {A} (f : A -> bool) l1 l2 : forallb f (l1 ++ l2) = true -> forallb f l1 = true.
Proof. rewrite forallb_app. intros H. apply andb_true_iff in H as [H _]. exact H. Qed.

(* ------------------------------------------------------------------ who terminated, who was marked closed *)
Definition terminated_in (c : conn) (l : list stepT) : Prop :=
  exists s s', In (s, OTerminate c, ROk, s') l.

(* a successful OMarkClosed c in l, with a successful OTerminate c before it *)
Definition closed_after_term (c : conn) (l : list stepT) : Prop :=
  exists a s s' b, l = a ++ (s, OMarkClosed c, ROk, s') :: b /\ terminated_in c a.

Lemma terminated_in_app c l l' : terminated_in c l -> terminated_in c (l ++ l').
Proof. intros (s & s' & H). exists s, s'. apply in_or_app; left; exact H. Qed.

Lemma closed_after_term_app c l l' : closed_after_term c l -> closed_after_term c (l ++ l').
Proof. intros (a & s & s' & b & -> & H). exists a, s, s', (b ++ l'). split; [rewrite <- app_assoc; reflexivity|exact H]. Qed.

(* the connection-lifecycle fields change only by the operation made for it *)
Lemma term_step st o :
  st_term (snd (step st o)) = st_term st \/
  (exists c, o = OTerminate c /\ fst (step st o) = ROk /\ st_term (snd (step st o)) = add_n c (st_term st)).
Proof.
  destruct o as [c id clean|t|c|c subs b|c fs|c m got|c t|c|]; cbn [step].
  - left. unfold setup. destruct (st_pending st); [reflexivity|]. destruct (alookup N.eqb c (st_cid st)); [reflexivity|].
    cbn [st_closing]. destruct (st_closing st); [reflexivity|]. destruct (is_nil id); [reflexivity|].
    match goal with |- context [existing_session ?s id] => set (st1 := s) end.
    destruct (existing_session st1 id) as [[a b0 c0 [c1|]]|]; [reflexivity| |];
      unfold setup_finish; destruct clean; try reflexivity; destruct (alookup bytes_eqb id (st_stored st1)); reflexivity.
  - left. unfold setup_end. destruct (st_pending st) as [p|]; [|reflexivity]. destruct t; [reflexivity|].
    destruct (mem_n (p_old p) (st_closed st)); [|reflexivity].
    unfold setup_finish; destruct (p_clean p); try reflexivity; destruct (alookup bytes_eqb (p_id p) (st_stored st)); reflexivity.
  - left. unfold mark_closed. destruct (mem_n c (st_term st)); reflexivity.
  - left. unfold subscribe. destruct (session_of st c) as [[k s]|]; [|reflexivity]. destruct (negb _); [reflexivity|]. destruct k; reflexivity.
  - left. unfold unsubscribe. destruct (session_of st c) as [[k s]|]; [|reflexivity]. destruct k; reflexivity.
  - left. rewrite publish_unfold. destruct (pub_stuck _ _ _); reflexivity.
  - left. unfold dequeue. destruct (session_of st c) as [[k s]|]; [|reflexivity].
    destruct t; [destruct (s_tq s)|destruct (s_sq s)]; try reflexivity; destruct k; reflexivity.
  - unfold terminate. destruct (alookup N.eqb c (st_cid st)) as [id|]; [|left; reflexivity].
    destruct (mem_n c (st_term st) || _); [left; reflexivity|]. right. exists c. repeat split.
  - left. reflexivity.
Qed.

Lemma closed_step st o :
  st_closed (snd (step st o)) = st_closed st \/
  (exists c, o = OMarkClosed c /\ fst (step st o) = ROk /\ mem_n c (st_term st) = true /\
             st_closed (snd (step st o)) = add_n c (st_closed st)).
Proof.
  destruct o as [c id clean|t|c|c subs b|c fs|c m got|c t|c|]; cbn [step].
  - left. unfold setup. destruct (st_pending st); [reflexivity|]. destruct (alookup N.eqb c (st_cid st)); [reflexivity|].
    cbn [st_closing]. destruct (st_closing st); [reflexivity|]. destruct (is_nil id); [reflexivity|].
    match goal with |- context [existing_session ?s id] => set (st1 := s) end.
    destruct (existing_session st1 id) as [[a b0 c0 [c1|]]|]; [reflexivity| |];
      unfold setup_finish; destruct clean; try reflexivity; destruct (alookup bytes_eqb id (st_stored st1)); reflexivity.
  - left. unfold setup_end. destruct (st_pending st) as [p|]; [|reflexivity]. destruct t; [reflexivity|].
    destruct (mem_n (p_old p) (st_closed st)); [|reflexivity].
    unfold setup_finish; destruct (p_clean p); try reflexivity; destruct (alookup bytes_eqb (p_id p) (st_stored st)); reflexivity.
  - unfold mark_closed. destruct (mem_n c (st_term st)) eqn:T; [|left; reflexivity]. right. exists c. repeat split. exact T.
  - left. unfold subscribe. destruct (session_of st c) as [[k s]|]; [|reflexivity]. destruct (negb _); [reflexivity|]. destruct k; reflexivity.
  - left. unfold unsubscribe. destruct (session_of st c) as [[k s]|]; [|reflexivity]. destruct k; reflexivity.
  - left. rewrite publish_unfold. destruct (pub_stuck _ _ _); reflexivity.
  - left. unfold dequeue. destruct (session_of st c) as [[k s]|]; [|reflexivity].
    destruct t; [destruct (s_tq s)|destruct (s_sq s)]; try reflexivity; destruct k; reflexivity.
  - left. unfold terminate. destruct (alookup N.eqb c (st_cid st)) as [id|]; [|reflexivity].
    destruct (mem_n c (st_term st) || _); reflexivity.
  - left. reflexivity.
Qed.

(* in every history: whoever is in st_term has terminated, whoever is in st_closed was marked closed after terminating *)
Definition Lifecycle (past : list stepT) (st : state) : Prop :=
  (forall c, mem_n c (st_term st) = true -> terminated_in c past) /\
  (forall c, mem_n c (st_closed st) = true -> closed_after_term c past).

Lemma lifecycle_step past st o :
  Lifecycle past st -> Lifecycle (past ++ [(st, o, fst (step st o), snd (step st o))]) (snd (step st o)).
Proof.
  intros [L1 L2]. split.
  - intros c H. destruct (term_step st o) as [E|(c0 & -> & Er & E)].
    + rewrite E in H. apply terminated_in_app, L1, H.
    + rewrite E, mem_add_n in H. apply orb_true_iff in H as [H|H].
      * apply N.eqb_eq in H; subst c0. rewrite Er. exists st, (snd (step st (OTerminate c))).
        apply in_or_app; right; left; reflexivity.
      * apply terminated_in_app, L1, H.
  - intros c H. destruct (closed_step st o) as [E|(c0 & -> & Er & T & E)].
    + rewrite E in H. apply closed_after_term_app, L2, H.
    + rewrite E, mem_add_n in H. apply orb_true_iff in H as [H|H].
      * apply N.eqb_eq in H; subst c0. rewrite Er.
        exists past, st, (snd (step st (OMarkClosed c))), []. split; [reflexivity|exact (L1 c T)].
      * apply closed_after_term_app, L2, H.
Qed.

Lemma lifecycle_all cap ops : Lifecycle (trace (init cap) ops) (run_state (init cap) ops).
Proof.
  apply (history_invariant Lifecycle (fun _ => true)).
  - split; intros c H; discriminate.
  - intros past st o L _. apply lifecycle_step; exact L.
  - clear. induction ops; [reflexivity|exact IHops].
Qed.

(* (a) order, every history: a takeover completes only after the displaced connection has terminated and
   then been marked closed *)
Theorem order_any cap ops l1 st b st' l2 :
  trace (init cap) ops = l1 ++ (st, OSetupEnd false, RSetup b, st') :: l2 ->
  exists p, st_pending st = Some p /\ closed_after_term (p_old p) l1.
Proof.
  intros H. destruct (trace_split _ _ _ _ _ H) as (ops1 & o & ops2 & E1 & E2 & E3 & E4).
  injection E3 as Es Eo Er Es'. subst o.
  pose proof (lifecycle_all cap ops1) as [_ L2]. rewrite <- E2, <- Es in L2.
  cbn [step] in Er. rewrite <- Es in Er. unfold setup_end in Er.
  destruct (st_pending st) as [p|]; [|discriminate]. exists p. split; [reflexivity|].
  destruct (mem_n (p_old p) (st_closed st)) eqn:C; [|discriminate]. exact (L2 _ C).
Qed.

(* while a takeover is pending no other Setup is enabled, and the pending Setup stays until its SetupEnd *)
Theorem setup_excluded st p c id clean :
  st_pending st = Some p -> step st (OSetup c id clean) = (RNotEnabled, st).
Proof. intros H. cbn [step]. unfold setup. rewrite H. reflexivity. Qed.

Theorem pending_persists st p o :
  st_pending st = Some p -> (forall t, o <> OSetupEnd t) -> st_pending (snd (step st o)) = Some p.
Proof.
  intros P Hn. destruct o as [c id clean|t|c|c subs b|c fs|c m got|c t|c|]; cbn [step].
  - unfold setup. rewrite P. exact P.
  - exfalso. exact (Hn t eq_refl).
  - unfold mark_closed. destruct (mem_n c (st_term st)); exact P.
  - unfold subscribe. destruct (session_of st c) as [[k s]|]; [|exact P]. destruct (negb _); [exact P|]. destruct k; exact P.
  - unfold unsubscribe. destruct (session_of st c) as [[k s]|]; [|exact P]. destruct k; exact P.
  - rewrite publish_unfold. destruct (pub_stuck _ _ _); exact P.
  - unfold dequeue. destruct (session_of st c) as [[k s]|]; [|exact P].
    destruct t; [destruct (s_tq s)|destruct (s_sq s)]; try exact P; destruct k; exact P.
  - unfold terminate. destruct (alookup N.eqb c (st_cid st)) as [id|]; [|exact P].
    destruct (mem_n c (st_term st) || _); exact P.
  - exact P.
Qed.

(* ------------------------------------------------------------------ (a) order, every history: the whole sequence
   Setup starts waiting  <  Terminate old  <  MarkClosed old  <  SetupEnd *)
Definition is_wait (p : pending) (x : stepT) : Prop :=
  exists s s', x = (s, OSetup (p_conn p) (p_id p) (p_clean p), RSetupWait (p_old p), s').

Definition Phase (past : list stepT) (st : state) : Prop :=
  forall p, st_pending st = Some p ->
    exists a w mid, past = a ++ w :: mid /\ is_wait p w /\
      (mem_n (p_old p) (st_term st) = true -> terminated_in (p_old p) mid) /\
      (mem_n (p_old p) (st_closed st) = true -> closed_after_term (p_old p) mid).

(* how the pending Setup changes *)
Lemma pending_step st o :
  Inv st ->
  let st' := snd (step st o) in
  st_pending st' = st_pending st \/ st_pending st' = None \/
  (st_pending st = None /\ exists c id clean c1,
     o = OSetup c id clean /\ fst (step st o) = RSetupWait c1 /\ st_pending st' = Some (Backend.Pend c id clean c1) /\
     mem_n c1 (st_term st) = false /\ mem_n c1 (st_closed st) = false /\
     st_term st' = st_term st /\ st_closed st' = st_closed st).
Proof.
  intros (C & _). cbv zeta.
  destruct o as [c id clean|t|c|c subs b|c fs|c m got|c t|c|].
  3-9: (left; destruct (st_pending st) as [p|] eqn:P;
         [apply (pending_persists st p _ P); intros t0; discriminate|]).
  - (* Setup *)
    cbn [step]. unfold setup. destruct (st_pending st) eqn:P; [left; exact P|].
    destruct (alookup N.eqb c (st_cid st)); [left; exact P|].
    cbn [st_closing]. destruct (st_closing st); [right; left; reflexivity|]. destruct (is_nil id); [right; left; reflexivity|].
    match goal with |- context [existing_session ?s id] => set (st1 := s) end.
    destruct (existing_session st1 id) as [[a b0 c0 [c1|]]|] eqn:E.
    + right; right. split; [reflexivity|]. exists c, id, clean, c1. cbn [fst snd]. unfold set_pending. cbn [st_pending st_term st_closed].
      repeat split.
      * (* the displaced connection holds a session, hence has not terminated *)
        assert (G : exists k, get_session st k = Some (Sess a b0 c0 (Some c1))).
        { unfold existing_session in E. subst st1. cbn [st_stored st_active st_temps] in E.
          destruct (alookup bytes_eqb id (st_stored st)) as [s0|] eqn:L.
          - injection E as ->. exists (KStored id). exact L.
          - destruct (alookup bytes_eqb id (st_active st)) as [cx|]; [|discriminate]. exists (KTemp cx). exact E. }
        destruct G as [k G]. pose proof (i_s2 _ C k _ c1 G eq_refl) as S.
        exact (proj1 (i_s1 _ C c1 k S)).
      * assert (G : exists k, get_session st k = Some (Sess a b0 c0 (Some c1))).
        { unfold existing_session in E. subst st1. cbn [st_stored st_active st_temps] in E.
          destruct (alookup bytes_eqb id (st_stored st)) as [s0|] eqn:L.
          - injection E as ->. exists (KStored id). exact L.
          - destruct (alookup bytes_eqb id (st_active st)) as [cx|]; [|discriminate]. exists (KTemp cx). exact E. }
        destruct G as [k G]. pose proof (i_s2 _ C k _ c1 G eq_refl) as S.
        pose proof (proj1 (i_s1 _ C c1 k S)) as NT.
        destruct (mem_n c1 (st_closed st)) eqn:Cl; [|reflexivity]. rewrite (i_closed _ C c1 Cl) in NT. discriminate.
    + right; left. unfold setup_finish. destruct clean; [reflexivity|]. destruct (alookup bytes_eqb id (st_stored st1)); reflexivity.
    + right; left. unfold setup_finish. destruct clean; [reflexivity|]. destruct (alookup bytes_eqb id (st_stored st1)); reflexivity.
  - cbn [step]. unfold setup_end. destruct (st_pending st) as [p|] eqn:P; [|left; exact P].
    destruct t; [right; left; reflexivity|]. destruct (mem_n (p_old p) (st_closed st)); [|left; exact P].
    right; left. unfold setup_finish. destruct (p_clean p); [reflexivity|]. destruct (alookup bytes_eqb (p_id p) (st_stored st)); reflexivity.
  - (* no pending before: these operations do not create one *)
    cbn [step]. unfold mark_closed. destruct (mem_n c (st_term st)); exact P.
  - cbn [step]. unfold subscribe. destruct (session_of st c) as [[k s]|]; [|exact P]. destruct (negb _); [exact P|]. destruct k; exact P.
  - cbn [step]. unfold unsubscribe. destruct (session_of st c) as [[k s]|]; [|exact P]. destruct k; exact P.
  - cbn [step]. rewrite publish_unfold. destruct (pub_stuck _ _ _); exact P.
  - cbn [step]. unfold dequeue. destruct (session_of st c) as [[k s]|]; [|exact P].
    destruct t; [destruct (s_tq s)|destruct (s_sq s)]; try exact P; destruct k; exact P.
  - cbn [step]. unfold terminate. destruct (alookup N.eqb c (st_cid st)) as [id|]; [|exact P].
    destruct (mem_n c (st_term st) || _); exact P.
  - exact P.
Qed.

Lemma phase_step past st o :
  Inv st -> Phase past st ->
  Phase (past ++ [(st, o, fst (step st o), snd (step st o))]) (snd (step st o)).
Proof.
  intros I Ph p P'. set (x := (st, o, fst (step st o), snd (step st o))).
  destruct (pending_step st o I) as [E|[E|(E0 & c & id & clean & c1 & Eo & Er & E & NT & NC & ET & EC)]].
  - (* same pending Setup: the new step is appended to the middle part *)
    rewrite E in P'. destruct (Ph p P') as (a & w & mid & -> & W & T & Cl).
    exists a, w, (mid ++ [x]). split; [rewrite <- app_assoc; reflexivity|]. split; [exact W|]. split.
    + intros H. destruct (term_step st o) as [Et|(c0 & Eo & Er & Et)].
      * rewrite Et in H. apply terminated_in_app, T, H.
      * rewrite Et, mem_add_n in H. apply orb_true_iff in H as [H|H]; [|apply terminated_in_app, T, H].
        apply N.eqb_eq in H. exists st, (snd (step st o)). apply in_or_app; right; left.
        unfold x. rewrite Er. subst o. rewrite H. reflexivity.
    + intros H. destruct (closed_step st o) as [Ec|(c0 & Eo & Er & Tc & Ec)].
      * rewrite Ec in H. apply closed_after_term_app, Cl, H.
      * rewrite Ec, mem_add_n in H. apply orb_true_iff in H as [H|H]; [|apply closed_after_term_app, Cl, H].
        apply N.eqb_eq in H. subst c0.
        exists mid, st, (snd (step st o)), []. split; [unfold x; rewrite Er; subst o; reflexivity|]. apply T. exact Tc.
  - rewrite E in P'. discriminate.
  - rewrite E in P'. injection P' as <-. cbn [p_old p_conn p_id p_clean].
    exists past, x, []. split; [reflexivity|]. split.
    + exists st, (snd (step st o)). unfold x. rewrite Er, Eo. reflexivity.
    + rewrite ET, EC, NT, NC. split; discriminate.
Qed.

Lemma phase_all cap ops :
  Inv (run_state (init cap) ops) /\ Phase (trace (init cap) ops) (run_state (init cap) ops).
Proof.
  apply (history_invariant (fun past st => Inv st /\ Phase past st) (fun _ => true)).
  - split; [apply inv_init|]. intros p H; discriminate.
  - intros past st o [I Ph] _. split; [apply inv_step; assumption|apply phase_step; assumption].
  - clear. induction ops; [reflexivity|exact IHops].
Qed.

Theorem order_full cap ops l1 st b st' l2 :
  trace (init cap) ops = l1 ++ (st, OSetupEnd false, RSetup b, st') :: l2 ->
  exists p a w mid, st_pending st = Some p /\ l1 = a ++ w :: mid /\ is_wait p w /\ closed_after_term (p_old p) mid.
Proof.
  intros H. destruct (trace_split _ _ _ _ _ H) as (ops1 & o & ops2 & E1 & E2 & E3 & E4).
  injection E3 as Es Eo Er Es'. subst o.
  destruct (phase_all cap ops1) as [_ Ph]. rewrite <- E2, <- Es in Ph.
  cbn [step] in Er. rewrite <- Es in Er. unfold setup_end in Er.
  destruct (st_pending st) as [p|] eqn:P; [|discriminate].
  destruct (mem_n (p_old p) (st_closed st)) eqn:C; [|discriminate].
  destruct (Ph p P) as (a & w & mid & El & W & _ & Cl).
  exists p, a, w, mid. repeat split; auto.
Qed.

(* ------------------------------------------------------------------ (b) many contenders for one client id *)
(* the step completes a Setup: which client id, which connection *)
Definition completion_of (x : stepT) : option (bytes * conn) :=
  let '(st, o, r, _) := x in
  match r with
  | RSetup _ =>
      match o with
      | OSetup c id _ => Some (id, c)
      | OSetupEnd _ => match st_pending st with Some p => Some (p_id p, p_conn p) | None => None end
      | _ => None
      end
  | _ => None
  end.

(* the connections whose Setup for client id `id` completed, in order *)
Definition completions (id : bytes) (l : list stepT) : list conn :=
  flat_map (fun x => match completion_of x with
                     | Some (i, c) => if bytes_eqb i id then [c] else []
                     | None => [] end) l.

Lemma completions_snoc id l x :
  completions id (l ++ [x]) =
  completions id l ++ match completion_of x with Some (i, c) => if bytes_eqb i id then [c] else [] | None => [] end.
Proof. unfold completions. rewrite flat_map_app. cbn [flat_map]. rewrite app_nil_r. reflexivity. Qed.

Record Many (past : list stepT) (st : state) : Prop := {
  k1 : forall id c, id <> [] -> sess_of st c <> None -> cid_of st c = id -> exists l, completions id past = l ++ [c];
  k2 : forall id c, In c (completions id past) ->
         (sess_of st c <> None \/ mem_n c (st_term st) = true) /\ cid_of st c = id;
  k4 : forall id, NoDup (completions id past)
}.

Lemma nodup_snoc {A} (l : list A) x : NoDup l -> ~ In x l -> NoDup (l ++ [x]).
Proof.
  induction l as [|y l IH]; intros ND Hn; cbn [app]; [constructor; [intros []|constructor]|].
  inversion ND as [|? ? Hy ND']; subst. constructor.
  - rewrite in_app_iff. intros [H|[H|[]]]; [contradiction|subst; apply Hn; left; reflexivity].
  - apply IH; [exact ND'|intros H; apply Hn; right; exact H].
Qed.

(* a step that completes no Setup *)
Lemma many_keep past st x st' :
  Many past st -> completion_of x = None ->
  (forall c, sess_of st' c <> None -> sess_of st c <> None) ->
  (forall c, sess_of st c <> None \/ mem_n c (st_term st) = true -> cid_of st' c = cid_of st c) ->
  (forall c, sess_of st c <> None \/ mem_n c (st_term st) = true ->
             sess_of st' c <> None \/ mem_n c (st_term st') = true) ->
  Many (past ++ [x]) st'.
Proof.
  intros M Hx Hs Hc Ht.
  assert (E : forall id, completions id (past ++ [x]) = completions id past)
    by (intros id; rewrite completions_snoc, Hx, app_nil_r; reflexivity).
  constructor.
  - intros id c Hid H1 H2. rewrite E. pose proof (Hs c H1) as H1'. rewrite (Hc c (or_introl H1')) in H2.
    exact (k1 _ _ M id c Hid H1' H2).
  - intros id c Hin. rewrite E in Hin. destruct (k2 _ _ M id c Hin) as [H1 H2]. split; [exact (Ht c H1)|rewrite (Hc c H1); exact H2].
  - intros id. rewrite E. exact (k4 _ _ M id).
Qed.

(* a step that completes the Setup of connection c0 for client id id0 *)
Lemma many_add past st x st' id0 c0 :
  Many past st -> completion_of x = Some (id0, c0) ->
  sess_of st c0 = None -> mem_n c0 (st_term st) = false ->
  sess_of st' c0 <> None -> cid_of st' c0 = id0 ->
  (forall c, c <> c0 -> sess_of st' c = sess_of st c) ->
  (forall c, c <> c0 -> cid_of st' c = cid_of st c) ->
  (forall c, mem_n c (st_term st') = mem_n c (st_term st)) ->
  (id0 <> [] -> forall c, sess_of st c <> None -> cid_of st c <> id0) ->
  Many (past ++ [x]) st'.
Proof.
  intros M Hx NS NT S0 C0 Hs Hc Ht Hfree.
  assert (E : forall id, completions id (past ++ [x]) = completions id past ++ (if bytes_eqb id0 id then [c0] else []))
    by (intros id; rewrite completions_snoc, Hx; reflexivity).
  assert (Notin : forall id, ~ In c0 (completions id past)).
  { intros id Hin. destruct (k2 _ _ M id c0 Hin) as [[H|H] _]; congruence. }
  constructor.
  - intros id c Hid H1 H2. rewrite E. destruct (N.eq_dec c c0) as [->|Hne].
    + rewrite C0 in H2. rewrite H2, bytes_eqb_refl. eexists; reflexivity.
    + rewrite (Hs c Hne) in H1. rewrite (Hc c Hne) in H2.
      destruct (bytes_eqb id0 id) eqn:Ei.
      * apply bytes_eqb_eq in Ei. exfalso.
        assert (Hid0 : id0 <> []) by (rewrite Ei; exact Hid). apply (Hfree Hid0 c H1). rewrite Ei. exact H2.
      * rewrite app_nil_r. exact (k1 _ _ M id c Hid H1 H2).
  - intros id c Hin. rewrite E in Hin. apply in_app_iff in Hin as [Hin|Hin].
    + destruct (k2 _ _ M id c Hin) as [H1 H2].
      assert (Hne : c <> c0) by (intros ->; exact (Notin id Hin)).
      rewrite (Hs c Hne), (Hc c Hne), Ht. auto.
    + destruct (bytes_eqb id0 id) eqn:Ei; [|destruct Hin]. destruct Hin as [<-|[]].
      apply bytes_eqb_eq in Ei. split; [left; exact S0|congruence].
  - intros id. rewrite E. destruct (bytes_eqb id0 id); [|rewrite app_nil_r; exact (k4 _ _ M id)].
    apply nodup_snoc; [exact (k4 _ _ M id)|exact (Notin id)].
Qed.

Lemma setup_finish_shape st c id clean :
  let st' := snd (setup_finish st c id clean) in
  (forall x, sess_of st' x = if x =? c then Some (if clean then KTemp c else KStored id) else sess_of st x) /\
  st_cid st' = st_cid st /\ st_term st' = st_term st /\ exists b, fst (setup_finish st c id clean) = RSetup b.
Proof.
  unfold setup_finish. destruct clean; [|destruct (alookup bytes_eqb id (st_stored st))]; cbn [snd fst];
    (split; [intros x; unfold sess_of; cbn [st_sess]; apply (alookup_aset N.eqb N.eqb_eq)|]); repeat split; eexists; reflexivity.
Qed.

Lemma completion_none_op st o r st' :
  match o with OSetup _ _ _ | OSetupEnd _ => False | _ => True end -> completion_of (st, o, r, st') = None.
Proof. intros H. unfold completion_of. destruct r; try reflexivity; destruct o; try reflexivity; destruct H. Qed.

Lemma ghost_frame st o :
  match o with OMarkClosed _ | OSubscribe _ _ _ | OUnsubscribe _ _ | OPublish _ _ _ | ODequeue _ _ => True | _ => False end ->
  st_sess (snd (step st o)) = st_sess st /\ st_cid (snd (step st o)) = st_cid st /\ st_term (snd (step st o)) = st_term st.
Proof.
  destruct o as [c id clean|t|c|c subs b|c fs|c m got|c t|c|]; intros H; try destruct H; cbn [step].
  - unfold mark_closed. destruct (mem_n c (st_term st)); repeat split.
  - unfold subscribe. destruct (session_of st c) as [[k s]|]; [|repeat split]. destruct (negb _); [repeat split|]. destruct k; repeat split.
  - unfold unsubscribe. destruct (session_of st c) as [[k s]|]; [|repeat split]. destruct k; repeat split.
  - rewrite publish_unfold. destruct (pub_stuck _ _ _); repeat split.
  - unfold dequeue. destruct (session_of st c) as [[k s]|]; [|repeat split].
    destruct t; [destruct (s_tq s)|destruct (s_sq s)]; try (repeat split; fail); destruct k; repeat split.
Qed.

Lemma many_same past st o r :
  Many past st -> completion_of (st, o, r, st) = None -> Many (past ++ [(st, o, r, st)]) st.
Proof. intros M H. apply (many_keep past st _ st M H); auto. Qed.

Lemma many_step past st o :
  Inv st -> Many past st ->
  Many (past ++ [(st, o, fst (step st o), snd (step st o))]) (snd (step st o)).
Proof.
  intros I M. pose proof I as (C & Pe).
  destruct o as [c id clean|t|c|c subs b|c fs|c m got|c t|c|].
  - (* Setup *)
    cbn [step]. unfold setup.
    destruct (st_pending st) eqn:P; [apply many_same; [exact M|reflexivity]|].
    destruct (alookup N.eqb c (st_cid st)) eqn:H; [apply many_same; [exact M|reflexivity]|].
    cbn [st_closing].
    destruct (fresh_conn st c C H) as [NS NT].
    assert (CidOther : forall x, x <> c -> cid_of (with_cid st c id) x = cid_of st x).
    { intros x Hx. rewrite cid_of_with, (n_neq_eqb _ _ Hx). reflexivity. }
    assert (Live : forall x, sess_of st x <> None \/ mem_n x (st_term st) = true -> x <> c).
    { intros x [Hx|Hx] ->; congruence. }
    destruct (st_closing st) eqn:CL.
    { (* refused while the backend is closing: only the client id is recorded *)
      cbn [fst snd]. apply (many_keep past st _ _ M); [reflexivity| | |].
      - intros x Hx. exact Hx.
      - intros x Hx. unfold cid_of. cbn [st_cid]. rewrite (alookup_aset N.eqb N.eqb_eq), (n_neq_eqb _ _ (Live x Hx)). reflexivity.
      - intros x Hx. exact Hx. }
    assert (Est1 : St (st_cap st) (st_stored st) (st_temps st) (st_active st) (st_retained st) false
               (st_sess st) (aset N.eqb c id (st_cid st)) (st_dying st) (st_closed st) (st_term st) None = with_cid st c id).
    { unfold with_cid. rewrite CL. reflexivity. }
    rewrite Est1.
    destruct (is_nil id) eqn:Hid.
    + (* no client id: a fresh temporary session *)
      destruct id; [|discriminate]. cbn [fst snd].
      refine (many_add past st _ _ [] c M _ NS NT _ _ _ _ _ _).
      * reflexivity.
      * unfold sess_of; cbn [st_sess with_cid]. rewrite (alookup_aset N.eqb N.eqb_eq), N.eqb_refl. discriminate.
      * unfold cid_of; cbn [st_cid with_cid]. rewrite (alookup_aset N.eqb N.eqb_eq), N.eqb_refl. reflexivity.
      * intros x Hx. unfold sess_of; cbn [st_sess with_cid]. rewrite (alookup_aset N.eqb N.eqb_eq), (n_neq_eqb _ _ Hx). reflexivity.
      * intros x Hx. exact (CidOther x Hx).
      * intros x. reflexivity.
      * intros Hn; exfalso; apply Hn; reflexivity.
    + apply is_nil_false in Hid.
      pose proof (core_with_cid st c id C P H) as C1.
      destruct (existing_session (with_cid st c id) id) as [s|] eqn:E.
      * destruct s as [su tq sq [c1|]].
        -- (* starts waiting: no completion *)
           cbn [fst snd]. unfold set_pending.
           apply (many_keep past st _ _ M); [reflexivity| | |].
           ++ intros x Hx. exact Hx.
           ++ intros x Hx. exact (CidOther x (Live x Hx)).
           ++ intros x Hx. exact Hx.
        -- (* completes at once *)
           destruct (setup_finish_shape (with_cid st c id) c id clean) as (Hs & Hcid & Hterm & [b Hr]).
           rewrite Hr. refine (many_add past st _ _ id c M _ NS NT _ _ _ _ _ _).
           ++ reflexivity.
           ++ rewrite Hs, N.eqb_refl. discriminate.
           ++ unfold cid_of. rewrite Hcid. cbn [st_cid with_cid]. rewrite (alookup_aset N.eqb N.eqb_eq), N.eqb_refl. reflexivity.
           ++ intros x Hx. rewrite Hs, (n_neq_eqb _ _ Hx). reflexivity.
           ++ intros x Hx. unfold cid_of. rewrite Hcid. exact (CidOther x Hx).
           ++ intros x. rewrite Hterm. reflexivity.
           ++ intros _ x Hx. apply neq_none_some in Hx as [k Hx].
              assert (Hne : x <> c) by (intros ->; congruence).
              rewrite <- (CidOther x Hne).
              apply (existing_free _ id C1 Hid (or_intror (ex_intro _ _ (conj E eq_refl))) x k). exact Hx.
      * destruct (setup_finish_shape (with_cid st c id) c id clean) as (Hs & Hcid & Hterm & [b Hr]).
        rewrite Hr. refine (many_add past st _ _ id c M _ NS NT _ _ _ _ _ _).
        -- reflexivity.
        -- rewrite Hs, N.eqb_refl. discriminate.
        -- unfold cid_of. rewrite Hcid. cbn [st_cid with_cid]. rewrite (alookup_aset N.eqb N.eqb_eq), N.eqb_refl. reflexivity.
        -- intros x Hx. rewrite Hs, (n_neq_eqb _ _ Hx). reflexivity.
        -- intros x Hx. unfold cid_of. rewrite Hcid. exact (CidOther x Hx).
        -- intros x. rewrite Hterm. reflexivity.
        -- intros _ x Hx. apply neq_none_some in Hx as [k Hx].
           assert (Hne : x <> c) by (intros ->; congruence).
           rewrite <- (CidOther x Hne).
           apply (existing_free _ id C1 Hid (or_introl E) x k). exact Hx.
  - (* SetupEnd *)
    destruct t.
    { (* kill timeout: no completion, nothing but the wait changes *)
      cbn [step]. unfold setup_end. destruct (st_pending st) as [p|] eqn:P; [|apply many_same; [exact M|reflexivity]].
      cbn [fst snd]. unfold set_pending. apply (many_keep past st _ _ M); [reflexivity| | |]; intros x Hx; try exact Hx; reflexivity. }
    cbn [step]. unfold setup_end.
    destruct (st_pending st) as [p|] eqn:P; [|apply many_same; [exact M|reflexivity]].
    destruct (mem_n (p_old p) (st_closed st)) eqn:Cl; [|apply many_same; [exact M|reflexivity]].
    destruct (Pe p P) as (P1 & P2 & P3 & P4 & P5).
    destruct (setup_finish_shape st (p_conn p) (p_id p) (p_clean p)) as (Hs & Hcid & Hterm & [b Hr]).
    rewrite Hr. refine (many_add past st _ _ (p_id p) (p_conn p) M _ P3 P4 _ _ _ _ _ _).
    + cbn [completion_of]. rewrite P. reflexivity.
    + rewrite Hs, N.eqb_refl. discriminate.
    + unfold cid_of. rewrite Hcid, P2. reflexivity.
    + intros x Hx. rewrite Hs, (n_neq_eqb _ _ Hx). reflexivity.
    + intros x Hx. unfold cid_of. rewrite Hcid. reflexivity.
    + intros x. rewrite Hterm. reflexivity.
    + intros _ x Hx Hc. apply neq_none_some in Hx as [k Hx]. pose proof (P5 x k Hx Hc) as ->.
      destruct (i_s1 _ C (p_old p) k Hx) as (NT & _). rewrite (i_closed _ C _ Cl) in NT. discriminate.
  - destruct (ghost_frame st (OMarkClosed c) Logic.I) as (E1 & E2 & E3).
    apply (many_keep past st _ _ M); [apply completion_none_op; exact Logic.I| | |];
      intros x Hx; unfold sess_of, cid_of in *; rewrite ?E1, ?E2, ?E3 in *; auto.
  - destruct (ghost_frame st (OSubscribe c subs b) Logic.I) as (E1 & E2 & E3).
    apply (many_keep past st _ _ M); [apply completion_none_op; exact Logic.I| | |];
      intros x Hx; unfold sess_of, cid_of in *; rewrite ?E1, ?E2, ?E3 in *; auto.
  - destruct (ghost_frame st (OUnsubscribe c fs) Logic.I) as (E1 & E2 & E3).
    apply (many_keep past st _ _ M); [apply completion_none_op; exact Logic.I| | |];
      intros x Hx; unfold sess_of, cid_of in *; rewrite ?E1, ?E2, ?E3 in *; auto.
  - destruct (ghost_frame st (OPublish c m got) Logic.I) as (E1 & E2 & E3).
    apply (many_keep past st _ _ M); [apply completion_none_op; exact Logic.I| | |];
      intros x Hx; unfold sess_of, cid_of in *; rewrite ?E1, ?E2, ?E3 in *; auto.
  - destruct (ghost_frame st (ODequeue c t) Logic.I) as (E1 & E2 & E3).
    apply (many_keep past st _ _ M); [apply completion_none_op; exact Logic.I| | |];
      intros x Hx; unfold sess_of, cid_of in *; rewrite ?E1, ?E2, ?E3 in *; auto.
  - (* Terminate *)
    cbn [step]. unfold terminate.
    destruct (alookup N.eqb c (st_cid st)) as [id|]; [|apply many_same; [exact M|reflexivity]].
    destruct (mem_n c (st_term st) || _); [apply many_same; [exact M|reflexivity]|]. cbn [fst snd].
    apply (many_keep past st _ _ M); [reflexivity| | |].
    + intros x Hx. unfold sess_of in *; cbn [st_sess] in Hx. rewrite (alookup_aremove N.eqb N.eqb_eq) in Hx.
      destruct (x =? c); [congruence|exact Hx].
    + intros x _. reflexivity.
    + intros x Hx. unfold sess_of; cbn [st_sess st_term]. rewrite (alookup_aremove N.eqb N.eqb_eq), mem_add_n.
      destruct (x =? c); [right; reflexivity|]. cbn [orb]. exact Hx.
  - (* backend Close *)
    cbn [step]. unfold close_backend. cbn [fst snd].
    apply (many_keep past st _ _ M); [reflexivity| | |]; intros x Hx; try exact Hx; reflexivity.
Qed.

Lemma many_all cap ops :
  Inv (run_state (init cap) ops) /\ Many (trace (init cap) ops) (run_state (init cap) ops).
Proof.
  apply (history_invariant (fun past st => Inv st /\ Many past st) (fun _ => true)).
  - split; [apply inv_init|]. constructor.
    + intros id c _ H. exfalso; apply H; reflexivity.
    + intros id c [].
    + intros id. constructor.
  - intros past st o [I M] _. split; [apply inv_step; assumption|apply many_step; assumption].
  - clear. induction ops; [reflexivity|exact IHops].
Qed.

(* a connection is active for client id `id`: some session names it as its active connection *)
Definition active_for (st : state) (id : bytes) (c : conn) : Prop :=
  exists k s, get_session st k = Some s /\ s_act s = Some c /\ cid_of st c = id.

(* (b) any number of connections presenting one client id, any interleaving, benign histories: at every point of
   the history at most one of them is active; it is the connection whose Setup for that id completed last; every
   connection whose Setup for that id completed earlier has terminated *)
Theorem many_contenders cap ops id :
  id <> [] ->
  let st := run_state (init cap) ops in
  let tr := trace (init cap) ops in
  (forall c, active_for st id c ->
     (exists l, completions id tr = l ++ [c] /\
                forall c', In c' l -> mem_n c' (st_term st) = true /\ terminated_in c' tr) /\
     (forall c2, active_for st id c2 -> c2 = c)) /\
  (forall c', In c' (completions id tr) -> active_for st id c' \/ terminated_in c' tr) /\
  NoDup (completions id tr).
Proof.
  intros Hid st tr. destruct (many_all cap ops) as [I M]. fold st tr in I, M.
  pose proof I as (C & _). pose proof (lifecycle_all cap ops) as [L1 _]. fold st tr in L1.
  assert (Sess : forall c, active_for st id c -> sess_of st c <> None /\ cid_of st c = id).
  { intros c (k & s & G & A & Hc). split; [rewrite (i_s2 _ C k s c G A); discriminate|exact Hc]. }
  split; [|split].
  - intros c Hc. destruct (Sess c Hc) as [S1 S2]. destruct (k1 _ _ M id c Hid S1 S2) as [l El]. split.
    + exists l. split; [exact El|]. intros c' Hin.
      assert (Hin' : In c' (completions id tr)) by (rewrite El; apply in_or_app; left; exact Hin).
      destruct (k2 _ _ M id c' Hin') as [[H|H] Hcid].
      * (* still holding a session: then it would be the last one too *)
        destruct (k1 _ _ M id c' Hid H Hcid) as [l' El']. rewrite El in El'. apply app_inj_tail in El' as [-> ->].
        exfalso. pose proof (k4 _ _ M id) as ND. rewrite El in ND. apply NoDup_remove_2 in ND. apply ND. rewrite app_nil_r. exact Hin.
      * split; [exact H|exact (L1 c' H)].
    + intros c2 Hc2. destruct (Sess c2 Hc2) as [T1 T2]. destruct (k1 _ _ M id c2 Hid T1 T2) as [l2 El2].
      rewrite El in El2. apply app_inj_tail in El2 as [_ ->]. reflexivity.
  - intros c' Hin. destruct (k2 _ _ M id c' Hin) as [[H|H] Hcid]; [|right; exact (L1 c' H)].
    left. apply neq_none_some in H as [k H]. destruct (i_s1 _ C c' k H) as (_ & _ & s & G & A). exists k, s. auto.
  - exact (k4 _ _ M id).
Qed.

(* ------------------------------------------------------------------ (c) the takeover machinery keeps the session *)
(* the operations a chain of non-clean takeovers consists of *)
Definition takeover_op (o : op) : bool :=
  match o with
  | OSetup _ _ false | OSetupEnd _ | OMarkClosed _ | OTerminate _ => true
  | _ => false
  end.

Definition NonCleanPending (st : state) : Prop :=
  match st_pending st with Some p => p_clean p = false | None => True end.

Lemma setup_finish_nonclean_stored st c id' id s :
  alookup bytes_eqb id (st_stored st) = Some s ->
  exists s', alookup bytes_eqb id (st_stored (snd (setup_finish st c id' false))) = Some s' /\
             s_subs s' = s_subs s /\ s_sq s' = s_sq s.
Proof.
  intros L. unfold setup_finish. destruct (alookup bytes_eqb id' (st_stored st)) as [s0|] eqn:L0; cbn [snd st_stored];
    rewrite (alookup_aset bytes_eqb bytes_eqb_eq); destruct (bytes_eqb id id') eqn:E; try (exists s; auto; fail).
  - apply bytes_eqb_eq in E; subst id'. rewrite L in L0; injection L0 as <-. eexists; split; [reflexivity|auto].
  - apply bytes_eqb_eq in E; subst id'. congruence.
Qed.

Theorem takeover_step_keeps st o id s :
  takeover_op o = true -> NonCleanPending st ->
  alookup bytes_eqb id (st_stored st) = Some s ->
  NonCleanPending (snd (step st o)) /\
  exists s', alookup bytes_eqb id (st_stored (snd (step st o))) = Some s' /\
             s_subs s' = s_subs s /\ s_sq s' = s_sq s.
Proof.
  intros T NP L. unfold NonCleanPending in *.
  destruct o as [c id' clean|t|c|c subs b|c fs|c m got|c t|c|]; try discriminate; cbn [step].
  - destruct clean; [discriminate|]. unfold setup.
    destruct (st_pending st) eqn:P; [cbn [snd]; rewrite ?P; split; [exact NP|exists s; auto]|].
    destruct (alookup N.eqb c (st_cid st)); [cbn [snd]; rewrite ?P; split; [exact I|exists s; auto]|].
    cbn [st_closing]. destruct (st_closing st); [cbn [snd st_pending st_stored]; split; [exact I|exists s; auto]|].
    destruct (is_nil id'); [cbn [snd st_pending st_stored]; split; [exact I|exists s; auto]|].
    match goal with |- context [existing_session ?s0 id'] => set (st1 := s0) end.
    assert (L1 : alookup bytes_eqb id (st_stored st1) = Some s) by exact L.
    destruct (existing_session st1 id') as [[a b0 c0 [c1|]]|].
    + cbn [snd]. unfold set_pending. cbn [st_pending st_stored p_clean]. split; [reflexivity|exists s; auto].
    + split; [|exact (setup_finish_nonclean_stored st1 c id' id s L1)].
      unfold setup_finish. destruct (alookup bytes_eqb id' (st_stored st1)); exact I.
    + split; [|exact (setup_finish_nonclean_stored st1 c id' id s L1)].
      unfold setup_finish. destruct (alookup bytes_eqb id' (st_stored st1)); exact I.
  - unfold setup_end. destruct (st_pending st) as [p|] eqn:P; [|cbn [snd]; rewrite ?P; split; [exact I|exists s; auto]].
    destruct t; [cbn [snd]; unfold set_pending; cbn [st_pending st_stored]; split; [exact I|exists s; auto]|].
    destruct (mem_n (p_old p) (st_closed st)); [|cbn [snd]; rewrite ?P; split; [exact NP|exists s; auto]].
    rewrite NP. split; [|exact (setup_finish_nonclean_stored st (p_conn p) (p_id p) id s L)].
    unfold setup_finish. destruct (alookup bytes_eqb (p_id p) (st_stored st)); exact I.
  - unfold mark_closed. destruct (mem_n c (st_term st)); cbn [snd st_pending st_stored]; (split; [exact NP|exists s; auto]).
  - unfold terminate. destruct (alookup N.eqb c (st_cid st)) as [cid|]; [|cbn [snd]; split; [exact NP|exists s; auto]].
    destruct (mem_n c (st_term st) || _); [cbn [snd]; split; [exact NP|exists s; auto]|]. cbn [snd st_pending st_stored].
    split; [exact NP|].
    destruct (alookup N.eqb c (st_sess st)) as [[x|i]|]; try (exists s; auto; fail).
    destruct (alookup bytes_eqb i (st_stored st)) as [s0|] eqn:L0; [|exists s; auto].
    destruct (option_eqb N.eqb (s_act s0) (Some c)); [|exists s; auto].
    rewrite (alookup_aset bytes_eqb bytes_eqb_eq). destruct (bytes_eqb id i) eqn:E; [|exists s; auto].
    apply bytes_eqb_eq in E; subst i. rewrite L in L0; injection L0 as <-. eexists; split; [reflexivity|auto].
Qed.

(* a whole chain c1 -> c2 -> ... -> cn: any sequence of takeover operations *)
Theorem handover_chain ops : forall st id s,
  forallb takeover_op ops = true -> NonCleanPending st ->
  alookup bytes_eqb id (st_stored st) = Some s ->
  exists s', alookup bytes_eqb id (st_stored (run_state st ops)) = Some s' /\
             s_subs s' = s_subs s /\ s_sq s' = s_sq s.
Proof.
  induction ops as [|o ops IH]; intros st id s T NP L.
  - exists s; auto.
  - cbn [forallb] in T. apply andb_true_iff in T as [T1 T2]. rewrite run_state_cons.
    destruct (takeover_step_keeps st o id s T1 NP L) as [NP' (s1 & L1 & E1 & E2)].
    destruct (IH _ id s1 T2 NP' L1) as (s' & L' & E1' & E2'). exists s'. split; [exact L'|]. split; congruence.
Qed.

(* and in the delivery log a takeover operation is no event for the stored queue: nothing enqueued, nothing
   dequeued, no reset — the stored queue after a chain is the one the publishes and dequeues of the history
   accumulated (C06_delivery_log) *)
Theorem takeover_no_event k st o r :
  takeover_op o = true ->
  enq_event k false st o r = [] /\ deq_count k false st o r = 0%nat /\ reset_event k false st o r = false.
Proof.
  intros T. unfold enq_event, deq_count, reset_event. cbn [andb].
  destruct o; try discriminate; repeat split; try reflexivity; destruct (get_session st k); reflexivity.
Qed.

(* subscriptions change only through Subscribe / Unsubscribe (C06_resub, C06_unsub say how): every other step keeps
   the subscriptions of every session that exists before and after it *)
Lemma deliver_subs err got k a m s : s_subs (deliver err got k a m s) = s_subs s.
Proof.
  unfold deliver. destruct a; try reflexivity.
  destruct err; [destruct (mem_key k got)|]; try reflexivity; unfold enqueue; destruct (use_temp m); reflexivity.
Qed.

Lemma setup_finish_subs st c id clean k s s' :
  alookup N.eqb c (st_temps st) = None ->
  get_session st k = Some s -> get_session (snd (setup_finish st c id clean)) k = Some s' -> s_subs s' = s_subs s.
Proof.
  intros Tc G. unfold setup_finish. destruct clean; [|destruct (alookup bytes_eqb id (st_stored st)) as [s0|] eqn:L]; cbn [snd];
    destruct k as [x|i]; cbn [get_session st_temps st_stored] in *; intros G'; try congruence.
  - rewrite (alookup_aset N.eqb N.eqb_eq) in G'. destruct (x =? c) eqn:E; [apply N.eqb_eq in E; subst x; congruence|congruence].
  - rewrite (alookup_aremove bytes_eqb bytes_eqb_eq) in G'. destruct (bytes_eqb i id); [discriminate|congruence].
  - rewrite (alookup_aset bytes_eqb bytes_eqb_eq) in G'. destruct (bytes_eqb i id) eqn:E; [|congruence].
    apply bytes_eqb_eq in E; subst i. rewrite L in G; injection G as <-. injection G' as <-. reflexivity.
  - rewrite (alookup_aset bytes_eqb bytes_eqb_eq) in G'. destruct (bytes_eqb i id) eqn:E; [|congruence].
    apply bytes_eqb_eq in E; subst i. congruence.
Qed.

Theorem subs_only_by_subscribe st o k s s' :
  TempsOk st ->
  match o with OSubscribe _ _ _ | OUnsubscribe _ _ => False | _ => True end ->
  get_session st k = Some s -> get_session (snd (step st o)) k = Some s' -> s_subs s' = s_subs s.
Proof.
  intros [T1 T2] Ho G.
  destruct o as [c id clean|t|c|c subs b|c fs|c m got|c t|c|]; try destruct Ho; cbn [step].
  - unfold setup. destruct (st_pending st) eqn:P; [cbn [snd]; congruence|].
    destruct (alookup N.eqb c (st_cid st)) eqn:H; [cbn [snd]; congruence|].
    cbn [st_closing]. destruct (st_closing st).
    { cbn [snd]. intros G'. destruct k; cbn [get_session st_temps st_stored] in *; congruence. }
    destruct (is_nil id).
    { cbn [snd]. intros G'. destruct k as [x|i]; cbn [get_session st_temps st_stored] in *; [|congruence].
      rewrite (alookup_aset N.eqb N.eqb_eq) in G'. destruct (x =? c) eqn:E; [|congruence].
      apply N.eqb_eq in E; subst x. rewrite (T1 c H) in G. discriminate. }
    match goal with |- context [existing_session ?s0 id] => set (st1 := s0) end.
    assert (G1 : get_session st1 k = Some s) by (destruct k; exact G).
    destruct (existing_session st1 id) as [[a b0 c0 [c1|]]|].
    + cbn [snd]. unfold set_pending. subst st1. intros G'. destruct k; cbn [get_session st_temps st_stored] in *; congruence.
    + apply (setup_finish_subs st1 c id clean k s s' (T1 c H) G1).
    + apply (setup_finish_subs st1 c id clean k s s' (T1 c H) G1).
  - unfold setup_end. destruct (st_pending st) as [p|] eqn:P; [|cbn [snd]; congruence].
    destruct t; [cbn [snd]; unfold set_pending; intros G'; destruct k; cbn [get_session st_temps st_stored] in *; congruence|].
    destruct (mem_n (p_old p) (st_closed st)); [|cbn [snd]; congruence].
    apply (setup_finish_subs st (p_conn p) (p_id p) (p_clean p) k s s' (proj1 (T2 p eq_refl)) G).
  - unfold mark_closed. destruct (mem_n c (st_term st)); cbn [snd]; intros G'; destruct k; cbn [get_session st_temps st_stored] in *; congruence.
  - intros G'. destruct (pub_stuck st c m) eqn:Hnb.
    + rewrite publish_unfold, Hnb in G'. cbn [snd] in G'. congruence.
    + rewrite (get_session_published st c m got k Hnb), G in G'. cbn [option_map] in G'. injection G' as <-. apply deliver_subs.
  - unfold dequeue. destruct (session_of st c) as [[k0 s0]|] eqn:S; [|cbn [snd]; congruence].
    pose proof (session_of_get _ _ _ _ S) as G0.
    assert (X : forall s2, s_subs s2 = s_subs s0 -> get_session (put_session st k0 s2) k = Some s' -> s_subs s' = s_subs s).
    { intros s2 E2 G'. rewrite get_put in G'. destruct (skey_eqb k k0) eqn:E; [|congruence].
      apply skey_eqb_eq in E; subst k0. injection G' as <-. congruence. }
    destruct t; [destruct (s_tq s0)|destruct (s_sq s0)]; cbn [snd]; try congruence; apply X; reflexivity.
  - unfold terminate. destruct (alookup N.eqb c (st_cid st)) as [id|]; [|cbn [snd]; congruence].
    destruct (mem_n c (st_term st) || _); [cbn [snd]; congruence|]. cbn [snd]. intros G'.
    destruct k as [x|i]; cbn [get_session st_temps st_stored] in *.
    + rewrite (alookup_aremove N.eqb N.eqb_eq) in G'. destruct (x =? c); congruence.
    + destruct (alookup N.eqb c (st_sess st)) as [[y|j]|]; try congruence.
      destruct (alookup bytes_eqb j (st_stored st)) as [s0|] eqn:L; [|congruence].
      destruct (option_eqb N.eqb (s_act s0) (Some c)); [|congruence].
      rewrite (alookup_aset bytes_eqb bytes_eqb_eq) in G'. destruct (bytes_eqb i j) eqn:E; [|congruence].
      apply bytes_eqb_eq in E; subst j. rewrite L in G; injection G as <-. injection G' as <-. reflexivity.
  - unfold close_backend. cbn [snd]. intros G'. destruct k; cbn [get_session st_temps st_stored] in *; congruence.
Qed.
