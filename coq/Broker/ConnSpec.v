(* ConnSpec.v — what the properties C07, C08, C12, C16, C20 demand of a trace of
   broker-connection events, written as small executable scanners over the
   trace alone (they never look at the model state of Conn.v).  Each scanner
   folds a tiny bookkeeping state over the events and answers [false] at the
   first event that violates its clause.  Extracted, the same definitions judge
   the traces observed on the implementation; the theorems of ConnProofs say
   that every trace the model accepts satisfies them.

   Conventions: a goroutine "is the processor" of its connection once it has
   received something (it has a last-received packet); closures are tied to the
   request they answer by the request the calling goroutine received last. *)
From Coq Require Import List NArith Bool.
From GM Require Import Codec.Packet Session.Store Broker.Conn.
Import ListNotations.
Open Scope N_scope.

(* ------------------------------------------------------------- utilities *)

Fixpoint aget {A} (l : list (N * A)) (k : N) : option A :=
  match l with
  | [] => None
  | (j, v) :: l' => if k =? j then Some v else aget l' k
  end.
Definition aput {A} (l : list (N * A)) (k : N) (v : A) : list (N * A) :=
  (k, v) :: filter (fun e => negb (fst e =? k)) l.
Definition adel {A} (l : list (N * A)) (k : N) : list (N * A) :=
  filter (fun e => negb (fst e =? k)) l.
Definition nmem (k : N) (l : list N) : bool := existsb (N.eqb k) l.
Fixpoint nremove1 (k : N) (l : list N) : list N :=
  match l with
  | [] => []
  | x :: l' => if x =? k then l' else x :: nremove1 k l'
  end.

Section Scan.
  Context {S : Type}.
  Variable f : S -> event -> option S.
  Fixpoint scan (s : S) (es : list event) : bool :=
    match es with
    | [] => true
    | e :: es' => match f s e with Some s' => scan s' es' | None => false end
    end.
End Scan.

Definition is_ack_packet (p : packet) : bool :=
  match p with Suback _ _ | Unsuback _ | Puback _ | Pubcomp _ => true | _ => false end.

(* events that act on the connection's behalf towards peer or backend *)
Definition is_effect (e : event) : bool :=
  match e with
  | ETx _ _ _ _ | ESub _ _ _ | EUnsub _ _ _ | EPub _ _ _ | EDeqCall _ | ESetup _ _
  | ERestore _ _ | ETerm _ _ => true
  | _ => false
  end.

(* ================================================================== C20 == *)

(* C20_gate: nothing is done before an accepted CONNECT *)
Inductive stage := S0 | SConn | SDeny (sent : bool) | SAcc | SBad.

Definition gate_step (st : stage) (e : event) : option stage :=
  match e with
  | ENewConn => Some S0
  | _ =>
    match st with
    | S0 =>
        match e with
        | ERx _ (Connect _) => Some SConn
        | ERx _ _ | ERxErr _ => Some SBad
        | _ => if is_effect e then None else Some st
        end
    | SBad => if is_effect e then None else Some st          (* first packet was not CONNECT: no reply, no call *)
    | SConn =>
        match e with
        | EAuth _ AOk => Some SAcc
        | EAuth _ ADeny => Some (SDeny false)
        | EAuth _ AErr => Some SBad
        | _ => if is_effect e then None else Some st
        end
    | SDeny sent =>                                          (* not authorised: one CONNACK(5) and nothing more *)
        match e with
        | ETx _ (Connack false 5) _ _ => if sent then None else Some (SDeny true)
        | _ => if is_effect e then None else Some st
        end
    | SAcc => Some st
    end
  end.
Definition c20_gate (es : list event) : bool := scan gate_step SBad es.

(* C20_single_connack: at most one CONNACK per connection; after a second
   CONNECT or a server-only packet that goroutine sends nothing any more *)
Record sc_st := ScSt { sc_connacks : N; sc_first : list N; sc_mute : list N }.
Definition server_only (p : packet) : bool :=
  match p with Connect _ | Connack _ _ | Suback _ _ | Unsuback _ | Pingresp => true | _ => false end.
Definition sc_step (s : sc_st) (e : event) : option sc_st :=
  match e with
  | ENewConn => Some (ScSt 0 [] [])
  | ERx g p =>
      if nmem g (sc_first s) then
        (if server_only p then Some (ScSt (sc_connacks s) (sc_first s) (g :: sc_mute s)) else Some s)
      else Some (ScSt (sc_connacks s) (g :: sc_first s) (sc_mute s))     (* the first packet of the connection *)
  | ETx g p _ _ =>
      if nmem g (sc_mute s) then None
      else match p with
           | Connack _ _ => if 0 <? sc_connacks s then None else Some (ScSt 1 (sc_first s) (sc_mute s))
           | _ => Some s
           end
  | _ => Some s
  end.
Definition c20_single_connack (es : list event) : bool := scan sc_step (ScSt 0 [] []) es.

(* C20_responses / C07_ack_after_accept: an acknowledgement packet is sent only
   for a request whose closure the backend has invoked, with exactly the id and
   return codes of that request, each at most once; PUBCOMP may also be sent by
   the processor itself for a PUBREL whose id the session does not know;
   PINGRESP answers PINGREQ one for one.  At quiescence every invoked closure's
   packet has left and every PINGREQ is answered. *)
Record rs_st := RsSt {
  rs_conn : N;
  rs_last : list (N * (packet * bool));      (* per processor goroutine: last packet received, answered? *)
  rs_nolookup : list (N * N);                (* per goroutine: id whose Lookup Incoming returned nothing since the last Rx *)
  rs_clo  : list (N * (N * packet));         (* closure k -> (connection, packet it stands for) *)
  rs_inv  : list N;                          (* invoked, packet not yet sent *)
  rs_done : list N }.                        (* invoked once already *)

Definition rs_last_p (s : rs_st) (g : N) : option packet :=
  match aget (rs_last s) g with Some (p, _) => Some p | None => None end.

Definition rs_reg (s : rs_st) (k : N) (p : packet) : option rs_st :=
  match aget (rs_clo s) k with
  | Some _ => None
  | None => Some (RsSt (rs_conn s) (rs_last s) (rs_nolookup s) ((k, (rs_conn s, p)) :: rs_clo s) (rs_inv s) (rs_done s))
  end.

(* find an invoked, unsent closure of the current connection standing for p *)
Fixpoint rs_pick (s : rs_st) (inv : list N) (p : packet) : option N :=
  match inv with
  | [] => None
  | k :: inv' =>
      match aget (rs_clo s) k with
      | Some (c, q) => if (c =? rs_conn s) && packet_eqb p q then Some k else rs_pick s inv' p
      | None => rs_pick s inv' p
      end
  end.

Definition rs_step (s : rs_st) (e : event) : option rs_st :=
  match e with
  | ENewConn => Some (RsSt (rs_conn s + 1) [] [] (rs_clo s) (rs_inv s) (rs_done s))
  | ERx g p => Some (RsSt (rs_conn s) (aput (rs_last s) g (p, false)) (adel (rs_nolookup s) g) (rs_clo s) (rs_inv s) (rs_done s))
  | ELookup g Incoming id (LRes None) =>
      Some (RsSt (rs_conn s) (rs_last s) (aput (rs_nolookup s) g id) (rs_clo s) (rs_inv s) (rs_done s))
  | ESub g subs k =>
      match rs_last_p s g with
      | Some (Subscribe id subs') => if subs_eqb subs subs' then rs_reg s k (Suback id (map snd subs')) else None
      | _ => None
      end
  | EUnsub g ts k =>
      match rs_last_p s g with
      | Some (Unsubscribe id ts') => if list_eqb bytes_eqb ts ts' then rs_reg s k (Unsuback id) else None
      | _ => None
      end
  | EPub g m (Some k) =>
      match rs_last_p s g with
      | Some (Publish _ m' id) => if (m_qos m' =? 1) && message_eqb m m' then rs_reg s k (Puback id) else None
      | Some (Pubrel id) => rs_reg s k (Pubcomp id)
      | _ => None
      end
  | EAckCall k _ =>
      match aget (rs_clo s) k with
      | None => None
      | Some _ =>
          if nmem k (rs_done s) then Some s
          else Some (RsSt (rs_conn s) (rs_last s) (rs_nolookup s) (rs_clo s) (k :: rs_inv s) (k :: rs_done s))
      end
  | ETx g p _ _ =>
      match aget (rs_last s) g with
      | Some (lastp, answered) =>                     (* the processor *)
          match p with
          | Pingresp =>
              match lastp with
              | Pingreq => if answered then None
                           else Some (RsSt (rs_conn s) (aput (rs_last s) g (lastp, true)) (rs_nolookup s) (rs_clo s) (rs_inv s) (rs_done s))
              | _ => None
              end
          | Pubcomp id =>
              match lastp, aget (rs_nolookup s) g with
              | Pubrel id', Some id'' => if (id =? id') && (id =? id'') then Some s else None
              | _, _ => None
              end
          | Suback _ _ | Unsuback _ | Puback _ => None
          | _ => Some s
          end
      | None =>
          if is_ack_packet p then
            match rs_pick s (rs_inv s) p with
            | Some k => Some (RsSt (rs_conn s) (rs_last s) (rs_nolookup s) (rs_clo s) (nremove1 k (rs_inv s)) (rs_done s))
            | None => None
            end
          else Some s
      end
  | EQuiescent =>
      (* nothing moves and the connection is alive: every invoked closure of this connection has
         had its packet sent, every PINGREQ is answered *)
      if forallb (fun k => match aget (rs_clo s) k with Some (c, _) => negb (c =? rs_conn s) | None => true end) (rs_inv s)
         && forallb (fun e => match snd e with (Pingreq, false) => false | _ => true end) (rs_last s)
      then Some s else None
  | _ => Some s
  end.
Definition c20_responses (es : list event) : bool := scan rs_step (RsSt 0 [] [] [] [] []) es.

(* ================================================================== C07 == *)

(* C07_pubrec_after_store: PUBREC id only after the PUBLISH was saved in the session *)
Definition pr_step (s : list (N * (N * bool))) (e : event) : option (list (N * (N * bool))) :=
  match e with
  | ENewConn => Some []
  | ERx g (Publish _ m id) => if m_qos m =? 2 then Some (aput s g (id, false)) else Some (adel s g)
  | ERx g _ => Some (adel s g)
  | ESave g Incoming (Publish _ _ id) true =>
      match aget s g with
      | Some (id', _) => if id =? id' then Some (aput s g (id, true)) else Some s
      | None => Some s
      end
  | ETx g (Pubrec id) _ _ =>
      match aget s g with
      | Some (id', true) => if id =? id' then Some s else None
      | _ => None
      end
  | _ => Some s
  end.
Definition c07_pubrec_after_store (es : list event) : bool := scan pr_step [] es.

(* C07 exactly-once.  A handshake of id starts when a PUBLISH id is saved in the
   incoming store.  A backend Publish issued for PUBREL id is ACKNOWLEDGED when
   the backend invokes its closure; the closure RELEASES the handshake by
   deleting the stored PUBLISH (the only deletions from the incoming store),
   and only then is PUBCOMP queued.

   c07_no_publish_after_release: once released, no further backend Publish is
   issued for id until a new PUBLISH id is saved.

   c07_single_ack: at most one backend Publish of a handshake is acknowledged
   (an acknowledgement whose release could not be recorded because the session
   failed does not close the handshake).

   Both need the backend to acknowledge PROMPTLY (prompt_acks below): if a
   PUBREL for id is processed again while an earlier hand-over of the same
   handshake is still unacknowledged and that one is acknowledged later, the
   message is handed on twice (C07_*_refuted; open known finding). *)
Record q2_st := Q2St { q2_last : list (N * packet); q2_released : list N }.
Definition q2_step (s : q2_st) (e : event) : option q2_st :=
  match e with
  | ENewConn => Some (Q2St [] (q2_released s))
  | ERx g p => Some (Q2St (aput (q2_last s) g p) (q2_released s))
  | ESave _ Incoming (Publish _ _ id) true => Some (Q2St (q2_last s) (nremove1 id (q2_released s)))
  | EDelete _ Incoming id true =>
      Some (Q2St (q2_last s) (if nmem id (q2_released s) then q2_released s else id :: q2_released s))
  | EPub g _ (Some _) =>
      match aget (q2_last s) g with
      | Some (Pubrel id) => if nmem id (q2_released s) then None else Some s
      | _ => Some s
      end
  | _ => Some s
  end.
Definition c07_no_publish_after_release (es : list event) : bool := scan q2_step (Q2St [] []) es.

Record q3_st := Q3St { q3_last : list (N * packet); q3_rel : list (N * N); q3_acked : list N; q3_done : list N }.
Definition q3_step (s : q3_st) (e : event) : option q3_st :=
  match e with
  | ENewConn => Some (Q3St [] (q3_rel s) (q3_acked s) (q3_done s))
  | ERx g p => Some (Q3St (aput (q3_last s) g p) (q3_rel s) (q3_acked s) (q3_done s))
  | ESave _ Incoming (Publish _ _ id) true => Some (Q3St (q3_last s) (q3_rel s) (nremove1 id (q3_acked s)) (q3_done s))
  | EDelete _ Incoming id false =>                        (* the release could not be recorded: the handshake stays open *)
      Some (Q3St (q3_last s) (q3_rel s) (nremove1 id (q3_acked s)) (q3_done s))
  | EPub g _ (Some k) =>
      match aget (q3_last s) g with
      | Some (Pubrel id) => Some (Q3St (q3_last s) ((k, id) :: q3_rel s) (q3_acked s) (q3_done s))
      | _ => Some s
      end
  | EAckCall k _ =>
      if nmem k (q3_done s) then Some s else
      match aget (q3_rel s) k with
      | Some id =>
          if nmem id (q3_acked s) then None              (* a second acknowledged publish of the same handshake *)
          else Some (Q3St (q3_last s) (q3_rel s) (id :: q3_acked s) (k :: q3_done s))
      | None => Some s
      end
  | _ => Some s
  end.
Definition c07_single_ack (es : list event) : bool := scan q3_step (Q3St [] [] [] []) es.

(* the backend discipline (prompt acknowledgement): when a PUBREL's stored PUBLISH is
   looked up and found, (1) no goroutine is inside an acknowledgement of an earlier
   hand-over of that id with its release (Delete) still to come, and (2) every earlier
   hand-over of that id that is still un-invoked is never invoked afterwards.
   "Acknowledge before the next PUBREL for that id is processed, or never."
   MemoryBackend acknowledges inside Publish and satisfies it trivially. *)
Record pk_st := PkSt {
  pk_last : list (N * packet);
  pk_open : list (N * N);      (* closure k of a PUBREL-publish -> id: issued, not invoked yet *)
  pk_busy : list (N * N);      (* goroutine g -> id: g is inside such a closure, before its Delete *)
  pk_over : list N }.          (* closures overtaken by a later successful lookup of their id *)
Definition pk_step (s : pk_st) (e : event) : option pk_st :=
  match e with
  | ENewConn => Some (PkSt [] (pk_open s) (pk_busy s) (pk_over s))
  | ERx g p => Some (PkSt (aput (pk_last s) g p) (pk_open s) (pk_busy s) (pk_over s))
  | EPub g _ (Some k) =>
      match aget (pk_last s) g with
      | Some (Pubrel id) => Some (PkSt (pk_last s) ((k, id) :: pk_open s) (pk_busy s) (pk_over s))
      | _ => Some s
      end
  | ELookup _ Incoming id (LRes (Some _)) =>
      if existsb (fun e => snd e =? id) (pk_busy s) then None
      else Some (PkSt (pk_last s) (pk_open s) (pk_busy s)
                      (map fst (filter (fun e => snd e =? id) (pk_open s)) ++ pk_over s))
  | EAckCall k g =>
      if nmem k (pk_over s) then None else
      match aget (pk_open s) k with
      | Some id => Some (PkSt (pk_last s) (adel (pk_open s) k) (aput (pk_busy s) g id) (pk_over s))
      | None => Some s
      end
  | EDelete g Incoming _ _ => Some (PkSt (pk_last s) (pk_open s) (adel (pk_busy s) g) (pk_over s))
  | EAckRet _ g => Some (PkSt (pk_last s) (pk_open s) (adel (pk_busy s) g) (pk_over s))   (* the closure is over *)
  | _ => Some s
  end.
Definition prompt_acks (es : list event) : bool := scan pk_step (PkSt [] [] [] []) es.

(* C07_pubrel_answered: at quiescence every PUBREL received on the live
   connection has had its PUBCOMP sent, unless the backend still withholds the
   acknowledgement of the publish it triggered *)
Record pa_st := PaSt {
  pa_last : list (N * packet);
  pa_pend : list N;              (* ids of PUBRELs received, PUBCOMP not yet sent *)
  pa_wait : list (N * N);        (* closure k -> id, not invoked yet *)
}.
Definition pa_step (s : pa_st) (e : event) : option pa_st :=
  match e with
  | ENewConn => Some (PaSt [] [] (pa_wait s))
  | ERx g p =>
      Some (PaSt (aput (pa_last s) g p)
                 (match p with Pubrel id => id :: pa_pend s | _ => pa_pend s end) (pa_wait s))
  | ETx _ (Pubcomp id) _ true => Some (PaSt (pa_last s) (nremove1 id (pa_pend s)) (pa_wait s))
  | EPub g _ (Some k) =>
      match aget (pa_last s) g with
      | Some (Pubrel id) => Some (PaSt (pa_last s) (pa_pend s) ((k, id) :: pa_wait s))
      | _ => Some s
      end
  | EAckCall k _ => Some (PaSt (pa_last s) (pa_pend s) (adel (pa_wait s) k))
  | EQuiescent =>
      if forallb (fun id => existsb (fun w => snd w =? id) (pa_wait s)) (pa_pend s) then Some s else None
  | _ => Some s
  end.
Definition c07_pubrel_answered (es : list event) : bool := scan pa_step (PaSt [] [] []) es.

(* ================================================================== C08 == *)

(* C08_store_before_send: a fresh (dup = false) QoS>0 PUBLISH is sent only by the
   goroutine that dequeued the message, after it saved exactly that packet *)
Definition sb_step (s : list (N * (message * option packet))) (e : event)
  : option (list (N * (message * option packet))) :=
  match e with
  | ENewConn => Some []
  | EDeqRet g (QMsg m _) => Some (aput s g (m, None))
  | ESave g Outgoing p true =>
      match aget s g with
      | Some (m, _) => Some (aput s g (m, Some p))
      | None => Some s
      end
  | ETx g (Publish false m id) _ _ =>
      if m_qos m =? 0 then Some s else
      match aget s g with
      | Some (m', Some p) => if packet_eqb p (Publish false m id) && message_eqb m m' then Some s else None
      | _ => None
      end
  | _ => Some s
  end.
Definition c08_store_before_send (es : list event) : bool := scan sb_step [] es.

(* C08_kept_until_acked: the outgoing store is changed only for a reason: an
   entry is deleted on PUBACK/PUBCOMP for its id, replaced by PUBREL on PUBREC,
   created for a dequeued message *)
Record ku_st := KuSt { ku_last : list (N * packet); ku_deq : list N }.
Definition ku_step (s : ku_st) (e : event) : option ku_st :=
  match e with
  | ENewConn => Some (KuSt [] [])
  | ERx g p => Some (KuSt (aput (ku_last s) g p) (ku_deq s))
  | EDeqRet g (QMsg _ _) => Some (KuSt (ku_last s) (g :: ku_deq s))
  | EDelete g Outgoing id _ =>
      match aget (ku_last s) g with
      | Some (Puback id') | Some (Pubcomp id') => if id =? id' then Some s else None
      | _ => None
      end
  | ESave g Outgoing (Pubrel id) _ =>
      match aget (ku_last s) g with
      | Some (Pubrec id') => if id =? id' then Some s else None
      | _ => None
      end
  | ESave g Outgoing (Publish false m _) _ => if nmem g (ku_deq s) && negb (m_qos m =? 0) then Some s else None
  | ESave _ Outgoing _ _ => None
  | _ => Some s
  end.
Definition c08_kept_until_acked (es : list event) : bool := scan ku_step (KuSt [] []) es.

(* C08_resend + session-present: CONNACK reports session-present exactly for a
   non-clean connect that resumed stored state; directly after it every stored
   outgoing packet is re-sent in store order (PUBLISH flagged dup, PUBREL as such)
   before any new message is dequeued *)
Record re_st := ReSt {
  re_clean : list (N * bool);
  re_resumed : list (N * bool);
  re_stage : list (N * N);               (* per goroutine: 1 = CONNACK sent, expecting All *)
  re_todo : list (N * list packet) }.    (* per goroutine: packets still to re-send *)
Definition re_busy (s : re_st) : bool :=
  existsb (fun e => match snd e with [] => false | _ => true end) (re_todo s) || negb (match re_stage s with [] => true | _ => false end).
Definition re_step (s : re_st) (e : event) : option re_st :=
  match e with
  | ENewConn => Some (ReSt [] [] [] [])
  | ERx g (Connect c) => Some (ReSt (aput (re_clean s) g (c_clean c)) (re_resumed s) (re_stage s) (re_todo s))
  | ESetup g (SOk resumed _ _ _ _) => Some (ReSt (re_clean s) (aput (re_resumed s) g resumed) (re_stage s) (re_todo s))
  | ETx g (Connack sp 0) _ ok =>
      match aget (re_clean s) g, aget (re_resumed s) g with
      | Some cl, Some r =>
          if Bool.eqb sp (negb cl && r)
          then Some (if ok then ReSt (re_clean s) (re_resumed s) (aput (re_stage s) g 1) (re_todo s) else s)
          else None
      | _, _ => None
      end
  | EAll g Outgoing r =>
      match aget (re_stage s) g with
      | Some _ =>
          Some (ReSt (re_clean s) (re_resumed s) (adel (re_stage s) g)
                     (match r with Some ps => aput (re_todo s) g (map set_dup ps) | None => re_todo s end))
      | None => Some s
      end
  | ETx g p _ ok =>
      match aget (re_todo s) g with
      | Some (q :: rest) =>
          if packet_eqb p q then Some (ReSt (re_clean s) (re_resumed s) (re_stage s) (if ok then aput (re_todo s) g rest else adel (re_todo s) g))
          else None
      | _ => Some s
      end
  | EDeqCall _ => if re_busy s then None else Some s
  | ERestore g _ =>
      match aget (re_todo s) g with
      | Some (_ :: _) => None                (* Restore only after the resend is complete *)
      | _ => Some s
      end
  | _ => Some s
  end.
Definition c08_resend (es : list event) : bool := scan re_step (ReSt [] [] [] []) es.

(* C08_no_second_new: a message is offered as a new (dup = false) delivery at most
   once per id allocation, over the whole session lifetime *)
Definition ns_step (s : list (N * N)) (e : event) : option (list (N * N)) :=
  match e with
  | ENextId _ id => Some (aput s id 0)
  | ETx _ (Publish false m id) _ _ =>
      if m_qos m =? 0 then Some s else
      match aget s id with
      | Some 0 => Some (aput s id 1)
      | _ => None
      end
  | _ => Some s
  end.
Definition c08_no_second_new (es : list event) : bool := scan ns_step [] es.

(* ================================================================== C16 == *)

(* C16_bound: never more than W QoS>0 messages sent and unacknowledged on a
   connection, resends included — for a peer that acknowledges only what is in
   flight (a spurious acknowledgement ends the obligation for that connection) *)
Record wb_st := WbSt { wb_w : N; wb_fl : list N; wb_spur : bool }.
Definition wb_step (s : wb_st) (e : event) : option wb_st :=
  match e with
  | ENewConn => Some (WbSt 0 [] (wb_spur s))              (* a peer that misbehaved stays excused for the session *)
  | ESetup _ (SOk _ fresh w _ _) => Some (WbSt w (wb_fl s) (if fresh then false else wb_spur s))
  | ETx _ (Publish _ m id) _ true =>
      if m_qos m =? 0 then Some s
      else
        let fl := if nmem id (wb_fl s) then wb_fl s else id :: wb_fl s in
        if wb_spur s || (N.of_nat (length fl) <=? wb_w s) then Some (WbSt (wb_w s) fl (wb_spur s)) else None
  | ETx _ (Pubrel id) _ true =>                            (* a re-sent PUBREL is an unacknowledged QoS 2 message too *)
      let fl := if nmem id (wb_fl s) then wb_fl s else id :: wb_fl s in
      if wb_spur s || (N.of_nat (length fl) <=? wb_w s) then Some (WbSt (wb_w s) fl (wb_spur s)) else None
  | ERx _ (Puback id) | ERx _ (Pubcomp id) =>
      if nmem id (wb_fl s) then Some (WbSt (wb_w s) (nremove1 id (wb_fl s)) (wb_spur s))
      else Some (WbSt (wb_w s) (wb_fl s) true)
  | ERx _ (Pubrec id) =>                                   (* a PUBREC for an id not in flight is spurious too *)
      if nmem id (wb_fl s) then Some s else Some (WbSt (wb_w s) (wb_fl s) true)
  | _ => Some s
  end.
Definition c16_bound (es : list event) : bool := scan wb_step (WbSt 0 [] false) es.

(* ================================================================== C12 == *)

(* C12_will: when a connection has ended (EClosed) the will has been published by
   the cleanup exactly once if the client had been accepted (Setup succeeded),
   supplied a will and sent no DISCONNECT, otherwise not at all; with the
   message unchanged; before Terminate, which is called iff the client had
   passed authentication, once, before Closed *)
Record wl_st := WlSt {
  wl_procs : list N;                 (* goroutines that received something on this connection *)
  wl_will : option message; wl_auth : bool; wl_setup : bool; wl_disc : bool;
  wl_pubs : N; wl_terms : N }.
Definition wl_new := WlSt [] None false false false 0 0.
Definition wl_step (s : wl_st) (e : event) : option wl_st :=
  match e with
  | ENewConn => Some wl_new
  | ERx g p =>
      let procs := if nmem g (wl_procs s) then wl_procs s else g :: wl_procs s in
      match p with
      | Connect c =>
          if match wl_procs s with [] => true | _ => false end
          then Some (WlSt procs (c_will c) (wl_auth s) (wl_setup s) (wl_disc s) (wl_pubs s) (wl_terms s))
          else Some (WlSt procs (wl_will s) (wl_auth s) (wl_setup s) (wl_disc s) (wl_pubs s) (wl_terms s))
      | Disconnect => Some (WlSt procs (wl_will s) (wl_auth s) (wl_setup s) (wl_auth s && wl_setup s || wl_disc s) (wl_pubs s) (wl_terms s))
      | _ => Some (WlSt procs (wl_will s) (wl_auth s) (wl_setup s) (wl_disc s) (wl_pubs s) (wl_terms s))
      end
  | ERxErr g => Some (WlSt (if nmem g (wl_procs s) then wl_procs s else g :: wl_procs s) (wl_will s) (wl_auth s) (wl_setup s) (wl_disc s) (wl_pubs s) (wl_terms s))
  | EAuth _ AOk => Some (WlSt (wl_procs s) (wl_will s) true (wl_setup s) (wl_disc s) (wl_pubs s) (wl_terms s))
  | ESetup _ (SOk _ _ _ _ _) => Some (WlSt (wl_procs s) (wl_will s) (wl_auth s) true (wl_disc s) (wl_pubs s) (wl_terms s))
  | EPub g m None =>
      if nmem g (wl_procs s) then Some s                   (* a QoS 0 publish by the processor *)
      else                                                 (* the cleanup publishes the will *)
        match wl_will s with
        | Some w =>
            if message_eqb w m && wl_setup s && negb (wl_disc s) && (wl_pubs s =? 0) && (wl_terms s =? 0)
            then Some (WlSt (wl_procs s) (wl_will s) (wl_auth s) (wl_setup s) (wl_disc s) 1 (wl_terms s)) else None
        | None => None
        end
  | ETerm _ _ =>
      if wl_auth s && (wl_terms s =? 0)
      then Some (WlSt (wl_procs s) (wl_will s) (wl_auth s) (wl_setup s) (wl_disc s) (wl_pubs s) 1) else None
  | EClosed =>
      let due := wl_setup s && negb (wl_disc s) && match wl_will s with Some _ => true | None => false end in
      if Bool.eqb due (wl_pubs s =? 1) && Bool.eqb (wl_auth s) (wl_terms s =? 1) then Some s else None
  | _ => Some s
  end.
Definition c12_will (es : list event) : bool := scan wl_step wl_new es.

(* all clauses, by property *)
Definition spec_c07 es := c20_responses es && c07_pubrec_after_store es && c07_no_publish_after_release es && c07_pubrel_answered es.
Definition spec_c08 es := c08_store_before_send es && c08_kept_until_acked es && c08_resend es && c08_no_second_new es.
Definition spec_c12 es := c12_will es.
Definition spec_c16 es := c16_bound es.
Definition spec_c20 es := c20_gate es && c20_single_connack es && c20_responses es.
