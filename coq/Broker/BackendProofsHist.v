(* BackendProofsHist.v — from steps to histories: every step of every history from the
   initial state satisfies every clause; the retained map is the fold of the
   history's publishes. *)
From Coq Require Import List NArith Bool Lia.
From Coq.Strings Require Import Byte.
From GM Require Import Codec.Packet Topic.MatchSpec Broker.Backend Broker.BackendSpec
  Broker.BackendProofs Broker.BackendProofsPublish Broker.BackendProofsSteps Broker.BackendProofsReplay Broker.BackendOwn.
Import ListNotations.
Open Scope N_scope.

(* the observed steps of a history *)
Fixpoint trace (st : state) (ops : list op) : list (state * op * result * state) :=
  match ops with
  | [] => []
  | o :: ops' => let (r, st') := step st o in (st, o, r, st') :: trace st' ops'
  end.

(* clause P holds at every step whose oracle argument is a possible outcome *)
Definition holds_along (P : state -> op -> result -> state -> bool) (cap : N) (ops : list op) : Prop :=
  Forall (fun x => let '(st, o, r, st') := x in r <> RBadOracle -> P st o r st' = true) (trace (init cap) ops).

Lemma trace_wf ops : forall st, wf st -> Own st ->
  Forall (fun x => wf (fst (fst (fst x))) /\ Own (fst (fst (fst x)))) (trace st ops).
Proof.
  induction ops as [|o ops IH]; intros st W O; cbn [trace]; [constructor|].
  pose proof (wf_step st o W) as W1. pose proof (own_step st o O) as O1.
  destruct (step st o) as [r st1]; cbn [snd] in W1, O1.
  constructor; [split; assumption|apply IH; assumption].
Qed.

Lemma trace_is_step ops : forall st, Forall (fun x => let '(s, o, r, s') := x in step s o = (r, s')) (trace st ops).
Proof.
  induction ops as [|o ops IH]; intros st; cbn [trace]; [constructor|].
  destruct (step st o) as [r st1] eqn:E. constructor; [exact E|apply IH].
Qed.

Lemma holds_along_intro (P : state -> op -> result -> state -> bool) :
  (forall st o, wf st -> Own st -> let (r, st') := step st o in r <> RBadOracle -> P st o r st' = true) ->
  forall cap ops, holds_along P cap ops.
Proof.
  intros H cap ops. unfold holds_along.
  pose proof (trace_wf ops (init cap) (wf_init cap) (own_init cap)) as F1.
  pose proof (trace_is_step ops (init cap)) as F2.
  rewrite Forall_forall in *. intros [[[s o] r] s'] Hin.
  specialize (F1 _ Hin). specialize (F2 _ Hin). cbn [fst] in F1. cbn beta iota in F2. destruct F1 as [F1 F1'].
  specialize (H s o F1 F1'). rewrite F2 in H. exact H.
Qed.

Theorem targets_along cap ops : holds_along targets_ok cap ops.
Proof.
  apply holds_along_intro. intros st o W O. destruct o; try (destruct (step st _); reflexivity).
  cbn [step]. pose proof (publish_targets_ok st c m got W (own_ownok st O)) as X. destruct (publish st c m got). intros _; exact X.
Qed.

Theorem live_copy_along cap ops : holds_along live_copy_ok cap ops.
Proof.
  apply holds_along_intro. intros st o W O. destruct o; try (destruct (step st _); reflexivity).
  cbn [step]. pose proof (publish_live_copy_ok st c m got W) as X. destruct (publish st c m got). intros _; exact X.
Qed.

Theorem qos_along cap ops : holds_along qos_ok cap ops.
Proof.
  apply holds_along_intro. intros st o W O. destruct o; try (destruct (step st _); reflexivity).
  cbn [step]. pose proof (dequeue_qos_ok st c temp W) as X. destruct (dequeue st c temp). intros _; exact X.
Qed.

Theorem resub_along cap ops : holds_along resub_ok cap ops.
Proof.
  apply holds_along_intro. intros st o W O. destruct o; try (destruct (step st _); reflexivity).
  cbn [step]. pose proof (subscribe_resub_ok st c subs batches) as X. destruct (subscribe st c subs batches). exact X.
Qed.

Theorem unsub_along cap ops : holds_along unsub_ok cap ops.
Proof.
  apply holds_along_intro. intros st o W O. destruct o; try (destruct (step st _); reflexivity).
  cbn [step]. pose proof (unsubscribe_unsub_ok st c fs W) as X. destruct (unsubscribe st c fs). intros _; exact X.
Qed.

Theorem replay_along cap ops : holds_along replay_ok cap ops.
Proof.
  apply holds_along_intro. intros st o W O. destruct o; try (destruct (step st _); reflexivity).
  cbn [step]. pose proof (subscribe_replay_ok st c subs batches W) as X. destruct (subscribe st c subs batches). exact X.
Qed.

Theorem retained_along cap ops : holds_along retained_ok cap ops.
Proof.
  apply holds_along_intro. intros st o W O. pose proof (step_retained_ok st o W (own_ownok st O)) as X. destruct (step st o). intros _; exact X.
Qed.

(* a Publish that returns ErrQueueFull has changed nothing *)
Theorem refused_along cap ops : holds_along refused_ok cap ops.
Proof.
  apply holds_along_intro. intros st o W O. destruct o; try (destruct (step st _) as [r s']; destruct r; reflexivity).
  cbn [step]. pose proof (publish_refused_ok st c m got W (own_ownok st O)) as X. destruct (publish st c m got). intros _; exact X.
Qed.

(* ------------------------------------------------------------------ the retained map as a fold over the history *)
(* the publishes of a history that were accepted (a refused or a waiting call has done nothing) *)
Fixpoint effective_pubs (ops : list op) (rs : list result) : list message :=
  match ops, rs with
  | OPublish _ m _ :: ops', r :: rs' =>
      (match r with ROk => [m] | _ => [] end) ++ effective_pubs ops' rs'
  | _ :: ops', _ :: rs' => effective_pubs ops' rs'
  | _, _ => []
  end.

(* MQTT 3.3.1.3: what is retained for topic t after the publishes, starting from `start` *)
Definition retained_fold (start : option message) (pubs : list message) (t : bytes) : option message :=
  fold_left (fun acc m => if m_retain m && bytes_eqb t (m_topic m)
                          then (if is_nil (m_payload m) then None else Some m) else acc) pubs start.
Definition retained_spec (pubs : list message) (t : bytes) : option message := retained_fold None pubs t.

Lemma retained_run ops : forall st t, wf st -> Own st ->
  alookup bytes_eqb t (st_retained (snd (run st ops))) =
  retained_fold (alookup bytes_eqb t (st_retained st)) (effective_pubs ops (fst (run st ops))) t.
Proof.
  induction ops as [|o ops IH]; intros st t W O; cbn [run]; [reflexivity|].
  pose proof (wf_step st o W) as W1. pose proof (own_step st o O) as O1.
  destruct (step st o) as [r st1] eqn:E. cbn [snd] in W1, O1. specialize (IH st1 t W1 O1).
  destruct (run st1 ops) as [rs st2]. cbn [fst snd] in *.
  assert (Est : st1 = snd (step st o)) by (rewrite E; reflexivity).
  destruct o as [c id clean|tm|c|c subs b|c fs|c m got|c tq|c|];
    try (cbn [effective_pubs]; rewrite IH, Est, retained_step_other by exact I; reflexivity).
  cbn [effective_pubs]. unfold retained_fold in *. rewrite fold_left_app, IH. f_equal.
  cbn [step] in E. rewrite publish_unfold in E.
  destruct (pub_stuck st c m) eqn:Hnb.
  - injection E as <- <-. destruct (own_refused st c m); reflexivity.
  - unfold pub_stuck in Hnb. apply orb_false_iff in Hnb as [R _].
    rewrite (no_midway st c m W (own_ownok st O) R) in E.
    injection E as <- <-. cbn [st_retained fold_left]. rewrite alookup_retain_update. reflexivity.
Qed.

Theorem retained_is_spec cap ops t :
  let (rs, st) := run (init cap) ops in
  alookup bytes_eqb t (st_retained st) = retained_spec (effective_pubs ops rs) t /\
  NoDup (map fst (st_retained st)) /\ retained_wf st = true.
Proof.
  pose proof (retained_run ops (init cap) t (wf_init cap) (own_init cap)) as X.
  pose proof (wf_run ops (init cap) (wf_init cap)) as W. unfold run_state in W.
  assert (RW : forall ops st, retained_wf st = true -> retained_wf (snd (run st ops)) = true).
  { clear. induction ops as [|o ops IH]; intros st H; cbn [run]; [exact H|].
    pose proof (step_retained_wf st o H) as H1. destruct (step st o) as [r st1]; cbn [snd] in H1.
    specialize (IH st1 H1). destruct (run st1 ops); exact IH. }
  specialize (RW ops (init cap) eq_refl).
  destruct (run (init cap) ops) as [rs st]. cbn [fst snd] in *.
  split; [exact X|]. split; [exact (proj2 (proj2 W))|exact RW].
Qed.

(* ------------------------------------------------------------------ ErrQueueFull is atomic *)
Lemma trace_step_facts cap ops st o r st' :
  In (st, o, r, st') (trace (init cap) ops) -> wf st /\ Own st /\ step st o = (r, st').
Proof.
  intros Hin.
  pose proof (trace_wf ops (init cap) (wf_init cap) (own_init cap)) as F1.
  pose proof (trace_is_step ops (init cap)) as F2.
  rewrite Forall_forall in *. specialize (F1 _ Hin). specialize (F2 _ Hin). cbn [fst] in F1. cbn beta iota in F2.
  destruct F1; auto.
Qed.

(* in every history a Publish that returns ErrQueueFull has changed nothing at all (sessions, queues, retained
   store, everything), and it was the pre-check that refused it: the live publisher's own matching queue is full *)
Theorem queue_full_atomic cap ops st c m got st' :
  In (st, OPublish c m got, RQueueFull, st') (trace (init cap) ops) ->
  st' = st /\ own_refused st c m = true.
Proof.
  intros Hin. destruct (trace_step_facts _ _ _ _ _ _ Hin) as (W & O & E). cbn [step] in E.
  destruct (publish_refused st c m got W (own_ownok st O)) as [R S]; [rewrite E; reflexivity|].
  rewrite E in S. cbn [snd] in S. auto.
Qed.

(* the publish of a closing connection (its will) is never refused *)
Theorem closing_publisher_not_refused cap ops st c m got r st' :
  In (st, OPublish c m got, r, st') (trace (init cap) ops) ->
  mem_n c (st_dying st) = true -> r <> RQueueFull.
Proof.
  intros Hin D ->. destruct (queue_full_atomic _ _ _ _ _ _ _ Hin) as [_ R].
  unfold own_refused in R. rewrite D in R. discriminate.
Qed.

(* as a step clause *)
Theorem closing_accepted_along cap ops : holds_along closing_accepted_ok cap ops.
Proof.
  apply holds_along_intro. intros st o W O. destruct o; try (destruct (step st _) as [r s']; destruct r; reflexivity).
  cbn [step]. destruct (publish st c m got) as [r st'] eqn:E. intros _. unfold closing_accepted_ok.
  destruct r; try reflexivity.
  destruct (publish_refused st c m got W (own_ownok st O)) as [R _]; [rewrite E; reflexivity|].
  unfold own_refused in R. apply andb_true_iff in R as [R _]. exact R.
Qed.
