(* ConnProofsA_tok.v — C20_tokens (ConnSpec3.v): on every trace the model accepts, a
   token-wait timeout of the processor happens only when as many earlier requests
   are still unanswered as there are tokens. *)
From Coq Require Import List NArith Bool Lia.
From GM Require Import Base.Lts Codec.Packet Session.Ids Session.Store
  Broker.Conn Broker.ConnSpec Broker.ConnSpec3 Broker.ConnBase Broker.ConnProofsA_lib Broker.ConnProofsA_inv
  Broker.ConnProofsA_resp1.
Import ListNotations.
Open Scope N_scope.

(* ------------------------------------------------------- association lists *)

Lemma aget_filter_ne {A} (l : list (N * A)) k k' : k' <> k ->
  aget (filter (fun e => negb (fst e =? k)) l) k' = aget l k'.
Proof.
  intros Hne. induction l as [|[j v] l IH]; [reflexivity|]. cbn [filter fst]. destruct (j =? k) eqn:E; cbn [negb].
  - apply N.eqb_eq in E. subst j. cbn [aget]. assert (Hx : (k' =? k) = false) by (apply N.eqb_neq, Hne).
    rewrite Hx. exact IH.
  - cbn [aget]. rewrite IH. reflexivity.
Qed.

Lemma aget_filter_eq {A} (l : list (N * A)) k : aget (filter (fun e => negb (fst e =? k)) l) k = None.
Proof.
  induction l as [|[j v] l IH]; [reflexivity|]. cbn [filter fst]. destruct (j =? k) eqn:E; cbn [negb]; [exact IH|].
  cbn [aget]. rewrite N.eqb_sym, E. exact IH.
Qed.

Lemma aget_adel_eq {A} (l : list (N * A)) k : aget (adel l k) k = None.
Proof. apply aget_filter_eq. Qed.
Lemma aget_adel_ne {A} (l : list (N * A)) k k' : k' <> k -> aget (adel l k) k' = aget l k'.
Proof. apply aget_filter_ne. Qed.
Lemma aget_aput_ne {A} (l : list (N * A)) k k' v : k' <> k -> aget (aput l k v) k' = aget l k'.
Proof. intros H. unfold aput. rewrite aget_cons_ne; [apply aget_filter_ne, H|exact H]. Qed.

Lemma nmem_cons_t k x l : nmem k (x :: l) = (k =? x) || nmem k l.
Proof. reflexivity. Qed.

(* ---------------------------------------------------------------- relation *)

Definition wait_ok (p : ppc) (w : option N) (zero : bool) : Prop :=
  match p with
  | PSubW _ _ | PUnsubW _ _ => w = Some 1
  | PPub1W _ _ | PPub2W _ => w = Some 2
  | PDieClose | PDone => True
  | _ => w = None \/ zero = true
  end.

Definition tk_R' (gp : option N) (p : ppc) (cs cp ts tp : N) (t : tk_st) : Prop :=
  tk_ps t = cs /\ tk_pp t = cp /\
  ts + tk_sub_used t >= cs /\ tp + tk_pub_used t >= cp /\
  (forall g, nmem g (tk_procs t) = true -> gp = Some g) /\
  (p <> PFirst -> dead_pp p = false -> exists g, gp = Some g /\ nmem g (tk_procs t) = true) /\
  (forall g, aget (tk_wait t) g <> None -> gp = Some g) /\
  (forall g, gp = Some g -> wait_ok p (aget (tk_wait t) g) ((cs =? 0) && (cp =? 0))) /\
  (p = PFirst -> cs = 0 /\ cp = 0).

Definition tk_R (s : bc) (t : tk_st) : Prop := tk_R' (gproc s) (pp s) (cps s) (cpp s) (tsub s) (tpub s) t.

Lemma tk_R_ext s s' t :
  gproc s' = gproc s -> pp s' = pp s -> cps s' = cps s -> cpp s' = cpp s -> tsub s' = tsub s -> tpub s' = tpub s ->
  tk_R s t -> tk_R s' t.
Proof. intros H1 H2 H3 H4 H5 H6. unfold tk_R. rewrite H1, H2, H3, H4, H5, H6. auto. Qed.

Ltac tk_proj := cbn [tk_ps tk_pp tk_sub_used tk_pub_used tk_wait tk_procs] in *.

Definition tk_neutral (e : event) : bool :=
  match e with
  | ENewConn | ESetup _ (SOk _ _ _ _ _) | ERx _ _ | ESub _ _ _ | EUnsub _ _ _ | EPub _ _ (Some _)
  | ESave _ Incoming _ _ | ETx _ _ _ true | EDie _ KClient => false
  | _ => true
  end.

Lemma tk_neutral_step t e : tk_neutral e = true -> tk_step t e = Some t.
Proof.
  destruct e; cbn [tk_neutral tk_step]; intros H; try discriminate H; try reflexivity;
    repeat match goal with
           | Hx : match ?x with _ => _ end = true |- _ => destruct x; try discriminate Hx; try reflexivity
           end.
Qed.

Lemma clo_event_tk_neutral e : clo_event e = true -> tk_neutral e = true.
Proof.
  destruct e; cbn; intros H; try discriminate H; try reflexivity;
    repeat match goal with
           | Hx : match ?x with _ => _ end = true |- _ => destruct x; try discriminate Hx; try reflexivity
           end.
Qed.

(* ------------------------------------------------------- processor lemmas *)

Definition rx_wait (p : packet) : option N :=
  match p with
  | Subscribe _ _ | Unsubscribe _ _ => Some 1
  | Publish _ m _ => if m_qos m =? 0 then None else Some 2
  | _ => None
  end.

Lemma step_proc_tk_rx s g p s' zero : step_proc s (ERx g p) = Some s' -> (pp s = PFirst -> zero = true) ->
  wait_ok (pp s') (rx_wait p) zero /\ pp s' <> PFirst /\
  tsub s' = tsub s /\ tpub s' = tpub s /\ cps s' = cps s /\ cpp s' = cpp s.
Proof.
  intros Hp Hz. unfold_proc Hp.
  destruct (pp s) eqn:Epp; try discriminate Hp; try (bm Hp; fail).
  - specialize (Hz eq_refl). subst zero. destruct p; inv_some Hp; sf; cbn [wait_ok rx_wait];
      repeat split; try discriminate; auto.
  - destruct p; bm Hp; inv_some Hp; sf; cbn [wait_ok rx_wait];
      repeat match goal with Hx : (_ =? _) = _ |- _ => rewrite Hx end;
      repeat split; try discriminate; auto.
Qed.

Lemma step_proc_tk_setup s g r f w p b s' : step_proc s (ESetup g (SOk r f w p b)) = Some s' ->
  cps s' = b /\ cpp s' = p /\ tsub s' = b /\ tpub s' = p /\ exists c, pp s' = PConnack c r.
Proof.
  intros Hp. unfold_proc Hp.
  destruct (pp s) eqn:Epp; try discriminate Hp; try (bm Hp; fail). bm Hp; inv_some Hp; sf; repeat split; eauto.
Qed.

Lemma step_proc_tk_sub s e s' : (exists g x k, e = ESub g x k) \/ (exists g x k, e = EUnsub g x k) ->
  step_proc s e = Some s' ->
  ((exists id x, pp s = PSubW id x) \/ (exists id x, pp s = PUnsubW id x)) /\
  (pp s' = PSubR \/ pp s' = PUnsubR) /\
  tsub s = tsub s' + 1 /\ tpub s' = tpub s /\ cps s' = cps s /\ cpp s' = cpp s.
Proof.
  intros He Hp. unfold_proc Hp.
  destruct He as [(g & x & k & ->)|(g & x & k & ->)];
    destruct (pp s) eqn:Epp; try discriminate Hp; bm Hp; inv_some Hp; sf;
    match goal with Hx : (0 <? _) = true |- _ => apply N.ltb_lt in Hx end;
    repeat split; eauto; lia.
Qed.

Lemma step_proc_tk_pub s g m k s' : step_proc s (EPub g m (Some k)) = Some s' ->
  pp s' = PPubR /\ cps s' = cps s /\ cpp s' = cpp s /\ tsub s' = tsub s /\
  (((exists id m0, pp s = PPub1W id m0) /\ tpub s = tpub s' + 1) \/
   ((exists id m0, pp s = PRelPub id m0) /\ tpub s' = tpub s)).
Proof.
  intros Hp. unfold_proc Hp.
  destruct (pp s) eqn:Epp; try discriminate Hp; bm Hp; inv_some Hp; sf;
    try match goal with Hx : (0 <? _) = true |- _ => apply N.ltb_lt in Hx end;
    (split; [reflexivity|]); (split; [reflexivity|]); (split; [reflexivity|]); (split; [reflexivity|]);
    [left|right]; (split; [eauto|]); lia.
Qed.

Lemma step_proc_tk_save s g p ok s' : step_proc s (ESave g Incoming p ok) = Some s' ->
  (exists p0, pp s = PPub2W p0) /\ ((exists id, pp s' = PPubrec id) \/ pp s' = PDieLog KSession) /\
  cps s' = cps s /\ cpp s' = cpp s /\ tsub s' = tsub s /\ tpub s = tpub s' + 1.
Proof.
  intros Hp. unfold_proc Hp.
  destruct (pp s) eqn:Epp; try discriminate Hp; bm Hp; inv_some Hp; sf;
    try match goal with Hx : (0 <? _) = true |- _ => apply N.ltb_lt in Hx end;
    (split; [eauto|]); (split; [eauto|]); repeat split; try reflexivity; lia.
Qed.

Lemma step_proc_tk_die s g s' : step_proc s (EDie g KClient) = Some s' ->
  pp s' = PDieClose /\ cps s' = cps s /\ cpp s' = cpp s /\ tsub s' = tsub s /\ tpub s' = tpub s /\
  (pp s = PDieLog KClient \/
   (((exists id x, pp s = PSubW id x) \/ (exists id x, pp s = PUnsubW id x)) /\ tsub s = 0) \/
   (((exists id x, pp s = PPub1W id x) \/ (exists x, pp s = PPub2W x)) /\ tpub s = 0)).
Proof.
  intros Hp. unfold_proc Hp.
  destruct (pp s) eqn:Epp; try discriminate Hp; bm Hp; inv_some Hp; sf;
    try match goal with Hx : (_ =? 0) = true |- _ => apply N.eqb_eq in Hx end; subst;
    repeat (split; [reflexivity|]); eauto 8.
Qed.

Lemma step_proc_tk_tx s g p a ok s' : step_proc s (ETx g p a ok) = Some s' ->
  pp s <> PFirst /\ dead_pp (pp s) = false /\ pp s' <> PFirst /\
  cps s' = cps s /\ cpp s' = cpp s /\ tsub s' = tsub s /\ tpub s' = tpub s /\
  (forall w z, wait_ok (pp s) w z -> wait_ok (pp s') w z).
Proof.
  intros Hp. unfold_proc Hp.
  destruct (pp s) eqn:Epp; try discriminate Hp; bm Hp; inv_some Hp; sf; cbn [dead_pp wait_ok];
    repeat split; try discriminate; try reflexivity; intros w z Hw; try exact Hw; exact I.
Qed.

Lemma step_proc_tk_neutral s e s' : tk_neutral e = true -> step_proc s e = Some s' ->
  cps s' = cps s /\ cpp s' = cpp s /\ tsub s' = tsub s /\ tpub s' = tpub s /\
  (forall w z, wait_ok (pp s) w z -> wait_ok (pp s') w z) /\ pp s' <> PFirst /\
  (dead_pp (pp s') = false -> pp s <> PFirst /\ dead_pp (pp s) = false).
Proof.
  intros Hn Hp. unfold_proc Hp.
  destruct (pp s) eqn:Epp; destruct e; try discriminate Hn; try discriminate Hp; bm Hp; inv_some Hp; subst;
    try discriminate Hn; sf; cbn [dead_pp wait_ok];
    do 4 (split; [reflexivity|]);
    (split; [intros w z Hw; try exact Hw; exact I|]); (split; [discriminate|]);
    intros Hd; first [discriminate Hd|split; [discriminate|reflexivity]].
Qed.

(* ------------------------------------------------------- the scanner's steps *)

Lemma tk_step_rx ps pp su pu wait procs g p :
  exists wait', tk_step (TkSt ps pp su pu wait procs) (ERx g p) = Some (TkSt ps pp su pu wait' (g :: procs)) /\
                aget wait' g = rx_wait p /\ (forall g', g' <> g -> aget wait' g' = aget wait g').
Proof.
  destruct p; cbn [tk_step rx_wait]; tk_proj;
    try (exists (adel wait g); split; [reflexivity|]; split; [apply aget_adel_eq|intros g' Hg'; apply aget_adel_ne, Hg']);
    try (exists (aput wait g 1); split; [reflexivity|]; split; [apply aget_aput_eq|intros g' Hg'; apply aget_aput_ne, Hg']).
  destruct (m_qos m =? 0).
  - exists (adel wait g); split; [reflexivity|]; split; [apply aget_adel_eq|intros g' Hg'; apply aget_adel_ne, Hg'].
  - exists (aput wait g 2); split; [reflexivity|]; split; [apply aget_aput_eq|intros g' Hg'; apply aget_aput_ne, Hg'].
Qed.

Lemma match_two {A} (w : option N) (a b : A) :
  match w with Some 2 => a | _ => b end = if match w with Some x => x =? 2 | None => false end then a else b.
Proof. destruct w as [[|[[q|q|]|[q|q|]|]]|]; reflexivity. Qed.

Lemma tk_die_ok t g :
  (aget (tk_wait t) g = Some 1 -> tk_ps t <= tk_sub_used t) ->
  (aget (tk_wait t) g = Some 2 -> tk_pp t <= tk_pub_used t) ->
  tk_step t (EDie g KClient) = Some t.
Proof.
  intros H1 H2. cbn [tk_step]. destruct (aget (tk_wait t) g) as [[|[[q|q|]|[q|q|]|]]|]; try reflexivity.
  - specialize (H2 eq_refl). assert (Hx : (tk_pub_used t <? tk_pp t) = false) by (apply N.ltb_ge; lia).
    rewrite Hx. reflexivity.
  - specialize (H1 eq_refl). assert (Hx : (tk_sub_used t <? tk_ps t) = false) by (apply N.ltb_ge; lia).
    rewrite Hx. reflexivity.
Qed.

(* --------------------------------------------------------------- processor *)

Lemma tk_proc s t e s' g gp0 :
  tk_R' gp0 (pp s) (cps s) (cpp s) (tsub s) (tpub s) t ->
  gproc s = Some g -> ev_g e = Some g ->
  (gp0 = Some g \/ (gp0 = None /\ is_rx e = true)) ->
  step_proc s e = Some s' ->
  exists t', tk_step t e = Some t' /\ tk_R s' t'.
Proof.
  intros (K1 & K1' & K2 & K2' & K3 & K4 & K5 & K6 & K7) Hgp Hg Hgp0 Hp.
  destruct (step_proc_frame _ _ _ Hp) as (_ & Fg & _).
  assert (Hgp0' : gp0 = Some g \/ gp0 = None) by (destruct Hgp0 as [?|[? _]]; auto).
  assert (K3' : forall g', nmem g' (tk_procs t) = true -> Some g = Some g').
  { intros g' Hm. specialize (K3 g' Hm). destruct Hgp0' as [Hx|Hx]; congruence. }
  assert (K5' : forall g', aget (tk_wait t) g' <> None -> Some g = Some g').
  { intros g' Hm. specialize (K5 g' Hm). destruct Hgp0' as [Hx|Hx]; congruence. }
  assert (K4' : pp s <> PFirst -> dead_pp (pp s) = false -> gp0 = Some g /\ nmem g (tk_procs t) = true).
  { intros H1 H2. destruct (K4 H1 H2) as (g0 & Hg0 & Hm). specialize (K3' g0 Hm). injection K3' as <-. auto. }
  unfold tk_R. rewrite Fg, Hgp.
  destruct (tk_neutral e) eqn:Hn.
  { (* events the scanner ignores *)
    exists t. split; [apply tk_neutral_step, Hn|].
    destruct (step_proc_tk_neutral _ _ _ Hn Hp) as (N1 & N2 & N3 & N4 & N5 & N6 & N7).
    rewrite N1, N2, N3, N4. unfold tk_R'. repeat split; try assumption.
    - intros _ Hd. destruct (N7 Hd) as [H1 H2]. destruct (K4' H1 H2) as [_ Hm]. exists g. auto.
    - intros g' Hg'. injection Hg' as <-. destruct Hgp0' as [Hx|Hx].
      + apply N5, K6, Hx.
      + assert (Hw : aget (tk_wait t) g = None).
        { destruct (aget (tk_wait t) g) eqn:E; [|reflexivity]. exfalso.
          assert (Hne : aget (tk_wait t) g <> None) by (rewrite E; discriminate). specialize (K5 g Hne). congruence. }
        rewrite Hw. destruct (dead_pp (pp s')) eqn:Hd.
        * destruct (pp s'); try discriminate Hd; cbn [wait_ok]; auto.
        * destruct (N7 eq_refl) as [H1 H2]. destruct (K4' H1 H2) as [Hy _]. congruence.
    - contradiction.
    - contradiction. }
  destruct t as [ps ppn su pu wait procs]. tk_proj. subst ps ppn.
  destruct e; try discriminate Hn; cbn [ev_g] in Hg; try discriminate Hg; injection Hg as ->.
  - (* ERx *)
    assert (Hz : pp s = PFirst -> (cps s =? 0) && (cpp s =? 0) = true).
    { intros Hx. destruct (K7 Hx) as [-> ->]. reflexivity. }
    destruct (step_proc_tk_rx _ _ _ _ _ Hp Hz) as (X1 & X2 & X3 & X4 & X5 & X6).
    destruct (tk_step_rx (cps s) (cpp s) su pu wait procs g p) as (wait' & Hstep & Hw1 & Hw2).
    eexists. split; [exact Hstep|]. unfold tk_R'; tk_proj. rewrite X3, X4, X5, X6.
    repeat split; try assumption; try reflexivity.
    + intros g' Hm. rewrite nmem_cons_t in Hm. apply orb_true_iff in Hm as [Hm|Hm]; [apply N.eqb_eq in Hm; congruence|apply K3', Hm].
    + intros _ _. exists g. split; [reflexivity|]. rewrite nmem_cons_t, N.eqb_refl. reflexivity.
    + intros g' Hne. destruct (N.eq_dec g' g) as [->|Hd]; [reflexivity|]. rewrite (Hw2 g' Hd) in Hne. apply K5', Hne.
    + intros g' Hg'. injection Hg' as <-. rewrite Hw1. exact X1.
    + contradiction.
    + contradiction.
  - (* ETx ok *)
    destruct ok; [|discriminate Hn].
    destruct Hgp0 as [->|[_ Hx]]; [|discriminate Hx].
    destruct (step_proc_tk_tx _ _ _ _ _ _ Hp) as (X1 & X2 & X3 & X4 & X5 & X6 & X7 & X8).
    destruct (K4' X1 X2) as [_ Hm]. cbn [tk_step]; tk_proj.
    change (existsb (N.eqb g) procs) with (nmem g procs). rewrite Hm.
    eexists. split; [reflexivity|]. unfold tk_R'; tk_proj. rewrite X4, X5, X6, X7.
    repeat split; try assumption; try reflexivity.
    + intros _ _. exists g. auto.
    + intros g' Hg'. injection Hg' as <-. apply X8, K6. reflexivity.
    + contradiction.
    + contradiction.
  - (* ESetup SOk *)
    destruct Hgp0 as [->|[_ Hx]]; [|discriminate Hx].
    destruct r as [|r f w p b]; [discriminate Hn|].
    destruct (step_proc_tk_setup _ _ _ _ _ _ _ _ Hp) as (X1 & X2 & X3 & X4 & (c & X5)).
    assert (Ha : pp s <> PFirst /\ dead_pp (pp s) = false).
    { unfold step_proc in Hp. destruct (pp s); try discriminate Hp; split; try discriminate; reflexivity. }
    destruct (K4' (proj1 Ha) (proj2 Ha)) as [_ Hm].
    eexists. split; [reflexivity|]. unfold tk_R'; tk_proj. rewrite X1, X2, X3, X4, X5.
    repeat split; try assumption; try reflexivity; try lia.
    + intros _ _. exists g. auto.
    + intros g' Hne. exfalso. apply Hne. reflexivity.
    + intros g' _. cbn [wait_ok aget]. left. reflexivity.
    + discriminate.
    + discriminate.
  - (* ESub *)
    destruct Hgp0 as [->|[_ Hx]]; [|discriminate Hx].
    destruct (step_proc_tk_sub _ _ _ (or_introl (ex_intro _ g (ex_intro _ subs (ex_intro _ k eq_refl)))) Hp)
      as (Y1 & Y2 & Y3 & Y4 & Y5 & Y6).
    assert (Ha : pp s <> PFirst /\ dead_pp (pp s) = false).
    { destruct Y1 as [(i & x & ->)|(i & x & ->)]; split; try discriminate; reflexivity. }
    destruct (K4' (proj1 Ha) (proj2 Ha)) as [_ Hm].
    eexists. split; [reflexivity|]. unfold tk_R'; tk_proj. rewrite Y4, Y5, Y6.
    repeat split; try assumption; try reflexivity; try lia.
    + intros _ _. exists g. auto.
    + intros g' Hne. destruct (N.eq_dec g' g) as [->|Hd]; [reflexivity|]. rewrite (aget_adel_ne _ _ _ Hd) in Hne. apply K5', Hne.
    + intros g' Hg'. injection Hg' as <-. rewrite aget_adel_eq. destruct Y2 as [->| ->]; cbn [wait_ok]; auto.
    + destruct Y2 as [Hx| Hx]; congruence.
    + destruct Y2 as [Hx| Hx]; congruence.
  - (* EUnsub *)
    destruct Hgp0 as [->|[_ Hx]]; [|discriminate Hx].
    destruct (step_proc_tk_sub _ _ _ (or_intror (ex_intro _ g (ex_intro _ topics (ex_intro _ k eq_refl)))) Hp)
      as (Y1 & Y2 & Y3 & Y4 & Y5 & Y6).
    assert (Ha : pp s <> PFirst /\ dead_pp (pp s) = false).
    { destruct Y1 as [(i & x & ->)|(i & x & ->)]; split; try discriminate; reflexivity. }
    destruct (K4' (proj1 Ha) (proj2 Ha)) as [_ Hm].
    eexists. split; [reflexivity|]. unfold tk_R'; tk_proj. rewrite Y4, Y5, Y6.
    repeat split; try assumption; try reflexivity; try lia.
    + intros _ _. exists g. auto.
    + intros g' Hne. destruct (N.eq_dec g' g) as [->|Hd]; [reflexivity|]. rewrite (aget_adel_ne _ _ _ Hd) in Hne. apply K5', Hne.
    + intros g' Hg'. injection Hg' as <-. rewrite aget_adel_eq. destruct Y2 as [->| ->]; cbn [wait_ok]; auto.
    + destruct Y2 as [Hx| Hx]; congruence.
    + destruct Y2 as [Hx| Hx]; congruence.
  - (* EPub (Some k) *)
    destruct Hgp0 as [->|[_ Hx]]; [|discriminate Hx].
    destruct k as [k|]; [|discriminate Hn].
    destruct (step_proc_tk_pub _ _ _ _ _ Hp) as (Y1 & Y2 & Y3 & Y4 & Y5).
    assert (Ha : pp s <> PFirst /\ dead_pp (pp s) = false).
    { destruct Y5 as [[(i & x & ->) _]|[(i & x & ->) _]]; split; try discriminate; reflexivity. }
    destruct (K4' (proj1 Ha) (proj2 Ha)) as [_ Hm].
    pose proof (K6 g eq_refl) as Hw.
    cbn [tk_step]; tk_proj. rewrite match_two.
    destruct (match aget wait g with Some x => x =? 2 | None => false end) eqn:Etwo.
    + (* the scanner counts a publish token *)
      eexists. split; [reflexivity|]. unfold tk_R'; tk_proj. rewrite Y1, Y2, Y3, Y4.
      repeat split; try assumption; try reflexivity; try lia.
      * intros _ _. exists g. auto.
      * intros g' Hne. destruct (N.eq_dec g' g) as [->|Hd]; [reflexivity|]. rewrite (aget_adel_ne _ _ _ Hd) in Hne. apply K5', Hne.
      * intros g' Hg'. injection Hg' as <-. rewrite aget_adel_eq. cbn [wait_ok]. auto.
      * congruence.
      * congruence.
    + (* the publish triggered by PUBREL *)
      destruct Y5 as [[(i & x & Hpp) _]|[(i & x & Hpp) Y5]].
      { rewrite Hpp in Hw. cbn [wait_ok] in Hw. rewrite Hw in Etwo. discriminate Etwo. }
      eexists. split; [reflexivity|]. unfold tk_R'; tk_proj. rewrite Y1, Y2, Y3, Y4, Y5.
      repeat split; try assumption; try reflexivity; try lia.
      * intros _ _. exists g. auto.
      * intros g' Hg'. injection Hg' as <-. rewrite Hpp in Hw. exact Hw.
      * congruence.
      * congruence.
  - (* ESave Incoming *)
    destruct Hgp0 as [->|[_ Hx]]; [|discriminate Hx].
    destruct d; [|discriminate Hn].
    destruct (step_proc_tk_save _ _ _ _ _ Hp) as ((p0 & Y1) & Y2 & Y3 & Y4 & Y5 & Y6).
    assert (Ha : pp s <> PFirst /\ dead_pp (pp s) = false) by (rewrite Y1; split; [discriminate|reflexivity]).
    destruct (K4' (proj1 Ha) (proj2 Ha)) as [_ Hm].
    pose proof (K6 g eq_refl) as Hw. rewrite Y1 in Hw. cbn [wait_ok] in Hw.
    cbn [tk_step]; tk_proj. rewrite Hw.
    eexists. split; [reflexivity|]. unfold tk_R'; tk_proj. rewrite Y3, Y4, Y5.
    repeat split; try assumption; try reflexivity; try lia.
    + intros _ _. exists g. auto.
    + intros g' Hne. destruct (N.eq_dec g' g) as [->|Hd]; [reflexivity|]. rewrite (aget_adel_ne _ _ _ Hd) in Hne. apply K5', Hne.
    + intros g' Hg'. injection Hg' as <-. rewrite aget_adel_eq.
      destruct Y2 as [(i & ->)| ->]; cbn [wait_ok]; auto.
    + destruct Y2 as [(i & Hx)| Hx]; congruence.
    + destruct Y2 as [(i & Hx)| Hx]; congruence.
  - (* EDie KClient *)
    destruct Hgp0 as [->|[_ Hx]]; [|discriminate Hx].
    destruct k; try discriminate Hn.
    destruct (step_proc_tk_die _ _ _ Hp) as (Y1 & Y2 & Y3 & Y4 & Y5 & Y6).
    pose proof (K6 g eq_refl) as Hw.
    assert (Hstep : tk_step (TkSt (cps s) (cpp s) su pu wait procs) (EDie g KClient) = Some (TkSt (cps s) (cpp s) su pu wait procs)).
    { apply tk_die_ok; tk_proj; intros Hx; rewrite Hx in Hw.
      - destruct Y6 as [Hpp|[[[(i & x & Hpp)|(i & x & Hpp)] Hz]|[[(i & x & Hpp)|(x & Hpp)] Hz]]];
          rewrite Hpp in Hw; cbn [wait_ok] in Hw; try discriminate Hw; try lia.
        destruct Hw as [Hw|Hw]; [discriminate Hw|]. apply andb_true_iff in Hw as [Hw _]. apply N.eqb_eq in Hw. lia.
      - destruct Y6 as [Hpp|[[[(i & x & Hpp)|(i & x & Hpp)] Hz]|[[(i & x & Hpp)|(x & Hpp)] Hz]]];
          rewrite Hpp in Hw; cbn [wait_ok] in Hw; try discriminate Hw; try lia.
        destruct Hw as [Hw|Hw]; [discriminate Hw|]. apply andb_true_iff in Hw as [_ Hw]. apply N.eqb_eq in Hw. lia. }
    eexists. split; [exact Hstep|]. unfold tk_R'; tk_proj. rewrite Y1, Y2, Y3, Y4, Y5.
    repeat split; try assumption; try reflexivity; try discriminate; try (intros _ Hd; discriminate Hd).
Qed.

(* --------------------------------------------------------------- all steps *)

Lemma step_deq_tk s e s' : step_deq s e = Some s' ->
  gproc s' = gproc s /\ pp s' = pp s /\ cps s' = cps s /\ cpp s' = cpp s /\ tsub s' = tsub s /\ tpub s' = tpub s.
Proof.
  intros H. unfold step_deq, take_deq, guard in H.
  destruct (dp s); destruct e; try discriminate H; bm H; inv_some H;
    repeat match goal with |- context [match ?b with _ => _ end] => destruct b end; sf; repeat split; reflexivity.
Qed.

Lemma tk_frozen gp p cs cp ts tp t : tk_R' gp p cs cp ts tp t -> tk_R' gp PDone cs cp ts tp t.
Proof.
  intros (K1 & K1' & K2 & K2' & K3 & K4 & K5 & K6 & K7). unfold tk_R'.
  repeat split; try assumption; try discriminate; try (intros _ Hd; discriminate Hd).
Qed.

Lemma tk_step_lemma s t e s' :
  inv_store s -> tk_R s t -> step s e = Some s' -> exists t', tk_step t e = Some t' /\ tk_R s' t'.
Proof.
  intros Hst HR H.
  destruct (step_cases _ _ _ H) as
      [-> Hl -> | -> Ho -> | -> Hq -> | Hc | -> Hc | g s1 Ho Hg Hc Hin Hv Hp | g s1 Ho Hg Hc Hin R1 Hv Hp
      | g s1 Ho Hg Hc Hin R1 R2 Hv Hp | g s1 Ho Hg Hc Hin R1 R2 R3 Hv Hp | g -> Ho Hc Hin Hfr ->].
  - (* ENewConn *)
    eexists. split; [reflexivity|]. unfold tk_R, tk_R'; sf; tk_proj.
    repeat split; intros; try discriminate; try contradiction; try lia; auto.
  - exists t. split; [reflexivity|exact HR].
  - exists t. split; [reflexivity|exact HR].
  - (* closure *)
    exists t. split; [apply tk_neutral_step, clo_event_tk_neutral, (step_clo_event _ _ _ Hc)|].
    destruct (step_clo_shape _ _ _ Hc) as (se & cl & dy & q & ->). exact HR.
  - (* EClosed *)
    exists t. split; [reflexivity|].
    destruct (step_cleanup_shape _ _ _ Hc) as (p & d & a & l & -> & Hsh).
    destruct Hsh as [(-> & -> & -> & Hn)|(Hn & Hstop & -> & -> & ->)]; [exact HR|].
    unfold tk_R; sf. apply (tk_frozen _ _ _ _ _ _ _ HR).
  - (* processor *)
    eapply (tk_proc s1 t e s' g (gproc s)); try eassumption.
    + destruct Hv as [[-> _]|(_ & _ & -> & _)]; exact HR.
    + destruct Hv as [[-> Hx]|(_ & _ & -> & _)]; [exact Hx|reflexivity].
    + destruct Hv as [[-> Hx]|(Hx & _ & -> & Hrx)]; [left; exact Hx|right; split; assumption].
  - (* dequeuer *)
    assert (HR1 : tk_R s1 t) by (destruct Hv as [[-> _]|(_ & _ & ->)]; exact HR).
    assert (Hgp1 : gproc s1 = gproc s) by (destruct Hv as [[-> _]|(_ & _ & ->)]; reflexivity).
    destruct (step_deq_tk _ _ _ Hp) as (D1 & D2 & D3 & D4 & D5 & D6).
    assert (HR' : tk_R s' t) by (eapply tk_R_ext; [| | | | | |exact HR1]; assumption).
    destruct (tk_neutral e) eqn:Hn; [exists t; split; [apply tk_neutral_step, Hn|exact HR']|].
    exists t. split; [|exact HR'].
    destruct HR as (_ & _ & _ & _ & K3 & _ & K5 & _).
    assert (Hdp : dp_ok (dp s1)).
    { destruct Hst as (_ & _ & _ & Hd & _). destruct Hv as [[-> _]|(_ & _ & ->)]; exact Hd. }
    unfold step_deq, guard in Hp.
    destruct e; try discriminate Hn; try (destruct (dp s1); discriminate Hp);
      cbn [ev_g] in Hg; injection Hg as ->.
    + (* DSend, ETx *)
      destruct ok; [|discriminate Hn]. cbn [tk_step].
      change (existsb (N.eqb g) (tk_procs t)) with (nmem g (tk_procs t)).
      destruct (nmem g (tk_procs t)) eqn:Hm; [reflexivity|].
      destruct (dp s1) eqn:Edp; try discriminate Hp. cbn [dp_ok] in Hdp.
      destruct async; try discriminate Hp. destruct (packet_eqb p0 p) eqn:Ep; [|discriminate Hp].
      apply packet_eqb_eq in Ep. subst p0.
      destruct p; try reflexivity; discriminate Hdp.
    + (* ESave Incoming: never by the dequeuer *)
      destruct d; [|discriminate Hn]. destruct (dp s1); discriminate Hp.
    + (* EDie KClient *)
      destruct k; try discriminate Hn. apply tk_die_ok; intros Hx;
        (assert (Hne : aget (tk_wait t) g <> None) by (rewrite Hx; discriminate));
        specialize (K5 g Hne); rewrite K5, is_role_some in R1; discriminate R1.
  - (* acker *)
    assert (HR1 : tk_R s1 t) by (destruct Hv as [[-> _]|(_ & _ & ->)]; exact HR).
    assert (Hgp1 : gproc s1 = gproc s) by (destruct Hv as [[-> _]|(_ & _ & ->)]; reflexivity).
    pose proof HR as (_ & _ & _ & _ & K3 & _).
    assert (Hnp : nmem g (tk_procs t) = false).
    { destruct (nmem g (tk_procs t)) eqn:Hm; [|reflexivity]. specialize (K3 g Hm). rewrite K3, is_role_some in R1. discriminate R1. }
    unfold step_ack in Hp. destruct (ap s1) eqn:Eap; destruct e; try discriminate Hp.
    + (* AIdle, ETx *)
      cbn [ev_g] in Hg. injection Hg as ->.
      destruct async; [|discriminate Hp]. destruct (ackq_take (ackq s1) p) as [q'|] eqn:Eq; [|discriminate Hp].
      destruct HR1 as (K1 & K1' & K2 & K2' & K3a & K4 & K5 & K6 & K7).
      destruct t as [ps ppn su pu wait procs]. tk_proj. cbn [tk_step]; tk_proj.
      change (existsb (N.eqb g) procs) with (nmem g procs). rewrite Hnp.
      destruct ok; inv_some Hp.
      * unfold ack_token_back. destruct p; (eexists; split; [reflexivity|]); unfold tk_R, tk_R'; sf; tk_proj;
          repeat split; try assumption; try lia; try (edestruct K7 as [? ?]; [eassumption|assumption]).
      * eexists; split; [reflexivity|]. unfold tk_R, tk_R'; sf; tk_proj.
        repeat split; try assumption; try (edestruct K7 as [? ?]; [eassumption|assumption]).
    + (* ADieLog, EDie KTransport *)
      destruct k; try discriminate Hp. inv_some Hp. exists t. split; [reflexivity|]. exact HR1.
    + (* ADieClose, EConnClose *)
      inv_some Hp. exists t. split; [reflexivity|]. exact HR1.
  - (* cleanup *)
    assert (HR1 : tk_R s1 t) by (destruct Hv as [[-> _]|(_ & _ & ->)]; exact HR).
    assert (Hn : tk_neutral e = true).
    { unfold step_cleanup in Hp. destruct (lp s1); destruct e; try discriminate Hp; try reflexivity.
      - destruct k; [discriminate Hp|reflexivity].
      - destruct k; try discriminate Hp; reflexivity.
      - destruct k; try discriminate Hp; reflexivity. }
    exists t. split; [apply tk_neutral_step, Hn|].
    destruct (step_cleanup_shape _ _ _ Hp) as (p & d & a & l & -> & Hsh).
    destruct Hsh as [(-> & -> & -> & Hnn)|(Hnn & Hstop & -> & -> & ->)]; [exact HR1|].
    unfold tk_R; sf. apply (tk_frozen _ _ _ _ _ _ _ HR1).
  - (* Close() from outside *)
    exists t. split; [reflexivity|exact HR].
Qed.

Theorem c20_tokens_holds : forall es s, bc_run es = Some s -> c20_tokens es = true.
Proof.
  unfold c20_tokens.
  apply (scan_sound_inv tk_step inv_store tk_R inv_store_init inv_store_step tk_step_lemma).
  unfold tk_R, tk_R'; cbn. repeat split; intros; try discriminate; try contradiction; try lia; auto.
Qed.
