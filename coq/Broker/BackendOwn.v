(* BackendOwn.v — in every reachable state (any history, kill timeouts and Close included) a session names a
   connection as its active one only if it is the session that connection holds (client.Session()).  Hence the
   pre-check of Publish looks at the only session whose own-queue branch the fan-out could run into: after the
   pre-check a live publisher never meets its own full queue midway (BackendProofsPublish.no_midway). *)
From Coq Require Import List NArith Bool Lia.
From Coq.Strings Require Import Byte.
From GM Require Import Codec.Packet Topic.MatchSpec Broker.Backend Broker.BackendSpec
  Broker.BackendProofs Broker.BackendProofsPublish Broker.BackendProofsSteps.
Import ListNotations.
Open Scope N_scope.

Record Own (st : state) : Prop := {
  o_act : forall k s c, get_session st k = Some s -> s_act s = Some c -> alookup N.eqb c (st_sess st) = Some k;
  o_cid : forall c, alookup N.eqb c (st_sess st) <> None -> alookup N.eqb c (st_cid st) <> None;
  o_shape : forall c x, alookup N.eqb c (st_sess st) = Some (KTemp x) -> x = c;
  o_pend : forall p, st_pending st = Some p ->
             alookup N.eqb (p_conn p) (st_sess st) = None /\ alookup N.eqb (p_conn p) (st_cid st) <> None
}.

Lemma own_ownok st : Own st -> OwnOk st.
Proof.
  intros O k s c G A. unfold session_of. rewrite (o_act _ O k s c G A), G. reflexivity.
Qed.

Lemma own_init cap : Own (init cap).
Proof.
  constructor; cbn.
  - intros k s c H. destruct k; discriminate.
  - intros c H. exfalso; apply H; reflexivity.
  - intros c x H; discriminate.
  - intros p H; discriminate.
Qed.

(* steps that change no connection bookkeeping and keep every session's active connection *)
Lemma own_frame st st' :
  Own st ->
  st_sess st' = st_sess st -> st_cid st' = st_cid st -> st_pending st' = st_pending st ->
  (forall k s', get_session st' k = Some s' -> exists s, get_session st k = Some s /\ s_act s = s_act s') ->
  Own st'.
Proof.
  intros O E1 E2 E3 H. constructor; rewrite ?E1, ?E2, ?E3.
  - intros k s' c G A. destruct (H k s' G) as [s [G0 A0]]. apply (o_act _ O k s c G0). congruence.
  - exact (o_cid _ O).
  - exact (o_shape _ O).
  - exact (o_pend _ O).
Qed.

Lemma own_put st k s0 s2 :
  Own st -> get_session st k = Some s0 -> s_act s2 = s_act s0 -> Own (put_session st k s2).
Proof.
  intros O G A. apply (own_frame st _ O); try (destruct k; reflexivity).
  intros k' s' G'. rewrite get_put in G'. destruct (skey_eqb k' k) eqn:E.
  - apply skey_eqb_eq in E; subst k'. injection G' as <-. exists s0; auto.
  - exists s'; auto.
Qed.

Lemma deliver_act' err got k a m s : s_act (deliver err got k a m s) = s_act s.
Proof.
  unfold deliver. destruct a; try reflexivity.
  destruct err; [destruct (mem_key k got)|]; try reflexivity; unfold enqueue; destruct (use_temp m); reflexivity.
Qed.

(* the part of Setup that hands out a session *)
Lemma own_setup_finish st c id clean :
  Own st -> alookup N.eqb c (st_sess st) = None -> alookup N.eqb c (st_cid st) <> None ->
  Own (snd (setup_finish st c id clean)).
Proof.
  intros O NS HC.
  assert (NoAct : forall k s, get_session st k = Some s -> s_act s <> Some c).
  { intros k s G A. rewrite (o_act _ O k s c G A) in NS. discriminate. }
  assert (Keep : forall c1 k, c1 <> c -> alookup N.eqb c1 (st_sess st) = Some k ->
                 forall K, alookup N.eqb c1 (aset N.eqb c K (st_sess st)) = Some k).
  { intros c1 k Hne H K. rewrite (alookup_aset N.eqb N.eqb_eq). destruct (c1 =? c) eqn:E; [apply N.eqb_eq in E; contradiction|exact H]. }
  unfold setup_finish. destruct clean; [|destruct (alookup bytes_eqb id (st_stored st)) as [s0|] eqn:L]; cbn [snd];
    constructor; cbn [st_sess st_cid st_pending]; try (intros p Hp; discriminate).
  - intros k s' c1 G A. destruct k as [x|i]; cbn [get_session st_temps st_stored] in G.
    + rewrite (alookup_aset N.eqb N.eqb_eq) in G. destruct (x =? c) eqn:E.
      * apply N.eqb_eq in E; subst x. injection G as <-. cbn in A. injection A as <-.
        rewrite (alookup_aset N.eqb N.eqb_eq), N.eqb_refl. reflexivity.
      * assert (Hne : c1 <> c) by (intros ->; exact (NoAct (KTemp x) s' G A)).
        apply Keep; [exact Hne|]. exact (o_act _ O (KTemp x) s' c1 G A).
    + rewrite (alookup_aremove bytes_eqb bytes_eqb_eq) in G. destruct (bytes_eqb i id); [discriminate|].
      assert (Hne : c1 <> c) by (intros ->; exact (NoAct (KStored i) s' G A)).
      apply Keep; [exact Hne|]. exact (o_act _ O (KStored i) s' c1 G A).
  - intros x Hx. rewrite (alookup_aset N.eqb N.eqb_eq) in Hx. destruct (x =? c) eqn:E; [apply N.eqb_eq in E; subst; exact HC|exact (o_cid _ O x Hx)].
  - intros x y Hx. rewrite (alookup_aset N.eqb N.eqb_eq) in Hx. destruct (x =? c) eqn:E; [apply N.eqb_eq in E; injection Hx as <-; auto|exact (o_shape _ O x y Hx)].
  - intros k s' c1 G A. destruct k as [x|i]; cbn [get_session st_temps st_stored] in G.
    + assert (Hne : c1 <> c) by (intros ->; exact (NoAct (KTemp x) s' G A)).
      apply Keep; [exact Hne|]. exact (o_act _ O (KTemp x) s' c1 G A).
    + rewrite (alookup_aset bytes_eqb bytes_eqb_eq) in G. destruct (bytes_eqb i id) eqn:E.
      * apply bytes_eqb_eq in E; subst i. injection G as <-. cbn in A. injection A as <-.
        rewrite (alookup_aset N.eqb N.eqb_eq), N.eqb_refl. reflexivity.
      * assert (Hne : c1 <> c) by (intros ->; exact (NoAct (KStored i) s' G A)).
        apply Keep; [exact Hne|]. exact (o_act _ O (KStored i) s' c1 G A).
  - intros x Hx. rewrite (alookup_aset N.eqb N.eqb_eq) in Hx. destruct (x =? c) eqn:E; [apply N.eqb_eq in E; subst; exact HC|exact (o_cid _ O x Hx)].
  - intros x y Hx. rewrite (alookup_aset N.eqb N.eqb_eq) in Hx. destruct (x =? c) eqn:E; [discriminate|exact (o_shape _ O x y Hx)].
  - intros k s' c1 G A. destruct k as [x|i]; cbn [get_session st_temps st_stored] in G.
    + assert (Hne : c1 <> c) by (intros ->; exact (NoAct (KTemp x) s' G A)).
      apply Keep; [exact Hne|]. exact (o_act _ O (KTemp x) s' c1 G A).
    + rewrite (alookup_aset bytes_eqb bytes_eqb_eq) in G. destruct (bytes_eqb i id) eqn:E.
      * apply bytes_eqb_eq in E; subst i. injection G as <-. cbn in A. injection A as <-.
        rewrite (alookup_aset N.eqb N.eqb_eq), N.eqb_refl. reflexivity.
      * assert (Hne : c1 <> c) by (intros ->; exact (NoAct (KStored i) s' G A)).
        apply Keep; [exact Hne|]. exact (o_act _ O (KStored i) s' c1 G A).
  - intros x Hx. rewrite (alookup_aset N.eqb N.eqb_eq) in Hx. destruct (x =? c) eqn:E; [apply N.eqb_eq in E; subst; exact HC|exact (o_cid _ O x Hx)].
  - intros x y Hx. rewrite (alookup_aset N.eqb N.eqb_eq) in Hx. destruct (x =? c) eqn:E; [discriminate|exact (o_shape _ O x y Hx)].
Qed.

Lemma own_step st o : Own st -> Own (snd (step st o)).
Proof.
  intros O.
  destruct o as [c id clean|t|c|c subs b|c fs|c m got|c t|c|]; cbn [step].
  - (* Setup *)
    unfold setup. destruct (st_pending st) eqn:P; [exact O|].
    destruct (alookup N.eqb c (st_cid st)) eqn:H; [exact O|].
    cbn [st_closing].
    assert (NS : alookup N.eqb c (st_sess st) = None).
    { destruct (alookup N.eqb c (st_sess st)) eqn:E; [|reflexivity]. exfalso. apply (o_cid _ O c); [congruence|exact H]. }
    (* recording the client id *)
    assert (O1 : forall cl, Own (St (st_cap st) (st_stored st) (st_temps st) (st_active st) (st_retained st) cl
                                 (st_sess st) (aset N.eqb c id (st_cid st)) (st_dying st) (st_closed st) (st_term st) None)).
    { intros cl. constructor; cbn [st_sess st_cid st_pending].
      - intros k s c1 G A. apply (o_act _ O k s c1); [destruct k; exact G|exact A].
      - intros x Hx. rewrite (alookup_aset N.eqb N.eqb_eq). destruct (x =? c); [discriminate|exact (o_cid _ O x Hx)].
      - exact (o_shape _ O).
      - intros p Hp; discriminate. }
    assert (HC : forall cl, alookup N.eqb c (st_cid (St (st_cap st) (st_stored st) (st_temps st) (st_active st) (st_retained st) cl
                                 (st_sess st) (aset N.eqb c id (st_cid st)) (st_dying st) (st_closed st) (st_term st) None)) <> None).
    { intros cl. cbn [st_cid]. rewrite (alookup_aset N.eqb N.eqb_eq), N.eqb_refl. discriminate. }
    destruct (st_closing st); [cbn [snd]; apply O1|].
    destruct (is_nil id).
    + (* a fresh temporary session *)
      cbn [snd]. specialize (O1 false).
      assert (NoAct : forall k s, get_session st k = Some s -> s_act s <> Some c).
      { intros k s G A. rewrite (o_act _ O k s c G A) in NS. discriminate. }
      constructor; cbn [st_sess st_cid st_pending]; try (intros p Hp; discriminate).
      * intros k s' c1 G A. destruct k as [x|i]; cbn [get_session st_temps st_stored] in G.
        -- rewrite (alookup_aset N.eqb N.eqb_eq) in G. destruct (x =? c) eqn:E.
           ++ apply N.eqb_eq in E; subst x. injection G as <-. cbn in A. injection A as <-.
              rewrite (alookup_aset N.eqb N.eqb_eq), N.eqb_refl. reflexivity.
           ++ assert (Hne : c1 <> c) by (intros ->; exact (NoAct (KTemp x) s' G A)).
              rewrite (alookup_aset N.eqb N.eqb_eq), (proj2 (N.eqb_neq c1 c) Hne). exact (o_act _ O (KTemp x) s' c1 G A).
        -- assert (Hne : c1 <> c) by (intros ->; exact (NoAct (KStored i) s' G A)).
           rewrite (alookup_aset N.eqb N.eqb_eq), (proj2 (N.eqb_neq c1 c) Hne). exact (o_act _ O (KStored i) s' c1 G A).
      * intros x Hx. rewrite (alookup_aset N.eqb N.eqb_eq) in Hx. rewrite (alookup_aset N.eqb N.eqb_eq).
        destruct (x =? c); [discriminate|exact (o_cid _ O x Hx)].
      * intros x y Hx. rewrite (alookup_aset N.eqb N.eqb_eq) in Hx.
        destruct (x =? c) eqn:E; [apply N.eqb_eq in E; injection Hx as <-; auto|exact (o_shape _ O x y Hx)].
    + match goal with |- context [existing_session ?s id] => set (st1 := s) end.
      destruct (existing_session st1 id) as [[a b0 c0 [c1|]]|].
      * cbn [snd]. unfold set_pending. subst st1. specialize (O1 false).
        constructor; cbn [st_sess st_cid st_pending].
        -- intros k s c2 G A. apply (o_act _ O k s c2); [destruct k; exact G|exact A].
        -- exact (o_cid _ O1).
        -- exact (o_shape _ O).
        -- intros p Hp. injection Hp as <-. cbn [p_conn]. split; [exact NS|exact (HC false)].
      * apply own_setup_finish; [apply O1|exact NS|apply HC].
      * apply own_setup_finish; [apply O1|exact NS|apply HC].
  - unfold setup_end. destruct (st_pending st) as [p|] eqn:P; [|exact O].
    destruct (o_pend _ O p P) as [NS HC].
    destruct t.
    + cbn [snd]. unfold set_pending. constructor; cbn [st_sess st_cid st_pending]; try (intros p' Hp; discriminate).
      * intros k s c1 G A. apply (o_act _ O k s c1); [destruct k; exact G|exact A].
      * exact (o_cid _ O).
      * exact (o_shape _ O).
    + destruct (mem_n (p_old p) (st_closed st)); [|exact O]. apply own_setup_finish; assumption.
  - unfold mark_closed. destruct (mem_n c (st_term st)); [|exact O]. cbn [snd].
    apply (own_frame st _ O); try reflexivity. intros k s' G. exists s'. split; [destruct k; exact G|reflexivity].
  - unfold subscribe. destruct (session_of st c) as [[k s]|] eqn:S; [|exact O]. destruct (negb _); [exact O|]. cbn [snd].
    apply (own_put st k s _ O (session_of_get _ _ _ _ S)). reflexivity.
  - unfold unsubscribe. destruct (session_of st c) as [[k s]|] eqn:S; [|exact O]. cbn [snd].
    apply (own_put st k s _ O (session_of_get _ _ _ _ S)). reflexivity.
  - destruct (pub_stuck st c m) eqn:Hnb; [rewrite publish_unfold, Hnb; exact O|].
    apply (own_frame st _ O); try (rewrite publish_unfold, Hnb; reflexivity).
    intros k s' G. rewrite (get_session_published st c m got k Hnb) in G.
    destruct (get_session st k) as [s|]; [|discriminate]. cbn in G. injection G as <-. exists s. split; [reflexivity|].
    symmetry. apply deliver_act'.
  - unfold dequeue. destruct (session_of st c) as [[k s]|] eqn:S; [|exact O].
    destruct t; [destruct (s_tq s)|destruct (s_sq s)]; try exact O; cbn [snd];
      apply (own_put st k s _ O (session_of_get _ _ _ _ S)); reflexivity.
  - (* Terminate *)
    unfold terminate. destruct (alookup N.eqb c (st_cid st)) as [id|]; [|exact O].
    destruct (mem_n c (st_term st)) eqn:T; [exact O|]. cbn [orb].
    destruct (match st_pending st with Some p => p_conn p =? c | None => false end) eqn:PC; [exact O|]. cbn [snd].
    constructor; cbn [st_sess st_cid st_pending].
    + intros k s' c1 G A. rewrite (alookup_aremove N.eqb N.eqb_eq).
      destruct k as [x|i]; cbn [get_session st_temps st_stored] in G.
      * rewrite (alookup_aremove N.eqb N.eqb_eq) in G. destruct (x =? c) eqn:E; [discriminate|].
        pose proof (o_act _ O (KTemp x) s' c1 G A) as S1.
        destruct (c1 =? c) eqn:E1; [|exact S1]. apply N.eqb_eq in E1; subst c1.
        pose proof (o_shape _ O c x S1) as ->. rewrite N.eqb_refl in E; discriminate.
      * (* a stored session that still names a connection afterwards is an untouched one, and it is not c's *)
        assert (Old : alookup bytes_eqb i (st_stored st) = Some s' /\
                      (alookup N.eqb c (st_sess st) = Some (KStored i) -> s_act s' <> Some c)).
        { destruct (alookup N.eqb c (st_sess st)) as [[y|j]|] eqn:Sc; try (split; [exact G|intros X; discriminate X]).
          destruct (alookup bytes_eqb j (st_stored st)) as [s0|] eqn:L.
          - destruct (option_eqb N.eqb (s_act s0) (Some c)) eqn:Ea.
            + rewrite (alookup_aset bytes_eqb bytes_eqb_eq) in G. destruct (bytes_eqb i j) eqn:E.
              * injection G as <-. cbn in A. discriminate.
              * split; [exact G|]. intros X; injection X as <-. rewrite bytes_eqb_refl in E; discriminate.
            + split; [exact G|]. intros X; injection X as <-. rewrite L in G; injection G as <-.
              intros Hc. rewrite Hc in Ea. cbn in Ea. rewrite N.eqb_refl in Ea. discriminate.
          - split; [exact G|]. intros X; injection X as <-. congruence. }
        destruct Old as [G0 Hn]. pose proof (o_act _ O (KStored i) s' c1 G0 A) as S1.
        destruct (c1 =? c) eqn:E1; [|exact S1]. apply N.eqb_eq in E1; subst c1. exfalso. exact (Hn S1 A).
    + intros x Hx. rewrite (alookup_aremove N.eqb N.eqb_eq) in Hx. destruct (x =? c); [exfalso; apply Hx; reflexivity|exact (o_cid _ O x Hx)].
    + intros x y Hx. rewrite (alookup_aremove N.eqb N.eqb_eq) in Hx. destruct (x =? c); [discriminate|exact (o_shape _ O x y Hx)].
    + intros p Hp. destruct (o_pend _ O p Hp) as [A B]. split; [|exact B].
      rewrite (alookup_aremove N.eqb N.eqb_eq). destruct (p_conn p =? c); [reflexivity|exact A].
  - unfold close_backend. cbn [snd]. apply (own_frame st _ O); try reflexivity.
    intros k s' G. exists s'. split; [destruct k; exact G|reflexivity].
Qed.

Lemma own_run ops : forall st, Own st -> Own (run_state st ops).
Proof.
  unfold run_state. induction ops as [|o ops IH]; intros st O; cbn [run snd]; [exact O|].
  pose proof (own_step st o O) as O1. destruct (step st o) as [r st1]; cbn [snd] in O1.
  specialize (IH st1 O1). destruct (run st1 ops); exact IH.
Qed.
