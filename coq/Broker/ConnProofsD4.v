(* ConnProofsD4.v — C07 progress, as a statement about the model state at quiescence:
   for every PUBREL received on the live connection and not yet answered with PUBCOMP
   there is a registered, not yet invoked acknowledgement closure for PUBCOMP id of
   this connection: only the backend's acknowledgement is outstanding.  Derived from
   the invariants of ConnProofsB7.v (the counting relation pa_rel behind
   c07_pubrel_answered). *)
From Coq Require Import List NArith Bool Lia Arith.
From GM Require Import Base.Lts Codec.Packet Session.Ids Session.Store
  Broker.Conn Broker.ConnSpec Broker.ConnSpec2 Broker.ConnSpec5 Broker.ConnBase
  Broker.ConnProofsB1 Broker.ConnProofsB3 Broker.ConnProofsB4 Broker.ConnProofsB7.
From GM Require Broker.ConnProofsD0 Broker.ConnProofsD2.
Import ListNotations.
Open Scope N_scope.

(* ------------------------------- the scanner state reached along a trace *)

Section ScanRun.
  Context {S : Type}.
  Variable f : S -> event -> option S.
  Fixpoint scan_run (t : S) (es : list event) : option S :=
    match es with
    | [] => Some t
    | e :: es' => match f t e with Some t' => scan_run t' es' | None => None end
    end.

  Variable I : bc -> Prop.
  Variable R : bc -> S -> Prop.
  Hypothesis HIstep : forall s e s', I s -> step s e = Some s' -> I s'.
  Hypothesis Hstep : forall s t e s', I s -> R s t -> step s e = Some s' -> exists t', f t e = Some t' /\ R s' t'.

  Lemma scan_run_rel : forall es s t s', I s -> R s t -> Lts.run step s es = Some s' ->
    exists t', scan_run t es = Some t' /\ I s' /\ R s' t'.
  Proof.
    induction es as [|e es IH]; intros s t s' Hi Hr Hrun; cbn [Lts.run scan_run] in *.
    - injection Hrun as <-. exists t. repeat split; assumption.
    - destruct (step s e) as [s1|] eqn:E; [|discriminate Hrun].
      destruct (Hstep s t e s1 Hi Hr E) as (t1 & Ef & Hr1). rewrite Ef.
      eapply IH; [eapply HIstep; eassumption|exact Hr1|exact Hrun].
  Qed.
End ScanRun.

(* the pending list of the c07_pubrel_answered scanner is pending_pubrels *)
Lemma pa_pend_step w e w' : pa_step w e = Some w' -> pa_pend w' = pend_step (pa_pend w) e.
Proof.
  intros H. destruct e; cbn [pa_step] in H; try (injection H as <-; reflexivity).
  - cbn [pend_step]. destruct p; try (injection H as <-; reflexivity).
    destruct ok; injection H as <-; reflexivity.
  - destruct k; [|injection H as <-; reflexivity].
    destruct (aget (pa_last w) g) as [[]|]; injection H as <-; reflexivity.
  - destruct (forallb _ _); [injection H as <-; reflexivity|discriminate H].
Qed.

Lemma pa_pend_run es : forall w w', scan_run pa_step w es = Some w' -> pa_pend w' = fold_left pend_step es (pa_pend w).
Proof.
  induction es as [|e es IH]; intros w w' H; cbn [scan_run fold_left] in *.
  - injection H as <-. reflexivity.
  - destruct (pa_step w e) as [w1|] eqn:E; [|discriminate H].
    rewrite (IH _ _ H), (pa_pend_step _ _ _ E). reflexivity.
Qed.

(* in every reachable state the counting relation holds for the pending list of the trace *)
Lemma pa_rel_reachable es s : bc_run es = Some s ->
  exists w, pa_pend w = pending_pubrels es /\ inv_c07 s /\ pa_rel s w.
Proof.
  intros Hrun.
  assert (H0 : pa_rel bc_init (PaSt [] [] [])).
  { split; [exact I|]. split; [intros c id []|]. split; [discriminate|].
    intros _ Hnd. exfalso. apply Hnd. right. right. left. reflexivity. }
  destruct (scan_run_rel pa_step inv_c07 pa_rel inv_c07_step pa_hstep es bc_init _ s inv_c07_init H0 Hrun)
    as (w & Hw & Hi & Hr).
  exists w. split; [|split; assumption]. rewrite (pa_pend_run _ _ _ Hw). reflexivity.
Qed.

(* a closure of the current connection that stands for PUBCOMP id and has not been invoked *)
Definition awaits_ack (s : bc) (id : N) (c : closure) : Prop :=
  In c (clos s) /\ c_conn c = conn_no s /\ c_kind c = KPubcomp id /\ c_stat c = CReg.

Theorem pubrel_waits_for_ack_state : forall es s, bc_run es = Some s -> quiescent s = true ->
  forall id, In id (pending_pubrels es) -> exists c, awaits_ack s id c.
Proof.
  intros es s Hrun Hq id Hid.
  destruct (pa_rel_reachable es s Hrun) as (w & Hw & Hi & (_ & _ & (_ & HN))).
  destruct (quiescent_inv _ Hq) as (Epp & Eq & Hnd & Hidle).
  rewrite <- Hw in Hid. apply in_cnt_pos in Hid.
  assert (Hp : preloop (pp s) = false) by (rewrite Epp; reflexivity).
  specialize (HN Hp Hnd id). unfold bound in HN. rewrite Epp, Eq in HN. cbn [proc_n cntb filter length] in HN.
  destruct (cntb_pos (clo_pend (conn_no s) id) (clos s) ltac:(unfold cntb in *; lia)) as (c & Hc & Fc).
  unfold clo_pend in Fc. apply andb_true_iff in Fc. destruct Fc as [Fc F3]. apply andb_true_iff in Fc. destruct Fc as [F1 F2].
  destruct (c_kind c) eqn:Ek; try discriminate F2. apply N.eqb_eq in F2. subst id0. apply N.eqb_eq in F1.
  specialize (Hidle _ Hc). unfold clo_idle in Hidle.
  exists c. split; [exact Hc|split; [exact F1|split; [exact Ek|]]].
  destruct (c_stat c); try discriminate F3; try discriminate Hidle; reflexivity.
Qed.

(* the same over traces only: the harness' quiescence marker is accepted exactly in
   quiescent states *)
Theorem pubrel_waits_for_ack : forall es s, bc_run (es ++ [EQuiescent]) = Some s ->
  forall id, In id (pending_pubrels es) -> exists c, awaits_ack s id c.
Proof.
  intros es s Hrun id Hid. unfold bc_run in Hrun.
  destruct (Lts.run_prefix _ _ step _ _ _ _ Hrun) as (s1 & H1 & H2).
  cbn [Lts.run step] in H2. unfold guard in H2. destruct (quiescent s1) eqn:Hq; [|discriminate H2].
  injection H2 as <-. eapply pubrel_waits_for_ack_state; eassumption.
Qed.

(* ------------------------------------------------------------------------
   ... and once the backend does acknowledge, nothing else is needed: from the
   quiescent state the acknowledgement (on any goroutine g), the release of the stored
   PUBLISH, the closure's return and the acker's PUBCOMP are accepted in a row. *)

Lemma clo_find_set_same l k c st : clo_find l k = Some c ->
  clo_find (clo_set l k st) k = Some (Clo (c_k c) (c_conn c) (c_kind c) st).
Proof.
  induction l as [|x l IH]; cbn [clo_find clo_set]; [discriminate|].
  destruct (c_k x =? k) eqn:E.
  - intros H. injection H as <-. cbn [clo_find c_k]. rewrite E. reflexivity.
  - intros H. cbn [clo_find]. rewrite E. apply IH, H.
Qed.

Lemma clo_set_set l k a b : clo_set (clo_set l k a) k b = clo_set l k b.
Proof.
  induction l as [|x l IH]; cbn [clo_set]; [reflexivity|].
  destruct (c_k x =? k) eqn:E; cbn [clo_set c_k]; rewrite E; [reflexivity|]. f_equal. exact IH.
Qed.

Lemma clo_del_find_set l k c g id :
  (forall x, In x l -> clo_idle x = true) -> clo_find l k = Some c -> c_kind c = KPubcomp id ->
  clo_del_find (clo_set l k (CDel g)) g id = Some (Clo (c_k c) (c_conn c) (c_kind c) (CDel g)).
Proof.
  induction l as [|x l IH]; cbn [clo_find clo_set]; [discriminate|]. intros Hidle Hf Hk.
  destruct (c_k x =? k) eqn:E.
  - injection Hf as <-. cbn [clo_del_find c_stat c_kind]. rewrite Hk, !N.eqb_refl. reflexivity.
  - cbn [clo_del_find]. pose proof (Hidle x (or_introl eq_refl)) as Hx. unfold clo_idle in Hx.
    assert (Hr : clo_del_find (clo_set l k (CDel g)) g id = Some (Clo (c_k c) (c_conn c) (c_kind c) (CDel g))).
    { apply IH; [intros y Hy; apply Hidle; right; exact Hy|exact Hf|exact Hk]. }
    destruct (c_stat x); try discriminate Hx; exact Hr.
Qed.

Lemma idle_set_done l k : (forall x, In x l -> clo_idle x = true) -> forallb clo_idle (clo_set l k CDone) = true.
Proof.
  induction l as [|x l IH]; intros H; cbn [clo_set forallb]; [reflexivity|].
  destruct (c_k x =? k); cbn [forallb].
  - apply andb_true_iff. split; [reflexivity|]. apply forallb_forall. intros y Hy. apply H. right. exact Hy.
  - rewrite (H x (or_introl eq_refl)). apply IH. intros y Hy. apply H. right. exact Hy.
Qed.

(* the four events, with explicit successor states *)
Section AckRun.
  Variables (s : bc) (c : closure) (id g : N).
  Hypothesis Hq : quiescent s = true.
  Hypothesis Hnd : NoDup (ckeys (clos s)).
  Hypothesis Hc : awaits_ack s id c.

  Let k := c_k c.
  Let s1 := set_clos s (clo_set (clos s) k (CDel g)).
  Let c1 := Clo (c_k c) (c_conn c) (c_kind c) (CDel g).
  Let s2 := set_clos (clo_enqueue (sess_delete s1 Incoming id) c1) (clo_set (clos s1) k (CRun g)).
  Let s3 := set_clos s2 (clo_set (clos s2) k CDone).

  Lemma ack_facts : pp s = PLoop /\ ap s = AIdle /\ ackq s = [] /\ lp s = LNone /\
                    (forall x, In x (clos s) -> clo_idle x = true) /\ clo_find (clos s) k = Some c.
  Proof.
    destruct (quiescent_inv _ Hq) as (Epp & Eq & _ & Hidle).
    pose proof Hq as H. unfold quiescent in H.
    apply andb_true_iff in H. destruct H as [H Q8]. apply andb_true_iff in H. destruct H as [H Q7].
    apply andb_true_iff in H. destruct H as [H Q6]. apply andb_true_iff in H. destruct H as [H Q5].
    destruct Hc as (Hin & _).
    split; [exact Epp|]. split; [destruct (ap s); try discriminate Q5; reflexivity|]. split; [exact Eq|].
    split; [destruct (lp s); try discriminate Q7; reflexivity|]. split; [exact Hidle|].
    apply clo_find_nodup; assumption.
  Qed.

  Lemma in_closure_idle_all g' : in_closure s g' = false.
  Proof.
    destruct ack_facts as (_ & _ & _ & _ & Hidle & _). unfold in_closure.
    destruct (existsb (clo_on g') (clos s)) eqn:E; [|reflexivity].
    apply existsb_exists in E. destruct E as (x & Hx & Ex). specialize (Hidle x Hx).
    unfold clo_idle in Hidle. unfold clo_on in Ex. destruct (c_stat x); discriminate.
  Qed.

  Lemma ack_step1 : step s (EAckCall k g) = Some s1.
  Proof.
    destruct ack_facts as (_ & _ & _ & _ & _ & Hf). destruct Hc as (_ & _ & Hk & Hst).
    cbn [step step_clo]. rewrite Hf, Hst, in_closure_idle_all, Hk. reflexivity.
  Qed.

  Lemma ack_step2 : step s1 (EDelete g Incoming id true) = Some s2.
  Proof.
    destruct ack_facts as (_ & _ & _ & Hl & Hidle & Hf). destruct Hc as (_ & _ & Hk & _).
    assert (Hd : clo_del_find (clos s1) g id = Some c1) by (apply clo_del_find_set; assumption).
    unfold step. assert (Ho : conn_open s1 = true) by (unfold conn_open, s1; sf; rewrite Hl; reflexivity).
    rewrite Ho. cbn [negb ev_g]. cbn [step_clo]. rewrite Hd. reflexivity.
  Qed.

  Lemma ack_clos2 : clos s2 = clo_set (clos s) k (CRun g).
  Proof. unfold s2, s1, clo_enqueue. destruct (clo_live _ c1); sf; apply clo_set_set. Qed.

  Lemma ack_step3 : step s2 (EAckRet k g) = Some s3.
  Proof.
    destruct ack_facts as (_ & _ & _ & _ & _ & Hf).
    cbn [step step_clo]. rewrite ack_clos2, (clo_find_set_same _ _ _ (CRun g) Hf). cbn [c_stat].
    unfold guard. rewrite N.eqb_refl. rewrite <- ack_clos2. reflexivity.
  Qed.

  Lemma ack_state3 :
    clos s3 = clo_set (clos s) k CDone /\ ackq s3 = [Pubcomp id] /\ ap s3 = AIdle /\ lp s3 = LNone /\
    gproc s3 = gproc s /\ gdeq s3 = gdeq s /\ gack s3 = gack s /\ gcl s3 = gcl s.
  Proof.
    destruct ack_facts as (_ & Hap & Hqe & Hl & _ & _). destruct Hc as (_ & Hcn & Hk & _).
    assert (Hlive : clo_live (sess_delete s1 Incoming id) c1 = true).
    { unfold clo_live, c1, s1. sf. cbn [c_conn]. rewrite Hcn, N.eqb_refl, Hl. reflexivity. }
    unfold s3. rewrite ack_clos2. unfold s2, clo_enqueue. rewrite Hlive. unfold s1, c1. sf. cbn [c_kind]. rewrite Hk.
    cbn [ack_packet]. rewrite Hqe, clo_set_set. repeat split; assumption.
  Qed.

  (* the acker (ga: its goroutine, or one new to the connection) sends the PUBCOMP *)
  Lemma ack_step4 ga :
    ConnProofsD2.roles_ok s -> ConnProofsD2.cl_ok s ->
    (gack s = Some ga \/ (gack s = None /\ role_free s ga = true)) ->
    exists s4, step s3 (ETx ga (Pubcomp id) true true) = Some s4 /\ ackq s4 = [].
  Proof.
    intros Hro Hcl Hga.
    destruct ack_state3 as (Hcl3 & Hq3 & Hap3 & Hl3 & G1 & G2 & G3 & G4).
    destruct ack_facts as (_ & _ & _ & Hl & Hidle & _).
    assert (Hic : in_closure s3 ga = false).
    { unfold in_closure. rewrite Hcl3. pose proof (idle_set_done _ k Hidle) as Hall.
      destruct (existsb (clo_on ga) (clo_set (clos s) k CDone)) eqn:E; [|reflexivity].
      apply existsb_exists in E. destruct E as (x & Hx & Ex). rewrite forallb_forall in Hall. specialize (Hall x Hx).
      unfold clo_idle in Hall. unfold clo_on in Ex. destruct (c_stat x); discriminate. }
    assert (Ho : conn_open s3 = true) by (unfold conn_open; rewrite Hl3; reflexivity).
    assert (Htake : ackq_take (ackq s3) (Pubcomp id) = Some []).
    { rewrite Hq3. cbn [ackq_take packet_eqb]. rewrite N.eqb_refl. reflexivity. }
    unfold step. rewrite Ho. cbn [negb ev_g step_clo first_some]. rewrite Hic, G1, G2, G3, G4.
    destruct Hga as [Hga|(Hga & Hf)].
    - destruct (Hro ga) as (H1 & H2 & _).
      assert (R1 : is_role (gproc s) ga = false).
      { apply ConnProofsD0.is_role_false_of. intros E. destruct (H1 E) as (_ & Hx & _). contradiction. }
      assert (R2 : is_role (gdeq s) ga = false).
      { apply ConnProofsD0.is_role_false_of. intros E. destruct (H2 E) as (Hx & _). contradiction. }
      rewrite R1, R2, Hga. cbn [is_role]. rewrite N.eqb_refl.
      unfold step_ack. rewrite Hap3, Htake. eexists. split; [reflexivity|]. reflexivity.
    - destruct (ConnProofsD0.role_free_inv _ _ Hf) as (R1 & R2 & R3 & R4).
      rewrite R1, R2, R3, R4. unfold bind, learn_ack, guard. rewrite G3, Hga.
      assert (Hf3 : role_free s3 ga = true) by (unfold role_free; rewrite G1, G2, G3, G4; exact Hf).
      rewrite Hf3. unfold step_ack.
      change (ap (set_roles s3 (gproc s3) (gdeq s3) (Some ga) (gcl s3))) with (ap s3).
      change (ackq (set_roles s3 (gproc s3) (gdeq s3) (Some ga) (gcl s3))) with (ackq s3).
      rewrite Hap3, Htake. eexists. split; [reflexivity|]. reflexivity.
  Qed.
End AckRun.

(* the acker's goroutine if it has one, else a number new to the connection *)
Definition ack_g (s : bc) : N := match gack s with Some g => g | None => ConnProofsD2.fresh_g s end.

Theorem ack_leads_to_pubcomp : forall es s, bc_run es = Some s -> quiescent s = true ->
  forall id c, awaits_ack s id c -> forall g,
  let tail := [EAckCall (c_k c) g; EDelete g Incoming id true; EAckRet (c_k c) g; ETx (ack_g s) (Pubcomp id) true true] in
  (exists s', Lts.run step s tail = Some s' /\ ackq s' = []) /\
  pending_pubrels (es ++ tail) = nremove1 id (pending_pubrels es).
Proof.
  intros es s Hrun Hq id c Hc g tail. split.
  - destruct (pa_rel_reachable es s Hrun) as (w & _ & (Hnd & _) & _).
    destruct (ConnProofsD2.inv_reachable es s Hrun) as (Hro & Hcl & _).
    assert (Hga : gack s = Some (ack_g s) \/ (gack s = None /\ role_free s (ack_g s) = true)).
    { unfold ack_g. destruct (gack s); [left; reflexivity|right; split; [reflexivity|apply ConnProofsD2.fresh_role_free]]. }
    destruct (ack_step4 s c id g Hq Hnd Hc (ack_g s) Hro Hcl Hga) as (s4 & H4 & Hq4).
    exists s4. split; [|exact Hq4]. unfold tail. cbn [Lts.run].
    rewrite (ack_step1 s c id g Hq Hnd Hc), (ack_step2 s c id g Hq Hnd Hc), (ack_step3 s c id g Hq Hnd Hc), H4.
    reflexivity.
  - unfold pending_pubrels, tail. rewrite fold_left_app. reflexivity.
Qed.
