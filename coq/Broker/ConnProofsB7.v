(* ConnProofsB7.v — C07_pubrel_answered: at quiescence every PUBREL received on the
   live connection has been answered with PUBCOMP, unless the backend still withholds
   the acknowledgement of the publish it triggered.  A counting argument: every pending
   PUBREL is accounted for by the processor's program counter, by a closure that will
   still queue the PUBCOMP, or by a PUBCOMP in the ack queue — as long as nothing failed. *)
From Coq Require Import List NArith Bool Lia Arith.
From GM Require Import Base.Lts Codec.Packet Session.Ids Session.Store Session.StoreProofs
  Broker.Conn Broker.ConnSpec Broker.ConnBase Broker.ConnProofsB1 Broker.ConnProofsB2 Broker.ConnProofsB3
  Broker.ConnProofsB4.
Import ListNotations.
Open Scope N_scope.

(* ------------------------------------------------------------------ counting *)

Definition cnt (x : N) (l : list N) : nat := length (filter (N.eqb x) l).

Lemma cnt_cons x y l : cnt x (y :: l) = ((if N.eqb x y then 1 else 0) + cnt x l)%nat.
Proof. unfold cnt. cbn [filter]. destruct (x =? y); reflexivity. Qed.

Lemma cnt_nremove1_same x l : cnt x (nremove1 x l) = pred (cnt x l).
Proof.
  induction l as [|y l IH]; [reflexivity|]. cbn [nremove1].
  destruct (y =? x) eqn:E.
  - rewrite cnt_cons, N.eqb_sym, E. reflexivity.
  - rewrite !cnt_cons, N.eqb_sym, E, IH. reflexivity.
Qed.

Lemma cnt_nremove1_other x k l : x <> k -> cnt x (nremove1 k l) = cnt x l.
Proof.
  intros Hne. induction l as [|y l IH]; [reflexivity|]. cbn [nremove1].
  destruct (y =? k) eqn:E.
  - apply N.eqb_eq in E. subst y. rewrite cnt_cons. destruct (x =? k) eqn:E'; [apply N.eqb_eq in E'; contradiction|reflexivity].
  - rewrite !cnt_cons, IH. reflexivity.
Qed.

Lemma cnt_pos_in x l : (0 < cnt x l)%nat -> In x l.
Proof.
  induction l as [|y l IH]; [cbn; lia|]. rewrite cnt_cons. destruct (x =? y) eqn:E.
  - apply N.eqb_eq in E. subst. intros _. left; reflexivity.
  - intros H. right. apply IH. lia.
Qed.

Lemma in_cnt_pos x l : In x l -> (0 < cnt x l)%nat.
Proof.
  induction l as [|y l IH]; [intros []|]. rewrite cnt_cons. intros [->|H].
  - rewrite N.eqb_refl. lia.
  - specialize (IH H). lia.
Qed.

(* generic: number of elements satisfying a predicate *)
Definition cntb {A} (f : A -> bool) (l : list A) : nat := length (filter f l).

Lemma cntb_app {A} (f : A -> bool) l1 l2 : cntb f (l1 ++ l2) = (cntb f l1 + cntb f l2)%nat.
Proof. unfold cntb. rewrite filter_app, app_length. reflexivity. Qed.

Lemma cntb_cons {A} (f : A -> bool) x l : cntb f (x :: l) = ((if f x then 1 else 0) + cntb f l)%nat.
Proof. unfold cntb. cbn [filter]. destruct (f x); reflexivity. Qed.

Lemma cntb_pos {A} (f : A -> bool) l : (0 < cntb f l)%nat -> exists x, In x l /\ f x = true.
Proof.
  induction l as [|y l IH]; [cbn; lia|]. rewrite cntb_cons. destruct (f y) eqn:E.
  - intros _. exists y. split; [left; reflexivity|exact E].
  - intros H. destruct (IH ltac:(lia)) as (x & Hx & Fx). exists x. split; [right; exact Hx|exact Fx].
Qed.

(* the PUBCOMPs in the ack queue *)
Definition is_pubcomp (id : N) (p : packet) : bool := match p with Pubcomp i => i =? id | _ => false end.

Lemma ackq_take_cnt q p q' id : ackq_take q p = Some q' ->
  cntb (is_pubcomp id) q = ((if is_pubcomp id p then 1 else 0) + cntb (is_pubcomp id) q')%nat.
Proof.
  revert q'. induction q as [|x q IH]; intros q' H; cbn [ackq_take] in H; [discriminate H|].
  destruct (packet_eqb x p) eqn:E.
  - injection H as <-. apply packet_eqb_eq in E. subst x. apply cntb_cons.
  - destruct (ackq_take q p) as [r|] eqn:Er; [|discriminate H]. injection H as <-.
    rewrite !cntb_cons, (IH r eq_refl). lia.
Qed.

(* the closures of connection n that will still queue PUBCOMP id *)
Definition clo_pend (n id : N) (c : closure) : bool :=
  (c_conn c =? n) &&
  match c_kind c with KPubcomp i => i =? id | _ => false end &&
  match c_stat c with CReg | CDel _ => true | _ => false end.

Lemma cntb_clo_set f l c st : NoDup (ckeys l) -> In c l ->
  (cntb f (clo_set l (c_k c) st) + (if f c then 1 else 0) =
   cntb f l + (if f (Clo (c_k c) (c_conn c) (c_kind c) st) then 1 else 0))%nat.
Proof.
  induction l as [|x l IH]; cbn [clo_set In ckeys map]; [tauto|].
  intros Hnd Hin. inversion Hnd as [|? ? Hx Hnd']; subst.
  destruct (c_k x =? c_k c) eqn:E.
  - apply N.eqb_eq in E. assert (x = c).
    { destruct Hin as [->|Hin]; [reflexivity|]. exfalso. apply Hx. rewrite E. apply in_map. exact Hin. }
    subst x. rewrite !cntb_cons. lia.
  - apply N.eqb_neq in E. destruct Hin as [->|Hin]; [congruence|].
    rewrite !cntb_cons. specialize (IH Hnd' Hin). lia.
Qed.

(* ------------------------------------------------------------- the relation *)

Definition proc_n (x : ppc) (id : N) : nat :=
  match x with
  | PRelLookup i | PRelPub i _ | PCompTx i => if N.eqb i id then 1 else 0
  | _ => 0
  end%nat.

Definition bound (s : bc) (id : N) : nat :=
  (proc_n (pp s) id + cntb (clo_pend (conn_no s) id) (clos s) + cntb (is_pubcomp id) (ackq s))%nat.

Definition preloop (x : ppc) : bool :=
  match x with
  | PFirst | PAuth _ | PDeny | PSetup _ | PConnack _ _ | PAll | PResend _ | PRestore => true
  | _ => false
  end.
Definition pp_dead (x : ppc) : bool := match x with PDieLog _ | PDieClose | PDone => true | _ => false end.
Definition ap_dead (x : apc) : bool := match x with ADieLog | ADieClose | ADone => true | _ => false end.
Definition st_dying (st : cstat) : bool := match st with CDieLog _ | CDieClose _ => true | _ => false end.

(* something failed on this connection (or it is closing): the obligation is void *)
Definition doomed (s : bc) : Prop :=
  lp s <> LNone \/ dying s = true \/ pp_dead (pp s) = true \/ ap_dead (ap s) = true \/
  exists c, In c (clos s) /\ c_conn c = conn_no s /\ st_dying (c_stat c) = true.

Definition pa_wait_ok (l : list closure) (wait : list (N * N)) : Prop :=
  forall c id, In c l -> c_kind c = KPubcomp id -> c_stat c = CReg -> aget wait (c_k c) = Some id.

Definition pa_count (s : bc) (pend : list N) : Prop :=
  (preloop (pp s) = true -> pend = []) /\
  (preloop (pp s) = false -> ~ doomed s -> forall id, (cnt id pend <= bound s id)%nat).

Definition pa_inv (s : bc) (w : pa_st) : Prop :=
  pa_wait_ok (clos s) (pa_wait w) /\ pa_count s (pa_pend w).

Definition pa_rel (s : bc) (w : pa_st) : Prop := last_rel s (pa_last w) /\ pa_inv s w.

Lemma pa_last_next w e w' : pa_step w e = Some w' -> pa_last w' = lt_next (pa_last w) e.
Proof. intros H. unfold pa_step in H. destruct e; bm H; inv_some H; reflexivity. Qed.

Lemma quiescent_inv s : quiescent s = true ->
  pp s = PLoop /\ ackq s = [] /\ ~ doomed s /\ (forall c, In c (clos s) -> clo_idle c = true).
Proof.
  unfold quiescent. intros H.
  apply andb_true_iff in H. destruct H as [H Q8]. apply andb_true_iff in H. destruct H as [H Q7].
  apply andb_true_iff in H. destruct H as [H Q6]. apply andb_true_iff in H. destruct H as [H Q5].
  apply andb_true_iff in H. destruct H as [H Q4]. apply andb_true_iff in H. destruct H as [H Q3].
  apply andb_true_iff in H. destruct H as [Q1 Q2].
  destruct (pp s) eqn:Epp; try discriminate Q3. destruct (ap s) eqn:Eap; try discriminate Q5.
  destruct (ackq s) eqn:Eq; try discriminate Q6. destruct (lp s) eqn:Elp; try discriminate Q7.
  rewrite forallb_forall in Q8. split; [reflexivity|]. split; [reflexivity|]. split; [|exact Q8].
  intros [D|[D|[D|[D|(c & Hc & _ & D)]]]].
  - apply D. exact Elp.
  - rewrite D in Q2. discriminate Q2.
  - rewrite Epp in D. discriminate D.
  - rewrite Eap in D. discriminate D.
  - specialize (Q8 _ Hc). unfold clo_idle in Q8. destruct (c_stat c); discriminate.
Qed.

Lemma pa_quiescent s w : quiescent s = true -> pa_inv s w -> pa_step w EQuiescent = Some w.
Proof.
  intros Hq [HW [_ HN]]. destruct (quiescent_inv _ Hq) as (Epp & Eq & Hnd & Hidle).
  cbn [pa_step].
  assert (forallb (fun id => existsb (fun x => snd x =? id) (pa_wait w)) (pa_pend w) = true) as ->; [|reflexivity].
  apply forallb_forall. intros id Hid. apply in_cnt_pos in Hid.
  assert (Hp : preloop (pp s) = false) by (rewrite Epp; reflexivity).
  specialize (HN Hp Hnd id). unfold bound in HN. rewrite Epp, Eq in HN. cbn [proc_n cntb filter length] in HN.
  destruct (cntb_pos (clo_pend (conn_no s) id) (clos s) ltac:(unfold cntb in *; lia)) as (c & Hc & Fc).
  unfold clo_pend in Fc. apply andb_true_iff in Fc. destruct Fc as [Fc F3]. apply andb_true_iff in Fc. destruct Fc as [F1 F2].
  destruct (c_kind c) eqn:Ek; try discriminate F2. apply N.eqb_eq in F2. subst id0.
  specialize (Hidle _ Hc). unfold clo_idle in Hidle. destruct (c_stat c) eqn:Es; try discriminate F3; try discriminate Hidle.
  apply existsb_exists. exists (c_k c, id). split; [|apply N.eqb_refl].
  apply aget_in. eapply HW; eassumption.
Qed.

(* ------------------------------------------------------------ closure steps *)

Lemma W_set l k st wait : NoDup (ckeys l) -> st <> CReg -> pa_wait_ok l wait -> pa_wait_ok (clo_set l k st) wait.
Proof.
  intros Hnd Hst W c' id H Hk Hs. apply (in_clo_set _ _ _ _ Hnd) in H.
  destruct H as [[H _]|(x & Hx & Kx & ->)]; [eapply W; eassumption|]. cbn [c_stat] in Hs. contradiction.
Qed.

Lemma W_set_adel l k st wait : NoDup (ckeys l) -> st <> CReg -> pa_wait_ok l wait ->
  pa_wait_ok (clo_set l k st) (adel wait k).
Proof.
  intros Hnd Hst W c' id H Hk Hs. apply (in_clo_set _ _ _ _ Hnd) in H.
  destruct H as [[H Hne]|(x & Hx & Kx & ->)]; [|cbn [c_stat] in Hs; contradiction].
  rewrite aget_adel_ne by exact Hne. eapply W; eassumption.
Qed.

Lemma W_adel l c wait : NoDup (ckeys l) -> In c l -> c_stat c <> CReg -> pa_wait_ok l wait ->
  pa_wait_ok l (adel wait (c_k c)).
Proof.
  intros Hnd Hin Hst W c' id H Hk Hs. rewrite aget_adel_ne; [eapply W; eassumption|].
  intros E. assert (c' = c) by (eapply ckeys_inj; eassumption). subst c'. contradiction.
Qed.

Lemma clo_case_frame s e s' : clo_case s e s' ->
  lp s' = lp s /\ pp s' = pp s /\ ap s' = ap s /\ conn_no s' = conn_no s /\ (dying s = true -> dying s' = true).
Proof.
  intros [k g c id -> Hf Hst Hi Hk -> | k g c -> Hf Hst Hi Hk -> | k g c -> Hf Hst Hi -> | g id c -> Hf ->
         | g id c -> Hf -> | g c -> Hin Hst -> | g c -> Hin Hst -> | k g c -> Hf Hst -> | k g c -> Hf Hst Hi ->];
    unfold clo_enqueue; repeat match goal with |- context [if ?b then _ else _] => destruct b end; sf; repeat split; auto.
Qed.

(* the status of one closure changes; if it was dying it still is, or the connection now is *)
Lemma doomed_upd s s' c st : NoDup (ckeys (clos s)) -> In c (clos s) ->
  lp s' = lp s -> pp s' = pp s -> ap s' = ap s -> conn_no s' = conn_no s -> (dying s = true -> dying s' = true) ->
  clos s' = clo_set (clos s) (c_k c) st ->
  (st_dying (c_stat c) = true -> c_conn c = conn_no s -> st_dying st = true \/ dying s' = true) ->
  doomed s -> doomed s'.
Proof.
  intros Hnd Hin Elp Epp Eap En Edy Et Hc D.
  destruct D as [D|[D|[D|[D|(c1 & H1 & N1 & S1)]]]].
  - left. rewrite Elp. exact D.
  - right. left. apply Edy, D.
  - right. right. left. rewrite Epp. exact D.
  - right. right. right. left. rewrite Eap. exact D.
  - destruct (N.eq_dec (c_k c1) (c_k c)) as [E|E].
    + assert (c1 = c) by (eapply ckeys_inj; eassumption). subst c1.
      destruct (Hc S1 N1) as [Hs|Hd]; [|right; left; exact Hd].
      right. right. right. right. exists (Clo (c_k c) (c_conn c) (c_kind c) st). rewrite Et, En. cbn [c_conn c_stat].
      split; [apply clo_set_in_same; auto|auto].
    + right. right. right. right. exists c1. rewrite Et, En. split; [apply clo_set_in_other; assumption|auto].
Qed.

Lemma doomed_same s s' : lp s' = lp s -> pp s' = pp s -> ap s' = ap s -> conn_no s' = conn_no s ->
  (dying s = true -> dying s' = true) -> (forall c, In c (clos s) -> In c (clos s')) -> doomed s -> doomed s'.
Proof.
  intros Elp Epp Eap En Edy Et D.
  destruct D as [D|[D|[D|[D|(c1 & H1 & N1 & S1)]]]].
  - left. rewrite Elp. exact D.
  - right. left. apply Edy, D.
  - right. right. left. rewrite Epp. exact D.
  - right. right. right. left. rewrite Eap. exact D.
  - right. right. right. right. exists c1. rewrite En. auto.
Qed.

Lemma doomed_clo s e s' : NoDup (ckeys (clos s)) -> clo_case s e s' -> doomed s -> doomed s'.
Proof.
  intros Hnd H. destruct (clo_case_frame _ _ _ H) as (Elp & Epp & Eap & En & Edy).
  destruct H as [k g c id -> Hf Hst Hi Hk -> | k g c -> Hf Hst Hi Hk -> | k g c -> Hf Hst Hi -> | g id c -> Hf ->
                | g id c -> Hf -> | g c -> Hin Hst -> | g c -> Hin Hst -> | k g c -> Hf Hst -> | k g c -> Hf Hst Hi ->];
    try (apply clo_find_in in Hf; destruct Hf as [Hin <-]);
    try (apply clo_del_find_in in Hf; destruct Hf as (Hin & Hst & _)).
  - apply (doomed_upd s _ c (CDel g) Hnd Hin Elp Epp Eap En Edy); [reflexivity|].
    rewrite Hst. intros E; cbn in E; discriminate E.
  - apply (doomed_upd s _ c (CRun g) Hnd Hin Elp Epp Eap En Edy); [apply clos_enq|].
    rewrite Hst. intros E; cbn in E; discriminate E.
  - apply doomed_same; auto.
  - apply (doomed_upd s _ c (CRun g) Hnd Hin Elp Epp Eap En Edy); [apply clos_enq|].
    rewrite Hst. intros E; cbn in E; discriminate E.
  - apply (doomed_upd s _ c (CDieLog g) Hnd Hin Elp Epp Eap En Edy); [reflexivity|].
    rewrite Hst. intros E; cbn in E; discriminate E.
  - apply (doomed_upd s _ c (CDieClose g) Hnd Hin Elp Epp Eap En Edy); [reflexivity|].
    intros _ _. left. reflexivity.
  - apply (doomed_upd s _ c (CRun g) Hnd Hin Elp Epp Eap En Edy).
    + destruct (c_conn c =? conn_no s); reflexivity.
    + intros _ E. right. rewrite E, N.eqb_refl. reflexivity.
  - apply (doomed_upd s _ c CDone Hnd Hin Elp Epp Eap En Edy); [reflexivity|].
    rewrite Hst. intros E; cbn in E; discriminate E.
  - apply doomed_same; auto.
Qed.

Lemma clo_pend_stat n id c st st' :
  (match st with CReg | CDel _ => true | _ => false end) = (match st' with CReg | CDel _ => true | _ => false end) ->
  clo_pend n id (Clo (c_k c) (c_conn c) (c_kind c) st) = clo_pend n id (Clo (c_k c) (c_conn c) (c_kind c) st').
Proof. unfold clo_pend. cbn [c_conn c_kind c_stat]. intros ->. reflexivity. Qed.

Lemma clo_pend_eta n id c : clo_pend n id c = clo_pend n id (Clo (c_k c) (c_conn c) (c_kind c) (c_stat c)).
Proof. reflexivity. Qed.

Lemma bound_clo s e s' : NoDup (ckeys (clos s)) -> clo_case s e s' -> ~ doomed s' ->
  forall id, bound s' id = bound s id.
Proof.
  intros Hnd H Hnd' id. destruct (clo_case_frame _ _ _ H) as (Elp & Epp & Eap & En & Edy).
  unfold bound. rewrite Epp, En.
  destruct H as [k g c id0 -> Hf Hst Hi Hk -> | k g c -> Hf Hst Hi Hk -> | k g c -> Hf Hst Hi -> | g id0 c -> Hf ->
                | g id0 c -> Hf -> | g c -> Hin Hst -> | g c -> Hin Hst -> | k g c -> Hf Hst -> | k g c -> Hf Hst Hi ->];
    try (apply clo_find_in in Hf; destruct Hf as [Hin <-]);
    try (apply clo_del_find_in in Hf; destruct Hf as (Hin & Hst & Hk)).
  - (* CReg -> CDel *)
    sf. pose proof (cntb_clo_set (clo_pend (conn_no s) id) _ c (CDel g) Hnd Hin) as E.
    rewrite (clo_pend_eta _ _ c), Hst in E.
    rewrite (clo_pend_stat _ _ c CReg (CDel g) eq_refl) in E. lia.
  - (* another kind *)
    rewrite clos_enq.
    pose proof (cntb_clo_set (clo_pend (conn_no s) id) _ c (CRun g) Hnd Hin) as E.
    assert (F1 : clo_pend (conn_no s) id c = false).
    { unfold clo_pend. destruct (c_kind c) eqn:Ek; try (rewrite andb_false_r; reflexivity). exfalso. eapply Hk. reflexivity. }
    assert (F2 : clo_pend (conn_no s) id (Clo (c_k c) (c_conn c) (c_kind c) (CRun g)) = false).
    { unfold clo_pend. cbn [c_stat]. apply andb_false_r. }
    rewrite F1, F2 in E.
    assert (Eq : cntb (is_pubcomp id) (ackq (set_clos (clo_enqueue s c) (clo_set (clos s) (c_k c) (CRun g))))
                 = cntb (is_pubcomp id) (ackq s)).
    { unfold clo_enqueue. destruct (clo_live s c); sf; [|reflexivity]. rewrite cntb_app. cbn [cntb filter].
      destruct (c_kind c) eqn:Ek; unfold cntb; cbn [ack_packet is_pubcomp filter length]; try lia. exfalso. eapply Hk. reflexivity. }
    rewrite Eq. lia.
  - reflexivity.
  - (* CDel -> CRun, PUBCOMP queued *)
    rewrite clos_enq.
    pose proof (cntb_clo_set (clo_pend (conn_no s) id) _ c (CRun g) Hnd Hin) as E.
    assert (F2 : clo_pend (conn_no s) id (Clo (c_k c) (c_conn c) (c_kind c) (CRun g)) = false).
    { unfold clo_pend. cbn [c_stat]. apply andb_false_r. }
    rewrite F2 in E.
    assert (F1 : clo_pend (conn_no s) id c = (c_conn c =? conn_no s) && (id0 =? id)).
    { unfold clo_pend. rewrite Hk, Hst. apply andb_true_r. }
    rewrite F1 in E.
    assert (Hlp : lp s = LNone).
    { destruct (lp s) eqn:El; try reflexivity; exfalso; apply Hnd'; left; rewrite Elp; discriminate. }
    assert (Eq : cntb (is_pubcomp id) (ackq (set_clos (clo_enqueue (sess_delete s Incoming id0) c) (clo_set (clos s) (c_k c) (CRun g))))
                 = (cntb (is_pubcomp id) (ackq s) + (if N.eqb (c_conn c) (conn_no s) && N.eqb id0 id then 1 else 0))%nat).
    { unfold clo_enqueue, clo_live. sf. rewrite Hlp. cbn [negb]. rewrite andb_true_r.
      destruct (c_conn c =? conn_no s); sf; cbn [andb]; [|lia].
      rewrite cntb_app, Hk. unfold cntb. cbn [ack_packet filter is_pubcomp]. destruct (id0 =? id); cbn [length]; lia. }
    rewrite Eq. destruct ((c_conn c =? conn_no s) && (id0 =? id)); lia.
  - (* CDel -> CDieLog *)
    sf. pose proof (cntb_clo_set (clo_pend (conn_no s) id) _ c (CDieLog g) Hnd Hin) as E.
    assert (F2 : clo_pend (conn_no s) id (Clo (c_k c) (c_conn c) (c_kind c) (CDieLog g)) = false).
    { unfold clo_pend. cbn [c_stat]. apply andb_false_r. }
    assert (F1 : clo_pend (conn_no s) id c = false).
    { unfold clo_pend. destruct (c_conn c =? conn_no s) eqn:Ec; [|reflexivity]. exfalso. apply Hnd'.
      right. right. right. right. exists (Clo (c_k c) (c_conn c) (c_kind c) (CDieLog g)). sf. cbn [c_conn c_stat].
      split; [apply clo_set_in_same; auto|]. split; [apply N.eqb_eq, Ec|reflexivity]. }
    rewrite F1, F2 in E. lia.
  - sf. pose proof (cntb_clo_set (clo_pend (conn_no s) id) _ c (CDieClose g) Hnd Hin) as E.
    rewrite (clo_pend_eta _ _ c), Hst in E.
    rewrite (clo_pend_stat _ _ c (CDieLog g) (CDieClose g) eq_refl) in E. lia.
  - assert (Ec : clos (if c_conn c =? conn_no s then set_dying (set_clos s (clo_set (clos s) (c_k c) (CRun g)))
                       else set_clos s (clo_set (clos s) (c_k c) (CRun g))) = clo_set (clos s) (c_k c) (CRun g))
      by (destruct (c_conn c =? conn_no s); reflexivity).
    assert (Eq : ackq (if c_conn c =? conn_no s then set_dying (set_clos s (clo_set (clos s) (c_k c) (CRun g)))
                       else set_clos s (clo_set (clos s) (c_k c) (CRun g))) = ackq s)
      by (destruct (c_conn c =? conn_no s); reflexivity).
    rewrite Ec, Eq. pose proof (cntb_clo_set (clo_pend (conn_no s) id) _ c (CRun g) Hnd Hin) as E.
    rewrite (clo_pend_eta _ _ c), Hst in E.
    rewrite (clo_pend_stat _ _ c (CDieClose g) (CRun g) eq_refl) in E. lia.
  - sf. pose proof (cntb_clo_set (clo_pend (conn_no s) id) _ c CDone Hnd Hin) as E.
    rewrite (clo_pend_eta _ _ c), Hst in E.
    rewrite (clo_pend_stat _ _ c (CRun g) CDone eq_refl) in E. lia.
  - reflexivity.
Qed.

Lemma pa_count_clo s e s' pend : NoDup (ckeys (clos s)) -> clo_case s e s' -> pa_count s pend -> pa_count s' pend.
Proof.
  intros Hnd H [C1 C2]. destruct (clo_case_frame _ _ _ H) as (_ & Epp & _).
  split; rewrite Epp; [exact C1|].
  intros Hp Hnd' id. rewrite (bound_clo _ _ _ Hnd H Hnd'). apply C2; [exact Hp|].
  intros D. apply Hnd'. eapply doomed_clo; eassumption.
Qed.

Lemma pa_inv_clo s w e s' : inv_c07 s -> pa_inv s w -> step_clo s e = Some s' ->
  exists w', pa_step w e = Some w' /\ pa_inv s' w'.
Proof.
  intros (I1 & _) [HW HC] H. apply step_clo_cases in H.
  pose proof (pa_count_clo _ _ _ _ I1 H HC) as HC'.
  destruct H as [k g c id -> Hf Hst Hi Hk -> | k g c -> Hf Hst Hi Hk -> | k g c -> Hf Hst Hi -> | g id c -> Hf ->
                | g id c -> Hf -> | g c -> Hin Hst -> | g c -> Hin Hst -> | k g c -> Hf Hst -> | k g c -> Hf Hst Hi ->];
    try (apply clo_find_in in Hf; destruct Hf as [Hin <-]);
    try (apply clo_del_find_in in Hf; destruct Hf as (Hin & Hst & Hk));
    (eexists; split; [reflexivity|]); (split; [|exact HC']); cbn [pa_wait].
  - sf. apply W_set_adel; auto. discriminate.
  - rewrite clos_enq. apply W_set_adel; auto. discriminate.
  - apply W_adel; auto. rewrite Hst. discriminate.
  - rewrite clos_enq. apply W_set; auto. discriminate.
  - sf. apply W_set; auto. discriminate.
  - sf. apply W_set; auto. discriminate.
  - destruct (c_conn c =? conn_no s); sf; apply W_set; auto; discriminate.
  - sf. apply W_set; auto. discriminate.
  - exact HW.
Qed.

(* ---------------------------------------------------------- processor steps *)

Lemma step_proc_frame2 s e s' : step_proc s e = Some s' ->
  lp s' = lp s /\ conn_no s' = conn_no s /\ (dying s = true -> dying s' = true) /\
  (preloop (pp s) = false -> ap s' = ap s) /\ (pp_dead (pp s) = true -> pp_dead (pp s') = true) /\
  (forall c, In c (clos s) -> In c (clos s')).
Proof.
  intros H.
  unfold step_proc, proc_dispatch, die_p, guard, take_pub, take_sub, clo_reg, take_deq_if_any, take_deq in H.
  destruct (pp s) eqn:Epp; destruct e; try discriminate H; bm H; inv_some H; sf; cbn [preloop pp_dead];
    repeat split; try reflexivity; try (intros; assumption); try (intros E; discriminate E);
    try (intros c0 Hc0; apply in_app_iff; left; exact Hc0).
Qed.

Lemma doomed_proc s e s' : step_proc s e = Some s' -> preloop (pp s) = false -> doomed s -> doomed s'.
Proof.
  intros H Hp D. destruct (step_proc_frame2 _ _ _ H) as (Elp & En & Edy & Eap & Edead & Ecl).
  destruct D as [D|[D|[D|[D|(c1 & H1 & N1 & S1)]]]].
  - left. rewrite Elp. exact D.
  - right. left. apply Edy, D.
  - right. right. left. apply Edead, D.
  - right. right. right. left. rewrite (Eap Hp). exact D.
  - right. right. right. right. exists c1. rewrite En. auto.
Qed.

Lemma W_app_other l k n a wait : (forall id, a <> KPubcomp id) -> pa_wait_ok l wait ->
  pa_wait_ok (l ++ [Clo k n a CReg]) wait.
Proof.
  intros Ha W c id H Hk Hs. apply in_app_iff in H. cbn [In] in H. destruct H as [H|[<-|[]]]; [eapply W; eassumption|].
  exfalso. eapply Ha, Hk.
Qed.

Lemma W_app_pc l k n id wait : clo_find l k = None -> pa_wait_ok l wait ->
  pa_wait_ok (l ++ [Clo k n (KPubcomp id) CReg]) ((k, id) :: wait).
Proof.
  intros Hf W c id' H Hk Hs. apply in_app_iff in H. cbn [In] in H. destruct H as [H|[<-|[]]].
  - rewrite aget_cons_ne; [eapply W; eassumption|]. eapply clo_find_none; eassumption.
  - cbn [c_kind c_k] in *. injection Hk as <-. apply aget_cons_eq.
Qed.

Lemma cnt_nremove1_le x k l : (cnt x (nremove1 k l) <= cnt x l)%nat.
Proof.
  destruct (N.eq_dec x k) as [->|Hne]; [rewrite cnt_nremove1_same; lia|rewrite cnt_nremove1_other by exact Hne; lia].
Qed.

Lemma cntb_clo_app_other n id l k n' a : (forall i, a <> KPubcomp i) ->
  cntb (clo_pend n id) (l ++ [Clo k n' a CReg]) = cntb (clo_pend n id) l.
Proof.
  intros Ha. rewrite cntb_app, cntb_cons. unfold clo_pend at 2. cbn [c_kind c_conn c_stat].
  destruct a; try (rewrite andb_false_r; cbn [andb]; unfold cntb; cbn [filter length]; lia).
  exfalso. eapply Ha. reflexivity.
Qed.

Lemma cntb_clo_app_pc n id l k i :
  cntb (clo_pend n id) (l ++ [Clo k n (KPubcomp i) CReg]) = (cntb (clo_pend n id) l + (if N.eqb i id then 1 else 0))%nat.
Proof.
  rewrite cntb_app, cntb_cons. unfold clo_pend at 2. cbn [c_kind c_conn c_stat].
  rewrite N.eqb_refl, andb_true_r. cbn [andb]. unfold cntb at 2. cbn [filter length]. lia.
Qed.

Ltac pa_count_tac s C1 C2 Hdm Epp :=
  sf; cbn [preloop pa_pend]; split;
  [ let Hp := fresh "Hp" in intros Hp; first [discriminate Hp | exact (C1 eq_refl)]
  | let Hnd' := fresh "Hnd'" in let id := fresh "id" in
    intros _ Hnd' id;
    first [ exfalso; apply Hnd'; right; right; left; reflexivity
          | rewrite (C1 eq_refl); unfold cnt; cbn [filter length]; lia
          | let Hn := fresh "Hn" in
            assert (Hn : ~ doomed s) by (let D := fresh "D" in intro D; apply Hnd'; apply Hdm; [reflexivity|exact D]);
            specialize (C2 eq_refl Hn id); unfold bound in *; rewrite Epp in C2; sf; cbn [proc_n] in *; lia ] ].

Lemma pa_inv_proc s w e s' g : gproc s = Some g -> ev_g e = Some g ->
  plast (pp s) (aget (pa_last w) g) -> pa_inv s w -> step_proc s e = Some s' ->
  exists w', pa_step w e = Some w' /\ pa_inv s' w'.
Proof.
  intros Hg Heg HL [HW [C1 C2]] H.
  pose proof (doomed_proc _ _ _ H) as Hdm.
  unfold step_proc, proc_dispatch, die_p, guard, take_pub, take_sub, clo_reg, take_deq_if_any, take_deq in H.
  destruct (pp s) eqn:Epp; destruct e; try discriminate H; bm H; inv_some H;
    cbn [ev_g] in Heg; injection Heg as Heg; subst; cbn [preloop] in *.
  all: try (eexists; split; [reflexivity|];
            split; [first [exact HW | apply W_app_other; [discriminate|exact HW]]|];
            pa_count_tac s C1 C2 Hdm Epp).
  (* PResend: nothing is pending before the loop *)
  1-6: (specialize (C1 eq_refl);
        assert (Ew : pa_step w (ETx g p true true) = Some w /\ pa_step w (ETx g p true false) = Some w)
          by (destruct w as [wl wp ww]; cbn [pa_pend] in C1; subst wp; destruct p; split; reflexivity);
        exists w; split; [first [exact (proj1 Ew) | exact (proj2 Ew)]|]; split; [exact HW|];
        sf; cbn [preloop]; split; intros Hp; try discriminate Hp; try exact C1;
        intros Hnd'; exfalso; apply Hnd'; right; right; left; reflexivity).
  - (* a PUBREL is received *)
    eexists. split; [reflexivity|]. split; [exact HW|]. sf. cbn [pa_pend preloop]. split; [intros Hp; discriminate Hp|].
    intros _ Hnd' id0.
    assert (Hn : ~ doomed s) by (intro D; apply Hnd'; apply Hdm; [reflexivity|exact D]).
    specialize (C2 eq_refl Hn id0). unfold bound in *. rewrite Epp in C2. sf. cbn [proc_n] in *.
    rewrite cnt_cons. rewrite (N.eqb_sym id0 id). destruct (N.eqb id id0); lia.
  - (* a SUBACK closure is registered *)
    eexists. split; [reflexivity|]. split; [apply W_app_other; [discriminate|exact HW]|].
    sf. cbn [pa_pend preloop]. split; [intros Hp; discriminate Hp|]. intros _ Hnd' id0.
    assert (Hn : ~ doomed s) by (intro D; apply Hnd'; apply Hdm; [reflexivity|exact D]).
    specialize (C2 eq_refl Hn id0). unfold bound in *. rewrite Epp in C2. sf. cbn [proc_n] in *.
    rewrite cntb_clo_app_other by discriminate. lia.
  - eexists. split; [reflexivity|]. split; [apply W_app_other; [discriminate|exact HW]|].
    sf. cbn [pa_pend preloop]. split; [intros Hp; discriminate Hp|]. intros _ Hnd' id0.
    assert (Hn : ~ doomed s) by (intro D; apply Hnd'; apply Hdm; [reflexivity|exact D]).
    specialize (C2 eq_refl Hn id0). unfold bound in *. rewrite Epp in C2. sf. cbn [proc_n] in *.
    rewrite cntb_clo_app_other by discriminate. lia.
  - (* a PUBACK closure is registered *)
    destruct HL as (d & m' & HL).
    exists w. split; [cbn [pa_step]; rewrite HL; reflexivity|]. split; [apply W_app_other; [discriminate|exact HW]|].
    sf. cbn [pa_pend preloop]. split; [intros Hp; discriminate Hp|]. intros _ Hnd' id0.
    assert (Hn : ~ doomed s) by (intro D; apply Hnd'; apply Hdm; [reflexivity|exact D]).
    specialize (C2 eq_refl Hn id0). unfold bound in *. rewrite Epp in C2. sf. cbn [proc_n] in *.
    rewrite cntb_clo_app_other by discriminate. lia.
  - (* the PUBCOMP closure is registered: the processor hands the obligation to it *)
    cbn [plast] in HL.
    eexists. split; [cbn [pa_step]; rewrite HL; reflexivity|]. cbn [pa_wait pa_pend].
    split; [apply W_app_pc; assumption|].
    sf. cbn [pa_pend preloop]. split; [intros Hp; discriminate Hp|]. intros _ Hnd' id0.
    assert (Hn : ~ doomed s) by (intro D; apply Hnd'; apply Hdm; [reflexivity|exact D]).
    specialize (C2 eq_refl Hn id0). unfold bound in *. rewrite Epp in C2. sf. cbn [proc_n] in *.
    rewrite cntb_clo_app_pc. destruct (N.eqb id id0); lia.
  - (* the processor answers an unknown PUBREL itself *)
    match goal with E : (_ =? _) = true |- _ => apply N.eqb_eq in E; subst id0 end.
    eexists. split; [reflexivity|]. split; [exact HW|]. sf. cbn [pa_pend preloop]. split; [intros Hp; discriminate Hp|].
    intros _ Hnd' j.
    assert (Hn : ~ doomed s) by (intro D; apply Hnd'; apply Hdm; [reflexivity|exact D]).
    specialize (C2 eq_refl Hn j). unfold bound in *. rewrite Epp in C2. sf. cbn [proc_n] in *.
    destruct (N.eqb id j) eqn:E.
    + apply N.eqb_eq in E. subst j. rewrite cnt_nremove1_same. lia.
    + rewrite cnt_nremove1_other; [lia|]. intros ->. rewrite N.eqb_refl in E. discriminate E.
Qed.

(* ------------------------------------------------------- the other coroutines *)

Lemma pa_inv_deq s w e s' : pa_inv s w -> step_deq s e = Some s' ->
  exists w', pa_step w e = Some w' /\ pa_inv s' w'.
Proof.
  intros [HW [C1 C2]] H. pose proof (step_deq_event _ _ _ H) as Hev.
  apply step_deq_frame in H. destruct H as (_ & Ecl & Epp & _ & En & Elp & Eq & Eap & Edy).
  assert (Hb : forall id, bound s' id = bound s id) by (intros id; unfold bound; rewrite Epp, En, Ecl, Eq; reflexivity).
  assert (Hd : doomed s -> doomed s') by (apply doomed_same; auto; rewrite Ecl; auto).
  assert (Hsame : pa_inv s' w).
  { split; [rewrite Ecl; exact HW|]. split; rewrite Epp; [exact C1|]. intros Hp Hnd' id. rewrite Hb. apply C2; auto. }
  destruct e; try contradiction; try (exists w; split; [reflexivity|exact Hsame]).
  (* a send: if it is a PUBCOMP the scanner forgets one pending id, which is harmless *)
  destruct p; try (exists w; split; [reflexivity|exact Hsame]).
  destruct ok; [|exists w; split; [reflexivity|exact Hsame]].
  eexists. split; [reflexivity|]. cbn [pa_wait pa_pend]. split; [rewrite Ecl; exact HW|].
  split; rewrite Epp.
  - intros Hp. rewrite (C1 Hp). reflexivity.
  - intros Hp Hnd' j. rewrite Hb. etransitivity; [apply cnt_nremove1_le|]. apply C2; auto.
Qed.

Lemma pa_inv_ack s w e s' : pa_inv s w -> step_ack s e = Some s' ->
  exists w', pa_step w e = Some w' /\ pa_inv s' w'.
Proof.
  intros [HW [C1 C2]] H. unfold step_ack in H.
  destruct (ap s) eqn:Eap; destruct e; try discriminate H.
  - (* AIdle: a queued packet is sent *)
    destruct async; [|discriminate H]. destruct (ackq_take (ackq s) p) as [q'|] eqn:Et; [|discriminate H].
    destruct ok; injection H as <-.
    + assert (Hfr : forall j, (bound (ack_token_back (set_ackq s q') p) j + (if is_pubcomp j p then 1 else 0) = bound s j)%nat).
      { intros j. unfold bound, ack_token_back. rewrite (ackq_take_cnt _ _ _ j Et). destruct p; sf; lia. }
      assert (Hd : doomed s -> doomed (ack_token_back (set_ackq s q') p)).
      { unfold ack_token_back. destruct p; sf; apply doomed_same; auto. }
      assert (Epp : pp (ack_token_back (set_ackq s q') p) = pp s) by (unfold ack_token_back; destruct p; reflexivity).
      assert (Ecl : clos (ack_token_back (set_ackq s q') p) = clos s) by (unfold ack_token_back; destruct p; reflexivity).
      destruct p; try (exists w; split; [reflexivity|]; split; [rewrite Ecl; exact HW|]; split; rewrite Epp; [exact C1|];
                       intros Hp Hnd' j; specialize (Hfr j); cbn [is_pubcomp] in Hfr; specialize (C2 Hp (fun D => Hnd' (Hd D)) j); lia).
      eexists. split; [reflexivity|]. cbn [pa_wait pa_pend]. split; [rewrite Ecl; exact HW|]. split; rewrite Epp.
      * intros Hp. rewrite (C1 Hp). reflexivity.
      * intros Hp Hnd' j. specialize (Hfr j). cbn [is_pubcomp] in Hfr. specialize (C2 Hp (fun D => Hnd' (Hd D)) j).
        cbn [pa_pend]. destruct (N.eqb id j) eqn:E.
        -- apply N.eqb_eq in E. subst j. rewrite cnt_nremove1_same. lia.
        -- rewrite cnt_nremove1_other; [lia|]. intros ->. rewrite N.eqb_refl in E. discriminate E.
    + (* the write failed *)
      assert (Ew : pa_step w (ETx g p true false) = Some w) by (destruct p; reflexivity).
      exists w. split; [exact Ew|]. split; [exact HW|]. sf. split; [exact C1|].
      intros _ Hnd'. exfalso. apply Hnd'. right. right. right. left. reflexivity.
  - destruct k; try discriminate H. injection H as <-.
    exists w. split; [reflexivity|]. split; [exact HW|]. sf. split; [exact C1|].
    intros _ Hnd'. exfalso. apply Hnd'. right. right. right. left. reflexivity.
  - injection H as <-.
    exists w. split; [reflexivity|]. split; [exact HW|]. sf. split; [exact C1|].
    intros _ Hnd'. exfalso. apply Hnd'. right. right. right. left. reflexivity.
Qed.

Lemma pa_inv_cleanup s w e s' : pa_inv s w -> step_cleanup s e = Some s' ->
  exists w', pa_step w e = Some w' /\ pa_inv s' w'.
Proof.
  intros [HW [C1 C2]] H. exists w. split.
  - apply step_cleanup_event in H. destruct e; try discriminate H; try reflexivity; destruct k; try discriminate H; reflexivity.
  - apply step_cleanup_frame in H. destruct H as (_ & _ & Ecl & _ & _ & _ & Hp & Hlp).
    split; [rewrite Ecl; exact HW|]. split.
    + intros Hpre. destruct Hp as [Hp|Hp]; rewrite Hp in Hpre; [exact (C1 Hpre)|discriminate Hpre].
    + intros _ Hnd'. exfalso. apply Hnd'. left. exact Hlp.
Qed.

Lemma pa_inv_roles s p d a c w : pa_inv (set_roles s p d a c) w <-> pa_inv s w.
Proof. unfold pa_inv, pa_count, doomed, bound; sf; tauto. Qed.

Lemma pa_inv_hstep s w e s' : inv_c07 s -> pa_rel s w -> step s e = Some s' ->
  exists w', pa_step w e = Some w' /\ pa_inv s' w'.
Proof.
  intros Hi [HL HR] H. pose proof H as H0. apply step_cases in H.
  destruct H as [-> _ -> | -> _ -> | -> Hq -> | H | -> H
                | g s1 _ Hev _ _ Hv H | g s1 _ _ _ _ _ Hv H | g s1 _ _ _ _ _ _ Hv H | g s1 _ _ _ _ _ _ _ Hv H
                | g -> _ _ _ _ ->].
  - (* a new connection *)
    eexists. split; [reflexivity|]. destruct HR as [HW _]. split; [exact HW|]. sf. split; cbn [preloop]; [reflexivity|discriminate].
  - exists w. split; [reflexivity|exact HR].
  - (* quiescence *)
    exists w. split; [apply (pa_quiescent s); assumption|exact HR].
  - eapply pa_inv_clo; eassumption.
  - eapply pa_inv_cleanup; eassumption.
  - assert (Hg1 : gproc s1 = Some g) by (destruct Hv as [[-> Hg]|(_ & _ & -> & _)]; [exact Hg|reflexivity]).
    assert (HL1 : plast (pp s1) (aget (pa_last w) g)).
    { destruct Hv as [[-> Hg]|(Hn & _ & -> & _)]; unfold last_rel in HL.
      - rewrite Hg in HL. exact HL.
      - rewrite Hn in HL. apply plast_none. exact HL. }
    assert (HR1 : pa_inv s1 w) by (destruct Hv as [[-> _]|(_ & _ & -> & _)]; [exact HR|apply pa_inv_roles, HR]).
    eapply pa_inv_proc; eassumption.
  - eapply pa_inv_deq; [|exact H]. destruct Hv as [[-> _]|(_ & _ & ->)]; [exact HR|apply pa_inv_roles, HR].
  - eapply pa_inv_ack; [|exact H]. destruct Hv as [[-> _]|(_ & _ & ->)]; [exact HR|apply pa_inv_roles, HR].
  - eapply pa_inv_cleanup; [|exact H]. destruct Hv as [[-> _]|(_ & _ & ->)]; [exact HR|apply pa_inv_roles, HR].
  - (* the connection is closed from outside *)
    exists w. split; [reflexivity|]. destruct HR as [HW [C1 C2]]. split; [exact HW|]. sf. split; [exact C1|].
    intros _ Hnd'. exfalso. apply Hnd'. right. left. reflexivity.
Qed.

Lemma pa_hstep s w e s' : inv_c07 s -> pa_rel s w -> step s e = Some s' ->
  exists w', pa_step w e = Some w' /\ pa_rel s' w'.
Proof.
  intros Hi HR H. destruct (pa_inv_hstep _ _ _ _ Hi HR H) as (w' & Ew & HR').
  exists w'. split; [exact Ew|]. split; [|exact HR'].
  rewrite (pa_last_next _ _ _ Ew). apply (last_hstep _ _ _ _ (proj1 HR) H).
Qed.

Theorem pubrel_answered : forall es s, bc_run es = Some s -> c07_pubrel_answered es = true.
Proof.
  unfold c07_pubrel_answered.
  apply (scan_sound_inv pa_step inv_c07 pa_rel inv_c07_init inv_c07_step pa_hstep).
  split; [exact I|]. split; [intros c id []|]. split; [discriminate|].
  intros _ Hnd. exfalso. apply Hnd. right. right. left. reflexivity.
Qed.
