(* ConnSpec2.v — further trace clauses of the broker connection, for C14 and C15
   (same conventions as ConnSpec.v; kept in a separate file so that work on the
   clauses of ConnSpec.v is not disturbed). *)
From Coq Require Import List NArith Bool.
From GM Require Import Codec.Packet Session.Store Broker.Conn Broker.ConnSpec.
Import ListNotations.
Open Scope N_scope.

(* ================================================================== C15 == *)

(* C15_in_order: the processor hands publishes to the backend in arrival order:
   every backend Publish it issues is for the packet it received last (a QoS 0/1
   PUBLISH with exactly that message, or the PUBREL that releases a stored QoS 2
   message), and at most one per received packet.  Since the processor is one
   sequential goroutine, the order of backend Publish calls of one QoS level is
   the order of arrival (QoS 2: of the PUBRELs). *)
Definition io_step (s : list (N * (packet * bool))) (e : event) : option (list (N * (packet * bool))) :=
  match e with
  | ENewConn => Some []
  | ERx g p => Some (aput s g (p, false))
  | EPub g m k =>
      match aget s g with
      | None => Some s                                   (* the cleanup publishing the will *)
      | Some (p, used) =>
          if used then None else
          match p, k with
          | Publish _ m' _, None => if (m_qos m' =? 0) && message_eqb m m' then Some (aput s g (p, true)) else None
          | Publish _ m' _, Some _ => if (m_qos m' =? 1) && message_eqb m m' then Some (aput s g (p, true)) else None
          | Pubrel _, Some _ => Some (aput s g (p, true))
          | _, _ => None
          end
      end
  | _ => Some s
  end.
Definition c15_in_order (es : list event) : bool := scan io_step [] es.

(* C15_release_intact: the message handed on for PUBREL id is the message of the
   PUBLISH stored under id (topic, payload, qos; the retain flag as stored) *)
Definition ri_step (s : list (N * message)) (e : event) : option (list (N * message)) :=
  match e with
  | ELookup g Incoming _ (LRes (Some (Publish _ m _))) => Some (aput s g m)
  | ELookup g Incoming _ _ => Some (adel s g)
  | ERx g _ => Some (adel s g)
  | EPub g m (Some _) =>
      match aget s g with
      | Some m' => if message_eqb m m' then Some (adel s g) else None
      | None => Some s
      end
  | _ => Some s
  end.
Definition c15_release_intact (es : list event) : bool := scan ri_step [] es.

(* C15_resend_order: what the session lists on resume (and what is then re-sent, by
   c08_resend) is in the order in which the ids were FIRST saved, i.e. the order of
   their original transmission; a PUBREL that replaced its PUBLISH keeps the place *)
Definition ro_step (s : list N) (e : event) : option (list N) :=
  match e with
  | ESave _ Outgoing p true =>
      match get_id p with
      | Some id => Some (if nmem id s then s else s ++ [id])
      | None => Some s
      end
  | EDelete _ Outgoing id true => Some (filter (fun j => negb (j =? id)) s)
  | ESetup _ (SOk _ true _ _ _) => Some []                 (* a fresh session object *)
  | EAll _ Outgoing (Some ps) =>
      if list_eqb N.eqb (flat_map (fun p => match get_id p with Some i => [i] | None => [] end) ps) s then Some s else None
  | _ => Some s
  end.
Definition c15_resend_order (es : list event) : bool := scan ro_step [] es.

(* C15_dequeue_order: the dequeuer forwards in dequeue order: between two dequeues it
   sends exactly one PUBLISH, carrying the dequeued message *)
Definition dq_step (s : list (N * option message)) (e : event) : option (list (N * option message)) :=
  match e with
  | ENewConn => Some []
  | EDeqRet g (QMsg m _) =>
      match aget s g with
      | Some (Some _) => None                              (* the previous message was never sent *)
      | _ => Some (aput s g (Some m))
      end
  | ETx g (Publish false m _) _ _ =>
      match aget s g with
      | Some (Some m') => if message_eqb m m' then Some (aput s g None) else None
      | Some None => None
      | None => Some s
      end
  | _ => Some s
  end.
Definition c15_dequeue_order (es : list event) : bool := scan dq_step [] es.

(* ================================================================== C14 == *)

(* C14_lifecycle: per connection, Terminate is called at most once, only after
   authentication succeeded, and exactly once before Closed for every connection
   the backend set up; nothing of the connection happens after Closed *)
Record lc_st := LcSt { lc_open : bool; lc_auth : bool; lc_setup : bool; lc_terms : N }.
Definition lc_step (s : lc_st) (e : event) : option lc_st :=
  match e with
  | ENewConn => if lc_open s then None else Some (LcSt true false false 0)
  | EAuth _ AOk => Some (LcSt (lc_open s) true (lc_setup s) (lc_terms s))
  | ESetup _ (SOk _ _ _ _ _) => Some (LcSt (lc_open s) (lc_auth s) true (lc_terms s))
  | ETerm _ _ => if lc_auth s && (lc_terms s =? 0) && lc_open s then Some (LcSt true (lc_auth s) (lc_setup s) 1) else None
  | EClosed =>
      if lc_open s && (if lc_setup s then lc_terms s =? 1 else true) then Some (LcSt false (lc_auth s) (lc_setup s) (lc_terms s)) else None
  | ERx _ _ | ERxErr _ | ETx _ _ _ _ | ESub _ _ _ | EUnsub _ _ _ | EPub _ _ _ | EDeqCall _ | ESetup _ _ | EAuth _ _ | ERestore _ _ =>
      if lc_open s then Some s else None
  | _ => Some s
  end.
Definition c14_lifecycle (es : list event) : bool := scan lc_step (LcSt false false false 0) es.

(* C14_error_closes_only_itself is structural: one monitor per connection; what one
   connection can do to others goes through the backend operations (Backend.v). *)
