(* EndToEndProofs.v — the composition theorems: the stages of C15 (order) and C06 (once, intact,
   QoS-capped) put together over a composed run

       publisher's connection trace esP   (model BC, Broker/Conn.v)
       backend history ops                (model MB, Broker/Backend.v)
       subscriber's connection trace esS  (model BC)

   glued by glue_publish / glue_dequeue (Broker/EndToEnd.v: the backend calls seen in the connection
   traces ARE the operations of the history).

   Stage theorems used (none is re-proved here):
     subscriber's connection   forward_link_holds  + forwarded_embeds_dequeued   (EndToEndProofsConn.v)
     backend                   backend_order, backend_once, backend_intact      (EndToEndProofsBackend.v,
                               from the delivery log of C06/C15: BackendLog.queue_step / delivery_log)
     publisher's connection    arrival_link_holds + published_embeds_arrived     (EndToEndProofsConn.v)
   and the composition is list reasoning: order embeddings compose (Emb_trans). *)
From Coq Require Import List NArith Bool Lia.
From Coq.Strings Require Import Byte.
From GM Require Import Base.Lts Codec.Packet Session.Store Broker.Conn Broker.ConnSpec
  Broker.EndToEnd Broker.EndToEndProofsLists Broker.EndToEndProofsConn.
From GM Require Broker.Backend Broker.BackendSpec Broker.BackendProofsHist Broker.BackendLog Broker.EndToEndProofsBackend.
Import ListNotations.
Open Scope N_scope.

Lemma eq_in_flow fl (x y : message) : x = y -> in_flow fl x = in_flow fl y.
Proof. intros ->. reflexivity. Qed.

(* ------------------------------------------------------------------ (a) order *)

(* The composition over the trace clauses: whatever the two connection traces are (observed on the
   implementation or accepted by the model), if the subscriber's trace satisfies forward_link and the
   publisher's arrival_link, the order statement follows. *)
Theorem e2e_order_clauses : forall cap ops cPs k temp fl esP esS,
  arrival_link esP = true -> forward_link esS = true ->
  BackendLog.names_ok ops = true ->
  glue_publish cPs esP (history cap ops) ->
  glue_dequeue k esS (history cap ops) ->
  flow_exclusive fl cPs k temp (history cap ops) = true ->
  no_will_in_flow fl esP = true ->
  Emb carries (filter (in_flow fl) (forwarded esS)) (arrived esP).
Proof.
  intros cap ops cPs k temp fl esP esS HP HS Hnames Gp Gd Hflow Hwill.
  (* subscriber's wire -> what it dequeued *)
  assert (S1 : Emb eq (filter (in_flow fl) (forwarded esS)) (filter (in_flow fl) (dequeued esS))).
  { apply Emb_filter; [apply eq_in_flow|apply forwarded_embeds_dequeued, HS]. }
  (* glue: what it dequeued are the results of the Dequeue operations on k *)
  assert (S2 : Emb eq (filter (in_flow fl) (dequeued esS)) (filter (in_flow fl) (deq_results k (history cap ops)))).
  { apply prefix_Emb; [reflexivity|apply prefix_filter, Gd]. }
  (* backend: dequeued for k -> the publisher's Publish calls *)
  pose proof (EndToEndProofsBackend.backend_order cap ops fl cPs k temp Hnames Hflow) as S3. fold (history cap ops) in S3.
  (* glue: the Publish calls are the EPubs of the publisher's connection *)
  assert (S4 : Emb eq (filter (in_flow fl) (pub_calls cPs (history cap ops))) (filter (in_flow fl) (published esP))).
  { apply prefix_Emb; [reflexivity|apply prefix_filter, Gp]. }
  (* publisher's connection: what it published -> its wire *)
  pose proof (published_embeds_arrived fl esP HP Hwill) as S5.
  assert (S12 : Emb eq (filter (in_flow fl) (forwarded esS)) (filter (in_flow fl) (deq_results k (history cap ops)))).
  { eapply (Emb_trans eq eq eq); [intros x y z -> ->; reflexivity|exact S2|exact S1]. }
  assert (S123 : Emb capped (filter (in_flow fl) (forwarded esS)) (filter (in_flow fl) (pub_calls cPs (history cap ops)))).
  { eapply (Emb_trans eq capped capped); [intros x y z -> Hc; exact Hc|exact S3|exact S12]. }
  assert (S1234 : Emb capped (filter (in_flow fl) (forwarded esS)) (filter (in_flow fl) (published esP))).
  { eapply (Emb_trans capped eq capped); [intros x y z Hc <-; exact Hc|exact S4|exact S123]. }
  eapply (Emb_trans capped carries carries); [intros x y z; apply capped_carries|exact S5|exact S1234].
Qed.

(* C15 end to end.  esP, esS accepted by the connection model, ops any backend history with legal
   topic names, glued; fl a flow: messages (selected by topic and payload) that only the clients cPs of
   one publisher publish, all in one QoS class (temp: QoS 0 / the temporary queue, or QoS > 0 / the
   stored queue), none of them the publisher's will or replayed to session k as a retained message.
   Then the fresh PUBLISHes of the flow on the subscriber's wire embed IN ORDER into the arrivals on
   the publisher's wire: each is carried (same topic and payload, QoS not raised) by an arrival of its
   own — a QoS 0/1 PUBLISH with that message, or the PUBREL releasing a QoS 2 PUBLISH with that
   message — and a later one by a later arrival.  No two messages of the flow are swapped between the
   two wires, none is delivered that did not arrive, none more often than it arrived. *)
Theorem e2e_order : forall cap ops cPs k temp fl esP esS sP sS,
  bc_run esP = Some sP -> bc_run esS = Some sS ->
  BackendLog.names_ok ops = true ->
  glue_publish cPs esP (history cap ops) ->
  glue_dequeue k esS (history cap ops) ->
  flow_exclusive fl cPs k temp (history cap ops) = true ->
  no_will_in_flow fl esP = true ->
  Emb carries (filter (in_flow fl) (forwarded esS)) (arrived esP).
Proof.
  intros cap ops cPs k temp fl esP esS sP sS HP HS.
  apply e2e_order_clauses; [eapply arrival_link_holds; exact HP|eapply forward_link_holds; exact HS].
Qed.

(* With one candidate per arrival the statement is about two sequences of messages: the flow on the
   subscriber's wire is, message for message (topic and payload equal, QoS not raised), a subsequence of
   the messages on the publisher's wire in arrival order (QoS 0/1 at the PUBLISH, QoS 2 at the PUBREL). *)
Lemma message_eqb_true a b : message_eqb a b = true -> a = b.
Proof.
  destruct a as [t p q r], b as [t' p' q' r']. unfold message_eqb; cbn [m_topic m_payload m_qos m_retain].
  intros H. repeat (apply andb_true_iff in H as [H ?]).
  repeat match goal with
  | Hx : bytes_eqb _ _ = true |- _ => apply bytes_eqb_true in Hx
  | Hx : N.eqb _ _ = true |- _ => apply N.eqb_eq in Hx
  | Hx : Bool.eqb _ _ = true |- _ => apply Bool.eqb_prop in Hx
  end.
  congruence.
Qed.

Lemma Emb_heads xs (cs : list (list message)) :
  Emb carries xs cs -> forallb single_valued cs = true ->
  Emb capped xs (flat_map (fun c => match c with [] => [] | m :: _ => [m] end) cs).
Proof.
  intros H. induction H as [cs|xs c cs H IH|x xs c cs Hc H IH]; intros Hs; [apply Emb_nil| |];
    cbn [forallb] in Hs; apply andb_true_iff in Hs as [Hs1 Hs2]; cbn [flat_map].
  - apply Emb_app_l, IH, Hs2.
  - destruct Hc as (m & Hm & Hcap). destruct c as [|m0 rest]; [destruct Hm|].
    cbn [single_valued] in Hs1. cbn [app]. apply Emb_take; [|apply IH, Hs2].
    destruct Hm as [<-|Hm]; [exact Hcap|].
    rewrite forallb_forall in Hs1. rewrite (message_eqb_true _ _ (Hs1 m Hm)). exact Hcap.
Qed.

Theorem e2e_order_flat : forall cap ops cPs k temp fl esP esS sP sS,
  bc_run esP = Some sP -> bc_run esS = Some sS ->
  BackendLog.names_ok ops = true ->
  glue_publish cPs esP (history cap ops) ->
  glue_dequeue k esS (history cap ops) ->
  flow_exclusive fl cPs k temp (history cap ops) = true ->
  no_will_in_flow fl esP = true ->
  unambiguous esP = true ->
  Emb capped (filter (in_flow fl) (forwarded esS)) (arrived_msgs esP).
Proof.
  intros cap ops cPs k temp fl esP esS sP sS HP HS Hn Gp Gd Hx Hw Hu.
  apply Emb_heads; [|exact Hu]. eapply e2e_order; eassumption.
Qed.

(* ------------------------------------------------------------------ (b) once, intact *)

Theorem e2e_intact_once_clauses : forall cap ops k esS,
  forward_link esS = true ->
  BackendLog.names_ok ops = true ->
  glue_dequeue k esS (history cap ops) ->
  (forall x, In x (forwarded esS) ->
     In x (dequeued esS) /\
     exists temp y, In y (enqueued k temp (history cap ops)) /\ capped x y) /\
  (forall t p,
     (count_key t p (forwarded esS) <= count_key t p (dequeued esS))%nat /\
     (count_key t p (dequeued esS) <=
        count_key t p (enqueued k true (history cap ops)) + count_key t p (enqueued k false (history cap ops)))%nat).
Proof.
  intros cap ops k esS HS Hnames Gd.
  pose proof (forwarded_embeds_dequeued esS HS) as S1.
  assert (S2 : Emb eq (dequeued esS) (deq_results k (history cap ops))) by (apply prefix_Emb; [reflexivity|exact Gd]).
  assert (Hk : forall x y : message, x = y -> m_topic x = m_topic y /\ m_payload x = m_payload y) by (intros x y ->; auto).
  split.
  - intros x Hx. destruct (Emb_in eq _ _ x S1 Hx) as (y & Hy & <-). split; [exact Hy|].
    destruct (Emb_in eq _ _ x S2 Hy) as (z & Hz & <-).
    exact (EndToEndProofsBackend.backend_intact cap ops k x Hnames Hz).
  - intros t p. split; [apply (Emb_count eq t p _ _ Hk S1)|].
    pose proof (Emb_count eq t p _ _ Hk S2) as C2.
    pose proof (EndToEndProofsBackend.backend_once cap ops k t p Hnames) as C3. fold (history cap ops) in C3. lia.
Qed.

(* C06 end to end, on the subscriber's side.  Every fresh PUBLISH the subscriber's connection sends
   carries a message it dequeued, and that message is (topic and payload intact, QoS not raised) one
   that the delivery specification of the backend enqueued for session k — by BackendLog.enq_event: a
   copy of a Publish that returned nil while k held a matching filter (one copy whatever the number of
   matching filters), or a retained message replayed to k by a Subscribe; nothing is invented.  And
   once: for every (topic, payload) the number of fresh PUBLISHes carrying it is at most the number of
   times it was dequeued, which is at most the number of times it was enqueued for k. *)
Theorem e2e_intact_once : forall cap ops k esS sS,
  bc_run esS = Some sS ->
  BackendLog.names_ok ops = true ->
  glue_dequeue k esS (history cap ops) ->
  (forall x, In x (forwarded esS) ->
     In x (dequeued esS) /\
     exists temp y, In y (enqueued k temp (history cap ops)) /\ capped x y) /\
  (forall t p,
     (count_key t p (forwarded esS) <= count_key t p (dequeued esS))%nat /\
     (count_key t p (dequeued esS) <=
        count_key t p (enqueued k true (history cap ops)) + count_key t p (enqueued k false (history cap ops)))%nat).
Proof.
  intros cap ops k esS sS HS. apply e2e_intact_once_clauses. eapply forward_link_holds; exact HS.
Qed.

(* ... spelled out: where a forwarded message comes from.  It is a Publish operation of the history
   that returned nil at a moment when session k held a filter matching its topic (and the queue of its
   QoS class had room), with the same topic and payload and a QoS not below the forwarded one — or a
   message of the retained replay of a Subscribe by the connection holding k. *)
Theorem e2e_forwarded_origin : forall cap ops k esS sS x,
  bc_run esS = Some sS ->
  BackendLog.names_ok ops = true ->
  glue_dequeue k esS (history cap ops) ->
  In x (forwarded esS) ->
  exists st o r st1 s, In (st, o, r, st1) (history cap ops) /\ Backend.get_session st k = Some s /\
    match o with
    | Backend.OPublish c m got =>
        r = Backend.ROk /\ m_topic x = m_topic m /\ m_payload x = m_payload m /\ m_qos x <= m_qos m /\
        BackendSpec.has_match (Backend.s_subs s) (m_topic m) = true
    | Backend.OSubscribe c subs batches =>
        BackendLog.holds st c k = true /\ exists y, In y (concat batches) /\ capped x y
    | _ => False
    end.
Proof.
  intros cap ops k esS sS x HS Hnames Gd Hx.
  destruct (e2e_intact_once cap ops k esS sS HS Hnames Gd) as [Hin _].
  destruct (Hin x Hx) as (_ & temp & y & Hy & Hc).
  destruct (EndToEndProofsBackend.enqueued_reading k temp _ y Hy) as (st & o & r & st1 & s & Hstep & Hs & Ho).
  exists st, o, r, st1, s. split; [exact Hstep|split; [exact Hs|]].
  destruct o; try exact Ho.
  - destruct Ho as (_ & Hh & Hb). split; [exact Hh|exists y; split; assumption].
  - destruct Ho as (Hr & -> & _ & Hm & _). destruct Hc as (C1 & C2 & C3). cbn [m_topic m_payload m_qos] in *.
    repeat split; assumption.
Qed.
