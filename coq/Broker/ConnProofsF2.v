(* ConnProofsF2.v — the readable corollary of c08_ledger (ConnSpec7.v): NOTHING IS LOST.
   Every QoS 1/2 message the dequeuer obtained is, at the end of every accepted trace,
   acknowledged, or recorded in the session (and in the replica store the next resume will
   list), or its save failed, or it is in the hand of a goroutine of a connection that has
   not ended, or a clean session was started afterwards — or, after the packet ids wrapped
   around, its record was overwritten; the last case is excluded by c08_no_id_clash.
   Also: under c08_no_id_clash the strict ledger clause holds. *)
From Coq Require Import List NArith Bool Lia PeanoNat.
From GM Require Import Base.Lts Codec.Packet Session.Ids Session.Store Session.StoreProofs
  Broker.Conn Broker.ConnSpec Broker.ConnSpec6 Broker.ConnSpec7 Broker.ConnBase Broker.ConnProofsCDefs
  Broker.ConnProofsC0 Broker.ConnProofsC1 Broker.ConnProofsC5 Broker.ConnProofsC6 Broker.ConnProofsF1.
From GM Require Broker.ConnProofsE4.
Import ListNotations.
Open Scope N_scope.

(* ------------------------------------------------ the scanner, on its own *)

Definition is_fresh (e : event) : bool :=
  match e with ESetup _ (SOk _ true _ _ _) => true | _ => false end.

(* the ledger has an entry for the message dequeued at position k *)
Definition has (t : lg_st) (k : nat) (m : message) : Prop :=
  (exists g oid, aget (lg_hand t) g = Some (LH k m oid)) \/ (exists st, In (LMsg k m st) (lg_log t ++ lg_arch t)).

Lemma in_lg_upd f dflt id l y : In y (lg_upd f dflt id l) ->
  In y dflt \/ In y l \/ exists x, In x l /\ holds x id = true /\ In y (f x).
Proof.
  induction l as [|x l IH]; cbn [lg_upd]; [intros H; left; exact H|].
  destruct (holds x id) eqn:Eh.
  - intros H. apply in_app_or in H as [H|H].
    + right. right. exists x. split; [left; reflexivity|split; assumption].
    + right. left. right. exact H.
  - intros [<-|H]; [right; left; left; reflexivity|].
    destruct (IH H) as [H1|[H1|(x0 & H1 & H2 & H3)]]; [left; exact H1|right; left; right; exact H1|].
    right. right. exists x0. split; [right; exact H1|split; assumption].
Qed.

(* an entry stays an entry (its status may change) *)
Lemma lg_upd_keeps f dflt id l k m st :
  (forall x k m st, x = LMsg k m st -> exists st', In (LMsg k m st') (f x)) ->
  In (LMsg k m st) l -> exists st', In (LMsg k m st') (lg_upd f dflt id l).
Proof.
  intros Hf. induction l as [|x l IH]; cbn [lg_upd In]; [tauto|].
  intros [->|Hin].
  - destruct (holds (LMsg k m st) id).
    + destruct (Hf _ k m st eq_refl) as (st' & Hst). exists st'. apply in_or_app. left. exact Hst.
    + exists st. left. reflexivity.
  - destruct (holds x id).
    + exists st. apply in_or_app. right. exact Hin.
    + destruct (IH Hin) as (st' & Hst). exists st'. right. exact Hst.
Qed.

Lemma lg_put_keeps l id new k m st : In (LMsg k m st) l -> exists st', In (LMsg k m st') (lg_put l id new).
Proof.
  apply lg_upd_keeps. intros x k0 m0 st0 ->.
  destruct st0; cbn [it_over]; eexists; left; reflexivity.
Qed.
Lemma lg_rel_keeps l id k m st : In (LMsg k m st) l -> exists st', In (LMsg k m st') (lg_rel l id).
Proof.
  apply lg_upd_keeps. intros x k0 m0 st0 ->.
  destruct st0; cbn [it_release]; eexists; left; reflexivity.
Qed.
Lemma lg_del_keeps l id k m st : In (LMsg k m st) l -> exists st', In (LMsg k m st') (lg_del l id).
Proof.
  apply lg_upd_keeps. intros x k0 m0 st0 ->.
  destruct st0; cbn [it_done]; eexists; left; reflexivity.
Qed.

Lemma lg_put_new l id new : In new (lg_put l id new).
Proof.
  unfold lg_put. induction l as [|x l IH]; cbn [lg_upd]; [left; reflexivity|].
  destruct (holds x id); [right; left; reflexivity|right; exact IH].
Qed.

(* committing an updated list of records loses no entry *)
Lemma commit_keeps t l x : In x (l ++ lg_arch t) -> In x (lg_log (lg_commit t l) ++ lg_arch (lg_commit t l)).
Proof.
  cbn [lg_commit lg_log lg_arch]. intros H. apply in_app_or in H as [H|H].
  - destruct (is_live x) eqn:E.
    + apply in_or_app. left. apply filter_In. split; assumption.
    + apply in_or_app. right. apply in_or_app. left. apply filter_In. split; [exact H|rewrite E; reflexivity].
  - apply in_or_app. right. apply in_or_app. right. exact H.
Qed.

Lemma in_app_l {A} (x : A) l r : In x l -> In x (l ++ r).
Proof. intros H. apply in_or_app. left. exact H. Qed.
Lemma in_app_r {A} (x : A) l r : In x r -> In x (l ++ r).
Proof. intros H. apply in_or_app. right. exact H. Qed.

Lemma aget_cons {A} (l : list (N * A)) g v j : aget ((g, v) :: l) j = if j =? g then Some v else aget l j.
Proof. reflexivity. Qed.

Lemma aget_in {A} (l : list (N * A)) k v : aget l k = Some v -> In (k, v) l.
Proof.
  induction l as [|[j w] l IH]; cbn [aget]; [discriminate|].
  destruct (N.eqb_spec k j) as [->|Hne]; [intros H; injection H as ->; left; reflexivity|intros H; right; apply IH, H].
Qed.

Lemma act_keeps b t e t' k m : lg_act b t e = Some t' -> has t k m -> is_fresh e = true \/ has t' k m.
Proof.
  intros H Hh. unfold lg_act in H.
  destruct e; try (injection H as <-; right; exact Hh); inv_step H; injection H as <-; subst;
    try (right; exact Hh); cbn [is_fresh].
  - (* ENewConn *)
    right. destruct Hh as [(g0 & oid & Hg)|Hl]; [|right; exact Hl].
    match goal with Hx : lg_hand t = [] |- _ => rewrite Hx in Hg end. discriminate Hg.
  - (* Setup *)
    destruct fresh; [left; reflexivity|right; exact Hh].
  - (* DeqRet *)
    right. destruct Hh as [(g0 & oid & Hg)|Hl]; [|right; exact Hl].
    left. exists g0, oid. cbn [lg_with_hand lg_hand]. rewrite aget_cons.
    destruct (N.eqb_spec g0 g) as [->|Hne]; [|exact Hg].
    match goal with Hx : aget (lg_hand t) g = None |- _ => rewrite Hx in Hg end. discriminate Hg.
  - (* NextId *)
    right. destruct Hh as [(g0 & oid & Hg)|Hl]; [|right; exact Hl].
    left. cbn [lg_with_hand lg_hand]. destruct (N.eqb_spec g0 g) as [->|Hne].
    + match goal with Hx : aget (lg_hand t) g = Some _ |- _ => rewrite Hx in Hg; injection Hg as -> end.
      exists g, (Some id). rewrite aget_aput_same. reflexivity.
    + exists g0, oid. rewrite aget_aput_other by exact Hne. exact Hg.
  - (* Save ok *)
    right. destruct Hh as [(g0 & oid & Hg)|(st & Hl)].
    + destruct (N.eqb_spec g0 g) as [->|Hne].
      * match goal with Hx : aget (lg_hand t) g = Some _ |- _ => rewrite Hx in Hg; injection Hg as -> end.
        right. eexists. apply commit_keeps. apply in_app_l. cbn [lh_at lh_msg]. apply lg_put_new.
      * left. exists g0, oid. cbn [lg_commit lg_with_hand lg_hand]. rewrite aget_adel.
        destruct (N.eqb_spec g0 g); [contradiction|exact Hg].
    + right. apply in_app_or in Hl as [Hl|Hl].
      * destruct (lg_put_keeps _ id (LMsg (lh_at l) (lh_msg l) (LStored id)) _ _ _ Hl) as (st' & Hst).
        exists st'. apply commit_keeps. apply in_app_l. exact Hst.
      * exists st. apply commit_keeps. apply in_app_r. exact Hl.
  - (* Save failed *)
    right. destruct Hh as [(g0 & oid & Hg)|(st & Hl)].
    + destruct (N.eqb_spec g0 g) as [->|Hne].
      * match goal with Hx : aget (lg_hand t) g = Some _ |- _ => rewrite Hx in Hg; injection Hg as -> end.
        right. cbn [lg_log lg_arch lh_at lh_msg]. eexists. apply in_app_r. left. reflexivity.
      * left. exists g0, oid. cbn [lg_hand]. rewrite aget_adel. destruct (N.eqb_spec g0 g); [contradiction|exact Hg].
    + right. cbn [lg_log lg_arch]. exists st. apply in_app_or in Hl as [Hl|Hl]; [apply in_app_l; exact Hl|apply in_app_r; right; exact Hl].
  - (* Save Pubrel *)
    right. destruct ok; [|exact Hh]. destruct Hh as [Hg|(st & Hl)]; [left; exact Hg|].
    right. apply in_app_or in Hl as [Hl|Hl].
    + destruct (lg_rel_keeps _ id _ _ _ Hl) as (st' & Hst). exists st'. apply commit_keeps. apply in_app_l. exact Hst.
    + exists st. apply commit_keeps. apply in_app_r. exact Hl.
  - (* Delete *)
    right. destruct ok; [|exact Hh]. destruct Hh as [Hg|(st & Hl)]; [left; exact Hg|].
    right. apply in_app_or in Hl as [Hl|Hl].
    + destruct (lg_del_keeps _ id _ _ _ Hl) as (st' & Hst). exists st'. apply commit_keeps. apply in_app_l. exact Hst.
    + exists st. apply commit_keeps. apply in_app_r. exact Hl.
  - right. destruct ok; [|exact Hh]. destruct Hh as [Hg|(st & Hl)]; [left; exact Hg|].
    right. apply in_app_or in Hl as [Hl|Hl].
    + destruct (lg_del_keeps _ id _ _ _ Hl) as (st' & Hst). exists st'. apply commit_keeps. apply in_app_l. exact Hst.
    + exists st. apply commit_keeps. apply in_app_r. exact Hl.
  - (* EClosed *)
    right. destruct Hh as [(g0 & oid & Hg)|Hl]; [|right; exact Hl].
    match goal with Hx : lg_idle t = true |- _ => unfold lg_idle in Hx; destruct (lg_hand t); [|discriminate Hx] end.
    discriminate Hg.
Qed.

Lemma act_n b t e t' : lg_act b t e = Some t' -> lg_n t' = lg_n t.
Proof.
  intros H. unfold lg_act in H.
  destruct e; try (injection H as <-; reflexivity); inv_step H; injection H as <-; subst;
    repeat match goal with |- context[if ?c then _ else _] => destruct c end; reflexivity.
Qed.

Lemma act_open b t e t' : lg_act b t e = Some t' ->
  lg_open t' = match e with ENewConn => true | EClosed => false | _ => lg_open t end.
Proof.
  intros H. unfold lg_act in H.
  destruct e; try (injection H as <-; reflexivity); inv_step H; injection H as <-; subst;
    repeat match goal with |- context[if ?c then _ else _] => destruct c end; reflexivity.
Qed.

(* the records are in lg_log, the closed entries in lg_arch *)
Definition lg_wf (t : lg_st) : Prop :=
  Forall (fun x => is_live x = true) (lg_log t) /\ Forall (fun x => is_live x = false) (lg_arch t).

Lemma commit_wf t l : lg_wf t -> lg_wf (lg_commit t l).
Proof.
  intros [_ H2]. split; cbn [lg_commit lg_log lg_arch].
  - apply Forall_forall. intros x Hx. apply filter_In in Hx as [_ Hx]. exact Hx.
  - apply Forall_app. split; [|exact H2]. apply Forall_forall. intros x Hx. apply filter_In in Hx as [_ Hx].
    destruct (is_live x); [discriminate Hx|reflexivity].
Qed.

Lemma act_wf b t e t' : lg_act b t e = Some t' -> lg_wf t -> lg_wf t'.
Proof.
  intros H Hw. unfold lg_act in H.
  destruct e; try (injection H as <-; exact Hw); inv_step H; injection H as <-; subst; try exact Hw.
  - destruct fresh; [split; constructor|exact Hw].
  - apply commit_wf. exact Hw.
  - destruct Hw as [H1 H2]. split; cbn [lg_log lg_arch]; [exact H1|constructor; [reflexivity|exact H2]].
  - destruct ok; [apply commit_wf|]; exact Hw.
  - destruct ok; [apply commit_wf|]; exact Hw.
  - destruct ok; [apply commit_wf|]; exact Hw.
Qed.

Lemma step_inv_act b t e t' : lg_step b t e = Some t' -> exists t1, lg_act b t e = Some t1 /\ t' = lg_tick t1.
Proof. unfold lg_step. destruct (lg_act b t e) as [t1|]; [|discriminate]. intros H. injection H as <-. exists t1. split; reflexivity. Qed.

Lemma step_keeps b t e t' k m : lg_step b t e = Some t' -> has t k m -> is_fresh e = true \/ has t' k m.
Proof.
  intros H Hh. apply step_inv_act in H as (t1 & Ha & ->).
  destruct (act_keeps _ _ _ _ _ _ Ha Hh) as [Hf|Hk]; [left; exact Hf|right; exact Hk].
Qed.

Lemma step_n b t e t' : lg_step b t e = Some t' -> lg_n t' = S (lg_n t).
Proof. intros H. apply step_inv_act in H as (t1 & Ha & ->). cbn [lg_tick lg_n]. rewrite (act_n _ _ _ _ Ha). reflexivity. Qed.

Lemma step_open b t e t' : lg_step b t e = Some t' ->
  lg_open t' = match e with ENewConn => true | EClosed => false | _ => lg_open t end.
Proof. intros H. apply step_inv_act in H as (t1 & Ha & ->). cbn [lg_tick lg_open]. exact (act_open _ _ _ _ Ha). Qed.

Definition fresh_in (es : list event) : Prop :=
  exists j g r w p b, nth_error es j = Some (ESetup g (SOk r true w p b)).

Lemma is_fresh_inv e : is_fresh e = true -> exists g r w p b, e = ESetup g (SOk r true w p b).
Proof.
  destruct e; try discriminate. destruct r; try discriminate. destruct fresh; try discriminate.
  intros _. eexists _, _, _, _, _. reflexivity.
Qed.

Lemma has_persists b es : forall t t' k m, srun (lg_step b) t es = Some t' -> has t k m -> fresh_in es \/ has t' k m.
Proof.
  induction es as [|e es IH]; intros t t' k m Hrun Hh; cbn [srun] in Hrun.
  - injection Hrun as <-. right. exact Hh.
  - destruct (lg_step b t e) as [t1|] eqn:E; [|discriminate Hrun].
    destruct (step_keeps _ _ _ _ _ _ E Hh) as [Hf|Hk].
    + left. apply is_fresh_inv in Hf as (g & r & w & p & b0 & ->). exists 0%nat, g, r, w, p, b0. reflexivity.
    + destruct (IH _ _ _ _ Hrun Hk) as [(j & g & r & w & p & b0 & Hj)|Hk']; [|right; exact Hk'].
      left. exists (S j), g, r, w, p, b0. exact Hj.
Qed.

(* every dequeued QoS 1/2 message gets an entry, which stays until a clean session *)
Lemma deq_has b es : forall t t' i g m ba, srun (lg_step b) t es = Some t' ->
  nth_error es i = Some (EDeqRet g (QMsg m ba)) -> 0 < m_qos m ->
  (exists j g' r w p b', (i < j)%nat /\ nth_error es j = Some (ESetup g' (SOk r true w p b'))) \/
  has t' (lg_n t + i) m.
Proof.
  induction es as [|e es IH]; intros t t' i g m ba Hrun Hi Hq; [destruct i; discriminate Hi|].
  cbn [srun] in Hrun. destruct (lg_step b t e) as [t1|] eqn:E; [|discriminate Hrun].
  destruct i as [|i]; cbn [nth_error] in Hi.
  - injection Hi as ->.
    assert (H1 : has t1 (lg_n t) m).
    { apply step_inv_act in E as (t0 & Ha & ->). cbn [lg_act] in Ha.
      destruct (N.eqb_spec (m_qos m) 0) as [E0|_]; [rewrite E0 in Hq; discriminate Hq|].
      destruct (aget (lg_hand t) g) eqn:Eg; [discriminate Ha|]. injection Ha as <-.
      left. exists g, None. cbn [lg_tick lg_with_hand lg_hand]. rewrite aget_cons, N.eqb_refl. reflexivity. }
    destruct (has_persists _ _ _ _ _ _ Hrun H1) as [(j & g' & r & w & p & b' & Hj)|Hk].
    + left. exists (S j), g', r, w, p, b'. split; [lia|exact Hj].
    + right. rewrite Nat.add_0_r. exact Hk.
  - destruct (IH _ _ _ _ _ _ Hrun Hi Hq) as [(j & g' & r & w & p & b' & Hlt & Hj)|Hk].
    + left. exists (S j), g', r, w, p, b'. split; [lia|exact Hj].
    + right. rewrite (step_n _ _ _ _ E) in Hk. replace (lg_n t + S i)%nat with (S (lg_n t) + i)%nat by lia. exact Hk.
Qed.

Lemma srun_wf b es : forall t t', srun (lg_step b) t es = Some t' -> lg_wf t -> lg_wf t'.
Proof.
  induction es as [|e es IH]; intros t t' Hrun Hw; cbn [srun] in Hrun; [injection Hrun as <-; exact Hw|].
  destruct (lg_step b t e) as [t1|] eqn:E; [|discriminate Hrun].
  apply (IH _ _ Hrun). apply step_inv_act in E as (t0 & Ha & ->). exact (act_wf _ _ _ _ Ha Hw).
Qed.

Lemma wf_live t x : lg_wf t -> In x (lg_log t ++ lg_arch t) -> is_live x = true -> In x (lg_log t).
Proof.
  intros [_ H2] Hin Hl. apply in_app_or in Hin as [Hin|Hin]; [exact Hin|].
  rewrite Forall_forall in H2. rewrite (H2 _ Hin) in Hl. discriminate Hl.
Qed.
Lemma wf_closed t x : lg_wf t -> In x (lg_log t ++ lg_arch t) -> is_live x = false -> In x (lg_arch t).
Proof.
  intros [H1 _] Hin Hl. apply in_app_or in Hin as [Hin|Hin]; [|exact Hin].
  rewrite Forall_forall in H1. rewrite (H1 _ Hin) in Hl. discriminate Hl.
Qed.

Lemma open_is_live b es : forall t t', srun (lg_step b) t es = Some t' ->
  lg_open t' = fold_left (fun o e => match e with ENewConn => true | EClosed => false | _ => o end) es (lg_open t).
Proof.
  induction es as [|e es IH]; intros t t' Hrun; cbn [srun fold_left] in *.
  - injection Hrun as <-. reflexivity.
  - destruct (lg_step b t e) as [t1|] eqn:E; [|discriminate Hrun].
    rewrite (IH _ _ Hrun), (step_open _ _ _ _ E). reflexivity.
Qed.

(* ------------------------------------------------------- with the model *)

Lemma undup_publish p m id : undup p = Publish false m id -> exists d, p = Publish d m id.
Proof. destruct p; cbn [undup]; intros H; try discriminate H. injection H as -> ->. eexists. reflexivity. Qed.
Lemma undup_pubrel p id : undup p = Pubrel id -> p = Pubrel id.
Proof. destruct p; cbn [undup]; intros H; try discriminate H. exact H. Qed.

Lemma in_lg_live x l i p : In x l -> item_rec x = Some (i, p) -> In (i, p) (lg_live l).
Proof.
  intros Hin Hx. unfold lg_live. apply in_flat_map. exists x. split; [exact Hin|]. rewrite Hx. left. reflexivity.
Qed.

(* the replica store of c08_store_replica is the model's outgoing store *)
Lemma replica_is_store es s : bc_run es = Some s -> replica es = s_out (sess s).
Proof.
  intros Hrun. unfold replica.
  destruct (srun_rel_from sr_step (fun _ => True) ConnProofsE4.sr_rel (fun _ _ _ _ _ => I)
              (fun s0 t0 e s1 _ HR H => ConnProofsE4.sr_hstep s0 t0 e s1 HR H)
              es bc_init (SrSt [] None) s I (conj eq_refl eq_refl) Hrun) as (t & Ht & [Hst _] & _).
  rewrite Ht. exact Hst.
Qed.

Lemma conn_live_open es t : ledger_of es = Some t -> lg_open t = conn_live es.
Proof. intros H. unfold ledger_of in H. rewrite (open_is_live _ _ _ _ H). reflexivity. Qed.

Lemma recorded_in_store s t x i p :
  R_lg s t -> In x (lg_log t) -> item_rec x = Some (i, p) -> exists q, In (i, q) (s_out (sess s)) /\ undup q = p.
Proof.
  intros HR Hin Hx. pose proof (in_lg_live _ _ _ _ Hin Hx) as Hl. rewrite <- (R_store _ _ HR) in Hl.
  apply in_map_iff in Hl as ([j q] & E & Hq). unfold undup1 in E. cbn [fst snd] in E. injection E as -> E.
  exists q. split; assumption.
Qed.

Lemma fate_of_entry es s t i m :
  bc_run es = Some s -> ledger_of es = Some t -> R_lg s t -> INV2 s -> has t i m -> accounted es i m.
Proof.
  intros Hrun Ht HR [HI HW] [(g & oid & Hg)|(st & Hl)].
  - (* in hand: the dequeuer is between Dequeue and SavePacket, the connection is open *)
    exists (FInHand g). cbn [fate_is]. split.
    + rewrite <- (conn_live_open _ _ Ht), (R_o _ _ HR).
      pose proof (R_h _ _ HR) as Hh. unfold conn_open. destruct (lp s) eqn:El; try reflexivity.
      destruct (W_gone _ HW) as [_ Hd]; [rewrite El; discriminate|].
      destruct Hd as [Hd|Hd]; rewrite Hd in Hh; cbn [R_hand] in Hh; rewrite Hh in Hg; discriminate Hg.
    + exists t, oid. split; [exact Ht|apply aget_in; exact Hg].
  - assert (Hw : lg_wf t) by (unfold ledger_of in Ht; apply (srun_wf _ _ _ _ Ht); split; constructor).
    destruct st as [id|id|id| |id].
    + pose proof (wf_live _ _ Hw Hl eq_refl) as Hl'.
      exists (FRecorded id). cbn [fate_is]. exists t. split; [exact Ht|]. left. split; [exact Hl'|].
      destruct (recorded_in_store _ _ _ _ _ HR Hl' eq_refl) as (q & Hq & Hu).
      apply undup_publish in Hu as (d & ->). exists d. rewrite (replica_is_store _ _ Hrun). exact Hq.
    + pose proof (wf_live _ _ Hw Hl eq_refl) as Hl'.
      exists (FRecorded id). cbn [fate_is]. exists t. split; [exact Ht|]. right. split; [exact Hl'|].
      destruct (recorded_in_store _ _ _ _ _ HR Hl' eq_refl) as (q & Hq & Hu).
      apply undup_pubrel in Hu as ->. rewrite (replica_is_store _ _ Hrun). exact Hq.
    + exists (FAcked id). cbn [fate_is]. exists t. split; [exact Ht|exact (wf_closed _ _ Hw Hl eq_refl)].
    + exists FSaveFailed. cbn [fate_is]. exists t. split; [exact Ht|exact (wf_closed _ _ Hw Hl eq_refl)].
    + exists (FOverwritten id). cbn [fate_is]. exists t. split; [exact Ht|exact (wf_closed _ _ Hw Hl eq_refl)].
Qed.

Theorem nothing_lost_holds : forall es s, bc_run es = Some s -> nothing_lost es.
Proof.
  intros es s Hrun i m (g & ba & Hi & Hq).
  destruct (ledger_of_run _ _ Hrun) as (t & Ht & HR & HI).
  destruct (deq_has false es lg_init t i g m ba Ht Hi Hq) as [Hf|Hh].
  - exists FCleanSession. exact Hf.
  - cbn [lg_init lg_n] in Hh. rewrite Nat.add_0_l in Hh. eapply fate_of_entry; eassumption.
Qed.

(* ------------------------------------------- without id clashes: strict *)

Lemma act_strict t e t1 : lg_act true t e = Some t1 -> lg_act false t e = Some t1.
Proof.
  destruct e; try exact (fun x => x). destruct d; try exact (fun x => x). destruct p; try exact (fun x => x).
  cbn [lg_act]. destruct (aget (lg_hand t) g) as [h|]; [|exact (fun x => x)].
  destruct (negb dup && message_eqb m (lh_msg h) && option_eqb N.eqb (lh_id h) (Some id)); [|exact (fun x => x)].
  destruct ok; [|exact (fun x => x)]. cbn [andb]. destruct (lg_clash (lg_log t) id); [discriminate|exact (fun x => x)].
Qed.

Lemma step_strict t e t1 : lg_step true t e = Some t1 -> lg_step false t e = Some t1.
Proof.
  unfold lg_step. destruct (lg_act true t e) as [t0|] eqn:E; [|discriminate]. rewrite (act_strict _ _ _ E). exact (fun x => x).
Qed.

(* where no id clashes, the strict ledger is the ledger *)
Lemma srun_strict es : forall t t', srun (lg_step false) t es = Some t' -> scan nc_step t es = true ->
  srun (lg_step true) t es = Some t'.
Proof.
  induction es as [|e es IH]; intros t t' Hrun Hnc; cbn [srun scan] in *; [exact Hrun|].
  destruct (lg_step false t e) as [t1|] eqn:E; [|discriminate Hrun].
  unfold nc_step in Hnc. destruct (lg_step true t e) as [t2|] eqn:E2.
  - rewrite (step_strict _ _ _ E2) in E. injection E as <-. apply IH; assumption.
  - rewrite E in Hnc. discriminate Hnc.
Qed.

Lemma scan_of_srun {S : Type} (f : S -> event -> option S) es : forall t t', srun f t es = Some t' -> scan f t es = true.
Proof.
  induction es as [|e es IH]; intros t t' H; cbn [srun scan] in *; [reflexivity|].
  destruct (f t e) as [t1|]; [eapply IH; exact H|discriminate H].
Qed.

Definition no_over (l : list litem) : Prop := forall k m id, ~ In (LMsg k m (LOverwritten id)) l.

Lemma lg_clash_false l id x : lg_clash l id = false -> In x l -> holds x id = true -> is_msg x = false.
Proof.
  unfold lg_clash. intros Hc Hin Hh. destruct (is_msg x) eqn:Em; [|reflexivity].
  assert (Hex : existsb (fun x => is_msg x && holds x id) l = true).
  { apply existsb_exists. exists x. split; [exact Hin|]. rewrite Em, Hh. reflexivity. }
  rewrite Hex in Hc. discriminate Hc.
Qed.

Lemma no_over_commit t l : no_over (l ++ lg_arch t) -> no_over (lg_log (lg_commit t l) ++ lg_arch (lg_commit t l)).
Proof.
  intros Hn k m id Hin. apply (Hn k m id). cbn [lg_commit lg_log lg_arch] in Hin.
  apply in_app_or in Hin as [Hin|Hin]; [apply filter_In in Hin as [Hin _]; apply in_app_l; exact Hin|].
  apply in_app_or in Hin as [Hin|Hin]; [apply filter_In in Hin as [Hin _]; apply in_app_l; exact Hin|apply in_app_r; exact Hin].
Qed.

Lemma no_over_app l r : no_over l -> no_over r -> no_over (l ++ r).
Proof. intros H1 H2 k m id Hin. apply in_app_or in Hin as [Hin|Hin]; [exact (H1 _ _ _ Hin)|exact (H2 _ _ _ Hin)]. Qed.
Lemma no_over_l l r : no_over (l ++ r) -> no_over l.
Proof. intros H k m id Hin. apply (H k m id). apply in_app_l. exact Hin. Qed.
Lemma no_over_r l r : no_over (l ++ r) -> no_over r.
Proof. intros H k m id Hin. apply (H k m id). apply in_app_r. exact Hin. Qed.

Lemma act_no_over t e t' : lg_act true t e = Some t' -> no_over (lg_log t ++ lg_arch t) -> no_over (lg_log t' ++ lg_arch t').
Proof.
  intros H Hn. unfold lg_act in H.
  destruct e; try (injection H as <-; exact Hn); inv_step H; injection H as <-; subst; try exact Hn.
  - (* Setup *) destruct fresh; [intros k m id []|exact Hn].
  - (* Save ok, no clash *)
    apply no_over_commit. cbn [lg_with_hand lg_arch]. apply no_over_app; [|exact (no_over_r _ _ Hn)].
    intros k mx idx Hin. unfold lg_put in Hin.
    apply in_lg_upd in Hin as [Hin|[Hin|(x & Hx & Hh & Hin)]].
    + destruct Hin as [Hin|[]]. discriminate Hin.
    + exact (no_over_l _ _ Hn _ _ _ Hin).
    + match goal with Hc : true && lg_clash _ _ = false |- _ => cbn [andb] in Hc; pose proof (lg_clash_false _ _ _ Hc Hx Hh) as Hm end.
      destruct x as [a m1 st|i lv]; [discriminate Hm|].
      destruct Hin as [Hin|[Hin|[]]]; discriminate Hin.
  - (* Save failed *)
    cbn [lg_log lg_arch]. intros k mx idx Hin. apply in_app_or in Hin as [Hin|[Hin|Hin]];
      [exact (no_over_l _ _ Hn _ _ _ Hin)|discriminate Hin|exact (no_over_r _ _ Hn _ _ _ Hin)].
  - (* Save Pubrel *)
    destruct ok; [|exact Hn]. apply no_over_commit. apply no_over_app; [|exact (no_over_r _ _ Hn)].
    intros k mx idx Hin. unfold lg_rel in Hin.
    apply in_lg_upd in Hin as [Hin|[Hin|(x & Hx & Hh & Hin)]].
    + destruct Hin as [Hin|[]]. discriminate Hin.
    + exact (no_over_l _ _ Hn _ _ _ Hin).
    + destruct Hin as [Hin|[]]. destruct x as [a m1 [i|i|i| |i]|i lv]; cbn [it_release] in Hin; try discriminate Hin.
      rewrite Hin in Hx. exact (no_over_l _ _ Hn _ _ _ Hx).
  - (* Delete *)
    destruct ok; [|exact Hn]. apply no_over_commit. apply no_over_app; [|exact (no_over_r _ _ Hn)].
    intros k mx idx Hin. unfold lg_del in Hin.
    apply in_lg_upd in Hin as [Hin|[Hin|(x & Hx & Hh & Hin)]].
    + destruct Hin.
    + exact (no_over_l _ _ Hn _ _ _ Hin).
    + destruct Hin as [Hin|[]]. destruct x as [a m1 [i|i|i| |i]|i lv]; cbn [it_done] in Hin; try discriminate Hin.
      rewrite Hin in Hx. exact (no_over_l _ _ Hn _ _ _ Hx).
  - destruct ok; [|exact Hn]. apply no_over_commit. apply no_over_app; [|exact (no_over_r _ _ Hn)].
    intros k mx idx Hin. unfold lg_del in Hin.
    apply in_lg_upd in Hin as [Hin|[Hin|(x & Hx & Hh & Hin)]].
    + destruct Hin.
    + exact (no_over_l _ _ Hn _ _ _ Hin).
    + destruct Hin as [Hin|[]]. destruct x as [a m1 [i|i|i| |i]|i lv]; cbn [it_done] in Hin; try discriminate Hin.
      rewrite Hin in Hx. exact (no_over_l _ _ Hn _ _ _ Hx).
Qed.

Lemma srun_no_over es : forall t t', srun (lg_step true) t es = Some t' ->
  no_over (lg_log t ++ lg_arch t) -> no_over (lg_log t' ++ lg_arch t').
Proof.
  induction es as [|e es IH]; intros t t' Hrun Hn; cbn [srun] in Hrun; [injection Hrun as <-; exact Hn|].
  destruct (lg_step true t e) as [t1|] eqn:E; [|discriminate Hrun].
  apply (IH _ _ Hrun). apply step_inv_act in E as (t0 & Ha & ->). cbn [lg_tick lg_log lg_arch]. exact (act_no_over _ _ _ Ha Hn).
Qed.

Theorem c08_ledger_strict_holds : forall es s,
  bc_run es = Some s -> c08_no_id_clash es = true -> c08_ledger_strict es = true.
Proof.
  intros es s Hrun Hnc. destruct (ledger_of_run _ _ Hrun) as (t & Ht & _).
  unfold c08_ledger_strict. eapply scan_of_srun. apply srun_strict; [exact Ht|exact Hnc].
Qed.

Theorem nothing_lost_strict_holds : forall es s,
  bc_run es = Some s -> c08_no_id_clash es = true -> nothing_lost_strict es.
Proof.
  intros es s Hrun Hnc i m Hd. destruct (nothing_lost_holds _ _ Hrun i m Hd) as (f & Hf).
  exists f. split; [exact Hf|]. destruct f; try exact I.
  cbn [fate_is] in Hf. destruct Hf as (t & Ht & Hin).
  pose proof (srun_strict _ _ _ Ht Hnc) as Hs.
  exact (srun_no_over _ _ _ Hs (fun k m0 id0 (H : In _ []) => H) _ _ _ (in_app_r _ _ _ Hin)).
Qed.

Print Assumptions nothing_lost_holds.
Print Assumptions c08_ledger_strict_holds.
Print Assumptions nothing_lost_strict_holds.
