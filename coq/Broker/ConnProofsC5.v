(* ConnProofsC5.v — C16, model-level statements: token conservation, tokens
   returned by QoS 0 deliveries and by processed acknowledgements, and
   "a dequeue is never blocked while a window slot is free". *)
From Coq Require Import List NArith Bool Lia ZArith ZifyN ZifyNat ZifyBool.
From GM Require Import Base.Lts Codec.Packet Session.Ids Session.Store Session.StoreProofs
  Broker.Conn Broker.ConnSpec Broker.ConnBase Broker.ConnProofsCDefs Broker.ConnProofsC0 Broker.ConnProofsC1
  Broker.ConnProofsC2 Broker.ConnProofsC4.
Import ListNotations.
Open Scope N_scope.

(* --------------------------------------------------- a second model invariant *)

(* tokens never exceed the window; once cleanup has begun the coroutines are gone *)
Record INVW (s : bc) : Prop := MkINVW {
  W_cap : tdeq s <= cw s;
  W_gone : lp s <> LNone -> pp s = PDone /\ (dp s = DOff \/ dp s = DDone) }.

Lemma INVW_init : INVW bc_init.
Proof. constructor; cbn; [lia|]. intros _. split; [reflexivity|left; reflexivity]. Qed.

Lemma INVW_frame s s' :
  tdeq s' <= cw s' -> lp s' = lp s -> pp s' = pp s -> dp s' = dp s -> INVW s -> INVW s'.
Proof. intros Ht El Ep Ed [H1 H2]. constructor; [exact Ht|]. rewrite El, Ep, Ed. exact H2. Qed.

Lemma INVW_same s s' : same_pd s s' -> lp s' = lp s -> INVW s -> INVW s'.
Proof.
  intros Hs El HW. apply (INVW_frame s s'); try assumption;
    [rewrite (sp_tdeq _ _ Hs), (sp_cw _ _ Hs); apply (W_cap _ HW)|apply (sp_pp _ _ Hs)|apply (sp_dp _ _ Hs)].
Qed.

Lemma INVW_learned s s1 : learned s s1 -> INVW s -> INVW s1.
Proof. intros [->|(g & _ & [[_ ->]|[[_ ->]|[[_ ->]|[_ ->]]]])] HR; try exact HR; destruct HR as [H1 H2]; constructor; assumption. Qed.

Lemma INVW_proc s e s' : INVW s -> step_proc s e = Some s' -> INVW s'.
Proof.
  intros [H1 H2] H.
  assert (Hl : lp s = LNone).
  { destruct (lp s) eqn:El; try reflexivity; destruct H2 as [Hp _]; try discriminate;
      unfold step_proc in H; rewrite Hp in H; discriminate H. }
  assert (Hlp : lp s' = lp s /\ tdeq s' <= cw s').
  { unfold step_proc, proc_dispatch, die_p, guard in H.
    inv_step H; inv_helpers; injection H as <-; subst; bcsimpl; split; try reflexivity; try lia.
    - destruct fresh; reflexivity.
    - unfold take_deq_if_any, take_deq; destruct (0 <? tdeq s); reflexivity.
    - unfold take_deq_if_any, take_deq; destruct (0 <? tdeq s); bcsimpl; lia.
    - unfold take_deq_if_any, take_deq; destruct (0 <? tdeq s); reflexivity.
    - unfold take_deq_if_any, take_deq; destruct (0 <? tdeq s); bcsimpl; lia. }
  destruct Hlp as [El Ht]. constructor; [exact Ht|]. rewrite El, Hl. intros C. contradiction.
Qed.

Lemma INVW_deq s e s' : INVW s -> step_deq s e = Some s' -> INVW s'.
Proof.
  intros [H1 H2] H.
  assert (Hl : lp s = LNone).
  { destruct (lp s) eqn:El; try reflexivity; destruct H2 as [_ [Hd|Hd]]; try discriminate;
      unfold step_deq in H; rewrite Hd in H; discriminate H. }
  assert (Hlp : lp s' = lp s /\ tdeq s' <= cw s').
  { unfold step_deq, guard in H.
    inv_step H; inv_helpers; injection H as <-; subst; bcsimpl; split; try reflexivity; try lia.
    - destruct p; try reflexivity. destruct (m_qos m =? 0); reflexivity.
    - destruct p; bcsimpl; try lia. destruct (m_qos m =? 0); bcsimpl; lia. }
  destruct Hlp as [El Ht]. constructor; [exact Ht|]. rewrite El, Hl. intros C. contradiction.
Qed.

Lemma INVW_frozen s s' : frozen s s' -> lp s' <> LNone -> INVW s -> INVW s'.
Proof.
  intros Hf Hl [H1 H2]. constructor.
  - rewrite (fz_tdeq _ _ Hf), (fz_cw _ _ Hf). exact H1.
  - intros _. split; [apply (fz_pp _ _ Hf)|]. rewrite (fz_dp _ _ Hf). destruct (dp s); [left|right..]; reflexivity.
Qed.

Lemma INVW_cleanup s e s' : INVW s -> step_cleanup s e = Some s' -> INVW s'.
Proof.
  intros HW H. pose proof H as H0. unfold step_cleanup, guard in H.
  inv_step H; injection H as <-.
  all: try (apply (INVW_frame s); bcsimpl; try reflexivity; try apply (W_cap _ HW); fail).
  all: try (destruct HW as [H1 H2]; constructor; bcsimpl; [exact H1|];
            intros _; apply H2; match goal with Hl : lp _ = _ |- _ => rewrite Hl end; discriminate).
  all: destruct HW as [H1 H2]; constructor; bcsimpl; [exact H1|];
       intros _; (split; [reflexivity|destruct (dp s); [left|right..]; reflexivity]).
Qed.

Lemma INVW_step s e s' : INVW s -> step s e = Some s' -> INVW s'.
Proof.
  intros HW H. apply step_inv in H.
  destruct H as [He Ho ->|He Ho ->|He Hq ->|Hc|g s1 Hg Hl Hr Ho Hp|g s1 Hg Hl Hr Ho Hnp Hd
                |g s1 Hg Hl Hr Ho Hnp Hnd Ha|g s1 Hg Hl Hr Ho Hc|He Hc|g He Ho ->].
  - constructor; bcsimpl; [lia|]. intros C; contradiction.
  - exact HW.
  - exact HW.
  - apply step_clo_sum in Hc as (_ & Hs & El & _). eapply INVW_same; eassumption.
  - eapply INVW_proc; [eapply INVW_learned; eassumption|exact Hp].
  - eapply INVW_deq; [eapply INVW_learned; eassumption|exact Hd].
  - pose proof (step_ack_sum _ _ _ Ha) as (Hs & El & _). eapply INVW_same; [exact Hs|exact El|eapply INVW_learned; eassumption].
  - eapply INVW_cleanup; [eapply INVW_learned; eassumption|exact Hc].
  - eapply INVW_cleanup; eassumption.
  - apply (INVW_frame s); bcsimpl; try reflexivity; [apply (W_cap _ HW)|exact HW].
Qed.

Theorem INVW_reachable es s : bc_run es = Some s -> INVW s.
Proof. apply (bc_invariant INVW INVW_init INVW_step). Qed.

(* ------------------------------------------------------------ conservation *)

Lemma wb_run_rel : forall es s t u s', INV s -> R_wb s t u -> Lts.run step s es = Some s' ->
  scan rf_step u es = true -> exists t' u', srun wb_step t es = Some t' /\ R_wb s' t' u'.
Proof.
  induction es as [|e es IH]; intros s t u s' HI HR Hrun Hh.
  - cbn in Hrun. injection Hrun as <-. exists t, u. split; [reflexivity|exact HR].
  - cbn [Lts.run] in Hrun. destruct (step s e) as [s1|] eqn:E; [|discriminate].
    cbn [scan] in Hh. destruct (rf_step u e) as [u1|] eqn:Eh; [|discriminate].
    destruct (wb_step_ok s t u e s1 u1 HI HR E Eh) as (t1 & Ef & HR1).
    cbn [srun]. rewrite Ef. eapply IH; [eapply INV_step; eassumption|exact HR1|exact Hrun|exact Hh].
Qed.

(* Token conservation.  [wb_fl t] are the ids the c16_bound scanner holds in flight on the
   current connection (QoS>0 PUBLISH or re-sent PUBREL sent successfully, PUBACK/PUBCOMP not
   yet received), [wb_spur t] says that the peer acknowledged an id that was not in flight.  For every
   accepted trace whose resumes fit the window, in the state reached:
     in flight + free slots + slot held by the dequeuer + slot being returned <= W
   unless the peer has sent a spurious acknowledgement in this session; and the
   number of free slots never exceeds W, unconditionally. *)
Theorem c16_conservation_holds : forall es s,
  bc_run es = Some s ->
  tdeq s <= cw s /\
  (c16_resume_fits es = true ->
   exists t, srun wb_step (WbSt 0 [] false) es = Some t /\
     (wb_spur t = true \/
      N.of_nat (length (wb_fl t)) + tdeq s + held (dp s) + credit (pp s) <= cw s)).
Proof.
  intros es s Hrun. split; [apply (W_cap _ (INVW_reachable _ _ Hrun))|]. intros Hh.
  destruct (wb_run_rel es bc_init (WbSt 0 [] false) 0 s INV_init R_wb_init Hrun Hh) as (t & u & E & _ & _ & HB).
  exists t. split; [exact E|]. destruct HB as [Hs|(Hi & _)]; [left; exact Hs|right; exact Hi].
Qed.

(* ------------------------------------------------ tokens come back (no leak) *)

(* every accepted successful send of a fresh QoS 0 PUBLISH is a delivery by the dequeuer
   and returns its window slot at once *)
Theorem c16_qos0_free_holds : forall es s g m id a s',
  bc_run es = Some s -> m_qos m = 0 ->
  step s (ETx g (Publish false m id) a true) = Some s' ->
  dp s = DSend (Publish false m id) /\ dp s' = DToken /\ tdeq s' = N.min (cw s) (tdeq s + 1) /\ cw s' = cw s.
Proof.
  intros es s g m id a s' Hrun Hq H. pose proof (INV_reachable _ _ Hrun) as HI.
  apply step_inv in H.
  destruct H as [He Ho ->|He Ho ->|He Hq' ->|Hc|g' s1 Hg Hl Hr Ho Hp|g' s1 Hg Hl Hr Ho Hnp Hd
                |g' s1 Hg Hl Hr Ho Hnp Hnd Ha|g' s1 Hg Hl Hr Ho Hc|He Hc|g' He Ho ->]; try discriminate.
  - exfalso. unfold step_proc, proc_dispatch, die_p, guard in Hp.
    inv_step Hp; try discriminate.
    all: match goal with Hx : packet_eqb _ (set_dup _) = true |- _ => apply resend_not_fresh in Hx; exact Hx end.
  - assert (Ed : dp s1 = dp s /\ cw s1 = cw s /\ tdeq s1 = tdeq s).
    { destruct Hl as [->|(g0 & _ & [[_ ->]|[[_ ->]|[[_ ->]|[_ ->]]]])]; repeat split. }
    destruct Ed as (Ed & Ec & Et). rewrite <- Ed, <- Ec, <- Et.
    pose proof (I_shape _ (INV_learned _ _ Hl HI)) as Hsh.
    unfold step_deq, guard in Hd. inv_step Hd; injection Hd as <-; cbn [dp_shape] in Hsh.
    destruct Hsh as (m0 & id0 & ->).
    match goal with Hx : packet_eqb _ _ = true |- _ => apply packet_eqb_publish_l in Hx; injection Hx as <- <- end.
    rewrite Hq. cbn [N.eqb]. bcsimpl. repeat split.
  - exfalso. pose proof (INV_learned _ _ Hl HI) as HI1. pose proof (step_ack_sum _ _ _ Ha) as (_ & _ & He).
    cbn beta iota in He. destruct a; [|contradiction]. destruct He as (q' & Ht & _).
    pose proof (ackq_take_is_ack _ _ _ Ht (I_ackq _ HI1)) as Hk. discriminate Hk.
  - apply step_cleanup_sum in Hc as (He & _). contradiction.
Qed.

(* every processed acknowledgement (PUBACK / PUBCOMP whose removal from the outgoing store
   succeeded) returns a window slot *)
Theorem c16_ack_returns_holds : forall s g id s',
  step s (EDelete g Outgoing id true) = Some s' ->
  pp s = PAckDel id /\ pp s' = PLoop /\ tdeq s' = N.min (cw s) (tdeq s + 1) /\ cw s' = cw s.
Proof.
  intros s g id s' H. apply step_inv in H.
  destruct H as [He Ho ->|He Ho ->|He Hq' ->|Hc|g' s1 Hg Hl Hr Ho Hp|g' s1 Hg Hl Hr Ho Hnp Hd
                |g' s1 Hg Hl Hr Ho Hnp Hnd Ha|g' s1 Hg Hl Hr Ho Hc|He Hc|g' He Ho ->]; try discriminate.
  - assert (Ed : pp s1 = pp s /\ cw s1 = cw s /\ tdeq s1 = tdeq s).
    { destruct Hl as [->|(g0 & _ & [[_ ->]|[[_ ->]|[[_ ->]|[_ ->]]]])]; repeat split. }
    destruct Ed as (Ed & Ec & Et). rewrite <- Ed, <- Ec, <- Et.
    unfold step_proc, proc_dispatch, die_p, guard in Hp. inv_step Hp; injection Hp as <-.
    match goal with Hx : (_ =? _) = true |- _ => apply N.eqb_eq in Hx; subst end.
    bcsimpl. repeat split.
  - exfalso. unfold step_deq, guard in Hd. inv_step Hd.
  - pose proof (step_ack_sum _ _ _ Ha) as (_ & _ & He). contradiction.
  - apply step_cleanup_sum in Hc as (He & _). contradiction.
Qed.

(* ---------------------------------------------------------------- progress *)

(* a dequeue is never blocked while a window slot is free: in every reachable state in
   which the dequeuer is at its token wait and a slot is free, the Dequeue call is enabled
   for the dequeuer's goroutine (or, if the dequeuer has not shown itself yet, for any
   goroutine without a role), provided that goroutine is not inside an acknowledgement
   closure; it takes exactly one slot.  (And the token timeout is not enabled then: Conn.v
   lets EDie KClient fire at DToken only when tdeq = 0.) *)
Theorem c16_progress_enabled_holds : forall es s g,
  bc_run es = Some s ->
  dp s = DToken -> 0 < tdeq s -> in_closure s g = false ->
  (gdeq s = Some g \/ (gdeq s = None /\ role_free s g = true)) ->
  exists s', step s (EDeqCall g) = Some s' /\ dp s' = DWait /\ tdeq s' + 1 = tdeq s /\ gdeq s' = Some g.
Proof.
  intros es s g Hrun Hd Ht Hc Hg.
  pose proof (INV_reachable _ _ Hrun) as HI. pose proof (INVW_reachable _ _ Hrun) as HW.
  assert (Ho : conn_open s = true).
  { unfold conn_open. destruct (lp s) eqn:El; try reflexivity.
    destruct (W_gone _ HW) as [_ [Hx|Hx]]; [rewrite El; discriminate|congruence|congruence]. }
  assert (Hlt : (0 <? tdeq s) = true) by (apply N.ltb_lt; exact Ht).
  unfold step. rewrite Ho. cbn [negb ev_g step_clo first_some]. rewrite Hc.
  destruct Hg as [Hg|[Hg Hf]].
  - assert (Hp : is_role (gproc s) g = false).
    { destruct (gproc s) as [g'|] eqn:Ep; [|reflexivity]. cbn [is_role]. apply N.eqb_neq. intros ->.
      exact (I_roles _ HI _ Ep Hg). }
    rewrite Hp, Hg. cbn [is_role]. rewrite N.eqb_refl.
    unfold step_deq. rewrite Hd. unfold take_deq. rewrite Hlt.
    eexists. split; [reflexivity|]. bcsimpl. repeat split; [lia|exact Hg].
  - pose proof Hf as Hf'. unfold role_free in Hf'. apply negb_true_iff in Hf'.
    apply orb_false_iff in Hf' as [Hf' H4]. apply orb_false_iff in Hf' as [Hf' H3]. apply orb_false_iff in Hf' as [H1 H2].
    rewrite H1, H2, H3, H4. unfold bind, learn_deq. rewrite Hg. unfold guard. rewrite Hf.
    unfold step_deq. bcsimpl. rewrite Hd. unfold take_deq. bcsimpl. rewrite Hlt.
    eexists. split; [reflexivity|]. bcsimpl. repeat split. lia.
Qed.

(* with a free slot the dequeuer cannot be killed by the token timeout *)
Theorem c16_no_timeout_with_slot_holds : forall es s g,
  bc_run es = Some s -> dp s = DToken -> 0 < tdeq s ->
  (gdeq s = Some g \/ (gdeq s = None /\ role_free s g = true)) ->
  step s (EDie g KClient) = None.
Proof.
  intros es s g Hrun Hd Ht Hg. pose proof (INV_reachable _ _ Hrun) as HI.
  assert (Hz : (tdeq s =? 0) = false) by (apply N.eqb_neq; lia).
  unfold step. destruct (negb (conn_open s)); [reflexivity|].
  cbn [ev_g step_clo first_some]. destruct (in_closure s g); [reflexivity|].
  destruct Hg as [Hg|[Hg Hf]].
  - assert (Hp : is_role (gproc s) g = false).
    { destruct (gproc s) as [g'|] eqn:Ep; [|reflexivity]. cbn [is_role]. apply N.eqb_neq. intros ->.
      exact (I_roles _ HI _ Ep Hg). }
    rewrite Hp, Hg. cbn [is_role]. rewrite N.eqb_refl.
    unfold step_deq, guard. rewrite Hd, Hz. reflexivity.
  - pose proof Hf as Hf'. unfold role_free in Hf'. apply negb_true_iff in Hf'.
    apply orb_false_iff in Hf' as [Hf' H4]. apply orb_false_iff in Hf' as [Hf' H3]. apply orb_false_iff in Hf' as [H1 H2].
    rewrite H1, H2, H3, H4, Hg, Hd. unfold bind, learn_deq. rewrite Hg. unfold guard. rewrite Hf.
    unfold step_deq, guard. bcsimpl. rewrite Hd, Hz. reflexivity.
Qed.

(* at quiescence the dequeuer is inside Dequeue: it holds a window slot, delivery continues
   as soon as the backend has a message *)
Theorem c16_quiescent_in_dequeue_holds : forall es s,
  bc_run (es ++ [EQuiescent]) = Some s -> dp s = DWait /\ dying s = false.
Proof.
  intros es s H. unfold bc_run in H. apply Lts.run_prefix in H as (s1 & _ & H).
  cbn [Lts.run step] in H. unfold guard in H. destruct (quiescent s1) eqn:Eq; [|discriminate]. injection H as <-.
  unfold quiescent in Eq. repeat (apply andb_prop in Eq as [Eq ?]).
  split; [destruct (dp s1); try discriminate; reflexivity|destruct (dying s1); [discriminate|reflexivity]].
Qed.
