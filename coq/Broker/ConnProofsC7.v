(* ConnProofsC7.v — C16, main theorem: if the window does not shrink between the
   connections of a session (c16_window_const), the inflight bound c16_bound holds of
   every accepted trace.  Ingredients: the hypothesis scanner tracks the ids of the
   outgoing store (RKA); unless the peer sent a spurious acknowledgement, the ids in
   flight are ids of stored packets (RF) and stored packets + free slots + the slot
   held by the dequeuer fit the window (RT), so every resume fits the window. *)
From Coq Require Import List NArith Bool Lia ZArith ZifyN ZifyNat ZifyBool.
From GM Require Import Base.Lts Codec.Packet Session.Ids Session.Store Session.StoreProofs
  Broker.Conn Broker.ConnSpec Broker.ConnBase Broker.ConnProofsCDefs Broker.ConnProofsC0 Broker.ConnProofsC1
  Broker.ConnProofsC4.
Import ListNotations.
Open Scope N_scope.

(* ----------------------------------------------------------- store lemmas *)

Lemma ids_ok_delete st i : ids_ok st -> ids_ok (store_delete st i).
Proof.
  induction st as [|[k q] st IH]; intros Hok j r; cbn [store_delete]; [intros []|].
  destruct (i =? k).
  - intros Hin. apply Hok. right. exact Hin.
  - cbn [In]. intros [E|Hin]; [apply Hok; left; exact E|].
    apply IH; [intros ? ? ?; apply Hok; right; assumption|exact Hin].
Qed.

Lemma keys_length (st : store) : length (keys st) = length st.
Proof. unfold keys. apply map_length. Qed.

Lemma nmem_keys st i : nmem i (keys st) = match store_lookup st i with Some _ => true | None => false end.
Proof.
  destruct (store_lookup st i) eqn:E.
  - apply nmem_true_iff. destruct (in_dec N.eq_dec i (keys st)) as [H|H]; [exact H|].
    apply lookup_none_notin in H. congruence.
  - apply lookup_none_notin in E. destruct (nmem i (keys st)) eqn:En; [|reflexivity].
    apply nmem_true_iff in En. contradiction.
Qed.

(* saving under a key that is present keeps keys and length *)
Lemma put_present st i p : In i (keys st) -> keys (store_put st i p) = keys st.
Proof.
  intros Hin. rewrite keys_put. destruct (store_lookup st i) eqn:E; [reflexivity|].
  apply lookup_none_notin in E. contradiction.
Qed.

Lemma put_length_le st i p : (length (store_put st i p) <= S (length st))%nat.
Proof.
  rewrite <- !keys_length, keys_put. destruct (store_lookup st i); [lia|]. rewrite app_length. cbn [length]. lia.
Qed.

Lemma keys_put_incl st i p j : In j (keys st) -> In j (keys (store_put st i p)).
Proof. intros H. rewrite keys_put. destruct (store_lookup st i); [exact H|]. apply in_or_app. left. exact H. Qed.

Lemma delete_length st i : NoDup (keys st) -> In i (keys st) -> S (length (store_delete st i)) = length st.
Proof.
  induction st as [|[k q] st IH]; intros Hnd Hin; cbn [store_delete]; [destruct Hin|].
  cbn [keys map fst] in Hnd, Hin. inversion Hnd as [|? ? Hnot Hnd']; subst.
  destruct (N.eqb_spec i k) as [->|Hne]; [reflexivity|].
  cbn [length]. f_equal. apply IH; [exact Hnd'|]. destruct Hin as [E|Hin]; [congruence|exact Hin].
Qed.

Lemma delete_length_le st i : (length (store_delete st i) <= length st)%nat.
Proof.
  induction st as [|[k q] st IH]; cbn [store_delete]; [lia|]. destruct (i =? k); cbn [length]; lia.
Qed.

Lemma packet_eqb_get_id x y : packet_eqb x y = true -> get_id x = get_id y.
Proof.
  destruct x, y; cbn [packet_eqb get_id]; intros H; try discriminate H; try reflexivity;
    repeat (apply andb_prop in H as [H ?]);
    repeat match goal with Hx : (_ =? _) = true |- _ => apply N.eqb_eq in Hx end; subst; try reflexivity.
  all: try (apply N.eqb_eq in H; subst; reflexivity).
Qed.

Lemma get_id_set_dup p : get_id (set_dup p) = get_id p.
Proof. destruct p; reflexivity. Qed.

Lemma list_eqb_length ps qs : list_eqb packet_eqb ps qs = true -> length ps = length qs.
Proof.
  revert qs. induction ps as [|x ps IH]; intros [|y qs] H; cbn [list_eqb] in H; try discriminate H; [reflexivity|].
  apply andb_prop in H as [_ H]. cbn [length]. f_equal. apply IH. exact H.
Qed.

(* every listed packet carries the id of a stored entry *)
Definition has_key (st : store) (p : packet) : Prop := exists i, get_id p = Some i /\ In i (keys st).

Lemma list_eqb_has_key st0 ps st :
  ids_ok st -> (forall i, In i (keys st) -> In i (keys st0)) ->
  list_eqb packet_eqb ps (store_all st) = true -> Forall (has_key st0) ps.
Proof.
  revert ps. induction st as [|[k q] st IH]; intros [|x ps] Hok Hsub H; cbn [store_all map snd list_eqb] in H;
    try discriminate H; [constructor|].
  apply andb_prop in H as [H1 H2]. constructor.
  - exists k. split; [|apply Hsub; left; reflexivity].
    rewrite (packet_eqb_get_id _ _ H1). apply Hok. left. reflexivity.
  - apply IH; [intros ? ? ?; apply Hok; right; assumption|intros i Hi; apply Hsub; right; exact Hi|exact H2].
Qed.

(* ---------------------------------------------------- store invariant of BC *)

Record INVS (s : bc) : Prop := MkINVS {
  S_nodup : NoDup (keys (s_out (sess s)));
  S_ids : ids_ok (s_out (sess s));
  S_resend : match pp s with PResend rest => Forall (has_key (s_out (sess s))) rest | _ => True end }.

Lemma INVS_init : INVS bc_init.
Proof. constructor; cbn; [constructor|intros ? ? []|exact I]. Qed.

Lemma has_key_put st i q p : has_key st p -> has_key (store_put st i q) p.
Proof. intros (j & G & Hin). exists j. split; [exact G|apply keys_put_incl; exact Hin]. Qed.

Lemma INVS_frame s s' : s_out (sess s') = s_out (sess s) -> pp s' = pp s -> INVS s -> INVS s'.
Proof. intros Eo Ep [H1 H2 H3]. constructor; rewrite ?Eo, ?Ep; assumption. Qed.

Lemma INVS_pp s s' : s_out (sess s') = s_out (sess s) ->
  match pp s' with PResend _ => False | _ => True end -> INVS s -> INVS s'.
Proof. intros Eo Ep [H1 H2 H3]. constructor; rewrite ?Eo; try assumption. destruct (pp s'); try exact I; contradiction. Qed.

Lemma INVS_learned s s1 : learned s s1 -> INVS s -> INVS s1.
Proof.
  intros [->|(g & _ & [[_ ->]|[[_ ->]|[[_ ->]|[_ ->]]]])] HR; try exact HR; (eapply INVS_frame; [| |exact HR]); reflexivity.
Qed.

Lemma INVS_proc s e s' : INVS s -> step_proc s e = Some s' -> INVS s'.
Proof.
  intros HS H. unfold step_proc, proc_dispatch, die_p, guard in H.
  pose proof HS as [H1 H2 H3].
  inv_step H; inv_helpers; injection H as <-; subst.
  all: try ((eapply INVS_pp; [| |exact HS]); bcsimpl; cbn [sess_with s_out]; [reflexivity|exact I]).
  - (* Setup *) destruct fresh; constructor; bcsimpl; cbn [session_new s_out keys map]; try assumption; try exact I;
      [constructor|intros ? ? []].
  - (* All *)
    match goal with Hl : list_eqb packet_eqb _ _ = true |- _ =>
      pose proof (list_eqb_has_key (s_out (sess s)) _ _ H2 (fun i Hi => Hi) Hl) as HF end.
    destruct l; constructor; bcsimpl; try assumption; exact I.
  - (* Resend ok *)
    inversion H3 as [|? ? Hp Hl]; subst. destruct Hp as (i & Gi & Hin).
    assert (Es : s_out (sess (sess_save (take_deq_if_any s) Outgoing (set_dup p))) = store_put (s_out (sess s)) i (set_dup p)).
    { unfold take_deq_if_any, take_deq. destruct (0 <? tdeq s); bcsimpl; cbn [sess_with s_out sess_store];
        unfold store_save; rewrite get_id_set_dup, Gi; reflexivity. }
    constructor; bcsimpl; cbn [sess_with s_out sess_store] in *; rewrite ?Es.
    + apply nodup_put. exact H1.
    + apply ids_ok_put; [exact H2|rewrite get_id_set_dup; exact Gi].
    + destruct l; [exact I|]. eapply Forall_impl; [|exact Hl]. intros a Ha. apply has_key_put. exact Ha.
  - (* Resend fail *)
    inversion H3 as [|? ? Hp Hl]; subst. destruct Hp as (i & Gi & Hin).
    assert (Es : s_out (sess (sess_save (take_deq_if_any s) Outgoing (set_dup p))) = store_put (s_out (sess s)) i (set_dup p)).
    { unfold take_deq_if_any, take_deq. destruct (0 <? tdeq s); bcsimpl; cbn [sess_with s_out sess_store];
        unfold store_save; rewrite get_id_set_dup, Gi; reflexivity. }
    constructor; bcsimpl; cbn [sess_with s_out sess_store] in *; rewrite ?Es.
    + apply nodup_put. exact H1.
    + apply ids_ok_put; [exact H2|rewrite get_id_set_dup; exact Gi].
    + exact I.
  - (* AckDel *) constructor; bcsimpl; cbn [sess_with s_out sess_store]; [apply nodup_delete; exact H1|apply ids_ok_delete; exact H2|exact I].
  - (* RecSave *) constructor; bcsimpl; cbn [sess_with s_out sess_store store_save get_id];
      [apply nodup_put; exact H1|apply ids_ok_put; [exact H2|reflexivity]|exact I].
Qed.

Lemma INVS_deq s e s' : INV s -> INVS s -> step_deq s e = Some s' -> INVS s'.
Proof.
  intros HI HS H. pose proof (I_shape _ HI) as Hsh. unfold step_deq, guard in H.
  pose proof HS as [H1 H2 H3].
  inv_step H; inv_helpers; injection H as <-; subst; cbn [dp_shape] in Hsh.
  all: try ((eapply INVS_frame; [| |exact HS]); bcsimpl; cbn [sess_with s_out]; reflexivity).
  - (* Save ok *)
    destruct Hsh as (m & id & -> & _).
    assert (E : forall x, s_out (sess (set_dp (sess_save s Outgoing (Publish false m id)) x)) =
                          store_put (s_out (sess s)) id (Publish false m id)) by (intros x; reflexivity).
    assert (Ep : forall x, pp (set_dp (sess_save s Outgoing (Publish false m id)) x) = pp s) by (intros x; reflexivity).
    constructor; rewrite E, ?Ep.
    + apply nodup_put. exact H1.
    + apply ids_ok_put; [exact H2|reflexivity].
    + destruct (pp s); try exact I. eapply Forall_impl; [|exact H3]. intros a Ha. apply has_key_put. exact Ha.
  - (* Send ok *)
    destruct Hsh as (m & id & ->). destruct (m_qos m =? 0); (eapply INVS_frame; [| |exact HS]); reflexivity.
Qed.

Lemma INVS_step s e s' : INV s -> INVS s -> step s e = Some s' -> INVS s'.
Proof.
  intros HI HS H. apply step_inv in H.
  destruct H as [He Ho ->|He Ho ->|He Hq ->|Hc|g s1 Hg Hl Hr Ho Hp|g s1 Hg Hl Hr Ho Hnp Hd
                |g s1 Hg Hl Hr Ho Hnp Hnd Ha|g s1 Hg Hl Hr Ho Hc|He Hc|g He Ho ->].
  - (eapply INVS_pp; [| |exact HS]); [reflexivity|exact I].
  - exact HS.
  - exact HS.
  - apply step_clo_sum in Hc as (_ & Hs & _). eapply INVS_frame; [apply (sp_out _ _ Hs)|apply (sp_pp _ _ Hs)|exact HS].
  - eapply INVS_proc; [eapply INVS_learned; eassumption|exact Hp].
  - eapply INVS_deq; [eapply INV_learned; eassumption|eapply INVS_learned; eassumption|exact Hd].
  - pose proof (step_ack_sum _ _ _ Ha) as (Hs & _).
    eapply INVS_frame; [apply (sp_out _ _ Hs)|apply (sp_pp _ _ Hs)|eapply INVS_learned; eassumption].
  - pose proof (INVS_learned _ _ Hl HS) as HS1. apply step_cleanup_sum in Hc as (_ & [(Hs & _)|Hf]).
    + eapply INVS_frame; [apply (sp_out _ _ Hs)|apply (sp_pp _ _ Hs)|exact HS1].
    + eapply INVS_pp; [rewrite (fz_sess _ _ Hf); reflexivity|rewrite (fz_pp _ _ Hf); exact I|exact HS1].
  - apply step_cleanup_sum in Hc as (_ & [(Hs & _)|Hf]).
    + eapply INVS_frame; [apply (sp_out _ _ Hs)|apply (sp_pp _ _ Hs)|exact HS].
    + eapply INVS_pp; [rewrite (fz_sess _ _ Hf); reflexivity|rewrite (fz_pp _ _ Hf); exact I|exact HS].
  - (eapply INVS_frame; [| |exact HS]); reflexivity.
Qed.

Definition INV3 (s : bc) : Prop := INV s /\ INVS s.
Lemma INV3_init : INV3 bc_init.
Proof. split; [exact INV_init|exact INVS_init]. Qed.
Lemma INV3_step s e s' : INV3 s -> step s e = Some s' -> INV3 s'.
Proof. intros [H1 H2] H. split; [eapply INV_step|eapply INVS_step]; eassumption. Qed.

(* ------------------------------- the hypothesis scanner tracks the store's ids *)

Definition okeys (s : bc) : list N := keys (s_out (sess s)).

Definition RKA (s : bc) (v : pk_st) : Prop :=
  pk_ids v = okeys s /\ (cw s <> 0 -> pk_last v = cw s).

Lemma keys_save_pk st p i ids :
  ids = keys st -> get_id p = Some i ->
  (if nmem i ids then ids else ids ++ [i]) = keys (store_save st p).
Proof.
  intros -> G. unfold store_save. rewrite G, keys_put, nmem_keys. destruct (store_lookup st i); reflexivity.
Qed.

Lemma RKA_frame s s' v : okeys s' = okeys s -> cw s' = cw s -> RKA s v -> RKA s' v.
Proof. intros Ek Ec [H1 H2]. split; rewrite ?Ek, ?Ec; assumption. Qed.

Lemma RKA_proc s v e s' v' : INVS s -> RKA s v -> step_proc s e = Some s' -> pk_step v e = Some v' -> RKA s' v'.
Proof.
  intros HS [Hk Hw] H Hv. pose proof HS as [S1 S2 S3]. unfold step_proc, proc_dispatch, die_p, guard in H.
  inv_step H; inv_helpers; injection H as <-; subst; cbn [pk_step] in Hv.
  all: try (injection Hv as <-; split; unfold okeys in *; bcsimpl; cbn [sess_with s_out]; assumption).
  - (* Setup *)
    destruct (fresh || (pk_last v <=? w)); [|discriminate Hv]. injection Hv as <-.
    destruct fresh; split; unfold okeys; bcsimpl; cbn [pk_ids pk_last session_new s_out keys map]; try reflexivity; exact Hk.
  - (* Resend ok *)
    injection Hv as <-. inversion S3 as [|? ? Hp Hl]; subst. destruct Hp as (i & Gi & Hin).
    assert (Es : okeys (sess_save (take_deq_if_any s) Outgoing (set_dup p)) = okeys s).
    { unfold okeys, take_deq_if_any, take_deq. destruct (0 <? tdeq s); bcsimpl; cbn [sess_with s_out sess_store];
        unfold store_save; rewrite get_id_set_dup, Gi; apply put_present; exact Hin. }
    split; [unfold okeys in *; bcsimpl; rewrite Hk; symmetry; exact Es|].
    unfold take_deq_if_any, take_deq. destruct (0 <? tdeq s); bcsimpl; exact Hw.
  - (* Resend fail *)
    injection Hv as <-. inversion S3 as [|? ? Hp Hl]; subst. destruct Hp as (i & Gi & Hin).
    assert (Es : okeys (sess_save (take_deq_if_any s) Outgoing (set_dup p)) = okeys s).
    { unfold okeys, take_deq_if_any, take_deq. destruct (0 <? tdeq s); bcsimpl; cbn [sess_with s_out sess_store];
        unfold store_save; rewrite get_id_set_dup, Gi; apply put_present; exact Hin. }
    split; [unfold okeys in *; bcsimpl; rewrite Hk; symmetry; exact Es|].
    unfold take_deq_if_any, take_deq. destruct (0 <? tdeq s); bcsimpl; exact Hw.
  - (* AckDel ok *)
    match goal with Hq : (_ =? _) = true |- _ => apply N.eqb_eq in Hq; subst end.
    injection Hv as <-. split; unfold okeys in *; bcsimpl; cbn [sess_with s_out sess_store pk_ids pk_last]; [|exact Hw].
    rewrite Hk. symmetry. apply keys_delete. exact S1.
  - (* RecSave ok *)
    match goal with Hq : (_ =? _) = true |- _ => apply N.eqb_eq in Hq; subst end.
    cbn [get_id] in Hv. injection Hv as <-. split; unfold okeys in *; bcsimpl; cbn [sess_with s_out sess_store pk_ids pk_last]; [|exact Hw].
    apply keys_save_pk; [exact Hk|reflexivity].
Qed.

Lemma RKA_deq s v e s' v' : INV s -> RKA s v -> step_deq s e = Some s' -> pk_step v e = Some v' -> RKA s' v'.
Proof.
  intros HI [Hk Hw] H Hv. pose proof (I_shape _ HI) as Hsh. unfold step_deq, guard in H.
  inv_step H; inv_helpers; injection H as <-; subst; cbn [pk_step] in Hv; cbn [dp_shape] in Hsh.
  all: try (injection Hv as <-; split; unfold okeys in *; bcsimpl; cbn [sess_with s_out]; assumption).
  - (* NextId *) destruct (nmem id (pk_ids v)); [discriminate Hv|]. injection Hv as <-.
    split; unfold okeys in *; bcsimpl; assumption.
  - (* Save ok *) destruct Hsh as (m & id & -> & _).
    match goal with Hq : packet_eqb _ _ = true |- _ => apply packet_eqb_publish_l in Hq; subst end.
    cbn [get_id] in Hv. injection Hv as <-.
    split; unfold okeys in *; [|destruct ba; bcsimpl; exact Hw].
    assert (E : forall x, keys (s_out (sess (set_dp (sess_save s Outgoing (Publish false m id)) x))) =
                          keys (store_save (s_out (sess s)) (Publish false m id))) by (intros x; reflexivity).
    rewrite E. cbn [pk_ids]. apply keys_save_pk; [exact Hk|reflexivity].
  - (* Send ok *) destruct Hsh as (m & id & ->).
    match goal with Hq : packet_eqb _ _ = true |- _ => apply packet_eqb_publish_l in Hq; subst end.
    cbn [pk_step] in Hv. injection Hv as <-.
    destruct (m_qos m =? 0); split; unfold okeys in *; bcsimpl; assumption.
Qed.

Lemma pk_step_other v e :
  match e with ESetup _ _ | ESave _ _ _ _ | EDelete _ _ _ _ | ENextId _ _ => False | _ => True end -> pk_step v e = Some v.
Proof. destruct e; try contradiction; reflexivity. Qed.

Lemma RKA_step s v e s' v' : INV3 s -> RKA s v -> step s e = Some s' -> pk_step v e = Some v' -> RKA s' v'.
Proof.
  intros [HI HS] HR H Hv. apply step_inv in H.
  destruct H as [He Ho ->|He Ho ->|He Hq ->|Hc|g s1 Hg Hl Hr Ho Hp|g s1 Hg Hl Hr Ho Hnp Hd
                |g s1 Hg Hl Hr Ho Hnp Hnd Ha|g s1 Hg Hl Hr Ho Hc|He Hc|g He Ho ->].
  - subst e. injection Hv as <-. destruct HR as [Hk _]. split; [exact Hk|]. bcsimpl. intros C; contradiction.
  - subst e. injection Hv as <-. exact HR.
  - subst e. injection Hv as <-. exact HR.
  - apply step_clo_sum in Hc as (He & Hs & _).
    assert (Ev : v' = v).
    { destruct e; try contradiction; cbn [pk_step] in Hv; try (injection Hv as <-; reflexivity).
      destruct d; [injection Hv as <-; reflexivity|contradiction]. }
    subst v'. eapply RKA_frame; [unfold okeys; rewrite (sp_out _ _ Hs); reflexivity|apply (sp_cw _ _ Hs)|exact HR].
  - assert (HR1 : RKA s1 v) by (destruct Hl as [->|(g0 & _ & [[_ ->]|[[_ ->]|[[_ ->]|[_ ->]]]])]; exact HR).
    eapply RKA_proc; [eapply INVS_learned; eassumption|exact HR1|exact Hp|exact Hv].
  - assert (HR1 : RKA s1 v) by (destruct Hl as [->|(g0 & _ & [[_ ->]|[[_ ->]|[[_ ->]|[_ ->]]]])]; exact HR).
    eapply RKA_deq; [eapply INV_learned; eassumption|exact HR1|exact Hd|exact Hv].
  - assert (HR1 : RKA s1 v) by (destruct Hl as [->|(g0 & _ & [[_ ->]|[[_ ->]|[[_ ->]|[_ ->]]]])]; exact HR).
    pose proof (step_ack_sum _ _ _ Ha) as (Hs & _ & He).
    rewrite pk_step_other in Hv by (destruct e; try contradiction; exact I). injection Hv as <-.
    eapply RKA_frame; [unfold okeys; rewrite (sp_out _ _ Hs); reflexivity|apply (sp_cw _ _ Hs)|exact HR1].
  - assert (HR1 : RKA s1 v) by (destruct Hl as [->|(g0 & _ & [[_ ->]|[[_ ->]|[[_ ->]|[_ ->]]]])]; exact HR).
    apply step_cleanup_sum in Hc as (He & Hc).
    rewrite pk_step_other in Hv by (destruct e; try contradiction; exact I). injection Hv as <-.
    destruct Hc as [(Hs & _)|Hf].
    + eapply RKA_frame; [unfold okeys; rewrite (sp_out _ _ Hs); reflexivity|apply (sp_cw _ _ Hs)|exact HR1].
    + eapply RKA_frame; [unfold okeys; rewrite (fz_sess _ _ Hf); reflexivity|apply (fz_cw _ _ Hf)|exact HR1].
  - subst e. injection Hv as <-. apply step_cleanup_sum in Hc as (_ & [(Hs & _)|Hf]).
    + eapply RKA_frame; [unfold okeys; rewrite (sp_out _ _ Hs); reflexivity|apply (sp_cw _ _ Hs)|exact HR].
    + eapply RKA_frame; [unfold okeys; rewrite (fz_sess _ _ Hf); reflexivity|apply (fz_cw _ _ Hf)|exact HR].
  - subst e. injection Hv as <-. (eapply RKA_frame; [| |exact HR]); reflexivity.
Qed.

(* --------------------------------------- in flight ids are ids of stored packets *)

Lemma In_nremove1 k x l : In x (nremove1 k l) -> In x l.
Proof.
  induction l as [|y l IH]; cbn [nremove1]; [intros []|]. destruct (y =? k); [intros H; right; exact H|].
  cbn [In]. intros [E|H]; [left; exact E|right; apply IH; exact H].
Qed.

Lemma NoDup_nremove1 k l : NoDup l -> NoDup (nremove1 k l).
Proof.
  induction l as [|y l IH]; cbn [nremove1]; intros H; [constructor|]. inversion H as [|? ? Hn Hl]; subst.
  destruct (y =? k); [exact Hl|]. constructor; [intros C; apply Hn; eapply In_nremove1; exact C|apply IH; exact Hl].
Qed.

Lemma nremove1_notin k l : NoDup l -> ~ In k (nremove1 k l).
Proof.
  induction l as [|y l IH]; cbn [nremove1]; intros H; [intros []|]. inversion H as [|? ? Hn Hl]; subst.
  destruct (N.eqb_spec y k) as [->|Hne]; [exact Hn|]. cbn [In]. intros [E|C]; [congruence|exact (IH Hl C)].
Qed.

Lemma In_fl_add x id fl : In x (fl_add id fl) <-> x = id \/ In x fl.
Proof.
  unfold fl_add. destruct (nmem id fl) eqn:En.
  - apply nmem_true_iff in En. split; [intros H; right; exact H|intros [->|H]; assumption].
  - cbn [In]. split; [intros [E|H]; [left; symmetry; exact E|right; exact H]|intros [->|H]; [left; reflexivity|right; exact H]].
Qed.

Lemma NoDup_fl_add id fl : NoDup fl -> NoDup (fl_add id fl).
Proof.
  unfold fl_add. destruct (nmem id fl) eqn:En; intros H; [exact H|]. constructor; [|exact H].
  intros C. apply nmem_true_iff in C. congruence.
Qed.

Lemma fl_add_in id fl : In id fl -> fl_add id fl = fl.
Proof. intros H. unfold fl_add. apply nmem_true_iff in H. rewrite H. reflexivity. Qed.

Lemma counted_get_id p id : counted_id p = Some id -> get_id p = Some id.
Proof. destruct p; cbn [counted_id get_id]; try discriminate; [destruct (m_qos m =? 0); [discriminate|]|]; intros H; exact H. Qed.

(* the id of the QoS>0 PUBLISH the dequeuer has in hand; has it been saved? *)
Definition pend (d : dpc) : option N :=
  match d with DSave p _ | DBackAck p | DSend p => counted_id p | _ => None end.
Definition saved (d : dpc) : bool := match d with DBackAck _ | DSend _ => true | _ => false end.

Record RFr (s : bc) (t : wb_st) : Prop := MkRFr {
  F_nodup : NoDup (wb_fl t);
  F_sub : forall id, In id (wb_fl t) -> In id (okeys s);
  F_pend : forall id, pend (dp s) = Some id -> ~ In id (wb_fl t) /\ (saved (dp s) = true -> In id (okeys s));
  F_phase : match pp s with
            | PAckDel id => In id (okeys s) /\ ~ In id (wb_fl t) /\ pend (dp s) <> Some id
            | PRecSave id | PRelTx id => In id (okeys s) /\ In id (wb_fl t)
            | _ => True
            end }.
Definition RF (s : bc) (t : wb_st) : Prop := wb_spur t = true \/ RFr s t.

Lemma wb_spur_mono t e t' : wb_step t e = Some t' -> wb_spur t = true -> is_setup_ok e = false -> wb_spur t' = true.
Proof. intros H Hs He. destruct (wb_step_spur t e Hs He) as (t'' & E & Hs'). congruence. Qed.

(* a frame for RFr: same scanner state, same store ids, the dequeuer's pending id and the
   processor's obligation unchanged or gone *)
Lemma RFr_frame s s' t :
  okeys s' = okeys s ->
  (pend (dp s') = pend (dp s) /\ saved (dp s') = saved (dp s) \/ pend (dp s') = None) ->
  (pp s' = pp s \/ match pp s' with PAckDel _ | PRecSave _ | PRelTx _ => False | _ => True end) ->
  RFr s t -> RFr s' t.
Proof.
  intros Ek Ed Ep [H1 H2 H3 H4]. constructor; rewrite ?Ek; try assumption.
  - intros id Hp. destruct Ed as [[E1 E2]|E]; [rewrite E1 in Hp; rewrite E2; apply H3; exact Hp|rewrite E in Hp; discriminate Hp].
  - destruct Ep as [Ep|Ep].
    + rewrite Ep. destruct (pp s); try exact I; try exact H4.
      destruct H4 as (A & B & C). repeat split; try assumption.
      destruct Ed as [[E1 _]|E]; [rewrite E1; exact C|rewrite E; discriminate].
    + destruct (pp s'); try exact I; contradiction.
Qed.

Definition setup_state (s : bc) (c : connect) (resumed fresh : bool) (w p b : N) : bc :=
  let s1 := if fresh then set_sess s session_new else s in
  BC (conn_no s1) (sess s1) (clos s1) (gproc s1) (gdeq s1) (gack s1) (gcl s1) (ph s1)
     (PConnack c resumed) (dp s1) (ap s1) (lp s1) (dying s1) (c_will c) w p b w p b [].

Lemma RF_setup s t c resumed fresh w p b :
  INV s -> RW s t -> pp s = PSetup c ->
  RFr (setup_state s c resumed fresh w p b) (WbSt w (wb_fl t) (if fresh then false else wb_spur t)).
Proof.
  intros HI [_ Hfl] Hp.
  assert (Hn : wb_fl t = []) by (apply Hfl; rewrite Hp; reflexivity).
  assert (Hd : dp s = DOff) by (apply (I_pre _ HI); rewrite Hp; reflexivity).
  unfold setup_state. destruct fresh; constructor; bcsimpl; cbn [wb_fl]; rewrite ?Hn, ?Hd; cbn [pend].
  all: first [apply NoDup_nil|exact I|intros ? C; discriminate C|intros ? []].
Qed.

Definition plain_pp (p : ppc) : Prop := match p with PAckDel _ | PRecSave _ | PRelTx _ => False | _ => True end.

(* an acknowledgement arrives: in flight -> the processor's obligation is justified; else spurious *)
Lemma RF_ack s t g p id t' X :
  RFr s t -> p = Puback id \/ p = Pubcomp id -> wb_step t (ERx g p) = Some t' ->
  X = PAckDel id \/ plain_pp X -> RF (set_pp s X) t'.
Proof.
  intros [F1 F2 F3 F4] Hp Hw HX.
  destruct (wb_rx_ack t g p id Hp) as [(En & E & _)|E]; rewrite E in Hw; injection Hw as <-; [right|left; reflexivity].
  apply nmem_true_iff in En.
  constructor; unfold okeys in *; bcsimpl; cbn [wb_fl].
  - apply NoDup_nremove1. exact F1.
  - intros x Hx. apply F2. eapply In_nremove1. exact Hx.
  - intros x Hx. destruct (F3 x Hx) as [A B]. split; [intros C; apply A; eapply In_nremove1; exact C|exact B].
  - destruct HX as [->|HX]; [|destruct X; try exact I; contradiction].
    split; [apply F2; exact En|]. split; [apply nremove1_notin; exact F1|].
    intros C. destruct (F3 id C) as [A _]. contradiction.
Qed.

Lemma RF_rec s t g id t' X :
  RFr s t -> wb_step t (ERx g (Pubrec id)) = Some t' ->
  X = PRecSave id \/ plain_pp X -> RF (set_pp s X) t'.
Proof.
  intros [F1 F2 F3 F4] Hw HX. cbn [wb_step] in Hw.
  destruct (nmem id (wb_fl t)) eqn:En; injection Hw as <-; [right|left; reflexivity].
  apply nmem_true_iff in En.
  constructor; unfold okeys in *; bcsimpl; try assumption.
  destruct HX as [->|HX]; [|destruct X; try exact I; contradiction].
  split; [apply F2; exact En|exact En].
Qed.

(* a counted packet is sent successfully: its id joins the ids in flight *)
Lemma wb_tx_counted t g p a id t' :
  counted_id p = Some id -> wb_step t (ETx g p a true) = Some t' ->
  t' = WbSt (wb_w t) (fl_add id (wb_fl t)) (wb_spur t).
Proof.
  intros Hc Hw. rewrite wb_tx_ok, Hc in Hw.
  destruct (wb_spur t || (N.of_nat (length (fl_add id (wb_fl t))) <=? wb_w t)); [injection Hw as <-; reflexivity|discriminate].
Qed.

Lemma wb_tx_uncounted t g p a t' : counted_id p = None -> wb_step t (ETx g p a true) = Some t' -> t' = t.
Proof. intros Hc Hw. rewrite wb_tx_ok, Hc in Hw. injection Hw as <-. reflexivity. Qed.

Lemma RF_proc s t v e s' t' v' :
  INV s -> INVS s -> RKA s v -> RW s t -> RF s t ->
  step_proc s e = Some s' -> wb_step t e = Some t' -> pk_step v e = Some v' -> RF s' t'.
Proof.
  intros HI HS [Hk _] HW HR H Hw Hv.
  destruct (is_setup_ok e) eqn:Ese.
  { destruct e; try discriminate Ese. destruct r as [|resumed fresh w p b]; [discriminate Ese|].
    unfold step_proc in H. destruct (pp s) as [| | | | | |ps| | | | | | | | | | | | | | | | | | | | | |] eqn:Ep;
      try discriminate H; [|destruct ps; discriminate H]. cbv beta iota zeta in H. unfold guard in H.
    destruct ((0 <? w) && (0 <? p) && (0 <? b)); [|discriminate H]. injection H as <-.
    cbn [wb_step] in Hw. injection Hw as <-. right. exact (RF_setup s t c resumed fresh w p b HI HW Ep). }
  destruct HR as [Hsp|HF]; [left; eapply wb_spur_mono; eassumption|].
  pose proof (I_pre _ HI) as Hpre. pose proof HS as [S1 S2 S3]. pose proof HF as [F1 F2 F3 F4].
  unfold step_proc, proc_dispatch, die_p, guard in H.
  inv_step H; inv_helpers; injection H as <-; subst; cbn [pre_loop] in Hpre; try discriminate Ese.
  all: try (cbn [wb_step] in Hw; injection Hw as <-; right;
            (eapply RFr_frame; [| | |exact HF]); unfold okeys; bcsimpl; cbn [sess_with s_out];
            [reflexivity|left; split; reflexivity|first [left; reflexivity|right; exact I]]).
  - eapply RF_ack; [exact HF|left; reflexivity|exact Hw|right; exact I].
  - eapply RF_rec; [exact HF|exact Hw|right; exact I].
  - eapply RF_ack; [exact HF|right; reflexivity|exact Hw|right; exact I].
  - (* All *) cbn [wb_step] in Hw; injection Hw as <-; right.
    (eapply RFr_frame; [| | |exact HF]); unfold okeys; bcsimpl; [reflexivity|left; split; reflexivity|right; destruct l; exact I].
  - (* Resend ok *)
    inversion S3 as [|? ? Hp Hl]; subst. destruct Hp as (i & Gi & Hin).
    destruct (Hpre eq_refl) as [Hd _].
    assert (Es : okeys (sess_save (take_deq_if_any s) Outgoing (set_dup p)) = okeys s).
    { unfold okeys, take_deq_if_any, take_deq. destruct (0 <? tdeq s); bcsimpl; cbn [sess_with s_out sess_store];
        unfold store_save; rewrite get_id_set_dup, Gi; apply put_present; exact Hin. }
    assert (Ed : forall X, dp (set_pp (sess_save (take_deq_if_any s) Outgoing (set_dup p)) X) = DOff).
    { intros X. unfold take_deq_if_any, take_deq. destruct (0 <? tdeq s); bcsimpl; exact Hd. }
    match goal with Hq : packet_eqb _ _ = true |- _ => pose proof (counted_set_dup _ _ Hq) as Hip end.
    right. destruct (counted_id p0) as [id|] eqn:Ec.
    + rewrite (wb_tx_counted _ _ _ _ _ _ Ec Hw).
      symmetry in Hip. apply counted_get_id in Hip. rewrite Gi in Hip. injection Hip as <-.
      constructor; cbn [wb_fl]; rewrite ?Ed; unfold okeys in *; bcsimpl; cbn [pend].
      * apply NoDup_fl_add. exact F1.
      * intros x Hx. fold (okeys (sess_save (take_deq_if_any s) Outgoing (set_dup p))). rewrite Es.
        apply In_fl_add in Hx as [->|Hx]; [exact Hin|apply F2; exact Hx].
      * intros x C. discriminate C.
      * destruct l; exact I.
    + rewrite (wb_tx_uncounted _ _ _ _ _ Ec Hw).
      constructor; rewrite ?Ed; unfold okeys in *; bcsimpl; cbn [pend]; try assumption.
      * intros x Hx. fold (okeys (sess_save (take_deq_if_any s) Outgoing (set_dup p))). rewrite Es. apply F2. exact Hx.
      * intros x C. discriminate C.
      * destruct l; exact I.
  - (* Resend fail *)
    inversion S3 as [|? ? Hp Hl]; subst. destruct Hp as (i & Gi & Hin).
    destruct (Hpre eq_refl) as [Hd _].
    assert (Es : okeys (sess_save (take_deq_if_any s) Outgoing (set_dup p)) = okeys s).
    { unfold okeys, take_deq_if_any, take_deq. destruct (0 <? tdeq s); bcsimpl; cbn [sess_with s_out sess_store];
        unfold store_save; rewrite get_id_set_dup, Gi; apply put_present; exact Hin. }
    rewrite wb_tx_fail in Hw. injection Hw as <-. right.
    (eapply RFr_frame; [exact Es| | |exact HF]); [right|right; exact I].
    unfold take_deq_if_any, take_deq. destruct (0 <? tdeq s); bcsimpl; rewrite Hd; reflexivity.
  - (* Restore *) cbn [wb_step] in Hw; injection Hw as <-; right.
    (eapply RFr_frame; [| | |exact HF]); unfold okeys; bcsimpl; [reflexivity|right; reflexivity|right; exact I].
  - eapply RF_ack; [exact HF|left; reflexivity|exact Hw|left; reflexivity].
  - eapply RF_rec; [exact HF|exact Hw|left; reflexivity].
  - eapply RF_ack; [exact HF|right; reflexivity|exact Hw|left; reflexivity].
  - (* AckDel ok *)
    match goal with Hq : (_ =? _) = true |- _ => apply N.eqb_eq in Hq; subst end.
    cbn [wb_step] in Hw; injection Hw as <-; right. destruct F4 as (A & B & C).
    assert (Ek : okeys (set_pp (put_deq (sess_delete s Outgoing id0)) PLoop) = filter (fun j => negb (j =? id0)) (okeys s)).
    { unfold okeys. bcsimpl. cbn [sess_with s_out sess_store]. apply keys_delete. exact S1. }
    constructor; rewrite ?Ek; bcsimpl; try exact F1; try exact I.
    + intros x Hx. apply filter_In. split; [apply F2; exact Hx|].
      apply negb_true_iff, N.eqb_neq. intros ->. contradiction.
    + intros x Hx. destruct (F3 x Hx) as [P Q]. split; [exact P|]. intros Sv. apply filter_In. split; [apply Q; exact Sv|].
      apply negb_true_iff, N.eqb_neq. intros ->. contradiction.
  - (* RecSave ok *)
    match goal with Hq : (_ =? _) = true |- _ => apply N.eqb_eq in Hq; subst end.
    cbn [wb_step] in Hw; injection Hw as <-; right. destruct F4 as (A & B).
    assert (Ek : forall x, In x (okeys s) -> In x (okeys (set_pp (sess_save s Outgoing (Pubrel id0)) (PRelTx id0)))).
    { intros x Hx. unfold okeys. bcsimpl. cbn [sess_with s_out sess_store store_save get_id]. apply keys_put_incl. exact Hx. }
    constructor; bcsimpl; try exact F1.
    + intros x Hx. apply Ek, F2, Hx.
    + intros x Hx. destruct (F3 x Hx) as [P Q]. split; [exact P|]. intros Sv. apply Ek, Q, Sv.
    + split; [apply Ek; exact A|exact B].
  - (* RelTx ok *)
    match goal with Hq : (_ =? _) = true |- _ => apply N.eqb_eq in Hq; subst end.
    destruct F4 as (A & B).
    rewrite (wb_tx_counted t g (Pubrel id0) true id0 t' eq_refl Hw), (fl_add_in _ _ B). right.
    constructor; unfold okeys in *; bcsimpl; cbn [wb_fl]; first [assumption|exact I].
Qed.

Lemma RF_deq s t v e s' t' v' :
  INV s -> RKA s v -> RF s t ->
  step_deq s e = Some s' -> wb_step t e = Some t' -> pk_step v e = Some v' -> RF s' t'.
Proof.
  intros HI [Hk _] HR H Hw Hv.
  destruct HR as [Hsp|HF]; [left; eapply wb_spur_mono; [exact Hw|exact Hsp|eapply step_deq_not_setup; exact H]|].
  pose proof (I_shape _ HI) as Hsh. pose proof HF as [F1 F2 F3 F4].
  unfold step_deq, guard in H.
  inv_step H; inv_helpers; injection H as <-; subst; cbn [dp_shape] in Hsh; cbn [pend saved] in F3.
  all: try (cbn [wb_step] in Hw; injection Hw as <-; right;
            (eapply RFr_frame; [| | |exact HF]); unfold okeys; bcsimpl; cbn [sess_with s_out pend saved];
            [reflexivity|first [left; split; reflexivity|right; reflexivity]|left; reflexivity]).
  - (* DeqRet qos 0 *)
    cbn [wb_step] in Hw; injection Hw as <-; right.
    (eapply RFr_frame; [| | |exact HF]); [reflexivity| |left; reflexivity].
    right. destruct backack; bcsimpl; cbn [pend counted_id];
      match goal with Hq : (m_qos m =? 0) = true |- _ => rewrite Hq end; reflexivity.
  - (* NextId: the new id is not stored, hence not in flight *)
    cbn [wb_step] in Hw; injection Hw as <-. cbn [pk_step] in Hv.
    destruct (nmem id (pk_ids v)) eqn:En; [discriminate Hv|].
    assert (Hnk : ~ In id (okeys s)). { rewrite <- Hk. intros C. apply nmem_true_iff in C. congruence. }
    right. constructor; unfold okeys in *; bcsimpl; cbn [pend saved counted_id]; try assumption.
    + rewrite Hsh. intros x E. injection E as <-. split; [intros C; apply Hnk, F2, C|discriminate].
    + destruct (pp s); try exact I; try exact F4. destruct F4 as (A & B & _). repeat split; try assumption.
      rewrite Hsh. intros E. injection E as <-. contradiction.
  - (* Save ok *)
    destruct Hsh as (m & id & -> & Hq).
    match goal with Hx : packet_eqb _ _ = true |- _ => apply packet_eqb_publish_l in Hx; subst end.
    cbn [wb_step] in Hw; injection Hw as <-. cbn [counted_id] in F3. rewrite Hq in F3.
    assert (Ek : forall x X, In x (okeys s) -> In x (okeys (set_dp (sess_save s Outgoing (Publish false m id)) X))).
    { intros x X Hx. unfold okeys. bcsimpl. cbn [sess_with s_out sess_store store_save get_id]. apply keys_put_incl. exact Hx. }
    assert (Eid : forall X, In id (okeys (set_dp (sess_save s Outgoing (Publish false m id)) X))).
    { intros X. unfold okeys. bcsimpl. cbn [sess_with s_out sess_store store_save get_id].
      rewrite keys_put. destruct (store_lookup (s_out (sess s)) id) eqn:El.
      - destruct (in_dec N.eq_dec id (keys (s_out (sess s)))) as [Hi|Hi]; [exact Hi|].
        apply lookup_none_notin in Hi. congruence.
      - apply in_or_app. right. left. reflexivity. }
    destruct (F3 id eq_refl) as [Hnf _].
    right. destruct ba; constructor; bcsimpl; cbn [pend saved counted_id]; rewrite ?Hq; try exact F1.
    all: try (intros x Hx; apply Ek, F2, Hx).
    all: try (intros x E; injection E as <-; split; [exact Hnf|intros _; apply Eid]).
    all: destruct (pp s); try exact I; try (destruct F4 as (A & B); split; [apply Ek; exact A|exact B]);
         destruct F4 as (A & B & C); cbn [pend counted_id] in C; rewrite Hq in C;
         (split; [apply Ek; exact A|split; [exact B|exact C]]).
  - (* DeqAck *)
    cbn [wb_step] in Hw; injection Hw as <-; right.
    (eapply RFr_frame; [| | |exact HF]); [reflexivity|left; bcsimpl; rewrite Heqd; split; reflexivity|left; reflexivity].
  - (* Send ok *)
    destruct Hsh as (m & id & ->).
    match goal with Hx : packet_eqb _ _ = true |- _ => apply packet_eqb_publish_l in Hx; subst end.
    cbn [counted_id] in F3. destruct (m_qos m =? 0) eqn:Eq.
    + assert (Et : t' = t) by (eapply wb_tx_uncounted; [|exact Hw]; cbn [counted_id]; rewrite Eq; reflexivity).
      subst t'. right. (eapply RFr_frame; [| | |exact HF]); [reflexivity|right; reflexivity|left; reflexivity].
    + assert (Et : t' = WbSt (wb_w t) (fl_add id (wb_fl t)) (wb_spur t))
        by (eapply wb_tx_counted; [|exact Hw]; cbn [counted_id]; rewrite Eq; reflexivity).
      subst t'. destruct (F3 id eq_refl) as [Hnf Hin]. specialize (Hin eq_refl).
      right. constructor; unfold okeys in *; bcsimpl; cbn [wb_fl pend].
      * apply NoDup_fl_add. exact F1.
      * intros x Hx. apply In_fl_add in Hx as [->|Hx]; [exact Hin|apply F2; exact Hx].
      * intros x C. discriminate C.
      * destruct (pp s); try exact I.
        -- destruct F4 as (A & B & C). repeat split; try assumption; [|discriminate].
           intros Hx. apply In_fl_add in Hx as [->|Hx]; [apply C; cbn [pend counted_id]; rewrite Eq; reflexivity|contradiction].
        -- destruct F4 as (A & B). split; [exact A|apply In_fl_add; right; exact B].
        -- destruct F4 as (A & B). split; [exact A|apply In_fl_add; right; exact B].
  - (* Send fail *)
    rewrite wb_tx_fail in Hw. injection Hw as <-. right.
    (eapply RFr_frame; [| | |exact HF]); [reflexivity|right; reflexivity|left; reflexivity].
Qed.

Lemma RFr_same s s' t : same_pd s s' -> RFr s t -> RFr s' t.
Proof.
  intros Hs. apply RFr_frame.
  - unfold okeys. rewrite (sp_out _ _ Hs). reflexivity.
  - left. rewrite (sp_dp _ _ Hs). split; reflexivity.
  - left. apply (sp_pp _ _ Hs).
Qed.

Lemma RFr_frozen s s' t : frozen s s' -> RFr s t -> RFr s' t.
Proof.
  intros Hf. apply RFr_frame.
  - unfold okeys. rewrite (fz_sess _ _ Hf). reflexivity.
  - right. rewrite (fz_dp _ _ Hf). destruct (dp s); reflexivity.
  - right. rewrite (fz_pp _ _ Hf). exact I.
Qed.

Lemma RF_learned s s1 t : learned s s1 -> RF s t -> RF s1 t.
Proof.
  intros Hl [Hs|HF]; [left; exact Hs|right].
  (eapply RFr_frame; [| | |exact HF]);
    destruct Hl as [->|(g0 & _ & [[_ ->]|[[_ ->]|[[_ ->]|[_ ->]]]])];
    first [reflexivity|left; split; reflexivity|left; reflexivity].
Qed.

Lemma wb_step_same t e t' : wb_step t e = Some t' ->
  match e with ENewConn | ESetup _ _ | ETx _ _ _ _ | ERx _ _ => False | _ => True end -> t' = t.
Proof. intros H He. rewrite wb_step_other in H by exact He. injection H as <-. reflexivity. Qed.

Lemma RF_step s t v e s' t' v' :
  INV3 s -> RKA s v -> RW s t -> RF s t ->
  step s e = Some s' -> wb_step t e = Some t' -> pk_step v e = Some v' -> RF s' t'.
Proof.
  intros [HI HS] HK HW HR H Hw Hv. apply step_inv in H.
  destruct H as [He Ho ->|He Ho ->|He Hq ->|Hc|g s1 Hg Hl Hr Ho Hp|g s1 Hg Hl Hr Ho Hnp Hd
                |g s1 Hg Hl Hr Ho Hnp Hnd Ha|g s1 Hg Hl Hr Ho Hc|He Hc|g He Ho ->].
  - subst e. cbn [wb_step] in Hw. injection Hw as <-. destruct HR as [Hs|[F1 F2 F3 F4]]; [left; exact Hs|right].
    constructor; unfold okeys; bcsimpl; cbn [wb_fl pend]; first [apply NoDup_nil|exact I|intros ? C; discriminate C|intros ? []].
  - subst e. cbn [wb_step] in Hw. injection Hw as <-. exact HR.
  - subst e. cbn [wb_step] in Hw. injection Hw as <-. exact HR.
  - apply step_clo_sum in Hc as (He & Hs & _).
    rewrite (wb_step_same _ _ _ Hw) by (destruct e; try contradiction; exact I).
    destruct HR as [Hsp|HF]; [left; exact Hsp|right; eapply RFr_same; eassumption].
  - assert (HK1 : RKA s1 v) by (destruct Hl as [->|(g0 & _ & [[_ ->]|[[_ ->]|[[_ ->]|[_ ->]]]])]; exact HK).
    eapply RF_proc; [eapply INV_learned; eassumption|eapply INVS_learned; eassumption|exact HK1
                    |eapply RW_learned; eassumption|eapply RF_learned; eassumption|exact Hp|exact Hw|exact Hv].
  - assert (HK1 : RKA s1 v) by (destruct Hl as [->|(g0 & _ & [[_ ->]|[[_ ->]|[[_ ->]|[_ ->]]]])]; exact HK).
    eapply RF_deq; [eapply INV_learned; eassumption|exact HK1|eapply RF_learned; eassumption|exact Hd|exact Hw|exact Hv].
  - pose proof (INV_learned _ _ Hl HI) as HI1. pose proof (step_ack_sum _ _ _ Ha) as (Hs & _ & He).
    assert (Et : t' = t).
    { destruct e; try contradiction; try (cbn [wb_step] in Hw; injection Hw as <-; reflexivity).
      destruct async; [|contradiction]. destruct He as (q' & Ht & _).
      destruct ok; [|rewrite wb_tx_fail in Hw; injection Hw as <-; reflexivity].
      eapply wb_tx_uncounted; [|exact Hw]. apply ack_not_counted. eapply ackq_take_is_ack; [exact Ht|apply (I_ackq _ HI1)]. }
    subst t'. pose proof (RF_learned _ _ _ Hl HR) as [Hsp|HF]; [left; exact Hsp|right; eapply RFr_same; eassumption].
  - apply step_cleanup_sum in Hc as (He & Hc).
    rewrite (wb_step_same _ _ _ Hw) by (destruct e; try contradiction; exact I).
    pose proof (RF_learned _ _ _ Hl HR) as [Hsp|HF]; [left; exact Hsp|right].
    destruct Hc as [(Hs & _)|Hf]; [eapply RFr_same|eapply RFr_frozen]; eassumption.
  - apply step_cleanup_sum in Hc as (He' & Hc). subst e. cbn [wb_step] in Hw. injection Hw as <-.
    destruct HR as [Hsp|HF]; [left; exact Hsp|right].
    destruct Hc as [(Hs & _)|Hf]; [eapply RFr_same|eapply RFr_frozen]; eassumption.
  - subst e. cbn [wb_step] in Hw. injection Hw as <-. destruct HR as [Hsp|HF]; [left; exact Hsp|right].
    (eapply RFr_frame; [| | |exact HF]); [reflexivity|left; split; reflexivity|left; reflexivity].
Qed.

(* ---------------------------------- stored packets + free slots fit the window *)

Definition held' (d : dpc) : N :=
  match d with
  | DWait | DNextId _ _ | DSave _ _ => 1
  | DBackAck p | DSend p => match counted_id p with None => 1 | Some _ => 0 end
  | _ => 0
  end.
Definition slen (s : bc) : N := N.of_nat (length (s_out (sess s))).

Record RTr (s : bc) (v : pk_st) : Prop := MkRTr {
  T_len : slen s <= pk_last v;
  T_phase : match pp s with
            | PConnack _ _ | PAll => tdeq s = cw s /\ 0 < cw s
            | PResend rest => N.of_nat (length rest) <= tdeq s /\ slen s + tdeq s <= cw s + N.of_nat (length rest) /\ 0 < cw s
            | PRestore => slen s + tdeq s <= cw s /\ 0 < cw s
            | _ => True
            end;
  T_J : dp s <> DOff -> slen s + tdeq s + held' (dp s) <= cw s /\ 0 < cw s }.
Definition RT (s : bc) (t : wb_st) (v : pk_st) : Prop := wb_spur t = true \/ RTr s v.

Definition plain_t (p : ppc) : Prop :=
  match p with PConnack _ _ | PAll | PResend _ | PRestore => False | _ => True end.

Lemma RTr_frame s s' v v' :
  slen s' = slen s -> pk_last v' = pk_last v -> tdeq s' = tdeq s -> cw s' = cw s ->
  (dp s' <> DOff -> dp s <> DOff /\ held' (dp s') <= held' (dp s)) ->
  (pp s' = pp s \/ plain_t (pp s')) -> RTr s v -> RTr s' v'.
Proof.
  intros El Ev Et Ec Ed Ep [H1 H2 H3]. constructor; rewrite ?El, ?Ev, ?Et, ?Ec.
  - exact H1.
  - destruct Ep as [Ep|Ep]; [rewrite Ep; exact H2|destruct (pp s'); try exact I; contradiction].
  - intros Hd. destruct (Ed Hd) as [Hd0 Hh]. destruct (H3 Hd0) as [A B]. split; [lia|exact B].
Qed.

Lemma RT_setup s v c g resumed fresh w p b v' :
  INV s -> pp s = PSetup c -> ((0 <? w) && (0 <? p) && (0 <? b)) = true ->
  pk_step v (ESetup g (SOk resumed fresh w p b)) = Some v' ->
  fresh = true \/ RTr s v ->
  RTr (setup_state s c resumed fresh w p b) v'.
Proof.
  intros HI Hp Hg Hv Hc.
  assert (Hd : dp s = DOff) by (apply (I_pre _ HI); rewrite Hp; reflexivity).
  apply andb_prop in Hg as [Hg _]. apply andb_prop in Hg as [Hg _]. apply N.ltb_lt in Hg.
  cbn [pk_step] in Hv. destruct (fresh || (pk_last v <=? w)) eqn:Ef; [|discriminate Hv]. injection Hv as <-.
  unfold setup_state. constructor; unfold slen; cbn [pk_last].
  - destruct fresh; bcsimpl; cbn [session_new s_out length]; [lia|].
    destruct Hc as [C|[H1 _ _]]; [discriminate C|]. cbn [orb] in Ef. apply N.leb_le in Ef. unfold slen in H1. lia.
  - destruct fresh; bcsimpl; split; [reflexivity|exact Hg|reflexivity|exact Hg].
  - destruct fresh; bcsimpl; rewrite Hd; intros C; contradiction.
Qed.

Lemma slen_keys s : slen s = N.of_nat (length (okeys s)).
Proof. unfold slen, okeys. rewrite keys_length. reflexivity. Qed.

Lemma RT_proc s t v e s' t' v' :
  INV s -> INVS s -> RKA s v -> RF s t -> RT s t v ->
  step_proc s e = Some s' -> wb_step t e = Some t' -> pk_step v e = Some v' -> RT s' t' v'.
Proof.
  intros HI HS [Hk Hlast] HF HR H Hw Hv.
  destruct (is_setup_ok e) eqn:Ese.
  { destruct e; try discriminate Ese. destruct r as [|resumed fresh w p b]; [discriminate Ese|].
    unfold step_proc in H. destruct (pp s) as [| | | | | |ps| | | | | | | | | | | | | | | | | | | | | |] eqn:Ep;
      try discriminate H; [|destruct ps; discriminate H]. cbv beta iota zeta in H. unfold guard in H.
    destruct ((0 <? w) && (0 <? p) && (0 <? b)) eqn:Eg; [|discriminate H]. injection H as <-.
    cbn [wb_step] in Hw. injection Hw as <-. cbn [wb_spur].
    destruct fresh eqn:Efr.
    - right. eapply (RT_setup s v c g resumed true w p b v' HI Ep Eg Hv). left. reflexivity.
    - destruct HR as [Hsp|HT]; [left; exact Hsp|right].
      eapply (RT_setup s v c g resumed false w p b v' HI Ep Eg Hv). right. exact HT. }
  destruct HR as [Hsp|HT]; [left; eapply wb_spur_mono; eassumption|].
  destruct HF as [Hsp|HF]; [left; eapply wb_spur_mono; eassumption|].
  pose proof (I_pre _ HI) as Hpre. pose proof HS as [S1 S2 S3]. pose proof HF as [F1 F2 F3 F4]. pose proof HT as [T1 T2 T3].
  unfold step_proc, proc_dispatch, die_p, guard in H.
  inv_step H; inv_helpers; injection H as <-; subst; cbn [pre_loop] in Hpre; try discriminate Ese.
  all: try (cbn [pk_step] in Hv; injection Hv as <-; right;
            (eapply RTr_frame; [| | | | | |exact HT]); unfold slen; bcsimpl; cbn [sess_with s_out];
            [reflexivity|reflexivity|reflexivity|reflexivity|intros Hd; split; [exact Hd|lia]
            |first [left; reflexivity|right; exact I]]).
  - (* Connack ok *) cbn [pk_step] in Hv; injection Hv as <-; right.
    constructor; unfold slen in *; bcsimpl; [exact T1|exact T2|exact T3].
  - (* All *)
    cbn [pk_step] in Hv; injection Hv as <-; right. destruct T2 as [Ht Hc].
    match goal with Hl : list_eqb packet_eqb _ _ = true |- _ => apply list_eqb_length in Hl; rename Hl into Hlen end.
    unfold store_all in Hlen. rewrite map_length in Hlen.
    assert (Hlw : pk_last v = cw s) by (apply Hlast; lia).
    destruct (Hpre eq_refl) as [Hd _].
    destruct l; constructor; unfold slen in *; bcsimpl; try exact T1; cbn [length] in *.
    + split; [rewrite <- Hlen; cbn [length]; lia|exact Hc].
    + rewrite Hd. intros C; contradiction.
    + repeat split; [lia|lia|exact Hc].
    + rewrite Hd. intros C; contradiction.
  - (* Resend ok *)
    cbn [pk_step] in Hv; injection Hv as <-; right.
    inversion S3 as [|? ? Hp Hl]; subst. destruct Hp as (i & Gi & Hin).
    destruct (Hpre eq_refl) as [Hd _]. destruct T2 as (Ta & Tb & Tc). cbn [length] in Ta, Tb.
    assert (Hpos : 0 < tdeq s) by lia.
    assert (Et : take_deq_if_any s = set_tok s (tdeq s - 1) (tpub s) (tsub s)).
    { unfold take_deq_if_any, take_deq. apply N.ltb_lt in Hpos. rewrite Hpos. reflexivity. }
    rewrite Et.
    assert (Es : slen (sess_save (set_tok s (tdeq s - 1) (tpub s) (tsub s)) Outgoing (set_dup p)) = slen s).
    { rewrite !slen_keys. unfold okeys. bcsimpl. cbn [sess_with s_out sess_store].
      unfold store_save. rewrite get_id_set_dup, Gi, put_present by exact Hin. reflexivity. }
    destruct l; constructor; bcsimpl; rewrite ?Hd;
      try (change (slen (sess_save (set_tok s (tdeq s - 1) (tpub s) (tsub s)) Outgoing (set_dup p)) <= pk_last v); rewrite Es; exact T1);
      try (intros C; contradiction).
    + change (slen (sess_save (set_tok s (tdeq s - 1) (tpub s) (tsub s)) Outgoing (set_dup p)) + (tdeq s - 1) <= cw s /\ 0 < cw s).
      rewrite Es. cbn [length] in *. split; [lia|exact Tc].
    + change (N.of_nat (length (p0 :: l)) <= tdeq s - 1 /\
              slen (sess_save (set_tok s (tdeq s - 1) (tpub s) (tsub s)) Outgoing (set_dup p)) + (tdeq s - 1) <= cw s + N.of_nat (length (p0 :: l)) /\ 0 < cw s).
      rewrite Es. cbn [length] in *. repeat split; [lia|lia|exact Tc].
  - (* Resend fail *)
    cbn [pk_step] in Hv; injection Hv as <-; right.
    inversion S3 as [|? ? Hp Hl]; subst. destruct Hp as (i & Gi & Hin).
    destruct (Hpre eq_refl) as [Hd _].
    assert (Es : slen (sess_save (take_deq_if_any s) Outgoing (set_dup p)) = slen s).
    { rewrite !slen_keys. unfold okeys, take_deq_if_any, take_deq. destruct (0 <? tdeq s); bcsimpl; cbn [sess_with s_out sess_store];
        unfold store_save; rewrite get_id_set_dup, Gi, put_present by exact Hin; reflexivity. }
    constructor; bcsimpl.
    + change (slen (sess_save (take_deq_if_any s) Outgoing (set_dup p)) <= pk_last v). rewrite Es. exact T1.
    + exact I.
    + unfold take_deq_if_any, take_deq. destruct (0 <? tdeq s); bcsimpl; rewrite Hd; intros C; contradiction.
  - (* Restore ok *)
    cbn [pk_step] in Hv; injection Hv as <-; right. destruct T2 as [Ta Tb].
    constructor; unfold slen in *; bcsimpl; cbn [held']; [exact T1|exact I|]. intros _. split; [lia|exact Tb].
  - (* AckDel ok *)
    match goal with Hq : (_ =? _) = true |- _ => apply N.eqb_eq in Hq; subst end.
    cbn [pk_step] in Hv; injection Hv as <-; right. destruct F4 as (A & _ & _).
    pose proof (delete_length (s_out (sess s)) id0 S1 A) as Hdl.
    constructor; unfold slen in *; bcsimpl; cbn [sess_with s_out sess_store pk_last]; [lia|exact I|].
    intros Hd. destruct (T3 Hd) as [Ta Tb]. split; [lia|exact Tb].
  - (* RecSave ok *)
    match goal with Hq : (_ =? _) = true |- _ => apply N.eqb_eq in Hq; subst end.
    cbn [pk_step get_id] in Hv; injection Hv as <-; right. destruct F4 as (A & _).
    assert (Es : length (store_put (s_out (sess s)) id0 (Pubrel id0)) = length (s_out (sess s))).
    { rewrite <- !keys_length, put_present by exact A. reflexivity. }
    constructor; unfold slen in *; bcsimpl; cbn [sess_with s_out sess_store store_save get_id pk_last]; rewrite ?Es;
      [exact T1|exact I|exact T3].
Qed.

Lemma RT_deq s t v e s' t' v' :
  INV s -> RKA s v -> RT s t v ->
  step_deq s e = Some s' -> wb_step t e = Some t' -> pk_step v e = Some v' -> RT s' t' v'.
Proof.
  intros HI [Hk Hlast] HR H Hw Hv.
  destruct HR as [Hsp|HT]; [left; eapply wb_spur_mono; [exact Hw|exact Hsp|eapply step_deq_not_setup; exact H]|].
  right. pose proof (I_shape _ HI) as Hsh. pose proof HT as [T1 T2 T3].
  assert (Hnp : pre_loop (pp s) = false).
  { destruct (pre_loop (pp s)) eqn:Ep; [|reflexivity]. destruct (I_pre _ HI Ep) as [Hd _].
    unfold step_deq in H. rewrite Hd in H. discriminate H. }
  assert (Hph : forall X, match pp s with
            | PConnack _ _ | PAll => X
            | PResend rest => X
            | PRestore => X
            | _ => True end) by (intros X; destruct (pp s); try exact I; discriminate Hnp).
  assert (Hdo : dp s <> DOff) by (intros C; unfold step_deq in H; rewrite C in H; discriminate H).
  destruct (T3 Hdo) as [TJ Tc]. assert (Hlw : pk_last v = cw s) by (apply Hlast; lia).
  unfold step_deq, guard in H.
  inv_step H; inv_helpers; injection H as <-; subst; cbn [dp_shape] in Hsh; cbn [held'] in TJ.
  all: try (cbn [pk_step] in Hv; injection Hv as <-;
            constructor; unfold slen in *; bcsimpl; cbn [sess_with s_out held' pk_last];
            [exact T1|destruct (pp s); first [exact I|discriminate Hnp]|intros _; split; [lia|exact Tc]]).
  - (* DeqRet qos 0 *)
    cbn [pk_step] in Hv; injection Hv as <-.
    destruct backack; constructor; unfold slen in *; bcsimpl; cbn [held' counted_id];
      match goal with Hq : (m_qos m =? 0) = true |- _ => rewrite ?Hq end;
      first [exact T1|destruct (pp s); first [exact I|discriminate Hnp]|intros _; split; [lia|exact Tc]].
  - (* NextId *)
    cbn [pk_step] in Hv. destruct (nmem id (pk_ids v)); [discriminate Hv|]. injection Hv as <-.
    constructor; unfold slen in *; bcsimpl; cbn [held' s_out];
      first [exact T1|destruct (pp s); first [exact I|discriminate Hnp]|intros _; split; [lia|exact Tc]].
  - (* Save ok *)
    destruct Hsh as (m & id & -> & Hq).
    match goal with Hx : packet_eqb _ _ = true |- _ => apply packet_eqb_publish_l in Hx; subst end.
    cbn [pk_step get_id] in Hv; injection Hv as <-.
    pose proof (put_length_le (s_out (sess s)) id (Publish false m id)) as Hpl.
    destruct ba; constructor; unfold slen in *; bcsimpl;
      cbn [sess_with s_out sess_store store_save get_id held' counted_id pk_last]; rewrite ?Hq;
      first [lia|destruct (pp s); first [exact I|discriminate Hnp]|intros _; split; [lia|exact Tc]].
  - (* Send ok *)
    destruct Hsh as (m & id & ->).
    match goal with Hx : packet_eqb _ _ = true |- _ => apply packet_eqb_publish_l in Hx; subst end.
    cbn [pk_step] in Hv; injection Hv as <-. cbn [counted_id] in TJ.
    destruct (m_qos m =? 0); constructor; unfold slen in *; bcsimpl; cbn [held'];
      first [exact T1|destruct (pp s); first [exact I|discriminate Hnp]|intros _; split; [lia|exact Tc]].
Qed.

Lemma RTr_same s s' v : same_pd s s' -> RTr s v -> RTr s' v.
Proof.
  intros Hs. apply RTr_frame; try reflexivity.
  - unfold slen. rewrite (sp_out _ _ Hs). reflexivity.
  - apply (sp_tdeq _ _ Hs).
  - apply (sp_cw _ _ Hs).
  - rewrite (sp_dp _ _ Hs). intros Hd. split; [exact Hd|lia].
  - left. apply (sp_pp _ _ Hs).
Qed.

Lemma RTr_frozen s s' v : frozen s s' -> RTr s v -> RTr s' v.
Proof.
  intros Hf. apply RTr_frame; try reflexivity.
  - unfold slen. rewrite (fz_sess _ _ Hf). reflexivity.
  - apply (fz_tdeq _ _ Hf).
  - apply (fz_cw _ _ Hf).
  - rewrite (fz_dp _ _ Hf). destruct (dp s); intros Hd; try contradiction; (split; [discriminate|cbn [held']; try lia]).
    all: destruct (counted_id p); lia.
  - right. rewrite (fz_pp _ _ Hf). exact I.
Qed.

Lemma RT_learned s s1 t v : learned s s1 -> RT s t v -> RT s1 t v.
Proof.
  intros Hl [Hs|HT]; [left; exact Hs|right].
  (eapply RTr_frame; [| | | | | |exact HT]);
    destruct Hl as [->|(g0 & _ & [[_ ->]|[[_ ->]|[[_ ->]|[_ ->]]]])]; bcsimpl;
    first [reflexivity|left; reflexivity|intros Hd; split; [exact Hd|lia]].
Qed.

Lemma pk_step_same v e v' : pk_step v e = Some v' ->
  match e with ESetup _ _ | ESave _ _ _ _ | EDelete _ _ _ _ | ENextId _ _ => False | _ => True end -> v' = v.
Proof. intros H He. rewrite pk_step_other in H by exact He. injection H as <-. reflexivity. Qed.

Lemma RT_step s t v e s' t' v' :
  INV3 s -> RKA s v -> RF s t -> RT s t v ->
  step s e = Some s' -> wb_step t e = Some t' -> pk_step v e = Some v' -> RT s' t' v'.
Proof.
  intros [HI HS] HK HF HR H Hw Hv. apply step_inv in H.
  destruct H as [He Ho ->|He Ho ->|He Hq ->|Hc|g s1 Hg Hl Hr Ho Hp|g s1 Hg Hl Hr Ho Hnp Hd
                |g s1 Hg Hl Hr Ho Hnp Hnd Ha|g s1 Hg Hl Hr Ho Hc|He Hc|g He Ho ->].
  - subst e. cbn [wb_step] in Hw. injection Hw as <-. cbn [pk_step] in Hv. injection Hv as <-.
    destruct HR as [Hs|[T1 T2 T3]]; [left; exact Hs|right].
    constructor; unfold slen in *; bcsimpl; [exact T1|exact I|intros C; contradiction].
  - subst e. cbn [wb_step] in Hw. injection Hw as <-. cbn [pk_step] in Hv. injection Hv as <-. exact HR.
  - subst e. cbn [wb_step] in Hw. injection Hw as <-. cbn [pk_step] in Hv. injection Hv as <-. exact HR.
  - apply step_clo_sum in Hc as (He & Hs & _).
    rewrite (wb_step_same _ _ _ Hw) by (destruct e; try contradiction; exact I).
    assert (Ev : v' = v).
    { destruct e; try contradiction; cbn [pk_step] in Hv; try (injection Hv as <-; reflexivity).
      destruct d; [injection Hv as <-; reflexivity|contradiction]. }
    subst v'. destruct HR as [Hsp|HT]; [left; exact Hsp|right; eapply RTr_same; eassumption].
  - assert (HK1 : RKA s1 v) by (destruct Hl as [->|(g0 & _ & [[_ ->]|[[_ ->]|[[_ ->]|[_ ->]]]])]; exact HK).
    eapply RT_proc; [eapply INV_learned; eassumption|eapply INVS_learned; eassumption|exact HK1
                    |eapply RF_learned; eassumption|eapply RT_learned; eassumption|exact Hp|exact Hw|exact Hv].
  - assert (HK1 : RKA s1 v) by (destruct Hl as [->|(g0 & _ & [[_ ->]|[[_ ->]|[[_ ->]|[_ ->]]]])]; exact HK).
    eapply RT_deq; [eapply INV_learned; eassumption|exact HK1|eapply RT_learned; eassumption|exact Hd|exact Hw|exact Hv].
  - pose proof (INV_learned _ _ Hl HI) as HI1. pose proof (step_ack_sum _ _ _ Ha) as (Hs & _ & He).
    assert (Et : t' = t).
    { destruct e; try contradiction; try (cbn [wb_step] in Hw; injection Hw as <-; reflexivity).
      destruct async; [|contradiction]. destruct He as (q' & Ht & _).
      destruct ok; [|rewrite wb_tx_fail in Hw; injection Hw as <-; reflexivity].
      eapply wb_tx_uncounted; [|exact Hw]. apply ack_not_counted. eapply ackq_take_is_ack; [exact Ht|apply (I_ackq _ HI1)]. }
    subst t'. rewrite (pk_step_same _ _ _ Hv) by (destruct e; try contradiction; exact I).
    pose proof (RT_learned _ _ _ _ Hl HR) as [Hsp|HT]; [left; exact Hsp|right; eapply RTr_same; eassumption].
  - apply step_cleanup_sum in Hc as (He & Hc).
    rewrite (wb_step_same _ _ _ Hw) by (destruct e; try contradiction; exact I).
    rewrite (pk_step_same _ _ _ Hv) by (destruct e; try contradiction; exact I).
    pose proof (RT_learned _ _ _ _ Hl HR) as [Hsp|HT]; [left; exact Hsp|right].
    destruct Hc as [(Hs & _)|Hf]; [eapply RTr_same|eapply RTr_frozen]; eassumption.
  - apply step_cleanup_sum in Hc as (He' & Hc). subst e. cbn [wb_step] in Hw. injection Hw as <-.
    cbn [pk_step] in Hv. injection Hv as <-.
    destruct HR as [Hsp|HT]; [left; exact Hsp|right].
    destruct Hc as [(Hs & _)|Hf]; [eapply RTr_same|eapply RTr_frozen]; eassumption.
  - subst e. cbn [wb_step] in Hw. injection Hw as <-. cbn [pk_step] in Hv. injection Hv as <-.
    destruct HR as [Hsp|HT]; [left; exact Hsp|right].
    (eapply RTr_frame; [| | | | | |exact HT]); bcsimpl; first [reflexivity|left; reflexivity|intros Hd; split; [exact Hd|lia]].
Qed.

(* ---------------------------------------------------------------- assembly *)

(* an accepted listing of the outgoing store lists the store *)
Lemma step_all_inv s g ps s' : step s (EAll g Outgoing (Some ps)) = Some s' ->
  pp s = PAll /\ length ps = length (s_out (sess s)).
Proof.
  intros H. apply step_inv in H.
  destruct H as [He Ho ->|He Ho ->|He Hq ->|Hc|g' s1 Hg Hl Hr Ho Hp|g' s1 Hg Hl Hr Ho Hnp Hd
                |g' s1 Hg Hl Hr Ho Hnp Hnd Ha|g' s1 Hg Hl Hr Ho Hc|He Hc|g' He Ho ->]; try discriminate.
  - assert (E : pp s1 = pp s /\ sess s1 = sess s)
      by (destruct Hl as [->|(g0 & _ & [[_ ->]|[[_ ->]|[[_ ->]|[_ ->]]]])]; split; reflexivity).
    destruct E as [Ep Es]. rewrite <- Ep, <- Es.
    unfold step_proc, guard in Hp. inv_step Hp. split; [reflexivity|].
    match goal with Hx : list_eqb packet_eqb _ _ = true |- _ => apply list_eqb_length in Hx; rewrite Hx end.
    unfold store_all. apply map_length.
  - exfalso. unfold step_deq in Hd. destruct (dp s1); discriminate Hd.
  - pose proof (step_ack_sum _ _ _ Ha) as (_ & _ & He). contradiction.
  - apply step_cleanup_sum in Hc as (He & _). contradiction.
Qed.

Lemma fits_from_RT s t v e s' : RKA s v -> RT s t v -> step s e = Some s' -> wb_spur t = true \/ fits s e.
Proof.
  intros [_ Hlast] [Hsp|[T1 T2 _]] H; [left; exact Hsp|right].
  intros g ps ->. destruct (step_all_inv _ _ _ _ H) as [Hp Hlen].
  rewrite Hp in T2. destruct T2 as [_ Hc]. unfold slen in T1. rewrite Hlen, <- Hlast by lia. exact T1.
Qed.

(* a fresh Setup re-establishes the tracking of the store's ids *)
Lemma RKA_setup_fresh s c resumed w p b : RKA (setup_state s c resumed true w p b) (PkSt w []).
Proof. split; [reflexivity|intros _; reflexivity]. Qed.

(* the relation: the hypothesis scanner carries a copy of the c16_bound scanner's state *)
Definition R_cw (s : bc) (t : wb_st) (x : wb_st * pk_st) : Prop :=
  fst x = t /\ RW s t /\ RB s t /\
  (wb_spur t = true \/ (RKA s (snd x) /\ RFr s t /\ RTr s (snd x))).

Lemma cw_step_ok s t x e s' x' : INV3 s -> R_cw s t x -> step s e = Some s' -> pkw_step x e = Some x' ->
  exists t', wb_step t e = Some t' /\ R_cw s' t' x'.
Proof.
  intros HI3 (Hx & HW & HB & HC) H Hh. pose proof HI3 as [HI HS]. destruct x as [th v]. cbn [fst snd] in *. subst th.
  assert (Hfit : wb_spur t = true \/ fits s e).
  { destruct HC as [Hsp|(HK & _ & HT)]; [left; exact Hsp|]. eapply fits_from_RT; [exact HK|right; exact HT|exact H]. }
  destruct (RB_step s t e s' HI HW HB H Hfit) as (t' & Hw & HB').
  exists t'. split; [exact Hw|].
  pose proof (RW_step _ _ _ _ _ HI HW H Hw) as HW'.
  unfold pkw_step in Hh. rewrite Hw in Hh.
  assert (Hcase : wb_spur t = true \/ wb_spur t = false) by (destruct (wb_spur t); [left|right]; reflexivity).
  destruct Hcase as [Hsp|Hns].
  - (* the peer is excused *)
    rewrite Hsp in Hh.
    destruct (is_setup_ok e) eqn:Ese.
    + (* a Setup: if fresh, the accounting starts again *)
      destruct e; try discriminate Ese. destruct r as [|resumed fresh w p b]; [discriminate Ese|].
      apply step_inv in H.
      destruct H as [He Ho ->|He Ho ->|He Hq ->|Hc|g' s1 Hg Hl Hr Ho Hp|g' s1 Hg Hl Hr Ho Hnp Hd
                    |g' s1 Hg Hl Hr Ho Hnp Hnd Ha|g' s1 Hg Hl Hr Ho Hc|He Hc|g' He Ho ->]; try discriminate.
      * pose proof (INV_learned _ _ Hl HI) as HI1. pose proof (RW_learned _ _ _ Hl HW) as HW1.
        unfold step_proc in Hp. destruct (pp s1) as [| | | | | |ps| | | | | | | | | | | | | | | | | | | | | |] eqn:Ep;
          try discriminate Hp; [|destruct ps; discriminate Hp]. cbv beta iota zeta in Hp. unfold guard in Hp.
        destruct ((0 <? w) && (0 <? p) && (0 <? b)) eqn:Eg; [|discriminate Hp]. injection Hp as <-.
        cbn [wb_step] in Hw. injection Hw as <-. cbn [wb_spur].
        destruct fresh.
        -- cbn [pk_step orb] in Hh. injection Hh as <-. cbn [fst snd].
           split; [reflexivity|]. split; [exact HW'|]. split; [exact HB'|]. right.
           split; [apply RKA_setup_fresh|]. split; [exact (RF_setup s1 t c resumed true w p b HI1 HW1 Ep)|].
           eapply (RT_setup s1 v c g resumed true w p b _ HI1 Ep Eg); [reflexivity|left; reflexivity].
        -- assert (Ex : fst x' = WbSt w (wb_fl t) (wb_spur t)).
           { destruct (pk_step v (ESetup g (SOk resumed false w p b))); injection Hh as <-; reflexivity. }
           split; [exact Ex|]. split; [exact HW'|]. split; [exact HB'|]. left. exact Hsp.
      * exfalso. unfold step_deq in Hd. destruct (dp s1); discriminate Hd.
      * pose proof (step_ack_sum _ _ _ Ha) as (_ & _ & He). contradiction.
      * apply step_cleanup_sum in Hc as (He & _). contradiction.
    + assert (Ex : fst x' = t') by (destruct (pk_step v e); injection Hh as <-; reflexivity).
      split; [exact Ex|]. split; [exact HW'|]. split; [exact HB'|]. left. eapply wb_spur_mono; eassumption.
  - (* the peer has behaved so far: the hypothesis is in force *)
    destruct HC as [C|(HK & HF & HT)]; [congruence|]. rewrite Hns in Hh.
    destruct (pk_step v e) as [v'|] eqn:Ev; [|discriminate Hh]. injection Hh as <-. cbn [fst snd].
    split; [reflexivity|]. split; [exact HW'|]. split; [exact HB'|].
      pose proof (RKA_step _ _ _ _ _ HI3 HK H Ev) as HK'.
      pose proof (RF_step _ _ _ _ _ _ _ HI3 HK HW (or_intror HF) H Hw Ev) as HF'.
      pose proof (RT_step _ _ _ _ _ _ _ HI3 HK (or_intror HF) (or_intror HT) H Hw Ev) as HT'.
      destruct HF' as [Hsp|HF']; [left; exact Hsp|]. destruct HT' as [Hsp|HT']; [left; exact Hsp|].
      right. split; [exact HK'|split; assumption].
Qed.

Lemma R_cw_init : R_cw bc_init (WbSt 0 [] false) (WbSt 0 [] false, PkSt 0 []).
Proof.
  split; [reflexivity|]. split; [split; reflexivity|]. split; [right; cbn; split; [lia|exact I]|]. right.
  split; [split; [reflexivity|intros C; exfalso; apply C; reflexivity]|].
  split; constructor; cbn; first [apply NoDup_nil|exact I|lia|intros ? C; discriminate C|intros ? []|intros C; exfalso; apply C; reflexivity].
Qed.

(* the bound, for every accepted trace on which — as long as the peer has not acknowledged an
   id not in flight — the window does not shrink between the connections of a session (and
   ids are not re-allocated while still stored) *)
Theorem c16_bound_const_window_holds :
  forall es s, bc_run es = Some s -> c16_window_const es = true -> c16_bound es = true.
Proof. exact (scan2_sound wb_step pkw_step INV3 R_cw INV3_init INV3_step cw_step_ok _ _ R_cw_init). Qed.

(* token conservation under the same hypothesis: in the state reached,
   in flight + free slots + slot held by the dequeuer + slot being returned <= W
   and   stored packets <= W,   unless the peer acknowledged an id not in flight *)
Theorem c16_conservation_const_window_holds : forall es s,
  bc_run es = Some s -> c16_window_const es = true ->
  exists t, srun wb_step (WbSt 0 [] false) es = Some t /\
    (wb_spur t = true \/
     (N.of_nat (length (wb_fl t)) + tdeq s + held (dp s) + credit (pp s) <= cw s /\
      (cw s <> 0 -> N.of_nat (length (s_out (sess s))) <= cw s))).
Proof.
  intros es s Hrun Hh.
  destruct (scan2_rel wb_step pkw_step INV3 R_cw INV3_step cw_step_ok es bc_init _ _ s INV3_init R_cw_init Hrun Hh)
    as (t & x & E & _ & _ & HB & HC).
  exists t. split; [exact E|].
  destruct HB as [Hs|(Hi & _)]; [left; exact Hs|]. destruct HC as [Hs|([_ Hlast] & _ & [T1 _ _])]; [left; exact Hs|right].
  split; [exact Hi|]. intros Hc. rewrite <- (Hlast Hc). exact T1.
Qed.
