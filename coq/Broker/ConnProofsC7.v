(* ConnProofsC7.v — C16: for a well-behaved peer and a window that does not shrink
   between the connections of a session, every resume fits the window, hence the
   inflight bound holds (c16_peer_ok => c16_resume_fits => c16_bound). *)
From Coq Require Import List NArith Bool Lia ZArith ZifyN ZifyNat ZifyBool.
From GM Require Import Base.Lts Codec.Packet Session.Ids Session.Store Session.StoreProofs
  Broker.Conn Broker.ConnSpec Broker.ConnBase Broker.ConnProofsCDefs Broker.ConnProofsC0 Broker.ConnProofsC1
  Broker.ConnProofsC4.
Import ListNotations.
Open Scope N_scope.

(* ----------------------------------------------------------- store lemmas *)

Lemma ids_ok_delete st i : ids_ok st -> ids_ok (store_delete st i).
Proof.
  induction st as [|[k q] st IH]; intros Hok j r; cbn [store_delete]; [intros []|].
  destruct (i =? k).
  - intros Hin. apply Hok. right. exact Hin.
  - cbn [In]. intros [E|Hin]; [apply Hok; left; exact E|].
    apply IH; [intros ? ? ?; apply Hok; right; assumption|exact Hin].
Qed.

Lemma keys_length (st : store) : length (keys st) = length st.
Proof. unfold keys. apply map_length. Qed.

Lemma nmem_keys st i : nmem i (keys st) = match store_lookup st i with Some _ => true | None => false end.
Proof.
  destruct (store_lookup st i) eqn:E.
  - apply nmem_true_iff. destruct (in_dec N.eq_dec i (keys st)) as [H|H]; [exact H|].
    apply lookup_none_notin in H. congruence.
  - apply lookup_none_notin in E. destruct (nmem i (keys st)) eqn:En; [|reflexivity].
    apply nmem_true_iff in En. contradiction.
Qed.

(* saving under a key that is present keeps keys and length *)
Lemma put_present st i p : In i (keys st) -> keys (store_put st i p) = keys st.
Proof.
  intros Hin. rewrite keys_put. destruct (store_lookup st i) eqn:E; [reflexivity|].
  apply lookup_none_notin in E. contradiction.
Qed.

Lemma put_length_le st i p : (length (store_put st i p) <= S (length st))%nat.
Proof.
  rewrite <- !keys_length, keys_put. destruct (store_lookup st i); [lia|]. rewrite app_length. cbn [length]. lia.
Qed.

Lemma keys_put_incl st i p j : In j (keys st) -> In j (keys (store_put st i p)).
Proof. intros H. rewrite keys_put. destruct (store_lookup st i); [exact H|]. apply in_or_app. left. exact H. Qed.

Lemma delete_length st i : NoDup (keys st) -> In i (keys st) -> S (length (store_delete st i)) = length st.
Proof.
  induction st as [|[k q] st IH]; intros Hnd Hin; cbn [store_delete]; [destruct Hin|].
  cbn [keys map fst] in Hnd, Hin. inversion Hnd as [|? ? Hnot Hnd']; subst.
  destruct (N.eqb_spec i k) as [->|Hne]; [reflexivity|].
  cbn [length]. f_equal. apply IH; [exact Hnd'|]. destruct Hin as [E|Hin]; [congruence|exact Hin].
Qed.

Lemma delete_length_le st i : (length (store_delete st i) <= length st)%nat.
Proof.
  induction st as [|[k q] st IH]; cbn [store_delete]; [lia|]. destruct (i =? k); cbn [length]; lia.
Qed.

Lemma packet_eqb_get_id x y : packet_eqb x y = true -> get_id x = get_id y.
Proof.
  destruct x, y; cbn [packet_eqb get_id]; intros H; try discriminate H; try reflexivity;
    repeat (apply andb_prop in H as [H ?]);
    repeat match goal with Hx : (_ =? _) = true |- _ => apply N.eqb_eq in Hx end; subst; try reflexivity.
  all: try (apply N.eqb_eq in H; subst; reflexivity).
Qed.

Lemma get_id_set_dup p : get_id (set_dup p) = get_id p.
Proof. destruct p; reflexivity. Qed.

Lemma list_eqb_length ps qs : list_eqb packet_eqb ps qs = true -> length ps = length qs.
Proof.
  revert qs. induction ps as [|x ps IH]; intros [|y qs] H; cbn [list_eqb] in H; try discriminate H; [reflexivity|].
  apply andb_prop in H as [_ H]. cbn [length]. f_equal. apply IH. exact H.
Qed.

(* every listed packet carries the id of a stored entry *)
Definition has_key (st : store) (p : packet) : Prop := exists i, get_id p = Some i /\ In i (keys st).

Lemma list_eqb_has_key st0 ps st :
  ids_ok st -> (forall i, In i (keys st) -> In i (keys st0)) ->
  list_eqb packet_eqb ps (store_all st) = true -> Forall (has_key st0) ps.
Proof.
  revert ps. induction st as [|[k q] st IH]; intros [|x ps] Hok Hsub H; cbn [store_all map snd list_eqb] in H;
    try discriminate H; [constructor|].
  apply andb_prop in H as [H1 H2]. constructor.
  - exists k. split; [|apply Hsub; left; reflexivity].
    rewrite (packet_eqb_get_id _ _ H1). apply Hok. left. reflexivity.
  - apply IH; [intros ? ? ?; apply Hok; right; assumption|intros i Hi; apply Hsub; right; exact Hi|exact H2].
Qed.

(* ---------------------------------------------------- store invariant of BC *)

Record INVS (s : bc) : Prop := MkINVS {
  S_nodup : NoDup (keys (s_out (sess s)));
  S_ids : ids_ok (s_out (sess s));
  S_resend : match pp s with PResend rest => Forall (has_key (s_out (sess s))) rest | _ => True end }.

Lemma INVS_init : INVS bc_init.
Proof. constructor; cbn; [constructor|intros ? ? []|exact I]. Qed.

Lemma has_key_put st i q p : has_key st p -> has_key (store_put st i q) p.
Proof. intros (j & G & Hin). exists j. split; [exact G|apply keys_put_incl; exact Hin]. Qed.

Lemma INVS_frame s s' : s_out (sess s') = s_out (sess s) -> pp s' = pp s -> INVS s -> INVS s'.
Proof. intros Eo Ep [H1 H2 H3]. constructor; rewrite ?Eo, ?Ep; assumption. Qed.

Lemma INVS_pp s s' : s_out (sess s') = s_out (sess s) ->
  match pp s' with PResend _ => False | _ => True end -> INVS s -> INVS s'.
Proof. intros Eo Ep [H1 H2 H3]. constructor; rewrite ?Eo; try assumption. destruct (pp s'); try exact I; contradiction. Qed.

Lemma INVS_learned s s1 : learned s s1 -> INVS s -> INVS s1.
Proof.
  intros [->|(g & _ & [[_ ->]|[[_ ->]|[[_ ->]|[_ ->]]]])] HR; try exact HR; (eapply INVS_frame; [| |exact HR]); reflexivity.
Qed.

Lemma INVS_proc s e s' : INVS s -> step_proc s e = Some s' -> INVS s'.
Proof.
  intros HS H. unfold step_proc, proc_dispatch, die_p, guard in H.
  pose proof HS as [H1 H2 H3].
  inv_step H; inv_helpers; injection H as <-; subst.
  all: try ((eapply INVS_pp; [| |exact HS]); bcsimpl; cbn [sess_with s_out]; [reflexivity|exact I]).
  - (* Setup *) destruct fresh; constructor; bcsimpl; cbn [session_new s_out keys map]; try assumption; try exact I;
      [constructor|intros ? ? []].
  - (* All *)
    match goal with Hl : list_eqb packet_eqb _ _ = true |- _ =>
      pose proof (list_eqb_has_key (s_out (sess s)) _ _ H2 (fun i Hi => Hi) Hl) as HF end.
    destruct l; constructor; bcsimpl; try assumption; exact I.
  - (* Resend ok *)
    inversion H3 as [|? ? Hp Hl]; subst. destruct Hp as (i & Gi & Hin).
    assert (Es : s_out (sess (sess_save (take_deq_if_any s) Outgoing (set_dup p))) = store_put (s_out (sess s)) i (set_dup p)).
    { unfold take_deq_if_any, take_deq. destruct (0 <? tdeq s); bcsimpl; cbn [sess_with s_out sess_store];
        unfold store_save; rewrite get_id_set_dup, Gi; reflexivity. }
    constructor; bcsimpl; cbn [sess_with s_out sess_store] in *; rewrite ?Es.
    + apply nodup_put. exact H1.
    + apply ids_ok_put; [exact H2|rewrite get_id_set_dup; exact Gi].
    + destruct l; [exact I|]. eapply Forall_impl; [|exact Hl]. intros a Ha. apply has_key_put. exact Ha.
  - (* Resend fail *)
    inversion H3 as [|? ? Hp Hl]; subst. destruct Hp as (i & Gi & Hin).
    assert (Es : s_out (sess (sess_save (take_deq_if_any s) Outgoing (set_dup p))) = store_put (s_out (sess s)) i (set_dup p)).
    { unfold take_deq_if_any, take_deq. destruct (0 <? tdeq s); bcsimpl; cbn [sess_with s_out sess_store];
        unfold store_save; rewrite get_id_set_dup, Gi; reflexivity. }
    constructor; bcsimpl; cbn [sess_with s_out sess_store] in *; rewrite ?Es.
    + apply nodup_put. exact H1.
    + apply ids_ok_put; [exact H2|rewrite get_id_set_dup; exact Gi].
    + exact I.
  - (* AckDel *) constructor; bcsimpl; cbn [sess_with s_out sess_store]; [apply nodup_delete; exact H1|apply ids_ok_delete; exact H2|exact I].
  - (* RecSave *) constructor; bcsimpl; cbn [sess_with s_out sess_store store_save get_id];
      [apply nodup_put; exact H1|apply ids_ok_put; [exact H2|reflexivity]|exact I].
Qed.

Lemma INVS_deq s e s' : INV s -> INVS s -> step_deq s e = Some s' -> INVS s'.
Proof.
  intros HI HS H. pose proof (I_shape _ HI) as Hsh. unfold step_deq, guard in H.
  pose proof HS as [H1 H2 H3].
  inv_step H; inv_helpers; injection H as <-; subst; cbn [dp_shape] in Hsh.
  all: try ((eapply INVS_frame; [| |exact HS]); bcsimpl; cbn [sess_with s_out]; reflexivity).
  - destruct backack; (eapply INVS_frame; [| |exact HS]); reflexivity.
  - (* Save ok *)
    destruct Hsh as (m & id & -> & _).
    assert (E : forall x, s_out (sess (set_dp (sess_save s Outgoing (Publish false m id)) x)) =
                          store_put (s_out (sess s)) id (Publish false m id)) by (intros x; reflexivity).
    assert (Ep : forall x, pp (set_dp (sess_save s Outgoing (Publish false m id)) x) = pp s) by (intros x; reflexivity).
    constructor; rewrite E, ?Ep.
    + apply nodup_put. exact H1.
    + apply ids_ok_put; [exact H2|reflexivity].
    + destruct (pp s); try exact I. eapply Forall_impl; [|exact H3]. intros a Ha. apply has_key_put. exact Ha.
  - (* Send ok *)
    destruct Hsh as (m & id & ->). destruct (m_qos m =? 0); (eapply INVS_frame; [| |exact HS]); reflexivity.
Qed.

Lemma INVS_step s e s' : INV s -> INVS s -> step s e = Some s' -> INVS s'.
Proof.
  intros HI HS H. apply step_inv in H.
  destruct H as [He Ho ->|He Ho ->|He Hq ->|Hc|g s1 Hg Hl Hr Ho Hp|g s1 Hg Hl Hr Ho Hnp Hd
                |g s1 Hg Hl Hr Ho Hnp Hnd Ha|g s1 Hg Hl Hr Ho Hc|He Hc|g He Ho ->].
  - (eapply INVS_pp; [| |exact HS]); [reflexivity|exact I].
  - exact HS.
  - exact HS.
  - apply step_clo_sum in Hc as (_ & Hs & _). eapply INVS_frame; [apply (sp_out _ _ Hs)|apply (sp_pp _ _ Hs)|exact HS].
  - eapply INVS_proc; [eapply INVS_learned; eassumption|exact Hp].
  - eapply INVS_deq; [eapply INV_learned; eassumption|eapply INVS_learned; eassumption|exact Hd].
  - pose proof (step_ack_sum _ _ _ Ha) as (Hs & _).
    eapply INVS_frame; [apply (sp_out _ _ Hs)|apply (sp_pp _ _ Hs)|eapply INVS_learned; eassumption].
  - pose proof (INVS_learned _ _ Hl HS) as HS1. apply step_cleanup_sum in Hc as (_ & [(Hs & _)|Hf]).
    + eapply INVS_frame; [apply (sp_out _ _ Hs)|apply (sp_pp _ _ Hs)|exact HS1].
    + eapply INVS_pp; [rewrite (fz_sess _ _ Hf); reflexivity|rewrite (fz_pp _ _ Hf); exact I|exact HS1].
  - apply step_cleanup_sum in Hc as (_ & [(Hs & _)|Hf]).
    + eapply INVS_frame; [apply (sp_out _ _ Hs)|apply (sp_pp _ _ Hs)|exact HS].
    + eapply INVS_pp; [rewrite (fz_sess _ _ Hf); reflexivity|rewrite (fz_pp _ _ Hf); exact I|exact HS].
  - (eapply INVS_frame; [| |exact HS]); reflexivity.
Qed.

Definition INV3 (s : bc) : Prop := INV s /\ INVS s.
Lemma INV3_init : INV3 bc_init.
Proof. split; [exact INV_init|exact INVS_init]. Qed.
Lemma INV3_step s e s' : INV3 s -> step s e = Some s' -> INV3 s'.
Proof. intros [H1 H2] H. split; [eapply INV_step|eapply INVS_step]; eassumption. Qed.
