(* ConnProofsC1.v — summaries ("frames") of the sub-steps of BC that the C08/C16
   relations do not care about, and the basic model invariant INV:
     - processor and dequeuer are different goroutines,
     - the ack queue holds acknowledgement packets only,
     - before Restore succeeded the dequeuer and the acker are off,
     - the dequeuer's packet is a fresh PUBLISH,
     - a busy dequeuer has a goroutine,
     - the outgoing store (and the resend list) hold id-bearing packets only. *)
From Coq Require Import List NArith Bool Lia ZArith ZifyN ZifyBool.
From GM Require Import Base.Lts Codec.Packet Session.Ids Session.Store Session.StoreProofs
  Broker.Conn Broker.ConnSpec Broker.ConnBase Broker.ConnProofsCDefs Broker.ConnProofsC0.
Import ListNotations.
Open Scope N_scope.

(* ------------------------------------------------------------------ frames *)

(* the fields the C08/C16 relations look at *)
Record same_pd (s s' : bc) : Prop := SamePd {
  sp_pp : pp s' = pp s; sp_dp : dp s' = dp s;
  sp_gproc : gproc s' = gproc s; sp_gdeq : gdeq s' = gdeq s;
  sp_cw : cw s' = cw s; sp_tdeq : tdeq s' = tdeq s;
  sp_out : s_out (sess s') = s_out (sess s); sp_cnt : s_counter (sess s') = s_counter (sess s);
  sp_conn : conn_no s' = conn_no s }.

Lemma same_pd_refl s : same_pd s s.
Proof. constructor; reflexivity. Qed.

Definition clo_event (e : event) : Prop :=
  match e with
  | EAckCall _ _ | EDelete _ Incoming _ _ | EDie _ KSession | EConnClose _ | EAckRet _ _ => True
  | _ => False
  end.

Lemma clo_enqueue_same s c : same_pd s (clo_enqueue s c).
Proof. unfold clo_enqueue. destruct (clo_live s c); constructor; reflexivity. Qed.

Lemma clo_enqueue_ackq s c :
  ackq (clo_enqueue s c) = ackq s \/ ackq (clo_enqueue s c) = ackq s ++ [ack_packet (c_kind c)].
Proof. unfold clo_enqueue. destruct (clo_live s c); [right|left]; reflexivity. Qed.

Lemma clo_enqueue_lp s c : lp (clo_enqueue s c) = lp s.
Proof. unfold clo_enqueue. destruct (clo_live s c); reflexivity. Qed.

Lemma step_clo_sum s e s' : step_clo s e = Some s' ->
  clo_event e /\ same_pd s s' /\ lp s' = lp s /\ ap s' = ap s /\
  (ackq s' = ackq s \/ exists a, ackq s' = ackq s ++ [ack_packet a]).
Proof.
  intros H. unfold step_clo, guard in H. inv_step H; injection H as <-; (split; [exact I|]).
  all: unfold clo_enqueue, clo_live; repeat match goal with |- context[if ?b then _ else _] => destruct b end.
  all: (split; [constructor; reflexivity|split; [reflexivity|split; [reflexivity|]]]).
  all: first [left; reflexivity|right; eexists; reflexivity].
Qed.

(* acker *)
Definition ack_event (e : event) : Prop :=
  match e with
  | ETx _ p true _ => exists q q', ackq_take q p = Some q'
  | EDie _ KTransport | EConnClose _ => True
  | _ => False
  end.

Lemma ack_token_back_same s p : same_pd s (ack_token_back s p).
Proof. destruct p; constructor; reflexivity. Qed.

Lemma ackq_take_forall (P : packet -> Prop) q p q' : ackq_take q p = Some q' -> Forall P q -> Forall P q'.
Proof.
  revert q'. induction q as [|x q IH]; intros q' H HF; cbn [ackq_take] in H; [discriminate|].
  inversion HF as [|? ? Hx Hq]; subst.
  destruct (packet_eqb x p); [injection H as <-; exact Hq|].
  destruct (ackq_take q p) as [r|]; [|discriminate]. injection H as <-. constructor; [exact Hx|apply IH; [reflexivity|exact Hq]].
Qed.

Lemma ackq_take_is_ack q p q' :
  ackq_take q p = Some q' -> Forall (fun x => is_ack_packet x = true) q -> is_ack_packet p = true.
Proof.
  revert q'. induction q as [|x q IH]; intros q' H HF; cbn [ackq_take] in H; [discriminate|].
  inversion HF as [|? ? Hx Hq]; subst.
  destruct (packet_eqb x p) eqn:E; [eapply packet_eqb_is_ack; eassumption|].
  destruct (ackq_take q p) as [r|]; [|discriminate]. eapply IH; [reflexivity|exact Hq].
Qed.

Lemma step_ack_sum s e s' : step_ack s e = Some s' ->
  same_pd s s' /\ lp s' = lp s /\
  match e with
  | ETx _ p true _ => exists q', ackq_take (ackq s) p = Some q' /\ ackq s' = q' /\ ap s = AIdle
  | EDie _ KTransport | EConnClose _ => ackq s' = ackq s
  | _ => False
  end.
Proof.
  intros H. unfold step_ack in H. inv_step H; injection H as <-.
  all: try (split; [constructor; reflexivity|split; [reflexivity|]]); try reflexivity.
  all: try (eexists; split; [reflexivity|split; reflexivity]).
  - match goal with |- context[ack_token_back ?s0 ?p] => pose proof (ack_token_back_same s0 p) as [? ? ? ? ? ? ? ? ?] end.
    bcsimpl. split; [constructor; assumption|]. split; [destruct p; reflexivity|].
    eexists; split; [reflexivity|split; [destruct p; reflexivity|reflexivity]].
Qed.

(* cleanup: either nothing the relations look at changes, or the connection is frozen *)
Definition cl_event (e : event) : Prop :=
  match e with
  | EPub _ _ None | ETerm _ _ | EClosed | EPubRet _ _ | EDie _ KBackend => True
  | _ => False
  end.

Record frozen (s s' : bc) : Prop := Frozen {
  fz_stop : all_stopped s = true;
  fz_pp : pp s' = PDone;
  fz_dp : dp s' = match dp s with DOff => DOff | _ => DDone end;
  fz_ap : ap s' = match ap s with AOff => AOff | _ => ADone end;
  fz_gproc : gproc s' = gproc s; fz_gdeq : gdeq s' = gdeq s;
  fz_cw : cw s' = cw s; fz_tdeq : tdeq s' = tdeq s;
  fz_sess : sess s' = sess s; fz_ackq : ackq s' = ackq s; fz_conn : conn_no s' = conn_no s }.

Lemma step_cleanup_sum s e s' : step_cleanup s e = Some s' ->
  cl_event e /\ ((same_pd s s' /\ ackq s' = ackq s /\ ap s' = ap s) \/ frozen s s').
Proof.
  intros H. unfold step_cleanup, guard in H. inv_step H; injection H as <-; (split; [exact I|]).
  all: try (left; split; [constructor; reflexivity|split; reflexivity]).
  all: right; repeat match goal with H : _ && _ = true |- _ => apply andb_prop in H; destruct H end.
  all: constructor; try reflexivity; assumption.
Qed.

(* --------------------------------------------------------------- invariant *)

Definition pre_loop (p : ppc) : bool :=
  match p with
  | PFirst | PAuth _ | PDeny | PSetup _ | PConnack _ _ | PAll | PResend _ | PRestore => true
  | _ => false
  end.

Definition dp_shape (d : dpc) : Prop :=
  match d with
  | DNextId m _ => (m_qos m =? 0) = false
  | DSave p _ => exists m id, p = Publish false m id /\ (m_qos m =? 0) = false
  | DBackAck p | DSend p => exists m id, p = Publish false m id
  | _ => True
  end.

Definition storable (p : packet) : bool := match get_id p with Some _ => true | None => false end.

Record INV (s : bc) : Prop := MkINV {
  I_roles : forall g, gproc s = Some g -> gdeq s = Some g -> False;
  I_ackq : Forall (fun p => is_ack_packet p = true) (ackq s);
  I_pre : pre_loop (pp s) = true -> dp s = DOff /\ ap s = AOff;
  I_shape : dp_shape (dp s);
  I_busy : deq_busy (dp s) = true -> gdeq s <> None;
  I_store : Forall (fun p => storable p = true) (store_all (s_out (sess s)));
  I_resend : match pp s with PResend ps => Forall (fun p => storable p = true) ps /\ ps <> [] | _ => True end }.

Lemma INV_init : INV bc_init.
Proof. constructor; cbn; try constructor; try discriminate; intros; discriminate. Qed.

Lemma store_put_forall (P : packet -> Prop) st i p :
  Forall P (store_all st) -> P p -> Forall P (store_all (store_put st i p)).
Proof.
  unfold store_all. induction st as [|[j q] st IH]; intros HF Hp; cbn [store_put map snd].
  - constructor; [exact Hp|constructor].
  - cbn [map snd] in HF. inversion HF as [|? ? Hq Hst]; subst.
    destruct (i =? j); cbn [map snd]; constructor; try assumption. apply IH; assumption.
Qed.

Lemma store_save_forall (P : packet -> Prop) st p :
  Forall P (store_all st) -> P p -> Forall P (store_all (store_save st p)).
Proof. unfold store_save. intros HF Hp. destruct (get_id p); [apply store_put_forall; assumption|exact HF]. Qed.

Lemma store_delete_forall (P : packet -> Prop) st i :
  Forall P (store_all st) -> Forall P (store_all (store_delete st i)).
Proof.
  unfold store_all. induction st as [|[j q] st IH]; intros HF; cbn [store_delete map snd]; [constructor|].
  cbn [map snd] in HF. inversion HF as [|? ? Hq Hst]; subst.
  destruct (i =? j); [exact Hst|]. cbn [map snd]. constructor; [exact Hq|apply IH; exact Hst].
Qed.

Lemma list_eqb_forall (P : packet -> bool) ps qs :
  (forall x y, packet_eqb x y = true -> P y = true -> P x = true) ->
  list_eqb packet_eqb ps qs = true -> Forall (fun p => P p = true) qs -> Forall (fun p => P p = true) ps.
Proof.
  intros HP. revert qs. induction ps as [|x ps IH]; intros [|y qs] H HF; cbn [list_eqb] in H; try discriminate H; [constructor|].
  apply andb_prop in H as [H1 H2]. inversion HF as [|? ? Hy Hqs]; subst.
  constructor; [eapply HP; eassumption|eapply IH; eassumption].
Qed.

Lemma packet_eqb_storable x y : packet_eqb x y = true -> storable y = true -> storable x = true.
Proof. destruct x, y; cbn [packet_eqb storable get_id]; intros H1 H2; try discriminate H1; try discriminate H2; reflexivity. Qed.

Lemma storable_set_dup p : storable p = true -> storable (set_dup p) = true.
Proof. destruct p; cbn [set_dup storable get_id]; intros H; exact H. Qed.

Lemma INV_learned s s1 : learned s s1 -> INV s -> INV s1.
Proof.
  intros [->|(g & Hf & Hc)] HI; [exact HI|].
  destruct HI as [I1 I2 I3 I4 I5 I6 I7]. apply role_free_inv in Hf as (F1 & F2 & F3 & F4).
  destruct Hc as [[E ->]|[[E ->]|[[E ->]|[E ->]]]]; constructor; bcsimpl; try assumption.
  - intros g' Hp Hd. injection Hp as <-. contradiction.
  - intros g' Hp Hd. injection Hd as <-. contradiction.
  - intros _. discriminate.
Qed.

Lemma INV_same s s' :
  same_pd s s' -> Forall (fun p => is_ack_packet p = true) (ackq s') ->
  (pre_loop (pp s) = true -> ap s' = ap s) -> INV s -> INV s'.
Proof.
  intros [E1 E2 E4 E5 E6 E7 E8 E9 E10] Hq Ha [I1 I2 I3 I4 I5 I6 I7].
  constructor; rewrite ?E1, ?E2, ?E4, ?E5, ?E8; try assumption.
  intros Hp. rewrite (Ha Hp). apply I3. exact Hp.
Qed.

Lemma INV_frozen s s' : frozen s s' -> INV s -> INV s'.
Proof.
  intros [F0 F1 F2 F3 F4 F5 F6 F7 F8 F9 F10] [I1 I2 I3 I4 I5 I6 I7].
  constructor; rewrite ?F1, ?F2, ?F3, ?F4, ?F5, ?F8, ?F9; try assumption.
  - cbn [pre_loop]. discriminate.
  - destruct (dp s); exact I.
  - destruct (dp s); cbn [deq_busy]; discriminate.
  - exact I.
Qed.

Lemma INV_proc s e s' : INV s -> step_proc s e = Some s' -> INV s'.
Proof.
  intros [I1 I2 I3 I4 I5 I6 I7] H. unfold step_proc, proc_dispatch, die_p, guard in H.
  inv_step H; inv_helpers; injection H as <-; cbn [pre_loop] in I3.
  all: try (constructor; bcsimpl; try assumption; try exact I; try (intros _; apply I3; reflexivity); try discriminate; fail).
  - (* Setup *) destruct fresh; constructor; bcsimpl; try assumption; try exact I; try constructor;
      try (intros _; apply I3; reflexivity).
  - (* All *)
    match goal with Hl : list_eqb packet_eqb _ _ = true |- _ =>
      pose proof (list_eqb_forall storable _ _ packet_eqb_storable Hl I6) as HF end.
    destruct l; constructor; bcsimpl; try assumption; try exact I; try (intros _; apply I3; reflexivity).
    split; [exact HF|discriminate].
  - (* Resend ok *)
    destruct I7 as [I7 _]. inversion I7 as [|? ? Hp Hl]; subst.
    unfold take_deq_if_any, take_deq. destruct (0 <? tdeq s); destruct l; constructor; bcsimpl;
      try assumption; try exact I; try (intros _; apply I3; reflexivity);
      try (apply store_save_forall; [exact I6|apply storable_set_dup; exact Hp]);
      try (split; [exact Hl|discriminate]).
  - (* Resend fail *)
    destruct I7 as [I7 _]. inversion I7 as [|? ? Hp Hl]; subst.
    unfold take_deq_if_any, take_deq. destruct (0 <? tdeq s); constructor; bcsimpl;
      try assumption; try exact I; try discriminate;
      try (apply store_save_forall; [exact I6|apply storable_set_dup; exact Hp]).
  - (* AckDel *) constructor; bcsimpl; try assumption; try exact I; try discriminate.
    apply store_delete_forall. exact I6.
  - (* RecSave *) constructor; bcsimpl; try assumption; try exact I; try discriminate.
    apply store_save_forall; [exact I6|reflexivity].
Qed.

Lemma INV_deq s e s' : INV s -> gdeq s <> None -> step_deq s e = Some s' -> INV s'.
Proof.
  intros [I1 I2 I3 I4 I5 I6 I7] Hg H. unfold step_deq, guard in H.
  assert (Hpre : pre_loop (pp s) = true -> False).
  { intros Hp. destruct (I3 Hp) as [Hd _]. rewrite Hd in H. discriminate H. }
  inv_step H; inv_helpers; injection H as <-; cbn [dp_shape] in I4.
  all: try (constructor; bcsimpl; cbn [dp_shape deq_busy]; try assumption; try exact I;
            try (intros Hp; exfalso; exact (Hpre Hp)); try (intros _; exact Hg); try discriminate;
            try (eexists; eexists; reflexivity); fail).
  - destruct backack; constructor; bcsimpl; cbn [dp_shape deq_busy]; try assumption;
      try (intros Hp; exfalso; exact (Hpre Hp)); try (intros _; exact Hg); eexists; eexists; reflexivity.
  - constructor; bcsimpl; cbn [dp_shape deq_busy]; try assumption;
      try (intros Hp; exfalso; exact (Hpre Hp)); try (intros _; exact Hg).
    eexists; eexists; split; [reflexivity|exact I4].
  - destruct I4 as (m & id & -> & Hq).
    destruct ba; constructor; bcsimpl; cbn [dp_shape deq_busy]; try assumption;
      try (intros Hp; exfalso; exact (Hpre Hp)); try (intros _; exact Hg);
      try (eexists; eexists; reflexivity); (apply store_save_forall; [exact I6|reflexivity]).
  - destruct I4 as (m & id & ->).
    destruct (m_qos m =? 0); constructor; bcsimpl; cbn [dp_shape deq_busy]; try assumption; try exact I;
      try (intros Hp; exfalso; exact (Hpre Hp)); discriminate.
Qed.

Lemma INV_ack s e s' : INV s -> step_ack s e = Some s' -> INV s'.
Proof.
  intros HI H. pose proof (step_ack_sum _ _ _ H) as (Hs & _ & He).
  assert (Hnp : pre_loop (pp s) = true -> False).
  { intros Hp. destruct (I_pre _ HI Hp) as [_ Ha]. unfold step_ack in H. rewrite Ha in H. discriminate H. }
  apply (INV_same s s' Hs); [|intros Hp; exfalso; exact (Hnp Hp)|exact HI].
  destruct e; try contradiction.
  - destruct async; [|contradiction]. destruct He as (q' & Ht & <- & _).
    eapply ackq_take_forall; [exact Ht|apply (I_ackq _ HI)].
  - rewrite He. apply (I_ackq _ HI).
  - destruct k; try contradiction. rewrite He. apply (I_ackq _ HI).
Qed.

Lemma INV_step s e s' : INV s -> step s e = Some s' -> INV s'.
Proof.
  intros HI H. apply step_inv in H.
  destruct H as [He Ho ->|He Ho ->|He Hq ->|Hc|g s1 Hg Hl Hr Ho Hp|g s1 Hg Hl Hr Ho Hnp Hd
                |g s1 Hg Hl Hr Ho Hnp Hnd Ha|g s1 Hg Hl Hr Ho Hc|He Hc|g He Ho ->].
  - destruct HI as [I1 I2 I3 I4 I5 I6 I7]. constructor; bcsimpl; try exact I; try exact I6; try constructor; try discriminate; reflexivity.
  - exact HI.
  - exact HI.
  - apply step_clo_sum in Hc as (_ & Hs & _ & Ha & Hq).
    apply (INV_same s s' Hs); [|intros _; exact Ha|exact HI].
    destruct Hq as [->|(a & ->)]; [apply (I_ackq _ HI)|].
    apply Forall_app. split; [apply (I_ackq _ HI)|]. constructor; [destruct a; reflexivity|constructor].
  - eapply INV_proc; [eapply INV_learned; eassumption|exact Hp].
  - eapply INV_deq; [eapply INV_learned; eassumption| |exact Hd]. rewrite Hr. discriminate.
  - eapply INV_ack; [eapply INV_learned; eassumption|exact Ha].
  - pose proof (INV_learned _ _ Hl HI) as HI1.
    apply step_cleanup_sum in Hc as (_ & [(Hs & Hq & Ha)|Hf]).
    + apply (INV_same s1 s' Hs); [rewrite Hq; apply (I_ackq _ HI1)|intros _; exact Ha|exact HI1].
    + eapply INV_frozen; eassumption.
  - apply step_cleanup_sum in Hc as (_ & [(Hs & Hq & Ha)|Hf]).
    + apply (INV_same s s' Hs); [rewrite Hq; apply (I_ackq _ HI)|intros _; exact Ha|exact HI].
    + eapply INV_frozen; eassumption.
  - destruct HI as [I1 I2 I3 I4 I5 I6 I7]. constructor; bcsimpl; assumption.
Qed.

Theorem INV_reachable es s : bc_run es = Some s -> INV s.
Proof. apply (bc_invariant INV INV_init INV_step). Qed.
