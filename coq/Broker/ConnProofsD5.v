(* ConnProofsD5.v — every trace accepted by the broker-connection model BC satisfies
   c15_resend_first (ConnSpec5.v): between Setup and Restore only the processor sends,
   CONNACK and then the stored packets in listing order, and nothing is dequeued. *)
From Coq Require Import List NArith Bool Lia.
From Coq.Strings Require Import Byte.
From GM Require Import Base.Lts Codec.Packet Session.Ids Session.Store Session.StoreProofs
  Broker.Conn Broker.ConnSpec Broker.ConnSpec2 Broker.ConnSpec5 Broker.ConnBase
  Broker.ConnProofsD0 Broker.ConnProofsD1 Broker.ConnProofsD2.
Import ListNotations.
Open Scope N_scope.

Definition pp_dead (x : ppc) : bool := match x with PDieLog _ | PDieClose | PDone => true | _ => false end.

(* the processor's control point during the resend window, against the scanner's to-do list *)
Definition rf_pc (x : ppc) (todo : option (list packet)) : Prop :=
  match x, todo with
  | PConnack _ _, None | PAll, None => True
  | PResend ps, Some q => q = map set_dup ps
  | PRestore, Some [] => True
  | _, _ => pp_dead x = true
  end.

Definition rf_R (s : bc) (t : rf_st) : Prop :=
  (dq_early (pp s) = true -> dp s = DOff /\ ap s = AOff) /\
  match t with
  | RfIdle => True
  | RfOpen g todo => dp s = DOff /\ ap s = AOff /\ gproc s = Some g /\ rf_pc (pp s) todo
  end.

Definition rf_neutral (e : event) : bool :=
  match e with
  | ENewConn | ESetup _ (SOk _ _ _ _ _) | EDeqCall _ | EDeqRet _ _ | EAll _ _ _ | ETx _ _ _ _ | ERestore _ _ => false
  | _ => true
  end.

Lemma rf_neutral_step t e : rf_neutral e = true -> rf_step t e = Some t.
Proof.
  intros Hn. destruct t; destruct e; cbn [rf_neutral] in Hn; try discriminate Hn; try reflexivity;
  destruct r; try discriminate Hn; reflexivity.
Qed.

Lemma rf_idle_step e : e <> ENewConn -> (forall g a b c d f, e <> ESetup g (SOk a b c d f)) -> rf_step RfIdle e = Some RfIdle.
Proof.
  intros H1 H2. destruct e; try reflexivity; try (exfalso; apply H1; reflexivity).
  destruct r; [reflexivity|]. exfalso. eapply H2. reflexivity.
Qed.

Lemma clo_event_rf e : clo_event e = true -> rf_neutral e = true.
Proof. destruct e; cbn [clo_event rf_neutral]; intros H; try discriminate H; reflexivity. Qed.
Lemma cleanup_event_rf e : cleanup_event e = true -> rf_neutral e = true.
Proof. destruct e; cbn [cleanup_event rf_neutral]; intros H; try discriminate H; reflexivity. Qed.

(* what the processor does to dp / ap *)
Lemma step_proc_rf s e s' : step_proc s e = Some s' ->
  (dp s' = dp s /\ ap s' = ap s /\ (dq_early (pp s') = true -> dq_early (pp s) = true)) \/
  (pp s = PRestore /\ dq_early (pp s') = false).
Proof.
  intros H. unfold step_proc, proc_dispatch, die_p, guard in H.
  destruct (pp s) eqn:Epp; destruct e; try discriminate H; bm H; inv_some H; inv_helpers; inv_tdia; sf.
  all: try (left; split; [reflexivity|split; [reflexivity|cbn [dq_early]; auto]]; fail).
  all: right; split; reflexivity.
Qed.

Lemma rf_R_roles s t p d a c : (gproc s = None \/ p = gproc s) -> rf_R s t -> rf_R (set_roles s p d a c) t.
Proof.
  intros Hp (R1 & R2). unfold rf_R in *; sf. split; [exact R1|]. destruct t as [|g todo]; [exact I|].
  destruct R2 as (A & B & C & D). destruct Hp as [Hp| ->]; [congruence|]. repeat split; assumption.
Qed.

Lemma rf_step_ok s t e s' : rf_R s t -> step s e = Some s' -> exists t', rf_step t e = Some t' /\ rf_R s' t'.
Proof.
  intros HR H. destruct (step_cases _ _ _ H) as
    [He Hlp Hs|He Ho Hs|He Hq Hs|Hc|He Hc|g s1 Ho Hg Hc Hi Hv Hp|g s1 Ho Hg Hc Hi Hr1 Hv Hp
    |g s1 Ho Hg Hc Hi Hr1 Hr2 Hv Hp|g s1 Ho Hg Hc Hi Hr1 Hr2 Hr3 Hv Hp|g He Ho Hc Hi Hf Hs].
  - subst e s'. exists RfIdle. split; [reflexivity|]. unfold rf_R, new_conn; sf. split; [intros _; split; reflexivity|exact I].
  - subst e s'. exists t. split; [destruct t; reflexivity|exact HR].
  - subst e s'. exists t. split; [destruct t; reflexivity|exact HR].
  - exists t. split; [apply rf_neutral_step, clo_event_rf; eapply step_clo_event; exact Hc|].
    destruct (step_clo_shape _ _ _ Hc) as (si & cl & dy & q & ->). unfold rf_R in *; sf; exact HR.
  - subst e. exists t. split; [destruct t; reflexivity|].
    destruct (step_cleanup_shape _ _ _ Hc) as (p & d & a & l & -> & _ & Hx). destruct HR as (R1 & R2).
    unfold rf_R in *; sf. destruct Hx as [(-> & -> & -> & _)|(_ & _ & -> & -> & ->)]; [split; assumption|].
    split; [discriminate|]. destruct t as [|g todo]; [exact I|]. destruct R2 as (A & B & C & D).
    rewrite A, B. repeat split; assumption.
  - (* processor *)
    assert (HR1 : rf_R s1 t /\ gproc s1 = Some g).
    { destruct Hv as [[-> Hgp]|(Hgp & _ & -> & _)]; [split; [exact HR|exact Hgp]|].
      split; [apply rf_R_roles; [left; exact Hgp|exact HR]|reflexivity]. }
    clear HR H Hv Hc Hi. destruct HR1 as ((R1 & R2) & Hgp).
    destruct t as [|g0 todo].
    + (* outside the window *)
      assert (Hearly : dq_early (pp s') = true -> dp s' = DOff /\ ap s' = AOff).
      { destruct (step_proc_rf _ _ _ Hp) as [(Hd & Hap & He)|(_ & He)]; [|rewrite He; discriminate].
        intros Hx. rewrite Hd, Hap. apply R1, He, Hx. }
      destruct (step_proc_frame _ _ _ Hp) as (_ & F1 & _).
      unfold step_proc, proc_dispatch, die_p, guard in Hp.
      destruct (pp s1) eqn:Epp; destruct e; try discriminate Hp; bm Hp;
        try (exists RfIdle; split; [reflexivity|split; [exact Hearly|exact I]]; fail).
      (* Setup succeeded: the window opens *)
      all: inv_some Hp; cbn [ev_g] in Hg; injection Hg as ->;
           (eexists; split; [reflexivity|]); destruct (R1 eq_refl) as (A & B);
           try match goal with |- context [if ?b then _ else _] => destruct b end;
           unfold rf_R; sf; (split; [intros _; split; assumption|repeat split; assumption]).
    + (* inside the window *)
      destruct R2 as (A & B & C & D). rewrite Hgp in C. injection C as <-.
      unfold step_proc, proc_dispatch, die_p, guard in Hp.
      destruct (pp s1) eqn:Epp; try (cbn [rf_pc pp_dead] in D; destruct todo as [[|]|]; discriminate D).
      all: destruct e; try discriminate Hp; bm Hp; inv_some Hp; inv_helpers; inv_tdia;
           cbn [ev_g] in Hg; injection Hg as ->; cbn [rf_pc] in D.
      all: destruct todo as [[|q rest]|]; cbn [pp_dead] in D; try discriminate D.
      all: try match type of D with _ :: _ = _ => injection D as -> -> end.
      all: try match type of D with [] = _ => discriminate D end.
      all: cbn [rf_step]; rewrite ?N.eqb_refl; cbn [negb];
           try match goal with Hq : packet_eqb _ _ = true |- _ => rewrite Hq end;
           (eexists; split; [reflexivity|]);
           unfold rf_R; sf; cbn [dq_early rf_pc pp_dead map];
           (split; [first [discriminate|intros _; split; assumption]|]);
           repeat split; try assumption; try reflexivity.
  - (* dequeuer: switched off during the window *)
    assert (HR1 : rf_R s1 t).
    { destruct Hv as [[-> _]|(_ & _ & ->)]; [exact HR|]. apply rf_R_roles; [right; reflexivity|exact HR]. }
    destruct HR1 as (R1 & R2).
    assert (Hoff : dp s1 <> DOff).
    { intros E. unfold step_deq in Hp. rewrite E in Hp. destruct e; discriminate Hp. }
    destruct t as [|g0 todo]; [|destruct R2 as (A & _); contradiction].
    exists RfIdle. split.
    + pose proof (step_deq_event _ _ _ Hp) as He. destruct e; cbn [deq_event] in He; try discriminate He; reflexivity.
    + destruct (step_deq_shape _ _ _ Hp) as (se & d & dy & t1 & t2 & t3 & ->). pose proof (step_deq_pcs _ _ _ Hp) as Hd.
      unfold rf_R in *; sf. split; [|exact I]. intros Hx. destruct (R1 Hx) as (E & _). contradiction.
  - (* acker: switched off during the window *)
    assert (HR1 : rf_R s1 t).
    { destruct Hv as [[-> _]|(_ & _ & ->)]; [exact HR|]. apply rf_R_roles; [right; reflexivity|exact HR]. }
    destruct HR1 as (R1 & R2).
    assert (Hoff : ap s1 <> AOff).
    { intros E. unfold step_ack in Hp. rewrite E in Hp. destruct e; discriminate Hp. }
    destruct t as [|g0 todo]; [|destruct R2 as (_ & B & _); contradiction].
    exists RfIdle. split.
    + pose proof (step_ack_event _ _ _ Hp) as He. destruct e; cbn [ack_event] in He; try discriminate He; reflexivity.
    + destruct (step_ack_shape _ _ _ Hp) as (a & dy & t1 & t2 & t3 & q & ->).
      unfold rf_R in *; sf. split; [|exact I]. intros Hx. destruct (R1 Hx) as (_ & E). contradiction.
  - (* cleanup *)
    assert (HR1 : rf_R s1 t).
    { destruct Hv as [[-> _]|(_ & _ & ->)]; [exact HR|]. apply rf_R_roles; [right; reflexivity|exact HR]. }
    exists t. split; [apply rf_neutral_step, cleanup_event_rf; eapply step_cleanup_event; exact Hp|].
    destruct (step_cleanup_shape _ _ _ Hp) as (p & d & a & l & -> & _ & Hx). destruct HR1 as (R1 & R2).
    unfold rf_R in *; sf. destruct Hx as [(-> & -> & -> & _)|(_ & _ & -> & -> & ->)]; [split; assumption|].
    split; [discriminate|]. destruct t as [|g0 todo]; [exact I|]. destruct R2 as (A & B & C & D).
    rewrite A, B. repeat split; assumption.
  - subst e s'. exists t. split; [destruct t; reflexivity|]. unfold rf_R in *; sf; exact HR.
Qed.

Theorem c15_resend_first_holds : forall es s, bc_run es = Some s -> c15_resend_first es = true.
Proof.
  apply (scan_sound rf_step rf_R rf_step_ok). unfold rf_R, bc_init; sf. split; [discriminate|exact I].
Qed.
