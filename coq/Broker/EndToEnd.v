(* EndToEnd.v — the glue between the two broker models, as definitions over lists.

   BC (Broker/Conn.v) is ONE broker connection, MB (Broker/Backend.v) is the memory backend.
   A message travels

       publisher's wire --BC--> backend.Publish --MB queues--> backend.Dequeue --BC--> subscriber's wire

   The properties C15 (order) and C06 (once, intact, QoS-capped) are decided stage by stage; this
   file defines what it means to put the stages together:

     * what a connection trace hands to / obtains from the backend (published, dequeued) and what
       its wire carried (arrived, forwarded);
     * what a backend history says the same calls were (pub_calls, deq_results);
     * the GLUE conditions that identify the two views of the same calls (glue_publish,
       glue_dequeue).  They are true by construction in the Go code: broker/client.go calls the
       methods of the Backend interface directly (c.backend.Publish(c, msg, ack) in
       processPublish / processPubrel / cleanup, c.backend.Dequeue(c) in the dequeuer), on the
       goroutine that logs the event, so every EPub / EDeqRet of a connection IS one Publish /
       Dequeue operation of the backend history and vice versa.  They are the interface between
       the two models and the only thing the composition assumes beyond the models themselves;
     * the scoping conditions of the end-to-end order statement (a flow: what one publisher sends
       on one topic at one QoS class);
     * two trace clauses of BC used by the composition (forward_link, arrival_link): the existing
       C15 clauses are kept per goroutine and therefore do not determine the order of a whole
       connection by themselves; these two say the same for the connection as a whole.

   Definitions only; the theorems are in Broker/EndToEndProofs*.v. *)
From Coq Require Import List NArith Bool.
From Coq.Strings Require Import Byte.
From GM Require Import Codec.Packet.
(* Backend.v and Conn.v both define step / state / session ...: the backend is used qualified *)
From GM Require Broker.Backend Broker.BackendSpec Broker.BackendProofsHist Broker.BackendLog.
From GM Require Import Session.Store Broker.Conn Broker.ConnSpec.
Import ListNotations.
Open Scope N_scope.

(* ------------------------------------------------------------------ order embeddings *)

(* Emb R xs ys: xs embeds into ys in order — there is a strictly increasing assignment of the
   elements of xs to elements of ys such that each x is R-related to the y it is assigned to.
   With R = eq this is "xs is a subsequence of ys".  No two elements of xs are swapped. *)
Section Emb.
  Context {A B : Type}.
  Variable R : A -> B -> Prop.
  Inductive Emb : list A -> list B -> Prop :=
  | Emb_nil ys : Emb [] ys
  | Emb_skip xs y ys : Emb xs ys -> Emb xs (y :: ys)
  | Emb_take x xs y ys : R x y -> Emb xs ys -> Emb (x :: xs) (y :: ys).

  (* the greedy decision procedure (for the examples) *)
  Variable r : A -> B -> bool.
  Fixpoint embb (xs : list A) (ys : list B) : bool :=
    match xs, ys with
    | [], _ => true
    | _ :: _, [] => false
    | x :: xs', y :: ys' => if r x y then embb xs' ys' else embb xs ys'
    end.
End Emb.

Definition prefix_of {A} (xs ys : list A) : Prop := exists rest, ys = xs ++ rest.

(* ------------------------------------------------------------------ messages *)

(* x is the message m as delivered: topic and payload unchanged, QoS not above m's *)
Definition capped (x m : message) : Prop :=
  m_topic x = m_topic m /\ m_payload x = m_payload m /\ m_qos x <= m_qos m.
Definition cappedb (x m : message) : bool :=
  bytes_eqb (m_topic x) (m_topic m) && bytes_eqb (m_payload x) (m_payload m) && (m_qos x <=? m_qos m).

(* x is carried by an arrival whose candidate messages are c *)
Definition carries (x : message) (c : list message) : Prop := exists m, In m c /\ capped x m.
Definition carriesb (x : message) (c : list message) : bool := existsb (cappedb x) c.

(* how often (topic, payload) occurs *)
Definition count_key (t p : bytes) (l : list message) : nat :=
  length (filter (fun m => bytes_eqb (m_topic m) t && bytes_eqb (m_payload m) p) l).

(* ------------------------------------------------------------------ one connection trace *)

(* the messages the connection hands to the backend (backend.Publish calls), in order: by the
   processor for a received PUBLISH (QoS 0/1) or PUBREL (QoS 2), by the cleanup for the will *)
Definition published (es : list event) : list message :=
  flat_map (fun e => match e with EPub _ m _ => [m] | _ => [] end) es.

(* the messages the connection obtained from the backend (backend.Dequeue results), in order *)
Definition dequeued (es : list event) : list message :=
  flat_map (fun e => match e with EDeqRet _ (QMsg m _) => [m] | _ => [] end) es.

(* the subscriber's wire: the fresh (dup = false) PUBLISH packets sent, in order *)
Definition forwarded (es : list event) : list message :=
  flat_map (fun e => match e with ETx _ (Publish false m _) _ _ => [m] | _ => [] end) es.

(* the publisher's wire: the received PUBLISH and PUBREL packets, in order *)
Definition received_pubs (es : list event) : list packet :=
  flat_map (fun e => match e with
                     | ERx _ (Publish d m id) => [Publish d m id]
                     | ERx _ (Pubrel id) => [Pubrel id]
                     | _ => [] end) es.

(* The publisher's wire as a sequence of ARRIVALS, each with the messages it can release:
     a QoS 0/1 PUBLISH arrives with its message;
     a QoS 2 message "arrives" (is released for delivery) with the PUBREL: the candidates are
       the messages of the QoS 2 PUBLISH packets received earlier under the same packet id
       (exactly one message when the client uses a packet id for one message, as MQTT
       demands while a handshake is open; retransmissions repeat it).
   [seen] lists the QoS 2 PUBLISHes received so far: (packet id, message), latest first. *)
Definition seen_step (seen : list (N * message)) (p : packet) : list (N * message) :=
  match p with
  | Publish _ m id => if m_qos m =? 2 then (id, m) :: seen else seen
  | _ => seen
  end.
Definition candidates (seen : list (N * message)) (id : N) : list message :=
  map snd (filter (fun x => fst x =? id) seen).
Definition arrival (seen : list (N * message)) (p : packet) : list (list message) :=
  match p with
  | Publish _ m _ => if m_qos m =? 2 then [] else [[m]]
  | Pubrel id => [candidates seen id]
  | _ => []
  end.
Fixpoint arrived_from (seen : list (N * message)) (es : list event) : list (list message) :=
  match es with
  | [] => []
  | ERx _ p :: es' => arrival seen p ++ arrived_from (seen_step seen p) es'
  | _ :: es' => arrived_from seen es'
  end.
Definition arrived (es : list event) : list (list message) := arrived_from [] es.

(* When every arrival has one candidate message (repetitions of the same message allowed: a
   retransmitted QoS 2 PUBLISH) — the publisher does not use one packet id for two different
   QoS 2 messages — the publisher's wire is simply a sequence of messages: *)
Definition single_valued (c : list message) : bool :=
  match c with [] => true | m :: rest => forallb (message_eqb m) rest end.
Definition unambiguous (es : list event) : bool := forallb single_valued (arrived es).
Definition arrived_msgs (es : list event) : list message :=
  flat_map (fun c => match c with [] => [] | m :: _ => [m] end) (arrived es).

(* ------------------------------------------------------------------ one backend history *)

(* an observed step of the backend: state, operation, result, next state
   (BackendProofsHist.trace (Backend.init cap) ops lists them for the history ops) *)
Definition bstep : Type := (Backend.state * Backend.op * Backend.result * Backend.state)%type.

(* the observed steps of the history ops, run from the empty backend with SessionQueueSize = cap *)
Definition history (cap : N) (ops : list Backend.op) : list bstep :=
  BackendProofsHist.trace (Backend.init cap) ops.

Definition returned (r : Backend.result) : bool :=
  match r with Backend.RBlocked => false | _ => true end.

(* the Publish calls of the clients cPs (the connections of one publisher's lifetime, in the
   backend's numbering) that returned — nil or ErrQueueFull; a call that has to wait appears in a
   history as attempts with result RBlocked, which are not calls of their own *)
Definition pub_calls (cPs : list N) (tr : list bstep) : list message :=
  flat_map (fun x : bstep =>
    match x with
    | (_, Backend.OPublish c m _, r, _) => if Backend.mem_n c cPs && returned r then [m] else []
    | _ => []
    end) tr.

(* the messages handed out by the Dequeue calls on session k (by whichever connection holds it) *)
Definition deq_step (k : Backend.skey) (x : bstep) : list (bool * message) :=
  match x with
  | (st, Backend.ODequeue c t, Backend.RMsg m, _) => if BackendLog.holds st c k then [(t, m)] else []
  | _ => []
  end.
Definition deq_results (k : Backend.skey) (tr : list bstep) : list message :=
  map snd (flat_map (deq_step k) tr).
(* ... from one of its two queues (temp = true: temporaryQueue, QoS 0; false: storedQueue) *)
Definition deq_q (k : Backend.skey) (temp : bool) (tr : list bstep) : list message :=
  map snd (filter (fun x => Bool.eqb (fst x) temp) (flat_map (deq_step k) tr)).

(* what the delivery specification (BackendLog.enq_event, property C06) says the history
   enqueued on queue temp of session k: per accepted Publish one copy iff the session holds a
   matching filter at that moment and the queue has room; per Subscribe the retained replay *)
Definition enqueued (k : Backend.skey) (temp : bool) (tr : list bstep) : list message :=
  flat_map (fun x : bstep => let '(st, o, r, _) := x in BackendLog.enq_event k temp st o r) tr.

(* ------------------------------------------------------------------ the glue *)

(* every Publish call of the publisher's clients that returned is, in order, one EPub of the
   publisher's connection trace; the trace may end with a call that has not returned *)
Definition glue_publish (cPs : list N) (esP : list event) (tr : list bstep) : Prop :=
  prefix_of (pub_calls cPs tr) (published esP).

(* every message the subscriber's connection trace obtained from Dequeue is, in order, the
   result of one Dequeue operation on session k; the history may end with a Dequeue whose
   return the trace does not show any more *)
Definition glue_dequeue (k : Backend.skey) (esS : list event) (tr : list bstep) : Prop :=
  prefix_of (dequeued esS) (deq_results k tr).

(* ------------------------------------------------------------------ flows *)

(* A flow selects messages by topic and payload (what survives the journey unchanged), e.g.
   "topic t" or "topic t, payload tagged by publisher P". *)
Definition flow : Type := bytes -> bytes -> bool.
Definition in_flow (fl : flow) (m : message) : bool := fl (m_topic m) (m_payload m).

(* C15 speaks of "messages that one publisher sends on one topic at one QoS level".  In a
   history: every Publish of a message of the flow is by one of the clients cPs and of one QoS
   class (temp = true: QoS 0, the temporary queue; false: QoS > 0, the stored queue), and no
   message of the flow reaches session k as a retained replay (Subscribe delivers the
   retained messages again, out of band: property C11) *)
Definition flow_exclusive (fl : flow) (cPs : list N) (k : Backend.skey) (temp : bool) (tr : list bstep) : bool :=
  forallb (fun x : bstep =>
    match x with
    | (_, Backend.OPublish c m _, _, _) =>
        negb (in_flow fl m) || (Backend.mem_n c cPs && Bool.eqb (Backend.use_temp m) temp)
    | (st, Backend.OSubscribe c _ batches, _, _) =>
        negb (BackendLog.holds st c k) || forallb (fun m => negb (in_flow fl m)) (concat batches)
    | _ => true
    end) tr.

(* the publisher's will is not a message of the flow (a will arrives inside CONNECT and is
   published when the connection is lost: it is not "sent" in the order of the PUBLISHes) *)
Definition no_will_in_flow (fl : flow) (esP : list event) : bool :=
  forallb (fun e => match e with
                    | ERx _ (Connect c) => match c_will c with Some w => negb (in_flow fl w) | None => true end
                    | _ => true end) esP.

(* ------------------------------------------------------------------ two clauses of BC, per connection *)

(* forward_link: on the connection as a whole at most one dequeued message is in flight; a
   message is taken from the backend only when the previous one has been sent, and a fresh
   PUBLISH is sent only for the message in flight, carrying exactly it.  (c15_dequeue_order and
   c06_forward_intact say this per goroutine, and let a goroutine that never dequeued send
   anything; the model has one dequeuer per connection.)  A message in flight when the
   connection ends is not forwarded. *)
Definition fl_step (u : option message) (e : event) : option (option message) :=
  match e with
  | ENewConn => Some None
  | EDeqRet _ (QMsg m _) => match u with None => Some (Some m) | Some _ => None end
  | ETx _ (Publish false m _) _ _ =>
      match u with
      | Some m' => if message_eqb m m' then Some None else None
      | None => None
      end
  | _ => Some u
  end.
Definition forward_link (es : list event) : bool := scan fl_step None es.

(* arrival_link: every backend Publish of the connection is either for the packet received LAST
   on the connection, used once — a QoS 0 / QoS 1 PUBLISH with exactly that message, or a PUBREL
   id, and then the message is one received earlier in a QoS 2 PUBLISH with packet id id — or it
   is the will announced by the CONNECT that opened the connection.  (c15_in_order says the first
   half per goroutine; c15_release_intact ties the PUBREL to the session's Lookup.) *)
Record ar_st := ArSt {
  ar_last : option (packet * bool);       (* last packet received on this connection, used? *)
  ar_will : option message;               (* the will of the opening CONNECT *)
  ar_seen : list (N * message) }.         (* QoS 2 PUBLISHes received so far (all connections) *)

Definition ar_use (t : ar_st) (p : packet) : option ar_st := Some (ArSt (Some (p, true)) (ar_will t) (ar_seen t)).
Definition ar_is_will (t : ar_st) (m : message) : option ar_st :=
  if option_eqb message_eqb (ar_will t) (Some m) then Some t else None.

Definition ar_step (t : ar_st) (e : event) : option ar_st :=
  match e with
  | ENewConn => Some (ArSt None None (ar_seen t))
  | ERx _ p =>
      Some (ArSt (Some (p, false))
                 (match ar_last t with
                  | None => match p with Connect c => c_will c | _ => None end
                  | Some _ => ar_will t
                  end)
                 (seen_step (ar_seen t) p))
  | EPub _ m None =>
      match ar_last t with
      | Some (Publish d m' id, false) =>
          if (m_qos m' =? 0) && message_eqb m m' then ar_use t (Publish d m' id) else ar_is_will t m
      | _ => ar_is_will t m
      end
  | EPub _ m (Some _) =>
      match ar_last t with
      | Some (Publish d m' id, false) =>
          if (m_qos m' =? 1) && message_eqb m m' then ar_use t (Publish d m' id) else None
      | Some (Pubrel id, false) =>
          if existsb (fun x => (fst x =? id) && message_eqb (snd x) m) (ar_seen t) then ar_use t (Pubrel id) else None
      | _ => None
      end
  | _ => Some t
  end.
Definition arrival_link (es : list event) : bool := scan ar_step (ArSt None None []) es.
