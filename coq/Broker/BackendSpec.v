(* BackendSpec.v — what C06 / C11 (and the state part of C13) demand of ONE observed
   step  (state before, operation, result, state after), as boolean clauses over
   plain observations.  The clauses speak about subscriptions as maps
   filter -> QoS, queues as lists, the retained store as a map topic -> message and
   MQTT matching (`topic_matches`, Topic/MatchSpec.v); they do not mention how the
   backend finds subscriptions (MatchFirst / `pick_sub`) or iterates its maps.

   The same clauses are used twice:
   * BackendProofs*.v prove that every step of the model satisfies them from every
     state (Props/C06.v, C11.v) — hence along every history;
   * extracted, ocaml/drv_backend*.ml evaluates them on the steps observed on the real
     MemoryBackend (`propfail <clause>`).
   Definitions only. *)
From Coq Require Import List NArith Bool.
From Coq.Strings Require Import Byte.
From GM Require Import Codec.Packet Topic.MatchSpec Broker.Backend.
Import ListNotations.
Open Scope N_scope.

(* ------------------------------------------------------------------ observations *)
Definition sessions (st : state) : list (skey * session) :=
  map (fun e => (KTemp (fst e), snd e)) (st_temps st) ++
  map (fun e => (KStored (fst e), snd e)) (st_stored st).

Definition msgs_eqb : list message -> list message -> bool := list_eqb message_eqb.
Definition sub_eqb (a b : sub) : bool := bytes_eqb (fst a) (fst b) && N.eqb (snd a) (snd b).
Definition subs_eqb : list sub -> list sub -> bool := list_eqb sub_eqb.
Definition session_eqb (a b : session) : bool :=
  subs_eqb (s_subs a) (s_subs b) && msgs_eqb (s_tq a) (s_tq b) && msgs_eqb (s_sq a) (s_sq b) &&
  option_eqb N.eqb (s_act a) (s_act b).

Definition is_some {A} (o : option A) : bool := match o with Some _ => true | None => false end.

(* every session of st except k is the same in st'; no session appears or disappears *)
Definition others_unchanged (st st' : state) (k : option skey) : bool :=
  forallb (fun e => (match k with Some k0 => skey_eqb k0 (fst e) | None => false end) ||
                    match get_session st' (fst e) with
                    | Some s' => session_eqb (snd e) s'
                    | None => false
                    end) (sessions st) &&
  forallb (fun e => is_some (get_session st (fst e))) (sessions st').

(* the session holds a filter that matches the topic name (MQTT 4.7) *)
Definition has_match (subs : list sub) (t : bytes) : bool :=
  existsb (fun s => topic_matches (fst s) t) subs.

(* a published topic name has no '#' level (it is not a filter) *)
Definition name_ok (t : bytes) : bool :=
  forallb (fun l => negb (is_hash l)) (split_levels t).

Fixpoint nodup_keys {V} (l : list (bytes * V)) : bool :=
  match l with
  | [] => true
  | (k, _) :: t => negb (existsb (fun x => bytes_eqb k (fst x)) t) && nodup_keys t
  end.

(* ------------------------------------------------------------------ C06 targets / C11 live copy *)
Definition other_queue (m : message) (s : session) : list message :=
  if use_temp m then s_sq s else s_tq s.

(* the session got exactly one copy: same topic and payload, retain flag cleared *)
Definition gained (m : message) (s s' : session) : bool :=
  msgs_eqb (queue_of m s') (queue_of m s ++ [Msg (m_topic m) (m_payload m) (m_qos m) false]).
Definition kept (m : message) (s s' : session) : bool :=
  msgs_eqb (queue_of m s') (queue_of m s).

Definition target_ok (st : state) (c : conn) (m : message) (r : result) (s s' : session) : bool :=
  subs_eqb (s_subs s) (s_subs s') && msgs_eqb (other_queue m s) (other_queue m s') &&
  option_eqb N.eqb (s_act s) (s_act s') &&
  if has_match (s_subs s) (m_topic m) then
    let full := is_full (st_cap st) (queue_of m s) in
    match r with
    | ROk =>
        match s_act s with
        | None => if full then kept m s s' else gained m s s'          (* offline: dropped only when full *)
        | Some c' =>
            if mem_n c' (st_dying st) && full then kept m s s'         (* that connection is going away and has no room *)
            else gained m s s'
        end
    | _ => kept m s s'                                                 (* refused (ErrQueueFull) or waiting: nothing *)
    end
  else kept m s s'.                                                     (* no matching filter: nothing *)

(* the (live) publisher's own session holds a matching filter and its queue for this message is full *)
Definition own_full (st : state) (c : conn) (m : message) : bool :=
  negb (mem_n c (st_dying st)) &&
  match session_of st c with
  | Some (_, s) => has_match (s_subs s) (m_topic m) && is_full (st_cap st) (queue_of m s)
  | None => false
  end.
(* another connected, not closing, session's matching queue is full *)
Definition other_full (st : state) (c : conn) (m : message) : bool :=
  existsb (fun e => has_match (s_subs (snd e)) (m_topic m) &&
                    match s_act (snd e) with
                    | Some c' => negb (c' =? c) && negb (mem_n c' (st_dying st))
                    | None => false end &&
                    is_full (st_cap st) (queue_of m (snd e))) (sessions st).

Definition targets_ok (st : state) (o : op) (r : result) (st' : state) : bool :=
  match o with
  | OPublish c m _ =>
      if name_ok (m_topic m) then
        forallb (fun e => match get_session st' (fst e) with
                          | Some s' => target_ok st c m r (snd e) s'
                          | None => false end) (sessions st) &&
        forallb (fun e => is_some (get_session st (fst e))) (sessions st') &&
        match r with
        | ROk => negb (own_full st c m) && negb (other_full st c m)
        | RQueueFull => own_full st c m
        | RBlocked => other_full st c m
        | _ => false
        end
      else true
  | _ => true
  end.

(* a Publish refused with ErrQueueFull has changed nothing: no session, no queue (the retained map: retained_ok) *)
Definition refused_ok (st : state) (o : op) (r : result) (st' : state) : bool :=
  match o, r with
  | OPublish _ _ _, RQueueFull => others_unchanged st st' None
  | _, _ => true
  end.

(* the publish of a closing connection (its will, published by the connection's cleanup) is never refused: a will —
   retained or not — is always accepted *)
Definition closing_accepted_ok (st : state) (o : op) (r : result) (st' : state) : bool :=
  match o, r with
  | OPublish c _ _, RQueueFull => negb (mem_n c (st_dying st))
  | _, _ => true
  end.

(* C11: wherever a queue grew by a Publish, the new last element has retain = false *)
Definition live_copy_ok (st : state) (o : op) (r : result) (st' : state) : bool :=
  match o with
  | OPublish c m _ =>
      forallb (fun e => match get_session st' (fst e) with
                        | Some s' =>
                            let q := queue_of m (snd e) in let q' := queue_of m s' in
                            if Nat.ltb (length q) (length q') then
                              match rev q' with
                              | x :: _ => negb (m_retain x) && bytes_eqb (m_topic x) (m_topic m) &&
                                          bytes_eqb (m_payload x) (m_payload m)
                              | [] => false end
                            else true
                        | None => true end) (sessions st)
  | _ => true
  end.

(* ------------------------------------------------------------------ C06 qos / C11 cap *)
Definition qos_capped (subs : list sub) (m m' : message) : bool :=
  bytes_eqb (m_topic m') (m_topic m) && bytes_eqb (m_payload m') (m_payload m) &&
  Bool.eqb (m_retain m') (m_retain m) &&
  if name_ok (m_topic m) then
    if has_match subs (m_topic m)
    then existsb (fun x => topic_matches (fst x) (m_topic m) && (m_qos m' =? N.min (m_qos m) (snd x))) subs
    else m_qos m' =? m_qos m
  else true.

Definition qos_ok (st : state) (o : op) (r : result) (st' : state) : bool :=
  match o with
  | ODequeue c temp =>
      match session_of st c with
      | Some (k, s) =>
          match (if temp then s_tq s else s_sq s), r with
          | m :: rest, RMsg m' =>
              qos_capped (s_subs s) m m' &&
              match get_session st' k with
              | Some s' => session_eqb s' (if temp then Sess (s_subs s) rest (s_sq s) (s_act s)
                                           else Sess (s_subs s) (s_tq s) rest (s_act s))
              | None => false end &&
              others_unchanged st st' (Some k)
          | [], REmpty => others_unchanged st st' None
          | _, _ => false
          end
      | None => match r with RNoSession => others_unchanged st st' None | _ => false end
      end
  | _ => true
  end.

(* ------------------------------------------------------------------ C06 resub / unsub *)
(* the QoS a SUBSCRIBE packet asks for a filter: its last entry for that filter *)
Fixpoint last_q (f : bytes) (subs : list sub) : option N :=
  match subs with
  | [] => None
  | (f', q) :: t => match last_q f t with
                    | Some q' => Some q'
                    | None => if bytes_eqb f f' then Some q else None
                    end
  end.

Definition sub_spec (old subs : list sub) (f : bytes) : option N :=
  match last_q f subs with Some q => Some q | None => alookup bytes_eqb f old end.

Definition resub_ok (st : state) (o : op) (r : result) (st' : state) : bool :=
  match o with
  | OSubscribe c subs _ =>
      match session_of st c, r with
      | Some (k, s), (ROk | RQueueFull) =>
          match get_session st' k with
          | Some s' =>
              (negb (nodup_keys (s_subs s)) || nodup_keys (s_subs s')) &&
              forallb (fun f => option_eqb N.eqb (alookup bytes_eqb f (s_subs s')) (sub_spec (s_subs s) subs f))
                      (map fst (s_subs s) ++ map fst subs ++ map fst (s_subs s'))
          | None => false
          end
      | None, RNoSession => true
      | _, _ => false
      end
  | _ => true
  end.

Definition unsub_ok (st : state) (o : op) (r : result) (st' : state) : bool :=
  match o with
  | OUnsubscribe c fs =>
      match session_of st c, r with
      | Some (k, s), ROk =>
          match get_session st' k with
          | Some s' =>
              (negb (nodup_keys (s_subs s)) || nodup_keys (s_subs s')) &&
              forallb (fun f => option_eqb N.eqb (alookup bytes_eqb f (s_subs s'))
                                  (if existsb (bytes_eqb f) fs then None else alookup bytes_eqb f (s_subs s)))
                      (map fst (s_subs s) ++ fs ++ map fst (s_subs s')) &&
              msgs_eqb (s_tq s) (s_tq s') && msgs_eqb (s_sq s) (s_sq s') && option_eqb N.eqb (s_act s) (s_act s')
          | None => false
          end && others_unchanged st st' (Some k)
      | None, RNoSession => others_unchanged st st' None
      | _, _ => false
      end
  | _ => true
  end.

(* ------------------------------------------------------------------ C11 retained set *)
(* what one publish does to the retained map, as a lookup function *)
Definition ret_spec (m : message) (ret : list (bytes * message)) (t : bytes) : option message :=
  if m_retain m && bytes_eqb t (m_topic m)
  then (if is_nil (m_payload m) then None else Some m)
  else alookup bytes_eqb t ret.

Definition retained_ok (st : state) (o : op) (r : result) (st' : state) : bool :=
  (negb (nodup_keys (st_retained st)) || nodup_keys (st_retained st')) &&
  match o, r with
  | OPublish c m _, ROk =>
      forallb (fun t => option_eqb message_eqb (alookup bytes_eqb t (st_retained st')) (ret_spec m (st_retained st) t))
              (m_topic m :: map fst (st_retained st) ++ map fst (st_retained st'))
  | _, _ =>
      forallb (fun t => option_eqb message_eqb (alookup bytes_eqb t (st_retained st')) (alookup bytes_eqb t (st_retained st)))
              (map fst (st_retained st) ++ map fst (st_retained st'))
  end.

(* every stored retained message sits under its own topic, keeps the flag, has a payload *)
Definition retained_wf (st : state) : bool :=
  forallb (fun e => bytes_eqb (fst e) (m_topic (snd e)) && m_retain (snd e) && negb (is_nil (m_payload (snd e))))
          (st_retained st).

(* ------------------------------------------------------------------ C11 replay *)
Fixpoint submulti (x e : list message) : bool :=
  match x with
  | [] => true
  | m :: x' => match remove_first m e with Some e' => submulti x' e' | None => false end
  end.

(* x = the batches of exp, each in some order, one after the other; possibly cut short *)
Fixpoint replay_check (exp : list (list message)) (x : list message) : bool :=
  match exp with
  | [] => is_nil x
  | e :: es =>
      if Nat.ltb (length x) (length e) then submulti x e
      else perm_b (firstn (length e) x) e && replay_check es (skipn (length e) x)
  end.

Definition replay_ok (st : state) (o : op) (r : result) (st' : state) : bool :=
  match o with
  | OSubscribe c subs _ =>
      match session_of st c, r with
      | Some (k, s), (ROk | RQueueFull) =>
          match get_session st' k with
          | Some s' =>
              let n := length (s_tq s) in
              let x := skipn n (s_tq s') in
              let expected := map (fun f => search_retained st (fst f)) subs in
              let total := length (concat expected) in
              let room := N.to_nat (st_cap st - N.of_nat n) in
              msgs_eqb (firstn n (s_tq s')) (s_tq s) &&
              Nat.eqb (length x) (Nat.min room total) &&
              replay_check expected x &&
              (match r with ROk => Nat.leb total room | _ => Nat.ltb room total end) &&
              msgs_eqb (s_sq s) (s_sq s') && option_eqb N.eqb (s_act s) (s_act s')
          | None => false
          end && others_unchanged st st' (Some k)
      | None, RNoSession => others_unchanged st st' None
      | _, _ => false
      end
  | _ => true
  end.

(* ------------------------------------------------------------------ all clauses of a step *)
Definition clauses : list (N * (state -> op -> result -> state -> bool)) :=
  [(1, targets_ok); (2, live_copy_ok); (3, qos_ok); (4, resub_ok); (5, unsub_ok);
   (6, retained_ok); (7, replay_ok); (8, fun _ _ _ st' => retained_wf st')].
