(* ConnProofsB1.v — machinery for the C07 proofs about the broker-connection model
   (own copy of the case analysis of [step] from ConnProofsA_lib.v, kept separate so
   that the two proof developments build independently), plus association-list
   and store lemmas. *)
From Coq Require Import List NArith Bool Lia.
From Coq.Strings Require Import Byte.
From GM Require Import Base.Lts Codec.Packet Session.Ids Session.Store
  Broker.Conn Broker.ConnSpec Broker.ConnBase.
Import ListNotations.
Open Scope N_scope.

(* ------------------------------------------------------ boolean equalities *)

Lemma bytes_eqb_eq a b : bytes_eqb a b = true -> a = b.
Proof.
  revert b; induction a as [|x a IH]; intros [|y b] H; cbn [bytes_eqb] in H; try discriminate; [reflexivity|].
  apply andb_true_iff in H as [H1 H2]. apply Byte.byte_dec_bl in H1. f_equal; [exact H1|apply IH, H2].
Qed.

Lemma bytes_eqb_refl a : bytes_eqb a a = true.
Proof.
  induction a as [|x a IH]; cbn [bytes_eqb]; [reflexivity|].
  rewrite IH, andb_true_r. apply Byte.byte_dec_lb. reflexivity.
Qed.

Lemma list_eqb_eq {A} (eqb : A -> A -> bool) :
  (forall x y, eqb x y = true -> x = y) -> forall a b, list_eqb eqb a b = true -> a = b.
Proof.
  intros Heq a; induction a as [|x a IH]; intros [|y b] H; cbn [list_eqb] in H; try discriminate; [reflexivity|].
  apply andb_true_iff in H as [H1 H2]. f_equal; [apply Heq, H1|apply IH, H2].
Qed.

Lemma list_eqb_refl {A} (eqb : A -> A -> bool) :
  (forall x, eqb x x = true) -> forall a, list_eqb eqb a a = true.
Proof.
  intros Hr a; induction a as [|x a IH]; cbn [list_eqb]; [reflexivity|]. rewrite Hr, IH. reflexivity.
Qed.

Lemma message_eqb_eq a b : message_eqb a b = true -> a = b.
Proof.
  destruct a as [t p q r], b as [t' p' q' r']. unfold message_eqb; cbn [m_topic m_payload m_qos m_retain].
  intros H. repeat (apply andb_true_iff in H as [H ?]).
  repeat match goal with
  | Hx : bytes_eqb _ _ = true |- _ => apply bytes_eqb_eq in Hx
  | Hx : N.eqb _ _ = true |- _ => apply N.eqb_eq in Hx
  | Hx : Bool.eqb _ _ = true |- _ => apply Bool.eqb_prop in Hx
  end.
  congruence.
Qed.

Lemma message_eqb_refl a : message_eqb a a = true.
Proof.
  unfold message_eqb. rewrite !bytes_eqb_refl, N.eqb_refl, Bool.eqb_reflx. reflexivity.
Qed.

Lemma option_eqb_eq {A} (eqb : A -> A -> bool) :
  (forall x y, eqb x y = true -> x = y) -> forall a b, option_eqb eqb a b = true -> a = b.
Proof. intros Heq [x|] [y|] H; cbn in H; try discriminate; [f_equal; apply Heq, H|reflexivity]. Qed.

Lemma connect_eqb_eq a b : connect_eqb a b = true -> a = b.
Proof.
  destruct a as [a1 a2 a3 a4 a5 a6 a7], b as [b1 b2 b3 b4 b5 b6 b7]. unfold connect_eqb;
    cbn [c_client_id c_keep_alive c_username c_password c_clean c_will c_version].
  intros H. repeat (apply andb_true_iff in H as [H ?]).
  repeat match goal with
  | Hx : bytes_eqb _ _ = true |- _ => apply bytes_eqb_eq in Hx
  | Hx : N.eqb _ _ = true |- _ => apply N.eqb_eq in Hx
  | Hx : Bool.eqb _ _ = true |- _ => apply Bool.eqb_prop in Hx
  | Hx : option_eqb message_eqb _ _ = true |- _ => apply (option_eqb_eq _ message_eqb_eq) in Hx
  end.
  congruence.
Qed.

Lemma sub_eqb_eq (x y : bytes * N) : bytes_eqb (fst x) (fst y) && N.eqb (snd x) (snd y) = true -> x = y.
Proof.
  destruct x, y; cbn [fst snd]. intros H. apply andb_true_iff in H as [H1 H2].
  apply bytes_eqb_eq in H1. apply N.eqb_eq in H2. congruence.
Qed.

Lemma subs_eqb_eq a b : subs_eqb a b = true -> a = b.
Proof. apply list_eqb_eq. exact sub_eqb_eq. Qed.

Lemma subs_eqb_refl a : subs_eqb a a = true.
Proof. apply list_eqb_refl. intros x. rewrite bytes_eqb_refl, N.eqb_refl. reflexivity. Qed.

Lemma packet_eqb_eq a b : packet_eqb a b = true -> a = b.
Proof.
  destruct a, b; cbn [packet_eqb]; intros H; try discriminate; try reflexivity.
  - f_equal. apply connect_eqb_eq, H.
  - apply andb_true_iff in H as [H1 H2]. apply Bool.eqb_prop in H1. apply N.eqb_eq in H2. congruence.
  - apply andb_true_iff in H as [H H3]. apply andb_true_iff in H as [H1 H2].
    apply Bool.eqb_prop in H1. apply message_eqb_eq in H2. apply N.eqb_eq in H3. congruence.
  - apply N.eqb_eq in H. congruence.
  - apply N.eqb_eq in H. congruence.
  - apply N.eqb_eq in H. congruence.
  - apply N.eqb_eq in H. congruence.
  - apply andb_true_iff in H as [H1 H2]. apply N.eqb_eq in H1. apply (list_eqb_eq _ sub_eqb_eq) in H2. congruence.
  - apply andb_true_iff in H as [H1 H2]. apply N.eqb_eq in H1.
    apply (list_eqb_eq N.eqb (fun x y => proj1 (N.eqb_eq x y))) in H2. congruence.
  - apply andb_true_iff in H as [H1 H2]. apply N.eqb_eq in H1. apply (list_eqb_eq _ bytes_eqb_eq) in H2. congruence.
  - apply N.eqb_eq in H. congruence.
Qed.

Lemma is_role_true r g : is_role r g = true -> r = Some g.
Proof. destruct r as [g'|]; cbn [is_role]; [|discriminate]. intros H. apply N.eqb_eq in H. congruence. Qed.

Lemma is_role_some g : is_role (Some g) g = true.
Proof. cbn [is_role]. apply N.eqb_refl. Qed.

(* ------------------------------------------------------------------ tactics *)

(* reduce record projections of the record-update helpers *)
Ltac sf :=
  cbn [conn_no sess clos gproc gdeq gack gcl ph pp dp ap lp dying will cw cpp cps tdeq tpub tsub ackq
       set_pp set_dp set_ap set_lp set_sess set_clos set_dying set_tok set_ackq set_ph set_roles
       put_deq put_pub put_sub sess_save sess_delete freeze new_conn ack_token_back clo_enqueue] in *.

(* unfold the record-update helpers, then reduce the projections *)
Ltac sfu :=
  unfold put_deq, put_pub, put_sub, sess_save, sess_delete, freeze, new_conn,
         set_pp, set_dp, set_ap, set_lp, set_sess, set_clos, set_dying, set_tok, set_ackq, set_ph, set_roles in *;
  cbn [conn_no sess clos gproc gdeq gack gcl ph pp dp ap lp dying will cw cpp cps tdeq tpub tsub ackq] in *.

(* destruct the scrutinees of the matches in hypothesis H, one after the other *)
Ltac bm1 H :=
  first
  [ match type of H with
    | context [match ?x with _ => _ end] =>
        lazymatch x with
        | context [match _ with _ => _ end] => fail
        | _ => destruct x eqn:?
        end
    end
  | match type of H with
    | context [match ?x with _ => _ end] => destruct x eqn:?
    end ].
Ltac bm H := repeat (cbv beta iota zeta in H; bm1 H; try discriminate H).

(* destruct a state with field names that do not shadow the projections *)
Ltac dbc s := destruct s as [xn xs xc xgp xgd xga xgc xph xpp xdp xap xlp xdy xw xcw xcpp xcps xtd xtp xts xq].

Ltac inv_some H := cbv beta iota zeta in H; first [injection H as <- | injection H as H].

(* --------------------------------------------------------- shape of a step *)

Lemma bc_eta s : s = BC (conn_no s) (sess s) (clos s) (gproc s) (gdeq s) (gack s) (gcl s) (ph s) (pp s)
                        (dp s) (ap s) (lp s) (dying s) (will s) (cw s) (cpp s) (cps s) (tdeq s) (tpub s) (tsub s) (ackq s).
Proof. destruct s; reflexivity. Qed.

(* s1 is s with other role fields *)
Definition roles_only (s s1 : bc) : Prop :=
  s1 = set_roles s (gproc s1) (gdeq s1) (gack s1) (gcl s1).

Lemma roles_only_refl s : roles_only s s.
Proof. unfold roles_only. dbc s; reflexivity. Qed.

Lemma roles_only_set s p d a c : roles_only s (set_roles s p d a c).
Proof. unfold roles_only. reflexivity. Qed.

(* what a closure step can change: session, closure table, dying, ack queue *)
Lemma step_clo_shape s e s' : step_clo s e = Some s' ->
  exists se cl dy q,
    s' = BC (conn_no s) se cl (gproc s) (gdeq s) (gack s) (gcl s) (ph s) (pp s) (dp s) (ap s) (lp s)
            dy (will s) (cw s) (cpp s) (cps s) (tdeq s) (tpub s) (tsub s) q.
Proof.
  intros H. unfold step_clo, guard in H. destruct e; try discriminate H; bm H; inv_some H;
    unfold clo_enqueue; repeat match goal with |- context [if ?b then _ else _] => destruct b end;
    dbc s; sfu; eauto 10.
Qed.

Definition clo_event (e : event) : bool :=
  match e with
  | EAckCall _ _ | EAckRet _ _ | EDelete _ Incoming _ _ | EDie _ KSession | EConnClose _ => true
  | _ => false
  end.

Lemma step_clo_event s e s' : step_clo s e = Some s' -> clo_event e = true.
Proof.
  intros H. unfold step_clo in H. destruct e; try discriminate H; try reflexivity.
  - destruct d; [reflexivity|discriminate H].
  - destruct k; try discriminate H; reflexivity.
Qed.

(* dequeuer: session, dp, dying, tokens *)
Lemma step_deq_shape s e s' : step_deq s e = Some s' ->
  exists se d dy t1 t2 t3,
    s' = BC (conn_no s) se (clos s) (gproc s) (gdeq s) (gack s) (gcl s) (ph s) (pp s) d (ap s) (lp s)
            dy (will s) (cw s) (cpp s) (cps s) t1 t2 t3 (ackq s).
Proof.
  intros H. unfold step_deq, take_deq, guard in H. destruct (dp s) eqn:Edp; destruct e; try discriminate H; bm H; inv_some H;
    dbc s; sfu; eauto 10.
Qed.

(* acker: ap, dying, tokens, ack queue *)
Lemma step_ack_shape s e s' : step_ack s e = Some s' ->
  exists a dy t1 t2 t3 q,
    s' = BC (conn_no s) (sess s) (clos s) (gproc s) (gdeq s) (gack s) (gcl s) (ph s) (pp s) (dp s) a (lp s)
            dy (will s) (cw s) (cpp s) (cps s) t1 t2 t3 q.
Proof.
  intros H. unfold step_ack in H. destruct (ap s) eqn:Eap; destruct e; try discriminate H; bm H; inv_some H;
    unfold ack_token_back; try match goal with |- context [match ?p with Connect _ => _ | _ => _ end] => destruct p end;
    dbc s; sfu; eauto 10.
Qed.

(* ------------------------------------------------------- who made the step *)

Definition is_rx (e : event) : bool := match e with ERx _ _ | ERxErr _ => true | _ => false end.

Definition proc_view (s s1 : bc) (g : N) (e : event) : Prop :=
  (s1 = s /\ gproc s = Some g) \/
  (gproc s = None /\ role_free s g = true /\ s1 = set_roles s (Some g) (gdeq s) (gack s) (gcl s) /\ is_rx e = true).
Definition deq_view (s s1 : bc) (g : N) : Prop :=
  (s1 = s /\ gdeq s = Some g) \/
  (gdeq s = None /\ role_free s g = true /\ s1 = set_roles s (gproc s) (Some g) (gack s) (gcl s)).
Definition ack_view (s s1 : bc) (g : N) : Prop :=
  (s1 = s /\ gack s = Some g) \/
  (gack s = None /\ role_free s g = true /\ s1 = set_roles s (gproc s) (gdeq s) (Some g) (gcl s)).
Definition cl_view (s s1 : bc) (g : N) : Prop :=
  (s1 = s /\ gcl s = Some g) \/
  (gcl s = None /\ role_free s g = true /\ s1 = set_roles s (gproc s) (gdeq s) (gack s) (Some g)).

Inductive step_case (s : bc) (e : event) (s' : bc) : Prop :=
| SC_new : e = ENewConn -> lp s = LEnd -> s' = new_conn s -> step_case s e s'
| SC_closereq : e = ECloseReq -> conn_open s = true -> s' = s -> step_case s e s'
| SC_quiet : e = EQuiescent -> quiescent s = true -> s' = s -> step_case s e s'
| SC_clo : step_clo s e = Some s' -> step_case s e s'
| SC_closed : e = EClosed -> step_cleanup s e = Some s' -> step_case s e s'
| SC_proc g s1 : conn_open s = true -> ev_g e = Some g -> step_clo s e = None -> in_closure s g = false ->
    proc_view s s1 g e -> step_proc s1 e = Some s' -> step_case s e s'
| SC_deq g s1 : conn_open s = true -> ev_g e = Some g -> step_clo s e = None -> in_closure s g = false ->
    is_role (gproc s) g = false ->
    deq_view s s1 g -> step_deq s1 e = Some s' -> step_case s e s'
| SC_ack g s1 : conn_open s = true -> ev_g e = Some g -> step_clo s e = None -> in_closure s g = false ->
    is_role (gproc s) g = false -> is_role (gdeq s) g = false ->
    ack_view s s1 g -> step_ack s1 e = Some s' -> step_case s e s'
| SC_cl g s1 : conn_open s = true -> ev_g e = Some g -> step_clo s e = None -> in_closure s g = false ->
    is_role (gproc s) g = false -> is_role (gdeq s) g = false -> is_role (gack s) g = false ->
    cl_view s s1 g -> step_cleanup s1 e = Some s' -> step_case s e s'
| SC_ext g : e = EConnClose g -> conn_open s = true -> step_clo s e = None -> in_closure s g = false -> role_free s g = true ->
    s' = set_dying s -> step_case s e s'.

Lemma conn_open_false s : conn_open s = false -> lp s = LEnd.
Proof. unfold conn_open. destruct (lp s); intros H; try discriminate H; reflexivity. Qed.

Lemma conn_open_true s : conn_open s = true -> lp s <> LEnd.
Proof. unfold conn_open. intros H E. rewrite E in H. discriminate H. Qed.

Lemma role_free_of s g :
  is_role (gproc s) g = false -> is_role (gdeq s) g = false -> is_role (gack s) g = false ->
  is_role (gcl s) g = false -> role_free s g = true.
Proof. intros H1 H2 H3 H4. unfold role_free. rewrite H1, H2, H3, H4. reflexivity. Qed.

(* the generic branch of [step] *)
Definition step_gen (s : bc) (e : event) : option bc :=
  if negb (conn_open s) then step_clo s e
  else match ev_g e with
       | None => None
       | Some g =>
           first_some (step_clo s e)
           (if in_closure s g then None
            else if is_role (gproc s) g then step_proc s e
            else if is_role (gdeq s) g then step_deq s e
            else if is_role (gack s) g then step_ack s e
            else if is_role (gcl s) g then step_cleanup s e
            else
              match e with
              | ERx _ _ | ERxErr _ => bind (learn_proc s g) (fun s1 => step_proc s1 e)
              | EDeqCall _ => bind (learn_deq s g) (fun s1 => step_deq s1 e)
              | EDie _ KClient =>
                  match gdeq s, dp s with
                  | None, DToken => bind (learn_deq s g) (fun s1 => step_deq s1 e)
                  | _, _ => None
                  end
              | ETx _ _ _ _ => bind (learn_ack s g) (fun s1 => step_ack s1 e)
              | EPub _ _ None | ETerm _ _ => bind (learn_cl s g) (fun s1 => step_cleanup s1 e)
              | EConnClose _ => Some (set_dying s)
              | _ => None
              end)
       end.

Definition special_event (e : event) : bool :=
  match e with ENewConn | ECloseReq | EQuiescent | EAckCall _ _ | EAckRet _ _ | EClosed => true | _ => false end.

Lemma step_is_gen s e : special_event e = false -> step s e = step_gen s e.
Proof. destruct e; cbn [special_event]; intros H; try discriminate H; reflexivity. Qed.

Lemma learn_inv (r : option N) s g (s2 : bc) :
  match r with Some g' => guard (g =? g') s | None => guard (role_free s g) s2 end = None \/
  (exists g', r = Some g' /\ (g =? g') = true) \/ (r = None /\ role_free s g = true).
Proof.
  destruct r as [g'|]; unfold guard.
  - destruct (g =? g') eqn:E; [right; left; eauto|left; reflexivity].
  - destruct (role_free s g); [right; right; split; reflexivity|left; reflexivity].
Qed.

Lemma step_gen_cases s e s' : step_gen s e = Some s' -> step_case s e s'.
Proof.
  unfold step_gen. intros H.
  destruct (conn_open s) eqn:Eo; cbn [negb] in H; cbv iota in H; [|apply SC_clo; exact H].
  destruct (ev_g e) as [g|] eqn:Eg; [|discriminate H].
  unfold first_some in H. destruct (step_clo s e) as [sc|] eqn:Ec; [injection H as <-; apply SC_clo; exact Ec|].
  destruct (in_closure s g) eqn:Ei; [discriminate H|].
  destruct (is_role (gproc s) g) eqn:Rp.
  { eapply SC_proc; try eassumption. left. split; [reflexivity|apply is_role_true, Rp]. }
  destruct (is_role (gdeq s) g) eqn:Rd.
  { eapply SC_deq; try eassumption. left. split; [reflexivity|apply is_role_true, Rd]. }
  destruct (is_role (gack s) g) eqn:Ra.
  { eapply SC_ack; try eassumption. left. split; [reflexivity|apply is_role_true, Ra]. }
  destruct (is_role (gcl s) g) eqn:Rc.
  { eapply SC_cl; try eassumption. left. split; [reflexivity|apply is_role_true, Rc]. }
  assert (Hfree : role_free s g = true) by (apply role_free_of; assumption).
  assert (Hp : gproc s = None \/ exists g', gproc s = Some g') by (destruct (gproc s); eauto).
  unfold bind, learn_proc, learn_deq, learn_ack, learn_cl, guard in H.
  destruct e; try discriminate H; cbn [ev_g] in Eg; injection Eg as ->.
  - (* ERx *)
    destruct (gproc s) as [g'|] eqn:Egp; [cbn [is_role] in Rp; rewrite Rp in H; discriminate H|].
    rewrite Hfree in H. eapply SC_proc; try eassumption; [reflexivity|].
    right. repeat split; assumption.
  - (* ERxErr *)
    destruct (gproc s) as [g'|] eqn:Egp; [cbn [is_role] in Rp; rewrite Rp in H; discriminate H|].
    rewrite Hfree in H. eapply SC_proc; try eassumption; [reflexivity|].
    right. repeat split; assumption.
  - (* ETx *)
    destruct (gack s) as [g'|] eqn:Ega; [cbn [is_role] in Ra; rewrite Ra in H; discriminate H|].
    rewrite Hfree in H. eapply SC_ack; try eassumption; [reflexivity|].
    right. repeat split; assumption.
  - (* EConnClose *)
    injection H as <-. eapply SC_ext; try eassumption; reflexivity.
  - (* EPub *)
    destruct k; [discriminate H|].
    destruct (gcl s) as [g'|] eqn:Egc; [cbn [is_role] in Rc; rewrite Rc in H; discriminate H|].
    rewrite Hfree in H. eapply SC_cl; try eassumption; [reflexivity|].
    right. repeat split; assumption.
  - (* EDeqCall *)
    destruct (gdeq s) as [g'|] eqn:Egd; [cbn [is_role] in Rd; rewrite Rd in H; discriminate H|].
    rewrite Hfree in H. eapply SC_deq; try eassumption; [reflexivity|].
    right. repeat split; assumption.
  - (* ETerm *)
    destruct (gcl s) as [g'|] eqn:Egc; [cbn [is_role] in Rc; rewrite Rc in H; discriminate H|].
    rewrite Hfree in H. eapply SC_cl; try eassumption; [reflexivity|].
    right. repeat split; assumption.
  - (* EDie *)
    destruct k; try discriminate H.
    destruct (gdeq s) as [g'|] eqn:Egd; [discriminate H|].
    destruct (dp s) eqn:Edp; try discriminate H.
    rewrite Hfree in H. eapply SC_deq; try eassumption; [reflexivity|].
    right. repeat split; assumption.
Qed.

Theorem step_cases s e s' : step s e = Some s' -> step_case s e s'.
Proof.
  intros H. destruct (special_event e) eqn:Es.
  - destruct e; try discriminate Es; cbn [step] in H.
    + destruct (conn_open s) eqn:Eo; [discriminate H|]. injection H as <-.
      apply SC_new; [reflexivity|apply conn_open_false, Eo|reflexivity].
    + apply SC_clo, H.
    + apply SC_clo, H.
    + unfold guard in H. destruct (conn_open s) eqn:Eo; [|discriminate H]. injection H as <-.
      apply SC_closereq; auto.
    + apply SC_closed; [reflexivity|exact H].
    + unfold guard in H. destruct (quiescent s) eqn:Eo; [|discriminate H]. injection H as <-.
      apply SC_quiet; auto.
  - rewrite (step_is_gen _ _ Es) in H. apply step_gen_cases, H.
Qed.

(* ------------------------------------------------ association lists, lists *)

Lemma aget_filter_ne {A} (l : list (N * A)) k k' :
  k' <> k -> aget (filter (fun e => negb (fst e =? k)) l) k' = aget l k'.
Proof.
  intros Hne. induction l as [|[j v] l IH]; cbn [filter aget fst]; [reflexivity|].
  destruct (j =? k) eqn:Ej; cbn [negb aget].
  - apply N.eqb_eq in Ej. subst j. destruct (k' =? k) eqn:E; [apply N.eqb_eq in E; contradiction|exact IH].
  - destruct (k' =? j); [reflexivity|exact IH].
Qed.

Lemma aget_filter_eq {A} (l : list (N * A)) k :
  aget (filter (fun e => negb (fst e =? k)) l) k = None.
Proof.
  induction l as [|[j v] l IH]; cbn [filter aget fst]; [reflexivity|].
  destruct (j =? k) eqn:Ej; cbn [negb aget]; [exact IH|].
  rewrite N.eqb_sym, Ej. exact IH.
Qed.

Lemma aget_aput_eq {A} (l : list (N * A)) k v : aget (aput l k v) k = Some v.
Proof. unfold aput. cbn [aget]. rewrite N.eqb_refl. reflexivity. Qed.

Lemma aget_aput_ne {A} (l : list (N * A)) k k' v : k' <> k -> aget (aput l k v) k' = aget l k'.
Proof.
  intros Hne. unfold aput. cbn [aget]. destruct (k' =? k) eqn:E; [apply N.eqb_eq in E; contradiction|].
  apply aget_filter_ne, Hne.
Qed.

Lemma aget_adel_eq {A} (l : list (N * A)) k : aget (adel l k) k = None.
Proof. apply aget_filter_eq. Qed.

Lemma aget_adel_ne {A} (l : list (N * A)) k k' : k' <> k -> aget (adel l k) k' = aget l k'.
Proof. apply aget_filter_ne. Qed.

Lemma aget_cons_eq {A} (l : list (N * A)) k v : aget ((k, v) :: l) k = Some v.
Proof. cbn [aget]. rewrite N.eqb_refl. reflexivity. Qed.

Lemma aget_cons_ne {A} (l : list (N * A)) k k' v : k' <> k -> aget ((k, v) :: l) k' = aget l k'.
Proof. intros Hne. cbn [aget]. destruct (k' =? k) eqn:E; [apply N.eqb_eq in E; contradiction|reflexivity]. Qed.

Lemma nmem_true k l : nmem k l = true <-> In k l.
Proof.
  unfold nmem. rewrite existsb_exists. split.
  - intros (x & Hx & E). apply N.eqb_eq in E. subst; exact Hx.
  - intros H. exists k. split; [exact H|apply N.eqb_refl].
Qed.

Lemma nmem_false k l : nmem k l = false <-> ~ In k l.
Proof.
  rewrite <- nmem_true. destruct (nmem k l); split; intros H.
  - discriminate H.
  - exfalso; apply H; reflexivity.
  - intros H'; discriminate H'.
  - reflexivity.
Qed.

Lemma in_nremove1 k x l : In x (nremove1 k l) -> In x l.
Proof.
  induction l as [|y l IH]; cbn [nremove1]; [tauto|].
  destruct (y =? k); cbn [In]; tauto.
Qed.

Lemma in_nremove1_ne k x l : x <> k -> In x l -> In x (nremove1 k l).
Proof.
  intros Hne. induction l as [|y l IH]; cbn [nremove1 In]; [tauto|].
  destruct (y =? k) eqn:E; cbn [In].
  - apply N.eqb_eq in E. subst y. intros [H|H]; [congruence|exact H].
  - tauto.
Qed.

Lemma nodup_nremove1 k l : NoDup l -> NoDup (nremove1 k l) /\ ~ In k (nremove1 k l).
Proof.
  induction 1 as [|y l Hy Hnd IH]; cbn [nremove1]; [split; [constructor|tauto]|].
  destruct (y =? k) eqn:E.
  - apply N.eqb_eq in E. subst y. split; assumption.
  - apply N.eqb_neq in E. destruct IH as [IH1 IH2]. split.
    + constructor; [|exact IH1]. intros H. apply Hy. eapply in_nremove1, H.
    + cbn [In]. intros [H|H]; [congruence|tauto].
Qed.

Lemma first_some_inv a b x : first_some a b = Some x -> a = Some x \/ (a = None /\ b = Some x).
Proof. unfold first_some. destruct a; intros H; [left; exact H|right; split; [reflexivity|exact H]]. Qed.

(* ---------------------------------------------------------- session stores *)

Lemma s_in_sess_save_out s p : s_in (sess (sess_save s Outgoing p)) = s_in (sess s).
Proof. reflexivity. Qed.
Lemma s_in_sess_delete_out s i : s_in (sess (sess_delete s Outgoing i)) = s_in (sess s).
Proof. reflexivity. Qed.

Lemma aget_adel_some {A} (l : list (N * A)) k k' v : aget (adel l k) k' = Some v -> aget l k' = Some v /\ k' <> k.
Proof.
  intros H. destruct (N.eq_dec k' k) as [->|Hne].
  - rewrite aget_adel_eq in H. discriminate H.
  - rewrite aget_adel_ne in H by exact Hne. split; assumption.
Qed.

Lemma aget_in {A} (l : list (N * A)) k v : aget l k = Some v -> In (k, v) l.
Proof.
  induction l as [|[j w] l IH]; cbn [aget]; [discriminate|].
  destruct (k =? j) eqn:E.
  - intros H. injection H as ->. apply N.eqb_eq in E. subst. left; reflexivity.
  - intros H. right. apply IH, H.
Qed.
