(* ConnProofsB4.v — C07 exactly-once, part 1: the "last packet received by the
   processor" bookkeeping shared by the scanners, and the relation between the
   model and the prompt_acks scanner (pk_step). *)
From Coq Require Import List NArith Bool Lia.
From GM Require Import Base.Lts Codec.Packet Session.Ids Session.Store Session.StoreProofs
  Broker.Conn Broker.ConnSpec Broker.ConnBase Broker.ConnProofsB1 Broker.ConnProofsB2 Broker.ConnProofsB3.
Import ListNotations.
Open Scope N_scope.

(* ---------------------------------------------------- last packet received *)

Definition plast (x : ppc) (o : option packet) : Prop :=
  match x with
  | PPub1W id _ => exists d m', o = Some (Publish d m' id)
  | PRelLookup id | PRelPub id _ | PCompTx id => o = Some (Pubrel id)
  | _ => True
  end.

Definition last_rel (s : bc) (l : list (N * packet)) : Prop :=
  match gproc s with Some g => plast (pp s) (aget l g) | None => plast (pp s) None end.

Definition lt_next (l : list (N * packet)) (e : event) : list (N * packet) :=
  match e with ENewConn => [] | ERx g p => aput l g p | _ => l end.

Definition lt_quiet (e : event) : bool := match e with ENewConn | ERx _ _ => false | _ => true end.
Lemma lt_next_quiet l e : lt_quiet e = true -> lt_next l e = l.
Proof. destruct e; cbn; intros H; try discriminate H; reflexivity. Qed.

Lemma plast_none x o : plast x None -> plast x o.
Proof. destruct x; cbn [plast]; try tauto; try discriminate. intros (d & m' & E). discriminate E. Qed.

Lemma step_deq_event s e s' : step_deq s e = Some s' ->
  match e with
  | EDeqCall _ | EDie _ _ | EDeqRet _ _ | ENextId _ _ | ESave _ Outgoing _ _ | EDeqAck _ | ETx _ _ _ _ | EConnClose _ => True
  | _ => False
  end.
Proof.
  intros H. unfold step_deq in H. destruct (dp s); destruct e; try discriminate H; try exact I.
  destruct d; [discriminate H|exact I].
Qed.

Lemma step_ack_event s e s' : step_ack s e = Some s' ->
  match e with ETx _ _ _ _ | EDie _ _ | EConnClose _ => True | _ => False end.
Proof. intros H. unfold step_ack in H. destruct (ap s); destruct e; try discriminate H; exact I. Qed.

Lemma last_proc s l e s' g : gproc s = Some g -> ev_g e = Some g -> plast (pp s) (aget l g) ->
  step_proc s e = Some s' -> plast (pp s') (aget (lt_next l e) g).
Proof.
  intros Hg Heg HR H.
  unfold step_proc, proc_dispatch, die_p, guard, take_pub, take_sub, clo_reg, take_deq_if_any, take_deq in H.
  destruct (pp s) eqn:Epp; destruct e; try discriminate H; bm H; inv_some H;
    cbn [ev_g] in Heg; injection Heg as Heg; subst; sf; cbn [plast lt_next] in *;
    try exact I; try assumption; try (rewrite aget_aput_eq; eauto).
Qed.

Lemma last_rel_same s s' l : pp s' = pp s -> gproc s' = gproc s -> last_rel s l -> last_rel s' l.
Proof. unfold last_rel. intros -> ->. exact (fun x => x). Qed.

Lemma last_rel_done s' l : pp s' = PDone -> last_rel s' l.
Proof. unfold last_rel. intros ->. destruct (gproc s'); exact I. Qed.

Lemma last_hstep s l e s' : last_rel s l -> step s e = Some s' -> last_rel s' (lt_next l e).
Proof.
  intros HR H. apply step_cases in H.
  destruct H as [-> _ -> | -> _ -> | -> _ -> | H | -> H
                | g s1 _ Hev _ _ Hv H | g s1 _ _ _ _ _ Hv H | g s1 _ _ _ _ _ _ Hv H | g s1 _ _ _ _ _ _ _ Hv H
                | g -> _ _ _ _ ->].
  - exact I.
  - exact HR.
  - exact HR.
  - rewrite lt_next_quiet by (apply step_clo_event in H; destruct e; try discriminate H; reflexivity).
    apply step_clo_shape in H. destruct H as (se & cl & dy & q & ->). exact HR.
  - apply step_cleanup_frame in H. destruct H as (_ & _ & _ & Hg & _ & _ & [Hp|Hp] & _).
    + eapply last_rel_same; eassumption.
    + eapply last_rel_done; eassumption.
  - assert (Hg1 : gproc s1 = Some g) by (destruct Hv as [[-> Hg]|(_ & _ & -> & _)]; [exact Hg|reflexivity]).
    assert (HR1 : plast (pp s1) (aget l g)).
    { destruct Hv as [[-> Hg]|(Hn & _ & -> & _)]; unfold last_rel in HR.
      - rewrite Hg in HR. exact HR.
      - rewrite Hn in HR. apply plast_none. exact HR. }
    pose proof (last_proc _ _ _ _ _ Hg1 Hev HR1 H) as HR'.
    apply step_proc_clos in H. destruct H as (_ & _ & Hg' & _).
    unfold last_rel. rewrite Hg', Hg1. exact HR'.
  - rewrite lt_next_quiet by (apply step_deq_event in H; destruct e; try contradiction; reflexivity).
    apply step_deq_frame in H. destruct H as (_ & _ & Hp & Hg & _).
    eapply last_rel_same; [exact Hp|exact Hg|]. destruct Hv as [[-> _]|(_ & _ & ->)]; exact HR.
  - rewrite lt_next_quiet by (apply step_ack_event in H; destruct e; try contradiction; reflexivity).
    apply step_ack_frame in H. destruct H as (_ & _ & Hp & Hg & _).
    eapply last_rel_same; [exact Hp|exact Hg|]. destruct Hv as [[-> _]|(_ & _ & ->)]; exact HR.
  - rewrite lt_next_quiet by (apply step_cleanup_event in H; destruct e; try discriminate H; reflexivity).
    apply step_cleanup_frame in H. destruct H as (_ & _ & _ & Hg & _ & _ & [Hp|Hp] & _).
    + eapply last_rel_same; [exact Hp|exact Hg|]. destruct Hv as [[-> _]|(_ & _ & ->)]; exact HR.
    + eapply last_rel_done; eassumption.
  - exact HR.
Qed.

(* ------------------------------------------- model vs the prompt_acks scanner *)

Definition pk_clo (l : list closure) (op bu : list (N * N)) : Prop :=
  (forall c id, In c l -> c_kind c = KPubcomp id -> c_stat c = CReg -> aget op (c_k c) = Some id) /\
  (forall c id g, In c l -> c_kind c = KPubcomp id -> c_stat c = CDel g -> aget bu g = Some id) /\
  (forall k id, aget op k = Some id ->
     exists c, In c l /\ c_k c = k /\ c_stat c = CReg /\ c_kind c = KPubcomp id).

Definition pk_pp (x : ppc) (op bu : list (N * N)) (ov : list N) : Prop :=
  match x with
  | PRelPub id _ => (forall k, aget op k = Some id -> In k ov) /\ (forall g, aget bu g <> Some id)
  | _ => True
  end.

Definition pk_sc (op : list (N * N)) (ov : list N) : Prop :=
  forall k k' id, aget op k = Some id -> aget op k' = Some id -> k <> k' -> In k ov \/ In k' ov.

Definition pk_inv (s : bc) (u : pk_st) : Prop :=
  pk_clo (clos s) (pk_open u) (pk_busy u) /\
  pk_pp (pp s) (pk_open u) (pk_busy u) (pk_over u) /\
  pk_sc (pk_open u) (pk_over u).

Definition pk_rel (s : bc) (u : pk_st) : Prop := last_rel s (pk_last u) /\ pk_inv s u.

Definition idle_st (st : cstat) : bool := match st with CReg | CDel _ => false | _ => true end.
Definition irrelevant (c : closure) : Prop := (forall id, c_kind c <> KPubcomp id) \/ idle_st (c_stat c) = true.

(* an update of a closure that is irrelevant before and after *)
Lemma pk_clo_set_irr l c st op bu :
  NoDup (ckeys l) -> In c l -> irrelevant c -> irrelevant (Clo (c_k c) (c_conn c) (c_kind c) st) ->
  pk_clo l op bu -> pk_clo (clo_set l (c_k c) st) op bu.
Proof.
  intros Hnd Hin Hirr Hirr' (P1 & P2 & P5). repeat split.
  - intros c' id H Hk Hs. apply (in_clo_set _ _ _ _ Hnd) in H.
    destruct H as [[H _]|(x & Hx & Kx & ->)]; [eapply P1; eassumption|].
    assert (x = c) by (eapply ckeys_inj; eassumption). subst x. cbn [c_kind c_stat c_k] in *.
    destruct Hirr' as [Hi|Hi]; cbn [c_kind c_stat] in Hi; [exfalso; eapply Hi; eassumption|].
    rewrite Hs in Hi. discriminate Hi.
  - intros c' id g H Hk Hs. apply (in_clo_set _ _ _ _ Hnd) in H.
    destruct H as [[H _]|(x & Hx & Kx & ->)]; [eapply P2; eassumption|].
    assert (x = c) by (eapply ckeys_inj; eassumption). subst x. cbn [c_kind c_stat c_k] in *.
    destruct Hirr' as [Hi|Hi]; cbn [c_kind c_stat] in Hi; [exfalso; eapply Hi; eassumption|].
    rewrite Hs in Hi. discriminate Hi.
  - intros k id H. destruct (P5 k id H) as (c1 & H1 & K1 & S1 & Kd1).
    exists c1. repeat split; auto. apply clo_set_in_other; [exact H1|].
    intros E. assert (c1 = c) by (eapply ckeys_inj; try eassumption; congruence).
    subst c1. destruct Hirr as [Hi|Hi]; [eapply Hi; eassumption|]. rewrite S1 in Hi. discriminate Hi.
Qed.

(* a registered closure is appended *)
Lemma pk_clo_app_other l k n a op bu :
  (forall id, a <> KPubcomp id) -> pk_clo l op bu -> pk_clo (l ++ [Clo k n a CReg]) op bu.
Proof.
  intros Ha (P1 & P2 & P5). repeat split.
  - intros c id H Hk Hs. apply in_app_iff in H. cbn [In] in H. destruct H as [H|[<-|[]]]; [eapply P1; eassumption|].
    exfalso. eapply Ha. exact Hk.
  - intros c id g H Hk Hs. apply in_app_iff in H. cbn [In] in H. destruct H as [H|[<-|[]]]; [eapply P2; eassumption|].
    discriminate Hs.
  - intros k1 id H. destruct (P5 k1 id H) as (c1 & H1 & R). exists c1. split; [apply in_app_iff; left; exact H1|exact R].
Qed.

Lemma pk_clo_app_pc l k n id op bu :
  clo_find l k = None -> pk_clo l op bu -> pk_clo (l ++ [Clo k n (KPubcomp id) CReg]) ((k, id) :: op) bu.
Proof.
  intros Hf (P1 & P2 & P5). repeat split.
  - intros c id' H Hk Hs. apply in_app_iff in H. cbn [In] in H. destruct H as [H|[<-|[]]].
    + rewrite aget_cons_ne; [eapply P1; eassumption|]. eapply clo_find_none; eassumption.
    + cbn [c_kind c_k] in *. injection Hk as <-. apply aget_cons_eq.
  - intros c id' g H Hk Hs. apply in_app_iff in H. cbn [In] in H. destruct H as [H|[<-|[]]]; [eapply P2; eassumption|].
    discriminate Hs.
  - intros k1 id' H. destruct (N.eq_dec k1 k) as [->|Hne].
    + rewrite aget_cons_eq in H. injection H as <-. eexists. split; [apply in_app_iff; right; left; reflexivity|].
      repeat split.
    + rewrite aget_cons_ne in H by exact Hne. destruct (P5 k1 id' H) as (c1 & H1 & R).
      exists c1. split; [apply in_app_iff; left; exact H1|exact R].
Qed.

Lemma pk_clo_call l c g id op bu :
  NoDup (ckeys l) -> In c l -> c_stat c = CReg -> c_kind c = KPubcomp id ->
  (forall c', In c' l -> clo_on g c' = false) ->
  pk_clo l op bu -> pk_clo (clo_set l (c_k c) (CDel g)) (adel op (c_k c)) (aput bu g id).
Proof.
  intros Hnd Hin Hs Hk Hon (P1 & P2 & P5). repeat split.
  - intros c' id' H Hk' Hs'. apply (in_clo_set _ _ _ _ Hnd) in H.
    destruct H as [[H Hne]|(x & Hx & Kx & ->)]; [|discriminate Hs'].
    rewrite aget_adel_ne by exact Hne. eapply P1; eassumption.
  - intros c' id' g' H Hk' Hs'. apply (in_clo_set _ _ _ _ Hnd) in H.
    destruct H as [[H Hne]|(x & Hx & Kx & ->)].
    + pose proof (Hon _ H) as Ho. unfold clo_on in Ho. rewrite Hs' in Ho. apply N.eqb_neq in Ho.
      rewrite aget_aput_ne by congruence. eapply P2; eassumption.
    + assert (x = c) by (eapply ckeys_inj; eassumption). subst x. cbn [c_kind c_stat] in *.
      injection Hs' as <-. rewrite Hk in Hk'. injection Hk' as <-. apply aget_aput_eq.
  - intros k1 id1 H. apply aget_adel_some in H. destruct H as [H Hne].
    destruct (P5 k1 id1 H) as (c1 & H1 & K1 & R). exists c1. split; [|split; [exact K1|exact R]].
    apply clo_set_in_other; [exact H1|congruence].
Qed.

Lemma pk_clo_del l c g st op bu :
  NoDup (ckeys l) -> one_on l -> In c l -> clo_on g c = true -> idle_st st = true ->
  pk_clo l op bu -> pk_clo (clo_set l (c_k c) st) op (adel bu g).
Proof.
  intros Hnd Hone Hin Hon Hst (P1 & P2 & P5). repeat split.
  - intros c' id' H Hk' Hs'. apply (in_clo_set _ _ _ _ Hnd) in H.
    destruct H as [[H Hne]|(x & Hx & Kx & ->)]; [eapply P1; eassumption|].
    cbn [c_stat] in Hs'. rewrite Hs' in Hst. discriminate Hst.
  - intros c' id' g' H Hk' Hs'. apply (in_clo_set _ _ _ _ Hnd) in H.
    destruct H as [[H Hne]|(x & Hx & Kx & ->)].
    + rewrite aget_adel_ne; [eapply P2; eassumption|].
      intros ->. apply Hne. eapply Hone; try eassumption. apply clo_on_del, Hs'.
    + cbn [c_stat] in Hs'. rewrite Hs' in Hst. discriminate Hst.
  - intros k1 id1 H. destruct (P5 k1 id1 H) as (c1 & H1 & K1 & S1 & R). exists c1. repeat split; auto.
    apply clo_set_in_other; [exact H1|]. intros E.
    assert (c1 = c) by (eapply ckeys_inj; try eassumption; congruence). subst c1.
    unfold clo_on in Hon. rewrite S1 in Hon. discriminate Hon.
Qed.

Lemma pk_clo_adel_free l g op bu :
  (forall c', In c' l -> clo_on g c' = false) -> pk_clo l op bu -> pk_clo l op (adel bu g).
Proof.
  intros Hon (P1 & P2 & P5). repeat split; [exact P1| |exact P5].
  intros c' id' g' H Hk' Hs'. rewrite aget_adel_ne; [eapply P2; eassumption|].
  intros ->. pose proof (Hon _ H) as Hf. rewrite (clo_on_del _ _ Hs') in Hf. discriminate Hf.
Qed.

Lemma pk_last_next u e u' : pk_step u e = Some u' -> pk_last u' = lt_next (pk_last u) e.
Proof. intros H. unfold pk_step in H. destruct e; bm H; inv_some H; reflexivity. Qed.

(* what an acknowledgement call does to the scanner *)
Lemma pk_step_call u k g u' : pk_step u (EAckCall k g) = Some u' ->
  ~ In k (pk_over u) /\
  ((aget (pk_open u) k = None /\ u' = u) \/
   (exists id, aget (pk_open u) k = Some id /\
               u' = PkSt (pk_last u) (adel (pk_open u) k) (aput (pk_busy u) g id) (pk_over u))).
Proof.
  cbn [pk_step]. destruct (nmem k (pk_over u)) eqn:E; [discriminate|]. apply nmem_false in E.
  destruct (aget (pk_open u) k) as [id|]; intros H; injection H as <-; (split; [exact E|]).
  - right. eauto.
  - left. auto.
Qed.

Lemma pk_pp_call x op bu ov k g id :
  aget op k = Some id -> ~ In k ov -> pk_pp x op bu ov -> pk_pp x (adel op k) (aput bu g id) ov.
Proof.
  intros Ho Hn. destruct x; cbn [pk_pp]; try exact (fun x => x). intros [Ha Hb]. split.
  - intros k1 H. apply aget_adel_some in H. apply Ha, H.
  - intros g1. destruct (N.eq_dec g1 g) as [->|Hne].
    + rewrite aget_aput_eq. intros E. injection E as ->. apply Hn, Ha, Ho.
    + rewrite aget_aput_ne by exact Hne. apply Hb.
Qed.

Lemma pk_pp_del x op bu ov g : pk_pp x op bu ov -> pk_pp x op (adel bu g) ov.
Proof.
  destruct x; cbn [pk_pp]; try exact (fun x => x). intros [Ha Hb]. split; [exact Ha|].
  intros g1 E. apply aget_adel_some in E. eapply Hb, E.
Qed.

Lemma pk_sc_adel op ov k : pk_sc op ov -> pk_sc (adel op k) ov.
Proof.
  intros H k1 k2 id H1 H2 Hne. apply aget_adel_some in H1, H2. eapply H; [apply H1|apply H2|exact Hne].
Qed.

Lemma pk_inv_clo s u e s' u' : inv_c07 s -> pk_inv s u -> step_clo s e = Some s' -> pk_step u e = Some u' ->
  pk_inv s' u'.
Proof.
  intros (I1 & I2 & _) (Hc & Hp & Hsc) H Hu. apply step_clo_cases in H.
  destruct H as [k g c id -> Hf Hs Hi Hk -> | k g c -> Hf Hs Hi Hk -> | k g c -> Hf Hs Hi -> | g id c -> Hf ->
                | g id c -> Hf -> | g c -> Hin Hs -> | g c -> Hin Hs -> | k g c -> Hf Hs -> | k g c -> Hf Hs Hi ->].
  - (* call of a pubcomp closure *)
    apply clo_find_in in Hf. destruct Hf as [Hin <-].
    apply pk_step_call in Hu. destruct Hu as [Hno [[Hn ->]|(id' & Ho & ->)]].
    + destruct Hc as (P1 & _). rewrite (P1 _ _ Hin Hk Hs) in Hn. discriminate Hn.
    + assert (id' = id) by (destruct Hc as (P1 & _); rewrite (P1 _ _ Hin Hk Hs) in Ho; congruence). subst id'.
      unfold pk_inv; sf; cbn [pk_open pk_busy pk_over]. split; [|split].
      * apply pk_clo_call; auto. exact (in_closure_false _ _ Hi).
      * apply pk_pp_call; assumption.
      * apply pk_sc_adel, Hsc.
  - (* call of another closure *)
    apply clo_find_in in Hf. destruct Hf as [Hin <-].
    apply pk_step_call in Hu. destruct Hu as [Hno [[Hn ->]|(id' & Ho & ->)]].
    + unfold pk_inv. rewrite clos_enq. unfold clo_enqueue. destruct (clo_live s c); sf; (split; [|split]); try assumption;
        (apply pk_clo_set_irr; [exact I1|exact Hin|left; exact Hk|left; exact Hk|exact Hc]).
    + exfalso. destruct Hc as (_ & _ & P5). destruct (P5 _ _ Ho) as (c1 & H1 & K1 & S1 & Kd1).
      assert (c1 = c) by (eapply ckeys_inj; eassumption). subst c1. eapply Hk, Kd1.
  - (* call of a finished closure *)
    apply clo_find_in in Hf. destruct Hf as [Hin <-].
    apply pk_step_call in Hu. destruct Hu as [Hno [[Hn ->]|(id' & Ho & ->)]]; [split; [|split]; assumption|].
    exfalso. destruct Hc as (_ & _ & P5). destruct (P5 _ _ Ho) as (c1 & H1 & K1 & S1 & Kd1).
    assert (c1 = c) by (eapply ckeys_inj; eassumption). subst c1. rewrite S1 in Hs. discriminate Hs.
  - (* delete ok *)
    apply clo_del_find_in in Hf. destruct Hf as (Hin & Hs & Hk). cbn [pk_step] in Hu. injection Hu as <-.
    unfold pk_inv. rewrite clos_enq. cbn [pk_open pk_busy pk_over].
    assert (Epp : pp (set_clos (clo_enqueue (sess_delete s Incoming id) c) (clo_set (clos s) (c_k c) (CRun g))) = pp s)
      by (unfold clo_enqueue; destruct (clo_live _ c); reflexivity).
    rewrite Epp. split; [|split]; [apply pk_clo_del; auto using clo_on_del|apply pk_pp_del, Hp|exact Hsc].
  - (* delete failed *)
    apply clo_del_find_in in Hf. destruct Hf as (Hin & Hs & Hk). cbn [pk_step] in Hu. injection Hu as <-.
    unfold pk_inv; sf; cbn [pk_open pk_busy pk_over].
    split; [|split]; [apply pk_clo_del; auto using clo_on_del|apply pk_pp_del, Hp|exact Hsc].
  - cbn [pk_step] in Hu. injection Hu as <-. unfold pk_inv; sf. (split; [|split]); try assumption.
    apply pk_clo_set_irr; auto; right; [rewrite Hs|]; reflexivity.
  - cbn [pk_step] in Hu. injection Hu as <-. unfold pk_inv. destruct (c_conn c =? conn_no s); sf; (split; [|split]); try assumption;
      (apply pk_clo_set_irr; auto; right; [rewrite Hs|]; reflexivity).
  - (* return *)
    apply clo_find_in in Hf. destruct Hf as [Hin <-].
    cbn [pk_step] in Hu. injection Hu as <-. unfold pk_inv; sf; cbn [pk_open pk_busy pk_over].
    split; [|split]; [|apply pk_pp_del, Hp|exact Hsc].
    apply pk_clo_del; auto. unfold clo_on. rewrite Hs. apply N.eqb_refl.
  - (* return of a finished closure *)
    cbn [pk_step] in Hu. injection Hu as <-. unfold pk_inv; cbn [pk_open pk_busy pk_over].
    split; [|split]; [|apply pk_pp_del, Hp|exact Hsc].
    apply pk_clo_adel_free; [exact (in_closure_false _ _ Hi)|exact Hc].
Qed.

Lemma pk_lookup_over (op : list (N * N)) id k ov :
  aget op k = Some id -> In k (map fst (filter (fun e => snd e =? id) op) ++ ov).
Proof.
  intros H. apply in_app_iff. left. apply aget_in in H. apply in_map_iff. exists (k, id). split; [reflexivity|].
  apply filter_In. split; [exact H|]. cbn [snd]. apply N.eqb_refl.
Qed.

Lemma pk_lookup_busy (bu : list (N * N)) id g :
  existsb (fun e => snd e =? id) bu = false -> aget bu g <> Some id.
Proof.
  intros H E. apply aget_in in E.
  assert (existsb (fun e => snd e =? id) bu = true) by (apply existsb_exists; exists (g, id); split; [exact E|apply N.eqb_refl]).
  congruence.
Qed.

Lemma pk_sc_mono op ov ov' : (forall k, In k ov -> In k ov') -> pk_sc op ov -> pk_sc op ov'.
Proof. intros Hm H k k' id H1 H2 Hne. destruct (H k k' id H1 H2 Hne); [left|right]; auto. Qed.

Lemma pk_sc_cons op ov n id :
  (forall k, aget op k = Some id -> In k ov) -> pk_sc op ov -> pk_sc ((n, id) :: op) ov.
Proof.
  intros Ha H k k' id' H1 H2 Hne.
  destruct (N.eq_dec k n) as [->|Hk]; destruct (N.eq_dec k' n) as [->|Hk'].
  - contradiction.
  - rewrite aget_cons_eq in H1. injection H1 as <-. rewrite aget_cons_ne in H2 by exact Hk'. right. apply Ha, H2.
  - rewrite aget_cons_eq in H2. injection H2 as <-. rewrite aget_cons_ne in H1 by exact Hk. left. apply Ha, H1.
  - rewrite aget_cons_ne in H1 by exact Hk. rewrite aget_cons_ne in H2 by exact Hk'. eapply H; eassumption.
Qed.

Lemma pk_inv_proc s u e s' u' g : gproc s = Some g -> ev_g e = Some g ->
  plast (pp s) (aget (pk_last u) g) -> pk_inv s u ->
  step_proc s e = Some s' -> pk_step u e = Some u' -> pk_inv s' u'.
Proof.
  intros Hg Heg HL (Hc & Hp & Hsc) H Hu.
  unfold step_proc, proc_dispatch, die_p, guard, take_pub, take_sub, clo_reg, take_deq_if_any, take_deq in H.
  destruct (pp s) eqn:Epp; destruct e; try discriminate H; bm H; inv_some H;
    cbn [ev_g] in Heg; injection Heg as Heg; subst;
    try (cbn [pk_step] in Hu; injection Hu as <-);
    unfold pk_inv; sf; cbn [pk_open pk_busy pk_over pk_pp];
    try (split; [|split]; solve [assumption | exact I
                                 | apply pk_clo_app_other; [discriminate|assumption]]).
  all: try (unfold pk_step in Hu;
            match type of Hu with (if ?b then None else _) = _ => destruct b eqn:Eb; [discriminate Hu|] end;
            injection Hu as <-; cbn [pk_open pk_busy pk_over];
            split; [exact Hc|split; [|eapply pk_sc_mono; [|exact Hsc]; intros k Hk; apply in_app_iff; right; exact Hk]];
            try exact I).
  - (* PPub1W: the closure stands for a PUBACK *)
    destruct HL as (d & m' & HL). cbn [pk_step] in Hu. rewrite HL in Hu. injection Hu as <-.
    split; [|split]; [apply pk_clo_app_other; [discriminate|assumption]|exact I|assumption].
  - (* PRelLookup: the stored PUBLISH is found *)
    match goal with E : (_ =? _) && _ = true |- _ => apply andb_true_iff in E; destruct E as [E _]; apply N.eqb_eq in E; subst end.
    split; [intros k Hk; apply pk_lookup_over, Hk|intros g0; apply pk_lookup_busy, Eb].
  - (* PRelPub: the closure stands for the PUBCOMP *)
    cbn [plast] in HL. cbn [pk_step] in Hu. rewrite HL in Hu. injection Hu as <-. cbn [pk_open pk_busy pk_over].
    destruct Hp as [Ha Hb].
    split; [|split]; [apply pk_clo_app_pc; assumption|exact I|apply pk_sc_cons; assumption].
Qed.

Lemma pk_inv_same s s' u : clos s' = clos s -> pp s' = pp s -> pk_inv s u -> pk_inv s' u.
Proof. unfold pk_inv. intros -> ->. exact (fun x => x). Qed.

Lemma pk_inv_done s s' u : clos s' = clos s -> pp s' = PDone -> pk_inv s u -> pk_inv s' u.
Proof. unfold pk_inv. intros -> ->. intros (H1 & _ & H3). split; [exact H1|split; [exact I|exact H3]]. Qed.

Lemma pk_inv_hstep s u e s' u' : inv_c07 s -> pk_rel s u -> step s e = Some s' -> pk_step u e = Some u' ->
  pk_inv s' u'.
Proof.
  intros Hi [HL HR] H Hu. apply step_cases in H.
  destruct H as [-> _ -> | -> _ -> | -> _ -> | H | -> H
                | g s1 _ Hev _ _ Hv H | g s1 _ _ _ _ _ Hv H | g s1 _ _ _ _ _ _ Hv H | g s1 _ _ _ _ _ _ _ Hv H
                | g -> _ _ _ _ ->].
  - cbn [pk_step] in Hu. injection Hu as <-. destruct HR as (H1 & _ & H3). split; [exact H1|split; [exact I|exact H3]].
  - cbn [pk_step] in Hu. injection Hu as <-. exact HR.
  - cbn [pk_step] in Hu. injection Hu as <-. exact HR.
  - eapply pk_inv_clo; eassumption.
  - cbn [pk_step] in Hu. injection Hu as <-.
    apply step_cleanup_frame in H. destruct H as (_ & _ & Hc & _ & _ & _ & [Hp|Hp] & _).
    + eapply pk_inv_same; eassumption.
    + eapply pk_inv_done; eassumption.
  - assert (Hg1 : gproc s1 = Some g) by (destruct Hv as [[-> Hg]|(_ & _ & -> & _)]; [exact Hg|reflexivity]).
    assert (HL1 : plast (pp s1) (aget (pk_last u) g)).
    { destruct Hv as [[-> Hg]|(Hn & _ & -> & _)]; unfold last_rel in HL.
      - rewrite Hg in HL. exact HL.
      - rewrite Hn in HL. apply plast_none. exact HL. }
    assert (HR1 : pk_inv s1 u) by (destruct Hv as [[-> _]|(_ & _ & -> & _)]; exact HR).
    eapply pk_inv_proc; eassumption.
  - assert (Hq : pk_step u e = Some u).
    { apply step_deq_event in H. destruct e; try contradiction; reflexivity. }
    rewrite Hq in Hu. injection Hu as <-.
    apply step_deq_frame in H. destruct H as (_ & Hc & Hp & _).
    eapply pk_inv_same; [exact Hc|exact Hp|]. destruct Hv as [[-> _]|(_ & _ & ->)]; exact HR.
  - assert (Hq : pk_step u e = Some u).
    { apply step_ack_event in H. destruct e; try contradiction; reflexivity. }
    rewrite Hq in Hu. injection Hu as <-.
    apply step_ack_frame in H. destruct H as (_ & Hc & Hp & _).
    eapply pk_inv_same; [exact Hc|exact Hp|]. destruct Hv as [[-> _]|(_ & _ & ->)]; exact HR.
  - assert (Hq : pk_step u e = Some u).
    { apply step_cleanup_event in H. destruct e; try discriminate H; try reflexivity; destruct k; try discriminate H; reflexivity. }
    rewrite Hq in Hu. injection Hu as <-.
    apply step_cleanup_frame in H. destruct H as (_ & _ & Hc & _ & _ & _ & [Hp|Hp] & _).
    + eapply pk_inv_same; [exact Hc|exact Hp|]. destruct Hv as [[-> _]|(_ & _ & ->)]; exact HR.
    + eapply pk_inv_done; [exact Hc|exact Hp|]. destruct Hv as [[-> _]|(_ & _ & ->)]; exact HR.
  - cbn [pk_step] in Hu. injection Hu as <-. exact HR.
Qed.

Lemma pk_hstep s u e s' u' : inv_c07 s -> pk_rel s u -> step s e = Some s' -> pk_step u e = Some u' ->
  pk_rel s' u'.
Proof.
  intros Hi HR H Hu. split.
  - rewrite (pk_last_next _ _ _ Hu). apply (last_hstep _ _ _ _ (proj1 HR) H).
  - eapply pk_inv_hstep; eassumption.
Qed.

Lemma pk_rel_init : pk_rel bc_init (PkSt [] [] [] []).
Proof.
  split; [exact I|]. split; [|split; [exact I|]].
  - split; [|split]; cbn.
    + intros c id [].
    + intros c id g [].
    + intros k id E. discriminate E.
  - intros k k' id E. discriminate E.
Qed.
