(* ConnProofsA_gate.v — C20_gate: on every trace the model accepts, nothing is done
   on the connection's behalf before an accepted CONNECT. *)
From Coq Require Import List NArith Bool Lia.
From GM Require Import Base.Lts Codec.Packet Session.Ids Session.Store
  Broker.Conn Broker.ConnSpec Broker.ConnBase Broker.ConnProofsA_lib Broker.ConnProofsA_inv.
Import ListNotations.
Open Scope N_scope.

(* which control point of the processor corresponds to which stage of the scanner *)
Definition gate_R (s : bc) (t : stage) : Prop :=
  match t with
  | SAcc => True
  | S0 => ph s = Connecting /\ pp s = PFirst
  | SConn => ph s = Connecting /\ exists c, pp s = PAuth c
  | SDeny false => ph s = Connecting /\ pp s = PDeny
  | SDeny true | SBad => ph s = Connecting /\ dead_pp (pp s) = true
  end.

(* events the scanner ignores in every stage *)
Definition gate_neutral (e : event) : bool :=
  match e with
  | ENewConn | ERx _ _ | ERxErr _ | EAuth _ _ => false
  | _ => negb (is_effect e)
  end.

Lemma gate_neutral_step t e : gate_neutral e = true -> gate_step t e = Some t.
Proof. destruct t as [| |[|]| |]; destruct e; cbn; intros H; try discriminate H; reflexivity. Qed.

Lemma gate_acc e : e <> ENewConn -> gate_step SAcc e = Some SAcc.
Proof. destruct e; cbn; intros H; try reflexivity. contradiction. Qed.

Lemma clo_event_neutral e : clo_event e = true -> gate_neutral e = true.
Proof. destruct e; cbn; intros H; try discriminate H; reflexivity. Qed.

(* gate_R only looks at ph and pp *)
Lemma gate_R_ext s s' t : ph s' = ph s -> pp s' = pp s -> gate_R s t -> gate_R s' t.
Proof. intros H1 H2. unfold gate_R. rewrite H1, H2. auto. Qed.

Lemma cleanup_connecting s e s' :
  ph s = Connecting -> lp s = LNone \/ lp s = LEnd -> step_cleanup s e = Some s' -> e = EClosed.
Proof.
  intros Hph Hl H. unfold step_cleanup in H. rewrite Hph in H.
  destruct Hl as [Hl|Hl]; rewrite Hl in H; destruct e; try discriminate H; try reflexivity;
    cbn [phase_connected phase_geq_connected] in H; rewrite ?andb_false_r in H; cbn in H; try discriminate H.
  destruct k; discriminate H.
Qed.

Lemma gate_step_lemma s t e s' :
  inv_phase s -> gate_R s t -> step s e = Some s' -> exists t', gate_step t e = Some t' /\ gate_R s' t'.
Proof.
  intros Hi HR H.
  destruct (step_cases _ _ _ H) as
      [-> Hl -> | -> Ho -> | -> Hq -> | Hc | -> Hc | g s1 Ho Hg Hc Hin Hv Hp | g s1 Ho Hg Hc Hin R1 Hv Hp
      | g s1 Ho Hg Hc Hin R1 R2 Hv Hp | g s1 Ho Hg Hc Hin R1 R2 R3 Hv Hp | g -> Ho Hc Hin Hf ->].
  - (* ENewConn *) exists S0. split; [reflexivity|]. cbn [gate_R]; sf. auto.
  - exists t. split; [apply gate_neutral_step; reflexivity|exact HR].
  - exists t. split; [apply gate_neutral_step; reflexivity|exact HR].
  - (* closure *)
    exists t. split; [apply gate_neutral_step, clo_event_neutral, (step_clo_event _ _ _ Hc)|].
    destruct (step_clo_shape _ _ _ Hc) as (se & cl & dy & q & ->). exact HR.
  - (* EClosed *)
    exists t. split; [apply gate_neutral_step; reflexivity|].
    destruct (step_cleanup_shape _ _ _ Hc) as (p & d & a & l & -> & Hsh).
    destruct Hsh as [(-> & -> & -> & Hn)|(Hn & Hst & -> & -> & ->)]; [exact HR|].
    unfold all_stopped, proc_can_stop in Hst.
    destruct t as [| |[|]| |]; cbn [gate_R] in *; sf; try exact I;
      try (destruct HR as [HR1 HR2]; split; [exact HR1|reflexivity]).
    + destruct HR as [_ HR]. rewrite HR in Hst. discriminate Hst.
    + destruct HR as [_ [c HR]]. rewrite HR in Hst. discriminate Hst.
    + destruct HR as [_ HR]. rewrite HR in Hst. discriminate Hst.
  - (* processor *)
    assert (HR1 : gate_R s1 t).
    { destruct Hv as [[-> _]|(_ & _ & -> & _)]; [exact HR|exact HR]. }
    clear HR Hv Hc Hin Ho Hi H s. rename s1 into s.
    destruct t as [| |[|]| |]; cbn [gate_R] in HR1.
    + (* S0 *) destruct HR1 as [Hph Hpp]. unfold step_proc in Hp. rewrite Hpp in Hp.
      destruct e; try discriminate Hp.
      * destruct p; inv_some Hp; eexists; (split; [reflexivity|]); cbn [gate_R]; sf; eauto.
      * inv_some Hp. eexists; (split; [reflexivity|]); cbn [gate_R]; sf; eauto.
    + (* SConn *) destruct HR1 as [Hph [c Hpp]]. unfold step_proc in Hp. rewrite Hpp in Hp.
      destruct e; try discriminate Hp. destruct r; inv_some Hp; eexists; (split; [reflexivity|]);
        cbn [gate_R]; sf; eauto.
    + (* SDeny true *) destruct HR1 as [Hph Hpp]. unfold_proc Hp.
      destruct (pp s) eqn:Epp; try discriminate Hpp; destruct e; try discriminate Hp; bm Hp; inv_some Hp; subst;
        (eexists; split; [reflexivity|]); cbn [gate_R]; sf; auto.
    + (* SDeny false *) destruct HR1 as [Hph Hpp]. unfold step_proc in Hp. rewrite Hpp in Hp.
      destruct e; try discriminate Hp. unfold die_p in Hp. bm Hp; inv_some Hp; subst;
        (eexists; split; [reflexivity|]); cbn [gate_R]; sf; auto.
    + (* SAcc *) exists SAcc. split; [|exact I]. apply gate_acc. intros ->. discriminate Hg.
    + (* SBad *) destruct HR1 as [Hph Hpp]. unfold_proc Hp.
      destruct (pp s) eqn:Epp; try discriminate Hpp; destruct e; try discriminate Hp; bm Hp; inv_some Hp; subst;
        (eexists; split; [reflexivity|]); cbn [gate_R]; sf; auto.
  - (* dequeuer: not started before authentication *)
    assert (Hne : e <> ENewConn) by (intros ->; discriminate Hg).
    destruct t as [| |[|]| |]; cbn [gate_R] in HR;
      try (exists SAcc; split; [apply gate_acc, Hne|exact I]);
      destruct HR as [Hph _]; destruct Hi as [Hi _]; destruct (Hi Hph) as (_ & Hd & _);
      (assert (Hd1 : dp s1 = DOff) by (destruct Hv as [[-> _]|(_ & _ & ->)]; exact Hd));
      unfold step_deq in Hp; rewrite Hd1 in Hp; discriminate Hp.
  - (* acker: not started before authentication *)
    assert (Hne : e <> ENewConn) by (intros ->; discriminate Hg).
    destruct t as [| |[|]| |]; cbn [gate_R] in HR;
      try (exists SAcc; split; [apply gate_acc, Hne|exact I]);
      destruct HR as [Hph _]; destruct Hi as [Hi _]; destruct (Hi Hph) as (_ & _ & Hd & _);
      (assert (Hd1 : ap s1 = AOff) by (destruct Hv as [[-> _]|(_ & _ & ->)]; exact Hd));
      unfold step_ack in Hp; rewrite Hd1 in Hp; discriminate Hp.
  - (* cleanup: before authentication it can only close *)
    assert (Hne : e <> ENewConn) by (intros ->; discriminate Hg).
    destruct t as [| |[|]| |]; cbn [gate_R] in HR;
      try (exists SAcc; split; [apply gate_acc, Hne|exact I]);
      destruct HR as [Hph _]; destruct Hi as [Hi _]; destruct (Hi Hph) as (_ & _ & _ & _ & Hl);
      (assert (Hl1 : lp s1 = lp s) by (destruct Hv as [[-> _]|(_ & _ & ->)]; reflexivity));
      (assert (Hph1 : ph s1 = Connecting) by (destruct Hv as [[-> _]|(_ & _ & ->)]; exact Hph));
      rewrite <- Hl1 in Hl;
      rewrite (cleanup_connecting _ _ _ Hph1 Hl Hp) in Hg; discriminate Hg.
  - (* Close() from outside *)
    exists t. split; [apply gate_neutral_step; reflexivity|exact HR].
Qed.

Theorem c20_gate_holds : forall es s, bc_run es = Some s -> c20_gate es = true.
Proof.
  unfold c20_gate.
  apply (scan_sound_inv gate_step inv_phase gate_R inv_phase_init inv_phase_step gate_step_lemma).
  cbn. auto.
Qed.
